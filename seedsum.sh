#!/bin/bash
# seedsum.sh <patch> Cxx...: one summary line per check for a seeded change
PATCH=$1; shift
./seedtest.sh $PATCH "$@" 2>&1 | awk '
/VIOLATION/ { split($1,a,"[][]"); p=a[2]; if ($0 ~ /no-failing-input-found/) nf[p]++; else wf[p]++ }
/ quick: / { split($1,a,"[][]"); p=a[2]; printf "%s: with-input=%d no-input=%d | %s\n", p, wf[p], nf[p], substr($0, index($0,$2)) }'
