#!/bin/bash
# seedsum.sh <patch> Cxx...: apply a seeded change to /repo, run the quick checks, undo it; one summary
# line per check (violations with / without a concrete failing input).  Evidence is saved and restored.
PATCH=$(realpath $1); shift
cd "$(dirname "$(realpath "$0")")"
SAVE=$(mktemp -d /var/tmp/evidence-save.XXXXXX); cp -a evidence/. $SAVE/
git -C /repo apply $PATCH || { rm -rf $SAVE; exit 2; }
for p in "$@"; do
  ./check $p --tier quick > /var/tmp/seedsum.$$ 2>&1
  wi=$(grep -c '^VIOLATION' /var/tmp/seedsum.$$); ni=$(grep -c '^VIOLATION.*no-failing-input-found' /var/tmp/seedsum.$$)
  echo "$p: with-input=$((wi-ni)) no-input=$ni | $(grep ' quick: ' /var/tmp/seedsum.$$)"
done
rm -f /var/tmp/seedsum.$$
git -C /repo checkout -- . ; git -C /repo status --short | head -3
rm -rf evidence; mkdir evidence; cp -a $SAVE/. evidence/; rm -rf $SAVE
