(* reg.MaskSet (reg/set.go): map from register ID to a 16-bit byte-class mask, never holding a
   zero mask.  Modelled on std++ gmap N N; later proofs use only the characterising lemmas. *)
From Coq Require Import NArith List Lia Bool.
From stdpp Require Import gmap.
Open Scope N_scope.

Notation MS := (gmap N N).
Definition get (s : MS) (id : N) : N := default 0 (s !! id).
Definition mem (s : MS) (id k : N) : bool := N.testbit (get s id) k.

(* Add: (s[id] & mask) == mask -> unchanged (false) ; else s[id] |= mask (true) *)
Definition ms_add_c (s : MS) (id m : N) : MS * bool :=
  if N.land (get s id) m =? m then (s, false) else (<[id := N.lor (get s id) m]> s, true).
Definition ms_add (s : MS) (id m : N) : MS := fst (ms_add_c s id m).

(* Discard *)
Definition ms_discard (s : MS) (id m : N) : MS :=
  match s !! id with
  | None => s
  | Some cur => if N.land cur m =? 0 then s
                else let r := N.ldiff cur m in if r =? 0 then delete id s else <[id := r]> s
  end.

(* Update / DifferenceUpdate range over the Go map t: modelled by map_fold (any order) *)
Definition ms_update_c (s t : MS) : MS * bool :=
  map_fold (fun id m acc => let '(r, c) := ms_add_c (fst acc) id m in (r, c || snd acc)) (s, false) t.
Definition ms_update (s t : MS) : MS := fst (ms_update_c s t).
Definition ms_diff (s t : MS) : MS := map_fold (fun id m acc => ms_discard acc id m) s t.
Definition ms_of_kind (s : MS) (kind : N) : MS := filter (fun p : N * N => (fst p / 256) mod 256 = kind) s.

(* canonical dump for comparison with the implementation: sorted (id, mask) pairs *)
Definition ms_elements (s : MS) : list (N * N) := map_to_list s.
Definition ms_of_list (l : list (N * N)) : MS := fold_left (fun acc p => ms_add acc (fst p) (snd p)) l ∅.

(* ------------------------------------------------------------------ lemmas *)
Lemma get_insert s id m id' : get (<[id:=m]> s) id' = if id =? id' then m else get s id'.
Proof.
  unfold get. destruct (N.eqb_spec id id') as [->|H].
  - now rewrite lookup_insert.
  - now rewrite lookup_insert_ne.
Qed.
Lemma get_delete s id id' : get (delete id s) id' = if id =? id' then 0 else get s id'.
Proof.
  unfold get. destruct (N.eqb_spec id id') as [->|H].
  - now rewrite lookup_delete.
  - now rewrite lookup_delete_ne.
Qed.
Lemma get_empty id : get ∅ id = 0.
Proof. unfold get. now rewrite lookup_empty. Qed.
Lemma mem_empty id k : mem ∅ id k = false.
Proof. unfold mem. rewrite get_empty. apply N.bits_0. Qed.

Lemma land_eq_sub a m : N.land a m = m -> forall k, N.testbit m k = true -> N.testbit a k = true.
Proof. intros E k Hk. rewrite <- E in Hk. rewrite N.land_spec in Hk. now apply andb_true_iff in Hk as [? _]. Qed.

Lemma get_add s id m id' : get (ms_add s id m) id' = if id =? id' then N.lor (get s id') m else get s id'.
Proof.
  unfold ms_add, ms_add_c. destruct (N.eqb_spec (N.land (get s id) m) m) as [E|E]; cbn [fst].
  - destruct (N.eqb_spec id id') as [->|H]; [|reflexivity].
    apply N.bits_inj. intro k. rewrite N.lor_spec.
    destruct (N.testbit m k) eqn:Hk; [|now rewrite orb_false_r].
    rewrite (land_eq_sub _ _ E k Hk). reflexivity.
  - rewrite get_insert. destruct (N.eqb_spec id id') as [->|H]; reflexivity.
Qed.
Lemma mem_add s id m id' k : mem (ms_add s id m) id' k = mem s id' k || ((id =? id') && N.testbit m k).
Proof.
  unfold mem. rewrite get_add. destruct (id =? id'); simpl.
  - now rewrite N.lor_spec.
  - now rewrite orb_false_r.
Qed.

Lemma get_discard s id m id' : get (ms_discard s id m) id' = if id =? id' then N.ldiff (get s id') m else get s id'.
Proof.
  unfold ms_discard. destruct (s !! id) as [cur|] eqn:Hs.
  - assert (Hg : get s id = cur) by (unfold get; now rewrite Hs).
    destruct (N.eqb_spec (N.land cur m) 0) as [E|E].
    + destruct (N.eqb_spec id id') as [<-|H]; [|reflexivity].
      rewrite Hg. apply N.bits_inj. intro k. rewrite N.ldiff_spec.
      assert (Hk : N.testbit cur k && N.testbit m k = false) by (rewrite <- N.land_spec, E; apply N.bits_0).
      destruct (N.testbit cur k), (N.testbit m k); simpl in *; congruence.
    + destruct (N.eqb_spec (N.ldiff cur m) 0) as [Z|Z].
      * rewrite get_delete. destruct (N.eqb_spec id id') as [<-|H]; [|reflexivity]. now rewrite Hg, Z.
      * rewrite get_insert. destruct (N.eqb_spec id id') as [<-|H]; [|reflexivity]. now rewrite Hg.
  - destruct (N.eqb_spec id id') as [<-|H]; [|reflexivity].
    assert (Hg : get s id = 0) by (unfold get; now rewrite Hs). rewrite Hg. now rewrite N.ldiff_0_l.
Qed.
Lemma mem_discard s id m id' k : mem (ms_discard s id m) id' k = mem s id' k && negb ((id =? id') && N.testbit m k).
Proof.
  unfold mem. rewrite get_discard. destruct (id =? id'); simpl.
  - now rewrite N.ldiff_spec.
  - now rewrite andb_true_r.
Qed.

Lemma get_update s t id : get (ms_update s t) id = N.lor (get s id) (get t id).
Proof.
  unfold ms_update, ms_update_c. revert id.
  apply (map_fold_ind (fun (r : MS * bool) t => forall id, get (fst r) id = N.lor (get s id) (get t id))).
  - intro id. cbn [fst]. rewrite get_empty. now rewrite N.lor_0_r.
  - intros i x m [r c] Hi IH id. cbn [fst snd] in *.
    destruct (ms_add_c r i x) as [r' c'] eqn:E. cbn [fst].
    assert (Hr' : r' = ms_add r i x) by (unfold ms_add; now rewrite E). subst r'.
    rewrite get_add, get_insert, IH.
    destruct (N.eqb_spec i id) as [->|H]; [|reflexivity].
    assert (Hm : get m id = 0) by (unfold get; now rewrite Hi). rewrite Hm, N.lor_0_r. reflexivity.
Qed.
Lemma mem_update s t id k : mem (ms_update s t) id k = mem s id k || mem t id k.
Proof. unfold mem. now rewrite get_update, N.lor_spec. Qed.

Lemma get_diff s t id : get (ms_diff s t) id = N.ldiff (get s id) (get t id).
Proof.
  unfold ms_diff. revert id.
  apply (map_fold_ind (fun r t => forall id, get r id = N.ldiff (get s id) (get t id))).
  - intro id. rewrite get_empty. now rewrite N.ldiff_0_r.
  - intros i x m r Hi IH id. rewrite get_discard, get_insert, IH.
    destruct (N.eqb_spec i id) as [->|H]; [|reflexivity].
    assert (Hm : get m id = 0) by (unfold get; now rewrite Hi). rewrite Hm, N.ldiff_0_r. reflexivity.
Qed.
Lemma mem_diff s t id k : mem (ms_diff s t) id k = mem s id k && negb (mem t id k).
Proof. unfold mem. now rewrite get_diff, N.ldiff_spec. Qed.

(* the Go `changed` flag: unchanged means the set is the same and t was already included *)
Definition sub (a b : N) : Prop := N.land b a = a.   (* a ⊆ b *)
Lemma update_c_false s t :
  snd (ms_update_c s t) = false -> fst (ms_update_c s t) = s /\ forall id, sub (get t id) (get s id).
Proof.
  unfold ms_update_c.
  apply (map_fold_ind (fun (r : MS * bool) t' => snd r = false -> fst r = s /\ forall id, sub (get t' id) (get s id))).
  - intros _. split; [reflexivity|]. intro id. unfold sub. rewrite get_empty. apply N.land_0_r.
  - intros i x m [r c] Hi IH. cbn [fst snd] in *. unfold ms_add_c.
    destruct (N.eqb_spec (N.land (get r i) x) x) as [E|E]; cbn [fst snd].
    + intro Hc. destruct (IH Hc) as [-> Hsub]. split; [reflexivity|].
      intro id. rewrite get_insert. destruct (N.eqb_spec i id) as [<-|?]; [exact E|apply Hsub].
    + discriminate.
Qed.
Lemma sub_mem a b : sub a b -> forall k, N.testbit a k = true -> N.testbit b k = true.
Proof. unfold sub. intros E k Hk. eapply land_eq_sub; eauto. Qed.

Lemma get_of_kind s kind id : get (ms_of_kind s kind) id = if (id / 256) mod 256 =? kind then get s id else 0.
Proof.
  unfold get, ms_of_kind. destruct (N.eqb_spec ((id / 256) mod 256) kind) as [E|E].
  - destruct (s !! id) as [m|] eqn:Hs.
    + erewrite map_filter_lookup_Some_2; eauto.
    + rewrite map_filter_lookup_None_2; auto.
  - rewrite map_filter_lookup_None_2; [reflexivity|]. right. intros x _. cbn. assumption.
Qed.
