(* Shared imports and small helpers for all models. Stdlib only. *)
From Coq Require Export List NArith ZArith Bool Lia String Ascii.
From Coq Require Export ZifyBool ZifyNat ZifyN.
Export ListNotations.

(* results of model functions: Go error returns and Go panics are both visible *)
Inductive res (A : Type) : Type :=
| OK (a : A)
| Err (e : N)        (* error, small enum code *)
| Panic (p : N).     (* Go panic site, small enum code *)
Arguments OK {A} a.
Arguments Err {A} e.
Arguments Panic {A} p.

Definition res_bind {A B} (r : res A) (f : A -> res B) : res B :=
  match r with OK a => f a | Err e => Err e | Panic p => Panic p end.
Notation "'do' x <- r ; k" := (res_bind r (fun x => k)) (at level 200, x name, r at level 100, k at level 200).

Definition is_ok {A} (r : res A) : bool := match r with OK _ => true | _ => false end.

Fixpoint index_list_from {A} (n : nat) (l : list A) : list (nat * A) :=
  match l with [] => [] | x :: xs => (n, x) :: index_list_from (S n) xs end.
Definition index_list {A} (l : list A) := index_list_from 0 l.

Fixpoint Nrange_from (start : N) (n : nat) : list N :=
  match n with O => [] | S k => start :: Nrange_from (N.succ start) k end.
Definition Nrange (n : nat) : list N := Nrange_from 0%N n.

Lemma Nrange_from_In start n x : In x (Nrange_from start n) <-> (start <= x /\ x < start + N.of_nat n)%N.
Proof.
  revert start; induction n as [|n IH]; intro start; cbn [Nrange_from In].
  - lia.
  - rewrite IH. lia.
Qed.
Lemma Nrange_In n x : In x (Nrange n) <-> (x < N.of_nat n)%N.
Proof. unfold Nrange. rewrite Nrange_from_In. lia. Qed.

(* list of N bytes -> string, used by generated case files for arbitrary byte strings *)
Fixpoint bs (l : list N) : string :=
  match l with [] => EmptyString | b :: r => String (ascii_of_N b) (bs r) end.
Fixpoint bytes_of (s : string) : list N :=
  match s with EmptyString => [] | String c r => N_of_ascii c :: bytes_of r end.

Fixpoint list_eqb {A} (eqb : A -> A -> bool) (l1 l2 : list A) : bool :=
  match l1, l2 with
  | [], [] => true
  | x :: xs, y :: ys => eqb x y && list_eqb eqb xs ys
  | _, _ => false
  end.
Lemma list_eqb_spec {A} (eqb : A -> A -> bool) :
  (forall x y, eqb x y = true <-> x = y) -> forall l1 l2, list_eqb eqb l1 l2 = true <-> l1 = l2.
Proof.
  intros H; induction l1 as [|x xs IH]; destruct l2 as [|y ys]; cbn [list_eqb]; try (split; congruence).
  rewrite andb_true_iff, H, IH. split; [intros [-> ->]; reflexivity | intros [= -> ->]; auto].
Qed.

Definition option_eqb {A} (eqb : A -> A -> bool) (a b : option A) : bool :=
  match a, b with Some x, Some y => eqb x y | None, None => true | _, _ => false end.

(* indices (as N) of the elements satisfying f: used by generated case files *)
Definition idx_where {A} (f : A -> bool) (l : list A) : list N :=
  List.map (fun p => N.of_nat (fst p)) (List.filter (fun p => f (snd p)) (index_list l)).
