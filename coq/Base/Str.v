(* Text helpers: decimal rendering/parsing of N and Z (model of fmt %d / strconv.Itoa and of the
   assembler's integer reader), joins and splits.  Proofs of the round-trips are here. *)
From Avo Require Import Base.Prelude.
Open Scope N_scope.

Definition digit_char (d : N) : ascii := ascii_of_N (48 + d).
Definition char_digit (c : ascii) : option N :=
  let n := N_of_ascii c in if (48 <=? n) && (n <=? 57) then Some (n - 48) else None.

(* least-significant-first digits *)
Fixpoint digits_rev (fuel : nat) (n : N) : list N :=
  match fuel with
  | O => []
  | S f => if n <? 10 then [n] else (n mod 10) :: digits_rev f (n / 10)
  end.
Definition dec_fuel (n : N) : nat := S (N.to_nat (N.log2 n)).
Definition digits_of (n : N) : list N := rev (digits_rev (dec_fuel n) n).

Fixpoint string_of_digits (l : list N) : string :=
  match l with [] => EmptyString | d :: r => String (digit_char d) (string_of_digits r) end.
Definition dec_of_N (n : N) : string := string_of_digits (digits_of n).

Fixpoint parse_digits (s : string) : option (list N) :=
  match s with
  | EmptyString => Some []
  | String c r => match char_digit c, parse_digits r with
                  | Some d, Some l => Some (d :: l)
                  | _, _ => None
                  end
  end.
Definition val_digits (l : list N) : N := fold_left (fun acc d => acc * 10 + d) l 0.
Definition parse_dec (s : string) : option N :=
  match s with
  | EmptyString => None
  | _ => match parse_digits s with Some l => Some (val_digits l) | None => None end
  end.

(* signed decimal: Go %d prints '-' for negatives; %+d always prints a sign *)
Definition dec_of_Z (z : Z) : string :=
  match z with
  | Z0 => "0"%string
  | Zpos p => dec_of_N (Npos p)
  | Zneg p => String "-"%char (dec_of_N (Npos p))
  end.
Definition dec_of_Z_plus (z : Z) : string :=
  match z with
  | Z0 => "+0"%string
  | Zpos p => String "+"%char (dec_of_N (Npos p))
  | Zneg p => String "-"%char (dec_of_N (Npos p))
  end.
Definition parse_Z (s : string) : option Z :=
  match s with
  | String "-"%char r => match parse_dec r with Some n => Some (- Z.of_N n)%Z | None => None end
  | String "+"%char r => match parse_dec r with Some n => Some (Z.of_N n) | None => None end
  | _ => match parse_dec s with Some n => Some (Z.of_N n) | None => None end
  end.

(* joins and splits *)
Fixpoint join (sep : string) (l : list string) : string :=
  match l with
  | [] => EmptyString
  | [x] => x
  | x :: r => append x (append sep (join sep r))
  end.
(* split on a single character (right fold, linear) *)
Fixpoint split (c : ascii) (s : string) : list string :=
  match s with
  | EmptyString => [EmptyString]
  | String a r =>
    let l := split c r in
    if Ascii.eqb a c then EmptyString :: l
    else match l with h :: t => String a h :: t | [] => [String a EmptyString] end
  end.

Fixpoint contains_char (c : ascii) (s : string) : bool :=
  match s with EmptyString => false | String a r => Ascii.eqb a c || contains_char c r end.

(* ---------------------------------------------------------------- proofs *)

Lemma char_digit_digit_char d : d < 10 -> char_digit (digit_char d) = Some d.
Proof.
  intro H. unfold char_digit, digit_char. rewrite N_ascii_embedding by lia.
  replace ((48 <=? 48 + d) && (48 + d <=? 57)) with true by lia. f_equal. lia.
Qed.

Lemma digits_rev_lt fuel n : Forall (fun d => d < 10) (digits_rev fuel n).
Proof.
  revert n; induction fuel as [|f IH]; intro n; cbn [digits_rev]; [constructor|].
  destruct (N.ltb_spec n 10).
  - constructor; [assumption|constructor].
  - constructor; [apply N.mod_lt; lia|apply IH].
Qed.

Definition val_rev (l : list N) : N := fold_right (fun d acc => d + 10 * acc) 0 l.

Lemma log2_div10 n : 10 <= n -> (N.log2 (n / 10) < N.log2 n).
Proof.
  intro H. assert (n / 10 <= n / 2) by (apply N.div_le_compat_l; lia).
  assert (N.log2 (n / 2) = N.log2 n - 1).
  { rewrite <- N.div2_div, N.div2_spec, N.log2_shiftr. reflexivity. }
  assert (N.log2 (n/10) <= N.log2 (n/2)) by (apply N.log2_le_mono; assumption).
  assert (1 <= N.log2 n). { change 1 with (N.log2 2). apply N.log2_le_mono. lia. }
  lia.
Qed.

Lemma val_rev_digits_rev fuel n : (N.to_nat (N.log2 n) < fuel)%nat -> val_rev (digits_rev fuel n) = n.
Proof.
  revert n; induction fuel as [|f IH]; intros n Hf; [lia|].
  cbn [digits_rev]. destruct (N.ltb_spec n 10) as [Hlt|Hge].
  - cbn. lia.
  - cbn [val_rev fold_right]. fold (val_rev (digits_rev f (n / 10))).
    rewrite IH.
    + pose proof (N.div_mod n 10). lia.
    + pose proof (log2_div10 n Hge). lia.
Qed.

Lemma val_digits_rev l : val_digits (rev l) = val_rev l.
Proof.
  unfold val_digits, val_rev. induction l as [|d l IH]; cbn [rev fold_right]; [reflexivity|].
  rewrite fold_left_app. cbn [fold_left]. rewrite IH. lia.
Qed.

Lemma parse_digits_string_of l : Forall (fun d => d < 10) l -> parse_digits (string_of_digits l) = Some l.
Proof.
  induction 1 as [|d l Hd _ IH]; cbn [string_of_digits parse_digits]; [reflexivity|].
  rewrite char_digit_digit_char by assumption. rewrite IH. reflexivity.
Qed.

Lemma digits_of_nonempty n : digits_of n <> [].
Proof.
  unfold digits_of, dec_fuel. cbn [digits_rev]. destruct (n <? 10); cbn [rev]; intro H;
  apply app_eq_nil in H; destruct H; discriminate.
Qed.

Theorem parse_dec_of_N n : parse_dec (dec_of_N n) = Some n.
Proof.
  unfold parse_dec, dec_of_N.
  assert (Hp : parse_digits (string_of_digits (digits_of n)) = Some (digits_of n)).
  { apply parse_digits_string_of. unfold digits_of. apply Forall_rev, digits_rev_lt. }
  destruct (digits_of n) as [|d l] eqn:E; [exfalso; eapply digits_of_nonempty; eauto|].
  cbn [string_of_digits]. cbn [string_of_digits] in Hp. rewrite Hp. f_equal.
  rewrite <- E. unfold digits_of. rewrite val_digits_rev. apply val_rev_digits_rev. unfold dec_fuel. lia.
Qed.

Lemma dec_of_N_first_digit n : exists c r, dec_of_N n = String c r /\ char_digit c <> None.
Proof.
  unfold dec_of_N. pose proof (digits_of_nonempty n) as Hne.
  assert (Hall : Forall (fun d => d < 10) (digits_of n)) by (apply Forall_rev, digits_rev_lt).
  destruct (digits_of n) as [|d l]; [congruence|]. cbn. eexists _, _. split; [reflexivity|].
  inversion Hall; subst. rewrite char_digit_digit_char by assumption. discriminate.
Qed.

Lemma char_digit_minus : char_digit "-"%char = None. Proof. reflexivity. Qed.
Lemma char_digit_plus : char_digit "+"%char = None. Proof. reflexivity. Qed.

Lemma first_digit_not_sign c : char_digit c <> None -> c <> "-"%char /\ c <> "+"%char.
Proof. intro H; split; intro E; subst c; apply H; reflexivity. Qed.

Theorem parse_Z_dec_of_Z z : parse_Z (dec_of_Z z) = Some z.
Proof.
  destruct z as [|p|p]; [reflexivity| |].
  - unfold dec_of_Z. destruct (dec_of_N_first_digit (Npos p)) as (c & r & E & Hc).
    pose proof (parse_dec_of_N (Npos p)) as HP. unfold parse_Z. rewrite E in *.
    destruct (first_digit_not_sign c Hc) as [H1 H2].
    destruct c as [[] [] [] [] [] [] [] []]; try congruence; rewrite HP; reflexivity.
  - unfold dec_of_Z, parse_Z. rewrite parse_dec_of_N. reflexivity.
Qed.

Theorem parse_Z_dec_of_Z_plus z : parse_Z (dec_of_Z_plus z) = Some z.
Proof.
  destruct z as [|p|p]; [reflexivity| |]; unfold dec_of_Z_plus, parse_Z; rewrite parse_dec_of_N; reflexivity.
Qed.

(* split/join *)
Lemma split_nonempty c s : split c s <> [].
Proof. destruct s as [|a r]; cbn [split]; [discriminate|]. destruct (Ascii.eqb a c); [discriminate|]. destruct (split c r); discriminate. Qed.

Lemma split_append c s t : contains_char c s = false ->
  split c (append s t) = match split c t with h :: r => append s h :: r | [] => [] end.
Proof.
  induction s as [|a s IH]; intro H; cbn [append].
  - destruct (split c t); reflexivity.
  - cbn [contains_char] in H. apply orb_false_iff in H as [Ha Hs]. cbn [split]. rewrite Ha.
    rewrite IH by assumption. pose proof (split_nonempty c t) as Hne. destruct (split c t); [congruence|reflexivity].
Qed.

Lemma append_nil_r s : append s EmptyString = s.
Proof. induction s; cbn; congruence. Qed.

Lemma split_no_sep c s : contains_char c s = false -> split c s = [s].
Proof. intro H. rewrite <- (append_nil_r s) at 1. rewrite split_append by assumption. cbn. now rewrite append_nil_r. Qed.

Theorem split_join c l : l <> [] -> Forall (fun s => contains_char c s = false) l ->
  split c (join (String c EmptyString) l) = l.
Proof.
  intros Hne Hall. induction Hall as [|x l Hx Hall IH]; [congruence|].
  destruct l as [|y l].
  - cbn [join]. apply split_no_sep; assumption.
  - change (join (String c EmptyString) (x :: y :: l)) with (append x (append (String c EmptyString) (join (String c EmptyString) (y :: l)))).
    rewrite split_append by assumption. cbn [append]. 
    change (split c (String c (join (String c EmptyString) (y :: l)))) with
      (if Ascii.eqb c c then EmptyString :: split c (join (String c EmptyString) (y :: l))
       else match split c (join (String c EmptyString) (y :: l)) with h :: t => String c h :: t | [] => [String c EmptyString] end).
    rewrite Ascii.eqb_refl. rewrite IH by discriminate. now rewrite append_nil_r.
Qed.
