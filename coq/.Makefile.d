Base/MaskSet.vo Base/MaskSet.glob Base/MaskSet.v.beautified Base/MaskSet.required_vo: Base/MaskSet.v 
Base/MaskSet.vio: Base/MaskSet.v 
Base/MaskSet.vos Base/MaskSet.vok Base/MaskSet.required_vos: Base/MaskSet.v 
Base/Prelude.vo Base/Prelude.glob Base/Prelude.v.beautified Base/Prelude.required_vo: Base/Prelude.v 
Base/Prelude.vio: Base/Prelude.v 
Base/Prelude.vos Base/Prelude.vok Base/Prelude.required_vos: Base/Prelude.v 
Base/Str.vo Base/Str.glob Base/Str.v.beautified Base/Str.required_vo: Base/Str.v Base/Prelude.vo
Base/Str.vio: Base/Str.v Base/Prelude.vio
Base/Str.vos Base/Str.vok Base/Str.required_vos: Base/Str.v Base/Prelude.vos
Model/Alloc.vo Model/Alloc.glob Model/Alloc.v.beautified Model/Alloc.required_vo: Model/Alloc.v Base/Prelude.vo Base/MaskSet.vo Model/IR.vo Model/RegFile.vo Model/Liveness.vo
Model/Alloc.vio: Model/Alloc.v Base/Prelude.vio Base/MaskSet.vio Model/IR.vio Model/RegFile.vio Model/Liveness.vio
Model/Alloc.vos Model/Alloc.vok Model/Alloc.required_vos: Model/Alloc.v Base/Prelude.vos Base/MaskSet.vos Model/IR.vos Model/RegFile.vos Model/Liveness.vos
Model/AsmSyntax.vo Model/AsmSyntax.glob Model/AsmSyntax.v.beautified Model/AsmSyntax.required_vo: Model/AsmSyntax.v Base/Prelude.vo Base/Str.vo Base/MaskSet.vo Model/IR.vo Model/RegFile.vo Model/Data.vo
Model/AsmSyntax.vio: Model/AsmSyntax.v Base/Prelude.vio Base/Str.vio Base/MaskSet.vio Model/IR.vio Model/RegFile.vio Model/Data.vio
Model/AsmSyntax.vos Model/AsmSyntax.vok Model/AsmSyntax.required_vos: Model/AsmSyntax.v Base/Prelude.vos Base/Str.vos Base/MaskSet.vos Model/IR.vos Model/RegFile.vos Model/Data.vos
Model/Attr.vo Model/Attr.glob Model/Attr.v.beautified Model/Attr.required_vo: Model/Attr.v Base/Prelude.vo Base/Str.vo
Model/Attr.vio: Model/Attr.v Base/Prelude.vio Base/Str.vio
Model/Attr.vos Model/Attr.vok Model/Attr.required_vos: Model/Attr.v Base/Prelude.vos Base/Str.vos
Model/Builder.vo Model/Builder.glob Model/Builder.v.beautified Model/Builder.required_vo: Model/Builder.v Base/Prelude.vo Base/Str.vo Model/Data.vo Model/Layout.vo
Model/Builder.vio: Model/Builder.v Base/Prelude.vio Base/Str.vio Model/Data.vio Model/Layout.vio
Model/Builder.vos Model/Builder.vok Model/Builder.required_vos: Model/Builder.v Base/Prelude.vos Base/Str.vos Model/Data.vos Model/Layout.vos
Model/CFG.vo Model/CFG.glob Model/CFG.v.beautified Model/CFG.required_vo: Model/CFG.v Base/Prelude.vo Base/MaskSet.vo Model/IR.vo
Model/CFG.vio: Model/CFG.v Base/Prelude.vio Base/MaskSet.vio Model/IR.vio
Model/CFG.vos Model/CFG.vok Model/CFG.required_vos: Model/CFG.v Base/Prelude.vos Base/MaskSet.vos Model/IR.vos
Model/Cert.vo Model/Cert.glob Model/Cert.v.beautified Model/Cert.required_vo: Model/Cert.v Base/Prelude.vo Base/MaskSet.vo Model/IR.vo Model/Liveness.vo
Model/Cert.vio: Model/Cert.v Base/Prelude.vio Base/MaskSet.vio Model/IR.vio Model/Liveness.vio
Model/Cert.vos Model/Cert.vok Model/Cert.required_vos: Model/Cert.v Base/Prelude.vos Base/MaskSet.vos Model/IR.vos Model/Liveness.vos
Model/CfgLive.vo Model/CfgLive.glob Model/CfgLive.v.beautified Model/CfgLive.required_vo: Model/CfgLive.v Base/Prelude.vo Base/MaskSet.vo Model/IR.vo Model/CFG.vo
Model/CfgLive.vio: Model/CfgLive.v Base/Prelude.vio Base/MaskSet.vio Model/IR.vio Model/CFG.vio
Model/CfgLive.vos Model/CfgLive.vok Model/CfgLive.required_vos: Model/CfgLive.v Base/Prelude.vos Base/MaskSet.vos Model/IR.vos Model/CFG.vos
Model/Check.vo Model/Check.glob Model/Check.v.beautified Model/Check.required_vo: Model/Check.v Base/Prelude.vo Base/MaskSet.vo Model/IR.vo Model/RegFile.vo Model/CFG.vo Model/Liveness.vo Model/Alloc.vo Model/Cleanup.vo Model/Pipeline.vo Model/Obs.vo Model/Sem.vo Proofs/SimLink.vo Proofs/SimValidator.vo Proofs/AllocCorrect.vo Proofs/AllocSim.vo Model/Cert.vo
Model/Check.vio: Model/Check.v Base/Prelude.vio Base/MaskSet.vio Model/IR.vio Model/RegFile.vio Model/CFG.vio Model/Liveness.vio Model/Alloc.vio Model/Cleanup.vio Model/Pipeline.vio Model/Obs.vio Model/Sem.vio Proofs/SimLink.vio Proofs/SimValidator.vio Proofs/AllocCorrect.vio Proofs/AllocSim.vio Model/Cert.vio
Model/Check.vos Model/Check.vok Model/Check.required_vos: Model/Check.v Base/Prelude.vos Base/MaskSet.vos Model/IR.vos Model/RegFile.vos Model/CFG.vos Model/Liveness.vos Model/Alloc.vos Model/Cleanup.vos Model/Pipeline.vos Model/Obs.vos Model/Sem.vos Proofs/SimLink.vos Proofs/SimValidator.vos Proofs/AllocCorrect.vos Proofs/AllocSim.vos Model/Cert.vos
Model/Cleanup.vo Model/Cleanup.glob Model/Cleanup.v.beautified Model/Cleanup.required_vo: Model/Cleanup.v Base/Prelude.vo Base/MaskSet.vo Model/IR.vo
Model/Cleanup.vio: Model/Cleanup.v Base/Prelude.vio Base/MaskSet.vio Model/IR.vio
Model/Cleanup.vos Model/Cleanup.vok Model/Cleanup.required_vos: Model/Cleanup.v Base/Prelude.vos Base/MaskSet.vos Model/IR.vos
Model/Collection.vo Model/Collection.glob Model/Collection.v.beautified Model/Collection.required_vo: Model/Collection.v Base/Prelude.vo Model/IR.vo
Model/Collection.vio: Model/Collection.v Base/Prelude.vio Model/IR.vio
Model/Collection.vos Model/Collection.vok Model/Collection.required_vos: Model/Collection.v Base/Prelude.vos Model/IR.vos
Model/Ctors.vo Model/Ctors.glob Model/Ctors.v.beautified Model/Ctors.required_vo: Model/Ctors.v Base/Prelude.vo Base/Str.vo Base/MaskSet.vo Model/IR.vo Model/RegFile.vo Model/Forms.vo
Model/Ctors.vio: Model/Ctors.v Base/Prelude.vio Base/Str.vio Base/MaskSet.vio Model/IR.vio Model/RegFile.vio Model/Forms.vio
Model/Ctors.vos Model/Ctors.vok Model/Ctors.required_vos: Model/Ctors.v Base/Prelude.vos Base/Str.vos Base/MaskSet.vos Model/IR.vos Model/RegFile.vos Model/Forms.vos
Model/Data.vo Model/Data.glob Model/Data.v.beautified Model/Data.required_vo: Model/Data.v Base/Prelude.vo Base/Str.vo
Model/Data.vio: Model/Data.v Base/Prelude.vio Base/Str.vio
Model/Data.vos Model/Data.vok Model/Data.required_vos: Model/Data.v Base/Prelude.vos Base/Str.vos
Model/Determinism.vo Model/Determinism.glob Model/Determinism.v.beautified Model/Determinism.required_vo: Model/Determinism.v Base/Prelude.vo
Model/Determinism.vio: Model/Determinism.v Base/Prelude.vio
Model/Determinism.vos Model/Determinism.vok Model/Determinism.required_vos: Model/Determinism.v Base/Prelude.vos
Model/Forms.vo Model/Forms.glob Model/Forms.v.beautified Model/Forms.required_vo: Model/Forms.v Base/Prelude.vo Base/Str.vo Base/MaskSet.vo Model/IR.vo Model/RegFile.vo
Model/Forms.vio: Model/Forms.v Base/Prelude.vio Base/Str.vio Base/MaskSet.vio Model/IR.vio Model/RegFile.vio
Model/Forms.vos Model/Forms.vok Model/Forms.required_vos: Model/Forms.v Base/Prelude.vos Base/Str.vos Base/MaskSet.vos Model/IR.vos Model/RegFile.vos
Model/Frame.vo Model/Frame.glob Model/Frame.v.beautified Model/Frame.required_vo: Model/Frame.v Base/Prelude.vo
Model/Frame.vio: Model/Frame.v Base/Prelude.vio
Model/Frame.vos Model/Frame.vok Model/Frame.required_vos: Model/Frame.v Base/Prelude.vos
Model/IR.vo Model/IR.glob Model/IR.v.beautified Model/IR.required_vo: Model/IR.v Base/Prelude.vo Base/MaskSet.vo
Model/IR.vio: Model/IR.v Base/Prelude.vio Base/MaskSet.vio
Model/IR.vos Model/IR.vok Model/IR.required_vos: Model/IR.v Base/Prelude.vos Base/MaskSet.vos
Model/IsaImplicit.vo Model/IsaImplicit.glob Model/IsaImplicit.v.beautified Model/IsaImplicit.required_vo: Model/IsaImplicit.v Base/Prelude.vo Base/Str.vo Base/MaskSet.vo Model/IR.vo Model/RegFile.vo Model/Forms.vo
Model/IsaImplicit.vio: Model/IsaImplicit.v Base/Prelude.vio Base/Str.vio Base/MaskSet.vio Model/IR.vio Model/RegFile.vio Model/Forms.vio
Model/IsaImplicit.vos Model/IsaImplicit.vok Model/IsaImplicit.required_vos: Model/IsaImplicit.v Base/Prelude.vos Base/Str.vos Base/MaskSet.vos Model/IR.vos Model/RegFile.vos Model/Forms.vos
Model/Layout.vo Model/Layout.glob Model/Layout.v.beautified Model/Layout.required_vo: Model/Layout.v Base/Prelude.vo Base/Str.vo
Model/Layout.vio: Model/Layout.v Base/Prelude.vio Base/Str.vio
Model/Layout.vos Model/Layout.vok Model/Layout.required_vos: Model/Layout.v Base/Prelude.vos Base/Str.vos
Model/Liveness.vo Model/Liveness.glob Model/Liveness.v.beautified Model/Liveness.required_vo: Model/Liveness.v Base/Prelude.vo Base/MaskSet.vo Model/IR.vo
Model/Liveness.vio: Model/Liveness.v Base/Prelude.vio Base/MaskSet.vio Model/IR.vio
Model/Liveness.vos Model/Liveness.vok Model/Liveness.required_vos: Model/Liveness.v Base/Prelude.vos Base/MaskSet.vos Model/IR.vos
Model/MaskSetOps.vo Model/MaskSetOps.glob Model/MaskSetOps.v.beautified Model/MaskSetOps.required_vo: Model/MaskSetOps.v Base/Prelude.vo Base/MaskSet.vo Model/IR.vo Model/CFG.vo Model/CfgLive.vo
Model/MaskSetOps.vio: Model/MaskSetOps.v Base/Prelude.vio Base/MaskSet.vio Model/IR.vio Model/CFG.vio Model/CfgLive.vio
Model/MaskSetOps.vos Model/MaskSetOps.vok Model/MaskSetOps.required_vos: Model/MaskSetOps.v Base/Prelude.vos Base/MaskSet.vos Model/IR.vos Model/CFG.vos Model/CfgLive.vos
Model/MemOps.vo Model/MemOps.glob Model/MemOps.v.beautified Model/MemOps.required_vo: Model/MemOps.v Base/Prelude.vo Model/IR.vo
Model/MemOps.vio: Model/MemOps.v Base/Prelude.vio Model/IR.vio
Model/MemOps.vos Model/MemOps.vok Model/MemOps.required_vos: Model/MemOps.v Base/Prelude.vos Model/IR.vos
Model/Mov.vo Model/Mov.glob Model/Mov.v.beautified Model/Mov.required_vo: Model/Mov.v Base/Prelude.vo Base/Str.vo Base/MaskSet.vo Model/IR.vo Model/RegFile.vo Model/Forms.vo
Model/Mov.vio: Model/Mov.v Base/Prelude.vio Base/Str.vio Base/MaskSet.vio Model/IR.vio Model/RegFile.vio Model/Forms.vio
Model/Mov.vos Model/Mov.vok Model/Mov.required_vos: Model/Mov.v Base/Prelude.vos Base/Str.vos Base/MaskSet.vos Model/IR.vos Model/RegFile.vos Model/Forms.vos
Model/NodeSem.vo Model/NodeSem.glob Model/NodeSem.v.beautified Model/NodeSem.required_vo: Model/NodeSem.v Base/Prelude.vo Model/IR.vo
Model/NodeSem.vio: Model/NodeSem.v Base/Prelude.vio Model/IR.vio
Model/NodeSem.vos Model/NodeSem.vok Model/NodeSem.required_vos: Model/NodeSem.v Base/Prelude.vos Model/IR.vos
Model/Obs.vo Model/Obs.glob Model/Obs.v.beautified Model/Obs.required_vo: Model/Obs.v Base/Prelude.vo Base/MaskSet.vo Model/IR.vo Model/RegFile.vo Model/CFG.vo Model/Liveness.vo Model/Alloc.vo Model/Cleanup.vo Model/Pipeline.vo
Model/Obs.vio: Model/Obs.v Base/Prelude.vio Base/MaskSet.vio Model/IR.vio Model/RegFile.vio Model/CFG.vio Model/Liveness.vio Model/Alloc.vio Model/Cleanup.vio Model/Pipeline.vio
Model/Obs.vos Model/Obs.vok Model/Obs.required_vos: Model/Obs.v Base/Prelude.vos Base/MaskSet.vos Model/IR.vos Model/RegFile.vos Model/CFG.vos Model/Liveness.vos Model/Alloc.vos Model/Cleanup.vos Model/Pipeline.vos
Model/PassFramework.vo Model/PassFramework.glob Model/PassFramework.v.beautified Model/PassFramework.required_vo: Model/PassFramework.v Base/Prelude.vo
Model/PassFramework.vio: Model/PassFramework.v Base/Prelude.vio
Model/PassFramework.vos Model/PassFramework.vok Model/PassFramework.required_vos: Model/PassFramework.v Base/Prelude.vos
Model/Pipeline.vo Model/Pipeline.glob Model/Pipeline.v.beautified Model/Pipeline.required_vo: Model/Pipeline.v Base/Prelude.vo Base/MaskSet.vo Model/IR.vo Model/RegFile.vo Model/CFG.vo Model/Liveness.vo Model/Alloc.vo Model/Cleanup.vo
Model/Pipeline.vio: Model/Pipeline.v Base/Prelude.vio Base/MaskSet.vio Model/IR.vio Model/RegFile.vio Model/CFG.vio Model/Liveness.vio Model/Alloc.vio Model/Cleanup.vio
Model/Pipeline.vos Model/Pipeline.vok Model/Pipeline.required_vos: Model/Pipeline.v Base/Prelude.vos Base/MaskSet.vos Model/IR.vos Model/RegFile.vos Model/CFG.vos Model/Liveness.vos Model/Alloc.vos Model/Cleanup.vos
Model/PrintAsm.vo Model/PrintAsm.glob Model/PrintAsm.v.beautified Model/PrintAsm.required_vo: Model/PrintAsm.v Base/Prelude.vo Base/Str.vo Base/MaskSet.vo Model/IR.vo Model/RegFile.vo Model/Data.vo Model/Attr.vo Model/AsmSyntax.vo
Model/PrintAsm.vio: Model/PrintAsm.v Base/Prelude.vio Base/Str.vio Base/MaskSet.vio Model/IR.vio Model/RegFile.vio Model/Data.vio Model/Attr.vio Model/AsmSyntax.vio
Model/PrintAsm.vos Model/PrintAsm.vok Model/PrintAsm.required_vos: Model/PrintAsm.v Base/Prelude.vos Base/Str.vos Base/MaskSet.vos Model/IR.vos Model/RegFile.vos Model/Data.vos Model/Attr.vos Model/AsmSyntax.vos
Model/RegFile.vo Model/RegFile.glob Model/RegFile.v.beautified Model/RegFile.required_vo: Model/RegFile.v Base/Prelude.vo Base/MaskSet.vo Model/IR.vo
Model/RegFile.vio: Model/RegFile.v Base/Prelude.vio Base/MaskSet.vio Model/IR.vio
Model/RegFile.vos Model/RegFile.vok Model/RegFile.required_vos: Model/RegFile.v Base/Prelude.vos Base/MaskSet.vos Model/IR.vos
Model/RegSpec.vo Model/RegSpec.glob Model/RegSpec.v.beautified Model/RegSpec.required_vo: Model/RegSpec.v Base/Prelude.vo Base/Str.vo Base/MaskSet.vo Model/IR.vo Model/RegFile.vo
Model/RegSpec.vio: Model/RegSpec.v Base/Prelude.vio Base/Str.vio Base/MaskSet.vio Model/IR.vio Model/RegFile.vio
Model/RegSpec.vos Model/RegSpec.vok Model/RegSpec.required_vos: Model/RegSpec.v Base/Prelude.vos Base/Str.vos Base/MaskSet.vos Model/IR.vos Model/RegFile.vos
Model/Sem.vo Model/Sem.glob Model/Sem.v.beautified Model/Sem.required_vo: Model/Sem.v Base/Prelude.vo
Model/Sem.vio: Model/Sem.v Base/Prelude.vio
Model/Sem.vos Model/Sem.vok Model/Sem.required_vos: Model/Sem.v Base/Prelude.vos
Model/Stub.vo Model/Stub.glob Model/Stub.v.beautified Model/Stub.required_vo: Model/Stub.v Base/Prelude.vo Base/Str.vo
Model/Stub.vio: Model/Stub.v Base/Prelude.vio Base/Str.vio
Model/Stub.vos Model/Stub.vok Model/Stub.required_vos: Model/Stub.v Base/Prelude.vos Base/Str.vos
Model/Tags.vo Model/Tags.glob Model/Tags.v.beautified Model/Tags.required_vo: Model/Tags.v Base/Prelude.vo Base/Str.vo
Model/Tags.vio: Model/Tags.v Base/Prelude.vio Base/Str.vio
Model/Tags.vos Model/Tags.vok Model/Tags.required_vos: Model/Tags.v Base/Prelude.vos Base/Str.vos
Proofs/AllocCorrect.vo Proofs/AllocCorrect.glob Proofs/AllocCorrect.v.beautified Proofs/AllocCorrect.required_vo: Proofs/AllocCorrect.v Base/Prelude.vo Base/MaskSet.vo Model/IR.vo Model/RegFile.vo Model/Liveness.vo Model/Alloc.vo Proofs/AllocProofs.vo Proofs/AllocLoop.vo
Proofs/AllocCorrect.vio: Proofs/AllocCorrect.v Base/Prelude.vio Base/MaskSet.vio Model/IR.vio Model/RegFile.vio Model/Liveness.vio Model/Alloc.vio Proofs/AllocProofs.vio Proofs/AllocLoop.vio
Proofs/AllocCorrect.vos Proofs/AllocCorrect.vok Proofs/AllocCorrect.required_vos: Proofs/AllocCorrect.v Base/Prelude.vos Base/MaskSet.vos Model/IR.vos Model/RegFile.vos Model/Liveness.vos Model/Alloc.vos Proofs/AllocProofs.vos Proofs/AllocLoop.vos
Proofs/AllocLoop.vo Proofs/AllocLoop.glob Proofs/AllocLoop.v.beautified Proofs/AllocLoop.required_vo: Proofs/AllocLoop.v Base/Prelude.vo Base/MaskSet.vo Model/IR.vo Model/RegFile.vo Model/Liveness.vo Model/Alloc.vo
Proofs/AllocLoop.vio: Proofs/AllocLoop.v Base/Prelude.vio Base/MaskSet.vio Model/IR.vio Model/RegFile.vio Model/Liveness.vio Model/Alloc.vio
Proofs/AllocLoop.vos Proofs/AllocLoop.vok Proofs/AllocLoop.required_vos: Proofs/AllocLoop.v Base/Prelude.vos Base/MaskSet.vos Model/IR.vos Model/RegFile.vos Model/Liveness.vos Model/Alloc.vos
Proofs/AllocProofs.vo Proofs/AllocProofs.glob Proofs/AllocProofs.v.beautified Proofs/AllocProofs.required_vo: Proofs/AllocProofs.v Base/Prelude.vo Base/MaskSet.vo Model/IR.vo Model/RegFile.vo Model/RegSpec.vo Model/Liveness.vo Model/Alloc.vo Model/Cleanup.vo Proofs/RegProofs.vo
Proofs/AllocProofs.vio: Proofs/AllocProofs.v Base/Prelude.vio Base/MaskSet.vio Model/IR.vio Model/RegFile.vio Model/RegSpec.vio Model/Liveness.vio Model/Alloc.vio Model/Cleanup.vio Proofs/RegProofs.vio
Proofs/AllocProofs.vos Proofs/AllocProofs.vok Proofs/AllocProofs.required_vos: Proofs/AllocProofs.v Base/Prelude.vos Base/MaskSet.vos Model/IR.vos Model/RegFile.vos Model/RegSpec.vos Model/Liveness.vos Model/Alloc.vos Model/Cleanup.vos Proofs/RegProofs.vos
Proofs/AllocSim.vo Proofs/AllocSim.glob Proofs/AllocSim.v.beautified Proofs/AllocSim.required_vo: Proofs/AllocSim.v Base/Prelude.vo Model/Sem.vo Proofs/SimProofs.vo Proofs/SimLink.vo Base/MaskSet.vo Model/IR.vo Model/RegFile.vo Model/Liveness.vo Model/Alloc.vo Proofs/LivenessProofs.vo Proofs/LivenessTerm.vo Proofs/AllocProofs.vo Proofs/AllocLoop.vo Proofs/AllocCorrect.vo
Proofs/AllocSim.vio: Proofs/AllocSim.v Base/Prelude.vio Model/Sem.vio Proofs/SimProofs.vio Proofs/SimLink.vio Base/MaskSet.vio Model/IR.vio Model/RegFile.vio Model/Liveness.vio Model/Alloc.vio Proofs/LivenessProofs.vio Proofs/LivenessTerm.vio Proofs/AllocProofs.vio Proofs/AllocLoop.vio Proofs/AllocCorrect.vio
Proofs/AllocSim.vos Proofs/AllocSim.vok Proofs/AllocSim.required_vos: Proofs/AllocSim.v Base/Prelude.vos Model/Sem.vos Proofs/SimProofs.vos Proofs/SimLink.vos Base/MaskSet.vos Model/IR.vos Model/RegFile.vos Model/Liveness.vos Model/Alloc.vos Proofs/LivenessProofs.vos Proofs/LivenessTerm.vos Proofs/AllocProofs.vos Proofs/AllocLoop.vos Proofs/AllocCorrect.vos
Proofs/AttrProofs.vo Proofs/AttrProofs.glob Proofs/AttrProofs.v.beautified Proofs/AttrProofs.required_vo: Proofs/AttrProofs.v Base/Prelude.vo Base/Str.vo Model/Attr.vo
Proofs/AttrProofs.vio: Proofs/AttrProofs.v Base/Prelude.vio Base/Str.vio Model/Attr.vio
Proofs/AttrProofs.vos Proofs/AttrProofs.vok Proofs/AttrProofs.required_vos: Proofs/AttrProofs.v Base/Prelude.vos Base/Str.vos Model/Attr.vos
Proofs/BindProofs.vo Proofs/BindProofs.glob Proofs/BindProofs.v.beautified Proofs/BindProofs.required_vo: Proofs/BindProofs.v Base/Prelude.vo Model/Sem.vo Proofs/SimLink.vo Base/MaskSet.vo Model/IR.vo Model/RegFile.vo Model/Liveness.vo Model/Alloc.vo Proofs/RegProofs.vo Proofs/AllocProofs.vo Proofs/AllocLoop.vo Proofs/AllocCorrect.vo
Proofs/BindProofs.vio: Proofs/BindProofs.v Base/Prelude.vio Model/Sem.vio Proofs/SimLink.vio Base/MaskSet.vio Model/IR.vio Model/RegFile.vio Model/Liveness.vio Model/Alloc.vio Proofs/RegProofs.vio Proofs/AllocProofs.vio Proofs/AllocLoop.vio Proofs/AllocCorrect.vio
Proofs/BindProofs.vos Proofs/BindProofs.vok Proofs/BindProofs.required_vos: Proofs/BindProofs.v Base/Prelude.vos Model/Sem.vos Proofs/SimLink.vos Base/MaskSet.vos Model/IR.vos Model/RegFile.vos Model/Liveness.vos Model/Alloc.vos Proofs/RegProofs.vos Proofs/AllocProofs.vos Proofs/AllocLoop.vos Proofs/AllocCorrect.vos
Proofs/BuilderProofs.vo Proofs/BuilderProofs.glob Proofs/BuilderProofs.v.beautified Proofs/BuilderProofs.required_vo: Proofs/BuilderProofs.v Base/Prelude.vo Base/Str.vo Model/Data.vo Model/Builder.vo
Proofs/BuilderProofs.vio: Proofs/BuilderProofs.v Base/Prelude.vio Base/Str.vio Model/Data.vio Model/Builder.vio
Proofs/BuilderProofs.vos Proofs/BuilderProofs.vok Proofs/BuilderProofs.required_vos: Proofs/BuilderProofs.v Base/Prelude.vos Base/Str.vos Model/Data.vos Model/Builder.vos
Proofs/CFGProofs.vo Proofs/CFGProofs.glob Proofs/CFGProofs.v.beautified Proofs/CFGProofs.required_vo: Proofs/CFGProofs.v Base/Prelude.vo Base/MaskSet.vo Model/IR.vo Model/CFG.vo
Proofs/CFGProofs.vio: Proofs/CFGProofs.v Base/Prelude.vio Base/MaskSet.vio Model/IR.vio Model/CFG.vio
Proofs/CFGProofs.vos Proofs/CFGProofs.vok Proofs/CFGProofs.required_vos: Proofs/CFGProofs.v Base/Prelude.vos Base/MaskSet.vos Model/IR.vos Model/CFG.vos
Proofs/CFGSem.vo Proofs/CFGSem.glob Proofs/CFGSem.v.beautified Proofs/CFGSem.required_vo: Proofs/CFGSem.v Base/Prelude.vo Model/IR.vo Model/CFG.vo Model/NodeSem.vo Proofs/CleanupSem.vo
Proofs/CFGSem.vio: Proofs/CFGSem.v Base/Prelude.vio Model/IR.vio Model/CFG.vio Model/NodeSem.vio Proofs/CleanupSem.vio
Proofs/CFGSem.vos Proofs/CFGSem.vok Proofs/CFGSem.required_vos: Proofs/CFGSem.v Base/Prelude.vos Model/IR.vos Model/CFG.vos Model/NodeSem.vos Proofs/CleanupSem.vos
Proofs/CleanupProofs.vo Proofs/CleanupProofs.glob Proofs/CleanupProofs.v.beautified Proofs/CleanupProofs.required_vo: Proofs/CleanupProofs.v Base/Prelude.vo Base/MaskSet.vo Model/IR.vo Model/Cleanup.vo
Proofs/CleanupProofs.vio: Proofs/CleanupProofs.v Base/Prelude.vio Base/MaskSet.vio Model/IR.vio Model/Cleanup.vio
Proofs/CleanupProofs.vos Proofs/CleanupProofs.vok Proofs/CleanupProofs.required_vos: Proofs/CleanupProofs.v Base/Prelude.vos Base/MaskSet.vos Model/IR.vos Model/Cleanup.vos
Proofs/CleanupSem.vo Proofs/CleanupSem.glob Proofs/CleanupSem.v.beautified Proofs/CleanupSem.required_vo: Proofs/CleanupSem.v Base/Prelude.vo Model/IR.vo Model/Cleanup.vo Model/NodeSem.vo Proofs/AllocProofs.vo Proofs/CleanupProofs.vo
Proofs/CleanupSem.vio: Proofs/CleanupSem.v Base/Prelude.vio Model/IR.vio Model/Cleanup.vio Model/NodeSem.vio Proofs/AllocProofs.vio Proofs/CleanupProofs.vio
Proofs/CleanupSem.vos Proofs/CleanupSem.vok Proofs/CleanupSem.required_vos: Proofs/CleanupSem.v Base/Prelude.vos Model/IR.vos Model/Cleanup.vos Model/NodeSem.vos Proofs/AllocProofs.vos Proofs/CleanupProofs.vos
Proofs/CollectionProofs.vo Proofs/CollectionProofs.glob Proofs/CollectionProofs.v.beautified Proofs/CollectionProofs.required_vo: Proofs/CollectionProofs.v Base/Prelude.vo Model/IR.vo Model/Collection.vo
Proofs/CollectionProofs.vio: Proofs/CollectionProofs.v Base/Prelude.vio Model/IR.vio Model/Collection.vio
Proofs/CollectionProofs.vos Proofs/CollectionProofs.vok Proofs/CollectionProofs.required_vos: Proofs/CollectionProofs.v Base/Prelude.vos Model/IR.vos Model/Collection.vos
Proofs/DataProofs.vo Proofs/DataProofs.glob Proofs/DataProofs.v.beautified Proofs/DataProofs.required_vo: Proofs/DataProofs.v Base/Prelude.vo Base/Str.vo Model/Data.vo
Proofs/DataProofs.vio: Proofs/DataProofs.v Base/Prelude.vio Base/Str.vio Model/Data.vio
Proofs/DataProofs.vos Proofs/DataProofs.vok Proofs/DataProofs.required_vos: Proofs/DataProofs.v Base/Prelude.vos Base/Str.vos Model/Data.vos
Proofs/DetProofs.vo Proofs/DetProofs.glob Proofs/DetProofs.v.beautified Proofs/DetProofs.required_vo: Proofs/DetProofs.v Base/Prelude.vo Base/MaskSet.vo Model/IR.vo Model/RegFile.vo Model/Liveness.vo Model/Alloc.vo
Proofs/DetProofs.vio: Proofs/DetProofs.v Base/Prelude.vio Base/MaskSet.vio Model/IR.vio Model/RegFile.vio Model/Liveness.vio Model/Alloc.vio
Proofs/DetProofs.vos Proofs/DetProofs.vok Proofs/DetProofs.required_vos: Proofs/DetProofs.v Base/Prelude.vos Base/MaskSet.vos Model/IR.vos Model/RegFile.vos Model/Liveness.vos Model/Alloc.vos
Proofs/FlattenProofs.vo Proofs/FlattenProofs.glob Proofs/FlattenProofs.v.beautified Proofs/FlattenProofs.required_vo: Proofs/FlattenProofs.v Base/Prelude.vo Base/Str.vo Model/Layout.vo Proofs/LayoutProofs.vo
Proofs/FlattenProofs.vio: Proofs/FlattenProofs.v Base/Prelude.vio Base/Str.vio Model/Layout.vio Proofs/LayoutProofs.vio
Proofs/FlattenProofs.vos Proofs/FlattenProofs.vok Proofs/FlattenProofs.required_vos: Proofs/FlattenProofs.v Base/Prelude.vos Base/Str.vos Model/Layout.vos Proofs/LayoutProofs.vos
Proofs/FormsProofs.vo Proofs/FormsProofs.glob Proofs/FormsProofs.v.beautified Proofs/FormsProofs.required_vo: Proofs/FormsProofs.v Base/Prelude.vo Base/Str.vo Base/MaskSet.vo Model/IR.vo Model/RegFile.vo Model/Forms.vo Model/Ctors.vo
Proofs/FormsProofs.vio: Proofs/FormsProofs.v Base/Prelude.vio Base/Str.vio Base/MaskSet.vio Model/IR.vio Model/RegFile.vio Model/Forms.vio Model/Ctors.vio
Proofs/FormsProofs.vos Proofs/FormsProofs.vok Proofs/FormsProofs.required_vos: Proofs/FormsProofs.v Base/Prelude.vos Base/Str.vos Base/MaskSet.vos Model/IR.vos Model/RegFile.vos Model/Forms.vos Model/Ctors.vos
Proofs/FrameProofs.vo Proofs/FrameProofs.glob Proofs/FrameProofs.v.beautified Proofs/FrameProofs.required_vo: Proofs/FrameProofs.v Base/Prelude.vo Model/Frame.vo
Proofs/FrameProofs.vio: Proofs/FrameProofs.v Base/Prelude.vio Model/Frame.vio
Proofs/FrameProofs.vos Proofs/FrameProofs.vok Proofs/FrameProofs.required_vos: Proofs/FrameProofs.v Base/Prelude.vos Model/Frame.vos
Proofs/IOProofs.vo Proofs/IOProofs.glob Proofs/IOProofs.v.beautified Proofs/IOProofs.required_vo: Proofs/IOProofs.v Base/Prelude.vo Base/Str.vo Base/MaskSet.vo Model/IR.vo Model/RegFile.vo Model/Forms.vo
Proofs/IOProofs.vio: Proofs/IOProofs.v Base/Prelude.vio Base/Str.vio Base/MaskSet.vio Model/IR.vio Model/RegFile.vio Model/Forms.vio
Proofs/IOProofs.vos Proofs/IOProofs.vok Proofs/IOProofs.required_vos: Proofs/IOProofs.v Base/Prelude.vos Base/Str.vos Base/MaskSet.vos Model/IR.vos Model/RegFile.vos Model/Forms.vos
Proofs/LayoutProofs.vo Proofs/LayoutProofs.glob Proofs/LayoutProofs.v.beautified Proofs/LayoutProofs.required_vo: Proofs/LayoutProofs.v Base/Prelude.vo Base/Str.vo Model/Layout.vo
Proofs/LayoutProofs.vio: Proofs/LayoutProofs.v Base/Prelude.vio Base/Str.vio Model/Layout.vio
Proofs/LayoutProofs.vos Proofs/LayoutProofs.vok Proofs/LayoutProofs.required_vos: Proofs/LayoutProofs.v Base/Prelude.vos Base/Str.vos Model/Layout.vos
Proofs/LiveSem.vo Proofs/LiveSem.glob Proofs/LiveSem.v.beautified Proofs/LiveSem.required_vo: Proofs/LiveSem.v Base/Prelude.vo Model/Sem.vo Proofs/SimProofs.vo Proofs/SimLink.vo Base/MaskSet.vo Model/IR.vo Model/Liveness.vo
Proofs/LiveSem.vio: Proofs/LiveSem.v Base/Prelude.vio Model/Sem.vio Proofs/SimProofs.vio Proofs/SimLink.vio Base/MaskSet.vio Model/IR.vio Model/Liveness.vio
Proofs/LiveSem.vos Proofs/LiveSem.vok Proofs/LiveSem.required_vos: Proofs/LiveSem.v Base/Prelude.vos Model/Sem.vos Proofs/SimProofs.vos Proofs/SimLink.vos Base/MaskSet.vos Model/IR.vos Model/Liveness.vos
Proofs/LiveSpecProofs.vo Proofs/LiveSpecProofs.glob Proofs/LiveSpecProofs.v.beautified Proofs/LiveSpecProofs.required_vo: Proofs/LiveSpecProofs.v Base/Prelude.vo Base/MaskSet.vo Model/IR.vo Model/Liveness.vo
Proofs/LiveSpecProofs.vio: Proofs/LiveSpecProofs.v Base/Prelude.vio Base/MaskSet.vio Model/IR.vio Model/Liveness.vio
Proofs/LiveSpecProofs.vos Proofs/LiveSpecProofs.vok Proofs/LiveSpecProofs.required_vos: Proofs/LiveSpecProofs.v Base/Prelude.vos Base/MaskSet.vos Model/IR.vos Model/Liveness.vos
Proofs/LivenessProofs.vo Proofs/LivenessProofs.glob Proofs/LivenessProofs.v.beautified Proofs/LivenessProofs.required_vo: Proofs/LivenessProofs.v Base/Prelude.vo Base/MaskSet.vo Model/IR.vo Model/Liveness.vo
Proofs/LivenessProofs.vio: Proofs/LivenessProofs.v Base/Prelude.vio Base/MaskSet.vio Model/IR.vio Model/Liveness.vio
Proofs/LivenessProofs.vos Proofs/LivenessProofs.vok Proofs/LivenessProofs.required_vos: Proofs/LivenessProofs.v Base/Prelude.vos Base/MaskSet.vos Model/IR.vos Model/Liveness.vos
Proofs/LivenessTerm.vo Proofs/LivenessTerm.glob Proofs/LivenessTerm.v.beautified Proofs/LivenessTerm.required_vo: Proofs/LivenessTerm.v Base/Prelude.vo Base/MaskSet.vo Model/IR.vo Model/Liveness.vo Proofs/LivenessProofs.vo
Proofs/LivenessTerm.vio: Proofs/LivenessTerm.v Base/Prelude.vio Base/MaskSet.vio Model/IR.vio Model/Liveness.vio Proofs/LivenessProofs.vio
Proofs/LivenessTerm.vos Proofs/LivenessTerm.vok Proofs/LivenessTerm.required_vos: Proofs/LivenessTerm.v Base/Prelude.vos Base/MaskSet.vos Model/IR.vos Model/Liveness.vos Proofs/LivenessProofs.vos
Proofs/MemOpsProofs.vo Proofs/MemOpsProofs.glob Proofs/MemOpsProofs.v.beautified Proofs/MemOpsProofs.required_vo: Proofs/MemOpsProofs.v Base/Prelude.vo Model/IR.vo Model/MemOps.vo
Proofs/MemOpsProofs.vio: Proofs/MemOpsProofs.v Base/Prelude.vio Model/IR.vio Model/MemOps.vio
Proofs/MemOpsProofs.vos Proofs/MemOpsProofs.vok Proofs/MemOpsProofs.required_vos: Proofs/MemOpsProofs.v Base/Prelude.vos Model/IR.vos Model/MemOps.vos
Proofs/MovProofs.vo Proofs/MovProofs.glob Proofs/MovProofs.v.beautified Proofs/MovProofs.required_vo: Proofs/MovProofs.v Base/Prelude.vo Base/Str.vo
Proofs/MovProofs.vio: Proofs/MovProofs.v Base/Prelude.vio Base/Str.vio
Proofs/MovProofs.vos Proofs/MovProofs.vok Proofs/MovProofs.required_vos: Proofs/MovProofs.v Base/Prelude.vos Base/Str.vos
Proofs/NodeMachine.vo Proofs/NodeMachine.glob Proofs/NodeMachine.v.beautified Proofs/NodeMachine.required_vo: Proofs/NodeMachine.v Base/Prelude.vo Base/MaskSet.vo Model/IR.vo Model/CFG.vo Model/Liveness.vo Model/NodeSem.vo Model/Sem.vo Proofs/CleanupSem.vo Proofs/CFGSem.vo Proofs/SimProofs.vo Proofs/SimLink.vo Proofs/SimValidator.vo
Proofs/NodeMachine.vio: Proofs/NodeMachine.v Base/Prelude.vio Base/MaskSet.vio Model/IR.vio Model/CFG.vio Model/Liveness.vio Model/NodeSem.vio Model/Sem.vio Proofs/CleanupSem.vio Proofs/CFGSem.vio Proofs/SimProofs.vio Proofs/SimLink.vio Proofs/SimValidator.vio
Proofs/NodeMachine.vos Proofs/NodeMachine.vok Proofs/NodeMachine.required_vos: Proofs/NodeMachine.v Base/Prelude.vos Base/MaskSet.vos Model/IR.vos Model/CFG.vos Model/Liveness.vos Model/NodeSem.vos Model/Sem.vos Proofs/CleanupSem.vos Proofs/CFGSem.vos Proofs/SimProofs.vos Proofs/SimLink.vos Proofs/SimValidator.vos
Proofs/PassFrameworkProofs.vo Proofs/PassFrameworkProofs.glob Proofs/PassFrameworkProofs.v.beautified Proofs/PassFrameworkProofs.required_vo: Proofs/PassFrameworkProofs.v Base/Prelude.vo Model/PassFramework.vo
Proofs/PassFrameworkProofs.vio: Proofs/PassFrameworkProofs.v Base/Prelude.vio Model/PassFramework.vio
Proofs/PassFrameworkProofs.vos Proofs/PassFrameworkProofs.vok Proofs/PassFrameworkProofs.required_vos: Proofs/PassFrameworkProofs.v Base/Prelude.vos Model/PassFramework.vos
Proofs/PipelineProofs.vo Proofs/PipelineProofs.glob Proofs/PipelineProofs.v.beautified Proofs/PipelineProofs.required_vo: Proofs/PipelineProofs.v Base/Prelude.vo Base/MaskSet.vo Model/IR.vo Model/RegFile.vo Model/CFG.vo Model/Liveness.vo Model/Alloc.vo Model/Cleanup.vo Model/Pipeline.vo Proofs/AllocProofs.vo
Proofs/PipelineProofs.vio: Proofs/PipelineProofs.v Base/Prelude.vio Base/MaskSet.vio Model/IR.vio Model/RegFile.vio Model/CFG.vio Model/Liveness.vio Model/Alloc.vio Model/Cleanup.vio Model/Pipeline.vio Proofs/AllocProofs.vio
Proofs/PipelineProofs.vos Proofs/PipelineProofs.vok Proofs/PipelineProofs.required_vos: Proofs/PipelineProofs.v Base/Prelude.vos Base/MaskSet.vos Model/IR.vos Model/RegFile.vos Model/CFG.vos Model/Liveness.vos Model/Alloc.vos Model/Cleanup.vos Model/Pipeline.vos Proofs/AllocProofs.vos
Proofs/PrintBlock.vo Proofs/PrintBlock.glob Proofs/PrintBlock.v.beautified Proofs/PrintBlock.required_vo: Proofs/PrintBlock.v Base/Prelude.vo Base/Str.vo Model/IR.vo Model/RegFile.vo Model/Data.vo Model/Attr.vo Model/AsmSyntax.vo Model/PrintAsm.vo
Proofs/PrintBlock.vio: Proofs/PrintBlock.v Base/Prelude.vio Base/Str.vio Model/IR.vio Model/RegFile.vio Model/Data.vio Model/Attr.vio Model/AsmSyntax.vio Model/PrintAsm.vio
Proofs/PrintBlock.vos Proofs/PrintBlock.vok Proofs/PrintBlock.required_vos: Proofs/PrintBlock.v Base/Prelude.vos Base/Str.vos Model/IR.vos Model/RegFile.vos Model/Data.vos Model/Attr.vos Model/AsmSyntax.vos Model/PrintAsm.vos
Proofs/PrintProofs.vo Proofs/PrintProofs.glob Proofs/PrintProofs.v.beautified Proofs/PrintProofs.required_vo: Proofs/PrintProofs.v Base/Prelude.vo Base/Str.vo Base/MaskSet.vo Model/IR.vo Model/RegFile.vo Model/Data.vo Model/Attr.vo Model/AsmSyntax.vo Model/PrintAsm.vo
Proofs/PrintProofs.vio: Proofs/PrintProofs.v Base/Prelude.vio Base/Str.vio Base/MaskSet.vio Model/IR.vio Model/RegFile.vio Model/Data.vio Model/Attr.vio Model/AsmSyntax.vio Model/PrintAsm.vio
Proofs/PrintProofs.vos Proofs/PrintProofs.vok Proofs/PrintProofs.required_vos: Proofs/PrintProofs.v Base/Prelude.vos Base/Str.vos Base/MaskSet.vos Model/IR.vos Model/RegFile.vos Model/Data.vos Model/Attr.vos Model/AsmSyntax.vos Model/PrintAsm.vos
Proofs/PrintSem.vo Proofs/PrintSem.glob Proofs/PrintSem.v.beautified Proofs/PrintSem.required_vo: Proofs/PrintSem.v Base/Prelude.vo Base/Str.vo Model/IR.vo Model/RegFile.vo Model/Data.vo Model/Attr.vo Model/AsmSyntax.vo Model/PrintAsm.vo Model/NodeSem.vo Proofs/CleanupSem.vo
Proofs/PrintSem.vio: Proofs/PrintSem.v Base/Prelude.vio Base/Str.vio Model/IR.vio Model/RegFile.vio Model/Data.vio Model/Attr.vio Model/AsmSyntax.vio Model/PrintAsm.vio Model/NodeSem.vio Proofs/CleanupSem.vio
Proofs/PrintSem.vos Proofs/PrintSem.vok Proofs/PrintSem.required_vos: Proofs/PrintSem.v Base/Prelude.vos Base/Str.vos Model/IR.vos Model/RegFile.vos Model/Data.vos Model/Attr.vos Model/AsmSyntax.vos Model/PrintAsm.vos Model/NodeSem.vos Proofs/CleanupSem.vos
Proofs/RegProofs.vo Proofs/RegProofs.glob Proofs/RegProofs.v.beautified Proofs/RegProofs.required_vo: Proofs/RegProofs.v Base/Prelude.vo Base/Str.vo Base/MaskSet.vo Model/IR.vo Model/RegFile.vo Model/RegSpec.vo
Proofs/RegProofs.vio: Proofs/RegProofs.v Base/Prelude.vio Base/Str.vio Base/MaskSet.vio Model/IR.vio Model/RegFile.vio Model/RegSpec.vio
Proofs/RegProofs.vos Proofs/RegProofs.vok Proofs/RegProofs.required_vos: Proofs/RegProofs.v Base/Prelude.vos Base/Str.vos Base/MaskSet.vos Model/IR.vos Model/RegFile.vos Model/RegSpec.vos
Proofs/SimCert.vo Proofs/SimCert.glob Proofs/SimCert.v.beautified Proofs/SimCert.required_vo: Proofs/SimCert.v Base/Prelude.vo Model/Sem.vo Proofs/SimProofs.vo Proofs/SimLink.vo Proofs/SimValidator.vo Base/MaskSet.vo Model/IR.vo Model/Liveness.vo Model/Cert.vo
Proofs/SimCert.vio: Proofs/SimCert.v Base/Prelude.vio Model/Sem.vio Proofs/SimProofs.vio Proofs/SimLink.vio Proofs/SimValidator.vio Base/MaskSet.vio Model/IR.vio Model/Liveness.vio Model/Cert.vio
Proofs/SimCert.vos Proofs/SimCert.vok Proofs/SimCert.required_vos: Proofs/SimCert.v Base/Prelude.vos Model/Sem.vos Proofs/SimProofs.vos Proofs/SimLink.vos Proofs/SimValidator.vos Base/MaskSet.vos Model/IR.vos Model/Liveness.vos Model/Cert.vos
Proofs/LiveCert.vo Proofs/LiveCert.glob Proofs/LiveCert.v.beautified Proofs/LiveCert.required_vo: Proofs/LiveCert.v Base/Prelude.vo Base/MaskSet.vo Model/IR.vo Model/Liveness.vo Model/Cert.vo Proofs/LivenessTerm.vo Proofs/SimValidator.vo Proofs/SimCert.vo
Proofs/LiveCert.vio: Proofs/LiveCert.v Base/Prelude.vio Base/MaskSet.vio Model/IR.vio Model/Liveness.vio Model/Cert.vio Proofs/LivenessTerm.vio Proofs/SimValidator.vio Proofs/SimCert.vio
Proofs/LiveCert.vos Proofs/LiveCert.vok Proofs/LiveCert.required_vos: Proofs/LiveCert.v Base/Prelude.vos Base/MaskSet.vos Model/IR.vos Model/Liveness.vos Model/Cert.vos Proofs/LivenessTerm.vos Proofs/SimValidator.vos Proofs/SimCert.vos
Proofs/SimLink.vo Proofs/SimLink.glob Proofs/SimLink.v.beautified Proofs/SimLink.required_vo: Proofs/SimLink.v Base/Prelude.vo Model/Sem.vo Proofs/SimProofs.vo Base/MaskSet.vo Model/IR.vo Model/Liveness.vo Proofs/LivenessProofs.vo
Proofs/SimLink.vio: Proofs/SimLink.v Base/Prelude.vio Model/Sem.vio Proofs/SimProofs.vio Base/MaskSet.vio Model/IR.vio Model/Liveness.vio Proofs/LivenessProofs.vio
Proofs/SimLink.vos Proofs/SimLink.vok Proofs/SimLink.required_vos: Proofs/SimLink.v Base/Prelude.vos Model/Sem.vos Proofs/SimProofs.vos Base/MaskSet.vos Model/IR.vos Model/Liveness.vos Proofs/LivenessProofs.vos
Proofs/SimProofs.vo Proofs/SimProofs.glob Proofs/SimProofs.v.beautified Proofs/SimProofs.required_vo: Proofs/SimProofs.v Base/Prelude.vo Model/Sem.vo
Proofs/SimProofs.vio: Proofs/SimProofs.v Base/Prelude.vio Model/Sem.vio
Proofs/SimProofs.vos Proofs/SimProofs.vok Proofs/SimProofs.required_vos: Proofs/SimProofs.v Base/Prelude.vos Model/Sem.vos
Proofs/SimValidator.vo Proofs/SimValidator.glob Proofs/SimValidator.v.beautified Proofs/SimValidator.required_vo: Proofs/SimValidator.v Base/Prelude.vo Model/Sem.vo Proofs/SimProofs.vo Proofs/SimLink.vo Base/MaskSet.vo Model/IR.vo Model/Liveness.vo Proofs/LivenessProofs.vo
Proofs/SimValidator.vio: Proofs/SimValidator.v Base/Prelude.vio Model/Sem.vio Proofs/SimProofs.vio Proofs/SimLink.vio Base/MaskSet.vio Model/IR.vio Model/Liveness.vio Proofs/LivenessProofs.vio
Proofs/SimValidator.vos Proofs/SimValidator.vok Proofs/SimValidator.required_vos: Proofs/SimValidator.v Base/Prelude.vos Model/Sem.vos Proofs/SimProofs.vos Proofs/SimLink.vos Base/MaskSet.vos Model/IR.vos Model/Liveness.vos Proofs/LivenessProofs.vos
Proofs/StubProofs.vo Proofs/StubProofs.glob Proofs/StubProofs.v.beautified Proofs/StubProofs.required_vo: Proofs/StubProofs.v Base/Prelude.vo Base/Str.vo Model/Stub.vo
Proofs/StubProofs.vio: Proofs/StubProofs.v Base/Prelude.vio Base/Str.vio Model/Stub.vio
Proofs/StubProofs.vos Proofs/StubProofs.vok Proofs/StubProofs.required_vos: Proofs/StubProofs.v Base/Prelude.vos Base/Str.vos Model/Stub.vos
Proofs/SyntaxProofs.vo Proofs/SyntaxProofs.glob Proofs/SyntaxProofs.v.beautified Proofs/SyntaxProofs.required_vo: Proofs/SyntaxProofs.v Base/Prelude.vo Base/Str.vo
Proofs/SyntaxProofs.vio: Proofs/SyntaxProofs.v Base/Prelude.vio Base/Str.vio
Proofs/SyntaxProofs.vos Proofs/SyntaxProofs.vok Proofs/SyntaxProofs.required_vos: Proofs/SyntaxProofs.v Base/Prelude.vos Base/Str.vos
Proofs/TagsProofs.vo Proofs/TagsProofs.glob Proofs/TagsProofs.v.beautified Proofs/TagsProofs.required_vo: Proofs/TagsProofs.v Base/Prelude.vo Base/Str.vo Model/Tags.vo
Proofs/TagsProofs.vio: Proofs/TagsProofs.v Base/Prelude.vio Base/Str.vio Model/Tags.vio
Proofs/TagsProofs.vos Proofs/TagsProofs.vok Proofs/TagsProofs.required_vos: Proofs/TagsProofs.v Base/Prelude.vos Base/Str.vos Model/Tags.vos
Props/C01.vo Props/C01.glob Props/C01.v.beautified Props/C01.required_vo: Props/C01.v Base/Prelude.vo Base/MaskSet.vo Model/IR.vo Model/RegFile.vo Model/Liveness.vo Model/Alloc.vo Model/Cleanup.vo Model/Pipeline.vo Model/Sem.vo Proofs/LivenessProofs.vo Proofs/AllocProofs.vo Proofs/SimProofs.vo Proofs/SimLink.vo Proofs/SimValidator.vo Proofs/LivenessTerm.vo Proofs/AllocLoop.vo Proofs/AllocCorrect.vo Proofs/AllocSim.vo Proofs/BindProofs.vo Model/CFG.vo Model/NodeSem.vo Proofs/CleanupSem.vo Proofs/CFGSem.vo Proofs/NodeMachine.vo Model/Cert.vo Proofs/SimCert.vo
Props/C01.vio: Props/C01.v Base/Prelude.vio Base/MaskSet.vio Model/IR.vio Model/RegFile.vio Model/Liveness.vio Model/Alloc.vio Model/Cleanup.vio Model/Pipeline.vio Model/Sem.vio Proofs/LivenessProofs.vio Proofs/AllocProofs.vio Proofs/SimProofs.vio Proofs/SimLink.vio Proofs/SimValidator.vio Proofs/LivenessTerm.vio Proofs/AllocLoop.vio Proofs/AllocCorrect.vio Proofs/AllocSim.vio Proofs/BindProofs.vio Model/CFG.vio Model/NodeSem.vio Proofs/CleanupSem.vio Proofs/CFGSem.vio Proofs/NodeMachine.vio Model/Cert.vio Proofs/SimCert.vio
Props/C01.vos Props/C01.vok Props/C01.required_vos: Props/C01.v Base/Prelude.vos Base/MaskSet.vos Model/IR.vos Model/RegFile.vos Model/Liveness.vos Model/Alloc.vos Model/Cleanup.vos Model/Pipeline.vos Model/Sem.vos Proofs/LivenessProofs.vos Proofs/AllocProofs.vos Proofs/SimProofs.vos Proofs/SimLink.vos Proofs/SimValidator.vos Proofs/LivenessTerm.vos Proofs/AllocLoop.vos Proofs/AllocCorrect.vos Proofs/AllocSim.vos Proofs/BindProofs.vos Model/CFG.vos Model/NodeSem.vos Proofs/CleanupSem.vos Proofs/CFGSem.vos Proofs/NodeMachine.vos Model/Cert.vos Proofs/SimCert.vos
Props/C02.vo Props/C02.glob Props/C02.v.beautified Props/C02.required_vo: Props/C02.v Base/Prelude.vo Base/MaskSet.vo Model/IR.vo Model/Liveness.vo Proofs/LivenessProofs.vo Proofs/LivenessTerm.vo Proofs/LiveSpecProofs.vo Model/Sem.vo Proofs/SimProofs.vo Proofs/SimLink.vo Proofs/LiveSem.vo Model/Cert.vo Proofs/LiveCert.vo
Props/C02.vio: Props/C02.v Base/Prelude.vio Base/MaskSet.vio Model/IR.vio Model/Liveness.vio Proofs/LivenessProofs.vio Proofs/LivenessTerm.vio Proofs/LiveSpecProofs.vio Model/Sem.vio Proofs/SimProofs.vio Proofs/SimLink.vio Proofs/LiveSem.vio Model/Cert.vio Proofs/LiveCert.vio
Props/C02.vos Props/C02.vok Props/C02.required_vos: Props/C02.v Base/Prelude.vos Base/MaskSet.vos Model/IR.vos Model/Liveness.vos Proofs/LivenessProofs.vos Proofs/LivenessTerm.vos Proofs/LiveSpecProofs.vos Model/Sem.vos Proofs/SimProofs.vos Proofs/SimLink.vos Proofs/LiveSem.vos Model/Cert.vos Proofs/LiveCert.vos
Props/C03.vo Props/C03.glob Props/C03.v.beautified Props/C03.required_vo: Props/C03.v Base/Prelude.vo Base/MaskSet.vo Model/IR.vo Model/RegFile.vo Model/RegSpec.vo Model/Liveness.vo Model/Alloc.vo Model/Cleanup.vo Model/Pipeline.vo Proofs/RegProofs.vo Proofs/AllocProofs.vo Proofs/AllocLoop.vo Proofs/AllocCorrect.vo Proofs/PipelineProofs.vo
Props/C03.vio: Props/C03.v Base/Prelude.vio Base/MaskSet.vio Model/IR.vio Model/RegFile.vio Model/RegSpec.vio Model/Liveness.vio Model/Alloc.vio Model/Cleanup.vio Model/Pipeline.vio Proofs/RegProofs.vio Proofs/AllocProofs.vio Proofs/AllocLoop.vio Proofs/AllocCorrect.vio Proofs/PipelineProofs.vio
Props/C03.vos Props/C03.vok Props/C03.required_vos: Props/C03.v Base/Prelude.vos Base/MaskSet.vos Model/IR.vos Model/RegFile.vos Model/RegSpec.vos Model/Liveness.vos Model/Alloc.vos Model/Cleanup.vos Model/Pipeline.vos Proofs/RegProofs.vos Proofs/AllocProofs.vos Proofs/AllocLoop.vos Proofs/AllocCorrect.vos Proofs/PipelineProofs.vos
Props/C04.vo Props/C04.glob Props/C04.v.beautified Props/C04.required_vo: Props/C04.v Base/Prelude.vo Base/Str.vo Base/MaskSet.vo Model/IR.vo Model/RegFile.vo Model/Forms.vo Proofs/IOProofs.vo
Props/C04.vio: Props/C04.v Base/Prelude.vio Base/Str.vio Base/MaskSet.vio Model/IR.vio Model/RegFile.vio Model/Forms.vio Proofs/IOProofs.vio
Props/C04.vos Props/C04.vok Props/C04.required_vos: Props/C04.v Base/Prelude.vos Base/Str.vos Base/MaskSet.vos Model/IR.vos Model/RegFile.vos Model/Forms.vos Proofs/IOProofs.vos
Props/C05.vo Props/C05.glob Props/C05.v.beautified Props/C05.required_vo: Props/C05.v Base/Prelude.vo Base/Str.vo Base/MaskSet.vo Model/IR.vo Model/RegFile.vo Model/Data.vo Model/AsmSyntax.vo Proofs/DataProofs.vo Proofs/SyntaxProofs.vo Model/MemOps.vo Proofs/MemOpsProofs.vo
Props/C05.vio: Props/C05.v Base/Prelude.vio Base/Str.vio Base/MaskSet.vio Model/IR.vio Model/RegFile.vio Model/Data.vio Model/AsmSyntax.vio Proofs/DataProofs.vio Proofs/SyntaxProofs.vio Model/MemOps.vio Proofs/MemOpsProofs.vio
Props/C05.vos Props/C05.vok Props/C05.required_vos: Props/C05.v Base/Prelude.vos Base/Str.vos Base/MaskSet.vos Model/IR.vos Model/RegFile.vos Model/Data.vos Model/AsmSyntax.vos Proofs/DataProofs.vos Proofs/SyntaxProofs.vos Model/MemOps.vos Proofs/MemOpsProofs.vos
Props/C06.vo Props/C06.glob Props/C06.v.beautified Props/C06.required_vo: Props/C06.v Base/Prelude.vo Base/Str.vo Base/MaskSet.vo Model/IR.vo Model/RegFile.vo Model/Forms.vo Model/Ctors.vo Proofs/FormsProofs.vo
Props/C06.vio: Props/C06.v Base/Prelude.vio Base/Str.vio Base/MaskSet.vio Model/IR.vio Model/RegFile.vio Model/Forms.vio Model/Ctors.vio Proofs/FormsProofs.vio
Props/C06.vos Props/C06.vok Props/C06.required_vos: Props/C06.v Base/Prelude.vos Base/Str.vos Base/MaskSet.vos Model/IR.vos Model/RegFile.vos Model/Forms.vos Model/Ctors.vos Proofs/FormsProofs.vos
Props/C07.vo Props/C07.glob Props/C07.v.beautified Props/C07.required_vo: Props/C07.v Base/Prelude.vo Base/Str.vo Model/Layout.vo Proofs/LayoutProofs.vo Proofs/FlattenProofs.vo
Props/C07.vio: Props/C07.v Base/Prelude.vio Base/Str.vio Model/Layout.vio Proofs/LayoutProofs.vio Proofs/FlattenProofs.vio
Props/C07.vos Props/C07.vok Props/C07.required_vos: Props/C07.v Base/Prelude.vos Base/Str.vos Model/Layout.vos Proofs/LayoutProofs.vos Proofs/FlattenProofs.vos
Props/C08.vo Props/C08.glob Props/C08.v.beautified Props/C08.required_vo: Props/C08.v Base/Prelude.vo Base/Str.vo Base/MaskSet.vo Model/IR.vo Model/RegFile.vo Model/Forms.vo Model/Mov.vo Proofs/MovProofs.vo
Props/C08.vio: Props/C08.v Base/Prelude.vio Base/Str.vio Base/MaskSet.vio Model/IR.vio Model/RegFile.vio Model/Forms.vio Model/Mov.vio Proofs/MovProofs.vio
Props/C08.vos Props/C08.vok Props/C08.required_vos: Props/C08.v Base/Prelude.vos Base/Str.vos Base/MaskSet.vos Model/IR.vos Model/RegFile.vos Model/Forms.vos Model/Mov.vos Proofs/MovProofs.vos
Props/C09.vo Props/C09.glob Props/C09.v.beautified Props/C09.required_vo: Props/C09.v Base/Prelude.vo Base/MaskSet.vo Model/IR.vo Model/CFG.vo Model/NodeSem.vo Proofs/CFGProofs.vo Proofs/CleanupSem.vo Proofs/CFGSem.vo
Props/C09.vio: Props/C09.v Base/Prelude.vio Base/MaskSet.vio Model/IR.vio Model/CFG.vio Model/NodeSem.vio Proofs/CFGProofs.vio Proofs/CleanupSem.vio Proofs/CFGSem.vio
Props/C09.vos Props/C09.vok Props/C09.required_vos: Props/C09.v Base/Prelude.vos Base/MaskSet.vos Model/IR.vos Model/CFG.vos Model/NodeSem.vos Proofs/CFGProofs.vos Proofs/CleanupSem.vos Proofs/CFGSem.vos
Props/C10.vo Props/C10.glob Props/C10.v.beautified Props/C10.required_vo: Props/C10.v Base/Prelude.vo Base/MaskSet.vo Model/IR.vo Model/RegFile.vo Model/Alloc.vo Model/Cleanup.vo Model/NodeSem.vo Proofs/AllocProofs.vo Proofs/CleanupProofs.vo Proofs/CleanupSem.vo
Props/C10.vio: Props/C10.v Base/Prelude.vio Base/MaskSet.vio Model/IR.vio Model/RegFile.vio Model/Alloc.vio Model/Cleanup.vio Model/NodeSem.vio Proofs/AllocProofs.vio Proofs/CleanupProofs.vio Proofs/CleanupSem.vio
Props/C10.vos Props/C10.vok Props/C10.required_vos: Props/C10.v Base/Prelude.vos Base/MaskSet.vos Model/IR.vos Model/RegFile.vos Model/Alloc.vos Model/Cleanup.vos Model/NodeSem.vos Proofs/AllocProofs.vos Proofs/CleanupProofs.vos Proofs/CleanupSem.vos
Props/C11.vo Props/C11.glob Props/C11.v.beautified Props/C11.required_vo: Props/C11.v Base/Prelude.vo Base/Str.vo Base/MaskSet.vo Model/IR.vo Model/RegFile.vo Model/Data.vo Model/Attr.vo Model/AsmSyntax.vo Model/PrintAsm.vo Model/NodeSem.vo Proofs/PrintProofs.vo Proofs/PrintSem.vo Proofs/PrintBlock.vo
Props/C11.vio: Props/C11.v Base/Prelude.vio Base/Str.vio Base/MaskSet.vio Model/IR.vio Model/RegFile.vio Model/Data.vio Model/Attr.vio Model/AsmSyntax.vio Model/PrintAsm.vio Model/NodeSem.vio Proofs/PrintProofs.vio Proofs/PrintSem.vio Proofs/PrintBlock.vio
Props/C11.vos Props/C11.vok Props/C11.required_vos: Props/C11.v Base/Prelude.vos Base/Str.vos Base/MaskSet.vos Model/IR.vos Model/RegFile.vos Model/Data.vos Model/Attr.vos Model/AsmSyntax.vos Model/PrintAsm.vos Model/NodeSem.vos Proofs/PrintProofs.vos Proofs/PrintSem.vos Proofs/PrintBlock.vos
Props/C12.vo Props/C12.glob Props/C12.v.beautified Props/C12.required_vo: Props/C12.v Base/Prelude.vo Base/Str.vo Model/Stub.vo Proofs/StubProofs.vo
Props/C12.vio: Props/C12.v Base/Prelude.vio Base/Str.vio Model/Stub.vio Proofs/StubProofs.vio
Props/C12.vos Props/C12.vok Props/C12.required_vos: Props/C12.v Base/Prelude.vos Base/Str.vos Model/Stub.vos Proofs/StubProofs.vos
Props/C13.vo Props/C13.glob Props/C13.v.beautified Props/C13.required_vo: Props/C13.v Base/Prelude.vo Base/Str.vo Model/Data.vo Proofs/DataProofs.vo
Props/C13.vio: Props/C13.v Base/Prelude.vio Base/Str.vio Model/Data.vio Proofs/DataProofs.vio
Props/C13.vos Props/C13.vok Props/C13.required_vos: Props/C13.v Base/Prelude.vos Base/Str.vos Model/Data.vos Proofs/DataProofs.vos
Props/C14.vo Props/C14.glob Props/C14.v.beautified Props/C14.required_vo: Props/C14.v Base/Prelude.vo Base/Str.vo Model/Tags.vo Proofs/TagsProofs.vo
Props/C14.vio: Props/C14.v Base/Prelude.vio Base/Str.vio Model/Tags.vio Proofs/TagsProofs.vio
Props/C14.vos Props/C14.vok Props/C14.required_vos: Props/C14.v Base/Prelude.vos Base/Str.vos Model/Tags.vos Proofs/TagsProofs.vos
Props/C15.vo Props/C15.glob Props/C15.v.beautified Props/C15.required_vo: Props/C15.v Base/Prelude.vo Base/MaskSet.vo Model/IR.vo Model/RegFile.vo Model/RegSpec.vo Model/Liveness.vo Model/Alloc.vo Model/Cleanup.vo Proofs/AllocProofs.vo
Props/C15.vio: Props/C15.v Base/Prelude.vio Base/MaskSet.vio Model/IR.vio Model/RegFile.vio Model/RegSpec.vio Model/Liveness.vio Model/Alloc.vio Model/Cleanup.vio Proofs/AllocProofs.vio
Props/C15.vos Props/C15.vok Props/C15.required_vos: Props/C15.v Base/Prelude.vos Base/MaskSet.vos Model/IR.vos Model/RegFile.vos Model/RegSpec.vos Model/Liveness.vos Model/Alloc.vos Model/Cleanup.vos Proofs/AllocProofs.vos
Props/C16.vo Props/C16.glob Props/C16.v.beautified Props/C16.required_vo: Props/C16.v Base/Prelude.vo Model/Frame.vo Proofs/FrameProofs.vo
Props/C16.vio: Props/C16.v Base/Prelude.vio Model/Frame.vio Proofs/FrameProofs.vio
Props/C16.vos Props/C16.vok Props/C16.required_vos: Props/C16.v Base/Prelude.vos Model/Frame.vos Proofs/FrameProofs.vos
Props/C17.vo Props/C17.glob Props/C17.v.beautified Props/C17.required_vo: Props/C17.v Base/Prelude.vo Base/MaskSet.vo Model/IR.vo Model/RegFile.vo Model/Liveness.vo Model/Alloc.vo Proofs/DetProofs.vo
Props/C17.vio: Props/C17.v Base/Prelude.vio Base/MaskSet.vio Model/IR.vio Model/RegFile.vio Model/Liveness.vio Model/Alloc.vio Proofs/DetProofs.vio
Props/C17.vos Props/C17.vok Props/C17.required_vos: Props/C17.v Base/Prelude.vos Base/MaskSet.vos Model/IR.vos Model/RegFile.vos Model/Liveness.vos Model/Alloc.vos Proofs/DetProofs.vos
Props/C18.vo Props/C18.glob Props/C18.v.beautified Props/C18.required_vo: Props/C18.v Base/Prelude.vo Base/Str.vo Model/Data.vo Model/Builder.vo Model/PassFramework.vo Proofs/BuilderProofs.vo Proofs/PassFrameworkProofs.vo
Props/C18.vio: Props/C18.v Base/Prelude.vio Base/Str.vio Model/Data.vio Model/Builder.vio Model/PassFramework.vio Proofs/BuilderProofs.vio Proofs/PassFrameworkProofs.vio
Props/C18.vos Props/C18.vok Props/C18.required_vos: Props/C18.v Base/Prelude.vos Base/Str.vos Model/Data.vos Model/Builder.vos Model/PassFramework.vos Proofs/BuilderProofs.vos Proofs/PassFrameworkProofs.vos
Props/C19.vo Props/C19.glob Props/C19.v.beautified Props/C19.required_vo: Props/C19.v Base/Prelude.vo Base/Str.vo Model/Attr.vo Proofs/AttrProofs.vo
Props/C19.vio: Props/C19.v Base/Prelude.vio Base/Str.vio Model/Attr.vio Proofs/AttrProofs.vio
Props/C19.vos Props/C19.vok Props/C19.required_vos: Props/C19.v Base/Prelude.vos Base/Str.vos Model/Attr.vos Proofs/AttrProofs.vos
Props/C20.vo Props/C20.glob Props/C20.v.beautified Props/C20.required_vo: Props/C20.v Base/Prelude.vo Base/Str.vo Base/MaskSet.vo Model/IR.vo Model/RegFile.vo Model/RegSpec.vo Model/Collection.vo Proofs/RegProofs.vo Proofs/CollectionProofs.vo
Props/C20.vio: Props/C20.v Base/Prelude.vio Base/Str.vio Base/MaskSet.vio Model/IR.vio Model/RegFile.vio Model/RegSpec.vio Model/Collection.vio Proofs/RegProofs.vio Proofs/CollectionProofs.vio
Props/C20.vos Props/C20.vok Props/C20.required_vos: Props/C20.v Base/Prelude.vos Base/Str.vos Base/MaskSet.vos Model/IR.vos Model/RegFile.vos Model/RegSpec.vos Model/Collection.vos Proofs/RegProofs.vos Proofs/CollectionProofs.vos
