(* C01: pass.AllocateRegisters (model) is correct for every program: when it returns an
   allocation, a register written by an instruction never shares a physical register with a
   different register that is live after that instruction on an overlapping byte class. *)
From Avo Require Import Base.Prelude.
From stdpp Require Import gmap.
From Avo Require Import Base.MaskSet Model.IR Model.RegFile Model.Liveness Model.Alloc Proofs.AllocProofs Proofs.AllocLoop.
Open Scope N_scope.

(* ---- well-formed allocator states (what NewAllocator / Add / AddInterference build) *)
Record awf (a : astate) : Prop := {
  w_alloc : a_alloc a = ∅;
  w_regs : forall c, In c (a_regs a) -> phys c;
  w_keys : forall v, is_Some (a_poss a !! v) -> virt v;
  w_cand : forall v c, In c (pl (a_poss a) v) -> In c (a_regs a) /\ id_kind c = id_kind v;
  w_ends : forall e, In e (a_edges a) -> (virt (fst e) -> is_Some (a_poss a !! fst e)) /\ (virt (snd e) -> is_Some (a_poss a !! snd e))
}.

Lemma a_add_poss a v v' : is_Some (a_poss a !! v') -> is_Some (a_poss (a_add a v) !! v').
Proof.
  intro H. unfold a_add. destruct (negb (id_is_virtual v)); [exact H|].
  destruct (a_poss a !! v) eqn:E; [exact H|]. cbn [a_poss].
  destruct (decide (v = v')) as [<-|Hne]; [rewrite lookup_insert; eauto|now rewrite lookup_insert_ne].
Qed.
Lemma a_add_self a v : virt v -> is_Some (a_poss (a_add a v) !! v).
Proof.
  intro Hv. unfold a_add. rewrite Hv. cbn [negb]. destruct (a_poss a !! v) eqn:E; [rewrite E; eauto|].
  cbn [a_poss]. rewrite lookup_insert. eauto.
Qed.
Lemma a_add_edges a v : a_edges (a_add a v) = a_edges a.
Proof. unfold a_add. destruct (negb (id_is_virtual v)); [reflexivity|]. destruct (a_poss a !! v); reflexivity. Qed.
Lemma a_add_regs a v : a_regs (a_add a v) = a_regs a.
Proof. unfold a_add. destruct (negb (id_is_virtual v)); [reflexivity|]. destruct (a_poss a !! v); reflexivity. Qed.

Lemma a_add_wf a v : awf a -> awf (a_add a v).
Proof.
  intros [W1 W2 W3 W4 W5]. unfold a_add. destruct (id_is_virtual v) eqn:Hv; cbn [negb]; [|constructor; assumption].
  destruct (a_poss a !! v) eqn:E; [constructor; assumption|].
  constructor; cbn [a_alloc a_regs a_poss a_edges]; auto.
  - intros v' Hs. destruct (decide (v = v')) as [<-|Hne]; [exact Hv|]. rewrite lookup_insert_ne in Hs by assumption. now apply W3.
  - intros v' c Hc. unfold pl in Hc. destruct (decide (v = v')) as [<-|Hne].
    + rewrite lookup_insert in Hc. cbn [default] in Hc. apply List.filter_In in Hc as [Hin Hk]. split; [exact Hin|].
      apply N.eqb_eq in Hk. now symmetry.
    + rewrite lookup_insert_ne in Hc by assumption. now apply W4.
  - intros e He. destruct (W5 e He) as [A B]. split; intro Hx.
    + destruct (decide (v = fst e)) as [<-|Hne]; [rewrite lookup_insert; eauto|rewrite lookup_insert_ne by assumption; auto].
    + destruct (decide (v = snd e)) as [<-|Hne]; [rewrite lookup_insert; eauto|rewrite lookup_insert_ne by assumption; auto].
Qed.

Lemma a_add_interference_wf a x y : awf a -> awf (a_add_interference a x y).
Proof.
  intro W. unfold a_add_interference.
  assert (W1 : awf (a_add (a_add a x) y)) by (now apply a_add_wf, a_add_wf).
  destruct W1 as [V1 V2 V3 V4 V5]. constructor; cbn [a_alloc a_regs a_poss a_edges]; auto.
  intros e He. apply in_app_or in He as [He|[<-|[]]]; [now apply V5|]. cbn [fst snd]. split; intro Hv.
  - apply a_add_poss. now apply a_add_self.
  - now apply a_add_self.
Qed.
Lemma a_add_interference_edges a x y e : In e (a_edges a) -> In e (a_edges (a_add_interference a x y)).
Proof. intro H. unfold a_add_interference. cbn [a_edges]. rewrite !a_add_edges. apply in_or_app. now left. Qed.
Lemma a_add_interference_new a x y : In (x, y) (a_edges (a_add_interference a x y)).
Proof. unfold a_add_interference. cbn [a_edges]. apply in_or_app. right. now left. Qed.
Lemma a_add_interference_poss a x y v : is_Some (a_poss a !! v) -> is_Some (a_poss (a_add_interference a x y) !! v).
Proof. intro H. unfold a_add_interference. cbn [a_poss]. now apply a_add_poss, a_add_poss. Qed.

Lemma a_ais_wf d order : forall a, awf a -> awf (a_add_interference_set a d order).
Proof.
  unfold a_add_interference_set. induction order as [|e order IH]; intros a W; cbn [fold_left]; [exact W|].
  apply IH. destruct (negb (N.land (rmask d) (snd e) =? 0)); [now apply a_add_interference_wf|exact W].
Qed.
Lemma a_ais_mono d order : forall a,
  (forall e, In e (a_edges a) -> In e (a_edges (a_add_interference_set a d order)))
  /\ (forall v, is_Some (a_poss a !! v) -> is_Some (a_poss (a_add_interference_set a d order) !! v)).
Proof.
  unfold a_add_interference_set. induction order as [|e order IH]; intros a; cbn [fold_left]; [split; auto|].
  destruct (IH (if negb (N.land (rmask d) (snd e) =? 0) then a_add_interference a (rid d) (fst e) else a)) as [I1 I2].
  destruct (negb (N.land (rmask d) (snd e) =? 0)); split.
  - intros e' He'. apply I1. now apply a_add_interference_edges.
  - intros v Hv. apply I2. now apply a_add_interference_poss.
  - exact I1.
  - exact I2.
Qed.
Lemma a_ais_edge d order : forall a y m, In (y, m) order -> N.land (rmask d) m <> 0 ->
  In (rid d, y) (a_edges (a_add_interference_set a d order)).
Proof.
  unfold a_add_interference_set. induction order as [|e order IH]; intros a y m Hin Hm; [destruct Hin|]. cbn [fold_left].
  destruct Hin as [->|Hin].
  - cbn [fst snd]. apply N.eqb_neq in Hm. rewrite Hm. cbn [negb].
    apply (proj1 (a_ais_mono d order _)). apply a_add_interference_new.
  - eapply IH; eauto.
Qed.

(* ---- one allocator: from a well-formed state to a proper colouring of its edges *)
Lemma lk_empty x : lk (∅ : AL) x = x.
Proof. unfold lookup_default. now rewrite lookup_empty. Qed.

Lemma allocate_awf fuel a al : awf a -> a_allocate fuel a = OK al ->
  (forall x y, In (x, y) (a_edges a) -> phys (lk al x) /\ phys (lk al y) /\ lk al x <> lk al y)
  /\ (forall v c, al !! v = Some c -> virt v /\ phys c /\ id_kind c = id_kind v)
  /\ (forall v, is_Some (a_poss a !! v) -> is_Some (al !! v))
  /\ (forall v c, al !! v = Some c -> In c (a_regs a)).
Proof.
  intros [W1 W2 W3 W4 W5] H.
  assert (Hinv : AInv (a_edges a) (a_alloc a) (a_edges a) (a_poss a)).
  { rewrite W1. constructor.
    - intros v c Hl. rewrite lookup_empty in Hl. discriminate.
    - intros v Hs. split; [now apply W3|apply lookup_empty].
    - intros v c Hc. destruct (W4 v c Hc) as [Hin Hk]. split; [now apply W2|exact Hk].
    - auto.
    - intros e He. unfold ends_in. rewrite !lk_empty. now apply W5.
    - intros x y Hin. now left. }
  destruct (allocate_sound (a_edges a) fuel a al Hinv H) as (_ & K2 & K3 & K4 & K5).
  split; [exact K5|]. split; [exact K2|]. split; [exact K3|].
  intros v c Hl. destruct (K4 v c Hl) as [He|Hc]; [rewrite W1, lookup_empty in He; discriminate|]. now destruct (W4 v c Hc).
Qed.

(* ---- merging the per-kind allocations *)
Lemma merge_alloc_spec a b m : merge_alloc a b = OK m ->
  (forall v c, a !! v = Some c -> m !! v = Some c)
  /\ (forall v c, b !! v = Some c -> m !! v = Some c)
  /\ (forall v c, m !! v = Some c -> a !! v = Some c \/ b !! v = Some c).
Proof.
  unfold merge_alloc. revert m.
  apply (map_fold_ind (fun (r : res AL) (b' : AL) => forall m, r = OK m ->
     (forall v c, a !! v = Some c -> m !! v = Some c)
     /\ (forall v c, b' !! v = Some c -> m !! v = Some c)
     /\ (forall v c, m !! v = Some c -> a !! v = Some c \/ b' !! v = Some c))).
  - intros m [= <-]. split; [auto|]. split; [|auto]. intros v c Hl. rewrite lookup_empty in Hl. discriminate.
  - intros id p b' r Hid IH m Hr. destruct r as [m0| |]; cbn [res_bind] in Hr; try discriminate.
    destruct (IH m0 eq_refl) as (I1 & I2 & I3).
    assert (Hm : m = <[id := p]> m0 /\ (forall alt, m0 !! id = Some alt -> alt = p)).
    { destruct (m0 !! id) as [alt|] eqn:E.
      - destruct (N.eqb_spec alt p) as [->|Hne]; [|discriminate]. inversion Hr. split; [reflexivity|]. intros ? [= <-]. reflexivity.
      - inversion Hr. split; [reflexivity|]. intros ? [=]. }
    destruct Hm as [-> Halt]. split; [|split].
    + intros v c Hl. destruct (decide (id = v)) as [<-|Hne].
      * rewrite lookup_insert. f_equal. symmetry. apply Halt. now apply I1.
      * rewrite lookup_insert_ne by assumption. now apply I1.
    + intros v c Hl. destruct (decide (id = v)) as [<-|Hne].
      * rewrite lookup_insert in Hl |- *. exact Hl.
      * rewrite lookup_insert_ne in Hl |- * by assumption. now apply I2.
    + intros v c Hl. destruct (decide (id = v)) as [<-|Hne].
      * rewrite lookup_insert in Hl |- *. now right.
      * rewrite lookup_insert_ne in Hl |- * by assumption. destruct (I3 v c Hl); auto.
Qed.

Definition alloc_of (ka : N * astate) (al : AL) : Prop := a_allocate (S (size (a_poss (snd ka)))) (snd ka) = OK al.

Lemma fold_merge_spec l : forall m0 al,
  fold_left (fun acc ka => do m <- acc; do al <- a_allocate (S (size (a_poss (snd ka)))) (snd ka); merge_alloc m al) l (OK m0) = OK al ->
  (forall v c, m0 !! v = Some c -> al !! v = Some c)
  /\ (forall ka, In ka l -> exists alk, alloc_of ka alk /\ forall v c, alk !! v = Some c -> al !! v = Some c)
  /\ (forall v c, al !! v = Some c -> m0 !! v = Some c \/ exists ka alk, In ka l /\ alloc_of ka alk /\ alk !! v = Some c).
Proof.
  induction l as [|ka l IH]; intros m0 al H; cbn [fold_left] in H.
  - inversion H; subst. split; [auto|]. split; [intros ? []|auto].
  - cbn [res_bind] in H. destruct (a_allocate (S (size (a_poss (snd ka)))) (snd ka)) as [alk| |] eqn:Ea; cbn [res_bind] in H.
    + destruct (merge_alloc m0 alk) as [m1| |] eqn:Em.
      * destruct (IH m1 al H) as (I1 & I2 & I3). destruct (merge_alloc_spec _ _ _ Em) as (M1 & M2 & M3).
        split; [|split].
        -- intros v c Hl. apply I1. now apply M1.
        -- intros ka' [<-|Hin]; [|now apply I2]. exists alk. split; [exact Ea|]. intros v c Hl. apply I1. now apply M2.
        -- intros v c Hl. destruct (I3 v c Hl) as [Hm|(ka' & alk' & Hin & Ha & Hl')].
           ++ destruct (M3 v c Hm) as [?|Hb]; [now left|]. right. exists ka, alk. split; [now left|]. split; [exact Ea|exact Hb].
           ++ right. exists ka', alk'. split; [now right|]. split; assumption.
      * exfalso. clear -H. induction l as [|x l IHl]; cbn in H; [discriminate|]. now apply IHl.
      * exfalso. clear -H. induction l as [|x l IHl]; cbn in H; [discriminate|]. now apply IHl.
    + exfalso. clear -H. induction l as [|x l IHl]; cbn in H; [discriminate|]. now apply IHl.
    + exfalso. clear -H. induction l as [|x l IHl]; cbn in H; [discriminate|]. now apply IHl.
Qed.

(* ---- the family of allocators, one per register kind *)
Definition regfile_ok (rf : regfile) : bool := forallb (fun p => negb (id_is_virtual (p_id p))) rf.

Definition Wall (asx : ALLOCS) : Prop := forall k a, asx !! k = Some a -> awf a.
Definition amono (a a' : astate) : Prop :=
  (forall e, In e (a_edges a) -> In e (a_edges a')) /\ (forall v, is_Some (a_poss a !! v) -> is_Some (a_poss a' !! v)).
Definition asmono (x x' : ALLOCS) : Prop :=
  (forall k, is_Some (x' !! k) <-> is_Some (x !! k)) /\ (forall k a, x !! k = Some a -> exists a', x' !! k = Some a' /\ amono a a').

Lemma amono_refl a : amono a a. Proof. split; auto. Qed.
Lemma amono_trans a b c : amono a b -> amono b c -> amono a c.
Proof. intros [A1 A2] [B1 B2]. split; auto. Qed.
Lemma asmono_refl x : asmono x x.
Proof. split; [tauto|]. intros k a H. exists a. split; [exact H|apply amono_refl]. Qed.
Lemma asmono_trans x y z : asmono x y -> asmono y z -> asmono x z.
Proof.
  intros [A1 A2] [B1 B2]. split; [intro k; rewrite B1; apply A1|].
  intros k a H. destruct (A2 k a H) as (a' & H' & M1). destruct (B2 k a' H') as (a'' & H'' & M2).
  exists a''. split; [exact H''|eapply amono_trans; eauto].
Qed.
Lemma asmono_insert x k a a' : x !! k = Some a -> amono a a' -> asmono x (<[k := a']> x).
Proof.
  intros Hk Hm. split.
  - intro k'. destruct (decide (k = k')) as [<-|Hne]; [rewrite lookup_insert, Hk; split; eauto|now rewrite lookup_insert_ne].
  - intros k' b Hb. destruct (decide (k = k')) as [<-|Hne].
    + rewrite Hk in Hb. inversion Hb; subst b. exists a'. split; [apply lookup_insert|exact Hm].
    + exists b. split; [now rewrite lookup_insert_ne|apply amono_refl].
Qed.
Lemma Wall_insert x k a : Wall x -> awf a -> Wall (<[k := a]> x).
Proof.
  intros W Wa k' b Hb. destruct (decide (k = k')) as [<-|Hne].
  - rewrite lookup_insert in Hb. now inversion Hb; subst.
  - rewrite lookup_insert_ne in Hb by assumption. eapply W; eauto.
Qed.

Lemma new_allocator_wf rf k a : regfile_ok rf = true -> new_allocator rf k = OK a -> awf a.
Proof.
  intros Hrf H. unfold new_allocator in H. destruct (negb (family_exists k)); [discriminate|].
  destruct (colours rf k) as [|c cs] eqn:Ec; [discriminate|]. inversion H; subst a. constructor; cbn [a_alloc a_regs a_poss a_edges].
  - reflexivity.
  - intros c' Hc'. rewrite <- Ec in Hc'. apply colours_spec in Hc' as (p & Hin & _ & Hid & _).
    unfold regfile_ok in Hrf. rewrite forallb_forall in Hrf. specialize (Hrf p Hin). apply negb_true_iff in Hrf. unfold phys. now rewrite <- Hid.
  - intros v Hs. rewrite lookup_empty in Hs. destruct Hs; discriminate.
  - intros v c' Hc'. unfold pl in Hc'. rewrite lookup_empty in Hc'. destruct Hc'.
  - intros e [].
Qed.

Lemma init_allocators_spec rf rs : forall asx asx', regfile_ok rf = true -> Wall asx -> init_allocators rf rs asx = OK asx' ->
  Wall asx' /\ (forall k a, asx !! k = Some a -> asx' !! k = Some a)
  /\ (forall r, In r rs -> is_Some (asx' !! reg_kind r))
  /\ (forall k, is_Some (asx' !! k) -> is_Some (asx !! k) \/ exists r, In r rs /\ reg_kind r = k).
Proof.
  induction rs as [|r rs IH]; intros asx asx' Hrf W H; cbn [init_allocators] in H.
  - inversion H; subst. split; [exact W|]. split; [auto|]. split; [intros ? []|auto].
  - destruct (asx !! reg_kind r) as [a0|] eqn:E.
    + destruct (IH _ _ Hrf W H) as (I1 & I2 & I3 & I4). split; [exact I1|]. split; [exact I2|]. split.
      * intros r' [<-|Hin]; [exists a0; now apply I2|now apply I3].
      * intros k Hk. destruct (I4 k Hk) as [?|(r' & Hin & Hr')]; [now left|]. right. exists r'. split; [now right|exact Hr'].
    + destruct (new_allocator rf (reg_kind r)) as [a| |] eqn:En; cbn [res_bind] in H; try discriminate.
      assert (W' : Wall (<[reg_kind r := a]> asx)) by (apply Wall_insert; [exact W|eapply new_allocator_wf; eauto]).
      destruct (IH _ _ Hrf W' H) as (I1 & I2 & I3 & I4). split; [exact I1|]. split; [|split].
      * intros k b Hb. apply I2. rewrite lookup_insert_ne; [exact Hb|]. intro Ek. subst k. rewrite E in Hb. discriminate.
      * intros r' [<-|Hin]; [exists a; apply I2, lookup_insert|now apply I3].
      * intros k Hk. destruct (I4 k Hk) as [Hs|(r' & Hin & Hr')].
        -- destruct (decide (reg_kind r = k)) as [<-|Hne]; [right; exists r; split; [now left|reflexivity]|].
           rewrite lookup_insert_ne in Hs by assumption. now left.
        -- right. exists r'. split; [now right|exact Hr'].
Qed.

Definition addstep (acc : ALLOCS) (r : reg) : ALLOCS :=
  match acc !! reg_kind r with Some a => <[reg_kind r := a_add a (rid r)]> acc | None => acc end.
Lemma addstep_spec acc r : Wall acc -> Wall (addstep acc r) /\ asmono acc (addstep acc r)
  /\ (virt (rid r) -> forall a, addstep acc r !! reg_kind r = Some a -> is_Some (a_poss a !! rid r)).
Proof.
  intro W. unfold addstep. destruct (acc !! reg_kind r) as [a|] eqn:E.
  - split; [apply Wall_insert; [exact W|apply a_add_wf; eapply W; eauto]|]. split.
    + eapply asmono_insert; eauto. split; [rewrite a_add_edges; auto|apply a_add_poss].
    + intros Hv b Hb. rewrite lookup_insert in Hb. inversion Hb; subst b. now apply a_add_self.
  - split; [exact W|]. split; [apply asmono_refl|]. intros _ b Hb. rewrite E in Hb. discriminate.
Qed.
Lemma add_all_spec rs : forall asx, Wall asx ->
  Wall (add_all rs asx) /\ asmono asx (add_all rs asx)
  /\ (forall r, In r rs -> virt (rid r) -> forall a, add_all rs asx !! reg_kind r = Some a -> is_Some (a_poss a !! rid r)).
Proof.
  unfold add_all. induction rs as [|r rs IH]; intros asx W; cbn [fold_left].
  - split; [exact W|]. split; [apply asmono_refl|intros ? []].
  - fold (addstep asx r). destruct (addstep_spec asx r W) as (S1 & S2 & S3). destruct (IH _ S1) as (I1 & I2 & I3).
    split; [exact I1|]. split; [eapply asmono_trans; eauto|].
    intros r' [<-|Hin] Hv a Ha; [|now apply (I3 r' Hin Hv)].
    destruct I2 as [K1 K2]. assert (Hs : is_Some (addstep asx r !! reg_kind r)) by (apply K1; eauto).
    destruct Hs as [a0 Ha0]. destruct (K2 _ _ Ha0) as (a' & Ha' & [_ M]). rewrite Ha in Ha'. inversion Ha'; subst a'.
    apply M. now apply (S3 Hv).
Qed.

(* ---- interference edges *)
Lemma get_nonzero_lookup (s : MS) id k : N.testbit (get s id) k = true -> exists m, s !! id = Some m /\ N.testbit m k = true.
Proof. unfold get. destruct (s !! id) as [m|]; cbn [default]; [eauto|]. rewrite N.bits_0. discriminate. Qed.

Lemma interfere1_spec asx lo d asx' : Wall asx -> interfere1 asx lo d = OK asx' ->
  Wall asx' /\ asmono asx asx'
  /\ (forall y k, is_Some (asx !! reg_kind d) -> y <> rid d -> id_kind y = reg_kind d -> N.testbit (rmask d) k = true -> mem lo y k = true ->
      exists a', asx' !! reg_kind d = Some a' /\ In (rid d, y) (a_edges a')).
Proof.
  intros W H. unfold interfere1 in H. destruct (asx !! reg_kind d) as [a|] eqn:E.
  - inversion H; subst asx'. split; [apply Wall_insert; [exact W|apply a_ais_wf; eapply W; eauto]|]. split.
    + eapply asmono_insert; eauto. apply a_ais_mono.
    + intros y k _ Hne Hk Hb Hm. eexists. split; [apply lookup_insert|].
      set (out := ms_discard (ms_of_kind lo (reg_kind d)) (rid d) (rmask d)).
      assert (Hg : get out y = get lo y).
      { unfold out. rewrite get_discard, get_of_kind. destruct (N.eqb_spec (rid d) y) as [Ey|_]; [congruence|].
        unfold id_kind in Hk. rewrite Hk, N.eqb_refl. reflexivity. }
      unfold mem in Hm. rewrite <- Hg in Hm. destruct (get_nonzero_lookup _ _ _ Hm) as (m & Hl & Hbit).
      apply (a_ais_edge d (map_to_list out) a y m).
      * apply elem_of_list_In, elem_of_map_to_list. exact Hl.
      * intro Hz. assert (Hc : N.testbit (N.land (rmask d) m) k = true) by (rewrite N.land_spec, Hb, Hbit; reflexivity).
        rewrite Hz, N.bits_0 in Hc. discriminate.
  - inversion H; subst asx'. split; [exact W|]. split; [apply asmono_refl|]. intros y k [? Hs]. discriminate.
Qed.

Definition ifold (asx : ALLOCS) (lo : MS) (outs : list reg) : res ALLOCS :=
  fold_left (fun acc d => do a <- acc; interfere1 a lo d) outs (OK asx).
Lemma ifold_spec lo outs : forall asx asx', Wall asx -> ifold asx lo outs = OK asx' ->
  Wall asx' /\ asmono asx asx'
  /\ (forall d y k, In d outs -> is_Some (asx !! reg_kind d) -> y <> rid d -> id_kind y = reg_kind d -> N.testbit (rmask d) k = true -> mem lo y k = true ->
      exists a', asx' !! reg_kind d = Some a' /\ In (rid d, y) (a_edges a')).
Proof.
  unfold ifold. induction outs as [|d outs IH]; intros asx asx' W H; cbn [fold_left] in H.
  - inversion H; subst. split; [exact W|]. split; [apply asmono_refl|intros ? ? ? []].
  - cbn [res_bind] in H. destruct (interfere1 asx lo d) as [asx1| |] eqn:E1.
    + destruct (interfere1_spec _ _ _ _ W E1) as (S1 & S2 & S3). destruct (IH _ _ S1 H) as (I1 & I2 & I3).
      split; [exact I1|]. split; [eapply asmono_trans; eauto|].
      intros d' y k [<-|Hin] Hs Hne Hk Hb Hm.
      * destruct (S3 y k Hs Hne Hk Hb Hm) as (a1 & Ha1 & He). destruct I2 as [_ K2]. destruct (K2 _ _ Ha1) as (a' & Ha' & [M _]).
        exists a'. split; [exact Ha'|now apply M].
      * apply (I3 d' y k Hin); auto. apply S2. exact Hs.
    + exfalso. clear -H. induction outs as [|x l IHl]; cbn in H; [discriminate|]. now apply IHl.
    + exfalso. clear -H. induction outs as [|x l IHl]; cbn in H; [discriminate|]. now apply IHl.
Qed.

Lemma interfere_spec l : forall asx asx', Wall asx -> interfere asx l = OK asx' ->
  Wall asx' /\ asmono asx asx'
  /\ (forall i lo d y k, In (i, lo) l -> In d (output_registers i) -> is_Some (asx !! reg_kind d) -> y <> rid d -> id_kind y = reg_kind d ->
      N.testbit (rmask d) k = true -> mem lo y k = true ->
      exists a', asx' !! reg_kind d = Some a' /\ In (rid d, y) (a_edges a')).
Proof.
  induction l as [|[i lo] l IH]; intros asx asx' W H; cbn [interfere] in H.
  - inversion H; subst. split; [exact W|]. split; [apply asmono_refl|intros ? ? ? ? ? []].
  - fold (ifold asx lo (output_registers i)) in H.
    destruct (ifold asx lo (output_registers i)) as [asx1| |] eqn:E1; cbn [res_bind] in H; try discriminate.
    destruct (ifold_spec _ _ _ _ W E1) as (S1 & S2 & S3). destruct (IH _ _ S1 H) as (I1 & I2 & I3).
    split; [exact I1|]. split; [eapply asmono_trans; eauto|].
    intros i' lo' d y k [Heq|Hin] Hd Hs Hne Hk Hb Hm.
    + inversion Heq; subst i' lo'. destruct (S3 d y k Hd Hs Hne Hk Hb Hm) as (a1 & Ha1 & He).
      destruct I2 as [_ K2]. destruct (K2 _ _ Ha1) as (a' & Ha' & [M _]). exists a'. split; [exact Ha'|now apply M].
    + apply (I3 i' lo' d y k Hin Hd); auto. apply S2. exact Hs.
Qed.

(* ---- AllocateRegisters *)
Lemma lk_of_sub (alk al : AL) x :
  (forall v c, alk !! v = Some c -> al !! v = Some c) ->
  (forall v c, al !! v = Some c -> virt v) ->
  phys (lk alk x) -> lk al x = lk alk x.
Proof.
  intros Hsub Hkeys Hp. unfold lookup_default in *. destruct (alk !! x) as [c|] eqn:E; cbn [default] in *.
  - now rewrite (Hsub x c E).
  - destruct (al !! x) as [c|] eqn:E'; cbn [default]; [|reflexivity]. exfalso. eapply virt_not_phys; eauto.
Qed.

Theorem allocate_registers_correct rf is liveouts al :
  regfile_ok rf = true -> allocate_registers rf is liveouts = OK al ->
  (forall i lo y k, In (i, lo) (List.combine is liveouts) -> mem lo y k = true -> virt y -> exists r, In r (flat_map instr_registers is) /\ rid r = y) ->
  (forall i d, In i is -> In d (output_registers i) -> virt (rid d) -> exists r, In r (flat_map instr_registers is) /\ rid r = rid d) ->
  (forall v c, al !! v = Some c -> virt v /\ phys c /\ id_kind c = id_kind v)
  /\ (forall i lo d y k, In (i, lo) (List.combine is liveouts) -> In d (output_registers i) ->
        N.testbit (rmask d) k = true -> mem lo y k = true -> y <> rid d -> lk al y <> lk al (rid d)).
Proof.
  intros Hrf H Hlive Houts. unfold allocate_registers in H.
  set (allregs := flat_map instr_registers is) in *.
  destruct (init_allocators rf allregs ∅) as [as0| |] eqn:E0; cbn [res_bind] in H; try discriminate.
  destruct (interfere (add_all allregs as0) (List.combine is liveouts)) as [as2| |] eqn:E2; cbn [res_bind] in H; try discriminate.
  assert (Wemp : Wall ∅) by (intros k a Hl; rewrite lookup_empty in Hl; discriminate).
  destruct (init_allocators_spec rf allregs ∅ as0 Hrf Wemp E0) as (W0 & _ & I3 & _).
  destruct (add_all_spec allregs as0 W0) as (W1 & M01 & _).
  destruct (interfere_spec _ _ _ W1 E2) as (W2 & M12 & Hedge).
  destruct (fold_merge_spec _ _ _ H) as (_ & F2 & F3).
  assert (P1 : forall v c, al !! v = Some c -> virt v /\ phys c /\ id_kind c = id_kind v).
  { intros v c Hl. destruct (F3 v c Hl) as [Hemp|(ka & alk & Hin & Ha & Hl')]; [rewrite lookup_empty in Hemp; discriminate|].
    destruct ka as [k a]. apply elem_of_list_In, elem_of_map_to_list in Hin.
    destruct (allocate_awf _ _ _ (W2 k a Hin) Ha) as (_ & K2 & _ & _). now apply K2. }
  split; [exact P1|].
  assert (Hkeys : forall v c, al !! v = Some c -> virt v) by (intros v c Hl; now destruct (P1 v c Hl)).
  assert (Hkind : forall x, id_kind (lk al x) = id_kind x).
  { intro x. unfold lookup_default. destruct (al !! x) as [c|] eqn:E; cbn [default]; [|reflexivity]. now destruct (P1 x c E) as (_ & _ & ?). }
  intros i lo d y k Hin Hd Hb Hm Hne Heq.
  destruct (N.eq_dec (id_kind y) (reg_kind d)) as [Hk|Hk]; [|apply Hk; rewrite <- (Hkind y), Heq, Hkind; reflexivity].
  destruct (add_all allregs as0 !! reg_kind d) as [a1|] eqn:E1.
  - destruct (Hedge i lo d y k Hin Hd ltac:(eauto) Hne Hk Hb Hm) as (a2 & Ha2 & He).
    assert (Hka : In (reg_kind d, a2) (map_to_list as2)) by (apply elem_of_list_In, elem_of_map_to_list; exact Ha2).
    destruct (F2 _ Hka) as (alk & Ha & Hsub). cbn [snd] in Ha.
    destruct (allocate_awf _ _ _ (W2 _ _ Ha2) Ha) as (K1 & _ & _ & _).
    destruct (K1 _ _ He) as (Pd & Py & Hdiff).
    rewrite (lk_of_sub alk al y Hsub Hkeys Py), (lk_of_sub alk al (rid d) Hsub Hkeys Pd) in Heq. now apply Hdiff.
  - (* no allocator of this kind: no virtual register of this kind is an operand *)
    assert (Hno : forall r, In r allregs -> reg_kind r <> reg_kind d).
    { intros r Hr Ek. destruct (I3 r Hr) as [a0 Ha0]. rewrite Ek in Ha0.
      destruct M01 as [_ K]. destruct (K _ _ Ha0) as (a' & Ha' & _). rewrite E1 in Ha'. discriminate. }
    assert (Py : phys y).
    { destruct (virt_phys_dec y) as [Hv|Hp]; [|exact Hp]. destruct (Hlive i lo y k Hin Hm Hv) as (r & Hr & Er).
      exfalso. apply (Hno r Hr). unfold reg_kind. now rewrite Er. }
    assert (Pd : phys (rid d)).
    { destruct (virt_phys_dec (rid d)) as [Hv|Hp]; [|exact Hp].
      assert (Hi : In i is) by (eapply in_combine_l; eauto).
      destruct (Houts i d Hi Hd Hv) as (r & Hr & Er). exfalso. apply (Hno r Hr). unfold reg_kind. now rewrite Er. }
    assert (Ly : lk al y = y).
    { unfold lookup_default. destruct (al !! y) as [c|] eqn:E; cbn [default]; [|reflexivity]. exfalso. eapply virt_not_phys; eauto. }
    assert (Ld : lk al (rid d) = rid d).
    { unfold lookup_default. destruct (al !! rid d) as [c|] eqn:E; cbn [default]; [|reflexivity]. exfalso. eapply virt_not_phys; eauto. }
    rewrite Ly, Ld in Heq. contradiction.
Qed.


(* ---- C03: the allocation obeys the register file *)
Definition regfile_kinds_ok (rf : regfile) : bool := forallb (fun p => id_kind (p_id p) =? p_family p) rf.

Definition Rall (rf : regfile) (asx : ALLOCS) : Prop := forall k a, asx !! k = Some a -> a_regs a = colours rf k.

Lemma a_add_interference_regs a x y : a_regs (a_add_interference a x y) = a_regs a.
Proof. unfold a_add_interference. cbn [a_regs]. now rewrite !a_add_regs. Qed.
Lemma a_ais_regs d order : forall a, a_regs (a_add_interference_set a d order) = a_regs a.
Proof.
  unfold a_add_interference_set. induction order as [|e order IH]; intro a; cbn [fold_left]; [reflexivity|].
  rewrite IH. destruct (negb (N.land (rmask d) (snd e) =? 0)); [apply a_add_interference_regs|reflexivity].
Qed.
Lemma Rall_insert rf x k a a' : Rall rf x -> x !! k = Some a -> a_regs a' = a_regs a -> Rall rf (<[k := a']> x).
Proof.
  intros R Hk Hr k' b Hb. destruct (decide (k = k')) as [<-|Hne].
  - rewrite lookup_insert in Hb. inversion Hb; subst b. rewrite Hr. now apply R.
  - rewrite lookup_insert_ne in Hb by assumption. now apply R.
Qed.
Lemma init_allocators_regs rf rs : forall asx asx', Rall rf asx -> init_allocators rf rs asx = OK asx' -> Rall rf asx'.
Proof.
  induction rs as [|r rs IH]; intros asx asx' R H; cbn [init_allocators] in H; [now inversion H; subst|].
  destruct (asx !! reg_kind r) as [a0|] eqn:E; [now apply (IH _ _ R H)|].
  destruct (new_allocator rf (reg_kind r)) as [a| |] eqn:En; cbn [res_bind] in H; try discriminate.
  apply (IH _ _) in H; [exact H|]. intros k b Hb. destruct (decide (reg_kind r = k)) as [<-|Hne].
  - rewrite lookup_insert in Hb. inversion Hb; subst b. unfold new_allocator in En.
    destruct (negb (family_exists (reg_kind r))); [discriminate|]. destruct (colours rf (reg_kind r)) eqn:Ec; [discriminate|]. now inversion En.
  - rewrite lookup_insert_ne in Hb by assumption. now apply R.
Qed.
Lemma add_all_regs rf rs : forall asx, Rall rf asx -> Rall rf (add_all rs asx).
Proof.
  unfold add_all. induction rs as [|r rs IH]; intros asx R; cbn [fold_left]; [exact R|]. apply IH.
  destruct (asx !! reg_kind r) as [a|] eqn:E; [|exact R]. eapply Rall_insert; eauto. apply a_add_regs.
Qed.
Lemma interfere1_regs rf asx lo d asx' : Rall rf asx -> interfere1 asx lo d = OK asx' -> Rall rf asx'.
Proof.
  intros R H. unfold interfere1 in H. destruct (asx !! reg_kind d) as [a|] eqn:E; inversion H; subst; [|exact R].
  eapply Rall_insert; eauto. apply a_ais_regs.
Qed.
Lemma ifold_regs rf lo outs : forall asx asx', Rall rf asx -> ifold asx lo outs = OK asx' -> Rall rf asx'.
Proof.
  unfold ifold. induction outs as [|d outs IH]; intros asx asx' R H; cbn [fold_left] in H; [now inversion H; subst|].
  cbn [res_bind] in H. destruct (interfere1 asx lo d) as [asx1| |] eqn:E1.
  - eapply IH; [|exact H]. eapply interfere1_regs; eauto.
  - exfalso. clear -H. induction outs as [|x l IHl]; cbn in H; [discriminate|]. now apply IHl.
  - exfalso. clear -H. induction outs as [|x l IHl]; cbn in H; [discriminate|]. now apply IHl.
Qed.
Lemma interfere_regs rf l : forall asx asx', Rall rf asx -> interfere asx l = OK asx' -> Rall rf asx'.
Proof.
  induction l as [|[i lo] l IH]; intros asx asx' R H; cbn [interfere] in H; [now inversion H; subst|].
  fold (ifold asx lo (output_registers i)) in H.
  destruct (ifold asx lo (output_registers i)) as [asx1| |] eqn:E1; cbn [res_bind] in H; try discriminate.
  eapply IH; [|exact H]. eapply ifold_regs; eauto.
Qed.

(* every entry of the allocation maps a virtual register to a physical register of the same kind that
   is one of the colours of that kind (hence not a restricted register, AllocProofs.colours_spec),
   and every virtual register that occurs as an operand is allocated *)
Theorem allocation_obeys_register_file_lemma rf is liveouts al :
  regfile_ok rf = true -> regfile_kinds_ok rf = true -> allocate_registers rf is liveouts = OK al ->
  (forall v c, al !! v = Some c -> virt v /\ phys c /\ id_kind c = id_kind v /\ In c (colours rf (id_kind v)))
  /\ (forall i r, In i is -> In r (instr_registers i) -> virt (rid r) -> is_Some (al !! rid r)).
Proof.
  intros Hrf Hkf H. unfold allocate_registers in H.
  set (allregs := flat_map instr_registers is) in *.
  destruct (init_allocators rf allregs ∅) as [as0| |] eqn:E0; cbn [res_bind] in H; try discriminate.
  destruct (interfere (add_all allregs as0) (List.combine is liveouts)) as [as2| |] eqn:E2; cbn [res_bind] in H; try discriminate.
  assert (Wemp : Wall ∅) by (intros k a Hl; rewrite lookup_empty in Hl; discriminate).
  assert (Remp : Rall rf ∅) by (intros k a Hl; rewrite lookup_empty in Hl; discriminate).
  destruct (init_allocators_spec rf allregs ∅ as0 Hrf Wemp E0) as (W0 & _ & I3 & _).
  destruct (add_all_spec allregs as0 W0) as (W1 & M01 & A3).
  destruct (interfere_spec _ _ _ W1 E2) as (W2 & M12 & _).
  assert (R2 : Rall rf as2) by (eapply interfere_regs; [|exact E2]; apply add_all_regs; eapply init_allocators_regs; eauto).
  destruct (fold_merge_spec _ _ _ H) as (_ & F2 & F3).
  split.
  - intros v c Hl. destruct (F3 v c Hl) as [Hemp|(ka & alk & Hin & Ha & Hl')]; [rewrite lookup_empty in Hemp; discriminate|].
    destruct ka as [k a]. apply elem_of_list_In, elem_of_map_to_list in Hin.
    destruct (allocate_awf _ _ _ (W2 k a Hin) Ha) as (_ & K2 & _ & K4). destruct (K2 v c Hl') as (Hv & Hp & Hk).
    repeat split; auto. specialize (K4 v c Hl'). cbn [snd] in K4. rewrite (R2 k a Hin) in K4.
    assert (Ek : id_kind c = k).
    { apply colours_spec in K4 as (p & Hp' & Hfam & Hid & _). unfold regfile_kinds_ok in Hkf. rewrite forallb_forall in Hkf.
      specialize (Hkf p Hp'). apply N.eqb_eq in Hkf. congruence. }
    rewrite <- Hk, Ek. exact K4.
  - intros i r Hi Hr Hv. assert (Hall : In r allregs) by (apply in_flat_map; eauto).
    destruct (I3 r Hall) as [a0 Ha0]. destruct M01 as [_ K01]. destruct (K01 _ _ Ha0) as (a1 & Ha1 & _).
    assert (Hp1 : is_Some (a_poss a1 !! rid r)) by (apply (A3 r Hall Hv a1 Ha1)).
    destruct M12 as [_ K12]. destruct (K12 _ _ Ha1) as (a2 & Ha2 & [_ Mp]).
    assert (Hka : In (reg_kind r, a2) (map_to_list as2)) by (apply elem_of_list_In, elem_of_map_to_list; exact Ha2).
    destruct (F2 _ Hka) as (alk & Ha & Hsub). cbn [snd] in Ha.
    destruct (allocate_awf _ _ _ (W2 _ _ Ha2) Ha) as (_ & _ & K3 & _).
    destruct (K3 (rid r) (Mp _ Hp1)) as [c Hc]. exists c. now apply Hsub.
Qed.

(* the bound on the number of rounds in the model of Allocate() is never hit *)
Lemma allocate_never_out_of_fuel a : awf a -> a_allocate (S (size (a_poss a))) a <> Err EOutOfFuel.
Proof.
  intros [W1 W2 W3 W4 W5]. apply (allocate_fuel_enough (a_edges a)); [|lia].
  rewrite W1. constructor.
  - intros v c Hl. rewrite lookup_empty in Hl. discriminate.
  - intros v Hs. split; [now apply W3|apply lookup_empty].
  - intros v c Hc. destruct (W4 v c Hc) as [Hin Hk]. split; [now apply W2|exact Hk].
  - auto.
  - intros e He. unfold ends_in. rewrite !lk_empty. now apply W5.
  - intros x y Hin. now left.
Qed.
