(* C02, semantically: a register byte that liveness does not report live before an instruction cannot
   influence anything the function does from there: two register files that agree on the live bytes
   go through the same program points with the same memory.  (The simulation of Proofs/SimLink.v with
   the identity allocation.) *)
From Avo Require Import Base.Prelude Model.Sem Proofs.SimProofs Proofs.SimLink.
From stdpp Require Import gmap.
From Avo Require Import Base.MaskSet Model.IR Model.Liveness.
Open Scope N_scope.

Lemma rename_id l : rename (fun x => x) l = l.
Proof. destruct l; reflexivity. Qed.
Lemma rename_instr_id i : rename_instr (fun x => x) i = i.
Proof.
  destruct i as [u d s]. unfold rename_instr. cbn [m_uses m_defs m_succ]. f_equal.
  - induction u as [|x u IH]; cbn [List.map]; [reflexivity|]. now rewrite rename_id, IH.
  - induction d as [|x d IH]; cbn [List.map]; [reflexivity|]. now rewrite rename_id, IH.
Qed.
Lemma map_rename_id P : List.map (rename_instr (fun x => x)) P = P.
Proof. induction P as [|i P IH]; cbn [List.map]; [reflexivity|]. now rewrite rename_instr_id, IH. Qed.

Theorem dead_bytes_do_not_matter :
  forall (val memt : Type) (F : nat -> list val -> memt -> list val * memt * option nat)
         (pr : list (list reg * list reg * list (option nat))) (r : st) (fuel : nat),
  liveness fuel (p pr) = Some r ->
  (forall j i vs m outs m' n, List.nth_error (P pr) j = Some i -> F j vs m = (outs, m', Some n) -> In n (m_succ i)) ->
  (forall j i vs m outs m' npc, List.nth_error (P pr) j = Some i -> F j vs m = (outs, m', npc) -> List.length outs = List.length (m_defs i)) ->
  forall n j R R' m st1,
    (forall l, LIn r j l -> R l = R' l) ->
    mrun val memt F (P pr) n (j, R, m) = Some st1 ->
    exists j1 R1 R1' m1, st1 = (j1, R1, m1)
      /\ mrun val memt F (P pr) n (j, R', m) = Some (j1, R1', m1)
      /\ (forall l, LIn r j1 l -> R1 l = R1' l).
Proof.
  intros val memt F pr r fuel Hl Hs Ho n j R R' m st1 Hrel Hrun.
  destruct (allocation_preserves_semantics val memt F pr (fun x => x) r fuel Hl) with (n := n) (j := j) (R := R) (R' := R') (m := m) (st1 := st1)
    as (j1 & R1 & R1' & m1 & E & Hm & Hrel'); auto.
  - intros l Hlv. rewrite rename_id. now apply Hrel.
  - exists j1, R1, R1', m1. split; [exact E|]. split; [now rewrite map_rename_id in Hm|].
    intros l Hlv. specialize (Hrel' l Hlv). now rewrite rename_id in Hrel'.
Qed.
