From Avo Require Import Base.Prelude Base.Str Model.Layout.
Open Scope Z_scope.

(* errors are absorbing: once a step fails, no later step manufactures an address *)
Lemma apply_path_err cn p : apply_path cn CErr p = CErr.
Proof. unfold apply_path. induction p as [|s p IH]; cbn [fold_left]; [reflexivity|exact IH]. Qed.

Lemma resolve_err : resolve CErr = None. Proof. reflexivity. Qed.

(* an index outside [0, n) is an error (with the repaired bounds test) *)
Lemma index_out_of_range t a i n e : under t = TArr n e -> (i < 0 \/ n <= i) ->
  apply_step true (COk t a) (SIndex i) = CErr.
Proof.
  intros Hu Hr. cbn [apply_step]. rewrite Hu.
  replace ((n <=? i) || (true && (i <? 0))) with true by lia. reflexivity.
Qed.
Lemma find_field_missing n : forall fs offs, (forall f, In f fs -> fst f <> n) -> find_field fs offs n = None.
Proof.
  induction fs as [|[fn ft] r IH]; intros offs Hn; cbn [find_field]; [reflexivity|]. destruct offs; [reflexivity|].
  destruct (String.eqb_spec fn n) as [E|E]; [exfalso; apply (Hn (fn, ft)); [left; reflexivity|exact E]|].
  apply IH. intros f Hf. apply Hn. right. exact Hf.
Qed.
Lemma field_missing t a fs n : under t = TStruct fs -> (forall f, In f fs -> fst f <> n) ->
  apply_step true (COk t a) (SField n) = CErr.
Proof. intros Hu Hn. cbn [apply_step]. rewrite Hu. rewrite find_field_missing by assumption. reflexivity. Qed.

(* parameters are laid out like struct fields from offset 0 *)
Lemma offsetsof_app_firstn l r o : List.firstn (List.length l) (offsetsof (l ++ r) o) = offsetsof l o.
Proof. revert o; induction l as [|t l IH]; intro o; cbn [app offsetsof List.length List.firstn]; [reflexivity|]. now rewrite IH. Qed.
Lemma param_layout_lemma params results :
  params_off (sig_layout params results) = offsetsof (List.map snd params) 0.
Proof. unfold sig_layout. cbn [params_off]. apply offsetsof_app_firstn. Qed.

(* alignment facts *)
Lemma align_ge x a : 0 < a -> x <= align x a.
Proof.
  intro Ha. unfold align. pose proof (Z.div_mod (x + a - 1) a ltac:(lia)). pose proof (Z.mod_pos_bound (x + a - 1) a Ha). nia.
Qed.

Lemma under_not_named t : match under t with TNamed _ => False | _ => True end.
Proof. induction t; cbn; auto. Qed.

Lemma sizeof_under t : sizeof (under t) = sizeof t.
Proof. induction t; cbn [under sizeof]; auto. Qed.

Lemma arr_elem_stride e : sizeof (TArr 2 e) - sizeof (TArr 1 e) = sizeof e.
Proof. cbn [sizeof]. change (2 <=? 0) with false. change (1 <=? 0) with false. cbn iota. lia. Qed.

(* steps into strings, slices, complex values and arrays stay inside the enclosing value *)
Definition inside (t : ty) (a : addr) (t' : ty) (a' : addr) : Prop :=
  a_base a' = a_base a /\ a_disp a <= a_disp a' /\ a_disp a' + sizeof t' <= a_disp a + sizeof t.

Lemma sizeof_nonneg_basic k : 0 < basic_size k. Proof. destruct k; cbn; lia. Qed.

Ltac inside_case H t :=
  rewrite <- (sizeof_under t);
  destruct (under t) as [k| | | | | | |]; try (destruct k); cbn in H; try discriminate H;
  inversion H; subst; cbn [a_base a_disp sizeof basic_size]; repeat split; lia.

Lemma step_inside_nonstruct t a s t' a' :
  (forall n, s <> SField n) -> (forall r, s <> SDeref r) -> (forall i e n, s = SIndex i -> under t = TArr n e -> 0 <= sizeof e) ->
  apply_step true (COk t a) s = COk t' a' -> inside t a t' a'.
Proof.
  intros Hnf Hnd Hsz H. unfold inside. destruct s; cbn [apply_step] in H.
  - unfold is_slice, is_string, sub in H. inside_case H t.
  - unfold is_slice, is_string, sub in H. inside_case H t.
  - unfold is_slice, sub in H. inside_case H t.
  - unfold complex_part, sub in H. inside_case H t.
  - unfold complex_part, sub in H. inside_case H t.
  - destruct (under t) as [k| | |n e| | | |] eqn:Hu; try discriminate.
    destruct ((n <=? i) || (true && (i <? 0))) eqn:Hb; [discriminate|].
    unfold sub in H. rewrite arr_elem_stride in H. inversion H; subst. cbn [a_base a_disp].
    rewrite <- (sizeof_under t), Hu. cbn [sizeof]. replace (n <=? 0) with false by lia.
    pose proof (Hsz i t' n eq_refl eq_refl). repeat split; nia.
  - exfalso. eapply Hnf; reflexivity.
  - exfalso. eapply Hnd; reflexivity.
Qed.

(* ------------------------------------------------------------ structs *)
(* induction principle for the nested inductive *)
Section TyInd.
Variable P : ty -> Prop.
Hypothesis Hb : forall k, P (TBasic k).
Hypothesis Hp : forall t, P t -> P (TPtr t).
Hypothesis Hs : forall t, P t -> P (TSlice t).
Hypothesis Ha : forall n t, P t -> P (TArr n t).
Hypothesis Hst : forall fs, Forall (fun f => P (snd f)) fs -> P (TStruct fs).
Hypothesis Hn : forall t, P t -> P (TNamed t).
Hypothesis Hw : P TWord.
Hypothesis Hi : P TIface.
Fixpoint ty_ind' (t : ty) : P t :=
  match t with
  | TBasic k => Hb k
  | TPtr u => Hp u (ty_ind' u)
  | TSlice u => Hs u (ty_ind' u)
  | TArr n u => Ha n u (ty_ind' u)
  | TStruct fs => Hst fs ((fix go (l : list (string * ty)) : Forall (fun f => P (snd f)) l :=
                            match l with [] => Forall_nil _ | f :: r => Forall_cons f (ty_ind' (snd f)) (go r) end) fs)
  | TNamed u => Hn u (ty_ind' u)
  | TWord => Hw
  | TIface => Hi
  end.
End TyInd.

Fixpoint struct_go (fs : list (string * ty)) (offs maxa : Z) : Z :=
  match fs with
  | [] => 0
  | [(_, f)] => let a := alignof f in let o := align offs a in
                let sz := sizeof f in let sz' := if (0 <? o) && (sz =? 0) then 1 else sz in
                align (o + sz') (Z.max maxa a)
  | (_, f) :: r => let a := alignof f in struct_go r (align offs a + sizeof f) (Z.max maxa a)
  end.
Lemma sizeof_struct fs : sizeof (TStruct fs) = struct_go fs 0 1.
Proof.
  cbn [sizeof]. match goal with |- ?F fs 0 1 = _ => set (go := F) end.
  assert (H : forall offs maxa, go fs offs maxa = struct_go fs offs maxa).
  { induction fs as [|[n f] r IH]; intros offs maxa; [reflexivity|].
    destruct r as [|g r]; [reflexivity|].
    change (struct_go ((n, f) :: g :: r) offs maxa) with (struct_go (g :: r) (align offs (alignof f) + sizeof f) (Z.max maxa (alignof f))).
    rewrite <- IH. reflexivity. }
  apply H.
Qed.
Fixpoint align_go (fs : list (string * ty)) (m : Z) : Z := match fs with [] => m | (_, f) :: r => align_go r (Z.max m (alignof f)) end.
Lemma alignof_struct fs : alignof (TStruct fs) = align_go fs 1.
Proof.
  cbn [alignof]. match goal with |- ?F fs 1 = _ => set (go := F) end.
  assert (H : forall m, go fs m = align_go fs m).
  { induction fs as [|[n f] r IH]; intro m; [reflexivity|]. cbn [align_go]. rewrite <- IH. reflexivity. }
  apply H.
Qed.
Lemma align_go_ge fs : forall m, m <= align_go fs m.
Proof. induction fs as [|[n f] r IH]; intro m; cbn [align_go]; [lia|]. specialize (IH (Z.max m (alignof f))). lia. Qed.

(* every field lies between the running offset and the struct end *)
Lemma struct_go_fields fs : Forall (fun f => 0 <= sizeof (snd f) /\ 1 <= alignof (snd f)) fs -> fs <> [] ->
  forall offs maxa, 0 <= offs -> 1 <= maxa ->
  Forall (fun fo => offs <= snd fo /\ snd fo + sizeof (snd (fst fo)) <= struct_go fs offs maxa)
         (List.combine fs (offsetsof (List.map snd fs) offs)).
Proof.
  induction 1 as [|[n f] r [Hsz Hal] Hall IH]; intros Hne offs maxa Ho Hm; [congruence|].
  cbn [List.map offsetsof List.combine snd fst]. cbn [snd] in Hsz, Hal.
  pose proof (align_ge offs (alignof f) ltac:(lia)) as Hge.
  destruct r as [|g r].
  - cbn [List.map offsetsof List.combine struct_go]. constructor; [|constructor]. cbn [fst snd]. split; [lia|].
    set (o := align offs (alignof f)) in *.
    destruct ((0 <? o) && (sizeof f =? 0)) eqn:E.
    + pose proof (align_ge (o + 1) (Z.max maxa (alignof f)) ltac:(lia)). lia.
    + pose proof (align_ge (o + sizeof f) (Z.max maxa (alignof f)) ltac:(lia)). lia.
  - assert (Hne' : g :: r <> []) by discriminate.
    specialize (IH Hne' (align offs (alignof f) + sizeof f) (Z.max maxa (alignof f)) ltac:(lia) ltac:(lia)).
    change (struct_go ((n, f) :: g :: r) offs maxa) with (struct_go (g :: r) (align offs (alignof f) + sizeof f) (Z.max maxa (alignof f))).
    constructor.
    + cbn [fst snd]. split; [lia|]. inversion IH as [|x l [Hx1 Hx2] _]; subst.
      inversion Hall as [|? ? [Hg _] _]; subst. cbn [fst snd] in *. lia.
    + eapply Forall_impl; [|exact IH]. cbn. intros fo [H1 H2]. split; lia.
Qed.

Lemma size_align_pos : forall t, 0 <= sizeof t /\ 1 <= alignof t.
Proof.
  apply ty_ind'.
  - intro k. destruct k; cbn; lia.
  - intros; cbn; lia.
  - intros; cbn; lia.
  - intros n t [H1 H2]. cbn [sizeof alignof]. split; [|assumption]. destruct (n <=? 0) eqn:E; [lia|nia].
  - intros fs Hall. split.
    + rewrite sizeof_struct. destruct fs as [|f r]; [cbn; lia|].
      pose proof (struct_go_fields (f :: r) Hall ltac:(discriminate) 0 1 ltac:(lia) ltac:(lia)) as HF.
      inversion HF as [|x l [Hx1 Hx2] _]; subst. inversion Hall as [|? ? [Hf _] _]; subst. cbn [fst snd] in *. lia.
    + rewrite alignof_struct. apply align_go_ge.
  - intros t [H1 H2]. cbn [sizeof alignof]. auto.
  - cbn; lia.
  - cbn; lia.
Qed.

Lemma find_field_in fs offs n o ft : find_field fs offs n = Some (o, ft) ->
  exists fn, In ((fn, ft), o) (List.combine fs offs).
Proof.
  revert offs. induction fs as [|[fn f] r IH]; intros offs H; cbn [find_field] in H; [discriminate|].
  destruct offs as [|o' os]; [discriminate|]. destruct (String.eqb fn n).
  - inversion H; subst. exists fn. left. reflexivity.
  - destruct (IH os H) as [fn' Hin]. exists fn'. right. exact Hin.
Qed.

Theorem step_inside_lemma t a s t' a' : (forall r, s <> SDeref r) ->
  apply_step true (COk t a) s = COk t' a' -> inside t a t' a'.
Proof.
  intros Hnd H. destruct s;
    try (match type of H with apply_step _ _ ?s0 = _ => apply (step_inside_nonstruct t a s0 t' a') end;
         [discriminate|discriminate| |exact H]; intros ? e0 ? ? ?; exact (proj1 (size_align_pos e0))).
  - (* field *)
    cbn [apply_step] in H. destruct (under t) as [k|u|u|n0 u|fs|u| |] eqn:Hu; cbn iota beta in H; try discriminate H.
    destruct (find_field fs (offsetsof (List.map snd fs) 0) n) as [[o ft]|] eqn:Ef; [|discriminate].
    unfold sub in H. inversion H; subst. unfold inside. cbn [a_base a_disp].
    destruct (find_field_in _ _ _ _ _ Ef) as [fn Hin].
    assert (Hne : fs <> []) by (destruct fs; [cbn in Ef; discriminate|discriminate]).
    assert (Hall : Forall (fun f => 0 <= sizeof (snd f) /\ 1 <= alignof (snd f)) fs)
      by (apply Forall_forall; intros; apply size_align_pos).
    pose proof (struct_go_fields fs Hall Hne 0 1 ltac:(lia) ltac:(lia)) as HF.
    rewrite Forall_forall in HF. specialize (HF _ Hin). cbn [fst snd] in HF.
    rewrite <- (sizeof_under t), Hu, sizeof_struct. repeat split; lia.
  - exfalso. eapply Hnd; reflexivity.
Qed.

(* after a dereference the address is relative to the loaded pointer, with the pointee's own
   offsets and no symbol *)
Lemma deref_addr t a r t' a' : apply_step true (COk t a) (SDeref r) = COk t' a' ->
  a_sym a' = EmptyString /\ a_disp a' = 0 /\ a_base a' = BReg r /\ under t = TPtr t'.
Proof.
  cbn [apply_step]. destruct (under t) as [|e| | | | | |]; try discriminate. intro H. inversion H; subst. cbn. auto.
Qed.
