(* C02: the boolean decision procedure live_before_b / live_after_b (the specification the checks
   evaluate on the implementation's own LiveIn/LiveOut sets) decides path liveness. *)
From Avo Require Import Base.Prelude.
From stdpp Require Import gmap.
From Avo Require Import Base.MaskSet Model.IR Model.Liveness.
Open Scope N_scope.

Section S.
Variables (p : prog) (id k : N).
Notation round := (live_round p id k).

Definition tr (l : list bool) (j : nat) : Prop := l !! j = Some true.
Definition le (a b : list bool) : Prop := forall j, tr a j -> tr b j.

Lemma round_length cur : length (round cur) = length p.
Proof. unfold live_round. apply imap_length. Qed.
Lemma round_lookup cur j : round cur !! j =
  (fun i : ins => mem (iuse i) id k || (negb (mem (idef i) id k)
       && existsb (fun o => match o with Some j' => default false (cur !! j') | None => false end) (isucc i))) <$> (p !! j).
Proof. unfold live_round. now rewrite list_lookup_imap. Qed.

Lemma existsb_mono (a b : list bool) succs : le a b ->
  existsb (fun o => match o with Some j' => default false (a !! j') | None => false end) succs = true ->
  existsb (fun o => match o with Some j' => default false (b !! j') | None => false end) succs = true.
Proof.
  intros H Ha. apply existsb_exists in Ha as (o & Ho & Hv). apply existsb_exists. exists o. split; [exact Ho|].
  destruct o as [j'|]; [|discriminate]. destruct (a !! j') as [[|]|] eqn:E; cbn in Hv; try discriminate.
  now rewrite (H j' E).
Qed.
Lemma round_mono a b : le a b -> le (round a) (round b).
Proof.
  intros H j. unfold tr. rewrite !round_lookup. destruct (p !! j) as [i|]; cbn; [|auto]. intros [= Hv]. f_equal.
  apply orb_true_iff in Hv as [Hu|Hv]; [now rewrite Hu|]. apply andb_true_iff in Hv as [Hd He].
  rewrite Hd, (existsb_mono a b _ H He). apply orb_true_r.
Qed.

(* soundness of one round *)
Lemma round_sound cur : (forall j, tr cur j -> path_live p j id k) -> forall j, tr (round cur) j -> path_live p j id k.
Proof.
  intros H j. unfold tr. rewrite round_lookup. destruct (p !! j) as [i|] eqn:Ej; cbn; [|discriminate]. intros [= Hv].
  apply orb_true_iff in Hv as [Hu|Hv].
  - apply PL_here. unfold use_at. now rewrite Ej.
  - apply andb_true_iff in Hv as [Hd He]. apply existsb_exists in He as (o & Ho & Hv). destruct o as [j'|]; [|discriminate].
    apply (PL_step p j j'); [unfold def_at; rewrite Ej; now apply negb_true_iff|unfold succ_at; now rewrite Ej|].
    apply H. unfold tr. destruct (cur !! j') as [[|]|]; cbn in Hv; try discriminate. reflexivity.
Qed.

(* a fixed point contains every live point *)
Lemma fix_complete x : round x = x -> forall j, path_live p j id k -> tr x j.
Proof.
  intros Hf j H.
  enough (G : forall j i' k', path_live p j i' k' -> i' = id -> k' = k -> tr x j) by (eapply G; eauto).
  clear j H. intros j i' k' H. induction H as [j i' k' Hu|j j' i' k' Hd Hs Hpl IH]; intros -> ->; unfold tr; rewrite <- Hf, round_lookup.
  - unfold use_at in Hu. destruct (p !! j) as [i|]; [|discriminate]. cbn. now rewrite Hu.
  - unfold def_at in Hd. unfold succ_at in Hs. destruct (p !! j) as [i|]; [|contradiction]. cbn. rewrite Hd. cbn [negb andb].
    assert (He : existsb (fun o => match o with Some j'0 => default false (x !! j'0) | None => false end) (isucc i) = true).
    { apply existsb_exists. exists (Some j'). split; [exact Hs|]. specialize (IH eq_refl eq_refl). unfold tr in IH. now rewrite IH. }
    rewrite He. now rewrite orb_true_r.
Qed.
End S.

(* counting the true entries *)
Fixpoint cnt (l : list bool) : nat := match l with [] => O | b :: r => ((if b then 1 else 0) + cnt r)%nat end.
Lemma cnt_le_length l : (cnt l <= length l)%nat.
Proof. induction l as [|[|] l IH]; cbn; lia. Qed.
Lemma le_cnt : forall a b, length a = length b -> le a b -> (cnt a <= cnt b)%nat /\ (a <> b -> (cnt a < cnt b)%nat).
Proof.
  induction a as [|x a IH]; intros [|y b] Hl H; try discriminate; [split; [lia|congruence]|].
  cbn in Hl. assert (Hl' : length a = length b) by lia.
  assert (Ht : le a b) by (intros j Hj; apply (H (S j)); exact Hj).
  destruct (IH b Hl' Ht) as [I1 I2].
  assert (Hxy : x = true -> y = true) by (intro Hx; subst; specialize (H O eq_refl); unfold tr in H; cbn in H; congruence).
  cbn [cnt]. split.
  - destruct x, y; try lia; specialize (Hxy eq_refl); discriminate.
  - intro Hne. destruct x, y; try (specialize (Hxy eq_refl); discriminate); try lia;
      (assert (Hab : a <> b) by congruence); specialize (I2 Hab); lia.
Qed.

Section It.
Variables (p : prog) (id k : N).
Notation round := (live_round p id k).
Notation bot := (List.map (fun _ : ins => false) p).

Lemma iter_S n x : live_iter (S n) p id k x = live_iter n p id k (round x).
Proof. reflexivity. Qed.
Lemma iter_round n : forall x, live_iter n p id k (round x) = round (live_iter n p id k x).
Proof. induction n as [|n IH]; intro x; [reflexivity|]. cbn [live_iter]. now rewrite IH. Qed.
Lemma bot_le x : le bot x.
Proof. intros j H. unfold tr in H. rewrite list_lookup_fmap in H. destruct (p !! j); cbn in H; discriminate. Qed.
Lemma iter_length n : forall x, length x = length p -> length (live_iter n p id k x) = length p.
Proof. induction n as [|n IH]; intros x H; [exact H|]. cbn [live_iter]. apply IH. apply round_length. Qed.

Lemma chain n : le (live_iter n p id k bot) (live_iter (S n) p id k bot).
Proof.
  induction n as [|n IH]; [apply bot_le|]. rewrite !iter_S, !iter_round. apply round_mono. rewrite iter_S, iter_round in IH. exact IH.
Qed.
Lemma iter_sound n : forall j, tr (live_iter n p id k bot) j -> path_live p j id k.
Proof.
  induction n as [|n IH]; intros j H.
  - exfalso. unfold tr in H. cbn in H. rewrite list_lookup_fmap in H. destruct (p !! j); cbn in H; discriminate.
  - rewrite iter_S, iter_round in H. eapply round_sound; eauto.
Qed.
Lemma progress n : round (live_iter n p id k bot) = live_iter n p id k bot \/ (n <= cnt (live_iter n p id k bot))%nat.
Proof.
  induction n as [|n IH]; [right; lia|].
  assert (Hl : length bot = length p) by apply map_length.
  assert (E1 : live_iter (S n) p id k bot = round (live_iter n p id k bot)) by (rewrite iter_S, iter_round; reflexivity).
  pose proof (chain n) as Hch. rewrite E1 in *.
  destruct IH as [Hf|Hc]; [left; now rewrite Hf|].
  destruct (decide (live_iter n p id k bot = round (live_iter n p id k bot))) as [E|E].
  - left. now rewrite <- E.
  - right. assert (Hlen : length (live_iter n p id k bot) = length (round (live_iter n p id k bot))) by (rewrite round_length, iter_length; auto).
    destruct (le_cnt _ _ Hlen Hch) as [_ Hs]. specialize (Hs E). lia.
Qed.

Theorem live_before_b_spec j : tr (live_before_b p id k) j <-> path_live p j id k.
Proof.
  unfold live_before_b. split; [apply iter_sound|].
  destruct (progress (S (length p))) as [Hf|Hc].
  - now apply fix_complete.
  - pose proof (cnt_le_length (live_iter (S (length p)) p id k bot)) as Hb.
    rewrite iter_length in Hb by apply map_length. lia.
Qed.

Theorem live_after_b_spec j : tr (live_after_b p id k) j <-> live_after p j id k.
Proof.
  unfold live_after_b, tr. rewrite list_lookup_fmap. split.
  - destruct (p !! j) as [i|] eqn:Ej; cbn -[live_before_b]; [|discriminate]. intros [= He]. apply existsb_exists in He as (o & Ho & Hv).
    destruct o as [j'|]; [|discriminate]. exists j'. split; [unfold succ_at; now rewrite Ej|]. apply live_before_b_spec.
    unfold tr. destruct (live_before_b p id k !! j') as [[|]|]; cbn in Hv; try discriminate. reflexivity.
  - intros (j' & Hs & Hpl). unfold succ_at in Hs. destruct (p !! j) as [i|]; [|contradiction]. cbn -[live_before_b]. f_equal.
    apply existsb_exists. exists (Some j'). split; [exact Hs|]. apply live_before_b_spec in Hpl. unfold tr in Hpl. now rewrite Hpl.
Qed.
End It.

(* the check evaluated on the implementation's dumped sets: when it passes, membership in the dumped
   LiveIn/LiveOut sets is exactly path liveness, for every id mentioned and every byte class *)
Lemma In_dedup_N l y : In y (dedup_N l) <-> In y l.
Proof.
  induction l as [|x l IH]; cbn; [tauto|]. destruct (existsb (N.eqb x) l) eqn:E.
  - rewrite IH. split; [auto|]. intros [->|H]; [|exact H]. apply existsb_exists in E as (z & Hz & Ez). apply N.eqb_eq in Ez. now subst.
  - cbn. rewrite IH. intuition congruence.
Qed.
Lemma in_bits16_spec k : In k bits16 <-> k < 16.
Proof.
  unfold bits16. split.
  - intro H. repeat (destruct H as [<-|H]; [lia|]). contradiction.
  - intro H. assert (Hk : k = 0 \/ k = 1 \/ k = 2 \/ k = 3 \/ k = 4 \/ k = 5 \/ k = 6 \/ k = 7 \/ k = 8 \/ k = 9 \/ k = 10 \/ k = 11 \/ k = 12 \/ k = 13 \/ k = 14 \/ k = 15) by lia.
    cbn [In]. intuition (subst; auto 20).
Qed.

Lemma map_lookup {A B} (f : A -> B) l : forall j, List.map f l !! j = f <$> (l !! j).
Proof. induction l as [|a l IH]; intros [|j]; cbn; auto. Qed.

Theorem liveness_spec_b_sound p (o : obs) : liveness_spec_b p o = true ->
  length o = length p /\
  forall id k, In id (prog_ids p ++ obs_ids o) -> k < 16 ->
  forall j io, o !! j = Some io ->
    (N.testbit (get_l (fst io) id) k = true <-> path_live p j id k)
    /\ (N.testbit (get_l (snd io) id) k = true <-> live_after p j id k).
Proof.
  unfold liveness_spec_b. intro H. apply andb_true_iff in H as [H _]. apply andb_true_iff in H as [Hlen H].
  apply Nat.eqb_eq in Hlen. split; [exact Hlen|]. intros id k Hid Hk j io Hj. unfold obs in *.
  rewrite forallb_forall in H. specialize (H id (proj2 (In_dedup_N _ _) Hid)).
  rewrite forallb_forall in H. specialize (H k (proj2 (in_bits16_spec k) Hk)).
  apply andb_true_iff in H as [Hb Ha].
  apply (list_eqb_spec Bool.eqb) in Hb; [|intros x y; apply Bool.eqb_true_iff].
  apply (list_eqb_spec Bool.eqb) in Ha; [|intros x y; apply Bool.eqb_true_iff].
  split.
  - rewrite <- (live_before_b_spec p id k j). unfold tr. rewrite Hb, map_lookup, Hj. cbn. split; [now intros ->|now intros [= ->]].
  - rewrite <- (live_after_b_spec p id k j). unfold tr. rewrite Ha, map_lookup, Hj. cbn. split; [now intros ->|now intros [= ->]].
Qed.
