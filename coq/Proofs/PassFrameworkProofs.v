(* the file is refused iff some function is refused on its own, whatever the order of the functions *)
From Avo Require Import Base.Prelude Model.PassFramework.
Open Scope N_scope.

Lemma first_failing_none stage fs : first_failing_at stage fs = None <->
  forall a, In a fs -> fst a = stage -> snd a = 0.
Proof.
  induction fs as [|[s c] r IH]; cbn [first_failing_at]; [split; [intros _ a []|reflexivity]|].
  destruct ((s =? stage) && negb (c =? 0)) eqn:E.
  - split; [discriminate|]. intro H. apply andb_true_iff in E as [E1 E2]. apply N.eqb_eq in E1. apply negb_true_iff in E2. apply N.eqb_neq in E2.
    exfalso. apply E2. apply (H (s, c)); [now left|exact E1].
  - rewrite IH. split.
    + intros H a [<-|Ha] Hs; [|now apply H]. cbn [fst snd] in *. subst s. rewrite N.eqb_refl in E. cbn in E. apply negb_false_iff in E. now apply N.eqb_eq in E.
    + intros H a Ha. apply H. now right.
Qed.
Lemma first_failing_some stage fs c : first_failing_at stage fs = Some c -> c <> 0 /\ In (stage, c) fs.
Proof.
  induction fs as [|[s c'] r IH]; cbn [first_failing_at]; [discriminate|].
  destruct ((s =? stage) && negb (c' =? 0)) eqn:E.
  - intros [= <-]. apply andb_true_iff in E as [E1 E2]. apply N.eqb_eq in E1. apply negb_true_iff in E2. apply N.eqb_neq in E2. subst s. split; [exact E2|now left].
  - intro H. destruct (IH H) as [H1 H2]. split; [exact H1|now right].
Qed.

Theorem compile_zero_iff_all_accepted : forall fuel stage fs,
  (forall a, In a fs -> snd a <> 0 -> stage <= fst a /\ fst a < stage + N.of_nat fuel) ->
  (compile_from stage fuel fs = 0 <-> forall a, In a fs -> snd a = 0).
Proof.
  induction fuel as [|k IH]; intros stage fs Hr; cbn [compile_from].
  - split; [|reflexivity]. intros _ a Ha. destruct (N.eq_dec (snd a) 0) as [E|E]; [exact E|]. specialize (Hr a Ha E). lia.
  - destruct (first_failing_at stage fs) as [c|] eqn:E.
    + destruct (first_failing_some _ _ _ E) as [Hc Hin]. split; [intro; contradiction|]. intro H. specialize (H _ Hin). contradiction.
    + apply IH. intros a Ha Hne. destruct (Hr a Ha Hne) as [H1 H2]. rewrite first_failing_none in E.
      assert (fst a <> stage) by (intro Hs; apply Hne; now apply E). lia.
Qed.

(* the error reported is the error of one of the functions *)
Theorem compile_error_is_some_functions : forall fuel stage fs c,
  compile_from stage fuel fs = c -> c <> 0 -> exists s, In (s, c) fs.
Proof.
  induction fuel as [|k IH]; intros stage fs c H Hc; cbn [compile_from] in H; [congruence|].
  destruct (first_failing_at stage fs) as [c'|] eqn:E.
  - subst c'. exists stage. now apply first_failing_some.
  - eapply IH; eauto.
Qed.
