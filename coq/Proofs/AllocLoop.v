(* C01/C03: the colouring loop of pass.Allocator (alloc.go: Allocate / update / alloc) is correct for
   every interference graph: when it succeeds, the two ends of every interference edge end up in
   different physical registers, every register it was asked about is allocated, and the
   allocation respects the candidate lists. *)
From Avo Require Import Base.Prelude.
From stdpp Require Import gmap.
From Avo Require Import Base.MaskSet Model.IR Model.RegFile Model.Liveness Model.Alloc.
Open Scope N_scope.

Definition virt (x : N) : Prop := id_is_virtual x = true.
Definition phys (x : N) : Prop := id_is_virtual x = false.
Definition pl (po : POSS) (v : N) : list N := default [] (po !! v).
Notation lk := lookup_default.

Lemma virt_phys_dec x : {virt x} + {phys x}.
Proof. unfold virt, phys. destruct (id_is_virtual x); auto. Qed.
Lemma virt_not_phys x : virt x -> phys x -> False.
Proof. unfold virt, phys. congruence. Qed.

Lemma pl_discard po v c v' :
  pl (discard_conflicting po v c) v' = if N.eqb v v' then List.filter (fun r => negb (r =? c)) (pl po v) else pl po v'.
Proof.
  unfold pl, discard_conflicting. destruct (N.eqb_spec v v') as [->|H].
  - now rewrite lookup_insert.
  - now rewrite lookup_insert_ne.
Qed.
Lemma pl_discard_sub po v c v' x : In x (pl (discard_conflicting po v c) v') -> In x (pl po v').
Proof. rewrite pl_discard. destruct (N.eqb_spec v v') as [->|H]; [|auto]. intro Hx. now apply List.filter_In in Hx as [? _]. Qed.
Lemma pl_discard_not po v c : ~ In c (pl (discard_conflicting po v c) v).
Proof. rewrite pl_discard, N.eqb_refl. intro H. apply List.filter_In in H as [_ H]. rewrite N.eqb_refl in H. discriminate. Qed.
Lemma dom_discard po v c v' : is_Some (po !! v) -> (is_Some (discard_conflicting po v c !! v') <-> is_Some (po !! v')).
Proof.
  intro Hv. unfold discard_conflicting. destruct (decide (v = v')) as [<-|H].
  - rewrite lookup_insert. split; [auto|eauto].
  - now rewrite lookup_insert_ne.
Qed.

Section Upd.
Variable al : AL.

Definition ends_in (po : POSS) (e : N * N) : Prop :=
  (virt (lk al (fst e)) -> is_Some (po !! lk al (fst e))) /\ (virt (lk al (snd e)) -> is_Some (po !! lk al (snd e))).

(* candidate lists only shrink and the key set is unchanged *)
Lemma upd_shrink es : forall rem po rem' po', a_update_go al es rem po = OK (rem', po') ->
  (forall e, In e es -> ends_in po e) ->
  (forall v c, In c (pl po' v) -> In c (pl po v)) /\ (forall v, is_Some (po' !! v) <-> is_Some (po !! v)).
Proof.
  induction es as [|[ex ey] es IH]; intros rem po rem' po' H Hd; cbn [a_update_go] in H.
  - inversion H; subst. split; [auto|tauto].
  - assert (Hd0 := Hd (ex, ey) (or_introl eq_refl)). destruct Hd0 as [Hdx Hdy]. cbn [fst snd] in *.
    assert (Hd' : forall e, In e es -> ends_in po e) by (intros e He; apply Hd; now right).
    destruct (id_is_virtual (lk al ex)) eqn:Vx, (id_is_virtual (lk al ey)) eqn:Vy.
    + apply (IH _ _ _ _ H Hd').
    + assert (Hk : is_Some (po !! lk al ex)) by (apply Hdx; exact Vx).
      assert (Hd'' : forall e, In e es -> ends_in (discard_conflicting po (lk al ex) (lk al ey)) e).
      { intros e He. destruct (Hd' e He) as [A B]. split; intro Hv; apply dom_discard; auto. }
      destruct (IH _ _ _ _ H Hd'') as [S1 S2]. split.
      * intros v c Hc. eapply pl_discard_sub. apply S1. exact Hc.
      * intro v. rewrite S2. now apply dom_discard.
    + assert (Hk : is_Some (po !! lk al ey)) by (apply Hdy; exact Vy).
      assert (Hd'' : forall e, In e es -> ends_in (discard_conflicting po (lk al ey) (lk al ex)) e).
      { intros e He. destruct (Hd' e He) as [A B]. split; intro Hv; apply dom_discard; auto. }
      destruct (IH _ _ _ _ H Hd'') as [S1 S2]. split.
      * intros v c Hc. eapply pl_discard_sub. apply S1. exact Hc.
      * intro v. rewrite S2. now apply dom_discard.
    + destruct (lk al ex =? lk al ey); [discriminate|]. apply (IH _ _ _ _ H Hd').
Qed.

Definition resolved (po : POSS) (rem : list (N * N)) (x y : N) : Prop :=
  (virt (lk al x) /\ virt (lk al y) /\ In (x, y) rem)
  \/ (phys (lk al x) /\ phys (lk al y) /\ lk al x <> lk al y)
  \/ (phys (lk al x) /\ virt (lk al y) /\ ~ In (lk al x) (pl po (lk al y)))
  \/ (virt (lk al x) /\ phys (lk al y) /\ ~ In (lk al y) (pl po (lk al x))).

Lemma upd_resolve es : forall rem po rem' po', a_update_go al es rem po = OK (rem', po') ->
  (forall e, In e es -> ends_in po e) ->
  (forall e, In e rem -> In e rem')
  /\ (forall x y, In (x, y) es -> resolved po' rem' x y)
  /\ (forall e, In e rem' -> In e rem \/ (In e es /\ virt (lk al (fst e)) /\ virt (lk al (snd e)))).
Proof.
  induction es as [|[ex ey] es IH]; intros rem po rem' po' H Hd; cbn [a_update_go] in H.
  - inversion H; subst. split; [auto|]. split; [intros ? ? []|auto].
  - assert (Hd0 := Hd (ex, ey) (or_introl eq_refl)). destruct Hd0 as [Hdx Hdy]. cbn [fst snd] in *.
    assert (Hd' : forall e, In e es -> ends_in po e) by (intros e He; apply Hd; now right).
    destruct (id_is_virtual (lk al ex)) eqn:Vx, (id_is_virtual (lk al ey)) eqn:Vy.
    + destruct (IH _ _ _ _ H Hd') as (R1 & R2 & R3). split; [|split].
      * intros e He. apply R1. apply in_or_app. now left.
      * intros x y [Heq|Hin]; [|now apply R2]. inversion Heq; subst. left. repeat split; auto.
        apply R1. apply in_or_app. right. now left.
      * intros e He. destruct (R3 e He) as [Hr|(Hr & Hv)].
        -- apply in_app_or in Hr as [Hr|[<-|[]]]; [now left|]. right. cbn [fst snd]. split; [now left|split; assumption].
        -- right. split; [now right|exact Hv].
    + assert (Hk : is_Some (po !! lk al ex)) by (apply Hdx; exact Vx).
      assert (Hd'' : forall e, In e es -> ends_in (discard_conflicting po (lk al ex) (lk al ey)) e).
      { intros e He. destruct (Hd' e He) as [A B]. split; intro Hv; apply dom_discard; auto. }
      destruct (IH _ _ _ _ H Hd'') as (R1 & R2 & R3). destruct (upd_shrink _ _ _ _ _ H Hd'') as [S1 _].
      split; [exact R1|]. split.
      * intros x y [Heq|Hin]; [|now apply R2]. inversion Heq; subst. right. right. right. repeat split; auto.
        intro Hc. apply S1 in Hc. now apply pl_discard_not in Hc.
      * intros e He. destruct (R3 e He) as [Hr|(Hr & Hv)]; [now left|]. right. split; [now right|exact Hv].
    + assert (Hk : is_Some (po !! lk al ey)) by (apply Hdy; exact Vy).
      assert (Hd'' : forall e, In e es -> ends_in (discard_conflicting po (lk al ey) (lk al ex)) e).
      { intros e He. destruct (Hd' e He) as [A B]. split; intro Hv; apply dom_discard; auto. }
      destruct (IH _ _ _ _ H Hd'') as (R1 & R2 & R3). destruct (upd_shrink _ _ _ _ _ H Hd'') as [S1 _].
      split; [exact R1|]. split.
      * intros x y [Heq|Hin]; [|now apply R2]. inversion Heq; subst. right. right. left. repeat split; auto.
        intro Hc. apply S1 in Hc. now apply pl_discard_not in Hc.
      * intros e He. destruct (R3 e He) as [Hr|(Hr & Hv)]; [now left|]. right. split; [now right|exact Hv].
    + destruct (N.eqb_spec (lk al ex) (lk al ey)) as [E|E]; [discriminate|].
      destruct (IH _ _ _ _ H Hd') as (R1 & R2 & R3). split; [exact R1|]. split.
      * intros x y [Heq|Hin]; [|now apply R2]. inversion Heq; subst. right. left. repeat split; auto.
      * intros e He. destruct (R3 e He) as [Hr|(Hr & Hv)]; [now left|]. right. split; [now right|exact Hv].
Qed.
End Upd.

(* ---- the loop invariant, relative to the full edge set E0 the allocator was given *)
Section Loop.
Variable E0 : list (N * N).

Record AInv (al : AL) (es : list (N * N)) (po : POSS) : Prop := {
  i_al : forall v c, al !! v = Some c -> virt v /\ phys c /\ id_kind c = id_kind v;
  i_po : forall v, is_Some (po !! v) -> virt v /\ al !! v = None;
  i_cand : forall v c, In c (pl po v) -> phys c /\ id_kind c = id_kind v;
  i_sub : forall e, In e es -> In e E0;
  i_ends : forall e, In e E0 -> ends_in al po e;
  i_res : forall x y, In (x, y) E0 -> In (x, y) es \/ resolved al po [] x y
}.

Lemma lk_insert_other al v c x : al !! v = None -> lk al x <> v -> lk (<[v := c]> al) x = lk al x.
Proof.
  intros Hn Hx. unfold lookup_default in *. destruct (decide (v = x)) as [<-|Hne].
  - rewrite Hn in Hx. cbn in Hx. contradiction.
  - now rewrite lookup_insert_ne.
Qed.
Lemma lk_phys_stable al v c x : (forall v c, al !! v = Some c -> virt v /\ phys c /\ id_kind c = id_kind v) ->
  al !! v = None -> virt v -> phys (lk al x) -> lk (<[v := c]> al) x = lk al x.
Proof.
  intros Hal Hn Hv Hp. apply lk_insert_other; [assumption|]. intro E. rewrite E in Hp. eapply virt_not_phys; eauto.
Qed.
Lemma lk_virt_is al x : (forall v c, al !! v = Some c -> virt v /\ phys c /\ id_kind c = id_kind v) ->
  virt (lk al x) -> lk al x = x /\ al !! x = None.
Proof.
  intros Hal Hv. unfold lookup_default in *. destruct (al !! x) as [c|] eqn:E; cbn in *; [|auto].
  destruct (Hal x c E) as (_ & Hp & _). exfalso. eapply virt_not_phys; eauto.
Qed.

Theorem allocate_sound fuel : forall a alf,
  AInv (a_alloc a) (a_edges a) (a_poss a) -> a_allocate fuel a = OK alf ->
  (forall v c, a_alloc a !! v = Some c -> alf !! v = Some c)
  /\ (forall v c, alf !! v = Some c -> virt v /\ phys c /\ id_kind c = id_kind v)
  /\ (forall v, is_Some (a_poss a !! v) -> is_Some (alf !! v))
  /\ (forall v c, alf !! v = Some c -> a_alloc a !! v = Some c \/ In c (pl (a_poss a) v))
  /\ (forall x y, In (x, y) E0 -> phys (lk alf x) /\ phys (lk alf y) /\ lk alf x <> lk alf y).
Proof.
  induction fuel as [|f IH]; intros a alf Hinv H; cbn [a_allocate] in H; [discriminate|].
  destruct (a_update_go (a_alloc a) (a_edges a) [] (a_poss a)) as [[rem po]| |] eqn:Eu; cbn in H; try discriminate.
  destruct Hinv as [Hal Hpo Hcand Hsub Hends Hres].
  assert (Hd : forall e, In e (a_edges a) -> ends_in (a_alloc a) (a_poss a) e) by (intros e He; apply Hends, Hsub, He).
  destruct (upd_shrink _ _ _ _ _ _ Eu Hd) as [S1 S2].
  destruct (upd_resolve _ _ _ _ _ _ Eu Hd) as (R1 & R2 & R3).
  (* all edges of E0 are resolved w.r.t. the new candidate lists and the remaining edge list *)
  assert (Hres' : forall x y, In (x, y) E0 -> resolved (a_alloc a) po rem x y).
  { intros x y Hin. destruct (Hres x y Hin) as [He|Hr]; [now apply R2|].
    destruct Hr as [(_ & _ & [])|[Hr|[(A & B & C)|(A & B & C)]]].
    - right. left. exact Hr.
    - right. right. left. split; [exact A|]. split; [exact B|]. intro Hc. apply C. now apply S1.
    - right. right. right. split; [exact A|]. split; [exact B|]. intro Hc. apply C. now apply S1. }
  assert (Hrem : forall e, In e rem -> In e E0).
  { intros e He. destruct (R3 e He) as [[]|(Hin & _)]. now apply Hsub. }
  destruct (Nat.eqb (size po) 0) eqn:Esz.
  - (* finished: nothing left to allocate *)
    inversion H; subst alf. apply Nat.eqb_eq in Esz. apply map_size_empty_inv in Esz. subst po.
    assert (Hnov : forall e, In e E0 -> phys (lk (a_alloc a) (fst e)) /\ phys (lk (a_alloc a) (snd e))).
    { intros e He. destruct (Hends e He) as [A B]. split.
      - destruct (virt_phys_dec (lk (a_alloc a) (fst e))) as [Hv|Hp]; [|exact Hp].
        apply A, S2 in Hv. rewrite lookup_empty in Hv. destruct Hv; discriminate.
      - destruct (virt_phys_dec (lk (a_alloc a) (snd e))) as [Hv|Hp]; [|exact Hp].
        apply B, S2 in Hv. rewrite lookup_empty in Hv. destruct Hv; discriminate. }
    split; [auto|]. split; [exact Hal|]. split.
    { intros v Hv. apply S2 in Hv. rewrite lookup_empty in Hv. destruct Hv; discriminate. }
    split; [auto|].
    intros x y Hin. destruct (Hnov (x, y) Hin) as [Px Py]. cbn [fst snd] in *.
    destruct (Hres' x y Hin) as [(V & _)|[(A & B & C)|[(_ & V & _)|(V & _)]]]; try (exfalso; eapply virt_not_phys; eauto; fail).
    repeat split; auto.
  - (* allocate the most restricted register *)
    set (v := most_restricted (map_to_list po)) in *.
    destruct (po !! v) as [cands|] eqn:Ev; cbn [default] in H; [|discriminate].
    destruct cands as [|pch rest]; [discriminate|].
    assert (Hv : virt v /\ a_alloc a !! v = None) by (apply Hpo, S2; eauto).
    destruct Hv as [Hvv Hvn].
    assert (Hpch : In pch (pl (a_poss a) v)) by (apply S1; unfold pl; rewrite Ev; now left).
    destruct (Hcand v pch Hpch) as [Hpp Hpk].
    set (a' := {| a_regs := a_regs a; a_alloc := <[v := pch]> (a_alloc a); a_edges := rem; a_poss := delete v po |}) in *.
    assert (Hal' : forall v0 c, <[v := pch]> (a_alloc a) !! v0 = Some c -> virt v0 /\ phys c /\ id_kind c = id_kind v0).
    { intros v0 c Hl. destruct (decide (v = v0)) as [<-|Hne].
      - rewrite lookup_insert in Hl. inversion Hl; subst. auto.
      - rewrite lookup_insert_ne in Hl by assumption. now apply Hal. }
    assert (Hinv' : AInv (a_alloc a') (a_edges a') (a_poss a')).
    { subst a'. cbn [a_alloc a_edges a_poss]. constructor.
      - exact Hal'.
      - intros v0 [l Hl]. destruct (decide (v = v0)) as [<-|Hne]; [rewrite lookup_delete in Hl; discriminate|].
        rewrite lookup_delete_ne in Hl by assumption.
        destruct (Hpo v0) as [A B]; [apply S2; eauto|]. split; [exact A|]. now rewrite lookup_insert_ne.
      - intros v0 c Hc. unfold pl in Hc. destruct (decide (v = v0)) as [<-|Hne]; [rewrite lookup_delete in Hc; destruct Hc|].
        rewrite lookup_delete_ne in Hc by assumption. apply Hcand. now apply S1.
      - exact Hrem.
      - intros e He. destruct (Hends e He) as [A B].
        assert (G : forall x, (virt (lk (a_alloc a) x) -> is_Some (a_poss a !! lk (a_alloc a) x)) ->
                    virt (lk (<[v := pch]> (a_alloc a)) x) -> is_Some (delete v po !! lk (<[v := pch]> (a_alloc a)) x)).
        { intros x Ax Hvx. destruct (lk_virt_is _ x Hal' Hvx) as [Ex Nx]. rewrite Ex.
          assert (Hne : v <> x) by (intro E; subst x; rewrite lookup_insert in Nx; discriminate).
          rewrite lookup_insert_ne in Nx by assumption. rewrite lookup_delete_ne by assumption. apply S2.
          assert (Ek : lk (a_alloc a) x = x) by (unfold lookup_default; now rewrite Nx).
          rewrite Ek in Ax. apply Ax. rewrite Ex in Hvx. exact Hvx. }
        split; [apply G, A|apply G, B].
      - intros x y Hin. destruct (Hres' x y Hin) as [(A & B & C)|[(A & B & C)|[(A & B & C)|(A & B & C)]]]; unfold resolved.
        + left. exact C.
        + right. right. left. rewrite !(lk_phys_stable _ v pch _ Hal Hvn Hvv) by assumption. repeat split; auto.
        + assert (Lx : lk (<[v := pch]> (a_alloc a)) x = lk (a_alloc a) x) by (apply lk_phys_stable; assumption).
          destruct (lk_virt_is _ y Hal B) as [Ey Ny]. rewrite Ey in *.
          destruct (decide (v = y)) as [<-|Hne].
          * assert (Lv : lk (<[v := pch]> (a_alloc a)) v = pch) by (unfold lookup_default; now rewrite lookup_insert).
            right. right. left. rewrite Lx, Lv. split; [exact A|]. split; [exact Hpp|].
            intro E. apply C. rewrite E. unfold pl. rewrite Ev. now left.
          * assert (Ly : lk (<[v := pch]> (a_alloc a)) y = y) by (unfold lookup_default; rewrite lookup_insert_ne by assumption; now rewrite Ny).
            right. right. right. left. rewrite Lx, Ly. split; [exact A|]. split; [exact B|].
            unfold pl. rewrite lookup_delete_ne by assumption. exact C.
        + assert (Ly : lk (<[v := pch]> (a_alloc a)) y = lk (a_alloc a) y) by (apply lk_phys_stable; assumption).
          destruct (lk_virt_is _ x Hal A) as [Ex Nx]. rewrite Ex in *.
          destruct (decide (v = x)) as [<-|Hne].
          * assert (Lv : lk (<[v := pch]> (a_alloc a)) v = pch) by (unfold lookup_default; now rewrite lookup_insert).
            right. right. left. rewrite Ly, Lv. split; [exact Hpp|]. split; [exact B|].
            intro E. apply C. rewrite <- E. unfold pl. rewrite Ev. now left.
          * assert (Lx : lk (<[v := pch]> (a_alloc a)) x = x) by (unfold lookup_default; rewrite lookup_insert_ne by assumption; now rewrite Nx).
            right. right. right. right. rewrite Lx, Ly. split; [exact A|]. split; [exact B|].
            unfold pl. rewrite lookup_delete_ne by assumption. exact C. }
    destruct (IH a' alf Hinv' H) as (K1 & K2 & K3 & K4 & K5). subst a'. cbn [a_alloc a_poss] in *.
    split; [|split; [exact K2|split; [|split; [|exact K5]]]].
    + intros v0 c Hl. apply K1. rewrite lookup_insert_ne; [exact Hl|]. intro E. subst v0. rewrite Hvn in Hl. discriminate.
    + intros v0 Hv0. destruct (decide (v = v0)) as [<-|Hne].
      * exists pch. apply K1. now rewrite lookup_insert.
      * apply K3. rewrite lookup_delete_ne by assumption. now apply S2.
    + intros v0 c Hl. destruct (K4 v0 c Hl) as [Hl'|Hc].
      * destruct (decide (v = v0)) as [<-|Hne].
        -- rewrite lookup_insert in Hl'. inversion Hl'; subst. right. exact Hpch.
        -- rewrite lookup_insert_ne in Hl' by assumption. now left.
      * right. unfold pl in Hc. destruct (decide (v = v0)) as [<-|Hne]; [rewrite lookup_delete in Hc; destruct Hc|].
        rewrite lookup_delete_ne in Hc by assumption. now apply S1.
Qed.

(* ---- the fuel of the model (one round per register to allocate, plus one) always suffices: Go's
   `for { ... }` loop in Allocate() ends after at most |possible| rounds *)
Lemma same_keys_same_size (m1 m2 : POSS) : (forall v, is_Some (m1 !! v) <-> is_Some (m2 !! v)) -> size m1 = size m2.
Proof.
  intro H. rewrite <- (size_dom (D := gset N) m1), <- (size_dom (D := gset N) m2). f_equal.
  apply set_eq. intro v. rewrite !elem_of_dom. apply H.
Qed.

Lemma upd_err_code al es : forall rem po e, a_update_go al es rem po = Err e -> e = EImpossible.
Proof.
  induction es as [|[ex ey] es IH]; intros rem po e H; cbn [a_update_go] in H; [discriminate|].
  destruct (id_is_virtual (lk al ex)), (id_is_virtual (lk al ey)); try (eapply IH; eauto; fail).
  destruct (lk al ex =? lk al ey); [now inversion H|eapply IH; eauto].
Qed.

Lemma allocate_fuel_enough fuel : forall a,
  AInv (a_alloc a) (a_edges a) (a_poss a) -> (size (a_poss a) < fuel)%nat -> a_allocate fuel a <> Err EOutOfFuel.
Proof.
  induction fuel as [|f IH]; intros a Hinv Hf; [lia|]. cbn [a_allocate].
  destruct (a_update_go (a_alloc a) (a_edges a) [] (a_poss a)) as [[rem po]|e|] eqn:Eu; cbn; try discriminate.
  2:{ apply upd_err_code in Eu. subst e. discriminate. }
  - destruct Hinv as [Hal Hpo Hcand Hsub Hends Hres].
    assert (Hd : forall e, In e (a_edges a) -> ends_in (a_alloc a) (a_poss a) e) by (intros e He; apply Hends, Hsub, He).
    destruct (upd_shrink _ _ _ _ _ _ Eu Hd) as [S1 S2].
    destruct (upd_resolve _ _ _ _ _ _ Eu Hd) as (R1 & R2 & R3).
    destruct (Nat.eqb (size po) 0); [discriminate|].
    set (v := most_restricted (map_to_list po)).
    destruct (po !! v) as [cands|] eqn:Ev; cbn [default]; [|discriminate].
    destruct cands as [|pch rest]; [discriminate|].
    (* the next state satisfies the invariant (as in allocate_sound) and has one key less *)
    assert (Hv : virt v /\ a_alloc a !! v = None) by (apply Hpo, S2; eauto). destruct Hv as [Hvv Hvn].
    assert (Hpch : In pch (pl (a_poss a) v)) by (apply S1; unfold pl; rewrite Ev; now left).
    destruct (Hcand v pch Hpch) as [Hpp Hpk].
    assert (Hres' : forall x y, In (x, y) E0 -> resolved (a_alloc a) po rem x y).
    { intros x y Hin. destruct (Hres x y Hin) as [He|Hr]; [now apply R2|].
      destruct Hr as [(_ & _ & [])|[Hr|[(A & B & C)|(A & B & C)]]].
      - right. left. exact Hr.
      - right. right. left. split; [exact A|]. split; [exact B|]. intro Hc. apply C. now apply S1.
      - right. right. right. split; [exact A|]. split; [exact B|]. intro Hc. apply C. now apply S1. }
    apply IH.
    + cbn [a_alloc a_edges a_poss].
      assert (Hal' : forall v0 c, <[v := pch]> (a_alloc a) !! v0 = Some c -> virt v0 /\ phys c /\ id_kind c = id_kind v0).
      { intros v0 c Hl. destruct (decide (v = v0)) as [<-|Hne].
        - rewrite lookup_insert in Hl. inversion Hl; subst. auto.
        - rewrite lookup_insert_ne in Hl by assumption. now apply Hal. }
      constructor.
      * exact Hal'.
      * intros v0 [l Hl]. destruct (decide (v = v0)) as [<-|Hne]; [rewrite lookup_delete in Hl; discriminate|].
        rewrite lookup_delete_ne in Hl by assumption.
        destruct (Hpo v0) as [A B]; [apply S2; eauto|]. split; [exact A|]. now rewrite lookup_insert_ne.
      * intros v0 c Hc. unfold pl in Hc. destruct (decide (v = v0)) as [<-|Hne]; [rewrite lookup_delete in Hc; destruct Hc|].
        rewrite lookup_delete_ne in Hc by assumption. apply Hcand. now apply S1.
      * intros e He. destruct (R3 e He) as [[]|(Hin & _)]. now apply Hsub.
      * intros e He. destruct (Hends e He) as [A B].
        assert (G : forall x, (virt (lk (a_alloc a) x) -> is_Some (a_poss a !! lk (a_alloc a) x)) ->
                    virt (lk (<[v := pch]> (a_alloc a)) x) -> is_Some (delete v po !! lk (<[v := pch]> (a_alloc a)) x)).
        { intros x Ax Hvx. destruct (lk_virt_is _ x Hal' Hvx) as [Ex Nx]. rewrite Ex.
          assert (Hne : v <> x) by (intro E; subst x; rewrite lookup_insert in Nx; discriminate).
          rewrite lookup_insert_ne in Nx by assumption. rewrite lookup_delete_ne by assumption. apply S2.
          assert (Ek : lk (a_alloc a) x = x) by (unfold lookup_default; now rewrite Nx).
          rewrite Ek in Ax. apply Ax. rewrite Ex in Hvx. exact Hvx. }
        split; [apply G, A|apply G, B].
      * intros x y Hin. destruct (Hres' x y Hin) as [(A & B & C)|[(A & B & C)|[(A & B & C)|(A & B & C)]]]; unfold resolved.
        -- left. exact C.
        -- right. right. left. rewrite !(lk_phys_stable _ v pch _ Hal Hvn Hvv) by assumption. repeat split; auto.
        -- assert (Lx : lk (<[v := pch]> (a_alloc a)) x = lk (a_alloc a) x) by (apply lk_phys_stable; assumption).
           destruct (lk_virt_is _ y Hal B) as [Ey Ny]. rewrite Ey in *.
           destruct (decide (v = y)) as [<-|Hne].
           ++ assert (Lv : lk (<[v := pch]> (a_alloc a)) v = pch) by (unfold lookup_default; now rewrite lookup_insert).
              right. right. left. rewrite Lx, Lv. split; [exact A|]. split; [exact Hpp|].
              intro E. apply C. rewrite E. unfold pl. rewrite Ev. now left.
           ++ assert (Ly : lk (<[v := pch]> (a_alloc a)) y = y) by (unfold lookup_default; rewrite lookup_insert_ne by assumption; now rewrite Ny).
              right. right. right. left. rewrite Lx, Ly. split; [exact A|]. split; [exact B|].
              unfold pl. rewrite lookup_delete_ne by assumption. exact C.
        -- assert (Ly : lk (<[v := pch]> (a_alloc a)) y = lk (a_alloc a) y) by (apply lk_phys_stable; assumption).
           destruct (lk_virt_is _ x Hal A) as [Ex Nx]. rewrite Ex in *.
           destruct (decide (v = x)) as [<-|Hne].
           ++ assert (Lv : lk (<[v := pch]> (a_alloc a)) v = pch) by (unfold lookup_default; now rewrite lookup_insert).
              right. right. left. rewrite Ly, Lv. split; [exact Hpp|]. split; [exact B|].
              intro E. apply C. rewrite <- E. unfold pl. rewrite Ev. now left.
           ++ assert (Lx : lk (<[v := pch]> (a_alloc a)) x = x) by (unfold lookup_default; rewrite lookup_insert_ne by assumption; now rewrite Nx).
              right. right. right. right. rewrite Lx, Ly. split; [exact A|]. split; [exact B|].
              unfold pl. rewrite lookup_delete_ne by assumption. exact C.
    + cbn [a_poss]. rewrite map_size_delete_Some by eauto. rewrite (same_keys_same_size po (a_poss a) S2).
      assert (0 < size (a_poss a))%nat; [|lia].
      rewrite <- (same_keys_same_size po (a_poss a) S2). destruct (size po) eqn:Es; [|lia].
      apply map_size_empty_inv in Es. subst po. rewrite lookup_empty in Ev. discriminate.
Qed.
End Loop.
