From Avo Require Import Base.Prelude Base.Str Model.Stub.
Open Scope string_scope.
Open Scope list_scope.

Lemma declared_app_comments cs r doc prag :
  declared (List.map SLComment cs ++ r) doc prag = declared r (doc ++ cs) prag.
Proof. revert doc; induction cs as [|c cs IH]; intro doc; cbn; [now rewrite app_nil_r|]. rewrite IH, <- app_assoc. reflexivity. Qed.
Lemma declared_app_pragmas ps r doc prag :
  declared (List.map SLPragma ps ++ r) doc prag = declared r doc (prag ++ ps).
Proof. revert prag; induction ps as [|p ps IH]; intro prag; cbn; [now rewrite app_nil_r|]. rewrite IH, <- app_assoc. reflexivity. Qed.

Lemma declared_funcs fs : forall doc prag,
  declared (flat_map func_lines fs) doc prag
  = List.map (fun x => (sf_name x, sf_sig x, List.map rtrim (flat_map (split (ascii_of_N 10)) (sf_doc x)), List.map pragma_text (sf_pragmas x))) fs.
Proof.
  induction fs as [|f fs IH]; intros doc prag; [reflexivity|].
  cbn [flat_map]. unfold func_lines at 1. rewrite <- !app_assoc. cbn [app declared].
  rewrite declared_app_comments.
  replace (List.map (fun p => SLPragma (pragma_text p)) (sf_pragmas f)) with (List.map SLPragma (List.map pragma_text (sf_pragmas f))) by (rewrite List.map_map; reflexivity).
  rewrite declared_app_pragmas. cbn [app declared List.map]. rewrite IH. reflexivity.
Qed.

Theorem stub_declares_expected f : declared (stub_lines f) [] [] = expected f.
Proof.
  unfold stub_lines, expected. rewrite declared_app_comments.
  assert (H : forall ls d p, declared ((if String.eqb (st_constraints f) "" then [] else [SLBlank; SLRaw (st_constraints f)]) ++ [SLBlank; SLPackage (st_pkg f)] ++ ls) d p = declared ls [] []).
  { intros ls d p. destruct (String.eqb (st_constraints f) ""); reflexivity. }
  rewrite H. apply declared_funcs.
Qed.
