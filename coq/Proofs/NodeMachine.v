(* C01 + C09: the instruction-indexed machine of Model/Sem.v (on which the allocation theorems are
   stated) is what a function body executes under the node semantics of Model/NodeSem.v.  A register
   machine whose instructions read the declared input locations and write the declared output
   locations, run on the node list, takes exactly the steps of the indexed machine `mstep` for the
   transfer function F built here; and this F satisfies the two hypotheses of the allocation theorem
   (it follows the CFG the passes compute; it supplies one value per declared output).  So the
   theorems of Props/C01.v speak about every execution of the function body. *)
From Avo Require Import Base.Prelude.
From stdpp Require Import gmap.
From Avo Require Import Base.MaskSet Model.IR Model.CFG Model.Liveness Model.NodeSem Model.Sem
  Proofs.CleanupSem Proofs.CFGSem Proofs.SimProofs Proofs.SimLink Proofs.SimValidator.
Open Scope list_scope.

Section Bridge.
Variables (val memt : Type).
(* what an instruction computes from the values of its declared inputs and memory *)
Variable sem : instr -> list val -> memt -> list val * memt * ctl.
Variable ns : list node.
Variable pr : prog_regs_t.
(* declared input / output locations per instruction *)
Variable ud : instr -> list loc * list loc.

Hypothesis sem_goto : forall i vs m outs m' l, sem i vs m = (outs, m', CGoto l) -> is_branch i = true /\ target_label i = Some l.
Hypothesis sem_next : forall i vs m outs m', sem i vs m = (outs, m', CNext) -> is_terminal i = false /\ is_unconditional_branch i = false.
Hypothesis sem_outs : forall i vs m outs m' c, sem i vs m = (outs, m', c) -> List.length outs = List.length (snd (ud i)).
(* pr lists, per instruction of ns, the declared reads and writes and the CFG successors *)
Hypothesis pr_len : List.length pr = ninstr ns.
Hypothesis pr_ud : forall j i x, List.nth_error (instructions ns) j = Some i -> List.nth_error pr j = Some x ->
  regs_locs (fst (fst x)) = fst (ud i) /\ regs_locs (snd (fst x)) = snd (ud i) /\ snd x = spec_succs ns j i.

Definition St := (rstate val * memt)%type.
Definition exec (i : instr) (s : St) : St * ctl :=
  let '(R, m) := s in
  let '(outs, m', c) := sem i (List.map R (fst (ud i))) m in
  ((write val R (snd (ud i)) outs, m'), c).

Definition F (j : nat) (vs : list val) (m : memt) : list val * memt * option nat :=
  match List.nth_error (instructions ns) j with
  | None => ([], m, None)
  | Some i =>
      let '(outs, m', c) := sem i vs m in
      (outs, m', match c with
                 | CNext => if Nat.ltb (Datatypes.S j) (ninstr ns) then Some (Datatypes.S j) else None
                 | CGoto l => spec_target ns l
                 | CHalt => None
                 end)
  end.

Lemma P_entry j i : List.nth_error (instructions ns) j = Some i ->
  exists x, List.nth_error pr j = Some x /\
            List.nth_error (P pr) j = Some (to_minstr (fst (fst x)) (snd (fst x)) (snd x)).
Proof.
  intro Hi. assert (Hj : (j < List.length pr)%nat) by (rewrite pr_len; unfold ninstr; apply nth_error_Some; congruence).
  destruct (List.nth_error pr j) as [x|] eqn:Ex; [|apply nth_error_None in Ex; lia].
  exists x. split; [reflexivity|]. unfold P. rewrite nth_error_map, Ex. reflexivity.
Qed.

(* F follows the computed CFG *)
Lemma F_follows_cfg : forall j mi vs m outs m' n, List.nth_error (P pr) j = Some mi -> F j vs m = (outs, m', Some n) -> In n (m_succ mi).
Proof.
  intros j mi vs m outs m' n Hmi HF. unfold F in HF.
  destruct (List.nth_error (instructions ns) j) as [i|] eqn:Ei; [|discriminate].
  destruct (P_entry j i Ei) as (x & Hx & HP). rewrite HP in Hmi. injection Hmi as <-.
  destruct (pr_ud j i x Ei Hx) as (_ & _ & Hs).
  destruct (sem i vs m) as [[o1 m1] c] eqn:Es. injection HF as _ _ Hn.
  cbn [to_minstr m_succ]. rewrite Hs. apply in_flat_map. exists (Some n). split; [|now left].
  unfold spec_succs. destruct c as [|l|]; [| |discriminate].
  - destruct (sem_next _ _ _ _ _ Es) as [Ht Hu]. rewrite Ht, Hu.
    destruct (Nat.ltb (Datatypes.S j) (ninstr ns)) eqn:El; [|discriminate]. injection Hn as <-.
    apply in_or_app. right. now left.
  - destruct (sem_goto _ _ _ _ _ _ Es) as [Hb Ht]. rewrite Hb, Ht. unfold spec_target in *. rewrite Hn.
    apply in_or_app. left. now left.
Qed.

Lemma F_outs : forall j mi vs m outs m' npc, List.nth_error (P pr) j = Some mi -> F j vs m = (outs, m', npc) ->
  List.length outs = List.length (m_defs mi).
Proof.
  intros j mi vs m outs m' npc Hmi HF. unfold F in HF.
  destruct (List.nth_error (instructions ns) j) as [i|] eqn:Ei.
  - destruct (P_entry j i Ei) as (x & Hx & HP). rewrite HP in Hmi. injection Hmi as <-.
    destruct (pr_ud j i x Ei Hx) as (_ & Hd & _).
    destruct (sem i vs m) as [[o1 m1] c] eqn:Es. injection HF as <- _ _. cbn [to_minstr m_defs]. rewrite Hd. eapply sem_outs; eauto.
  - assert (Hn : List.nth_error (P pr) j = None).
    { apply nth_error_None. unfold P. rewrite map_length, pr_len. apply nth_error_None in Ei. exact Ei. }
    congruence.
Qed.

(* one step of the node semantics at an instruction is one step of the indexed machine *)
Theorem node_step_is_machine_step : forall i r R m k' R' m',
  is_suffix (NInstr i :: r) ns ->
  step St exec ns (NInstr i :: r) (R, m) = Running k' (R', m') ->
  (index_at ns k' < ninstr ns)%nat ->
  mstep val memt F (P pr) (index_at ns (NInstr i :: r), R, m) = Some (index_at ns k', R', m').
Proof.
  intros i r R m k' R' m' Hsuf Hst Hlt. destruct Hsuf as [pre HP].
  assert (Hj : index_at ns (NInstr i :: r) = ninstr pre) by (rewrite HP; apply index_at_pre).
  assert (Ei : List.nth_error (instructions ns) (ninstr pre) = Some i).
  { rewrite HP, instructions_app. unfold ninstr. rewrite nth_error_app2 by apply Nat.le_refl. rewrite Nat.sub_diag. reflexivity. }
  rewrite Hj. destruct (P_entry _ i Ei) as (x & Hx & HPj). destruct (pr_ud _ i x Ei Hx) as (Hu & Hd & _).
  unfold mstep. rewrite HPj. cbn [to_minstr m_uses m_defs]. rewrite Hu, Hd. unfold F. rewrite Ei.
  cbn [step] in Hst. unfold exec in Hst.
  destruct (sem i (List.map R (fst (ud i))) m) as [[outs m1] c] eqn:Es.
  destruct c as [|l|]; [| |discriminate].
  - injection Hst as <- <- <-.
    assert (Hb : index_at ns r = Datatypes.S (ninstr pre)).
    { rewrite HP. replace (pre ++ NInstr i :: r) with ((pre ++ [NInstr i]) ++ r) by (now rewrite <- app_assoc).
      rewrite index_at_pre, ninstr_app. unfold ninstr at 2. cbn. lia. }
    rewrite Hb in *. apply Nat.ltb_lt in Hlt. rewrite Hlt. reflexivity.
  - destruct (from_label l ns) as [k|] eqn:Ef; [|discriminate]. injection Hst as <- <- <-.
    destruct (from_label_index l ns 0%nat k Ef) as (pre' & HP' & Hassoc).
    assert (Hk : index_at ns k = ninstr pre') by (rewrite HP' at 1; apply index_at_pre).
    rewrite Hk. unfold spec_target. rewrite Hassoc. reflexivity.
Qed.

(* labels and comments do not move the indexed machine *)
Lemma node_skip_keeps_index : forall n r, (match n with NInstr _ => False | _ => True end) ->
  is_suffix (n :: r) ns -> index_at ns (n :: r) = index_at ns r.
Proof.
  intros n r Hn [pre HP].
  assert (H1 : index_at ns (n :: r) = ninstr pre) by (rewrite HP; apply index_at_pre).
  assert (H2 : index_at ns r = ninstr (pre ++ [n])).
  { rewrite HP. replace (pre ++ n :: r) with ((pre ++ [n]) ++ r) by (now rewrite <- app_assoc). apply index_at_pre. }
  rewrite H1, H2, ninstr_app. destruct n as [l|c|i]; [| |contradiction]; unfold ninstr, instructions; cbn [flat_map app List.length]; lia.
Qed.

Lemma step_suffix : forall k s k' s', is_suffix k ns -> step St exec ns k s = Running k' s' -> is_suffix k' ns.
Proof.
  intros k s k' s' Hs Hst. destruct k as [|n r]; [discriminate|]. destruct n as [l|c|i]; cbn [step] in Hst.
  - injection Hst as <- _. eapply is_suffix_tl; eauto.
  - injection Hst as <- _. eapply is_suffix_tl; eauto.
  - destruct (exec i s) as [s1 c]. destruct c as [|l|]; [| |discriminate].
    + injection Hst as <- _. eapply is_suffix_tl; eauto.
    + destruct (from_label l ns) as [k1|] eqn:Ef; [|discriminate]. injection Hst as <- _. eapply from_label_suffix; eauto.
Qed.

Lemma suffix_ninstr k : is_suffix k ns -> (ninstr k <= ninstr ns)%nat.
Proof. intros [pre ->]. rewrite ninstr_app. lia. Qed.

Lemma no_instr_run : forall fuel k s k' s', ninstr k = 0%nat -> run St exec ns fuel k s = Running k' s' -> ninstr k' = 0%nat.
Proof.
  induction fuel as [|f IH]; intros k s k' s' Hz Hr; cbn [run] in Hr.
  - injection Hr as <- _. exact Hz.
  - destruct k as [|n r]; [discriminate|]. destruct n as [l|c|i].
    + cbn [step] in Hr. eapply IH; [|exact Hr]. unfold ninstr, instructions in *. cbn [flat_map app] in Hz. exact Hz.
    + cbn [step] in Hr. eapply IH; [|exact Hr]. unfold ninstr, instructions in *. cbn [flat_map app] in Hz. exact Hz.
    + unfold ninstr, instructions in Hz. cbn in Hz. discriminate.
Qed.

(* every execution of the body is an execution of the indexed machine *)
Theorem node_run_is_machine_run : forall fuel k R m k' R' m',
  is_suffix k ns -> run St exec ns fuel k (R, m) = Running k' (R', m') -> (index_at ns k' < ninstr ns)%nat ->
  exists n, (n <= fuel)%nat /\ mrun val memt F (P pr) n (index_at ns k, R, m) = Some (index_at ns k', R', m').
Proof.
  induction fuel as [|f IH]; intros k R m k' R' m' Hsuf Hr Hlt.
  - cbn [run] in Hr. injection Hr as <- <- <-. exists 0%nat. split; [lia|reflexivity].
  - cbn [run] in Hr. destruct k as [|n r]; [discriminate|].
    destruct n as [l|c|i].
    + cbn [step] in Hr. destruct (IH _ _ _ _ _ _ (is_suffix_tl _ _ _ Hsuf) Hr Hlt) as (n0 & Hn & Hm).
      exists n0. split; [lia|]. rewrite (node_skip_keeps_index (NLabel l) r I Hsuf). exact Hm.
    + cbn [step] in Hr. destruct (IH _ _ _ _ _ _ (is_suffix_tl _ _ _ Hsuf) Hr Hlt) as (n0 & Hn & Hm).
      exists n0. split; [lia|]. rewrite (node_skip_keeps_index (NComment c) r I Hsuf). exact Hm.
    + destruct (step St exec ns (NInstr i :: r) (R, m)) as [s0|s0|s0|k1 [R1 m1]] eqn:Es; try discriminate.
      pose proof (step_suffix _ _ _ _ Hsuf Es) as Hs1.
      assert (Hlt1 : (index_at ns k1 < ninstr ns)%nat).
      { destruct (Nat.eq_dec (ninstr k1) 0%nat) as [Hz|Hnz].
        - pose proof (no_instr_run _ _ _ _ _ Hz Hr) as Hz'. unfold index_at in Hlt. lia.
        - unfold index_at. pose proof (suffix_ninstr k1 Hs1). lia. }
      pose proof (node_step_is_machine_step i r R m k1 R1 m1 Hsuf Es Hlt1) as Hm1.
      destruct (IH _ _ _ _ _ _ Hs1 Hr Hlt) as (n0 & Hn & Hm).
      exists (Datatypes.S n0). split; [lia|]. cbn [mrun]. rewrite Hm1. exact Hm.
Qed.
End Bridge.
