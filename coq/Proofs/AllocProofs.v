From Avo Require Import Base.Prelude.
From stdpp Require Import gmap.
From Avo Require Import Base.MaskSet Model.IR Model.RegFile Model.RegSpec Model.Liveness Model.Alloc Model.Cleanup Proofs.RegProofs.
Open Scope N_scope.

(* ---- binding *)
Lemma bind_physical_untouched rf al r : reg_is_virtual r = false -> lookup_register_default rf al r = r.
Proof. unfold lookup_register_default. intros ->. reflexivity. Qed.

Lemma bind_virtual rf al r : reg_is_virtual r = true ->
  let r' := lookup_register_default rf al r in
  (r' = r) \/ (exists pid p, al !! rid r = Some pid /\ lookup_id rf pid (rmask r) = Some p /\ r' = reg_of_preg p
               /\ rmask r' = rmask r /\ In p rf /\ p_idx p = id_index pid).
Proof.
  intro Hv. cbn zeta. unfold lookup_register_default. rewrite Hv. cbn [negb].
  destruct (al !! rid r) as [pid|] eqn:Ea; [|left; reflexivity].
  destruct (lookup_id rf pid (rmask r)) as [p|] eqn:El; [|left; reflexivity].
  right. exists pid, p. repeat split; auto.
  - unfold lookup_id in El. destruct (id_is_virtual pid); [discriminate|]. destruct (family_exists (id_kind pid)); [|discriminate].
    apply family_lookup_spec in El as (_ & _ & _ & Hm). cbn. exact Hm.
  - unfold lookup_id in El. destruct (id_is_virtual pid); [discriminate|]. destruct (family_exists (id_kind pid)); [|discriminate].
    apply family_lookup_spec in El as (Hin & _). exact Hin.
  - unfold lookup_id in El. destruct (id_is_virtual pid); [discriminate|]. destruct (family_exists (id_kind pid)); [|discriminate].
    apply family_lookup_spec in El as (_ & _ & Hi & _). exact Hi.
Qed.

Lemma verify_allocation_ok is : verify_allocation is = OK tt ->
  forall i r, In i is -> In r (instr_registers i) -> reg_is_virtual r = false.
Proof.
  unfold verify_allocation. destruct (forallb _ is) eqn:E; [|discriminate]. intros _ i r Hi Hr.
  rewrite forallb_forall in E. specialize (E i Hi). rewrite forallb_forall in E. specialize (E r Hr). now apply negb_true_iff in E.
Qed.

(* ---- colours never include a register with a restricted view (given the table lemma that the
   Restricted flag is a property of the hardware register, not of the view) *)
Lemma In_insert_sorted le x y l : In y (insert_sorted le x l) <-> y = x \/ In y l.
Proof.
  induction l as [|z l IH]; cbn; [intuition congruence|]. destruct (le x z); cbn; [intuition congruence|].
  rewrite IH. intuition congruence.
Qed.
Lemma In_sort_by le l y : In y (sort_by le l) <-> In y l.
Proof. unfold sort_by. induction l as [|x l IH]; cbn; [tauto|]. rewrite In_insert_sorted, IH. intuition congruence. Qed.
Lemma In_dedup_ids l y : In y (dedup_ids l) <-> In y l.
Proof.
  induction l as [|x l IH]; cbn; [tauto|]. destruct (existsb (N.eqb x) l) eqn:E.
  - rewrite IH. split; [auto|]. intros [->|H]; [|exact H]. apply existsb_exists in E as (z & Hz & Ez). apply N.eqb_eq in Ez. now subst.
  - cbn. rewrite IH. intuition congruence.
Qed.
Lemma colours_spec rf kind id : In id (colours rf kind) ->
  exists p, In p rf /\ p_family p = kind /\ p_id p = id /\ N.land (p_info p) InfoRestricted = 0.
Proof.
  unfold colours. rewrite In_sort_by, In_dedup_ids, in_map_iff. intros (p & Hid & Hin).
  apply List.filter_In in Hin as [Hin Hr]. unfold family in Hin. apply List.filter_In in Hin as [Hin Hk].
  exists p. repeat split; auto; now apply N.eqb_eq.
Qed.

(* ---- EnsureBasePointerCalleeSaved *)
Lemma ensure_bp_spec rf is attrs local :
  match ensure_bp rf is attrs local with
  | OK l => if clobbers_bp rf is then N.land attrs NOFRAME = 0 /\ 0 < l /\ (local = 0 -> l = 8) /\ (0 < local -> l = local) else l = local
  | Err e => clobbers_bp rf is = true /\ N.land attrs NOFRAME <> 0 /\ e = ENoFrameBP
  | Panic _ => False
  end.
Proof.
  unfold ensure_bp. destruct (clobbers_bp rf is); cbn [negb]; [|reflexivity].
  destruct (N.eqb_spec (N.land attrs NOFRAME) 0) as [E|E]; cbn [negb].
  - split; [exact E|]. destruct (N.eqb_spec local 0); subst; repeat split; try lia.
  - auto.
Qed.

(* ---- clean-up *)
(* every node of the result of remove_instrs is a node of the input, in order (subsequence), and
   every dropped node is an instruction on which the predicate answered true *)
Inductive dropped_ok (pred : instr -> res bool) : list node -> list node -> Prop :=
| DO_nil : dropped_ok pred [] []
| DO_keep n a b : dropped_ok pred a b -> dropped_ok pred (n :: a) (n :: b)
| DO_drop i a b : pred i = OK true -> dropped_ok pred a b -> dropped_ok pred (NInstr i :: a) b.
Lemma remove_instrs_dropped pred : forall ns out, remove_instrs pred true ns = OK out -> dropped_ok pred ns out.
Proof.
  intro ns. remember (length ns) as n eqn:Hn. revert ns Hn.
  induction n as [n IH] using lt_wf_ind. intros ns Hn out H.
  destruct ns as [|nd r]; cbn [remove_instrs] in H.
  { inversion H. constructor. }
  assert (Hrec : forall r' out', (length r' < n)%nat -> remove_instrs pred true r' = OK out' -> dropped_ok pred r' out')
    by (intros r' out' Hl Hr; eapply (IH (length r')); eauto).
  cbn [length] in Hn.
  destruct nd as [l|ls|i].
  - destruct (remove_instrs pred true r) as [rest| |] eqn:E; cbn [res_bind] in H; try discriminate. inversion H; subst.
    constructor. apply Hrec; [lia|exact E].
  - destruct (remove_instrs pred true r) as [rest| |] eqn:E; cbn [res_bind] in H; try discriminate. inversion H; subst.
    constructor. apply Hrec; [lia|exact E].
  - destruct (pred i) as [b| |] eqn:Ep; cbn [res_bind] in H; try discriminate. destruct b.
    + destruct r as [|n2 r2].
      * inversion H; subst. apply DO_drop; [exact Ep|constructor].
      * destruct (remove_instrs pred true r2) as [rest| |] eqn:E; cbn [res_bind] in H; try discriminate. inversion H; subst.
        apply DO_drop; [exact Ep|]. constructor. apply Hrec; [cbn [length] in *; lia|exact E].
    + destruct (remove_instrs pred true r) as [rest| |] eqn:E; cbn [res_bind] in H; try discriminate. inversion H; subst.
      constructor. apply Hrec; [lia|exact E].
Qed.

(* the repaired predicate only answers true on moves that are architectural no-ops, for moves whose
   operand width matches the opcode (which the constructors guarantee, C06) *)
Definition well_formed_move (i : instr) : Prop :=
  match operands i with
  | [OReg a; OReg b] => (String.eqb (opcode i) "MOVB" = true -> spec_size (rmask a) = 1) /\ (String.eqb (opcode i) "MOVW" = true -> spec_size (rmask a) = 2)
                        /\ (String.eqb (opcode i) "MOVQ" = true -> reg_kind a = KindGP -> spec_size (rmask a) = 8)
  | [_; _] => True
  | _ => False
  end.
Lemma self_move_pred_noop i : well_formed_move i -> self_move_pred self_move_opcodes_fixed true i = OK true -> move_is_architectural_noop i = true.
Proof.
  unfold self_move_pred, self_move_opcodes_fixed, move_is_architectural_noop, well_formed_move.
  intros Hwf H.
  destruct (operands i) as [|a [|b [|c rest]]]; try contradiction; try discriminate H.
  all: try (destruct a; contradiction). all: try (destruct a, b; contradiction).
  destruct (existsb (String.eqb (opcode i)) ["MOVB"; "MOVW"; "MOVQ"]%string) eqn:Eop; cbn [negb] in H; cbv iota in H; [|discriminate].
  injection H as H0.
  apply andb_true_iff in H0 as [H0 Hk]. apply andb_true_iff in H0 as [H0 Heq]. apply andb_true_iff in H0 as [Ha Hb].
  destruct a as [ra| | | | |]; try discriminate. destruct b as [rb| | | | |]; try discriminate.
  cbn [negb orb operand_eqb] in *. rewrite Heq, Hk. cbn [andb].
  destruct Hwf as (HB & HW & HQ). apply N.eqb_eq in Hk.
  cbn [existsb] in Eop. rewrite orb_false_r in Eop.
  destruct (String.eqb (opcode i) "MOVB") eqn:EB; [rewrite (HB eq_refl); reflexivity|].
  destruct (String.eqb (opcode i) "MOVW") eqn:EW; [rewrite (HW eq_refl); cbn; reflexivity|].
  destruct (String.eqb (opcode i) "MOVQ") eqn:EQ; [rewrite (HQ eq_refl Hk); cbn; reflexivity|].
  cbn in Eop. discriminate.
Qed.
