From Avo Require Import Base.Prelude.
From stdpp Require Import gmap.
From Avo Require Import Base.MaskSet Model.IR Model.CFG.
Open Scope N_scope.

(* successors of one instruction, as computed by the CFG pass *)
Lemma succ_of_spec tg n i cur s : succ_of tg n i cur = OK s ->
  s = (if is_branch cur then match target_label cur with Some l => match assoc tg l with Some t => [Some t] | None => [] end | None => [] end else [])
      ++ (if is_terminal cur then [] else if is_unconditional_branch cur then [] else [if Nat.ltb (S i) n then Some (S i) else None])
  /\ (is_branch cur = true -> exists l t, target_label cur = Some l /\ assoc tg l = Some t).
Proof.
  unfold succ_of. destruct (is_branch cur) eqn:Eb.
  - destruct (target_label cur) as [l|]; [|cbn; discriminate]. destruct (assoc tg l) as [t|] eqn:Ea; [|cbn; discriminate].
    cbn. intro H. inversion H; subst. split; [reflexivity|]. intros _. exists l, t. split; [reflexivity|exact Ea].
  - cbn. intro H. inversion H; subst. split; [reflexivity|discriminate].
Qed.
Lemma succ_of_err tg n i cur e : succ_of tg n i cur = Err e ->
  is_branch cur = true /\ ((target_label cur = None /\ e = ENoLabel) \/ (exists l, target_label cur = Some l /\ assoc tg l = None /\ e = EUnknownLabel)).
Proof.
  unfold succ_of. destruct (is_branch cur) eqn:Eb; [|cbn; discriminate].
  destruct (target_label cur) as [l|]; [|cbn; intro H; inversion H; auto].
  destruct (assoc tg l) as [t|] eqn:Ea; cbn; [discriminate|]. intro H; inversion H. split; [reflexivity|]. right. eauto.
Qed.

Lemma cfg_succs_nth tg n : forall is i0 succs, cfg_succs tg n i0 is = OK succs ->
  length succs = length is /\
  forall k cur, List.nth_error is k = Some cur -> exists s, List.nth_error succs k = Some s /\ succ_of tg n (i0 + k) cur = OK s.
Proof.
  induction is as [|c is IH]; intros i0 succs H; cbn [cfg_succs] in H.
  - inversion H; subst. split; [reflexivity|]. intros k cur Hk. destruct k; discriminate.
  - destruct (succ_of tg n i0 c) as [s| |] eqn:Es; cbn [res_bind] in H; try discriminate.
    destruct (cfg_succs tg n (S i0) is) as [rest| |] eqn:Er; cbn [res_bind] in H; try discriminate.
    inversion H; subst. destruct (IH (S i0) rest Er) as [Hl Hn]. split; [cbn; now rewrite Hl|].
    intros k cur Hk. destruct k as [|k]; cbn [List.nth_error] in *.
    + inversion Hk; subst. exists s. rewrite Nat.add_0_r. auto.
    + destruct (Hn k cur Hk) as (s' & H1 & H2). exists s'. replace (i0 + S k)%nat with (S i0 + k)%nat by lia. auto.
Qed.

(* predecessors are exactly the inverse: j is listed as a predecessor of t once for every
   occurrence of t among the successors of j, in instruction order *)
Lemma cfg_preds_inverse succs t :
  List.nth t (cfg_preds succs) [] =
  if Nat.ltb t (length succs) then
    flat_map (fun p => flat_map (fun s => match s with Some j => if Nat.eqb j t then [fst p] else [] | None => [] end) (snd p)) (index_list succs)
  else [].
Proof.
  unfold cfg_preds. set (edges := flat_map _ (index_list succs)).
  destruct (Nat.ltb_spec t (length succs)) as [Hlt|Hge].
  - rewrite (nth_indep _ [] (List.map snd (List.filter (fun e => Nat.eqb (fst e) t) edges))) by (rewrite map_length, seq_length; exact Hlt).
    rewrite (map_nth (fun j => List.map snd (List.filter (fun e => Nat.eqb (fst e) j) edges)) (seq 0 (length succs)) t t)
      || rewrite map_nth with (d := t).
    rewrite seq_nth by exact Hlt. cbn [Nat.add]. subst edges.
    generalize (index_list succs). intro l. induction l as [|p l IH]; [reflexivity|].
    cbn [flat_map]. rewrite List.filter_app, List.map_app, IH. f_equal.
    induction (snd p) as [|s ss IHs]; [reflexivity|]. cbn [flat_map]. destruct s as [j|]; cbn [app]; [|exact IHs].
    cbn [List.filter fst]. destruct (Nat.eqb j t); cbn; now rewrite IHs.
  - rewrite nth_overflow; [reflexivity|]. now rewrite map_length, seq_length.
Qed.

(* ---------------------------------------------------------------- LabelTarget *)
Open Scope list_scope.
Definition pmap (idx : nat) (pending : list string) : list (string * nat) := List.map (fun l => (l, idx)) pending.

Lemma lt_ok : forall ns idx target pending tg,
  label_target_go true ns idx target pending = OK tg -> tg = target ++ pmap idx pending ++ lab_idx ns idx.
Proof.
  induction ns as [|n ns IH]; intros idx target pending tg H; cbn [label_target_go lab_idx] in *.
  - destruct pending; [|discriminate]. inversion H. cbn. now rewrite app_nil_r.
  - destruct n as [l|ls|i].
    + destruct (_ || _); [discriminate|]. apply IH in H. rewrite H. unfold pmap. rewrite List.map_app, <- !app_assoc. reflexivity.
    + now apply IH in H.
    + apply IH in H. rewrite H. cbn [pmap List.map app]. now rewrite <- app_assoc.
Qed.

Lemma assoc_in tg l : (exists t, assoc tg l = Some t) <-> In l (List.map fst tg).
Proof.
  induction tg as [|[k v] tg IH]; cbn [assoc List.map In fst]; [split; [intros [t H]; discriminate|contradiction]|].
  destruct (String.eqb_spec k l) as [->|Hne].
  - split; [auto|]. intros _. eauto.
  - split; [intro H; right; apply IH; exact H|intros [H|H]; [congruence|apply IH; exact H]].
Qed.
Lemma existsb_eqb_in l ls : existsb (String.eqb l) ls = true <-> In l ls.
Proof. rewrite existsb_exists. split; [intros (x & Hx & E); apply String.eqb_eq in E; now subst|intro H; exists l; split; [exact H|apply String.eqb_refl]]. Qed.

Lemma lt_nodup : forall ns idx target pending tg,
  label_target_go true ns idx target pending = OK tg -> NoDup (List.map fst target ++ pending) -> NoDup (List.map fst tg).
Proof.
  induction ns as [|n ns IH]; intros idx target pending tg H Hnd; cbn [label_target_go] in *.
  - destruct pending; [|discriminate]. inversion H; subst. now rewrite app_nil_r in Hnd.
  - destruct n as [l|ls|i].
    + destruct (match assoc target l with Some _ => true | None => false end || (true && existsb (String.eqb l) pending)) eqn:E; [discriminate|].
      apply orb_false_iff in E as [E1 E2]. cbn [andb] in E2.
      apply (IH _ _ _ _ H). rewrite app_assoc. apply NoDup_app. split; [exact Hnd|]. split; [|apply NoDup_singleton].
      intros x Hx Hk. apply elem_of_list_singleton in Hk. subst x. apply elem_of_list_In in Hx. apply in_app_or in Hx as [Hx|Hx].
      * apply assoc_in in Hx as [t Ht]. rewrite Ht in E1. discriminate.
      * apply existsb_eqb_in in Hx. congruence.
    + apply (IH _ _ _ _ H Hnd).
    + apply (IH _ _ _ _ H). rewrite app_nil_r, List.map_app. unfold pmap. rewrite List.map_map. cbn [fst]. now rewrite List.map_id.
Qed.

Lemma lt_bound : forall ns idx target pending tg,
  label_target_go true ns idx target pending = OK tg ->
  forall l t, In (l, t) (pmap idx pending ++ lab_idx ns idx) -> (t < idx + ninstr ns)%nat.
Proof.
  induction ns as [|n ns IH]; intros idx target pending tg H l t Hin; cbn [label_target_go lab_idx] in *.
  - destruct pending; [|discriminate]. destruct Hin.
  - destruct n as [l0|ls|i].
    + destruct (_ || _); [discriminate|]. specialize (IH _ _ _ _ H l t). unfold ninstr in *. change (instructions (NLabel l0 :: ns)) with (instructions ns). apply IH.
      unfold pmap. rewrite List.map_app, <- app_assoc. exact Hin.
    + specialize (IH _ _ _ _ H l t Hin). exact IH.
    + apply in_app_or in Hin as [Hin|Hin].
      * unfold pmap in Hin. apply in_map_iff in Hin as (x & [= _ <-] & _). unfold ninstr. change (instructions (NInstr i :: ns)) with (i :: instructions ns). cbn [length]. lia.
      * specialize (IH _ _ _ _ H l t). cbn [pmap List.map app] in IH. specialize (IH Hin). unfold ninstr in *. change (instructions (NInstr i :: ns)) with (i :: instructions ns). cbn [length]. lia.
Qed.

(* errors of LabelTarget: a duplicate label, or a label with no following instruction *)
Lemma has_dup_spec ls : has_dup ls = false <-> NoDup ls.
Proof.
  induction ls as [|x ls IH]; cbn [has_dup]; [split; [constructor|reflexivity]|].
  rewrite orb_false_iff, IH. split.
  - intros [H1 H2]. constructor; [|exact H2]. intro Hin. apply elem_of_list_In in Hin. apply existsb_eqb_in in Hin. congruence.
  - intro H. inversion H as [|? ? Hni Hnd]; subst. split; [|assumption]. destruct (existsb (String.eqb x) ls) eqn:E; [|reflexivity]. apply existsb_eqb_in in E. exfalso. apply Hni. now apply elem_of_list_In.
Qed.
Lemma lab_idx_labels ns : forall i, List.map fst (lab_idx ns i) = labels_of ns.
Proof. induction ns as [|n ns IH]; intro i; [reflexivity|]. destruct n; cbn [lab_idx labels_of flat_map List.map fst app]; rewrite ?IH; reflexivity. Qed.

Lemma lt_err : forall ns idx target pending e,
  label_target_go true ns idx target pending = Err e ->
  (e = EDupLabel /\ ~ NoDup (List.map fst target ++ pending ++ labels_of ns))
  \/ (e = EEndsWithLabel /\ (pending <> [] /\ ninstr ns = 0%nat \/ label_without_instr ns = true)).
Proof.
  induction ns as [|n ns IH]; intros idx target pending e H; cbn [label_target_go] in *.
  - destruct pending; [discriminate|]. inversion H. right. split; [reflexivity|]. left. split; [discriminate|reflexivity].
  - destruct n as [l|ls|i].
    + destruct (match assoc target l with Some _ => true | None => false end || (true && existsb (String.eqb l) pending)) eqn:E.
      * inversion H. left. split; [reflexivity|]. intro Hnd. cbn [labels_of flat_map app] in Hnd.
        apply orb_true_iff in E as [E|E].
        -- destruct (assoc target l) as [t|] eqn:Ea; [|discriminate].
           assert (Hin : In l (List.map fst target)) by (apply assoc_in; eauto).
           apply NoDup_app in Hnd as (_ & Hd & _). apply (Hd l); [apply elem_of_list_In; exact Hin|]. apply elem_of_list_In. apply in_or_app. right. now left.
        -- cbn [andb] in E. apply existsb_eqb_in in E. apply NoDup_app in Hnd as (_ & _ & Hnd).
           apply NoDup_app in Hnd as (_ & Hd & _). apply (Hd l); [apply elem_of_list_In; exact E|]. apply elem_of_list_In. now left.
      * destruct (IH _ _ _ _ H) as [[-> Hd]|[-> Hd]].
        -- left. split; [reflexivity|]. intro Hnd. apply Hd. cbn [labels_of flat_map app] in Hnd.
           rewrite <- app_assoc. cbn [app]. exact Hnd.
        -- right. split; [reflexivity|]. cbn [label_without_instr]. destruct Hd as [[_ Hz]|Hw].
           ++ right. unfold ninstr in *. cbn [instructions flat_map app] in *. rewrite Hz. reflexivity.
           ++ right. rewrite Hw. apply orb_true_r.
    + destruct (IH _ _ _ _ H) as [[-> Hd]|[-> Hd]]; [left|right]; (split; [reflexivity|]); auto.
    + destruct (IH _ _ _ _ H) as [[-> Hd]|[-> Hd]].
      * left. split; [reflexivity|]. intro Hnd. apply Hd. rewrite List.map_app. unfold pmap. rewrite List.map_map. cbn [fst]. rewrite List.map_id.
        cbn [labels_of flat_map app] in Hnd. cbn [app]. rewrite <- app_assoc. exact Hnd.
      * right. split; [reflexivity|]. destruct Hd as [[Hp _]|Hw]; [congruence|]. right. exact Hw.
Qed.

Lemma label_without_instr_bound ns : forall idx, label_without_instr ns = true <-> exists l t, In (l, t) (lab_idx ns idx) /\ (idx + ninstr ns <= t)%nat.
Proof.
  induction ns as [|n ns IH]; intro idx; cbn [label_without_instr lab_idx]; [split; [discriminate|intros (l & t & [] & _)]|].
  destruct n as [l0|ls|i].
  - rewrite orb_true_iff, (IH idx). unfold ninstr. change (instructions (NLabel l0 :: ns)) with (instructions ns). split.
    + intros [Hz|(l & t & Hin & Hb)].
      * exists l0, idx. split; [now left|]. apply Nat.eqb_eq in Hz. unfold ninstr in Hz. lia.
      * exists l, t. split; [now right|exact Hb].
    + intros (l & t & [[= <- <-]|Hin] & Hb).
      * left. apply Nat.eqb_eq. unfold ninstr. lia.
      * right. eauto.
  - rewrite (IH idx). unfold ninstr. change (instructions (NComment ls :: ns)) with (instructions ns). reflexivity.
  - rewrite (IH (S idx)). unfold ninstr. change (instructions (NInstr i :: ns)) with (i :: instructions ns). cbn [length]. split; intros (l & t & Hin & Hb); exists l, t; (split; [exact Hin|lia]).
Qed.
Lemma lab_idx_ge ns : forall idx l t, In (l, t) (lab_idx ns idx) -> (idx <= t)%nat.
Proof.
  induction ns as [|n ns IH]; intros idx l t Hin; cbn [lab_idx] in Hin; [destruct Hin|]. destruct n.
  - destruct Hin as [[= _ <-]|Hin]; [lia|eauto].
  - eauto.
  - apply IH in Hin. lia.
Qed.

(* LabelTarget succeeds iff no label is duplicated and every label has a following instruction,
   and then binds exactly the labels, each to the first instruction after it *)
Theorem label_target_spec ns :
  match label_target ns with
  | OK tg => tg = lab_idx ns 0 /\ has_duplicate_label ns = false /\ label_without_instr ns = false
  | Err e => has_duplicate_label ns = true \/ label_without_instr ns = true
  | Panic _ => False
  end.
Proof.
  unfold label_target, label_target_with. destruct (label_target_go true ns 0 [] []) as [tg|e|pp] eqn:E.
  - pose proof (lt_ok _ _ _ _ _ E) as Htg. cbn [pmap List.map app] in Htg. split; [exact Htg|]. split.
    + unfold has_duplicate_label. apply has_dup_spec. rewrite <- (lab_idx_labels ns 0), <- Htg.
      apply (lt_nodup _ _ _ _ _ E). constructor.
    + destruct (label_without_instr ns) eqn:Ew; [|reflexivity]. exfalso.
      apply (label_without_instr_bound ns 0) in Ew as (l & t & Hin & Hb).
      pose proof (lt_bound _ _ _ _ _ E l t) as Hlt. cbn [pmap List.map app] in Hlt. specialize (Hlt Hin). lia.
  - destruct (lt_err _ _ _ _ _ E) as [[_ Hd]|[_ Hd]].
    + left. unfold has_duplicate_label. destruct (has_dup (labels_of ns)) eqn:Eh; [reflexivity|]. exfalso. apply Hd. cbn [List.map app]. now apply has_dup_spec.
    + right. destruct Hd as [[Hp _]|Hw]; [congruence|exact Hw].
  - exfalso. clear -E. revert E. generalize 0%nat, (@nil (string * nat)), (@nil string).
    induction ns as [|n ns IH]; intros idx tg pd E; cbn [label_target_go] in E; [destruct pd; discriminate|].
    destruct n; [destruct (_ || _); [discriminate|]|..]; eauto.
Qed.

(* ---------------------------------------------------------------- the model meets the specification *)
Lemma list_eqb_refl {A} (eqb : A -> A -> bool) (Hr : forall x, eqb x x = true) l : list_eqb eqb l l = true.
Proof. induction l as [|x l IH]; cbn; [reflexivity|]. now rewrite Hr, IH. Qed.
Lemma succs_eqb_refl s : succs_eqb s s = true.
Proof.
  apply list_eqb_refl. intro x. apply list_eqb_refl. intros [y|]; cbn; [apply Nat.eqb_refl|reflexivity].
Qed.
Lemma preds_eqb_refl s : preds_eqb s s = true.
Proof. apply list_eqb_refl. intro x. apply list_eqb_refl. apply Nat.eqb_refl. Qed.

Definition spec_succ_tg (tg : list (string * nat)) (n i : nat) (cur : instr) : list (option nat) :=
  (if is_branch cur then match target_label cur with Some l => match assoc tg l with Some t => [Some t] | None => [] end | None => [] end else [])
  ++ (if is_terminal cur then [] else if is_unconditional_branch cur then [] else [if Nat.ltb (S i) n then Some (S i) else None]).

Lemma cfg_succs_map tg n : forall is i0 succs, cfg_succs tg n i0 is = OK succs ->
  succs = List.map (fun p => spec_succ_tg tg n (fst p) (snd p)) (index_list_from i0 is)
  /\ forallb (fun i => negb (is_branch i) || match target_label i with Some l => match assoc tg l with Some _ => true | None => false end | None => false end) is = true.
Proof.
  induction is as [|c is IH]; intros i0 succs H; cbn [cfg_succs index_list_from List.map forallb] in *.
  - inversion H. auto.
  - destruct (succ_of tg n i0 c) as [s| |] eqn:Es; cbn [res_bind] in H; try discriminate.
    destruct (cfg_succs tg n (S i0) is) as [rest| |] eqn:Er; cbn [res_bind] in H; try discriminate.
    inversion H; subst. destruct (IH (S i0) rest Er) as [-> Hb]. apply succ_of_spec in Es as [-> Hbr]. split; [reflexivity|].
    rewrite Hb, andb_true_r. destruct (is_branch c) eqn:Eb; [|reflexivity]. destruct (Hbr eq_refl) as (l & t & -> & ->). reflexivity.
Qed.
Lemma cfg_succs_err tg n : forall is i0 e, cfg_succs tg n i0 is = Err e ->
  existsb (fun i => is_branch i && match target_label i with None => true | Some _ => false end) is
  || existsb (fun i => is_branch i && match target_label i with Some l => match assoc tg l with None => true | Some _ => false end | None => false end) is = true.
Proof.
  induction is as [|c is IH]; intros i0 e H; cbn [cfg_succs existsb] in *; [discriminate|].
  destruct (succ_of tg n i0 c) as [s|e'|] eqn:Es; cbn [res_bind] in H.
  - destruct (cfg_succs tg n (S i0) is) as [rest|e''|] eqn:Er; cbn [res_bind] in H; try discriminate.
    specialize (IH _ _ Er). apply orb_true_iff in IH as [IH|IH]; rewrite IH, ?orb_true_r; reflexivity.
  - apply succ_of_err in Es as [Hb [[Hl _]|(l & Hl & Ha & _)]]; rewrite Hb, Hl, ?Ha; cbn; rewrite ?orb_true_r; reflexivity.
  - discriminate.
Qed.
Lemma cfg_succs_no_panic tg n : forall is i0 pp, cfg_succs tg n i0 is <> Panic pp.
Proof.
  induction is as [|c is IH]; intros i0 pp H; cbn [cfg_succs] in H; [discriminate|].
  unfold succ_of in H. destruct (is_branch c); [destruct (target_label c) as [l|]; [destruct (assoc tg l)|]|]; cbn [res_bind] in H; try discriminate;
    destruct (cfg_succs tg n (S i0) is) eqn:Er; cbn [res_bind] in H; try discriminate; eapply IH; eauto.
Qed.

Theorem cfg_model_meets_spec_lemma ns : forallb opcode_flags_ok (instructions ns) = true -> cfg_spec_b ns (cfg_model ns) = true.
Proof.
  intro Hflags. unfold cfg_spec_b. rewrite Hflags. cbn [andb]. unfold cfg_model, cfg_model_with.
  pose proof (label_target_spec ns) as HL. unfold label_target in HL.
  destruct (label_target_with true ns) as [tg|e|pp]; [|unfold cfg_should_fail; destruct HL as [-> | ->]; rewrite ?orb_true_r; reflexivity|contradiction].
  destruct HL as (-> & Hd & Hw). unfold cfg.
  destruct (cfg_succs (lab_idx ns 0) (length (instructions ns)) 0 (instructions ns)) as [succs|e|pp] eqn:Ec.
  - destruct (cfg_succs_map _ _ _ _ _ Ec) as [-> Hb]. rewrite preds_eqb_refl, andb_true_r.
    apply andb_true_iff. split.
    + unfold cfg_should_fail. rewrite Hd, Hw. cbn [orb]. apply negb_true_iff. apply orb_false_iff. split.
      * unfold branch_nonlabel. apply not_true_is_false. intro Hex. apply existsb_exists in Hex as (i & Hi & Hx).
        rewrite forallb_forall in Hb. specialize (Hb i Hi). destruct (is_branch i); [|discriminate]. destruct (target_label i); [discriminate|]. discriminate.
      * unfold branch_undefined, spec_target. apply not_true_is_false. intro Hex. apply existsb_exists in Hex as (i & Hi & Hx).
        rewrite forallb_forall in Hb. specialize (Hb i Hi). destruct (is_branch i); [|discriminate]. destruct (target_label i) as [l|]; [|discriminate].
        destruct (assoc (lab_idx ns 0) l); discriminate.
    + unfold index_list. replace (List.map (fun p => spec_succs ns (fst p) (snd p)) (index_list_from 0 (instructions ns)))
        with (List.map (fun p => spec_succ_tg (lab_idx ns 0) (length (instructions ns)) (fst p) (snd p)) (index_list_from 0 (instructions ns))); [apply succs_eqb_refl|reflexivity].
  - apply cfg_succs_err in Ec. unfold cfg_should_fail, branch_nonlabel, branch_undefined, spec_target.
    apply orb_true_iff in Ec as [-> | ->]; rewrite ?orb_true_r; reflexivity.
  - exfalso. eapply cfg_succs_no_panic; eauto.
Qed.
