From Avo Require Import Base.Prelude.
From stdpp Require Import gmap.
From Avo Require Import Base.MaskSet Model.IR Model.CFG.
Open Scope N_scope.

(* successors of one instruction, as computed by the CFG pass *)
Lemma succ_of_spec tg n i cur s : succ_of tg n i cur = OK s ->
  s = (if is_branch cur then match target_label cur with Some l => match assoc tg l with Some t => [Some t] | None => [] end | None => [] end else [])
      ++ (if is_terminal cur then [] else if is_unconditional_branch cur then [] else [if Nat.ltb (S i) n then Some (S i) else None])
  /\ (is_branch cur = true -> exists l t, target_label cur = Some l /\ assoc tg l = Some t).
Proof.
  unfold succ_of. destruct (is_branch cur) eqn:Eb.
  - destruct (target_label cur) as [l|]; [|cbn; discriminate]. destruct (assoc tg l) as [t|] eqn:Ea; [|cbn; discriminate].
    cbn. intro H. inversion H; subst. split; [reflexivity|]. intros _. exists l, t. split; [reflexivity|exact Ea].
  - cbn. intro H. inversion H; subst. split; [reflexivity|discriminate].
Qed.
Lemma succ_of_err tg n i cur e : succ_of tg n i cur = Err e ->
  is_branch cur = true /\ ((target_label cur = None /\ e = ENoLabel) \/ (exists l, target_label cur = Some l /\ assoc tg l = None /\ e = EUnknownLabel)).
Proof.
  unfold succ_of. destruct (is_branch cur) eqn:Eb; [|cbn; discriminate].
  destruct (target_label cur) as [l|]; [|cbn; intro H; inversion H; auto].
  destruct (assoc tg l) as [t|] eqn:Ea; cbn; [discriminate|]. intro H; inversion H. split; [reflexivity|]. right. eauto.
Qed.

Lemma cfg_succs_nth tg n : forall is i0 succs, cfg_succs tg n i0 is = OK succs ->
  length succs = length is /\
  forall k cur, List.nth_error is k = Some cur -> exists s, List.nth_error succs k = Some s /\ succ_of tg n (i0 + k) cur = OK s.
Proof.
  induction is as [|c is IH]; intros i0 succs H; cbn [cfg_succs] in H.
  - inversion H; subst. split; [reflexivity|]. intros k cur Hk. destruct k; discriminate.
  - destruct (succ_of tg n i0 c) as [s| |] eqn:Es; cbn [res_bind] in H; try discriminate.
    destruct (cfg_succs tg n (S i0) is) as [rest| |] eqn:Er; cbn [res_bind] in H; try discriminate.
    inversion H; subst. destruct (IH (S i0) rest Er) as [Hl Hn]. split; [cbn; now rewrite Hl|].
    intros k cur Hk. destruct k as [|k]; cbn [List.nth_error] in *.
    + inversion Hk; subst. exists s. rewrite Nat.add_0_r. auto.
    + destruct (Hn k cur Hk) as (s' & H1 & H2). exists s'. replace (i0 + S k)%nat with (S i0 + k)%nat by lia. auto.
Qed.

(* predecessors are exactly the inverse: j is listed as a predecessor of t once for every
   occurrence of t among the successors of j, in instruction order *)
Lemma cfg_preds_inverse succs t :
  List.nth t (cfg_preds succs) [] =
  if Nat.ltb t (length succs) then
    flat_map (fun p => flat_map (fun s => match s with Some j => if Nat.eqb j t then [fst p] else [] | None => [] end) (snd p)) (index_list succs)
  else [].
Proof.
  unfold cfg_preds. set (edges := flat_map _ (index_list succs)).
  destruct (Nat.ltb_spec t (length succs)) as [Hlt|Hge].
  - rewrite (nth_indep _ [] (List.map snd (List.filter (fun e => Nat.eqb (fst e) t) edges))) by (rewrite map_length, seq_length; exact Hlt).
    rewrite (map_nth (fun j => List.map snd (List.filter (fun e => Nat.eqb (fst e) j) edges)) (seq 0 (length succs)) t t)
      || rewrite map_nth with (d := t).
    rewrite seq_nth by exact Hlt. cbn [Nat.add]. subst edges.
    generalize (index_list succs). intro l. induction l as [|p l IH]; [reflexivity|].
    cbn [flat_map]. rewrite List.filter_app, List.map_app, IH. f_equal.
    induction (snd p) as [|s ss IHs]; [reflexivity|]. cbn [flat_map]. destruct s as [j|]; cbn [app]; [|exact IHs].
    cbn [List.filter fst]. destruct (Nat.eqb j t); cbn; now rewrite IHs.
  - rewrite nth_overflow; [reflexivity|]. now rewrite map_length, seq_length.
Qed.
