(* C03/C01: the staged model of pass.Compile as a whole: when it succeeds, no virtual register is left
   in any operand of the final code, and the final instructions are bound instructions of the
   function (in order, minus deleted self-moves). *)
From Avo Require Import Base.Prelude.
From stdpp Require Import gmap.
From Avo Require Import Base.MaskSet Model.IR Model.RegFile Model.CFG Model.Liveness Model.Alloc Model.Cleanup Model.Pipeline
  Proofs.AllocProofs.
Open Scope N_scope.
Open Scope list_scope.

Lemma repl_instrs_in ns : forall is i, In i (instructions (repl_instrs ns is)) -> In i is.
Proof.
  unfold repl_instrs. induction ns as [|n ns IH]; intros is i H; [destruct H|].
  destruct n as [l|c|j]; cbn [instructions flat_map] in *.
  - apply (IH is i). exact H.
  - apply (IH is i). exact H.
  - destruct is as [|i0 is'].
    + exfalso. clear -H IH. specialize (IH [] i). cbn in H. apply IH in H. destruct H.
    + cbn [instructions flat_map app] in H. destruct H as [<-|H]; [now left|]. right. now apply (IH is' i).
Qed.

Lemma dropped_ok_in pred a b : dropped_ok pred a b -> forall n, In n b -> In n a.
Proof.
  induction 1 as [|n a b H IH|i a b Hp H IH]; intros m Hm; [exact Hm| |].
  - destruct Hm as [->|Hm]; [now left|right; now apply IH].
  - right. now apply IH.
Qed.

Lemma in_instructions ns i : In i (instructions ns) <-> In (NInstr i) ns.
Proof.
  unfold instructions. rewrite in_flat_map. split.
  - intros (n & Hn & Hi). destruct n; cbn in Hi; try contradiction. destruct Hi as [<-|[]]. exact Hn.
  - intro H. exists (NInstr i). split; [exact H|now left].
Qed.

Theorem compile_leaves_no_virtual rf f c : compile rf f = OK c ->
  forall i r, In i (instructions (c_nodes c)) -> In r (instr_registers i) -> reg_is_virtual r = false.
Proof.
  unfold compile. intro H.
  destruct (verify_nodes true (fnodes f)) as [u| |]; cbn [res_bind] in H; try discriminate.
  destruct (label_target (prune_labels (prune_jumps (fnodes f)))) as [tg| |]; cbn [res_bind] in H; try discriminate.
  destruct (cfg tg (instructions (prune_labels (prune_jumps (fnodes f))))) as [succs| |]; cbn [res_bind] in H; try discriminate.
  destruct (map_res (zero_extend_instr rf) (instructions (prune_labels (prune_jumps (fnodes f))))) as [is2| |]; cbn [res_bind] in H; try discriminate.
  destruct (mk_prog is2 succs) as [p| |]; cbn [res_bind] in H; try discriminate.
  destruct (liveness (liveness_fuel p) p) as [lvs|]; [|discriminate].
  destruct (allocate_registers rf is2 (List.map lout lvs)) as [al| |]; cbn [res_bind] in H; try discriminate.
  destruct (verify_allocation (List.map (bind_instr rf al) is2)) as [[]| |] eqn:Ev; cbn [res_bind] in H; try discriminate.
  destruct (ensure_bp rf (List.map (bind_instr rf al) is2) (fattrs f) (flocal f)) as [loc| |]; cbn [res_bind] in H; try discriminate.
  destruct (prune_self_moves (repl_instrs (prune_labels (prune_jumps (fnodes f))) (List.map (bind_instr rf al) is2))) as [ns4| |] eqn:Ep; cbn [res_bind] in H; try discriminate.
  inversion H; subst c. cbn [c_nodes]. intros i r Hi Hr.
  apply (verify_allocation_ok _ Ev i r); [|exact Hr].
  apply in_instructions in Hi.
  pose proof (remove_instrs_dropped _ _ _ Ep) as Hd.
  apply (dropped_ok_in _ _ _ Hd) in Hi. apply in_instructions in Hi. eapply repl_instrs_in; eauto.
Qed.
