(* C02: the liveness model computes exactly path liveness. *)
From Avo Require Import Base.Prelude.
From stdpp Require Import gmap.
From Avo Require Import Base.MaskSet Model.IR Model.Liveness.
Open Scope N_scope.

Section L.
Variable p : prog.

Definition Sound (s : st) := forall j id k,
  (mem (nth_in s j) id k = true -> path_live p j id k) /\ (mem (nth_out s j) id k = true -> live_after p j id k).
Definition UseIn (s : st) := forall j i, p !! j = Some i -> forall id k, mem (iuse i) id k = true -> mem (nth_in s j) id k = true.

Lemma fst_update_c s t : fst (ms_update_c s t) = ms_update s t. Proof. reflexivity. Qed.

Lemma init_sound : Sound (init p).
Proof.
  intros j id k. unfold nth_in, nth_out, init. rewrite list_lookup_fmap.
  destruct (p !! j) as [i|] eqn:Hj; simpl.
  - split.
    + rewrite mem_update, mem_empty. simpl. intro H. apply PL_here. unfold use_at. now rewrite Hj.
    + rewrite mem_empty. discriminate.
  - rewrite mem_empty. split; discriminate.
Qed.
Lemma init_usein : UseIn (init p).
Proof.
  intros j i Hj id k Hu. unfold nth_in, init. rewrite list_lookup_fmap, Hj. simpl. rewrite mem_update, Hu. apply orb_true_r.
Qed.
Lemma init_length : length (init p) = length p.
Proof. unfold init. apply fmap_length. Qed.

(* the fold over successors *)
Lemma pull_fst s acc o : fst (pull s acc o) = match o with Some j => ms_update (fst acc) (nth_in s j) | None => fst acc end.
Proof. destruct o as [j|]; [|reflexivity]. unfold pull. destruct (ms_update_c (fst acc) (nth_in s j)) eqn:E. cbn [fst]. unfold ms_update. now rewrite E. Qed.

Lemma foldl_pull_mem s succs : forall acc id k,
  mem (fst (foldl (pull s) acc succs)) id k = mem (fst acc) id k || existsb (fun o => match o with Some j => mem (nth_in s j) id k | None => false end) succs.
Proof.
  induction succs as [|o succs IH]; intros acc id k; cbn [foldl existsb]; [now rewrite orb_false_r|].
  rewrite IH, pull_fst. destruct o as [j|]; [rewrite mem_update|]; cbn; now rewrite ?orb_assoc, ?orb_false_r.
Qed.

Lemma upd1_fst_mem s i l id k :
  let l' := fst (upd1 s i l) in
  mem (lout l') id k = mem (lout l) id k || existsb (fun o => match o with Some j => mem (nth_in s j) id k | None => false end) (isucc i)
  /\ mem (lin l') id k = mem (lin l) id k || (mem (lout l') id k && negb (mem (idef i) id k)).
Proof.
  cbn zeta. unfold upd1. destruct (foldl (pull s) (lout l, false) (isucc i)) as [out' c1] eqn:E1.
  destruct (ms_update_c (lin l) (ms_diff out' (idef i))) as [in' c2] eqn:E2. cbn [fst lin lout].
  assert (Ho : out' = fst (foldl (pull s) (lout l, false) (isucc i))) by now rewrite E1.
  assert (Hi : in' = ms_update (lin l) (ms_diff out' (idef i))) by (unfold ms_update; now rewrite E2).
  split.
  - rewrite Ho, foldl_pull_mem. reflexivity.
  - rewrite Hi, mem_update, mem_diff. reflexivity.
Qed.

Lemma existsb_succ_live s i j id k : Sound s -> p !! j = Some i ->
  existsb (fun o => match o with Some j' => mem (nth_in s j') id k | None => false end) (isucc i) = true -> live_after p j id k.
Proof.
  intros Hs Hj H. apply existsb_exists in H as (o & Ho & Hm). destruct o as [j'|]; [|discriminate].
  exists j'. split; [unfold succ_at; now rewrite Hj|]. now apply (Hs j' id k).
Qed.

Lemma upd1_sound s j i l : Sound s -> p !! j = Some i -> s !! j = Some l -> Sound (<[j := fst (upd1 s i l)]> s).
Proof.
  intros Hs Hj Hl j' id k.
  assert (Hlen : (j < length s)%nat) by (eapply lookup_lt_Some; eauto).
  unfold nth_in, nth_out. destruct (decide (j = j')) as [<-|Hne].
  - rewrite list_lookup_insert by assumption. destruct (upd1_fst_mem s i l id k) as [Hout Hin].
    assert (HO : mem (lout (fst (upd1 s i l))) id k = true -> live_after p j id k).
    { rewrite Hout. intros [H|H]%orb_true_iff.
      - apply (Hs j id k). unfold nth_out. now rewrite Hl.
      - eapply existsb_succ_live; eauto. }
    split; [|exact HO]. rewrite Hin. intros [H|[H1 H2]%andb_true_iff]%orb_true_iff.
    + apply (Hs j id k). unfold nth_in. now rewrite Hl.
    + destruct (HO H1) as (j' & Hsucc & Hpl). eapply PL_step; eauto. unfold def_at. rewrite Hj. now apply negb_true_iff.
  - rewrite list_lookup_insert_ne by assumption. apply (Hs j' id k).
Qed.
Lemma upd1_usein s j i l : UseIn s -> s !! j = Some l -> UseIn (<[j := fst (upd1 s i l)]> s).
Proof.
  intros Hu Hl j' i' Hj' id k Hm. assert (Hlen : (j < length s)%nat) by (eapply lookup_lt_Some; eauto).
  unfold nth_in. destruct (decide (j = j')) as [<-|Hne].
  - rewrite list_lookup_insert by assumption. destruct (upd1_fst_mem s i l id k) as [_ ->].
    specialize (Hu j i' Hj' id k Hm). unfold nth_in in Hu. rewrite Hl in Hu. now rewrite Hu.
  - rewrite list_lookup_insert_ne by assumption. apply (Hu j' i' Hj' id k Hm).
Qed.

Definition Inv (s : st) := Sound s /\ UseIn s /\ length s = length p.

Lemma sweep_inv k : forall sc, Inv (fst sc) -> Inv (fst (sweep p k sc)).
Proof.
  induction k as [|k IH]; intros sc Hs; cbn [sweep]; [assumption|].
  destruct (p !! k) as [i|] eqn:Hi; [|assumption].
  destruct (fst sc !! k) as [l|] eqn:Hl; [|assumption].
  destruct (upd1 (fst sc) i l) as [l' c] eqn:E. apply IH. cbn [fst].
  assert (l' = fst (upd1 (fst sc) i l)) by now rewrite E. subst l'.
  destruct Hs as (H1 & H2 & H3). split; [|split].
  - now apply upd1_sound.
  - now apply upd1_usein.
  - now rewrite insert_length.
Qed.

(* ---- the last sweep changed nothing: the state is closed under the dataflow inclusions *)
Definition ClosedAt (s : st) (j : nat) := forall i l, p !! j = Some i -> s !! j = Some l ->
  (forall j' id k, In (Some j') (isucc i) -> mem (nth_in s j') id k = true -> mem (lout l) id k = true)
  /\ (forall id k, mem (lout l) id k = true -> mem (idef i) id k = false -> mem (lin l) id k = true).

Lemma sub_testbit a b : sub a b -> forall k, N.testbit a k = true -> N.testbit b k = true.
Proof. apply sub_mem. Qed.

Lemma foldl_pull_false s succs : forall acc,
  snd (foldl (pull s) acc succs) = false ->
  snd acc = false /\ fst (foldl (pull s) acc succs) = fst acc
  /\ forall j' id, In (Some j') succs -> sub (get (nth_in s j') id) (get (fst acc) id).
Proof.
  induction succs as [|o succs IH]; intros acc H; cbn [foldl] in *; [repeat split; auto; intros ? ? []|].
  destruct (IH _ H) as (H1 & H2 & H3).
  destruct o as [j|]; cbn [pull] in *.
  - destruct (ms_update_c (fst acc) (nth_in s j)) as [r c] eqn:E. cbn [fst snd] in *.
    apply orb_false_iff in H1 as [Hc Ha]. subst c.
    pose proof (update_c_false (fst acc) (nth_in s j)) as Hu. rewrite E in Hu. cbn [fst snd] in Hu.
    destruct (Hu eq_refl) as [-> Hsub]. repeat split; auto.
    intros j' id [Heq|Hin]; [inversion Heq; subst; apply Hsub|apply (H3 j' id Hin)].
  - repeat split; auto. intros j' id [Heq|Hin]; [discriminate|apply (H3 j' id Hin)].
Qed.

Lemma upd1_false s i l : snd (upd1 s i l) = false ->
  fst (upd1 s i l) = l
  /\ (forall j' id, In (Some j') (isucc i) -> sub (get (nth_in s j') id) (get (lout l) id))
  /\ (forall id, sub (get (ms_diff (lout l) (idef i)) id) (get (lin l) id)).
Proof.
  unfold upd1. destruct (foldl (pull s) (lout l, false) (isucc i)) as [out' c1] eqn:E1.
  destruct (ms_update_c (lin l) (ms_diff out' (idef i))) as [in' c2] eqn:E2. cbn [fst snd].
  intros [-> ->]%orb_false_iff.
  pose proof (foldl_pull_false s (isucc i) (lout l, false)) as Hf. rewrite E1 in Hf. cbn [fst snd] in Hf.
  destruct (Hf eq_refl) as (_ & -> & Hsub).
  pose proof (update_c_false (lin l) (ms_diff (lout l) (idef i))) as Hu. rewrite E2 in Hu. cbn [fst snd] in Hu.
  destruct (Hu eq_refl) as [-> Hsub2]. repeat split; auto. destruct l; reflexivity.
Qed.

Lemma sweep_false k : forall s c, (k <= length p)%nat -> length s = length p ->
  snd (sweep p k (s, c)) = false -> c = false /\ fst (sweep p k (s, c)) = s /\ forall j, (j < k)%nat -> ClosedAt s j.
Proof.
  induction k as [|k IH]; intros s c Hk Hlen H; cbn [sweep] in *; [repeat split; auto; intros; lia|].
  cbn [fst] in *. destruct (lookup_lt_is_Some_2 p k ltac:(lia)) as [i Hi]. destruct (lookup_lt_is_Some_2 s k ltac:(lia)) as [l Hl].
  rewrite Hi, Hl in *. destruct (upd1 s i l) as [l' c'] eqn:E. cbn [fst snd] in *.
  destruct (IH (<[k := l']> s) (c' || c) ltac:(lia) ltac:(now rewrite insert_length) H) as (Hc & Hs & Hcl).
  apply orb_false_iff in Hc as [-> ->].
  pose proof (upd1_false s i l) as Hu. rewrite E in Hu. cbn [fst snd] in Hu. destruct (Hu eq_refl) as (-> & Hs1 & Hs2).
  rewrite (list_insert_id s k l Hl) in *. split; [reflexivity|]. split; [exact Hs|].
  intros j Hj. destruct (decide (j = k)) as [->|Hne]; [|apply Hcl; lia].
  intros i0 l0 Hi0 Hl0. rewrite Hi in Hi0. rewrite Hl in Hl0. inversion Hi0; inversion Hl0; subst. split.
  - intros j' id k0 Hin Hm. unfold mem in *. eapply sub_testbit; [apply (Hs1 j' id Hin)|exact Hm].
  - intros id k0 Hm Hd. unfold mem. eapply sub_testbit; [apply (Hs2 id)|]. rewrite get_diff, N.ldiff_spec. unfold mem in *. now rewrite Hm, Hd.
Qed.

Lemma iter_result fuel : forall s r, Inv s -> iter fuel p s = Some r ->
  Inv r /\ forall j, (j < length p)%nat -> ClosedAt r j.
Proof.
  induction fuel as [|f IH]; intros s r Hs H; cbn [iter] in H; [discriminate|].
  destruct (sweep p (length p) (s, false)) as [s' c] eqn:E.
  assert (Hinv : Inv s') by (pose proof (sweep_inv (length p) (s, false) Hs) as Hi; now rewrite E in Hi).
  destruct c.
  - apply (IH s' r Hinv H).
  - inversion H; subst r. split; [assumption|].
    destruct Hs as (_ & _ & Hlen).
    pose proof (sweep_false (length p) s false (le_n _) Hlen) as Hf. rewrite E in Hf. cbn [fst snd] in Hf.
    destruct (Hf eq_refl) as (_ & -> & Hcl). exact Hcl.
Qed.

(* completeness: a closed state that contains the uses contains every path-live class *)
Lemma closed_complete r : UseIn r -> length r = length p -> (forall j, (j < length p)%nat -> ClosedAt r j) ->
  forall j id k, path_live p j id k -> mem (nth_in r j) id k = true.
Proof.
  intros Hu Hlen Hcl j id k H. induction H as [j id k Huse|j j' id k Hdef Hsucc Hpl IH].
  - unfold use_at in Huse. destruct (p !! j) as [i|] eqn:Hj; [|discriminate]. apply (Hu j i Hj id k Huse).
  - unfold succ_at in Hsucc. destruct (p !! j) as [i|] eqn:Hj; [|contradiction].
    assert (Hlt : (j < length p)%nat) by (eapply lookup_lt_Some; eauto).
    destruct (lookup_lt_is_Some_2 r j ltac:(lia)) as [l Hl].
    destruct (Hcl j Hlt i l Hj Hl) as [H1 H2].
    unfold nth_in. rewrite Hl. apply H2; [eapply H1; eauto|].
    unfold def_at in Hdef. now rewrite Hj in Hdef.
Qed.

Theorem liveness_exact_lemma fuel r : liveness fuel p = Some r ->
  forall j id k,
    (mem (nth_in r j) id k = true <-> path_live p j id k)
    /\ (mem (nth_out r j) id k = true <-> live_after p j id k).
Proof.
  intro H. unfold liveness in H.
  assert (Hi : Inv (init p)) by (split; [apply init_sound|split; [apply init_usein|apply init_length]]).
  destruct (iter_result fuel (init p) r Hi H) as ((Hs & Hu & Hlen) & Hcl).
  intros j id k. split; split.
  - apply (Hs j id k).
  - apply closed_complete; assumption.
  - apply (Hs j id k).
  - intros (j' & Hsucc & Hpl). unfold succ_at in Hsucc. destruct (p !! j) as [i|] eqn:Hj; [|contradiction].
    assert (Hlt : (j < length p)%nat) by (eapply lookup_lt_Some; eauto).
    destruct (lookup_lt_is_Some_2 r j ltac:(lia)) as [l Hl].
    destruct (Hcl j Hlt i l Hj Hl) as [H1 _]. unfold nth_out. rewrite Hl.
    eapply H1; eauto. apply closed_complete; assumption.
Qed.
End L.

(* the dataflow inclusions of the result, as used by the allocation proof *)
Theorem liveness_closed (p : prog) fuel r : liveness fuel p = Some r ->
  length r = length p
  /\ (forall j i, p !! j = Some i -> forall id k, mem (iuse i) id k = true -> mem (nth_in r j) id k = true)
  /\ (forall j i, p !! j = Some i -> forall id k, mem (nth_out r j) id k = true -> mem (idef i) id k = false -> mem (nth_in r j) id k = true)
  /\ (forall j i j', p !! j = Some i -> In (Some j') (isucc i) -> forall id k, mem (nth_in r j') id k = true -> mem (nth_out r j) id k = true).
Proof.
  intro H. unfold liveness in H.
  assert (Hi : Inv p (init p)) by (split; [apply init_sound|split; [apply init_usein|apply init_length]]).
  destruct (iter_result p fuel (init p) r Hi H) as ((Hs & Hu & Hlen) & Hcl).
  split; [exact Hlen|]. split; [exact Hu|]. split.
  - intros j i Hj id k Ho Hd. assert (Hlt : (j < length p)%nat) by (eapply lookup_lt_Some; eauto).
    destruct (lookup_lt_is_Some_2 r j ltac:(lia)) as [l Hl]. destruct (Hcl j Hlt i l Hj Hl) as [_ H2].
    unfold nth_in, nth_out in *. rewrite Hl in *. now apply H2.
  - intros j i j' Hj Hin id k Hm. assert (Hlt : (j < length p)%nat) by (eapply lookup_lt_Some; eauto).
    destruct (lookup_lt_is_Some_2 r j ltac:(lia)) as [l Hl]. destruct (Hcl j Hlt i l Hj Hl) as [H1 _].
    unfold nth_out. rewrite Hl. eapply H1; eauto.
Qed.
