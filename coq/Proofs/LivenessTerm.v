(* C02: the literal model of pass.Liveness terminates within liveness_fuel sweeps, for every
   program: every productive sweep adds a byte class that is read somewhere to one of the 2n sets,
   and the sets never shrink. *)
From Avo Require Import Base.Prelude.
From stdpp Require Import gmap.
From Avo Require Import Base.MaskSet Model.IR Model.Liveness Proofs.LivenessProofs.
Open Scope N_scope.

(* ---- bits *)
Lemma land_ne_bit a m : N.land a m <> m -> exists k, N.testbit m k = true /\ N.testbit a k = false.
Proof.
  intro H. destruct (N.eq_dec (N.ldiff m a) 0) as [E|E].
  - exfalso. apply H. apply N.bits_inj. intro k. rewrite N.land_spec.
    assert (Hk : N.testbit (N.ldiff m a) k = false) by (rewrite E; apply N.bits_0).
    rewrite N.ldiff_spec in Hk. destruct (N.testbit m k), (N.testbit a k); simpl in *; congruence.
  - exists (N.log2 (N.ldiff m a)). pose proof (N.bit_log2 _ E) as Hb. rewrite N.ldiff_spec in Hb.
    apply andb_true_iff in Hb as [H1 H2]. split; [exact H1|]. now apply negb_true_iff.
Qed.

Lemma testbit_lt_size m k : N.testbit m k = true -> k < N.size m.
Proof.
  intro H. destruct (N.eq_dec m 0) as [->|Hm]; [rewrite N.bits_0 in H; discriminate|].
  rewrite N.size_log2 by assumption. apply N.lt_succ_r.
  destruct (N.le_gt_cases k (N.log2 m)) as [Hle|Hgt]; [assumption|].
  rewrite (N.bits_above_log2 m k Hgt) in H. discriminate.
Qed.

Lemma in_bits_of m k : N.testbit m k = true -> In k (bits_of m).
Proof.
  intro H. apply testbit_lt_size in H. unfold bits_of. apply in_map_iff. exists (N.to_nat k).
  split; [apply N2Nat.id|]. apply in_seq. lia.
Qed.

(* ---- the Go `changed` flag: true means some bit was added *)
Lemma update_c_true s t : snd (ms_update_c s t) = true -> exists id k, mem t id k = true /\ mem s id k = false.
Proof.
  unfold ms_update_c.
  enough (H : (forall id, get (fst (map_fold (fun id m acc => let '(r, c) := ms_add_c (fst acc) id m in (r, c || snd acc)) (s, false) t)) id = N.lor (get s id) (get t id))
              /\ (snd (map_fold (fun id m acc => let '(r, c) := ms_add_c (fst acc) id m in (r, c || snd acc)) (s, false) t) = true ->
                  exists id k, mem t id k = true /\ mem s id k = false)) by apply H.
  apply (map_fold_ind (fun (r : MS * bool) t' =>
     (forall id, get (fst r) id = N.lor (get s id) (get t' id))
     /\ (snd r = true -> exists id k, mem t' id k = true /\ mem s id k = false))).
  - split; [|discriminate]. intro id. cbn [fst]. rewrite get_empty. now rewrite N.lor_0_r.
  - intros i x m [r c] Hi [IH1 IH2]. cbn [fst snd] in *.
    assert (Hm : get m i = 0) by (unfold get; now rewrite Hi).
    destruct (ms_add_c r i x) as [r' c'] eqn:E. cbn [fst snd].
    assert (Hr' : r' = ms_add r i x) by (unfold ms_add; now rewrite E). split.
    + intro id. subst r'. rewrite get_add, get_insert, IH1.
      destruct (N.eqb_spec i id) as [->|H]; [|reflexivity]. rewrite Hm, N.lor_0_r. reflexivity.
    + intros [Hc|Hc]%orb_true_iff.
      * subst c'. unfold ms_add_c in E. destruct (N.eqb_spec (N.land (get r i) x) x) as [E'|E']; [inversion E|].
        destruct (land_ne_bit _ _ E') as (k & Hk1 & Hk2). exists i, k.
        rewrite IH1, Hm, N.lor_0_r in Hk2. unfold mem. rewrite get_insert, N.eqb_refl. split; assumption.
      * destruct (IH2 Hc) as (id & k & H1 & H2). exists id, k. split; [|assumption].
        unfold mem in *. rewrite get_insert. destruct (N.eqb_spec i id) as [<-|Hne]; [|assumption].
        rewrite Hm, N.bits_0 in H1. discriminate.
Qed.

(* ---- counting *)
Section Cnt.
Context {A : Type}.
Lemma filter_len_le (f : A -> bool) l : (length (List.filter f l) <= length l)%nat.
Proof. induction l as [|x l IH]; simpl; [lia|]. destruct (f x); simpl; lia. Qed.
Lemma filter_len_mono (f g : A -> bool) l : (forall x, In x l -> f x = true -> g x = true) ->
  (length (List.filter f l) <= length (List.filter g l))%nat.
Proof.
  induction l as [|x l IH]; intro H; simpl; [lia|].
  assert (IH' : (length (List.filter f l) <= length (List.filter g l))%nat) by (apply IH; intros y Hy; apply H; now right).
  destruct (f x) eqn:Ef.
  - rewrite (H x (or_introl eq_refl) Ef). simpl. lia.
  - destruct (g x); simpl; lia.
Qed.
Lemma filter_len_strict (f g : A -> bool) l x : (forall y, In y l -> f y = true -> g y = true) ->
  In x l -> f x = false -> g x = true -> (length (List.filter f l) < length (List.filter g l))%nat.
Proof.
  induction l as [|y l IH]; intros H Hin Hf Hg; [destruct Hin|]. simpl.
  assert (Hl : forall z, In z l -> f z = true -> g z = true) by (intros z Hz; apply H; now right).
  pose proof (filter_len_mono f g l Hl) as Hm.
  destruct Hin as [->|Hin].
  - rewrite Hf, Hg. simpl. lia.
  - specialize (IH Hl Hin Hf Hg). destruct (f y) eqn:Ef.
    + rewrite (H y (or_introl eq_refl) Ef). simpl. lia.
    + destruct (g y); simpl; lia.
Qed.
End Cnt.

Section T.
Variable p : prog.
Notation U := (use_bits p).

Lemma use_in_U j i id k : p !! j = Some i -> mem (iuse i) id k = true -> In (id, k) U.
Proof.
  intros Hj Hm. unfold use_bits. apply in_flat_map. exists i. split.
  - apply elem_of_list_In. eapply elem_of_list_lookup_2; eauto.
  - unfold mem, get in Hm. destruct (iuse i !! id) as [m|] eqn:Hs; cbn in Hm; [|try rewrite N.bits_0 in Hm; discriminate].
    apply in_flat_map. exists (id, m). split.
    + apply elem_of_list_In. now apply elem_of_map_to_list.
    + cbn [fst snd]. apply in_map_iff. exists k. split; [reflexivity|]. now apply in_bits_of.
Qed.
Lemma path_live_in_U j id k : path_live p j id k -> In (id, k) U.
Proof.
  induction 1 as [j id k Hu|]; [|assumption].
  unfold use_at in Hu. destruct (p !! j) as [i|] eqn:Hj; [|discriminate]. eapply use_in_U; eauto.
Qed.

Definition cnt (s : MS) : nat := length (List.filter (fun e : N * N => mem s (fst e) (snd e)) U).
Definition w (l : lv) : nat := (cnt (lin l) + cnt (lout l))%nat.
Fixpoint msum (s : st) : nat := match s with [] => O | l :: r => (w l + msum r)%nat end.

Lemma cnt_le s : (cnt s <= length U)%nat.
Proof. apply filter_len_le. Qed.
Lemma cnt_mono s1 s2 : (forall id k, mem s1 id k = true -> mem s2 id k = true) -> (cnt s1 <= cnt s2)%nat.
Proof. intro H. apply filter_len_mono. intros [id k] _. apply H. Qed.
Lemma cnt_strict s1 s2 id k : (forall id k, mem s1 id k = true -> mem s2 id k = true) ->
  In (id, k) U -> mem s1 id k = false -> mem s2 id k = true -> (cnt s1 < cnt s2)%nat.
Proof.
  intros H Hin H1 H2. unfold cnt.
  apply (filter_len_strict (fun e : N * N => mem s1 (fst e) (snd e)) (fun e : N * N => mem s2 (fst e) (snd e)) U (id, k)); auto.
Qed.

Lemma msum_le s : (msum s <= length s * (2 * length U))%nat.
Proof.
  induction s as [|l s IH]; simpl; [lia|]. unfold w. pose proof (cnt_le (lin l)). pose proof (cnt_le (lout l)). lia.
Qed.
Lemma msum_insert s : forall j l l', s !! j = Some l -> (w l <= w l')%nat ->
  (msum s <= msum (<[j := l']> s))%nat /\ ((w l < w l')%nat -> (msum s < msum (<[j := l']> s))%nat).
Proof.
  induction s as [|x s IH]; intros j l l' Hl Hw; [discriminate|].
  destruct j as [|j]; simpl in *.
  - inversion Hl; subst x. split; lia.
  - destruct (IH j l l' Hl Hw) as [H1 H2]. split; [lia|]. intro H. specialize (H2 H). lia.
Qed.

(* ---- one update: sets grow, and a raised flag means one grew strictly *)
Lemma upd1_mono s i l id k :
  (mem (lout l) id k = true -> mem (lout (fst (upd1 s i l))) id k = true)
  /\ (mem (lin l) id k = true -> mem (lin (fst (upd1 s i l))) id k = true).
Proof.
  destruct (upd1_fst_mem s i l id k) as [Ho Hi]. split; intro H.
  - rewrite Ho, H. reflexivity.
  - rewrite Hi, H. reflexivity.
Qed.

Lemma foldl_pull_true s succs : forall acc,
  snd (foldl (pull s) acc succs) = true ->
  snd acc = true \/ exists id k, mem (fst (foldl (pull s) acc succs)) id k = true /\ mem (fst acc) id k = false.
Proof.
  induction succs as [|o succs IH]; intros acc H; cbn [foldl] in *; [now left|].
  destruct (IH _ H) as [Hc|(id & k & H1 & H2)].
  - destruct o as [j|]; cbn [pull] in Hc; [|now left].
    destruct (ms_update_c (fst acc) (nth_in s j)) as [r c] eqn:E. cbn [snd] in Hc.
    apply orb_true_iff in Hc as [Hc|Hc]; [|now left]. subst c.
    pose proof (update_c_true (fst acc) (nth_in s j)) as Hu. rewrite E in Hu. cbn [snd] in Hu.
    destruct (Hu eq_refl) as (id & k & H1 & H2). right. exists id, k. split; [|assumption].
    pose proof (foldl_pull_mem s (Some j :: succs) acc id k) as Hf. cbn [foldl] in Hf. rewrite Hf.
    cbn [existsb]. rewrite H1. now rewrite orb_true_r.
  - right. exists id, k. split; [assumption|].
    rewrite pull_fst in H2. destruct o as [j|]; [|assumption].
    rewrite mem_update in H2. now apply orb_false_iff in H2 as [? _].
Qed.

Lemma upd1_true s i l : snd (upd1 s i l) = true ->
  exists id k, (mem (lout (fst (upd1 s i l))) id k = true /\ mem (lout l) id k = false)
            \/ (mem (lin (fst (upd1 s i l))) id k = true /\ mem (lin l) id k = false).
Proof.
  unfold upd1. destruct (foldl (pull s) (lout l, false) (isucc i)) as [out' c1] eqn:E1.
  destruct (ms_update_c (lin l) (ms_diff out' (idef i))) as [in' c2] eqn:E2. cbn [fst snd lin lout].
  intros [Hc|Hc]%orb_true_iff.
  - subst c2. pose proof (update_c_true (lin l) (ms_diff out' (idef i))) as Hu. rewrite E2 in Hu. cbn [snd] in Hu.
    destruct (Hu eq_refl) as (id & k & H1 & H2). exists id, k. right. split; [|assumption].
    assert (Hi : in' = ms_update (lin l) (ms_diff out' (idef i))) by (unfold ms_update; now rewrite E2).
    rewrite Hi, mem_update, H1. apply orb_true_r.
  - subst c1. pose proof (foldl_pull_true s (isucc i) (lout l, false)) as Hf. rewrite E1 in Hf. cbn [fst snd] in Hf.
    destruct (Hf eq_refl) as [Hd|(id & k & H1 & H2)]; [discriminate|]. exists id, k. left. split; assumption.
Qed.

Lemma upd1_w s j i l : Sound p s -> p !! j = Some i -> s !! j = Some l ->
  (w l <= w (fst (upd1 s i l)))%nat /\ (snd (upd1 s i l) = true -> (w l < w (fst (upd1 s i l)))%nat).
Proof.
  intros Hs Hj Hl.
  assert (Hmo : forall id k, mem (lout l) id k = true -> mem (lout (fst (upd1 s i l))) id k = true) by (intros id k; apply upd1_mono).
  assert (Hmi : forall id k, mem (lin l) id k = true -> mem (lin (fst (upd1 s i l))) id k = true) by (intros id k; apply upd1_mono).
  pose proof (cnt_mono _ _ Hmo) as Ho. pose proof (cnt_mono _ _ Hmi) as Hi.
  split; [unfold w; lia|]. intro Hc.
  pose proof (upd1_sound p s j i l Hs Hj Hl) as Hs'.
  assert (Hlen : (j < length s)%nat) by (eapply lookup_lt_Some; eauto).
  destruct (upd1_true s i l Hc) as (id & k & [[H1 H2]|[H1 H2]]).
  - assert (Hin : In (id, k) U).
    { destruct (Hs' j id k) as [_ Hout]. unfold nth_out in Hout. rewrite list_lookup_insert in Hout by assumption.
      destruct (Hout H1) as (j' & _ & Hpl). eapply path_live_in_U; eauto. }
    pose proof (cnt_strict _ _ id k Hmo Hin H2 H1). unfold w. lia.
  - assert (Hin : In (id, k) U).
    { destruct (Hs' j id k) as [Hinn _]. unfold nth_in in Hinn. rewrite list_lookup_insert in Hinn by assumption.
      eapply path_live_in_U; eauto. }
    pose proof (cnt_strict _ _ id k Hmi Hin H2 H1). unfold w. lia.
Qed.

(* ---- one sweep *)
Lemma sweep_measure k : forall sc, Inv p (fst sc) ->
  (msum (fst sc) <= msum (fst (sweep p k sc)))%nat
  /\ (snd (sweep p k sc) = true -> snd sc = true \/ (msum (fst sc) < msum (fst (sweep p k sc)))%nat).
Proof.
  induction k as [|k IH]; intros sc Hinv; cbn [sweep]; [split; [lia|now left]|].
  destruct (p !! k) as [i|] eqn:Hi; [|split; [lia|now left]].
  destruct (fst sc !! k) as [l|] eqn:Hl; [|split; [lia|now left]].
  destruct (upd1 (fst sc) i l) as [l' c] eqn:E.
  assert (El : l' = fst (upd1 (fst sc) i l)) by now rewrite E.
  assert (Ec : c = snd (upd1 (fst sc) i l)) by now rewrite E.
  destruct Hinv as (H1 & H2 & H3).
  assert (Hinv' : Inv p (fst (<[k := l']> (fst sc), c || snd sc))).
  { cbn [fst]. subst l'. split; [now apply upd1_sound|split; [now apply upd1_usein|now rewrite insert_length]]. }
  destruct (IH _ Hinv') as [IH1 IH2]. cbn [fst snd] in *.
  destruct (upd1_w (fst sc) k i l H1 Hi Hl) as [Hw1 Hw2]. rewrite <- El, <- Ec in *.
  destruct (msum_insert (fst sc) k l l' Hl Hw1) as [Hm1 Hm2].
  split; [lia|]. intro Hc. destruct (IH2 Hc) as [Hor|Hlt].
  - apply orb_true_iff in Hor as [Hcc|Hsc]; [|now left]. right. specialize (Hm2 (Hw2 Hcc)). lia.
  - right. lia.
Qed.

(* ---- termination *)
Lemma iter_terminates fuel : forall s, Inv p s ->
  (length p * (2 * length U) - msum s < fuel)%nat -> exists r, iter fuel p s = Some r.
Proof.
  induction fuel as [|f IH]; intros s Hinv Hf; [lia|]. cbn [iter].
  destruct (sweep p (length p) (s, false)) as [s' c] eqn:E.
  pose proof (sweep_inv p (length p) (s, false) Hinv) as Hinv'. rewrite E in Hinv'. cbn [fst] in Hinv'.
  pose proof (sweep_measure (length p) (s, false) Hinv) as [Hm1 Hm2]. rewrite E in Hm1, Hm2. cbn [fst snd] in *.
  destruct c; [|eauto].
  destruct (Hm2 eq_refl) as [Hd|Hlt]; [discriminate|].
  apply IH; [assumption|].
  pose proof (msum_le s') as Hb. destruct Hinv' as (_ & _ & Hlen). rewrite Hlen in Hb. lia.
Qed.

Theorem liveness_terminates_lemma : exists r, liveness (liveness_fuel p) p = Some r.
Proof.
  unfold liveness, liveness_fuel. apply iter_terminates.
  - split; [apply init_sound|split; [apply init_usein|apply init_length]].
  - lia.
Qed.
End T.
