(* Exactness of certified live sets: closed (Cert.closed_b) gives "every byte some path still reads is
   reported", ranked support (Cert.supported_b) gives "every byte reported is read on some path". *)
From Avo Require Import Base.Prelude.
From stdpp Require Import gmap.
From Avo Require Import Base.MaskSet Model.IR Model.Liveness Model.Cert Proofs.LivenessTerm Proofs.SimValidator Proofs.SimCert.
Open Scope N_scope.

Lemma in_bits_of_ms s id k : mem s id k = true -> In (id, k) (bits_of_ms s).
Proof.
  intro Hm. destruct (mem_lookup s id k Hm) as (mk & Hl & Hb).
  unfold bits_of_ms. apply in_flat_map. exists (id, mk). split.
  - unfold ms_elements. apply elem_of_list_In, elem_of_map_to_list. exact Hl.
  - cbn [fst snd]. apply in_map_iff. exists k. split; [reflexivity|]. apply filter_In. split; [now apply in_bits_of|exact Hb].
Qed.

Lemma nth_in_some (r : st) j id k : mem (nth_in r j) id k = true -> (j < List.length r)%nat.
Proof.
  unfold nth_in. destruct (r !! j) as [l|] eqn:E; [intros _; apply lookup_lt_Some in E; exact E|].
  rewrite mem_empty. discriminate.
Qed.
Lemma nth_out_some (r : st) j id k : mem (nth_out r j) id k = true -> (j < List.length r)%nat.
Proof.
  unfold nth_out. destruct (r !! j) as [l|] eqn:E; [intros _; apply lookup_lt_Some in E; exact E|].
  rewrite mem_empty. discriminate.
Qed.

Section Exact.
Variables (p : prog) (r : st) (rks : list rank_t).
Hypothesis Hclosed : closed_b p r = true.
Hypothesis Hsupp : supported_b p r rks = true.

Lemma closed_complete_in j id k : path_live p j id k -> mem (nth_in r j) id k = true.
Proof.
  destruct (closed_b_spec p r Hclosed) as (_ & Hu & Hd & Hs).
  induction 1 as [j id k Hu'|j j' id k Hdef Hsucc _ IH].
  - unfold use_at in Hu'. destruct (p !! j) as [i|] eqn:E; [|discriminate]. eapply Hu; eauto.
  - unfold def_at in Hdef. unfold succ_at in Hsucc. destruct (p !! j) as [i|] eqn:E; [|contradiction].
    apply (Hd j i E id k); [|exact Hdef]. apply (Hs j i j' E Hsucc id k IH).
Qed.
Lemma closed_complete_out j id k : live_after p j id k -> mem (nth_out r j) id k = true.
Proof.
  destruct (closed_b_spec p r Hclosed) as (_ & _ & _ & Hs).
  intros (j' & Hsucc & Hpl). unfold succ_at in Hsucc. destruct (p !! j) as [i|] eqn:E; [|contradiction].
  eapply Hs; eauto. now apply closed_complete_in.
Qed.

Lemma supp_at j i : p !! j = Some i -> supported_at r rks j i = true.
Proof.
  intro Hj. unfold supported_b in Hsupp. rewrite forallb_forall in Hsupp.
  exact (Hsupp (j, i) (lookup_index_list p j i Hj)).
Qed.

Lemma len_eq : List.length r = List.length p.
Proof. destruct (closed_b_spec p r Hclosed) as (Hl & _). exact Hl. Qed.

Lemma supported_sound_in : forall (n : nat) j id k rk,
  rank_of (ranks_at rks j) id k = Some rk -> (N.to_nat rk < n)%nat -> mem (nth_in r j) id k = true -> path_live p j id k.
Proof.
  induction n as [|n IH]; intros j id k rk Hrk Hlt Hm; [lia|].
  pose proof (nth_in_some r j id k Hm) as Hlen. rewrite len_eq in Hlen.
  destruct (lookup_lt_is_Some_2 p j Hlen) as [i Hi].
  pose proof (supp_at j i Hi) as Hs. unfold supported_at in Hs. apply andb_true_iff in Hs as [Hs _].
  rewrite forallb_forall in Hs. specialize (Hs (id, k) (in_bits_of_ms _ _ _ Hm)). cbn beta iota in Hs.
  rewrite Hrk in Hs. apply orb_true_iff in Hs as [Hu|Hs].
  - apply PL_here. unfold use_at. rewrite Hi. exact Hu.
  - apply andb_true_iff in Hs as [Hd He]. apply negb_true_iff in Hd.
    apply existsb_exists in He as (o & Hin & Ho). destruct o as [j'|]; [|discriminate].
    apply andb_true_iff in Ho as [Hm' Hr']. destruct (rank_of (ranks_at rks j') id k) as [n'|] eqn:Er'; [|discriminate].
    apply N.ltb_lt in Hr'.
    eapply PL_step with (j' := j').
    + unfold def_at. rewrite Hi. exact Hd.
    + unfold succ_at. rewrite Hi. exact Hin.
    + eapply (IH j' id k n'); eauto. lia.
Qed.

Lemma supported_sound_in' j id k : mem (nth_in r j) id k = true -> path_live p j id k.
Proof.
  intro Hm. pose proof (nth_in_some r j id k Hm) as Hlen. rewrite len_eq in Hlen.
  destruct (lookup_lt_is_Some_2 p j Hlen) as [i Hi].
  pose proof (supp_at j i Hi) as Hs. unfold supported_at in Hs. apply andb_true_iff in Hs as [Hs _].
  rewrite forallb_forall in Hs. specialize (Hs (id, k) (in_bits_of_ms _ _ _ Hm)). cbn beta iota in Hs.
  destruct (rank_of (ranks_at rks j) id k) as [rk|] eqn:Er; [|discriminate].
  eapply (supported_sound_in (S (N.to_nat rk))); eauto.
Qed.

Lemma supported_sound_out j id k : mem (nth_out r j) id k = true -> live_after p j id k.
Proof.
  intro Hm. pose proof (nth_out_some r j id k Hm) as Hlen. rewrite len_eq in Hlen.
  destruct (lookup_lt_is_Some_2 p j Hlen) as [i Hi].
  pose proof (supp_at j i Hi) as Hs. unfold supported_at in Hs. apply andb_true_iff in Hs as [_ Hs].
  rewrite forallb_forall in Hs. specialize (Hs (id, k) (in_bits_of_ms _ _ _ Hm)). cbn beta iota in Hs.
  apply existsb_exists in Hs as (o & Hin & Ho). destruct o as [j'|]; [|discriminate].
  exists j'. split; [unfold succ_at; rewrite Hi; exact Hin|]. now apply supported_sound_in'.
Qed.
End Exact.

Theorem certified_live_sets_are_exact_lemma : forall (p : prog) (r : st) (rks : list rank_t),
  closed_b p r = true -> supported_b p r rks = true ->
  forall j id k, (mem (nth_in r j) id k = true <-> path_live p j id k)
              /\ (mem (nth_out r j) id k = true <-> live_after p j id k).
Proof.
  intros p r rks Hc Hs j id k. split; split.
  - apply (supported_sound_in' p r rks Hc Hs).
  - apply (closed_complete_in p r Hc).
  - apply (supported_sound_out p r rks Hc Hs).
  - apply (closed_complete_out p r Hc).
Qed.

(* the example of Props/C02.v *)
Definition ex_v : MS := ms_add ∅ 65793 15.
Definition ex_loop_prog : prog :=
  [ {| iuse := ∅; idef := ex_v; isucc := [Some 1%nat] |}; {| iuse := ∅; idef := ∅; isucc := [Some 2%nat] |};
    {| iuse := ∅; idef := ∅; isucc := [Some 1%nat; Some 3%nat] |}; {| iuse := ∅; idef := ∅; isucc := [] |} ].
Definition ex_loop_family : st :=
  [ {| lin := ∅; lout := ex_v |}; {| lin := ex_v; lout := ex_v |}; {| lin := ex_v; lout := ex_v |}; {| lin := ∅; lout := ∅ |} ].
Definition ex_empty_family : st :=
  [ {| lin := ∅; lout := ∅ |}; {| lin := ∅; lout := ∅ |}; {| lin := ∅; lout := ∅ |}; {| lin := ∅; lout := ∅ |} ].

Lemma ex_no_path j id k : ~ path_live ex_loop_prog j id k.
Proof.
  intro H. induction H as [j id k Hu|j j' id k _ _ _ IH]; [|exact IH].
  unfold use_at in Hu. destruct j as [|[|[|[|j]]]]; cbn in Hu; try discriminate; rewrite mem_empty in Hu; discriminate.
Qed.

Lemma closed_is_not_exact_lemma :
  closed_b ex_loop_prog ex_loop_family = true /\ (forall rks, supported_b ex_loop_prog ex_loop_family rks = false)
  /\ closed_b ex_loop_prog ex_empty_family = true /\ supported_b ex_loop_prog ex_empty_family [] = true.
Proof.
  assert (Hc : closed_b ex_loop_prog ex_loop_family = true) by (vm_compute; reflexivity).
  split; [exact Hc|]. split; [|split; vm_compute; reflexivity].
  intro rks. destruct (supported_b ex_loop_prog ex_loop_family rks) eqn:E; [|reflexivity]. exfalso.
  destruct (certified_live_sets_are_exact_lemma _ _ rks Hc E 1%nat 65793 0) as [[H _] _].
  apply (ex_no_path 1%nat 65793 0). apply H. vm_compute. reflexivity.
Qed.
