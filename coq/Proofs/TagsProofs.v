From Avo Require Import Base.Prelude Base.Str Model.Tags.
Open Scope string_scope.

Definition nl : ascii := ascii_of_N 10.

Lemma contains_char_append c a b : contains_char c (a ++ b) = contains_char c a || contains_char c b.
Proof. induction a as [|x a IH]; cbn [append contains_char]; [reflexivity|]. rewrite IH. now rewrite orb_assoc. Qed.

Lemma concat_nil_cons x r : concat "" (x :: r) = x ++ concat "" r.
Proof. destruct r as [|y r]; cbn [concat]; [now rewrite append_nil_r|reflexivity]. Qed.

Lemma strip_prefix_append p s : strip_prefix p (p ++ s) = Some s.
Proof. induction p as [|a p IH]; cbn [append strip_prefix]; [destruct s; reflexivity|]. now rewrite Ascii.eqb_refl. Qed.

Lemma append_assoc (a b c : string) : (a ++ b) ++ c = a ++ (b ++ c).
Proof. induction a; cbn; congruence. Qed.

(* split of a sequence of separator-terminated / separator-prefixed pieces *)
Lemma split_terminated c xs : Forall (fun x => contains_char c x = false) xs ->
  split c (concat "" (List.map (fun x => x ++ String c "") xs)) = (xs ++ [""])%list.
Proof.
  induction 1 as [|x xs Hx _ IH]; [reflexivity|].
  cbn [List.map]. rewrite concat_nil_cons, append_assoc. rewrite split_append by assumption.
  cbn [append split]. rewrite Ascii.eqb_refl, IH. cbn [app]. now rewrite append_nil_r.
Qed.
Lemma split_prefixed c xs : Forall (fun x => contains_char c x = false) xs ->
  split c (concat "" (List.map (fun x => String c x) xs)) = ("" :: xs)%list.
Proof.
  induction 1 as [|x xs Hx _ IH]; [reflexivity|].
  cbn [List.map]. rewrite concat_nil_cons. cbn [append split]. rewrite Ascii.eqb_refl. f_equal.
  rewrite split_append by assumption. rewrite IH. now rewrite append_nil_r.
Qed.

Section P.
Variable name_ok : string -> bool.
(* the rune classes accepted in a name exclude the separators of the +build syntax *)
Hypothesis name_ok_no_sep : forall n, name_ok n = true ->
  contains_char ","%char n = false /\ contains_char " "%char n = false /\ contains_char nl n = false.

Lemma valid_term_no_sep t : validate_term name_ok t = true ->
  contains_char ","%char t = false /\ contains_char " "%char t = false /\ contains_char nl t = false /\ t <> "".
Proof.
  unfold validate_term. rewrite !andb_true_iff, !negb_true_iff. intros [[Hdb Hne] Hok].
  destruct (name_ok_no_sep _ Hok) as (H1 & H2 & H3).
  destruct t as [|a t]; [cbn in Hne; discriminate|].
  assert (Hcase : name_of (String a t) = String a t \/ (a = "!"%char /\ name_of (String a t) = t)).
  { cbn [name_of]. destruct a as [[] [] [] [] [] [] [] []]; auto. }
  destruct Hcase as [E|[-> E]]; rewrite E in *.
  - repeat split; auto; discriminate.
  - cbn [contains_char]. rewrite H1, H2, H3. repeat split; try reflexivity; discriminate.
Qed.

Lemma join_no_sep c sep l : Forall (fun x => contains_char c x = false) l -> contains_char c sep = false ->
  contains_char c (join sep l) = false.
Proof.
  intros Hall Hsep. induction Hall as [|x l Hx Hall IH]; [reflexivity|].
  destruct l as [|y l]; [exact Hx|].
  change (join sep (x :: y :: l)) with (x ++ sep ++ join sep (y :: l)).
  rewrite !contains_char_append, Hx, Hsep, IH. reflexivity.
Qed.

Lemma join_nonempty sep x l : x <> "" -> join sep (x :: l) <> "".
Proof. intros Hx. destruct l; cbn [join]; [exact Hx|]. destruct x; [congruence|discriminate]. Qed.

Definition valid_option (o : list string) := o <> []%list /\ Forall (fun t => validate_term name_ok t = true) o.

Lemma option_text_props o : valid_option o ->
  contains_char " "%char (gostring_option o) = false /\ contains_char nl (gostring_option o) = false
  /\ gostring_option o <> "" /\ split ","%char (gostring_option o) = o.
Proof.
  intros [Hne Hall]. unfold gostring_option.
  assert (Hc : Forall (fun t => contains_char ","%char t = false) o /\ Forall (fun t => contains_char " "%char t = false) o
               /\ Forall (fun t => contains_char nl t = false) o /\ Forall (fun t => t <> "") o).
  { repeat split; eapply Forall_impl; try exact Hall; cbn; intros t Ht; apply (valid_term_no_sep t Ht). }
  destruct Hc as (H1 & H2 & H3 & H4). repeat split.
  - apply join_no_sep; [assumption|reflexivity].
  - apply join_no_sep; [assumption|reflexivity].
  - destruct o as [|x o]; [congruence|]. apply join_nonempty. now inversion H4.
  - apply split_join; assumption.
Qed.

Lemma pb_term_valid v t : validate_term name_ok t = true ->
  leaf_eval v (pb_term name_ok t) = eval_term name_ok v t.
Proof.
  intro Hv. unfold eval_term. rewrite Hv. cbn [andb]. unfold pb_term, tool_tag_ok.
  unfold validate_term in Hv. rewrite !andb_true_iff, !negb_true_iff in Hv. destruct Hv as [[Hdb Hne] Hok].
  rewrite Hdb, Hne, Hok. reflexivity.
Qed.

Lemma pb_field_valid v o : valid_option o ->
  forallb (leaf_eval v) (pb_field name_ok (gostring_option o)) = eval_option name_ok v o.
Proof.
  intros Ho. unfold pb_field. destruct (option_text_props o Ho) as (_ & _ & _ & ->). destruct Ho as [_ Hall].
  unfold eval_option. induction Hall as [|t o Ht _ IH]; [reflexivity|]. cbn [List.map forallb]. now rewrite pb_term_valid, IH.
Qed.

Definition valid_constraint (c : list (list string)) := c <> []%list /\ Forall valid_option c.

Lemma filter_nonempty_id (l : list string) : Forall (fun x => x <> "") l ->
  List.filter (fun f => negb (String.eqb f "")) l = l.
Proof.
  induction 1 as [|x l Hx _ IH]; [reflexivity|]. cbn [List.filter].
  destruct (String.eqb_spec x ""); [congruence|]. cbn. now rewrite IH.
Qed.

Lemma constraint_line c : valid_constraint c ->
  pb_line name_ok ("// +build" ++ concat "" (List.map (fun o => " " ++ gostring_option o) c))
  = Some (List.map (fun o => pb_field name_ok (gostring_option o)) c).
Proof.
  intros [Hne Hall]. unfold pb_line. rewrite strip_prefix_append. unfold fields.
  replace (List.map (fun o => " " ++ gostring_option o) c)
     with (List.map (fun x => String " "%char x) (List.map gostring_option c)) by (rewrite List.map_map; reflexivity).
  rewrite split_prefixed.
  2:{ apply Forall_map. eapply Forall_impl; [|exact Hall]. intros o Ho. apply (option_text_props o Ho). }
  cbn [List.filter String.eqb negb]. rewrite filter_nonempty_id.
  2:{ apply Forall_map. eapply Forall_impl; [|exact Hall]. intros o Ho. apply (option_text_props o Ho). }
  destruct c as [|o c]; [congruence|]. cbn [List.map]. now rewrite List.map_map.
Qed.

Lemma constraint_line_no_nl c : valid_constraint c ->
  contains_char nl ("// +build" ++ concat "" (List.map (fun o => " " ++ gostring_option o) c)) = false.
Proof.
  intros [_ Hall]. rewrite contains_char_append. cbn [orb]. change (contains_char nl "// +build") with false. cbn [orb].
  induction Hall as [|o c Ho _ IH]; [reflexivity|]. cbn [List.map]. rewrite concat_nil_cons, !contains_char_append, IH.
  destruct (option_text_props o Ho) as (_ & -> & _). reflexivity.
Qed.

Lemma all_some_map {A B} (f : A -> option B) (g : A -> B) l : Forall (fun x => f x = Some (g x)) l ->
  all_some (List.map f l) = Some (List.map g l).
Proof. induction 1 as [|x l Hx _ IH]; [reflexivity|]. cbn [List.map all_some]. now rewrite Hx, IH. Qed.

Definition valid_constraints (cs : list (list (list string))) := Forall valid_constraint cs.

Lemma validate_reflect cs : validate_constraints name_ok true cs = true -> valid_constraints cs.
Proof.
  unfold validate_constraints, valid_constraints. rewrite forallb_forall, Forall_forall. intros H c Hc.
  specialize (H c Hc). unfold validate_constraint in H. cbn [negb orb] in H. apply andb_true_iff in H as [Hne Hos].
  split; [destruct c; [discriminate|discriminate]|].
  rewrite forallb_forall in Hos. apply Forall_forall. intros o Ho. specialize (Hos o Ho).
  unfold validate_option in Hos. cbn [negb orb] in Hos. apply andb_true_iff in Hos as [Hne' Hts].
  split; [destruct o; [discriminate|discriminate]|]. apply Forall_forall. now rewrite forallb_forall in Hts.
Qed.

Theorem plusbuild_semantics_lemma cs : validate_constraints name_ok true cs = true ->
  exists e, pb_parse name_ok (gostring cs) = Some e /\ forall v, pb_eval v e = eval_constraints name_ok v cs.
Proof.
  intro Hv. apply validate_reflect in Hv.
  set (line := fun c : list (list string) => "// +build" ++ concat "" (List.map (fun o => " " ++ gostring_option o) c)).
  exists (List.map (fun c => List.map (fun o => pb_field name_ok (gostring_option o)) c) cs). split.
  - unfold pb_parse, text_lines, gostring.
    replace (List.map gostring_constraint cs) with (List.map (fun x => x ++ String nl "") (List.map line cs)).
    2:{ rewrite List.map_map. apply List.map_ext. intro c. unfold gostring_constraint, line. now rewrite append_assoc. }
    rewrite split_terminated.
    2:{ apply Forall_map. eapply Forall_impl; [|exact Hv]. intros c Hc. apply constraint_line_no_nl; assumption. }
    rewrite List.rev_app_distr. cbn [List.rev app]. rewrite List.rev_involutive.
    rewrite List.map_map. apply all_some_map. eapply Forall_impl; [|exact Hv]. intros c Hc. apply constraint_line; assumption.
  - intro v. unfold pb_eval, eval_constraints. induction Hv as [|c cs Hc _ IH]; [reflexivity|].
    cbn [List.map forallb]. rewrite IH. f_equal. unfold eval_constraint. destruct Hc as [_ Hos].
    induction Hos as [|o c Ho _ IHo]; [reflexivity|]. cbn [List.map existsb]. now rewrite pb_field_valid, IHo.
Qed.

(* parsing avo's textual form of a constraint gives back the same constraint *)
Theorem parse_print_constraint_lemma c : valid_constraint c ->
  parse_constraint name_ok (join " " (List.map gostring_option c)) = Some c.
Proof.
  intros [Hne Hall]. unfold parse_constraint, fields.
  rewrite split_join.
  2:{ destruct c; [congruence|discriminate]. }
  2:{ apply Forall_map. eapply Forall_impl; [|exact Hall]. intros o Ho. apply (option_text_props o Ho). }
  rewrite filter_nonempty_id.
  2:{ apply Forall_map. eapply Forall_impl; [|exact Hall]. intros o Ho. apply (option_text_props o Ho). }
  rewrite List.map_map. clear Hne. induction Hall as [|o c Ho _ IH]; [reflexivity|].
  cbn [List.map all_some]. unfold parse_option at 1. destruct (option_text_props o Ho) as (_ & _ & _ & ->).
  destruct Ho as [_ Hts]. replace (forallb (validate_term name_ok) o) with true.
  - rewrite IH. reflexivity.
  - symmetry. apply forallb_forall. now rewrite Forall_forall in Hts.
Qed.
End P.
