(* C10: the three clean-up passes preserve what the function computes (Model/NodeSem.v), for every
   instruction semantics in which an unconditional branch to a label only transfers control and an
   architectural no-op move changes nothing.  A generic stutter simulation for "delete nodes that
   only fall through", instantiated three times. *)
From Avo Require Import Base.Prelude.
From Avo Require Import Model.IR Model.Cleanup Model.NodeSem Proofs.AllocProofs Proofs.CleanupProofs.
Open Scope list_scope.

Definition is_suffix (k P : list node) : Prop := exists pre, P = pre ++ k.
Lemma is_suffix_refl P : is_suffix P P. Proof. now exists []. Qed.
Lemma is_suffix_tl n r P : is_suffix (n :: r) P -> is_suffix r P.
Proof. intros [pre ->]. exists (pre ++ [n]). now rewrite <- app_assoc. Qed.
Lemma is_suffix_in n r P : is_suffix (n :: r) P -> In n P.
Proof. intros [pre ->]. apply in_or_app. right. now left. Qed.
Lemma from_label_suffix l : forall P a, from_label l P = Some a -> is_suffix a P.
Proof.
  induction P as [|n r IH]; intros a H; [discriminate|]. cbn [from_label] in H.
  assert (Hr : from_label l r = Some a -> is_suffix a (n :: r)).
  { intro H'. destruct (IH a H') as [pre ->]. now exists (n :: pre). }
  destruct n as [l'| |i]; auto. destruct (String.eqb l' l); auto. injection H as <-. apply is_suffix_refl.
Qed.
Lemma is_suffix_trans a b c : is_suffix a b -> is_suffix b c -> is_suffix a c.
Proof. intros [p ->] [q ->]. exists (q ++ p). now rewrite app_assoc. Qed.

Section Generic.
Variable S : Type.
Variable exec : instr -> S -> S * ctl.
Variables P Q : list node.
Variable sim : list node -> list node -> Prop.
Definition label_ok (l : string) : Prop :=
  match from_label l P, from_label l Q with Some a, Some b => sim a b | None, None => True | _, _ => False end.
Hypothesis sim_nil : forall k', sim [] k' -> k' = [].
Hypothesis sim_cons : forall n r k', sim (n :: r) k' ->
  (exists r', k' = n :: r' /\ sim r r' /\
     (forall i s s' l, n = NInstr i -> exec i s = (s', CGoto l) -> label_ok l))
  \/ (sim r k' /\ forall s, step S exec P (n :: r) s = Running r s).

Lemma run_S R fuel k s : run S exec R (Datatypes.S fuel) k s =
  match step S exec R k s with Running k' s' => run S exec R fuel k' s' | o => o end.
Proof. reflexivity. Qed.

Lemma sim_forward : forall fuel k k' s o, sim k k' -> terminal S o -> run S exec P fuel k s = o ->
  exists fuel', run S exec Q fuel' k' s = o.
Proof.
  induction fuel as [|f IH]; intros k k' s o Hs Ht Hr.
  { cbn [run] in Hr. subst o. destruct Ht. }
  rewrite run_S in Hr. destruct k as [|n r].
  { apply sim_nil in Hs. subst k'. cbn [step] in Hr. subst o. now exists 1%nat. }
  destruct (sim_cons _ _ _ Hs) as [(r' & -> & Hrr & Hl)|[Hrk Hst]].
  - destruct n as [l|c|i].
    + cbn [step] in Hr. destruct (IH _ _ _ _ Hrr Ht Hr) as [f' Hf']. exists (Datatypes.S f'). now rewrite run_S.
    + cbn [step] in Hr. destruct (IH _ _ _ _ Hrr Ht Hr) as [f' Hf']. exists (Datatypes.S f'). now rewrite run_S.
    + cbn [step] in Hr. destruct (exec i s) as [s' c] eqn:Ee. destruct c as [|l|].
      * destruct (IH _ _ _ _ Hrr Ht Hr) as [f' Hf']. exists (Datatypes.S f'). rewrite run_S. cbn [step]. now rewrite Ee.
      * specialize (Hl i s s' l eq_refl Ee). unfold label_ok in Hl.
        destruct (from_label l P) as [a|] eqn:Ea, (from_label l Q) as [b|] eqn:Eb; try contradiction.
        -- destruct (IH _ _ _ _ Hl Ht Hr) as [f' Hf']. exists (Datatypes.S f'). rewrite run_S. cbn [step]. now rewrite Ee, Eb.
        -- subst o. exists 1%nat. cbn [run step]. now rewrite Ee, Eb.
      * subst o. exists 1%nat. cbn [run step]. now rewrite Ee.
  - rewrite Hst in Hr. eapply IH; eauto.
Qed.

Lemma sim_backward : forall fuel' k k' s o, sim k k' -> terminal S o -> run S exec Q fuel' k' s = o ->
  exists fuel, run S exec P fuel k s = o.
Proof.
  induction fuel' as [|f IH]; intros k k' s o Hs Ht Hr.
  { cbn [run] in Hr. subst o. destruct Ht. }
  revert Hs. induction k as [|n r IHk]; intro Hs.
  { apply sim_nil in Hs. subst k'. rewrite run_S in Hr. cbn [step] in Hr. subst o. now exists 1%nat. }
  destruct (sim_cons _ _ _ Hs) as [(r' & -> & Hrr & Hl)|[Hrk Hst]].
  - rewrite run_S in Hr. destruct n as [l|c|i].
    + cbn [step] in Hr. destruct (IH _ _ _ _ Hrr Ht Hr) as [f' Hf']. exists (Datatypes.S f'). now rewrite run_S.
    + cbn [step] in Hr. destruct (IH _ _ _ _ Hrr Ht Hr) as [f' Hf']. exists (Datatypes.S f'). now rewrite run_S.
    + cbn [step] in Hr. destruct (exec i s) as [s' c] eqn:Ee. destruct c as [|l|].
      * destruct (IH _ _ _ _ Hrr Ht Hr) as [f' Hf']. exists (Datatypes.S f'). rewrite run_S. cbn [step]. now rewrite Ee.
      * specialize (Hl i s s' l eq_refl Ee). unfold label_ok in Hl.
        destruct (from_label l P) as [a|] eqn:Ea, (from_label l Q) as [b|] eqn:Eb; try contradiction.
        -- destruct (IH _ _ _ _ Hl Ht Hr) as [f' Hf']. exists (Datatypes.S f'). rewrite run_S. cbn [step]. now rewrite Ee, Ea.
        -- subst o. exists 1%nat. cbn [run step]. now rewrite Ee, Ea.
      * subst o. exists 1%nat. cbn [run step]. now rewrite Ee.
  - destruct (IHk Hrk) as [f' Hf']. exists (Datatypes.S f'). rewrite run_S. now rewrite Hst.
Qed.

Theorem sim_same_behaviour : sim P Q -> same_behaviour S exec P Q.
Proof.
  intros Hs s o. unfold computes. split; intros [Ht [fuel Hr]]; split; auto.
  - eapply sim_forward; eauto.
  - eapply sim_backward; eauto.
Qed.
End Generic.

Lemma same_behaviour_trans S exec A B C : same_behaviour S exec A B -> same_behaviour S exec B C -> same_behaviour S exec A C.
Proof. intros H1 H2 s o. now rewrite (H1 s o). Qed.

(* ---------------------------------------------------------------- labels and references *)
Lemma in_label_refs i l P : In (NInstr i) P -> is_branch i = true -> target_label i = Some l -> In l (label_refs P).
Proof.
  intros Hin Hb Ht. unfold label_refs. apply in_flat_map. exists (NInstr i). split; [exact Hin|]. rewrite Hb, Ht. now left.
Qed.

Lemma from_label_filter (g : node -> bool) l : g (NLabel l) = true -> forall ns,
  from_label l (List.filter g ns) = match from_label l ns with Some a => Some (List.filter g a) | None => None end.
Proof.
  intros Hg. induction ns as [|n r IH]; [reflexivity|].
  destruct n as [l'|c|i].
  - cbn [from_label]. destruct (String.eqb l' l) eqn:E.
    + apply String.eqb_eq in E. subst l'. cbn [List.filter]. rewrite Hg. cbn [from_label]. now rewrite String.eqb_refl.
    + cbn [List.filter]. destruct (g (NLabel l')); [cbn [from_label]; rewrite E|]; exact IH.
  - cbn [from_label List.filter]. destruct (g (NComment c)); [cbn [from_label]|]; exact IH.
  - cbn [from_label List.filter]. destruct (g (NInstr i)); [cbn [from_label]|]; exact IH.
Qed.

Lemma from_label_unique l a : forall pre, NoDup (labels (pre ++ NLabel l :: a)) ->
  from_label l (pre ++ NLabel l :: a) = Some (NLabel l :: a).
Proof.
  induction pre as [|n pre IH]; intro Hnd.
  - cbn [app from_label]. now rewrite String.eqb_refl.
  - cbn [app from_label]. destruct n as [l'|c|i].
    + unfold labels in Hnd. cbn [app flat_map] in Hnd. inversion Hnd as [|x xs Hni Hnd']; subst.
      destruct (String.eqb l' l) eqn:E; [|now apply IH].
      apply String.eqb_eq in E. subst l'. exfalso. apply Hni. apply in_flat_map. exists (NLabel l). split; [|now left].
      apply in_or_app. right. now left.
    + apply IH. exact Hnd.
    + apply IH. exact Hnd.
Qed.

(* ---------------------------------------------------------------- PruneDanglingLabels *)
Section PruneLabels.
Variable S : Type.
Variable exec : instr -> S -> S * ctl.
Hypothesis exec_goto : forall i s s' l, exec i s = (s', CGoto l) -> is_branch i = true /\ target_label i = Some l.
Variable P : list node.
Let keep := fun n => match n with NLabel l => existsb (String.eqb l) (label_refs P) | _ => true end.

Lemma prune_labels_same : same_behaviour S exec P (prune_labels P).
Proof.
  apply sim_same_behaviour with (sim := fun k k' => k' = List.filter keep k /\ is_suffix k P).
  - intros k' [-> _]. reflexivity.
  - intros n r k' [-> Hsuf]. cbn [List.filter]. destruct (keep n) eqn:Ek.
    + left. exists (List.filter keep r). split; [reflexivity|]. split; [split; [reflexivity|eapply is_suffix_tl; eauto]|].
      intros i s s' l -> He. destruct (exec_goto _ _ _ _ He) as [Hb Ht].
      assert (Hkl : keep (NLabel l) = true).
      { cbn. apply existsb_exists. exists l. split; [|apply String.eqb_refl]. eapply in_label_refs; eauto. eapply is_suffix_in; eauto. }
      unfold label_ok. unfold prune_labels. fold keep. rewrite (from_label_filter keep l Hkl P).
      destruct (from_label l P) as [a|] eqn:Ea; [|exact I]. split; [reflexivity|]. eapply from_label_suffix; eauto.
    + right. split; [split; [reflexivity|eapply is_suffix_tl; eauto]|]. intro s. destruct n as [l|c|i]; try discriminate. reflexivity.
  - split; [reflexivity|apply is_suffix_refl].
Qed.
End PruneLabels.

(* ---------------------------------------------------------------- PruneJumpToFollowingLabel *)
Lemma jd_from_label l : forall a b, jumps_dropped a b ->
  match from_label l a, from_label l b with Some x, Some y => jumps_dropped x y | None, None => True | _, _ => False end.
Proof.
  induction 1 as [|n a b H IH|i l0 a b H1 H2 H3 H IH]; [exact I| |].
  - destruct n as [l'|c|i]; cbn [from_label]; try exact IH. destruct (String.eqb l' l); [now constructor|exact IH].
  - cbn [from_label] in *. exact IH.
Qed.

Section PruneJumps.
Variable S : Type.
Variable exec : instr -> S -> S * ctl.
(* an unconditional branch to a label changes nothing but the program counter *)
Hypothesis exec_jmp : forall i l s, is_branch i = true -> is_conditional i = false -> target_label i = Some l -> exec i s = (s, CGoto l).
Variable P : list node.
Hypothesis labels_unique : NoDup (labels P).

Lemma prune_jumps_same : same_behaviour S exec P (prune_jumps P).
Proof.
  apply sim_same_behaviour with (sim := fun k k' => jumps_dropped k k' /\ is_suffix k P).
  - intros k' [H _]. now inversion H.
  - intros n r k' [H Hsuf]. inversion H as [|n0 a b Hab|i l a b H1 H2 H3 Hab]; subst.
    + left. exists b. split; [reflexivity|]. split; [split; [exact Hab|eapply is_suffix_tl; eauto]|].
      intros i s s' l _ _. unfold label_ok. pose proof (jd_from_label l _ _ (prune_jumps_dropped P)) as Hl.
      destruct (from_label l P) as [x|] eqn:Ex, (from_label l (prune_jumps P)) as [y|]; try contradiction; [|exact I].
      split; [exact Hl|eapply from_label_suffix; eauto].
    + right. split; [split; [exact Hab|eapply is_suffix_tl; eauto]|]. intro s. cbn [step]. rewrite (exec_jmp i l s H1 H2 H3).
      destruct Hsuf as [pre Hp]. assert (E : P = (pre ++ [NInstr i]) ++ NLabel l :: a) by (now rewrite <- app_assoc).
      rewrite E. rewrite from_label_unique; [reflexivity|]. rewrite <- E. exact labels_unique.
  - split; [apply prune_jumps_dropped|apply is_suffix_refl].
Qed.
End PruneJumps.

(* ---------------------------------------------------------------- PruneSelfMoves *)
Lemma do_from_label pred l : forall a b, dropped_ok pred a b ->
  match from_label l a, from_label l b with Some x, Some y => dropped_ok pred x y | None, None => True | _, _ => False end.
Proof.
  induction 1 as [|n a b H IH|i a b H1 H IH]; [exact I| |].
  - destruct n as [l'|c|i]; cbn [from_label]; try exact IH. destruct (String.eqb l' l); [now constructor|exact IH].
  - cbn [from_label] in *. exact IH.
Qed.

Section PruneSelfMoves.
Variable S : Type.
Variable exec : instr -> S -> S * ctl.
Variable pred : instr -> res bool.
Hypothesis exec_noop : forall i s, pred i = OK true -> exec i s = (s, CNext).
Variables P out : list node.
Hypothesis Hout : dropped_ok pred P out.

Lemma dropped_same : same_behaviour S exec P out.
Proof.
  apply sim_same_behaviour with (sim := fun k k' => dropped_ok pred k k').
  - intros k' H. now inversion H.
  - intros n r k' H. inversion H as [|n0 a b Hab|i a b H1 Hab]; subst.
    + left. exists b. split; [reflexivity|]. split; [exact Hab|].
      intros i s s' l _ _. unfold label_ok. exact (do_from_label pred l _ _ Hout).
    + right. split; [exact Hab|]. intro s. cbn [step]. now rewrite (exec_noop i s H1).
  - exact Hout.
Qed.
End PruneSelfMoves.

(* sub-lists keep label uniqueness and well-formedness *)
Lemma jumps_dropped_labels_eq a b : jumps_dropped a b -> labels b = labels a.
Proof.
  induction 1 as [|n a b H IH|i l0 a b H1 H2 H3 H IH]; [reflexivity| |].
  - unfold labels in *. cbn [flat_map]. now rewrite IH.
  - unfold labels in *. cbn [flat_map] in *. exact IH.
Qed.
Lemma jumps_dropped_instrs a b : jumps_dropped a b -> forall i, In i (instructions b) -> In i (instructions a).
Proof.
  induction 1 as [|n a b H IH|i0 l0 a b H1 H2 H3 H IH]; intros i Hin; [exact Hin| |].
  - unfold instructions in *. cbn [flat_map] in *. apply in_app_or in Hin as [Hin|Hin]; apply in_or_app; [now left|right; now apply IH].
  - unfold instructions in *. cbn [flat_map] in *. right. now apply IH.
Qed.
Lemma prune_labels_instrs ns : instructions (prune_labels ns) = instructions ns.
Proof.
  unfold prune_labels, instructions. generalize (label_refs ns) as refs. intro refs.
  induction ns as [|n r IH]; [reflexivity|]. cbn [List.filter flat_map].
  destruct n as [l|c|i]; [destruct (existsb (String.eqb l) refs)|..]; cbn [flat_map app]; now rewrite ?IH.
Qed.

(* ---------------------------------------------------------------- the whole clean-up *)
Section Cleanup.
Variable S : Type.
Variable exec : instr -> S -> S * ctl.
Hypothesis exec_goto : forall i s s' l, exec i s = (s', CGoto l) -> is_branch i = true /\ target_label i = Some l.
Hypothesis exec_jmp : forall i l s, is_branch i = true -> is_conditional i = false -> target_label i = Some l -> exec i s = (s, CGoto l).
Hypothesis exec_noop_move : forall i s, move_is_architectural_noop i = true -> exec i s = (s, CNext).

Theorem cleanup_same_behaviour : forall P out,
  NoDup (labels P) -> (forall i, In i (instructions P) -> existsb (String.eqb (opcode i)) self_move_opcodes_fixed = true -> well_formed_move i) ->
  prune_self_moves (prune_labels (prune_jumps P)) = OK out ->
  same_behaviour S exec P out.
Proof.
  intros P out Hnd Hwf Hout.
  eapply same_behaviour_trans; [apply (prune_jumps_same S exec exec_jmp P Hnd)|].
  eapply same_behaviour_trans; [apply (prune_labels_same S exec exec_goto)|].
  set (P2 := prune_labels (prune_jumps P)) in *.
  pose proof (remove_instrs_dropped _ _ _ Hout) as Hd.
  (* restrict the predicate to instructions of the program, where it implies "no-op" *)
  set (pred' := fun i => match self_move_pred self_move_opcodes_fixed true i with
                         | OK true => if move_is_architectural_noop i then OK true else OK false | r => r end).
  assert (Hd' : dropped_ok pred' P2 out).
  { assert (Hin : forall i, In i (instructions P2) -> In i (instructions P)).
    { intros i Hi. unfold P2 in Hi. rewrite prune_labels_instrs in Hi. eapply jumps_dropped_instrs; eauto. apply prune_jumps_dropped. }
    clearbody P2. clear Hout. induction Hd as [|n a b H IH|i a b H1 H IH]; [constructor| |].
    - constructor. apply IH. intros i Hi. apply Hin. unfold instructions in *. cbn [flat_map]. apply in_or_app. now right.
    - apply DO_drop.
      + unfold pred'. rewrite H1. assert (Hi : In i (instructions P)) by (apply Hin; unfold instructions; cbn [flat_map]; now left).
        assert (Hl : existsb (String.eqb (opcode i)) self_move_opcodes_fixed = true).
        { unfold self_move_pred in H1. destruct (existsb (String.eqb (opcode i)) self_move_opcodes_fixed); [reflexivity|discriminate]. }
        now rewrite (self_move_pred_noop i (Hwf i Hi Hl) H1).
      + apply IH. intros j Hj. apply Hin. unfold instructions in *. cbn [flat_map]. now right. }
  apply (dropped_same S exec pred'); [|exact Hd'].
  intros i s Hp. apply exec_noop_move. unfold pred' in Hp.
  destruct (self_move_pred self_move_opcodes_fixed true i) as [[|]| |]; try discriminate.
  destruct (move_is_architectural_noop i); [reflexivity|discriminate].
Qed.
End Cleanup.
