(* C01: the boolean validator evaluated on every allocation the implementation produces, and the
   proof that it establishes the hypotheses of the simulation theorem. *)
From Avo Require Import Base.Prelude Model.Sem Proofs.SimProofs Proofs.SimLink.
From stdpp Require Import gmap.
From Avo Require Import Base.MaskSet Model.IR Model.Liveness Proofs.LivenessProofs.
Open Scope N_scope.

Definition sigma_of (al : list (N * N)) (id : N) : N :=
  match List.find (fun e => fst e =? id) al with Some e => snd e | None => id end.

Definition prog_regs_t := list (list reg * list reg * list (option nat)).
Definition no_clobber_model (al : list (N * N)) (r : st) (pr : prog_regs_t) : bool :=
  forallb (fun jx =>
    forallb (fun d =>
      forallb (fun k => negb (N.testbit (rmask d) k) ||
         forallb (fun e => (fst e =? rid d) || negb (N.testbit (snd e) k) || negb (sigma_of al (fst e) =? sigma_of al (rid d)))
                 (map_to_list (nth_out r (fst jx)))) bits16l)
      (snd (fst (snd jx)))) (index_list pr).
(* liveness of the program (model of pass.Liveness, proved exact) + the no-clobber test *)
Definition allocation_valid (al : list (N * N)) (pr : prog_regs_t) : bool :=
  match liveness (liveness_fuel (p pr)) (p pr) with
  | Some r => no_clobber_model al r pr
  | None => false
  end.

Lemma index_list_from_nth {A} (l : list A) : forall s j x, List.nth_error l j = Some x -> In ((s + j)%nat, x) (index_list_from s l).
Proof.
  induction l as [|a l IH]; intros s j x H; [destruct j; discriminate|]. destruct j as [|j]; cbn in *.
  - inversion H; subst. left. f_equal. lia.
  - right. replace (s + S j)%nat with (S s + j)%nat by lia. now apply IH.
Qed.

Lemma mem_lookup (m : MS) y k : mem m y k = true -> exists mk, m !! y = Some mk /\ N.testbit mk k = true.
Proof.
  unfold mem, get. destruct (m !! y) as [mk|]; cbn [default]; [intro H; exists mk; auto|]. intro H. rewrite N.bits_0 in H. discriminate.
Qed.

Lemma no_clobber_model_spec al r pr : no_clobber_model al r pr = true ->
  forall j x d k, List.nth_error pr j = Some x -> In d (snd (fst x)) -> k < 16 ->
  N.testbit (rmask d) k = true -> forall y, mem (nth_out r j) y k = true -> y <> rid d -> sigma_of al y <> sigma_of al (rid d).
Proof.
  unfold no_clobber_model. rewrite forallb_forall. intros H j x d k Hx Hd Hk Hb y Hy Hne.
  specialize (H (j, x) (index_list_from_nth pr 0 j x Hx)). cbn [fst snd] in H.
  rewrite forallb_forall in H. specialize (H d Hd). rewrite forallb_forall in H. specialize (H k (proj2 (in_bits16 k) Hk)).
  rewrite Hb in H. cbn [negb orb] in H. rewrite forallb_forall in H.
  destruct (mem_lookup _ y k Hy) as (mk & Hl & Hbit).
  specialize (H (y, mk)). cbn [fst snd] in H.
  assert (Hin : In (y, mk) (map_to_list (nth_out r j))) by (apply elem_of_list_In, elem_of_map_to_list; exact Hl).
  specialize (H Hin). rewrite Hbit in H. cbn [negb orb] in H.
  destruct (N.eqb_spec y (rid d)) as [E|E]; [contradiction|]. cbn [orb] in H.
  apply negb_true_iff in H. now apply N.eqb_neq in H.
Qed.

(* the validated allocation preserves the meaning of the program: for every instruction semantics F
   that follows the CFG and supplies a value for each declared output, every number of steps, and
   every pair of initial register files that agree (through the allocation) on the byte classes live
   at the start, the compiled run and the reference run visit the same program points with the same
   memory, and agree on every live byte class *)
Theorem validated_allocation_preserves_semantics :
  forall (val memt : Type) (F : nat -> list val -> memt -> list val * memt * option nat) (pr : prog_regs_t) (al : list (N * N)),
  allocation_valid al pr = true ->
  (forall j i vs m outs m' n, List.nth_error (P pr) j = Some i -> F j vs m = (outs, m', Some n) -> In n (m_succ i)) ->
  (forall j i vs m outs m' npc, List.nth_error (P pr) j = Some i -> F j vs m = (outs, m', npc) -> List.length outs = List.length (m_defs i)) ->
  exists r, liveness (liveness_fuel (p pr)) (p pr) = Some r /\
  forall n j R R' m st1,
    (forall l, LIn r j l -> R l = R' (rename (sigma_of al) l)) ->
    mrun val memt F (P pr) n (j, R, m) = Some st1 ->
    exists j1 R1 R1' m1, st1 = (j1, R1, m1)
      /\ mrun val memt F (List.map (rename_instr (sigma_of al)) (P pr)) n (j, R', m) = Some (j1, R1', m1)
      /\ (forall l, LIn r j1 l -> R1 l = R1' (rename (sigma_of al) l)).
Proof.
  intros val memt F pr al Hv HFs HFl. unfold allocation_valid in Hv.
  destruct (liveness (liveness_fuel (p pr)) (p pr)) as [r|] eqn:El; [|discriminate].
  exists r. split; [reflexivity|]. intros n j R R' m st1 Hrel Hrun.
  eapply (allocation_preserves_semantics val memt F pr (sigma_of al) r (liveness_fuel (p pr)) El); eauto.
  apply no_clobber_model_spec. exact Hv.
Qed.
