From Avo Require Import Base.Prelude Base.Str Model.Data.
Open Scope Z_scope.

Lemma const_size_nonneg c : 0 <= const_size c.
Proof. destruct c; cbn; lia. Qed.

Lemma overlaps_sym a b : overlaps a b = overlaps b a.
Proof. unfold overlaps, interval. cbn. f_equal. apply orb_comm. Qed.

Lemma pairwise_d_snoc f l x : pairwise_d f (l ++ [x]) = pairwise_d f l && forallb (fun y => f y x) l.
Proof.
  induction l as [|y l IH]; cbn [app pairwise_d forallb]; [reflexivity|].
  rewrite forallb_app, IH. cbn [forallb]. rewrite andb_true_r.
  destruct (forallb (f y) l), (f y x), (pairwise_d f l), (forallb (fun y0 => f y0 x) l); reflexivity.
Qed.

(* invariant of a data section: pairwise disjoint, every datum ends at or before Size, Size >= 0 *)
Definition ginv (g : global) : Prop :=
  pairwise_d (fun a b => negb (overlaps a b)) (g_data g) = true
  /\ Forall (fun d => snd (interval d) <= g_size g) (g_data g) /\ 0 <= g_size g.

Lemma ginv_empty : ginv g_empty.
Proof. repeat split; [constructor|cbn; lia]. Qed.

Lemma ginv_add g d : ginv g -> existsb (overlaps d) (g_data g) = false -> ginv (g_add g d).
Proof.
  intros (Hp & Hall & Hs) Hno. unfold g_add. repeat split; cbn [g_data g_size].
  - rewrite pairwise_d_snoc, Hp. rewrite andb_true_l. apply forallb_forall. intros y Hy.
    assert (overlaps d y = false). { destruct (overlaps d y) eqn:E; [|reflexivity].
      assert (existsb (overlaps d) (g_data g) = true) by (apply existsb_exists; eauto). congruence. }
    rewrite overlaps_sym. rewrite H. reflexivity.
  - apply Forall_app. split.
    + eapply Forall_impl; [|exact Hall]. cbn. intros a Ha. lia.
    + constructor; [lia|constructor].
  - lia.
Qed.

Lemma append_no_overlap g c : ginv g -> existsb (overlaps {| d_off := g_size g; d_val := c |}) (g_data g) = false.
Proof.
  intros (_ & Hall & _). destruct (existsb _ _) eqn:E; [|reflexivity].
  apply existsb_exists in E as (y & Hy & Ho). rewrite Forall_forall in Hall. specialize (Hall y Hy).
  unfold overlaps, interval in *. cbn [d_off d_val fst snd] in *. pose proof (const_size_nonneg (d_val y)).
  pose proof (const_size_nonneg c). lia.
Qed.

Lemma ginv_step g o : ginv g -> ginv (fst (g_step g o)).
Proof.
  intro H. destruct o as [off c|c]; cbn [g_step].
  - destruct (existsb _ _) eqn:E; cbn [fst]; [assumption|]. apply ginv_add; assumption.
  - cbn [fst]. apply ginv_add; [assumption|]. apply append_no_overlap; assumption.
Qed.

Lemma g_run_fold ops : forall acc, ginv (fst acc) ->
  ginv (fst (fold_left (fun acc o => let '(g', e) := g_step (fst acc) o in (g', app (snd acc) [e])) ops acc)).
Proof.
  induction ops as [|o r IH]; intros acc H; cbn [fold_left]; [assumption|].
  apply IH. pose proof (ginv_step (fst acc) o H). destruct (g_step (fst acc) o). cbn [fst] in *. assumption.
Qed.

Theorem accepted_disjoint_lemma ops : ginv (fst (g_run ops)).
Proof. unfold g_run. apply g_run_fold. exact ginv_empty. Qed.

(* a rejected placement is exactly an overlapping one, and leaves the section unchanged *)
Lemma g_step_reject g off c :
  snd (g_step g (GAdd off c)) = existsb (overlaps {| d_off := off; d_val := c |}) (g_data g)
  /\ (snd (g_step g (GAdd off c)) = true -> fst (g_step g (GAdd off c)) = g).
Proof. cbn [g_step]. destruct (existsb _ _); cbn; split; auto; discriminate. Qed.

(* Size is the furthest extent *)
Lemma spec_size_snoc ds d : spec_size (ds ++ [d]) = Z.max (spec_size ds) (snd (interval d)).
Proof. unfold spec_size. rewrite fold_left_app. reflexivity. Qed.
Lemma size_step g o : g_size g = spec_size (g_data g) ->
  g_size (fst (g_step g o)) = spec_size (g_data (fst (g_step g o))).
Proof.
  intro H. destruct o as [off c|c]; cbn [g_step].
  - destruct (existsb _ _); cbn [fst]; [assumption|]. unfold g_add. cbn [g_data g_size]. rewrite spec_size_snoc, H. reflexivity.
  - cbn [fst]. unfold g_add. cbn [g_data g_size]. rewrite spec_size_snoc, H. reflexivity.
Qed.
Lemma size_fold ops : forall acc, g_size (fst acc) = spec_size (g_data (fst acc)) ->
  let r := fold_left (fun acc o => let '(g', e) := g_step (fst acc) o in (g', app (snd acc) [e])) ops acc in
  g_size (fst r) = spec_size (g_data (fst r)).
Proof.
  induction ops as [|o r IH]; intros acc H; cbn [fold_left]; [assumption|].
  apply IH. pose proof (size_step (fst acc) o H). destruct (g_step (fst acc) o). cbn [fst] in *. assumption.
Qed.
Theorem size_is_extent_lemma ops : g_size (fst (g_run ops)) = spec_size (g_data (fst (g_run ops))).
Proof. unfold g_run. apply size_fold. reflexivity. Qed.

(* the image: writing pairwise-disjoint data in any order gives, at every address, the byte of
   the unique datum covering it (else 0) *)
Definition covers (d : datum) (a : Z) : bool := (d_off d <=? a) && (a <? d_off d + const_size (d_val d)).
Lemma image_of_snoc ds d a : image_of (ds ++ [d]) a = write_datum d (image_of ds) a.
Proof. unfold image_of. rewrite fold_left_app. reflexivity. Qed.
Lemma covers_overlap a x y : covers x a = true -> covers y a = true -> overlaps x y = true.
Proof. unfold covers, overlaps, interval. cbn. lia. Qed.

Lemma find_snoc_none {A} (f : A -> bool) l x : List.find f l = None -> List.find f (l ++ [x]) = if f x then Some x else None.
Proof. induction l as [|y l IH]; cbn; [intros _; reflexivity|]. destruct (f y); [discriminate|assumption]. Qed.
Lemma find_snoc_some {A} (f : A -> bool) l x y : List.find f l = Some y -> List.find f (l ++ [x]) = Some y.
Proof. induction l as [|z l IH]; cbn; [discriminate|]. destruct (f z); [auto|assumption]. Qed.

Theorem image_exact_lemma ds : pairwise_d (fun a b => negb (overlaps a b)) ds = true ->
  forall a, image_of ds a = spec_byte ds a.
Proof.
  induction ds as [|d ds IH] using rev_ind; intros Hp a; [reflexivity|].
  rewrite pairwise_d_snoc in Hp. apply andb_true_iff in Hp as [Hp Hd].
  rewrite image_of_snoc. unfold write_datum, spec_byte. fold (covers d a).
  change (fun d0 : datum => (d_off d0 <=? a) && (a <? d_off d0 + const_size (d_val d0))) with (fun d0 => covers d0 a).
  destruct (List.find (fun d0 => covers d0 a) ds) as [y|] eqn:Ef.
  - rewrite (find_snoc_some _ _ _ _ Ef).
    destruct (covers d a) eqn:Ec.
    + exfalso. apply find_some in Ef as [Hin Hy]. rewrite forallb_forall in Hd. specialize (Hd y Hin).
      rewrite (covers_overlap a y d Hy Ec) in Hd. discriminate.
    + rewrite IH by assumption. unfold spec_byte.
      change (fun d0 : datum => (d_off d0 <=? a) && (a <? d_off d0 + const_size (d_val d0))) with (fun d0 => covers d0 a). rewrite Ef. reflexivity.
  - rewrite (find_snoc_none _ _ _ Ef). destruct (covers d a) eqn:Ec; [reflexivity|].
    rewrite IH by assumption. unfold spec_byte.
    change (fun d0 : datum => (d_off d0 <=? a) && (a <? d_off d0 + const_size (d_val d0))) with (fun d0 => covers d0 a). rewrite Ef. reflexivity.
Qed.

(* ------------------------------------------------------------ integer text round-trip *)
Open Scope N_scope.
Lemma hex_val_digit d : d < 16 -> hex_val (hex_digit d) = Some d.
Proof.
  intro H. unfold hex_val, hex_digit. destruct (N.ltb_spec d 10).
  - rewrite N_ascii_embedding by lia. replace ((48 <=? 48 + d) && (48 + d <=? 57)) with true by lia. f_equal. lia.
  - rewrite N_ascii_embedding by lia. replace ((48 <=? 87 + d) && (87 + d <=? 57)) with false by lia.
    replace ((97 <=? 87 + d) && (87 + d <=? 102)) with true by lia. f_equal. lia.
Qed.

Lemma parse_hex_fixed w : forall m acc, parse_hex_acc (hex_fixed w m) acc = Some (acc * 16 ^ N.of_nat w + m mod 16 ^ N.of_nat w).
Proof.
  induction w as [|k IH]; intros m acc.
  - cbn [hex_fixed parse_hex_acc]. change (N.of_nat 0) with 0. rewrite N.pow_0_r, N.mod_1_r. f_equal. lia.
  - cbn [hex_fixed parse_hex_acc]. rewrite hex_val_digit by (apply N.mod_lt; lia). rewrite IH. f_equal.
    rewrite Nat2N.inj_succ, N.pow_succ_r'.
    rewrite (N.mul_comm 16 (16 ^ N.of_nat k)). rewrite N.mod_mul_r by (try apply N.pow_nonzero; lia). lia.
Qed.

Open Scope Z_scope.
Theorem int_text_roundtrip_lemma (n : N) (signed : bool) (v : Z) :
  (if signed then True else 0 <= v < 2 ^ (8 * Z.of_N n)) -> (0 < n)%N ->
  exists w, parse_int_text (int_text n signed v) = Some w /\ bytes_eq (Z.of_N n) v w = true.
Proof.
  intros Hr Hn. unfold int_text. destruct signed.
  - exists v. split; [|unfold bytes_eq; apply Z.eqb_refl].
    destruct v as [|p|p]; cbn [dec_of_Z_plus]; cbn [append parse_int_text]; try reflexivity;
    unfold parse_Z; rewrite parse_dec_of_N; reflexivity.
  - exists v. split; [|unfold bytes_eq; apply Z.eqb_refl].
    cbn [append parse_int_text].
    assert (Hne : hex_fixed (2 * N.to_nat n) (Z.to_N v) <> EmptyString).
    { destruct (2 * N.to_nat n)%nat eqn:E; [lia|]. cbn [hex_fixed]. discriminate. }
    destruct (hex_fixed (2 * N.to_nat n) (Z.to_N v)) eqn:E; [congruence|]. rewrite <- E.
    rewrite parse_hex_fixed. cbn [option_map]. f_equal.
    rewrite N.mul_0_l, N.add_0_l.
    assert (H16 : (16 ^ N.of_nat (2 * N.to_nat n))%N = Z.to_N (2 ^ (8 * Z.of_N n))).
    { replace (N.of_nat (2 * N.to_nat n)) with (2 * n)%N by lia. change 16%N with (2 ^ 4)%N.
      rewrite <- N.pow_mul_r. replace (4 * (2 * n))%N with (8 * n)%N by lia.
      rewrite Z2N.inj_pow by lia. f_equal. lia. }
    rewrite H16. rewrite N.mod_small; [lia|]. apply Z2N.inj_lt; lia.
Qed.

(* ------------------------------------------------------------ printing order *)
Lemma datum_le_total a b : datum_le a b = false -> datum_le b a = true.
Proof. unfold datum_le, interval. cbn. lia. Qed.
Lemma le_disj a b : datum_le a b = true -> overlaps a b = false -> snd (interval a) <= d_off b.
Proof.
  unfold datum_le, overlaps, interval. cbn. pose proof (const_size_nonneg (d_val a)). pose proof (const_size_nonneg (d_val b)). lia.
Qed.
Lemma insert_In x l y : In y (insert_datum x l) <-> y = x \/ In y l.
Proof.
  induction l as [|z l IH]; cbn [insert_datum In]; [intuition congruence|].
  destruct (datum_le z x); cbn [In]; [rewrite IH|]; intuition congruence.
Qed.
Lemma insert_mono x : forall l last, asm_monotone last l = true -> last <= d_off x ->
  (forall y, In y l -> overlaps x y = false) -> asm_monotone last (insert_datum x l) = true.
Proof.
  induction l as [|y r IH]; intros last Hm Hl Hd; cbn [insert_datum asm_monotone] in *.
  - rewrite andb_true_r. lia.
  - apply andb_true_iff in Hm as [H1 H2]. destruct (datum_le y x) eqn:E; cbn [asm_monotone].
    + rewrite H1. cbn [andb]. apply IH; [exact H2| |intros z Hz; apply Hd; now right].
      apply le_disj; [exact E|]. rewrite overlaps_sym. apply Hd. now left.
    + apply andb_true_iff. split; [lia|]. apply andb_true_iff. split; [|exact H2].
      pose proof (le_disj x y (datum_le_total _ _ E) (Hd y (or_introl eq_refl))) as Hle. unfold interval in Hle. cbn in Hle. lia.
Qed.
Lemma sort_mono ds : forall acc, asm_monotone 0 acc = true -> (forall x, In x ds -> 0 <= d_off x) ->
  (forall x y, In x ds -> In y acc -> overlaps x y = false) -> pairwise_d (fun a b => negb (overlaps a b)) ds = true ->
  asm_monotone 0 (fold_left (fun acc x => insert_datum x acc) ds acc) = true.
Proof.
  induction ds as [|x ds IH]; intros acc Hm Hoff Hd Hp; cbn [fold_left]; [exact Hm|].
  cbn [pairwise_d] in Hp. apply andb_true_iff in Hp as [Hx Hp]. rewrite forallb_forall in Hx.
  apply IH; [| | |exact Hp].
  - apply insert_mono; [exact Hm|apply Hoff; now left|intros y Hy; apply Hd; [now left|exact Hy]].
  - intros z Hz. apply Hoff. now right.
  - intros z y Hz Hy. apply insert_In in Hy as [->|Hy]; [|apply Hd; [now right|exact Hy]].
    specialize (Hx z Hz). apply negb_true_iff in Hx. now rewrite overlaps_sym.
Qed.
(* the data of any history placed at non-negative offsets, printed in the repaired order, satisfy
   the assembler's monotonicity rule *)
Theorem printed_order_accepted_lemma ops : (forall d, In d (g_data (fst (g_run ops))) -> 0 <= d_off d) ->
  asm_monotone 0 (printed_data true (fst (g_run ops))) = true.
Proof.
  intro Hoff. unfold printed_data, sort_data. apply sort_mono; [reflexivity|exact Hoff|intros x y _ []|].
  apply (accepted_disjoint_lemma ops).
Qed.
