(* C01/C03: BindRegisters realises the renaming of the simulation theorem: the storage (register
   ID, byte class) named by a bound operand is the image, under the allocation, of the storage named
   by the original operand. *)
From Avo Require Import Base.Prelude Model.Sem Proofs.SimLink.
From stdpp Require Import gmap.
From Avo Require Import Base.MaskSet Model.IR Model.RegFile Model.Liveness Model.Alloc Proofs.RegProofs Proofs.AllocProofs Proofs.AllocLoop.
Open Scope N_scope.

(* table facts, evaluated on the translated register file on every run *)
Definition regfile_bind_ok (rf : regfile) : bool :=
  forallb (fun p => (id_kind (p_id p) =? p_family p) && (id_index (p_id p) =? p_idx p)) rf
  && forallb (fun p => forallb (fun q => negb ((p_family p =? p_family q) && (p_idx p =? p_idx q)) || (p_id p =? p_id q)) rf) rf.

Lemma regfile_bind_ok_spec rf : regfile_bind_ok rf = true ->
  (forall p, In p rf -> id_kind (p_id p) = p_family p /\ id_index (p_id p) = p_idx p)
  /\ (forall p q, In p rf -> In q rf -> p_family p = p_family q -> p_idx p = p_idx q -> p_id p = p_id q).
Proof.
  unfold regfile_bind_ok. intro H. apply andb_true_iff in H as [H1 H2]. rewrite forallb_forall in H1, H2. split.
  - intros p Hp. specialize (H1 p Hp). apply andb_true_iff in H1 as [A B]. split; now apply N.eqb_eq.
  - intros p q Hp Hq Hf Hi. specialize (H2 p Hp). rewrite forallb_forall in H2. specialize (H2 q Hq).
    rewrite Hf, Hi, !N.eqb_refl in H2. cbn in H2. now apply N.eqb_eq.
Qed.

(* the entry found for an allocated colour carries that very ID *)
Lemma lookup_id_same_id rf pid mask p q : regfile_bind_ok rf = true ->
  In q rf -> p_id q = pid -> lookup_id rf pid mask = Some p -> p_id p = pid /\ p_mask p = mask.
Proof.
  intros Hrf Hq Hid Hl. destruct (regfile_bind_ok_spec rf Hrf) as [T1 T2].
  unfold lookup_id in Hl. destruct (id_is_virtual pid); [discriminate|]. destruct (family_exists (id_kind pid)); [|discriminate].
  apply family_lookup_spec in Hl as (Hin & Hfam & Hidx & Hm).
  destruct (T1 q Hq) as [K1 K2]. rewrite Hid in K1, K2.
  split; [|exact Hm]. rewrite <- Hid. apply T2; auto; congruence.
Qed.

Section B.
Variables (rf : regfile) (al : AL).
Hypothesis Hrf : regfile_bind_ok rf = true.
(* what AllocCorrect.allocation_obeys_register_file_lemma provides *)
Hypothesis Hal : forall v c, al !! v = Some c -> virt v /\ phys c /\ exists q, In q rf /\ p_id q = c.

Notation s := (lookup_default al).
Definition bound (r : reg) : Prop := reg_is_virtual (lookup_register_default rf al r) = false.

Lemma s_phys r : reg_is_virtual r = false -> s (rid r) = rid r.
Proof.
  intro Hp. unfold lookup_default. destruct (al !! rid r) as [c|] eqn:E; cbn; [|reflexivity].
  destruct (Hal _ _ E) as (Hv & _). unfold virt, reg_is_virtual in *. congruence.
Qed.

Lemma bound_reg r : bound r ->
  rid (lookup_register_default rf al r) = s (rid r) /\ rmask (lookup_register_default rf al r) = rmask r.
Proof.
  unfold bound, lookup_register_default. destruct (reg_is_virtual r) eqn:Hv; cbn [negb].
  - destruct (al !! rid r) as [pid|] eqn:Ea; [|intro H; congruence].
    destruct (lookup_id rf pid (rmask r)) as [p|] eqn:El; [|intro H; congruence]. intros _.
    destruct (Hal _ _ Ea) as (_ & _ & q & Hq & Hid).
    destruct (lookup_id_same_id rf pid (rmask r) p q Hrf Hq Hid El) as [I1 I2]. cbn [reg_of_preg rid rmask].
    unfold lookup_default. rewrite Ea. cbn. auto.
  - intros _. split; [symmetry; now apply s_phys|reflexivity].
Qed.

Lemma locs_of_rename id mask : List.map (rename s) (locs_of id mask) = locs_of (s id) mask.
Proof. unfold locs_of. rewrite List.map_map. reflexivity. Qed.

Lemma bound_locs r : bound r ->
  locs_of (rid (lookup_register_default rf al r)) (rmask (lookup_register_default rf al r)) = List.map (rename s) (locs_of (rid r) (rmask r)).
Proof. intro H. destruct (bound_reg r H) as [-> ->]. now rewrite locs_of_rename. Qed.

Lemma bound_regs_locs rs : Forall bound rs ->
  regs_locs (List.map (lookup_register_default rf al) rs) = List.map (rename s) (regs_locs rs).
Proof.
  unfold regs_locs. induction 1 as [|r rs Hr _ IH]; [reflexivity|]. cbn [List.map flat_map].
  rewrite List.map_app, IH, (bound_locs r Hr). reflexivity.
Qed.

(* outputs of a bound instruction are the bound outputs *)
Lemma output_registers_bind i :
  output_registers (bind_instr rf al i) = List.map (lookup_register_default rf al) (output_registers i).
Proof.
  unfold output_registers, bind_instr. cbn [outputs]. induction (outputs i) as [|o os IH]; [reflexivity|].
  cbn [List.map flat_map]. rewrite IH. destruct o; reflexivity.
Qed.

(* for a program whose every register is bound (VerifyAllocation succeeded), the machine instruction of
   the bound code (same successors) is the renamed machine instruction of the original: the program the
   simulation theorem talks about IS the bound code *)
Theorem bind_is_rename uses defs succs :
  Forall bound uses -> Forall bound defs ->
  to_minstr (List.map (lookup_register_default rf al) uses) (List.map (lookup_register_default rf al) defs) succs
  = rename_instr s (to_minstr uses defs succs).
Proof.
  intros Hu Hd. unfold to_minstr, rename_instr. cbn [m_uses m_defs m_succ].
  now rewrite (bound_regs_locs uses Hu), (bound_regs_locs defs Hd).
Qed.
End B.

From Avo Require Import Proofs.AllocCorrect.
(* with the allocation the model allocator returns *)
Theorem bound_code_is_renamed_lemma rf is liveouts al :
  AllocCorrect.regfile_ok rf = true -> regfile_kinds_ok rf = true -> regfile_bind_ok rf = true ->
  allocate_registers rf is liveouts = OK al ->
  forall uses defs succs, Forall (bound rf al) uses -> Forall (bound rf al) defs ->
  to_minstr (List.map (lookup_register_default rf al) uses) (List.map (lookup_register_default rf al) defs) succs
  = rename_instr (lookup_default al) (to_minstr uses defs succs).
Proof.
  intros H1 H2 H3 Ha uses defs succs Hu Hd.
  destruct (allocation_obeys_register_file_lemma rf is liveouts al H1 H2 Ha) as [Hent _].
  apply bind_is_rename; auto.
  intros v c Hl. destruct (Hent v c Hl) as (Hv & Hp & _ & Hc). split; [exact Hv|]. split; [exact Hp|].
  apply colours_spec in Hc as (p & Hin & _ & Hid & _). eauto.
Qed.
