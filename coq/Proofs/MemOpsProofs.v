(* the step-by-step model of the memory-reference helpers computes the declarative reading *)
From Avo Require Import Base.Prelude.
From Avo Require Import Model.IR Model.MemOps.
Open Scope Z_scope.

Section P.
Variables (sp fp sb : reg).

Lemma chain_mem b i s d y t : forall ops,
  fold_left mem_apply ops (OMem b i s d y t) =
  match last_idx ops None with
  | Some (r, sc) => OMem b (Some r) sc (d + total_offset ops) y t
  | None => OMem b i s (d + total_offset ops) y t
  end.
Proof.
  intro ops. revert i s d. induction ops as [|o ops IH]; intros i s d; cbn [fold_left last_idx total_offset fold_right].
  - now rewrite Z.add_0_r.
  - destruct o as [n|r sc]; cbn [mem_apply].
    + rewrite IH. fold (total_offset ops). destruct (last_idx ops None) as [[r sc]|]; f_equal; lia.
    + rewrite IH. fold (total_offset ops).
      assert (H : forall acc, last_idx ops (Some acc) = match last_idx ops None with Some x => Some x | None => Some acc end).
      { clear. induction ops as [|o ops IH]; intro acc; cbn [last_idx]; [reflexivity|]. destruct o as [n|r s]; [apply IH|]. rewrite (IH (r, s)). destruct (last_idx ops None); reflexivity. }
      rewrite (H (r, sc)). destruct (last_idx ops None) as [[r' sc']|]; reflexivity.
Qed.

Theorem mem_chain_is_spec : forall c ops, mem_chain sp fp sb c ops = mem_spec sp fp sb c ops.
Proof.
  intros c ops. unfold mem_chain, mem_spec. destruct (mem_new sp fp sb c) as [r|b i s d y t|n sg v|tx|rl|l] eqn:E.
  2: apply chain_mem.
  all: induction ops as [|o ops IH]; [reflexivity|exact IH].
Qed.

(* what the helpers must not change *)
Theorem offset_keeps_everything_else : forall b i s d y t n,
  mem_apply (OMem b i s d y t) (MOffset n) = OMem b i s (d + n) y t.
Proof. reflexivity. Qed.
Theorem idx_keeps_displacement : forall b i s d y t r sc,
  mem_apply (OMem b i s d y t) (MIdx r sc) = OMem b (Some r) sc d y t.
Proof. reflexivity. Qed.
End P.
