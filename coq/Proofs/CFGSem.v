(* C09: the successor relation of the CFG covers every control transfer the machine can make
   (Model/NodeSem.v): whichever instruction executes next is a CFG successor of the one that just
   executed, for every instruction semantics that respects the branch/terminal flags. *)
From Avo Require Import Base.Prelude.
From Avo Require Import Model.IR Model.CFG Model.NodeSem Proofs.CleanupSem.
Open Scope list_scope.

Lemma ninstr_app a b : ninstr (a ++ b) = (ninstr a + ninstr b)%nat.
Proof. unfold ninstr, instructions. now rewrite flat_map_app, app_length. Qed.

(* the index of the instruction executed next from continuation k of P: the number of instructions
   before k *)
Definition index_at (P k : list node) : nat := (ninstr P - ninstr k)%nat.
Lemma index_at_pre pre k : index_at (pre ++ k) k = ninstr pre.
Proof. unfold index_at. rewrite ninstr_app. lia. Qed.

Lemma from_label_index l : forall ns i0 k, from_label l ns = Some k ->
  exists pre, ns = pre ++ k /\ assoc (lab_idx ns i0) l = Some (i0 + ninstr pre)%nat.
Proof.
  induction ns as [|n r IH]; intros i0 k H; [discriminate|]. cbn [from_label] in H.
  destruct n as [l'|c|i].
  - cbn [lab_idx assoc]. destruct (String.eqb l' l) eqn:E.
    + injection H as <-. exists []. split; [reflexivity|]. unfold ninstr. cbn. f_equal. lia.
    + destruct (IH i0 k H) as (pre & -> & Ha). exists (NLabel l' :: pre). split; [reflexivity|]. rewrite Ha. reflexivity.
  - cbn [lab_idx]. destruct (IH i0 k H) as (pre & -> & Ha). exists (NComment c :: pre). split; [reflexivity|]. rewrite Ha. reflexivity.
  - cbn [lab_idx]. destruct (IH (Datatypes.S i0) k H) as (pre & -> & Ha). exists (NInstr i :: pre). split; [reflexivity|]. rewrite Ha.
    f_equal. unfold ninstr, instructions. cbn [flat_map app List.length]. lia.
Qed.

Section CFGSem.
Variable S : Type.
Variable exec : instr -> S -> S * ctl.
Hypothesis exec_goto : forall i s s' l, exec i s = (s', CGoto l) -> is_branch i = true /\ target_label i = Some l.
Hypothesis exec_next : forall i s s', exec i s = (s', CNext) -> is_terminal i = false /\ is_unconditional_branch i = false.

(* b is a successor of instruction a: either the edge (a, b) is listed, or b is "past the end" and
   the nil successor is listed *)
Definition covered (P : list node) (a : nat) (i : instr) (b : nat) : Prop :=
  In (Some b) (spec_succs P a i) \/ (b = ninstr P /\ In None (spec_succs P a i)).

Theorem step_is_cfg_edge : forall P i r s k' s', is_suffix (NInstr i :: r) P ->
  step S exec P (NInstr i :: r) s = Running k' s' ->
  covered P (index_at P (NInstr i :: r)) i (index_at P k').
Proof.
  intros P i r s k' s' [pre HP] Hst. cbn [step] in Hst. destruct (exec i s) as [s1 c] eqn:Ee.
  assert (Ha : index_at P (NInstr i :: r) = ninstr pre) by (rewrite HP; apply index_at_pre).
  rewrite Ha. destruct c as [|l|].
  - injection Hst as <- <-. destruct (exec_next _ _ _ Ee) as [Ht Hu].
    assert (Hb : index_at P r = Datatypes.S (ninstr pre)).
    { rewrite HP. replace (pre ++ NInstr i :: r) with ((pre ++ [NInstr i]) ++ r) by (now rewrite <- app_assoc).
      rewrite index_at_pre, ninstr_app. unfold ninstr at 2. cbn. lia. }
    rewrite Hb. unfold covered, spec_succs. rewrite Ht, Hu.
    destruct (Nat.ltb (Datatypes.S (ninstr pre)) (ninstr P)) eqn:El.
    + left. apply in_or_app. right. now left.
    + right. split.
      * apply Nat.ltb_ge in El. rewrite HP in *. rewrite ninstr_app in *. unfold ninstr in El at 2. unfold ninstr at 3.
        unfold instructions in *. cbn [flat_map app List.length] in *. lia.
      * apply in_or_app. right. now left.
  - destruct (from_label l P) as [k|] eqn:Ef; [|discriminate]. injection Hst as <- <-.
    destruct (exec_goto _ _ _ _ Ee) as [Hb Ht].
    destruct (from_label_index l P 0%nat k Ef) as (pre' & HP' & Hassoc).
    assert (Hk : index_at P k = ninstr pre') by (rewrite HP' at 1; apply index_at_pre).
    rewrite Hk. left. unfold spec_succs, spec_target. rewrite Hb, Ht, Hassoc. cbn [Nat.add]. apply in_or_app. left. now left.
  - discriminate.
Qed.
End CFGSem.

(* ... and the successor lists of a successful LabelTarget + CFG run are those lists *)
Lemma option_eqb_nat_spec (x y : option nat) : option_eqb Nat.eqb x y = true <-> x = y.
Proof.
  destruct x as [a|], y as [b|]; cbn; try (split; congruence).
  rewrite Nat.eqb_eq. split; congruence.
Qed.
Lemma nth_error_index_map {A B} (f : nat * A -> B) : forall (l : list A) i0 k x, List.nth_error l k = Some x ->
  List.nth_error (List.map f (index_list_from i0 l)) k = Some (f ((i0 + k)%nat, x)).
Proof.
  induction l as [|y l IH]; intros i0 k x H; [destruct k; discriminate|].
  destruct k as [|k]; cbn [List.nth_error index_list_from List.map] in *.
  - injection H as ->. now rewrite Nat.add_0_r.
  - rewrite (IH (Datatypes.S i0) k x H). do 3 f_equal. lia.
Qed.
Lemma instructions_app a b : instructions (a ++ b) = instructions a ++ instructions b.
Proof. unfold instructions. apply flat_map_app. Qed.

Theorem executed_edge_in_cfg_lemma (S : Type) (exec : instr -> S -> S * ctl) :
  (forall i s s' l, exec i s = (s', CGoto l) -> is_branch i = true /\ target_label i = Some l) ->
  (forall i s s', exec i s = (s', CNext) -> is_terminal i = false /\ is_unconditional_branch i = false) ->
  forall P succs preds, cfg_spec_b P (CfgOK succs preds) = true ->
  forall i r s k' s', is_suffix (NInstr i :: r) P -> step S exec P (NInstr i :: r) s = Running k' s' ->
  exists sl, List.nth_error succs (index_at P (NInstr i :: r)) = Some sl /\
             (In (Some (index_at P k')) sl \/ (index_at P k' = ninstr P /\ In None sl)).
Proof.
  intros Hg Hn P succs preds Hspec i r s k' s' Hsuf Hst.
  pose proof (step_is_cfg_edge S exec Hg Hn P i r s k' s' Hsuf Hst) as Hc.
  exists (spec_succs P (index_at P (NInstr i :: r)) i). split; [|exact Hc].
  unfold cfg_spec_b in Hspec. apply andb_true_iff in Hspec as [_ Hspec]. apply andb_true_iff in Hspec as [Hspec _].
  apply andb_true_iff in Hspec as [_ Hs]. unfold succs_eqb in Hs.
  apply (proj1 (list_eqb_spec _ (list_eqb_spec _ option_eqb_nat_spec) _ _)) in Hs. subst succs.
  destruct Hsuf as [pre HP].
  assert (Hidx : index_at P (NInstr i :: r) = ninstr pre) by (rewrite HP; apply index_at_pre).
  rewrite Hidx. unfold index_list.
  rewrite (nth_error_index_map (fun p => spec_succs P (fst p) (snd p)) (instructions P) 0%nat (ninstr pre) i); [reflexivity|].
  rewrite HP, instructions_app. unfold ninstr. rewrite nth_error_app2 by lia. rewrite Nat.sub_diag. reflexivity.
Qed.
