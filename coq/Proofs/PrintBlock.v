(* C05 / C11: the printer aligns the instructions of a block in columns; the only thing about an
   instruction line that depends on its neighbours is the number of spaces after the opcode.  Whatever the
   column width, the line is the same text up to blanks: opcode with ITS suffixes, then ITS operands. *)
From Avo Require Import Base.Prelude Base.Str.
From Avo Require Import Model.IR Model.RegFile Model.Data Model.Attr Model.AsmSyntax Model.PrintAsm.
Open Scope string_scope.

Fixpoint drop_spaces (s : string) : string :=
  match s with
  | EmptyString => EmptyString
  | String c r => if Ascii.eqb c " "%char then drop_spaces r else String c (drop_spaces r)
  end.
Lemma drop_spaces_app a b : drop_spaces (a ++ b) = drop_spaces a ++ drop_spaces b.
Proof.
  induction a as [|c a IH]; [reflexivity|]. change (String c a ++ b) with (String c (a ++ b)). cbn [drop_spaces].
  destruct (Ascii.eqb c " "%char); [exact IH|]. change (String c (drop_spaces a) ++ drop_spaces b) with (String c (drop_spaces a ++ drop_spaces b)). now rewrite IH.
Qed.
Lemma drop_spaces_pad s : forall w, drop_spaces (pad_right s w) = drop_spaces s.
Proof.
  induction s as [|c s IH]; intro w.
  - induction w as [|k IHk]; [reflexivity|]. cbn [pad_right drop_spaces]. rewrite Ascii.eqb_refl. exact IHk.
  - destruct w as [|k]; [reflexivity|]. cbn [pad_right drop_spaces]. destruct (Ascii.eqb c " "%char); [apply IH|]. now rewrite IH.
Qed.

Theorem instruction_line_independent_of_block : forall names rf w w' i,
  drop_spaces (render_line names rf (LInstr w i)) = drop_spaces (render_line names rf (LInstr w' i)).
Proof.
  intros names rf w w' i. cbn [render_line]. destruct (operands i) as [|o ops]; [reflexivity|].
  rewrite !drop_spaces_app, !drop_spaces_pad. reflexivity.
Qed.

(* and the flushed block is its instructions, each with its own opcode, suffixes and operands *)
Theorem flushed_block_lines : forall pending,
  List.map (fun l => match l with LInstr _ i => Some i | _ => None end) (flush pending) = List.map Some pending.
Proof. intro p. unfold flush. generalize (block_width p). intro w. induction p as [|i p IH]; [reflexivity|]. cbn [List.map]. now rewrite IH. Qed.
