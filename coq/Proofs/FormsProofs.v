From Avo Require Import Base.Prelude Base.Str.
From stdpp Require Import gmap.
From Avo Require Import Base.MaskSet Model.IR Model.RegFile Model.Forms Model.Ctors.
Open Scope N_scope.

(* build accepts exactly when some form of the list matches, and then returns the instruction of
   the first matching form: its opcode, the given suffixes, the operands in the given order *)
Lemma build_spec rf ss fs sfx ops :
  match build rf ss fs sfx ops with
  | Some i => exists f, In f fs /\ form_match rf ss f sfx ops = true /\ i = form_build f sfx ops
              /\ opcode i = f_opcode f /\ suffixes i = sfx /\ operands i = ops
  | None => forall f, In f fs -> form_match rf ss f sfx ops = false
  end.
Proof.
  unfold build. destruct (List.find (fun f => form_match rf ss f sfx ops) fs) as [f|] eqn:E; cbn [option_map].
  - apply List.find_some in E as [Hin Hm]. exists f. repeat split; try assumption.
    all: unfold form_build; destruct (io_of (f_operands f) ops); reflexivity.
  - intros f Hin. eapply List.find_none in E; eauto.
Qed.

(* model of Context.addinstruction: append on success, record an error otherwise *)
Definition add_instruction (nodes : list instr) (errs : nat) (r : option instr) : list instr * nat :=
  match r with Some i => (List.app nodes [i], errs) | None => (nodes, S errs) end.
Lemma rejected_adds_nothing_lemma nodes errs : add_instruction nodes errs None = (nodes, S errs).
Proof. reflexivity. Qed.

Lemma subset_b_spec a b : subset_b a b = true -> forall x, In x a -> In x b.
Proof.
  unfold subset_b. rewrite forallb_forall. intros H x Hx. specialize (H x Hx).
  apply existsb_exists in H as (y & Hy & E). apply list_eqb_spec in E; [subst; assumption|].
  intros s t. split; [apply String.eqb_eq|intros ->; apply String.eqb_refl].
Qed.

(* a constructor row that passes ctor_ok documents exactly the accepted forms *)
Lemma ctor_docs_exact ss tab r : ctor_ok ss tab r = true ->
  let '(name, opc, opcode, sfx, l1, l2, l3) := r in
  let '(params, callee, args, docs) := l1 in
  forall tys, In tys (List.map (fun d => List.tl d) docs) <->
              In tys (List.map explicit_types (accepted_forms ss (forms_of tab opc) sfx)).
Proof.
  destruct r as [[[[[[name opc] opcode] sfx] [[[params callee] args] docs]] l2] l3]. cbn [ctor_ok].
  rewrite !andb_true_iff. intros [[[[[[[_ _] _] _] _] Hd] _] _].
  unfold docs_exact in Hd. rewrite !andb_true_iff in Hd. destruct Hd as [[_ [H1 H2]] _].
  intro tys. split; [apply (subset_b_spec _ _ H1)|apply (subset_b_spec _ _ H2)].
Qed.
