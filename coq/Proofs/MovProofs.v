From Avo Require Import Base.Prelude Base.Str.
Open Scope N_scope.

Lemma idx_from_complete {A} (f : A -> bool) (l : list A) : forall (s n : nat) (x : A),
  List.nth_error l n = Some x -> f x = true ->
  In (N.of_nat (s + n)) (List.map (fun p => N.of_nat (fst p)) (List.filter (fun p => f (snd p)) (index_list_from s l))).
Proof.
  induction l as [|y l IH]; intros s n x Hn Hf; [destruct n; discriminate|].
  destruct n as [|n]; cbn [List.nth_error] in Hn.
  - inversion Hn; subst. cbn [index_list_from List.filter snd]. rewrite Hf. cbn [List.map fst]. left. f_equal. lia.
  - cbn [index_list_from List.filter snd]. specialize (IH (S s) n x Hn Hf).
    replace (s + S n)%nat with (S s + n)%nat by lia.
    destruct (f y); [right|]; exact IH.
Qed.
Lemma idx_where_complete {A} (f : A -> bool) (l : list A) (n : nat) (x : A) :
  List.nth_error l n = Some x -> f x = true -> In (N.of_nat n) (idx_where f l).
Proof. intros Hn Hf. unfold idx_where, index_list. exact (idx_from_complete f l 0 n x Hn Hf). Qed.

