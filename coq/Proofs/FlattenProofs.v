(* C07: every frame-pointer-relative component that a chain of component steps reaches is an entry
   (name, offset, size) of the asmdecl flattening of the argument it starts from. *)
From Avo Require Import Base.Prelude Base.Str Model.Layout Proofs.LayoutProofs.
Open Scope string_scope.
Open Scope Z_scope.

Lemma find_field_in_name fs offs n o ft : find_field fs offs n = Some (o, ft) -> In ((n, ft), o) (List.combine fs offs).
Proof.
  revert offs. induction fs as [|[fn f] r IH]; intros offs H; cbn [find_field] in H; [discriminate|].
  destruct offs as [|o' os]; [discriminate|]. destruct (String.eqb_spec fn n) as [->|Hne].
  - inversion H; subst. left. reflexivity.
  - right. now apply IH.
Qed.

(* more fuel only adds entries *)
Lemma flatten_fuel_mono f : forall n o t x, In x (flatten_fuel f n o t) -> In x (flatten_fuel (S f) n o t).
Proof.
  induction f as [|f IH]; intros n o t x H.
  - cbn [flatten_fuel] in H. destruct H as [<-|[]]. left. reflexivity.
  - change (flatten_fuel (S f) n o t) with ((n, o, sizeof t) :: match under t with
      | TBasic KString => [(n ++ "_base", o, 8); (n ++ "_len", o + 8, 8)]
      | TBasic KComplex128 => [(n ++ "_real", o, 8); (n ++ "_imag", o + 8, 8)]
      | TBasic KComplex64 => [(n ++ "_real", o, 4); (n ++ "_imag", o + 4, 4)]
      | TSlice _ => [(n ++ "_base", o, 8); (n ++ "_len", o + 8, 8); (n ++ "_cap", o + 16, 8)]
      | TArr k e => flat_map (fun i => flatten_fuel f (n ++ "_" ++ dec_of_Z (Z.of_nat i)) (o + Z.of_nat i * sizeof e) e) (seq 0 (Z.to_nat k))
      | TStruct fs => flat_map (fun fo => flatten_fuel f (n ++ "_" ++ fst (fst fo)) (o + snd fo) (snd (fst fo))) (List.combine fs (offsetsof (List.map snd fs) 0))
      | _ => [] end) in H.
    change (flatten_fuel (S (S f)) n o t) with ((n, o, sizeof t) :: match under t with
      | TBasic KString => [(n ++ "_base", o, 8); (n ++ "_len", o + 8, 8)]
      | TBasic KComplex128 => [(n ++ "_real", o, 8); (n ++ "_imag", o + 8, 8)]
      | TBasic KComplex64 => [(n ++ "_real", o, 4); (n ++ "_imag", o + 4, 4)]
      | TSlice _ => [(n ++ "_base", o, 8); (n ++ "_len", o + 8, 8); (n ++ "_cap", o + 16, 8)]
      | TArr k e => flat_map (fun i => flatten_fuel (S f) (n ++ "_" ++ dec_of_Z (Z.of_nat i)) (o + Z.of_nat i * sizeof e) e) (seq 0 (Z.to_nat k))
      | TStruct fs => flat_map (fun fo => flatten_fuel (S f) (n ++ "_" ++ fst (fst fo)) (o + snd fo) (snd (fst fo))) (List.combine fs (offsetsof (List.map snd fs) 0))
      | _ => [] end).
    destruct H as [H0|H]; [left; exact H0|]. right.
    destruct (under t) as [k| | |k e|fs| | |]; try exact H.
    + apply in_flat_map in H as (i & Hi & Hx). apply in_flat_map. exists i. split; [exact Hi|now apply IH].
    + apply in_flat_map in H as (fo & Hi & Hx). apply in_flat_map. exists fo. split; [exact Hi|now apply IH].
Qed.
Lemma flatten_fuel_mono_le f g n o t x : (f <= g)%nat -> In x (flatten_fuel f n o t) -> In x (flatten_fuel g n o t).
Proof. intro Hle. induction Hle as [|g Hle IH]; [auto|]. intro Hx. now apply flatten_fuel_mono, IH. Qed.

(* depth *)
Lemma depth_pos t : (1 <= depth t)%nat.
Proof. destruct t; cbn [depth]; lia. Qed.
Lemma depth_under t : (depth (under t) <= depth t)%nat.
Proof. induction t; cbn [under depth]; lia. Qed.
Lemma depth_field (fs : list (string * ty)) f : In f fs -> (depth (snd f) <= fold_right (fun (f : string * ty) m => Nat.max (depth (snd f)) m) O fs)%nat.
Proof. induction fs as [|g fs IH]; [intros []|]. cbn [fold_right]. intros [->|H]; [lia|]. specialize (IH H). lia. Qed.

Lemma flat_map_ext_in' {A B} (f g : A -> list B) l : (forall x, In x l -> f x = g x) -> flat_map f l = flat_map g l.
Proof. induction l as [|a l IH]; intro H; cbn [flat_map]; [reflexivity|]. rewrite (H a (or_introl eq_refl)), IH; [reflexivity|]. intros x Hx. apply H. now right. Qed.

(* enough fuel: more changes nothing *)
Lemma flatten_fuel_sat f : forall n o t, (depth t <= f)%nat -> flatten_fuel (S f) n o t = flatten_fuel f n o t.
Proof.
  induction f as [|f IH]; intros n o t Hd; [pose proof (depth_pos t); lia|].
  change (flatten_fuel (S f) n o t) with ((n, o, sizeof t) :: match under t with
      | TBasic KString => [(n ++ "_base", o, 8); (n ++ "_len", o + 8, 8)]
      | TBasic KComplex128 => [(n ++ "_real", o, 8); (n ++ "_imag", o + 8, 8)]
      | TBasic KComplex64 => [(n ++ "_real", o, 4); (n ++ "_imag", o + 4, 4)]
      | TSlice _ => [(n ++ "_base", o, 8); (n ++ "_len", o + 8, 8); (n ++ "_cap", o + 16, 8)]
      | TArr k e => flat_map (fun i => flatten_fuel f (n ++ "_" ++ dec_of_Z (Z.of_nat i)) (o + Z.of_nat i * sizeof e) e) (seq 0 (Z.to_nat k))
      | TStruct fs => flat_map (fun fo => flatten_fuel f (n ++ "_" ++ fst (fst fo)) (o + snd fo) (snd (fst fo))) (List.combine fs (offsetsof (List.map snd fs) 0))
      | _ => [] end).
  change (flatten_fuel (S (S f)) n o t) with ((n, o, sizeof t) :: match under t with
      | TBasic KString => [(n ++ "_base", o, 8); (n ++ "_len", o + 8, 8)]
      | TBasic KComplex128 => [(n ++ "_real", o, 8); (n ++ "_imag", o + 8, 8)]
      | TBasic KComplex64 => [(n ++ "_real", o, 4); (n ++ "_imag", o + 4, 4)]
      | TSlice _ => [(n ++ "_base", o, 8); (n ++ "_len", o + 8, 8); (n ++ "_cap", o + 16, 8)]
      | TArr k e => flat_map (fun i => flatten_fuel (S f) (n ++ "_" ++ dec_of_Z (Z.of_nat i)) (o + Z.of_nat i * sizeof e) e) (seq 0 (Z.to_nat k))
      | TStruct fs => flat_map (fun fo => flatten_fuel (S f) (n ++ "_" ++ fst (fst fo)) (o + snd fo) (snd (fst fo))) (List.combine fs (offsetsof (List.map snd fs) 0))
      | _ => [] end).
  f_equal. pose proof (depth_under t) as Hu. destruct (under t) as [k| | |k e|fs| | |]; try reflexivity.
  - cbn [depth] in Hu. apply flat_map_ext_in'. intros i _. apply IH. lia.
  - cbn [depth] in Hu. apply flat_map_ext_in'. intros fo Hin. apply IH.
    destruct fo as [ff oo]. apply in_combine_l in Hin. pose proof (depth_field fs ff Hin). cbn [fst]. lia.
Qed.
Lemma flatten_fuel_sat_le f g n o t : (depth t <= f)%nat -> (f <= g)%nat -> flatten_fuel g n o t = flatten_fuel f n o t.
Proof. intros Hd Hle. induction Hle as [|g Hle IH]; [reflexivity|]. rewrite flatten_fuel_sat by lia. exact IH. Qed.

Lemma flatten_fuel_head f n o t : In (n, o, sizeof t) (flatten_fuel f n o t).
Proof. destruct f; left; reflexivity. Qed.

Lemma flatten_unfold f n o t : flatten_fuel (S f) n o t = (n, o, sizeof t) :: match under t with
      | TBasic KString => [(n ++ "_base", o, 8); (n ++ "_len", o + 8, 8)]
      | TBasic KComplex128 => [(n ++ "_real", o, 8); (n ++ "_imag", o + 8, 8)]
      | TBasic KComplex64 => [(n ++ "_real", o, 4); (n ++ "_imag", o + 4, 4)]
      | TSlice _ => [(n ++ "_base", o, 8); (n ++ "_len", o + 8, 8); (n ++ "_cap", o + 16, 8)]
      | TArr k e => flat_map (fun i => flatten_fuel f (n ++ "_" ++ dec_of_Z (Z.of_nat i)) (o + Z.of_nat i * sizeof e) e) (seq 0 (Z.to_nat k))
      | TStruct fs => flat_map (fun fo => flatten_fuel f (n ++ "_" ++ fst (fst fo)) (o + snd fo) (snd (fst fo))) (List.combine fs (offsetsof (List.map snd fs) 0))
      | _ => [] end.
Proof. reflexivity. Qed.

Definition leaf (k : bkind) : bool := match k with KString | KComplex64 | KComplex128 => false | _ => true end.
Lemma flatten_leaf f n o k x : leaf k = true -> In x (flatten_fuel f n o (TBasic k)) -> x = (n, o, basic_size k).
Proof.
  intros Hk H. destruct f; [destruct H as [<-|[]]; reflexivity|]. rewrite flatten_unfold in H. cbn [under sizeof] in H.
  destruct k; try discriminate; destruct H as [<-|[]]; reflexivity.
Qed.

Definition nonderef (s : step) : bool := match s with SDeref _ => false | _ => true end.

Lemma append_nonempty a b : a <> "" -> (a ++ b)%string <> "".
Proof. destruct a; [congruence|]. cbn. discriminate. Qed.

Lemma sub_inv t a suffix off t0 t' a' : a_sym a <> "" -> sub t a suffix off t0 = COk t' a' ->
  t' = t0 /\ a_sym a' = (a_sym a ++ suffix)%string /\ a_disp a' = a_disp a + off.
Proof.
  intros Hs H. unfold sub in H. inversion H; subst. cbn [a_sym a_disp].
  destruct (String.eqb_spec (a_sym a) ""); [contradiction|]. auto.
Qed.

Lemma step_flatten t a s t' a' f x : nonderef s = true -> a_sym a <> "" ->
  apply_step true (COk t a) s = COk t' a' ->
  In x (flatten_fuel f (a_sym a') (a_disp a') t') ->
  In x (flatten_fuel (S f) (a_sym a) (a_disp a) t) /\ a_sym a' <> "".
Proof.
  intros Hnd Hs H Hx. rewrite flatten_unfold.
  destruct s as [| | | | |i|fname|r]; cbn [apply_step] in H; try discriminate.
  - (* base *)
    destruct (is_slice t || is_string t) eqn:E; [|discriminate]. destruct (sub_inv _ _ _ _ _ _ _ Hs H) as (-> & Es & Ed).
    rewrite Es, Ed in *. split; [|now apply append_nonempty]. apply flatten_leaf in Hx; [|reflexivity]. subst x. right.
    rewrite Z.add_0_r. unfold is_slice, is_string in E.
    destruct (under t) as [k| | | | | | |]; cbn in E; try discriminate; [destruct k; try discriminate|]; left; reflexivity.
  - (* len *)
    destruct (is_slice t || is_string t) eqn:E; [|discriminate]. destruct (sub_inv _ _ _ _ _ _ _ Hs H) as (-> & Es & Ed).
    rewrite Es, Ed in *. split; [|now apply append_nonempty]. apply flatten_leaf in Hx; [|reflexivity]. subst x. right.
    unfold is_slice, is_string in E.
    destruct (under t) as [k| | | | | | |]; cbn in E; try discriminate; [destruct k; try discriminate|]; right; left; reflexivity.
  - (* cap *)
    destruct (is_slice t) eqn:E; [|discriminate]. destruct (sub_inv _ _ _ _ _ _ _ Hs H) as (-> & Es & Ed).
    rewrite Es, Ed in *. split; [|now apply append_nonempty]. apply flatten_leaf in Hx; [|reflexivity]. subst x. right.
    unfold is_slice in E. destruct (under t); try discriminate. right; right; left; reflexivity.
  - (* real *)
    unfold complex_part in H. destruct (under t) as [k| | | | | | |] eqn:Eu; try discriminate. destruct k; try discriminate;
    destruct (sub_inv _ _ _ _ _ _ _ Hs H) as (-> & Es & Ed); rewrite Es, Ed in *; (split; [|now apply append_nonempty]);
    (apply flatten_leaf in Hx; [|reflexivity]); subst x; right; rewrite Z.add_0_r; left; reflexivity.
  - (* imag *)
    unfold complex_part in H. destruct (under t) as [k| | | | | | |] eqn:Eu; try discriminate. destruct k; try discriminate;
    destruct (sub_inv _ _ _ _ _ _ _ Hs H) as (-> & Es & Ed); rewrite Es, Ed in *; (split; [|now apply append_nonempty]);
    (apply flatten_leaf in Hx; [|reflexivity]); subst x; right; right; left; reflexivity.
  - (* index *)
    destruct (under t) as [| | |n e| | | |] eqn:Eu; try discriminate.
    destruct ((n <=? i) || (true && (i <? 0))) eqn:E; [discriminate|]. apply orb_false_iff in E as [E1 E2]. cbn [andb] in E2.
    apply Z.leb_gt in E1. apply Z.ltb_ge in E2.
    destruct (sub_inv _ _ _ _ _ _ _ Hs H) as (-> & Es & Ed). rewrite Es, Ed in *. split; [|now apply append_nonempty].
    right. apply in_flat_map. exists (Z.to_nat i). split; [apply in_seq; lia|].
    rewrite Z2Nat.id by lia. rewrite arr_elem_stride in Hx. exact Hx.
  - (* field *)
    destruct (under t) as [| | | |fs| | |] eqn:Eu; try discriminate.
    destruct (find_field fs (offsetsof (List.map snd fs) 0) fname) as [[o ft]|] eqn:Ef; [|discriminate].
    destruct (sub_inv _ _ _ _ _ _ _ Hs H) as (-> & Es & Ed). rewrite Es, Ed in *. split; [|now apply append_nonempty].
    right. apply in_flat_map. exists ((fname, ft), o). split; [now apply find_field_in_name|]. exact Hx.
Qed.

Lemma apply_path_ok_inv p : forall c t' a', apply_path true c p = COk t' a' -> exists t a, c = COk t a.
Proof.
  intros c t' a' H. destruct c as [|t a]; [|eauto]. rewrite apply_path_err in H. discriminate.
Qed.

Lemma path_flatten p : forall t a t' a', forallb nonderef p = true -> a_sym a <> "" ->
  apply_path true (COk t a) p = COk t' a' ->
  In (a_sym a', a_disp a', sizeof t') (flatten_fuel (List.length p) (a_sym a) (a_disp a) t).
Proof.
  unfold apply_path. induction p as [|s p IH]; intros t a t' a' Hnd Hs H; cbn [fold_left forallb List.length] in *.
  - inversion H; subst. left. reflexivity.
  - apply andb_true_iff in Hnd as [Hs1 Hnd].
    destruct (apply_step true (COk t a) s) as [|t1 a1] eqn:E1; [fold (apply_path true CErr p) in H; rewrite apply_path_err in H; discriminate|].
    assert (Hs' : a_sym a1 <> "").
    { destruct (step_flatten t a s t1 a1 O _ Hs1 Hs E1 (flatten_fuel_head O _ _ _)) as [_ Hne]. exact Hne. }
    specialize (IH t1 a1 t' a' Hnd Hs' H).
    now destruct (step_flatten t a s t1 a1 (List.length p) _ Hs1 Hs E1 IH).
Qed.

(* a chain of successful steps (no pointer dereference) descends: its length is at most the depth *)
Lemma step_depth t a s t' a' : nonderef s = true -> apply_step true (COk t a) s = COk t' a' ->
  (depth t' < depth t)%nat \/ (exists k, t' = TBasic k /\ leaf k = true).
Proof.
  intros Hnd H. destruct s as [| | | | |i|fname|r]; cbn [apply_step] in H; try discriminate.
  - destruct (is_slice t || is_string t); [|discriminate]. unfold sub in H. inversion H. right. eexists. split; reflexivity.
  - destruct (is_slice t || is_string t); [|discriminate]. unfold sub in H. inversion H. right. eexists. split; reflexivity.
  - destruct (is_slice t); [|discriminate]. unfold sub in H. inversion H. right. eexists. split; reflexivity.
  - unfold complex_part in H. destruct (under t) as [k| | | | | | |]; try discriminate. destruct k; try discriminate; unfold sub in H; inversion H; right; eexists; split; reflexivity.
  - unfold complex_part in H. destruct (under t) as [k| | | | | | |]; try discriminate. destruct k; try discriminate; unfold sub in H; inversion H; right; eexists; split; reflexivity.
  - pose proof (depth_under t) as Hu. destruct (under t) as [| | |n e| | | |]; try discriminate.
    destruct ((n <=? i) || (true && (i <? 0))); [discriminate|]. unfold sub in H. inversion H; subst. left. cbn [depth] in Hu. lia.
  - pose proof (depth_under t) as Hu. destruct (under t) as [| | | |fs| | |]; try discriminate.
    destruct (find_field fs (offsetsof (List.map snd fs) 0) fname) as [[o ft]|] eqn:Ef; [|discriminate].
    unfold sub in H. inversion H; subst. left. cbn [depth] in Hu.
    apply find_field_in_name in Ef. apply in_combine_l in Ef. pose proof (depth_field fs _ Ef). cbn [snd] in *. lia.
Qed.
Lemma leaf_no_step k a s : leaf k = true -> nonderef s = true -> apply_step true (COk (TBasic k) a) s = CErr.
Proof. intros Hk Hs. destruct s; try discriminate; destruct k; try discriminate; reflexivity. Qed.

Lemma path_length_depth p : forall t a t' a', forallb nonderef p = true ->
  apply_path true (COk t a) p = COk t' a' -> (List.length p <= depth t)%nat.
Proof.
  unfold apply_path. induction p as [|s p IH]; intros t a t' a' Hnd H; cbn [fold_left forallb List.length] in *; [lia|].
  apply andb_true_iff in Hnd as [Hs1 Hnd].
  destruct (apply_step true (COk t a) s) as [|t1 a1] eqn:E1; [fold (apply_path true CErr p) in H; rewrite apply_path_err in H; discriminate|].
  destruct (step_depth _ _ _ _ _ Hs1 E1) as [Hlt|(k & -> & Hk)].
  - specialize (IH _ _ _ _ Hnd H). lia.
  - destruct p as [|s2 p]; [pose proof (depth_pos t); cbn; lia|].
    cbn [fold_left forallb] in *. apply andb_true_iff in Hnd as [Hs2 _]. rewrite (leaf_no_step k a1 s2 Hk Hs2) in H.
    fold (apply_path true CErr p) in H. rewrite apply_path_err in H. discriminate.
Qed.

Theorem component_matches_flatten_lemma : forall name off t p t' a',
  name <> "" -> forallb nonderef p = true ->
  apply_path true (param_comp name off t) p = COk t' a' ->
  a_base a' = BFP /\ In (a_sym a', a_disp a', sizeof t') (flatten name off t).
Proof.
  intros name off t p t' a' Hn Hnd H. unfold param_comp in H. split.
  - (* the base never changes without a dereference *)
    assert (G : forall p t a, forallb nonderef p = true -> apply_path true (COk t a) p = COk t' a' -> a_base a' = a_base a).
    { clear. unfold apply_path. induction p as [|s p IH]; intros t a Hnd H; cbn [fold_left forallb] in *; [now inversion H|].
      apply andb_true_iff in Hnd as [Hs1 Hnd].
      destruct (apply_step true (COk t a) s) as [|t1 a1] eqn:E1; [fold (apply_path true CErr p) in H; rewrite apply_path_err in H; discriminate|].
      rewrite (IH _ _ Hnd H). apply (step_inside_lemma t a s t1 a1); [|exact E1]. intros r ->. discriminate. }
    rewrite (G p t _ Hnd H). reflexivity.
  - pose proof (path_flatten p t {| a_sym := name; a_disp := off; a_base := BFP |} t' a' Hnd Hn H) as Hin. cbn [a_sym a_disp] in Hin.
    pose proof (path_length_depth p _ _ _ _ Hnd H) as Hlen. unfold flatten.
    eapply flatten_fuel_mono_le; eauto.
Qed.

Lemma resolve_size c k a : resolve c = Some (k, a) -> exists t, c = COk t a /\ sizeof t = basic_size k.
Proof.
  destruct c as [|t a0]; [discriminate|]. cbn [resolve]. destruct t as [k0|e| | | | | |]; try discriminate.
  - destruct (is_complex k0 || match k0 with KString => true | _ => false end); [discriminate|]. intros [= <- <-]. eexists. split; reflexivity.
  - intros [= <- <-]. eexists. split; reflexivity.
Qed.
Theorem resolved_component_matches_flatten_lemma : forall name off t p k a,
  name <> "" -> forallb nonderef p = true ->
  resolve (apply_path true (param_comp name off t) p) = Some (k, a) ->
  a_base a = BFP /\ In (a_sym a, a_disp a, kind_size k) (flatten name off t).
Proof.
  intros name off t p k a Hn Hnd H. destruct (resolve_size _ _ _ H) as (t' & Hc & Hsz).
  destruct (component_matches_flatten_lemma name off t p t' a Hn Hnd Hc) as [Hb Hin]. split; [exact Hb|].
  unfold kind_size. now rewrite <- Hsz.
Qed.
