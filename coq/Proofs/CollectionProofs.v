(* C20: registers drawn from one Collection are pairwise different registers (different IDs), of the
   requested kind and virtual, as long as fewer than 65536 are drawn of any one kind; the 65537th
   shares its identity with the first (the counter is a uint16). *)
From Avo Require Import Base.Prelude.
From Avo Require Import Model.IR Model.Collection.
Open Scope N_scope.

Lemma testbit_small a m : a < 2 ^ m -> N.testbit a m = false.
Proof.
  intro H. destruct (N.eq_dec a 0) as [->|Hz]; [apply N.bits_0|].
  apply N.bits_above_log2. apply N.log2_lt_pow2; lia.
Qed.
Lemma lor_shiftl_add a b n : a < 2 ^ n -> N.lor a (N.shiftl b n) = a + b * 2 ^ n.
Proof.
  intro H. rewrite N.shiftl_mul_pow2.
  assert (Hl : N.land a (b * 2 ^ n) = 0).
  { apply N.bits_inj_0. intro m. rewrite N.land_spec. destruct (N.lt_ge_cases m n) as [Hm|Hm].
    - rewrite (N.mul_pow2_bits_low b n m Hm). apply andb_false_r.
    - rewrite (testbit_small a m); [reflexivity|]. eapply N.lt_le_trans; [exact H|]. apply N.pow_le_mono_r; lia. }
  rewrite <- (N.lxor_lor _ _ Hl). symmetry. apply N.add_nocarry_lxor. exact Hl.
Qed.
Lemma mk_id_arith v k i : v < 256 -> k < 256 -> mk_id v k i = v + 256 * k + 65536 * i.
Proof.
  intros Hv Hk. unfold mk_id.
  assert (E : N.lor (N.shiftl k 8) (N.shiftl i 16) = k * 2 ^ 8 + i * 2 ^ 16).
  { rewrite (N.shiftl_mul_pow2 k 8). rewrite lor_shiftl_add; [reflexivity|]. change (2 ^ 8) with 256. change (2 ^ 16) with 65536. lia. }
  rewrite E. replace (k * 2 ^ 8 + i * 2 ^ 16) with ((k + i * 2 ^ 8) * 2 ^ 8).
  - rewrite <- N.shiftl_mul_pow2. rewrite lor_shiftl_add; [|exact Hv]. change (2 ^ 8) with 256. lia.
  - change (2 ^ 16) with (2 ^ 8 * 2 ^ 8). lia.
Qed.
Ltac Zify.zify_post_hook ::= Z.div_mod_to_equations.
Lemma mk_id_kind v k i : v < 256 -> k < 256 -> id_kind (mk_id v k i) = k.
Proof. intros Hv Hk. rewrite mk_id_arith by assumption. unfold id_kind. lia. Qed.
Lemma mk_id_index v k i : v < 256 -> k < 256 -> i < 65536 -> id_index (mk_id v k i) = i.
Proof. intros Hv Hk Hi. rewrite mk_id_arith by assumption. unfold id_index. lia. Qed.
Lemma mk_id_virtual k i : k < 256 -> id_is_virtual (mk_id 1 k i) = true.
Proof. intro Hk. rewrite mk_id_arith by lia. unfold id_is_virtual. rewrite N.odd_add, N.odd_add, !N.odd_mul. reflexivity. Qed.

(* the counters *)
Lemma c_get_set c k i k' : c_get (c_set c k i) k' = if k =? k' then i else c_get c k'.
Proof.
  induction c as [|[k0 j] r IH]; cbn [c_set c_get].
  - reflexivity.
  - destruct (k0 =? k) eqn:E0; cbn [c_get].
    + apply N.eqb_eq in E0. subst k0. destruct (k =? k'); reflexivity.
    + destruct (k0 =? k') eqn:E1; [|exact IH]. apply N.eqb_eq in E1. subst k0. rewrite N.eqb_sym in E0. now rewrite E0.
Qed.

(* number of requests of kind k in ks *)
Definition count_kind (ks : list N) (k : N) : N := N.of_nat (List.length (List.filter (N.eqb k) ks)).

(* every ID produced by a run is mk_id 1 k (start + j) for the j-th request of its kind *)
Lemma draws_ids : forall ks c, (forall k, In k ks -> k < 256) ->
  (forall k, c_get c k + count_kind ks k <= 65536) ->
  forall id, In id (fst (draws c ks)) -> exists k j, In k ks /\ c_get c k <= j /\ j < c_get c k + count_kind ks k /\ id = mk_id 1 k j.
Proof.
  induction ks as [|k r IH]; intros c Hk Hb id Hin; cbn [draws] in Hin.
  - destruct Hin.
  - unfold draw in Hin. set (c1 := c_set c k ((c_get c k + 1) mod 65536)) in *.
    destruct (draws c1 r) as [ids c2] eqn:Ed. cbn [fst] in Hin.
    assert (Hck : count_kind (k :: r) k = count_kind r k + 1).
    { unfold count_kind. cbn [List.filter]. rewrite N.eqb_refl. cbn [List.length]. lia. }
    assert (Hco : forall k', k' <> k -> count_kind (k :: r) k' = count_kind r k').
    { intros k' Hne. unfold count_kind. cbn [List.filter]. destruct (k' =? k) eqn:E; [apply N.eqb_eq in E; contradiction|reflexivity]. }
    destruct Hin as [<-|Hin].
    + exists k, (c_get c k). split; [now left|]. rewrite Hck. repeat split; lia.
    + assert (Hr : In id (fst (draws c1 r))) by (now rewrite Ed).
      pose proof (Hb k) as Hbk. rewrite Hck in Hbk.
      destruct (N.eq_dec (count_kind r k) 0) as [Hz|Hnz].
      * (* no further request of kind k: the wrapped counter is never used *)
        assert (Hnot : ~ In k r).
        { intro Hi. unfold count_kind in Hz. assert (In k (List.filter (N.eqb k) r)) by (apply List.filter_In; split; [exact Hi|apply N.eqb_refl]).
          destruct (List.filter (N.eqb k) r); [contradiction|discriminate]. }
        (* generalise: the run over r does not look at counter k *)
        assert (Hgen : forall r' ca cb, ~ In k r' -> (forall k', k' <> k -> c_get ca k' = c_get cb k') -> fst (draws ca r') = fst (draws cb r')).
        { clear. induction r' as [|x r' IHr]; intros ca cb Hn Hsame; [reflexivity|]. cbn [draws]. unfold draw.
          assert (Hx : x <> k) by (intro; subst; apply Hn; now left).
          rewrite (Hsame x Hx).
          specialize (IHr (c_set ca x ((c_get cb x + 1) mod 65536)) (c_set cb x ((c_get cb x + 1) mod 65536))).
          destruct (draws (c_set ca x ((c_get cb x + 1) mod 65536)) r') as [i1 c1'] eqn:E1.
          destruct (draws (c_set cb x ((c_get cb x + 1) mod 65536)) r') as [i2 c2'] eqn:E2. cbn [fst] in *. f_equal.
          apply IHr; [intro; apply Hn; now right|]. intros k' Hk'. rewrite !c_get_set. destruct (x =? k'); [reflexivity|now apply Hsame]. }
        rewrite (Hgen r c1 c Hnot) in Hr.
        2: { intros k' Hk'. unfold c1. rewrite c_get_set. destruct (k =? k') eqn:E; [apply N.eqb_eq in E; congruence|reflexivity]. }
        destruct (IH c (fun k' Hi => Hk k' (or_intror Hi))) with (id := id) as (k' & j & Hi & H1 & H2 & H3); [|exact Hr|].
        { intro k'. destruct (N.eq_dec k' k) as [->|Hne]; [lia|]. specialize (Hb k'). rewrite (Hco k' Hne) in Hb. exact Hb. }
        exists k', j. split; [now right|]. assert (k' <> k) by (intro; subst; contradiction). rewrite (Hco k' H). auto.
      * assert (Hsmall : c_get c k + 1 < 65536) by lia.
        assert (Hc1k : c_get c1 k = c_get c k + 1).
        { unfold c1. rewrite c_get_set, N.eqb_refl. apply N.mod_small. exact Hsmall. }
        assert (Hc1o : forall k', k' <> k -> c_get c1 k' = c_get c k').
        { intros k' Hne. unfold c1. rewrite c_get_set. destruct (k =? k') eqn:E; [apply N.eqb_eq in E; congruence|reflexivity]. }
        destruct (IH c1 (fun k' Hi => Hk k' (or_intror Hi))) with (id := id) as (k' & j & Hi & H1 & H2 & H3); [|exact Hr|].
        { intro k'. destruct (N.eq_dec k' k) as [->|Hne]; [rewrite Hc1k; lia|]. rewrite (Hc1o k' Hne). specialize (Hb k'). rewrite (Hco k' Hne) in Hb. exact Hb. }
        exists k', j. split; [now right|]. destruct (N.eq_dec k' k) as [->|Hne].
        -- rewrite Hc1k in H1, H2. rewrite Hck. repeat split; try lia; exact H3.
        -- rewrite (Hc1o k' Hne) in H1, H2. rewrite (Hco k' Hne). auto.
Qed.

Lemma count_kind_pos r k : In k r -> 1 <= count_kind r k.
Proof.
  intro Hi. unfold count_kind. assert (H : In k (List.filter (N.eqb k) r)) by (apply List.filter_In; split; [exact Hi|apply N.eqb_refl]).
  destruct (List.filter (N.eqb k) r); [contradiction|cbn [List.length]; lia].
Qed.
Lemma count_kind_cons_same k r : count_kind (k :: r) k = count_kind r k + 1.
Proof. unfold count_kind. cbn [List.filter]. rewrite N.eqb_refl. cbn [List.length]. lia. Qed.
Lemma count_kind_cons_other k k' r : k' <> k -> count_kind (k :: r) k' = count_kind r k'.
Proof. intro Hne. unfold count_kind. cbn [List.filter]. destruct (k' =? k) eqn:E; [apply N.eqb_eq in E; contradiction|reflexivity]. Qed.

Lemma bound_step c k r : (forall k', c_get c k' + count_kind (k :: r) k' <= 65536) ->
  forall k', c_get (c_set c k ((c_get c k + 1) mod 65536)) k' + count_kind r k' <= 65536.
Proof.
  intros Hb k'. rewrite c_get_set. destruct (k =? k') eqn:E.
  - apply N.eqb_eq in E. subst k'. specialize (Hb k). rewrite count_kind_cons_same in Hb.
    destruct (N.eq_dec (count_kind r k) 0) as [Hz|Hnz]; [rewrite Hz; lia|]. rewrite N.mod_small by lia. lia.
  - apply N.eqb_neq in E. specialize (Hb k'). rewrite count_kind_cons_other in Hb by congruence. exact Hb.
Qed.

Theorem draws_nodup : forall ks c, (forall k, In k ks -> k < 256) ->
  (forall k, c_get c k + count_kind ks k <= 65536) -> NoDup (fst (draws c ks)).
Proof.
  induction ks as [|k r IH]; intros c Hk Hb; cbn [draws].
  - constructor.
  - unfold draw. set (c1 := c_set c k ((c_get c k + 1) mod 65536)).
    pose proof (bound_step c k r Hb) as Hb1. fold c1 in Hb1.
    assert (Hk1 : forall k', In k' r -> k' < 256) by (intros k' Hi; apply Hk; now right).
    pose proof (IH c1 Hk1 Hb1) as Hnd. pose proof (draws_ids r c1 Hk1 Hb1) as Hids.
    destruct (draws c1 r) as [ids c2]. cbn [fst] in *. constructor; [|exact Hnd].
    intro Hin. destruct (Hids _ Hin) as (k' & j & Hi & H1 & H2 & H3).
    pose proof (Hb k) as Hbk. rewrite count_kind_cons_same in Hbk.
    pose proof (Hb1 k') as Hbk'.
    assert (Hkk : k < 256) by (apply Hk; now left). assert (Hkk' : k' < 256) by (now apply Hk1).
    assert (Ek : k = k') by (rewrite <- (mk_id_kind 1 k (c_get c k)), H3, mk_id_kind by lia; reflexivity). subst k'.
    assert (Ei : c_get c k = j) by (rewrite <- (mk_id_index 1 k (c_get c k)), H3, mk_id_index by lia; reflexivity).
    pose proof (count_kind_pos r k Hi) as Hpos.
    unfold c1 in H1. rewrite c_get_set, N.eqb_refl, N.mod_small in H1 by lia. lia.
Qed.

(* all of them are virtual registers of the requested kinds *)
Theorem draws_kinds : forall ks c, (forall k, In k ks -> k < 256) ->
  List.map id_kind (fst (draws c ks)) = ks /\ Forall (fun id => id_is_virtual id = true) (fst (draws c ks)).
Proof.
  induction ks as [|k r IH]; intros c Hk; cbn [draws]; [split; [reflexivity|constructor]|].
  unfold draw. set (c1 := c_set c k ((c_get c k + 1) mod 65536)).
  destruct (IH c1 (fun k' Hi => Hk k' (or_intror Hi))) as [H1 H2]. destruct (draws c1 r) as [ids c2]. cbn [fst List.map] in *.
  assert (Hkk : k < 256) by (apply Hk; now left). split.
  - rewrite H1. f_equal. apply mk_id_kind; lia.
  - constructor; [now apply mk_id_virtual|exact H2].
Qed.

(* the wrap: from a collection whose GP counter stands at 65535 the second draw returns the very
   register ID a fresh collection returns first *)
Example index_wraps_refuted :
  let '(ids, _) := draws [(1, 65535)] [1; 1] in List.nth 1 ids 0 = fst (draw [] 1).
Proof. vm_compute. reflexivity. Qed.
