(* C01: end to end over the model of pass.Liveness + pass.AllocateRegisters: for every program on
   which the model allocator succeeds, renaming every register through the allocation preserves
   the meaning of the program (lock-step simulation on live byte classes). *)
From Avo Require Import Base.Prelude Model.Sem Proofs.SimProofs Proofs.SimLink.
From stdpp Require Import gmap.
From Avo Require Import Base.MaskSet Model.IR Model.RegFile Model.Liveness Model.Alloc
  Proofs.LivenessProofs Proofs.LivenessTerm Proofs.AllocProofs Proofs.AllocLoop Proofs.AllocCorrect.
Open Scope N_scope.

Definition prog_regs_t := list (list reg * list reg * list (option nat)).

(* reads / writes / successors per instruction, as mk_prog sees them *)
Fixpoint regs_of (is : list instr) (ss : list (list (option nat))) : res prog_regs_t :=
  match is, ss with
  | i :: r, s :: rs => do u <- input_registers i; do rest <- regs_of r rs; OK ((u, output_registers i, s) :: rest)
  | _, _ => OK []
  end.

Lemma mk_prog_regs_of is : forall ss pg, mk_prog is ss = OK pg ->
  exists pr, regs_of is ss = OK pr /\ p pr = pg /\ List.map (fun x => snd (fst x)) pr = List.map output_registers (firstn (length pr) is)
             /\ length pr = Nat.min (length is) (length ss).
Proof.
  induction is as [|i is IH]; intros ss pg H.
  - cbn in H. inversion H; subst. exists []. repeat split; reflexivity.
  - destruct ss as [|s ss]; cbn [mk_prog regs_of] in *.
    + inversion H; subst. exists []. repeat split; reflexivity.
    + unfold mk_ins in H. destruct (input_registers i) as [u| |] eqn:Eu; cbn [res_bind] in *; try discriminate.
      destruct (mk_prog is ss) as [rest| |] eqn:Er; cbn [res_bind] in *; try discriminate. inversion H; subst pg.
      destruct (IH ss rest Er) as (pr & Hpr & Hp & Ho & Hl). rewrite Hpr. cbn [res_bind].
      eexists. split; [reflexivity|]. split; [|split].
      * unfold p in *. cbn [List.map fst snd]. now rewrite Hp.
      * cbn [List.map length firstn fst snd]. now rewrite Ho.
      * cbn [length]. lia.
Qed.

Lemma nth_error_lookup {A} (l : list A) j : List.nth_error l j = l !! j.
Proof. revert j. induction l as [|a l IH]; intros [|j]; cbn; auto. Qed.

Section Main.
Variables (val memt : Type).
Variable F : nat -> list val -> memt -> list val * memt * option nat.

(* operand discipline of IR instructions (checked on every instruction of every case, Model/Check.v):
   a virtual register that an instruction reads or writes is one of its operands *)
Definition virt_in_operands (is : list instr) : Prop :=
  forall i r, In i is -> (In r (output_registers i) \/ exists u, input_registers i = OK u /\ In r u) ->
  reg_is_virtual r = true -> exists r', In r' (flat_map instr_registers is) /\ rid r' = rid r.

Theorem model_allocation_preserves_semantics :
  forall (rf : regfile) (is : list instr) (ss : list (list (option nat))) (pg : prog) (al : AL),
  regfile_ok rf = true -> length ss = length is -> virt_in_operands is ->
  mk_prog is ss = OK pg ->
  exists lvs pr, liveness (liveness_fuel pg) pg = Some lvs /\ regs_of is ss = OK pr /\
  (allocate_registers rf is (List.map lout lvs) = OK al ->
   (forall j i vs m outs m' n, List.nth_error (P pr) j = Some i -> F j vs m = (outs, m', Some n) -> In n (m_succ i)) ->
   (forall j i vs m outs m' npc, List.nth_error (P pr) j = Some i -> F j vs m = (outs, m', npc) -> List.length outs = List.length (m_defs i)) ->
   forall n j R R' m st1,
     (forall l, LIn lvs j l -> R l = R' (rename (lookup_default al) l)) ->
     mrun val memt F (P pr) n (j, R, m) = Some st1 ->
     exists j1 R1 R1' m1, st1 = (j1, R1, m1)
       /\ mrun val memt F (List.map (rename_instr (lookup_default al)) (P pr)) n (j, R', m) = Some (j1, R1', m1)
       /\ (forall l, LIn lvs j1 l -> R1 l = R1' (rename (lookup_default al) l))).
Proof.
  intros rf is ss pg al Hrf Hlen Hwf Hmk.
  destruct (liveness_terminates_lemma pg) as [lvs Hl]. destruct (mk_prog_regs_of is ss pg Hmk) as (pr & Hpr & Hp & Ho & Hn).
  exists lvs, pr. split; [exact Hl|]. split; [exact Hpr|]. intros Hal HFs HFl.
  assert (Hn' : length pr = length is) by lia.
  rewrite firstn_all2 in Ho by lia.
  subst pg.
  assert (Hex := liveness_exact_lemma (p pr) _ lvs Hl).
  destruct (liveness_closed (p pr) _ lvs Hl) as (Hlenl & _).
  (* nth_out of the liveness state = the list handed to the allocator *)
  assert (Hcomb : forall j x, List.nth_error pr j = Some x ->
            exists i, List.nth_error is j = Some i /\ snd (fst x) = output_registers i /\ input_registers i = OK (fst (fst x))
                      /\ In (i, nth_out lvs j) (List.combine is (List.map lout lvs))).
  { clear -Hpr Hlenl Hn'. revert ss pr lvs Hpr Hlenl Hn'. induction is as [|i is IH]; intros ss pr lvs Hpr Hlenl Hn' j x Hx.
    - destruct pr; [destruct j; discriminate|discriminate].
    - destruct ss as [|s ss]; cbn [regs_of] in Hpr; [inversion Hpr; subst; discriminate|].
      destruct (input_registers i) as [u| |] eqn:Eu; cbn [res_bind] in Hpr; try discriminate.
      destruct (regs_of is ss) as [rest| |] eqn:Er; cbn [res_bind] in Hpr; try discriminate. inversion Hpr; subst pr.
      unfold p in Hlenl. rewrite map_length in Hlenl. destruct lvs as [|l0 lvs]; [discriminate|]. cbn [length] in *.
      destruct j as [|j]; cbn [List.nth_error] in *.
      + inversion Hx; subst x. exists i. cbn [fst snd]. repeat split; auto. left. unfold nth_out. reflexivity.
      + destruct (IH ss rest lvs Er) with (j := j) (x := x) as (i' & H1 & H2 & H3 & H4); auto.
        { unfold p. rewrite map_length. lia. }
        exists i'. repeat split; auto. right. exact H4. }
  assert (Hp_nth : forall j x, List.nth_error pr j = Some x -> p pr !! j = Some {| iuse := ms_of_regs (fst (fst x)); idef := ms_of_regs (snd (fst x)); isucc := snd x |}).
  { intros j x Hx. unfold p. rewrite list_lookup_fmap, <- nth_error_lookup, Hx. reflexivity. }
  (* the allocator's side conditions from liveness exactness and operand discipline *)
  assert (Hused : forall j y k, path_live (p pr) j y k -> id_is_virtual y = true -> exists r', In r' (flat_map instr_registers is) /\ rid r' = y).
  { intros j y k Hpl Hv. induction Hpl as [j y k Hu|]; [|auto].
    unfold use_at in Hu. destruct (p pr !! j) as [pi|] eqn:Ej; [|discriminate].
    unfold p in Ej. apply list_lookup_fmap_inv in Ej as (x & -> & Ex). cbn [iuse] in Hu.
    rewrite <- nth_error_lookup in Ex. destruct (Hcomb j x Ex) as (i & Hi & _ & Hin & _).
    rewrite mem_ms_of_regs in Hu. apply existsb_exists in Hu as (r & Hr & Hb). apply andb_true_iff in Hb as [Hb _]. apply N.eqb_eq in Hb.
    destruct (Hwf i r) as (r' & Hr' & Eq); [eapply nth_error_In; eauto|right; eauto|unfold reg_is_virtual; now rewrite Hb|].
    exists r'. split; [exact Hr'|congruence]. }
  destruct (allocate_registers_correct rf is (List.map lout lvs) al Hrf Hal) as [_ Hcol].
  - intros i lo y k Hin Hm Hv.
    (* (i, lo) sits at some index j, lo = nth_out lvs j *)
    apply In_nth_error in Hin as (j & Hj).
    assert (Hlo : lo = nth_out lvs j /\ (j < length lvs)%nat).
    { clear -Hj. revert lvs j Hj. induction is as [|i0 is IH]; intros lvs j Hj; [destruct j; discriminate|].
      destruct lvs as [|l0 lvs]; [destruct j; discriminate|]. destruct j as [|j]; cbn in *.
      - inversion Hj; subst. split; [reflexivity|lia].
      - destruct (IH lvs j Hj) as [-> ?]. split; [reflexivity|lia]. }
    destruct Hlo as [-> Hlt]. destruct (Hex j y k) as [_ [Hla _]]. destruct (Hla Hm) as (j' & _ & Hpl). eapply Hused; eauto.
  - intros i d Hi Hd Hv. apply (Hwf i d Hi); [now left|exact Hv].
  - apply (allocation_preserves_semantics val memt F pr (lookup_default al) lvs _ Hl); auto.
    intros j x d k Hx Hd Hk Hb y Hy Hne.
    destruct (Hcomb j x Hx) as (i & Hi & Hout & _ & Hin). rewrite Hout in Hd.
    apply (Hcol i (nth_out lvs j) d y k Hin Hd Hb Hy Hne).
Qed.
End Main.

(* boolean form of the operand discipline, evaluated on the instructions of every case *)
Definition virt_in_operands_b (is : list instr) : bool :=
  let ids := List.map rid (flat_map instr_registers is) in
  forallb (fun i => forallb (fun r => negb (reg_is_virtual r) || existsb (N.eqb (rid r)) ids)
                            (output_registers i ++ match input_registers i with OK u => u | _ => [] end)) is.
Lemma virt_in_operands_b_ok is : virt_in_operands_b is = true -> virt_in_operands is.
Proof.
  unfold virt_in_operands_b, virt_in_operands. rewrite forallb_forall. intros H i r Hi Hr Hv.
  specialize (H i Hi). rewrite forallb_forall in H.
  assert (Hin : In r (output_registers i ++ match input_registers i with OK u => u | _ => [] end)).
  { apply in_or_app. destruct Hr as [Hr|(u & Hu & Hr)]; [now left|right; now rewrite Hu]. }
  specialize (H r Hin). rewrite Hv in H. cbn [negb orb] in H.
  apply existsb_exists in H as (id & Hid & He). apply N.eqb_eq in He. apply in_map_iff in Hid as (r' & Hr' & Hin').
  exists r'. split; [exact Hin'|congruence].
Qed.
