(* C01: instantiating the simulation with the liveness model's result and a validated allocation *)
From Avo Require Import Base.Prelude Model.Sem Proofs.SimProofs.
From stdpp Require Import gmap.
From Avo Require Import Base.MaskSet Model.IR Model.Liveness Proofs.LivenessProofs.
Open Scope N_scope.

Definition bits16l : list N := [0;1;2;3;4;5;6;7;8;9;10;11;12;13;14;15].
Definition regs_locs (rs : list reg) : list loc := flat_map (fun r => locs_of (rid r) (rmask r)) rs.

Lemma in_bits16 k : In k bits16l <-> k < 16.
Proof.
  unfold bits16l. split.
  - intro H. repeat (destruct H as [<-|H]; [lia|]). contradiction.
  - intro H. assert (Hk : k = 0 \/ k = 1 \/ k = 2 \/ k = 3 \/ k = 4 \/ k = 5 \/ k = 6 \/ k = 7 \/ k = 8 \/ k = 9 \/ k = 10 \/ k = 11 \/ k = 12 \/ k = 13 \/ k = 14 \/ k = 15) by lia.
    cbn [In]. intuition (subst; auto 20).
Qed.
Lemma in_locs_of id mask l : In l (locs_of id mask) <-> fst l = id /\ N.testbit mask (snd l) = true /\ snd l < 16.
Proof.
  unfold locs_of. fold bits16l. rewrite in_map_iff. split.
  - intros (k & <- & Hk). apply List.filter_In in Hk as [Hin Ht]. cbn [fst snd]. repeat split; auto. now apply in_bits16.
  - intros (H1 & H2 & H3). destruct l as [i k]. cbn [fst snd] in *. subst. exists k. split; [reflexivity|].
    apply List.filter_In. split; [now apply in_bits16|exact H2].
Qed.

Lemma mem_fold_add rs : forall s id k,
  mem (fold_left (fun acc r => ms_add acc (rid r) (rmask r)) rs s) id k
  = mem s id k || existsb (fun r => (rid r =? id) && N.testbit (rmask r) k) rs.
Proof.
  induction rs as [|r rs IH]; intros s id k; cbn [fold_left existsb]; [now rewrite orb_false_r|].
  rewrite IH, mem_add. now rewrite orb_assoc.
Qed.
Lemma mem_ms_of_regs rs id k : mem (ms_of_regs rs) id k = existsb (fun r => (rid r =? id) && N.testbit (rmask r) k) rs.
Proof. unfold ms_of_regs. rewrite mem_fold_add, mem_empty. reflexivity. Qed.

Lemma in_regs_locs rs l : snd l < 16 -> (In l (regs_locs rs) <-> mem (ms_of_regs rs) (fst l) (snd l) = true).
Proof.
  intro Hk. unfold regs_locs. rewrite in_flat_map, mem_ms_of_regs, existsb_exists. split.
  - intros (r & Hr & Hl). apply in_locs_of in Hl as (H1 & H2 & _). exists r. split; [exact Hr|]. rewrite H1, N.eqb_refl, H2. reflexivity.
  - intros (r & Hr & Hb). apply andb_true_iff in Hb as [H1 H2]. apply N.eqb_eq in H1. exists r. split; [exact Hr|].
    apply in_locs_of. auto.
Qed.

(* machine program of IR instructions with given read/write register lists and CFG successors *)
Definition to_minstr (uses defs : list reg) (succs : list (option nat)) : minstr :=
  {| m_uses := regs_locs uses; m_defs := regs_locs defs;
     m_succ := flat_map (fun o => match o with Some j => [j] | None => [] end) succs |}.

Section Link.
Variables (val memt : Type).
Variable F : nat -> list val -> memt -> list val * memt * option nat.
(* per instruction: registers read, registers written, successors *)
Variable prog_regs : list (list reg * list reg * list (option nat)).
Definition P : list minstr := List.map (fun x => to_minstr (fst (fst x)) (snd (fst x)) (snd x)) prog_regs.
Definition p : prog := List.map (fun x => {| iuse := ms_of_regs (fst (fst x)); idef := ms_of_regs (snd (fst x)); isucc := snd x |}) prog_regs.
Variable s : N -> N.
Variable r : st.
Variable fuel : nat.
Hypothesis Hlive : liveness fuel p = Some r.

Definition LIn (j : nat) (l : loc) : Prop := snd l < 16 /\ mem (nth_in r j) (fst l) (snd l) = true.
Definition LOut (j : nat) (l : loc) : Prop := snd l < 16 /\ mem (nth_out r j) (fst l) (snd l) = true.

(* the validator's condition (Model/Check.v no_clobber, here over the model's liveness): a
   definition d of instruction j and a different register y live after j never share storage *)
Hypothesis Hnc : forall j x d k, List.nth_error prog_regs j = Some x -> In d (snd (fst x)) -> k < 16 ->
  N.testbit (rmask d) k = true -> forall y, mem (nth_out r j) y k = true -> y <> rid d -> s y <> s (rid d).
Hypothesis F_succ : forall j i vs m outs m' n, List.nth_error P j = Some i -> F j vs m = (outs, m', Some n) -> In n (m_succ i).
Hypothesis F_len : forall j i vs m outs m' npc, List.nth_error P j = Some i -> F j vs m = (outs, m', npc) -> List.length outs = List.length (m_defs i).

Lemma P_nth j i : List.nth_error P j = Some i ->
  exists x, List.nth_error prog_regs j = Some x /\ i = to_minstr (fst (fst x)) (snd (fst x)) (snd x)
            /\ p !! j = Some {| iuse := ms_of_regs (fst (fst x)); idef := ms_of_regs (snd (fst x)); isucc := snd x |}.
Proof.
  unfold P, p. rewrite List.nth_error_map. destruct (List.nth_error prog_regs j) as [x|] eqn:E; [|discriminate].
  cbn. intros [= <-]. exists x. repeat split; auto. rewrite list_lookup_fmap. 
  assert (prog_regs !! j = Some x) as ->; [|reflexivity].
  clear -E. revert j E. induction prog_regs as [|a l IH]; intros [|j] E; cbn in *; try discriminate; auto.
Qed.

Theorem allocation_preserves_semantics : forall n j R R' m st1,
  (forall l, LIn j l -> R l = R' (rename s l)) ->
  mrun val memt F P n (j, R, m) = Some st1 ->
  exists j1 R1 R1' m1, st1 = (j1, R1, m1)
    /\ mrun val memt F (List.map (rename_instr s) P) n (j, R', m) = Some (j1, R1', m1)
    /\ (forall l, LIn j1 l -> R1 l = R1' (rename s l)).
Proof.
  destruct (liveness_closed p fuel r Hlive) as (Hlen & Huse & Hout & Hsucc).
  apply (run_sim val memt F P s LIn LOut).
  - (* reads are live before *)
    intros j i l Hj Hl. destruct (P_nth j i Hj) as (x & Hx & -> & Hp). cbn [to_minstr m_uses] in Hl.
    assert (Hk : snd l < 16). { unfold regs_locs in Hl. apply in_flat_map in Hl as (rr & _ & Hl). now apply in_locs_of in Hl. }
    split; [exact Hk|]. apply (Huse j _ Hp). cbn [iuse]. now apply in_regs_locs.
  - (* live after and not written: live before *)
    intros j i l Hj [Hk Hl] Hnd. destruct (P_nth j i Hj) as (x & Hx & -> & Hp). cbn [to_minstr m_defs] in Hnd.
    split; [exact Hk|]. apply (Hout j _ Hp); [exact Hl|]. cbn [idef].
    destruct (mem (ms_of_regs (snd (fst x))) (fst l) (snd l)) eqn:E; [|reflexivity]. exfalso. apply Hnd. now apply in_regs_locs.
  - (* live before a successor: live after *)
    intros j i n0 l Hj Hn [Hk Hl]. destruct (P_nth j i Hj) as (x & Hx & -> & Hp). cbn [to_minstr m_succ] in Hn.
    split; [exact Hk|]. apply (Hsucc j _ n0 Hp); [|exact Hl]. cbn [isucc].
    apply in_flat_map in Hn as (o & Ho & Hn). destruct o as [j'|]; [|contradiction]. destruct Hn as [<-|[]]. exact Ho.
  - exact F_succ.
  - exact F_len.
  - (* no clobber *)
    intros j i d y Hj Hd [Hk Hy] Hne. destruct (P_nth j i Hj) as (x & Hx & -> & Hp). cbn [to_minstr m_defs] in Hd.
    unfold regs_locs in Hd. apply in_flat_map in Hd as (rd & Hrd & Hd). apply in_locs_of in Hd as (H1 & H2 & H3).
    unfold rename. intro E. inversion E as [[E1 E2]].
    apply (Hnc j x rd (snd d) Hx Hrd H3 H2 (fst y)); [rewrite <- E2; exact Hy|congruence|congruence].
Qed.
End Link.
