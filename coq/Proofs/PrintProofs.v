From Avo Require Import Base.Prelude Base.Str.
From stdpp Require Import gmap.
From Avo Require Import Base.MaskSet Model.IR Model.RegFile Model.Data Model.Attr Model.AsmSyntax Model.PrintAsm.
Open Scope N_scope.
Open Scope list_scope.

Lemma lines_instrs_app a b : lines_instrs (a ++ b) = lines_instrs a ++ lines_instrs b.
Proof. induction a as [|l a IH]; [reflexivity|]. destruct l; cbn [app lines_instrs]; rewrite ?IH; reflexivity. Qed.
Lemma lines_instrs_flush p : lines_instrs (flush p) = p.
Proof. unfold flush. generalize (block_width p). intro w. induction p as [|i p IH]; cbn; [reflexivity|]. now rewrite IH. Qed.
Lemma lines_instrs_bodycomments ls : lines_instrs (List.map LBodyComment ls) = [].
Proof. induction ls; cbn; auto. Qed.

(* every instruction exactly once and in order *)
Lemma body_instrs ns : forall pending clear, lines_instrs (body_lines ns pending clear) = pending ++ instructions ns.
Proof.
  induction ns as [|n ns IH]; intros pending clear; cbn [body_lines].
  - rewrite lines_instrs_flush. cbn. now rewrite app_nil_r.
  - destruct n as [l|ls|i].
    + rewrite !lines_instrs_app, lines_instrs_flush, IH. destruct clear; cbn; reflexivity.
    + rewrite !lines_instrs_app, lines_instrs_flush, lines_instrs_bodycomments, IH. destruct clear; cbn; reflexivity.
    + change (instructions (NInstr i :: ns)) with (i :: instructions ns).
      destruct (is_terminal i || is_unconditional_branch i).
      * rewrite lines_instrs_app, lines_instrs_flush, IH. cbn. rewrite <- app_assoc. reflexivity.
      * rewrite IH. rewrite <- app_assoc. reflexivity.
Qed.

Lemma lines_labels_app a b k : lines_labels (a ++ b) k = lines_labels a k ++ lines_labels b (k + length (lines_instrs a)).
Proof.
  revert k; induction a as [|l a IH]; intro k; [cbn; now rewrite Nat.add_0_r|].
  destruct l; cbn [app lines_labels lines_instrs length]; rewrite ?IH; try reflexivity.
  all: try (f_equal; f_equal; lia); try (f_equal; lia).
Qed.
Lemma lines_labels_flush p k : lines_labels (flush p) k = [].
Proof. unfold flush. generalize (block_width p). intro w. revert k. induction p as [|i p IH]; intro k; cbn; auto. Qed.
Lemma lines_labels_bodycomments ls k : lines_labels (List.map LBodyComment ls) k = [].
Proof. induction ls; cbn; auto. Qed.

(* every label is bound to the same instruction (by index) as in the program *)
Lemma body_labels ns : forall pending clear k,
  lines_labels (body_lines ns pending clear) k = node_labels ns (k + length pending).
Proof.
  induction ns as [|n ns IH]; intros pending clear k; cbn [body_lines node_labels].
  - apply lines_labels_flush.
  - destruct n as [l|ls|i].
    + rewrite lines_labels_app, lines_labels_flush, lines_instrs_flush. cbn [app].
      destruct clear; cbn [app lines_labels]; rewrite IH; cbn [length]; rewrite Nat.add_0_r; reflexivity.
    + rewrite lines_labels_app, lines_labels_flush, lines_instrs_flush. cbn [app].
      destruct clear; cbn [app lines_labels];
        rewrite lines_labels_app, lines_labels_bodycomments, lines_instrs_bodycomments, IH; cbn [app length]; rewrite !Nat.add_0_r; reflexivity.
    + destruct (is_terminal i || is_unconditional_branch i).
      * rewrite lines_labels_app, lines_labels_flush, lines_instrs_flush, IH. cbn [app length]. rewrite app_length. cbn [length]. f_equal. lia.
      * rewrite IH. rewrite app_length. cbn [length]. f_equal. lia.
Qed.
