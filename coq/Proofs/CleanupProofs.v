(* C10: what PruneJumpToFollowingLabel and PruneDanglingLabels may delete. *)
From Avo Require Import Base.Prelude.
From stdpp Require Import gmap.
From Avo Require Import Base.MaskSet Model.IR Model.Cleanup.
Open Scope N_scope.
Open Scope list_scope.

(* the result of prune_jumps is the input with some nodes dropped; every dropped node is an
   unconditional branch whose target label is the node that immediately followed it *)
Inductive jumps_dropped : list node -> list node -> Prop :=
| JD_nil : jumps_dropped [] []
| JD_keep n a b : jumps_dropped a b -> jumps_dropped (n :: a) (n :: b)
| JD_drop i l a b : is_branch i = true -> is_conditional i = false -> target_label i = Some l ->
    jumps_dropped (NLabel l :: a) b -> jumps_dropped (NInstr i :: NLabel l :: a) b.

Lemma jump_to_next_spec n m : jump_to_next n m = true ->
  exists i l, n = NInstr i /\ m = NLabel l /\ is_branch i = true /\ is_conditional i = false /\ target_label i = Some l.
Proof.
  unfold jump_to_next. destruct n as [| |i]; try discriminate. destruct m as [l| |]; try discriminate.
  intro H. apply andb_true_iff in H as [H H3]. apply andb_true_iff in H as [H1 H2]. apply negb_true_iff in H2.
  destruct (target_label i) as [t|] eqn:Et; [|discriminate]. apply String.eqb_eq in H3. subst t.
  exists i, l. repeat split; auto.
Qed.

Lemma prune_jumps_dropped ns : jumps_dropped ns (prune_jumps ns).
Proof.
  induction ns as [|n r IH]; [constructor|]. cbn [prune_jumps]. destruct r as [|m r']; [repeat constructor|].
  destruct (jump_to_next n m) eqn:E.
  - destruct (jump_to_next_spec n m E) as (i & l & -> & -> & H1 & H2 & H3). now apply JD_drop.
  - now constructor.
Qed.

(* no label is ever deleted by prune_jumps, and no reference is invented *)
Lemma jumps_dropped_labels a b : jumps_dropped a b -> forall l, In (NLabel l) a -> In (NLabel l) b.
Proof.
  induction 1 as [|n a b H IH|i l0 a b H1 H2 H3 H IH]; intros l Hin; [exact Hin| |].
  - destruct Hin as [->|Hin]; [now left|right; now apply IH].
  - apply IH. destruct Hin as [Hin|Hin]; [discriminate|exact Hin].
Qed.
Lemma jumps_dropped_refs a b : jumps_dropped a b -> forall l, In l (label_refs b) -> In l (label_refs a).
Proof.
  induction 1 as [|n a b H IH|i l0 a b H1 H2 H3 H IH]; intros l Hin; [exact Hin| |].
  - unfold label_refs in *. cbn [flat_map] in *. apply in_app_or in Hin as [Hin|Hin]; apply in_or_app; [now left|right; now apply IH].
  - unfold label_refs in *. cbn [flat_map]. apply in_or_app. right. now apply IH.
Qed.

(* prune_labels removes labels only: references are unchanged, and a referenced label that was
   defined is still defined *)
Lemma filter_labels_refs refs ns :
  label_refs (List.filter (fun n => match n with NLabel l => existsb (String.eqb l) refs | _ => true end) ns) = label_refs ns.
Proof.
  unfold label_refs. induction ns as [|n r IH]; [reflexivity|]. cbn [List.filter flat_map].
  destruct n as [l| |i]; cbn [flat_map]; [destruct (existsb (String.eqb l) refs); cbn [flat_map]; exact IH| |]; now rewrite IH.
Qed.
Lemma prune_labels_refs ns : label_refs (prune_labels ns) = label_refs ns.
Proof. unfold prune_labels. apply filter_labels_refs. Qed.
Lemma prune_labels_defined ns l : In l (label_refs ns) -> In (NLabel l) ns -> In (NLabel l) (prune_labels ns).
Proof.
  intros Hr Hd. unfold prune_labels. apply List.filter_In. split; [exact Hd|]. apply existsb_exists. exists l. split; [exact Hr|apply String.eqb_refl].
Qed.

(* together: after both passes every branch still names a label that is defined, if it was before *)
Theorem cleanup_keeps_targets ns l :
  In l (label_refs (prune_labels (prune_jumps ns))) -> In (NLabel l) ns ->
  In (NLabel l) (prune_labels (prune_jumps ns)) /\ In l (label_refs ns).
Proof.
  intros Hr Hd. pose proof (prune_jumps_dropped ns) as Hj. split.
  - apply prune_labels_defined; [now rewrite prune_labels_refs in Hr|]. eapply jumps_dropped_labels; eauto.
  - rewrite prune_labels_refs in Hr. eapply jumps_dropped_refs; eauto.
Qed.
