(* C01: simulation between a program over virtual registers (every ID its own storage) and the same
   program with register IDs renamed by an allocation, given live sets closed under the dataflow
   inclusions and the no-clobber condition. *)
From Avo Require Import Base.Prelude Model.Sem.
Open Scope N_scope.

Lemma loc_eqb_eq a b : loc_eqb a b = true <-> a = b.
Proof.
  unfold loc_eqb. destruct a as [a1 a2], b as [b1 b2]. cbn. rewrite andb_true_iff, !N.eqb_eq. split; [intros [-> ->]; reflexivity|intros [= -> ->]; auto].
Qed.
Lemma loc_eqb_refl a : loc_eqb a a = true. Proof. now apply loc_eqb_eq. Qed.

Section Sim.
Variables (val memt : Type).
Variable F : nat -> list val -> memt -> list val * memt * option nat.
Variable P : list minstr.
Variable s : N -> N.                               (* the allocation, identity on physical IDs *)
Variables (LiveIn LiveOut : nat -> loc -> Prop).

Hypothesis use_in : forall j i l, List.nth_error P j = Some i -> In l (m_uses i) -> LiveIn j l.
Hypothesis out_in : forall j i l, List.nth_error P j = Some i -> LiveOut j l -> ~ In l (m_defs i) -> LiveIn j l.
Hypothesis in_out : forall j i n l, List.nth_error P j = Some i -> In n (m_succ i) -> LiveIn n l -> LiveOut j l.
(* the semantics follows the control-flow graph *)
Hypothesis F_succ : forall j i vs m outs m' n, List.nth_error P j = Some i -> F j vs m = (outs, m', Some n) -> In n (m_succ i).
(* the semantics supplies a value for every declared output (an output that may be left unchanged,
   as by CMOVcc or merge-masking, is also an input and is written back) *)
Hypothesis F_len : forall j i vs m outs m' npc, List.nth_error P j = Some i -> F j vs m = (outs, m', npc) -> List.length outs = List.length (m_defs i).
(* no definition lands on the storage of a different register that is live after the instruction *)
Hypothesis no_clobber : forall j i d y, List.nth_error P j = Some i -> In d (m_defs i) -> LiveOut j y ->
  fst y <> fst d -> rename s y <> rename s d.

Definition P' := List.map (rename_instr s) P.
Definition Rel (j : nat) (R R' : rstate val) := forall l, LiveIn j l -> R l = R' (rename s l).

(* the value a positional write leaves in a location: the last matching definition *)
Fixpoint wv (ds : list loc) (vs : list val) (l : loc) : option val :=
  match ds, vs with
  | d :: ds', v :: vs' => match wv ds' vs' l with Some w => Some w | None => if loc_eqb l d then Some v else None end
  | _, _ => None
  end.
Lemma write_wv ds : forall vs (R : rstate val) l, write val R ds vs l = match wv ds vs l with Some v => v | None => R l end.
Proof.
  induction ds as [|d ds IH]; intros vs R l; cbn [write wv]; [reflexivity|].
  destruct vs as [|v vs]; [reflexivity|]. rewrite IH. destruct (wv ds vs l); [reflexivity|]. unfold upd. destruct (loc_eqb l d); reflexivity.
Qed.
Lemma wv_none ds vs l : ~ In l ds -> wv ds vs l = None.
Proof.
  revert vs; induction ds as [|d ds IH]; intros vs Hn; cbn [wv]; [reflexivity|]. destruct vs as [|v vs]; [reflexivity|].
  rewrite IH by (intro; apply Hn; now right). destruct (loc_eqb l d) eqn:E; [|reflexivity].
  apply loc_eqb_eq in E. subst. exfalso. apply Hn. now left.
Qed.
Lemma wv_in_some ds : forall vs l, In l ds -> List.length ds = List.length vs -> wv ds vs l <> None.
Proof.
  induction ds as [|d ds IH]; intros vs l Hin Hlen; [contradiction|]. destruct vs as [|v vs]; [discriminate|].
  cbn [wv]. cbn [List.length] in Hlen. destruct Hin as [->|Hin].
  - destruct (wv ds vs l); [discriminate|]. rewrite loc_eqb_refl. discriminate.
  - specialize (IH vs l Hin ltac:(lia)). destruct (wv ds vs l); [discriminate|congruence].
Qed.
Lemma wv_map ds : forall vs y, (forall d, In d ds -> rename s d = rename s y -> d = y) ->
  wv (List.map (rename s) ds) vs (rename s y) = wv ds vs y.
Proof.
  induction ds as [|d ds IH]; intros vs y Hinj; cbn [List.map wv]; [reflexivity|]. destruct vs as [|v vs]; [reflexivity|].
  rewrite IH by (intros d' Hd'; apply Hinj; now right).
  destruct (wv ds vs y); [reflexivity|].
  destruct (loc_eqb y d) eqn:E.
  - apply loc_eqb_eq in E. subst. now rewrite loc_eqb_refl.
  - destruct (loc_eqb (rename s y) (rename s d)) eqn:E'; [|reflexivity].
    apply loc_eqb_eq in E'. rewrite (Hinj d (or_introl eq_refl) (eq_sym E')) in E. now rewrite loc_eqb_refl in E.
Qed.

Lemma rename_same_id y d : fst y = fst d -> rename s y = rename s d -> y = d.
Proof. destruct y as [y1 y2], d as [d1 d2]. unfold rename. cbn. intros -> H. inversion H. reflexivity. Qed.

Lemma map_rel j i R R' : List.nth_error P j = Some i -> Rel j R R' ->
  List.map R (m_uses i) = List.map R' (List.map (rename s) (m_uses i)).
Proof.
  intros Hj Hr. rewrite List.map_map. apply List.map_ext_in. intros l Hl. apply Hr. eapply use_in; eauto.
Qed.

(* one step in lock-step *)
Lemma step_sim j R R' m st1 : Rel j R R' -> mstep val memt F P (j, R, m) = Some st1 ->
  exists n R1 R1' m1, st1 = (n, R1, m1) /\ mstep val memt F P' (j, R', m) = Some (n, R1', m1) /\ Rel n R1 R1'.
Proof.
  intros Hr H. unfold mstep in *. unfold P'. rewrite List.nth_error_map.
  destruct (List.nth_error P j) as [i|] eqn:Hj; [|discriminate]. cbn [option_map rename_instr m_uses m_defs].
  rewrite <- (map_rel j i R R' Hj Hr).
  destruct (F j (List.map R (m_uses i)) m) as [[outs m'] npc] eqn:EF. destruct npc as [n|]; [|discriminate].
  inversion H; subst st1. exists n, (write val R (m_defs i) outs), (write val R' (List.map (rename s) (m_defs i)) outs), m'.
  split; [reflexivity|]. split; [reflexivity|].
  intros y Hy. assert (Hout : LiveOut j y) by (eapply in_out; eauto; eapply F_succ; eauto).
  assert (Hinj : forall d, In d (m_defs i) -> rename s d = rename s y -> d = y).
  { intros d Hd He. destruct (N.eq_dec (fst y) (fst d)) as [E|E].
    - symmetry. apply rename_same_id; auto.
    - exfalso. eapply (no_clobber j i d y); eauto. }
  rewrite !write_wv, wv_map by exact Hinj.
  destruct (wv (m_defs i) outs y) eqn:Ew; [reflexivity|].
  (* not written: live before, hence related before, and untouched in both runs *)
  apply Hr. eapply out_in; eauto. intro Hin.
  pose proof (F_len j i _ _ _ _ _ Hj EF) as Hlen.
  apply (wv_in_some (m_defs i) outs y Hin (eq_sym Hlen)). exact Ew.
Qed.

(* any number of steps: same program counters, same memory, related registers *)
Theorem run_sim : forall n j R R' m st1, Rel j R R' -> mrun val memt F P n (j, R, m) = Some st1 ->
  exists j1 R1 R1' m1, st1 = (j1, R1, m1) /\ mrun val memt F P' n (j, R', m) = Some (j1, R1', m1) /\ Rel j1 R1 R1'.
Proof.
  induction n as [|n IH]; intros j R R' m st1 Hr H; cbn [mrun] in *.
  - inversion H; subst. exists j, R, R', m. auto.
  - destruct (mstep val memt F P (j, R, m)) as [st|] eqn:E; [|discriminate].
    destruct (step_sim j R R' m st Hr E) as (j1 & R1 & R1' & m1 & -> & E' & Hr1). rewrite E'.
    apply (IH j1 R1 R1' m1 st1 Hr1 H).
Qed.
(* and the compiled run stops exactly when the reference run stops *)
Theorem stop_sim : forall j R R' m, Rel j R R' -> mstep val memt F P (j, R, m) = None -> mstep val memt F P' (j, R', m) = None.
Proof.
  intros j R R' m Hr H. unfold mstep in *. unfold P'. rewrite List.nth_error_map.
  destruct (List.nth_error P j) as [i|] eqn:Hj; [|reflexivity]. cbn [option_map rename_instr m_uses m_defs].
  rewrite <- (map_rel j i R R' Hj Hr).
  destruct (F j (List.map R (m_uses i)) m) as [[outs m'] npc]. destruct npc; [discriminate|reflexivity].
Qed.
End Sim.
