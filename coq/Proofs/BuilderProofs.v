From Avo Require Import Base.Prelude Base.Str Model.Data Model.Builder.
Open Scope Z_scope.

(* one step: the error count grows by at least one on a fault and not at all otherwise *)
Ltac fin := cbn; split; intros; try discriminate; try lia; try reflexivity.
Lemma step_errs s o :
  (is_fault s o = true -> (b_errs s < b_errs (b_step s o))%nat) /\ (is_fault s o = false -> b_errs (b_step s o) = b_errs s).
Proof.
  destruct s as [f g e n]. destruct o as [| | | |ok|ok| | | |oc|oc| |ok| | |off sz|sz];
    unfold is_fault, b_step, need_func, need_global, add_errs; cbn [b_func b_global b_errs b_instrs].
  - fin.
  - destruct f; fin.
  - destruct f; fin.
  - destruct f; fin.
  - destruct ok, f; fin.
  - destruct ok, f; fin.
  - destruct f; fin.
  - destruct f; fin.
  - destruct f; fin.
  - destruct f, oc; fin.
  - destruct f, oc; fin.
  - destruct f; fin.
  - destruct ok; fin.
  - fin.
  - destruct g; fin.
  - destruct g as [g|]; [|fin]. unfold g_step. destruct (existsb _ _); fin.
  - destruct g as [g|]; fin.
Qed.

Lemma errs_monotone_step s o : (b_errs s <= b_errs (b_step s o))%nat.
Proof. destruct (step_errs s o) as [H1 H2]. destruct (is_fault s o); [specialize (H1 eq_refl); lia|rewrite H2; auto]. Qed.

Lemma run_from s h : (b_errs s + count_faults s h <= b_errs (fold_left b_step h s))%nat
                     /\ (count_faults s h = 0%nat -> b_errs (fold_left b_step h s) = b_errs s).
Proof.
  revert s; induction h as [|o h IH]; intro s; cbn [fold_left count_faults]; [split; [lia|reflexivity]|].
  destruct (IH (b_step s o)) as [IH1 IH2]. destruct (step_errs s o) as [H1 H2].
  destruct (is_fault s o) eqn:E.
  - specialize (H1 eq_refl). split; [lia|discriminate].
  - rewrite (H2 eq_refl) in *. split; [lia|]. cbn. intro Hc. apply IH2. assumption.
Qed.

(* an error message for each builder-time fault; no error on a history of valid requests; one bad
   call is never masked by later good ones *)
Theorem errors_counted_lemma h :
  (count_faults b_init h <= b_errs (b_run h))%nat /\ (count_faults b_init h = 0%nat -> b_errs (b_run h) = 0%nat).
Proof. unfold b_run. destruct (run_from b_init h) as [H1 H2]. cbn in H1. split; [lia|intro H; rewrite (H2 H); reflexivity]. Qed.

Theorem never_masked_lemma h1 h2 : (b_errs (b_run h1) <= b_errs (b_run (h1 ++ h2)))%nat.
Proof.
  unfold b_run. rewrite fold_left_app. generalize (fold_left b_step h1 b_init). intro s.
  induction h2 as [|o h IH] using rev_ind; [cbn; lia|]. rewrite fold_left_app. cbn [fold_left].
  pose proof (errs_monotone_step (fold_left b_step h s) o). lia.
Qed.

Theorem main_status_lemma errs cok :
  (fst (main_status errs cok) <> 0%nat <-> (0 < errs)%nat \/ cok = false)
  /\ (snd (main_status errs cok) = true <-> fst (main_status errs cok) = 0%nat).
Proof.
  unfold main_status. destruct (Nat.ltb_spec 0 errs) as [H|H]; [|destruct cok]; cbn [fst snd];
    (split; split; intros Hx; try lia; try discriminate; try (left; lia); try (right; reflexivity); try reflexivity).
  all: try (destruct Hx as [Hx|Hx]; [lia|discriminate]).
Qed.
