From Avo Require Import Base.Prelude Base.Str Model.Attr.
Open Scope string_scope.
Open Scope N_scope.

Lemma attr_chunk_ok_value names h start len a :
  attr_chunk_ok names h start len = true -> start <= a < start + len -> attr_value_ok names h a = true.
Proof.
  unfold attr_chunk_ok. intros Hall Ha. rewrite forallb_forall in Hall. apply Hall.
  apply Nrange_from_In. rewrite N2Nat.id. exact Ha.
Qed.

Lemma attr_table_ok_value names h :
  attr_table_ok names h -> forall a, a < 65536 -> attr_value_ok names h a = true.
Proof.
  intros Hall a Ha.
  assert (Hk : a / 4096 < 16) by (apply N.div_lt_upper_bound; lia).
  apply (attr_chunk_ok_value names h _ _ a (Hall _ Hk)).
  pose proof (N.div_mod a 4096). pose proof (N.mod_lt a 4096). lia.
Qed.

Lemma option_eqb_N_true a b : option_eqb N.eqb a b = true -> a = b.
Proof. destruct a, b; cbn; try discriminate; [|reflexivity]. intro H. apply N.eqb_eq in H. congruence. Qed.

Lemma attr_value_ok_parts names h a : attr_value_ok names h a = true ->
  eval_flags h (attr_asm names a) = Some a
  /\ uses_macro (attr_asm names a) = contains_text_flags names a
  /\ eval_text_field h (text_flag_field names a) = Some a
  /\ eval_text_field h (directive_flag_field (text_line names "f" a 0 0)) = Some a
  /\ eval_text_field h (directive_flag_field (globl_line names "g<>" a 8)) = Some a.
Proof.
  unfold attr_value_ok. rewrite !andb_true_iff. intros [[[[H1 H2] H3] H4] H5].
  repeat split; try (apply option_eqb_N_true; assumption). apply Bool.eqb_prop; assumption.
Qed.

(* IncludeTextFlagHeader: if any section needs the header it is present afterwards, exactly one
   header is appended at most, existing includes are kept in order *)
Lemma include_textflag_spec names inc attrs :
  let out := include_textflag names inc attrs in
  (existsb (contains_text_flags names) attrs = true -> In textflag_header out)
  /\ (out = inc \/ (out = app inc [textflag_header] /\ ~ In textflag_header inc)).
Proof.
  cbn zeta. unfold include_textflag.
  destruct (existsb (String.eqb textflag_header) inc) eqn:E.
  - split; [|left; reflexivity]. intros _. apply existsb_exists in E as (x & Hx & Hq).
    apply String.eqb_eq in Hq. subst x. assumption.
  - destruct (existsb (contains_text_flags names) attrs) eqn:E2.
    + split; [intros _; apply in_or_app; right; left; reflexivity|]. right. split; [reflexivity|].
      intro Hin. assert (existsb (String.eqb textflag_header) inc = true); [|congruence].
      apply existsb_exists. exists textflag_header. split; [assumption|apply String.eqb_refl].
    + split; [discriminate|left; reflexivity].
Qed.

Lemma attr_chunk_bad_nil names h start len :
  attr_chunk_bad names h start len = [] -> attr_chunk_ok names h start len = true.
Proof.
  unfold attr_chunk_bad, attr_chunk_ok. induction (Nrange_from start (N.to_nat len)) as [|x l IH]; cbn [filter forallb]; [reflexivity|].
  destruct (attr_value_ok names h x); cbn [negb]; [intro H; rewrite IH by assumption; reflexivity|discriminate].
Qed.
