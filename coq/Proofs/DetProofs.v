(* C17: order-independence of the computations that range over Go maps. *)
From Avo Require Import Base.Prelude.
From Coq Require Import Permutation.
From stdpp Require Import gmap.
From Avo Require Import Base.MaskSet Model.IR Model.RegFile Model.Liveness Model.Alloc.
Open Scope N_scope.

(* a fold whose step commutes does not depend on the order of the list *)
Lemma fold_left_perm {A B} (f : A -> B -> A) (Hc : forall a x y, f (f a x) y = f (f a y) x) l l' :
  Permutation l l' -> forall a, fold_left f l a = fold_left f l' a.
Proof.
  induction 1 as [|x l l' _ IH|x y l|l l' l'' _ IH1 _ IH2]; intro a; cbn [fold_left]; auto.
  - now rewrite Hc.
  - now rewrite IH1, IH2.
Qed.

(* mostrestricted: minimum of (number of possibilities, ID) *)
Definition mr_step (acc : N * N) (e : N * list N) : N * N :=
  let n := N.of_nat (length (snd e)) in
  if (n <? fst acc) || ((n =? fst acc) && (fst e <? snd acc)) then (n, fst e) else acc.
Lemma mr_step_comm a x y : mr_step (mr_step a x) y = mr_step (mr_step a y) x.
Proof.
  unfold mr_step. destruct a as [a1 a2]. cbn [fst snd].
  set (nx := N.of_nat (length (snd x))). set (ny := N.of_nat (length (snd y))).
  destruct ((nx <? a1) || ((nx =? a1) && (fst x <? a2))) eqn:E1; destruct ((ny <? a1) || ((ny =? a1) && (fst y <? a2))) eqn:E2; cbn [fst snd].
  - destruct ((ny <? nx) || ((ny =? nx) && (fst y <? fst x))) eqn:E3; destruct ((nx <? ny) || ((nx =? ny) && (fst x <? fst y))) eqn:E4; try reflexivity.
    + exfalso. lia.
    + assert (nx = ny /\ fst x = fst y) by lia. destruct H as [-> ->]. reflexivity.
  - rewrite E1. destruct ((ny <? nx) || ((ny =? nx) && (fst y <? fst x))) eqn:E3; [exfalso; lia|reflexivity].
  - rewrite E2. destruct ((nx <? ny) || ((nx =? ny) && (fst x <? fst y))) eqn:E4; [exfalso; lia|reflexivity].
  - rewrite E1, E2. reflexivity.
Qed.
Theorem most_restricted_order_free_lemma l l' : Permutation l l' -> most_restricted l = most_restricted l'.
Proof.
  intro H. unfold most_restricted. f_equal.
  change (fold_left mr_step l (2147483647, 0) = fold_left mr_step l' (2147483647, 0)).
  apply fold_left_perm; [apply mr_step_comm|exact H].
Qed.

(* MaskSet.Update / Clone / OfKind: adding entries in any order gives the same set (observed
   through get, which is how every consumer reads a mask set) *)
Lemma get_fold_add l : forall s id,
  get (fold_left (fun acc p => ms_add acc (fst p) (snd p)) l s) id
  = fold_left (fun m p => if fst p =? id then N.lor m (snd p) else m) l (get s id).
Proof.
  induction l as [|p l IH]; intros s id; cbn [fold_left]; [reflexivity|].
  rewrite IH, get_add. reflexivity.
Qed.
Theorem ms_fold_add_order_free_lemma l l' s : Permutation l l' -> forall id,
  get (fold_left (fun acc p => ms_add acc (fst p) (snd p)) l s) id = get (fold_left (fun acc p => ms_add acc (fst p) (snd p)) l' s) id.
Proof.
  intros H id. rewrite !get_fold_add. apply fold_left_perm; [|exact H].
  intros a x y. destruct (fst x =? id), (fst y =? id); try reflexivity.
  rewrite <- !N.lor_assoc, (N.lor_comm (snd x)). reflexivity.
Qed.
Lemma get_fold_discard l : forall s id,
  get (fold_left (fun acc p => ms_discard acc (fst p) (snd p)) l s) id
  = fold_left (fun m p => if fst p =? id then N.ldiff m (snd p) else m) l (get s id).
Proof.
  induction l as [|p l IH]; intros s id; cbn [fold_left]; [reflexivity|].
  rewrite IH, get_discard. reflexivity.
Qed.
Theorem ms_fold_discard_order_free_lemma l l' s : Permutation l l' -> forall id,
  get (fold_left (fun acc p => ms_discard acc (fst p) (snd p)) l s) id = get (fold_left (fun acc p => ms_discard acc (fst p) (snd p)) l' s) id.
Proof.
  intros H id. rewrite !get_fold_discard. apply fold_left_perm; [|exact H].
  intros a x y. destruct (fst x =? id), (fst y =? id); try reflexivity.
  apply N.bits_inj. intro k. rewrite !N.ldiff_spec. destruct (N.testbit a k), (N.testbit (snd x) k), (N.testbit (snd y) k); reflexivity.
Qed.

(* update(): the possible-sets after processing the edges do not depend on the edge order, and
   neither does the error; the edges left over are the same up to order *)
Definition upd_po (al : AL) (po : POSS) (e : N * N) : POSS :=
  let x := lookup_default al (fst e) in let y := lookup_default al (snd e) in
  match id_is_virtual x, id_is_virtual y with
  | false, true => discard_conflicting po y x
  | true, false => discard_conflicting po x y
  | _, _ => po
  end.
Definition edge_bad (al : AL) (e : N * N) : bool :=
  let x := lookup_default al (fst e) in let y := lookup_default al (snd e) in
  negb (id_is_virtual x) && negb (id_is_virtual y) && (x =? y).
Definition edge_rem (al : AL) (e : N * N) : bool :=
  id_is_virtual (lookup_default al (fst e)) && id_is_virtual (lookup_default al (snd e)).

Lemma a_update_go_spec al : forall es rem po,
  a_update_go al es rem po =
  if existsb (edge_bad al) es then Err EImpossible
  else OK (rem ++ List.filter (edge_rem al) es, fold_left (upd_po al) es po).
Proof.
  induction es as [|[ex ey] es IH]; intros rem po; cbn [a_update_go existsb List.filter fold_left].
  - now rewrite app_nil_r.
  - unfold edge_bad at 1, edge_rem at 1, upd_po at 2. cbn [fst snd].
    destruct (id_is_virtual (lookup_default al ex)) eqn:Ex, (id_is_virtual (lookup_default al ey)) eqn:Ey; cbn [negb andb orb].
    + rewrite IH. destruct (existsb (edge_bad al) es); [reflexivity|]. now rewrite <- app_assoc.
    + rewrite IH. reflexivity.
    + rewrite IH. reflexivity.
    + destruct (lookup_default al ex =? lookup_default al ey); cbn [orb]; [reflexivity|]. rewrite IH. reflexivity.
Qed.

Lemma filter_comm {A} (f g : A -> bool) l : List.filter f (List.filter g l) = List.filter g (List.filter f l).
Proof.
  induction l as [|x l IH]; [reflexivity|]. cbn [List.filter].
  destruct (g x) eqn:Eg, (f x) eqn:Ef; cbn [List.filter]; rewrite ?Eg, ?Ef, ?IH; reflexivity.
Qed.
Lemma discard_comm po v p v' p' :
  discard_conflicting (discard_conflicting po v p) v' p' = discard_conflicting (discard_conflicting po v' p') v p.
Proof.
  unfold discard_conflicting. destruct (decide (v = v')) as [<-|Hne].
  - rewrite !lookup_insert, !insert_insert. cbn [default]. f_equal. apply filter_comm.
  - assert (Hne' : v' <> v) by congruence. rewrite (lookup_insert_ne po v v') by exact Hne. rewrite (lookup_insert_ne po v' v) by exact Hne'. apply insert_commute. exact Hne'.
Qed.
Lemma upd_po_comm al po e1 e2 : upd_po al (upd_po al po e1) e2 = upd_po al (upd_po al po e2) e1.
Proof.
  unfold upd_po.
  destruct (id_is_virtual (lookup_default al (fst e1))), (id_is_virtual (lookup_default al (snd e1))),
           (id_is_virtual (lookup_default al (fst e2))), (id_is_virtual (lookup_default al (snd e2))); try reflexivity; apply discard_comm.
Qed.

Theorem update_edge_order_free_lemma al es es' po : Permutation es es' ->
  match a_update_go al es [] po, a_update_go al es' [] po with
  | OK (rem, po1), OK (rem', po2) => Permutation rem rem' /\ po1 = po2
  | Err e, Err e' => e = e'
  | _, _ => False
  end.
Proof.
  intro H. rewrite !a_update_go_spec.
  assert (Hb : existsb (edge_bad al) es = existsb (edge_bad al) es').
  { apply eq_true_iff_eq. rewrite !existsb_exists. split; intros (x & Hx & Hbx); exists x; (split; [|exact Hbx]).
    - eapply Permutation_in; [exact H|exact Hx].
    - eapply Permutation_in; [apply Permutation_sym; exact H|exact Hx]. }
  rewrite <- Hb. destruct (existsb (edge_bad al) es); [reflexivity|]. cbn [app]. split.
  - clear Hb. induction H; cbn [List.filter]; auto.
    + destruct (edge_rem al x); auto.
    + destruct (edge_rem al x), (edge_rem al y); auto. apply perm_swap.
    + eapply perm_trans; eauto.
  - apply fold_left_perm; [intros; apply upd_po_comm|exact H].
Qed.

(* Allocate(): the final allocation (or error) does not depend on the order of the edge list *)
Theorem allocate_order_free_lemma fuel : forall regs al es es' po, Permutation es es' ->
  a_allocate fuel {| a_regs := regs; a_alloc := al; a_edges := es; a_poss := po |}
  = a_allocate fuel {| a_regs := regs; a_alloc := al; a_edges := es'; a_poss := po |}.
Proof.
  induction fuel as [|f IH]; intros regs al es es' po H; [reflexivity|]. cbn [a_allocate a_alloc a_edges a_poss a_regs].
  pose proof (update_edge_order_free_lemma al es es' po H) as Hu.
  destruct (a_update_go al es [] po) as [[rem po1]| |], (a_update_go al es' [] po) as [[rem' po2]| |]; try contradiction.
  - destruct Hu as [Hp ->]. cbn [res_bind]. destruct (Nat.eqb (size po2) 0); [reflexivity|].
    destruct (default [] (po2 !! most_restricted (map_to_list po2))) as [|pch rest]; [reflexivity|]. now apply IH.
  - now subst.
Qed.

(* AddInterferenceSet ranges over a Go map: for any two enumeration orders the recorded edges agree
   up to order and `possible` is the same map *)
Definition padd (regs : list N) (po : POSS) (v : N) : POSS :=
  if negb (id_is_virtual v) then po
  else match po !! v with Some _ => po | None => <[v := List.filter (fun r => id_kind v =? id_kind r) regs]> po end.
Lemma a_add_eq a v : a_add a v = {| a_regs := a_regs a; a_alloc := a_alloc a; a_edges := a_edges a; a_poss := padd (a_regs a) (a_poss a) v |}.
Proof. unfold a_add, padd. destruct a as [r al e po]. cbn [a_regs a_alloc a_edges a_poss]. destruct (negb (id_is_virtual v)); [reflexivity|]. destruct (po !! v); reflexivity. Qed.
Lemma padd_comm regs po x y : padd regs (padd regs po x) y = padd regs (padd regs po y) x.
Proof.
  unfold padd. destruct (id_is_virtual x) eqn:Vx, (id_is_virtual y) eqn:Vy; cbn [negb]; try reflexivity.
  destruct (po !! x) eqn:Ex, (po !! y) eqn:Ey; rewrite ?Ex, ?Ey; try reflexivity.
  - destruct (decide (y = x)) as [->|Hne]; [congruence|]. rewrite lookup_insert_ne by assumption. now rewrite Ex.
  - destruct (decide (x = y)) as [->|Hne]; [congruence|]. rewrite lookup_insert_ne by assumption. now rewrite Ey.
  - destruct (decide (x = y)) as [->|Hne].
    + rewrite !lookup_insert. reflexivity.
    + rewrite (lookup_insert_ne _ x y) by assumption. rewrite (lookup_insert_ne _ y x) by congruence. rewrite Ex, Ey.
      apply insert_commute. congruence.
Qed.

Definition overlaps (d : reg) (e : N * N) : bool := negb (N.land (rmask d) (snd e) =? 0).
Lemma ais_spec d order : forall a,
  a_add_interference_set a d order =
  {| a_regs := a_regs a; a_alloc := a_alloc a;
     a_edges := a_edges a ++ List.map (fun e => (rid d, fst e)) (List.filter (overlaps d) order);
     a_poss := fold_left (padd (a_regs a)) (flat_map (fun e => if overlaps d e then [rid d; fst e] else []) order) (a_poss a) |}.
Proof.
  unfold a_add_interference_set. induction order as [|e order IH]; intro a; cbn [fold_left List.filter List.map flat_map].
  - rewrite app_nil_r. destruct a; reflexivity.
  - fold (overlaps d e). destruct (overlaps d e); [|apply IH].
    rewrite IH. unfold a_add_interference. rewrite !a_add_eq. cbn [a_regs a_alloc a_edges a_poss List.map app fold_left].
    now rewrite <- app_assoc.
Qed.

Theorem interference_edges_order_free_lemma a d order order' : Permutation order order' ->
  let s := a_add_interference_set a d order in let s' := a_add_interference_set a d order' in
  a_regs s = a_regs s' /\ a_alloc s = a_alloc s' /\ Permutation (a_edges s) (a_edges s') /\ a_poss s = a_poss s'.
Proof.
  intro H. cbn zeta. rewrite !ais_spec. cbn [a_regs a_alloc a_edges a_poss]. split; [reflexivity|]. split; [reflexivity|]. split.
  - apply Permutation_app_head, Permutation_map.
    clear -H. induction H; cbn [List.filter]; auto.
    + destruct (overlaps d x); auto.
    + destruct (overlaps d x), (overlaps d y); auto. apply perm_swap.
    + eapply perm_trans; eauto.
  - apply fold_left_perm; [intros; apply padd_comm|]. apply Permutation_flat_map. exact H.
Qed.

Theorem allocate_after_interference_order_free_lemma fuel a d order order' : Permutation order order' ->
  a_allocate fuel (a_add_interference_set a d order) = a_allocate fuel (a_add_interference_set a d order').
Proof.
  intro H. destruct (interference_edges_order_free_lemma a d order order' H) as (R & A & E & P).
  destruct (a_add_interference_set a d order) as [r1 al1 e1 p1], (a_add_interference_set a d order') as [r2 al2 e2 p2].
  cbn [a_regs a_alloc a_edges a_poss] in *. subst. now apply allocate_order_free_lemma.
Qed.

(* Allocation.Merge ranges over the map b: folding its entries in any order gives the same map, or
   the same error *)
Definition merge_step (r : res AL) (e : N * N) : res AL :=
  do m <- r; match m !! fst e with
             | Some alt => if alt =? snd e then OK (<[fst e := snd e]> m) else Err EDisagree
             | None => OK (<[fst e := snd e]> m) end.
Lemma merge_step_comm r e1 e2 : merge_step (merge_step r e1) e2 = merge_step (merge_step r e2) e1.
Proof.
  destruct r as [m| |]; [|reflexivity|reflexivity]. destruct e1 as [k1 p1], e2 as [k2 p2]. unfold merge_step. cbn [res_bind fst snd].
  destruct (decide (k1 = k2)) as [<-|Hne].
  - destruct (m !! k1) as [alt|] eqn:E.
    + destruct (alt =? p1) eqn:B1, (alt =? p2) eqn:B2; cbn [res_bind]; rewrite ?lookup_insert; try reflexivity.
      * apply N.eqb_eq in B1, B2. subst. rewrite N.eqb_refl. reflexivity.
      * apply N.eqb_eq in B1. apply N.eqb_neq in B2. subst. destruct (N.eqb_spec p1 p2); [congruence|reflexivity].
      * apply N.eqb_eq in B2. apply N.eqb_neq in B1. subst. destruct (N.eqb_spec p2 p1); [congruence|reflexivity].
    + cbn [res_bind]. rewrite !lookup_insert. destruct (N.eqb_spec p1 p2) as [->|H]; [now rewrite N.eqb_refl|].
      destruct (N.eqb_spec p2 p1); [congruence|reflexivity].
  - assert (Hne' : k2 <> k1) by congruence.
    destruct (m !! k1) as [a1|] eqn:E1, (m !! k2) as [a2|] eqn:E2.
    + destruct (a1 =? p1) eqn:B1, (a2 =? p2) eqn:B2; cbn [res_bind]; rewrite ?lookup_insert_ne, ?E1, ?E2, ?B1, ?B2 by assumption; cbn [res_bind]; try reflexivity.
      f_equal. now apply insert_commute.
    + destruct (a1 =? p1) eqn:B1; cbn [res_bind]; rewrite ?lookup_insert_ne, ?E1, ?E2, ?B1 by assumption; cbn [res_bind]; try reflexivity.
      f_equal. now apply insert_commute.
    + destruct (a2 =? p2) eqn:B2; cbn [res_bind]; rewrite ?lookup_insert_ne, ?E1, ?E2, ?B2 by assumption; cbn [res_bind]; try reflexivity.
      f_equal. now apply insert_commute.
    + cbn [res_bind]. rewrite ?lookup_insert_ne, ?E1, ?E2 by assumption. f_equal. now apply insert_commute.
Qed.
Theorem merge_order_free_lemma a l l' : Permutation l l' -> fold_left merge_step l (OK a) = fold_left merge_step l' (OK a).
Proof. intro H. apply fold_left_perm; [intros; apply merge_step_comm|exact H]. Qed.
Lemma merge_alloc_is_fold a b : merge_alloc a b = fold_left merge_step (rev (map_to_list b)) (OK a).
Proof.
  unfold merge_alloc, map_fold. cbn [compose]. rewrite <- fold_left_rev_right, rev_involutive.
  induction (map_to_list b) as [|[k p] l IH]; [reflexivity|]. cbn [foldr fold_right uncurry]. rewrite IH. reflexivity.
Qed.
