(* C17: order-independence of the computations that range over Go maps. *)
From Avo Require Import Base.Prelude.
From Coq Require Import Permutation.
From stdpp Require Import gmap.
From Avo Require Import Base.MaskSet Model.IR Model.RegFile Model.Liveness Model.Alloc.
Open Scope N_scope.

(* a fold whose step commutes does not depend on the order of the list *)
Lemma fold_left_perm {A B} (f : A -> B -> A) (Hc : forall a x y, f (f a x) y = f (f a y) x) l l' :
  Permutation l l' -> forall a, fold_left f l a = fold_left f l' a.
Proof.
  induction 1 as [|x l l' _ IH|x y l|l l' l'' _ IH1 _ IH2]; intro a; cbn [fold_left]; auto.
  - now rewrite Hc.
  - now rewrite IH1, IH2.
Qed.

(* mostrestricted: minimum of (number of possibilities, ID) *)
Definition mr_step (acc : N * N) (e : N * list N) : N * N :=
  let n := N.of_nat (length (snd e)) in
  if (n <? fst acc) || ((n =? fst acc) && (fst e <? snd acc)) then (n, fst e) else acc.
Lemma mr_step_comm a x y : mr_step (mr_step a x) y = mr_step (mr_step a y) x.
Proof.
  unfold mr_step. destruct a as [a1 a2]. cbn [fst snd].
  set (nx := N.of_nat (length (snd x))). set (ny := N.of_nat (length (snd y))).
  destruct ((nx <? a1) || ((nx =? a1) && (fst x <? a2))) eqn:E1; destruct ((ny <? a1) || ((ny =? a1) && (fst y <? a2))) eqn:E2; cbn [fst snd].
  - destruct ((ny <? nx) || ((ny =? nx) && (fst y <? fst x))) eqn:E3; destruct ((nx <? ny) || ((nx =? ny) && (fst x <? fst y))) eqn:E4; try reflexivity.
    + exfalso. lia.
    + assert (nx = ny /\ fst x = fst y) by lia. destruct H as [-> ->]. reflexivity.
  - rewrite E1. destruct ((ny <? nx) || ((ny =? nx) && (fst y <? fst x))) eqn:E3; [exfalso; lia|reflexivity].
  - rewrite E2. destruct ((nx <? ny) || ((nx =? ny) && (fst x <? fst y))) eqn:E4; [exfalso; lia|reflexivity].
  - rewrite E1, E2. reflexivity.
Qed.
Theorem most_restricted_order_free_lemma l l' : Permutation l l' -> most_restricted l = most_restricted l'.
Proof.
  intro H. unfold most_restricted. f_equal.
  change (fold_left mr_step l (2147483647, 0) = fold_left mr_step l' (2147483647, 0)).
  apply fold_left_perm; [apply mr_step_comm|exact H].
Qed.

(* MaskSet.Update / Clone / OfKind: adding entries in any order gives the same set (observed
   through get, which is how every consumer reads a mask set) *)
Lemma get_fold_add l : forall s id,
  get (fold_left (fun acc p => ms_add acc (fst p) (snd p)) l s) id
  = fold_left (fun m p => if fst p =? id then N.lor m (snd p) else m) l (get s id).
Proof.
  induction l as [|p l IH]; intros s id; cbn [fold_left]; [reflexivity|].
  rewrite IH, get_add. reflexivity.
Qed.
Theorem ms_fold_add_order_free_lemma l l' s : Permutation l l' -> forall id,
  get (fold_left (fun acc p => ms_add acc (fst p) (snd p)) l s) id = get (fold_left (fun acc p => ms_add acc (fst p) (snd p)) l' s) id.
Proof.
  intros H id. rewrite !get_fold_add. apply fold_left_perm; [|exact H].
  intros a x y. destruct (fst x =? id), (fst y =? id); try reflexivity.
  rewrite <- !N.lor_assoc, (N.lor_comm (snd x)). reflexivity.
Qed.
Lemma get_fold_discard l : forall s id,
  get (fold_left (fun acc p => ms_discard acc (fst p) (snd p)) l s) id
  = fold_left (fun m p => if fst p =? id then N.ldiff m (snd p) else m) l (get s id).
Proof.
  induction l as [|p l IH]; intros s id; cbn [fold_left]; [reflexivity|].
  rewrite IH, get_discard. reflexivity.
Qed.
Theorem ms_fold_discard_order_free_lemma l l' s : Permutation l l' -> forall id,
  get (fold_left (fun acc p => ms_discard acc (fst p) (snd p)) l s) id = get (fold_left (fun acc p => ms_discard acc (fst p) (snd p)) l' s) id.
Proof.
  intros H id. rewrite !get_fold_discard. apply fold_left_perm; [|exact H].
  intros a x y. destruct (fst x =? id), (fst y =? id); try reflexivity.
  apply N.bits_inj. intro k. rewrite !N.ldiff_spec. destruct (N.testbit a k), (N.testbit (snd x) k), (N.testbit (snd y) k); reflexivity.
Qed.

(* update(): the possible-sets after processing the edges do not depend on the edge order, and
   neither does the error; the edges left over are the same up to order *)
Definition upd_po (al : AL) (po : POSS) (e : N * N) : POSS :=
  let x := lookup_default al (fst e) in let y := lookup_default al (snd e) in
  match id_is_virtual x, id_is_virtual y with
  | false, true => discard_conflicting po y x
  | true, false => discard_conflicting po x y
  | _, _ => po
  end.
Definition edge_bad (al : AL) (e : N * N) : bool :=
  let x := lookup_default al (fst e) in let y := lookup_default al (snd e) in
  negb (id_is_virtual x) && negb (id_is_virtual y) && (x =? y).
Definition edge_rem (al : AL) (e : N * N) : bool :=
  id_is_virtual (lookup_default al (fst e)) && id_is_virtual (lookup_default al (snd e)).

Lemma a_update_go_spec al : forall es rem po,
  a_update_go al es rem po =
  if existsb (edge_bad al) es then Err EImpossible
  else OK (rem ++ List.filter (edge_rem al) es, fold_left (upd_po al) es po).
Proof.
  induction es as [|[ex ey] es IH]; intros rem po; cbn [a_update_go existsb List.filter fold_left].
  - now rewrite app_nil_r.
  - unfold edge_bad at 1, edge_rem at 1, upd_po at 2. cbn [fst snd].
    destruct (id_is_virtual (lookup_default al ex)) eqn:Ex, (id_is_virtual (lookup_default al ey)) eqn:Ey; cbn [negb andb orb].
    + rewrite IH. destruct (existsb (edge_bad al) es); [reflexivity|]. now rewrite <- app_assoc.
    + rewrite IH. reflexivity.
    + rewrite IH. reflexivity.
    + destruct (lookup_default al ex =? lookup_default al ey); cbn [orb]; [reflexivity|]. rewrite IH. reflexivity.
Qed.

Lemma filter_comm {A} (f g : A -> bool) l : List.filter f (List.filter g l) = List.filter g (List.filter f l).
Proof.
  induction l as [|x l IH]; [reflexivity|]. cbn [List.filter].
  destruct (g x) eqn:Eg, (f x) eqn:Ef; cbn [List.filter]; rewrite ?Eg, ?Ef, ?IH; reflexivity.
Qed.
Lemma discard_comm po v p v' p' :
  discard_conflicting (discard_conflicting po v p) v' p' = discard_conflicting (discard_conflicting po v' p') v p.
Proof.
  unfold discard_conflicting. destruct (decide (v = v')) as [<-|Hne].
  - rewrite !lookup_insert, !insert_insert. cbn [default]. f_equal. apply filter_comm.
  - assert (Hne' : v' <> v) by congruence. rewrite (lookup_insert_ne po v v') by exact Hne. rewrite (lookup_insert_ne po v' v) by exact Hne'. apply insert_commute. exact Hne'.
Qed.
Lemma upd_po_comm al po e1 e2 : upd_po al (upd_po al po e1) e2 = upd_po al (upd_po al po e2) e1.
Proof.
  unfold upd_po.
  destruct (id_is_virtual (lookup_default al (fst e1))), (id_is_virtual (lookup_default al (snd e1))),
           (id_is_virtual (lookup_default al (fst e2))), (id_is_virtual (lookup_default al (snd e2))); try reflexivity; apply discard_comm.
Qed.

Theorem update_edge_order_free_lemma al es es' po : Permutation es es' ->
  match a_update_go al es [] po, a_update_go al es' [] po with
  | OK (rem, po1), OK (rem', po2) => Permutation rem rem' /\ po1 = po2
  | Err e, Err e' => e = e'
  | _, _ => False
  end.
Proof.
  intro H. rewrite !a_update_go_spec.
  assert (Hb : existsb (edge_bad al) es = existsb (edge_bad al) es').
  { apply eq_true_iff_eq. rewrite !existsb_exists. split; intros (x & Hx & Hbx); exists x; (split; [|exact Hbx]).
    - eapply Permutation_in; [exact H|exact Hx].
    - eapply Permutation_in; [apply Permutation_sym; exact H|exact Hx]. }
  rewrite <- Hb. destruct (existsb (edge_bad al) es); [reflexivity|]. cbn [app]. split.
  - clear Hb. induction H; cbn [List.filter]; auto.
    + destruct (edge_rem al x); auto.
    + destruct (edge_rem al x), (edge_rem al y); auto. apply perm_swap.
    + eapply perm_trans; eauto.
  - apply fold_left_perm; [intros; apply upd_po_comm|exact H].
Qed.
