(* C05: the text avo prints for a register-based memory reference determines the reference: a reader
   that splits the text at ")", "(" and "*" recovers displacement, base, index and scale. *)
From Avo Require Import Base.Prelude Base.Str.
Open Scope string_scope.
Open Scope N_scope.

(* the printed shape of operand.Mem.Asm() without a symbol: [disp] "(" base ")" [ "(" index "*" scale ")" ] *)
Definition mem_text (disp : Z) (base : string) (idx : option (string * N)) : string :=
  (if (disp =? 0)%Z then "" else dec_of_Z disp) ++ "(" ++ base ++ ")"
  ++ match idx with Some (i, s) => "(" ++ i ++ "*" ++ dec_of_N s ++ ")" | None => "" end.

(* the reader *)
Definition read_disp (s : string) : option Z := if String.eqb s "" then Some 0%Z else parse_Z s.
Definition read_mem (t : string) : option (Z * string * option (string * N)) :=
  match split ")" t with
  | [p0; ""] =>
      match split "(" p0 with
      | [d; b] => match read_disp d with Some z => Some (z, b, None) | None => None end
      | _ => None end
  | [p0; p1; ""] =>
      match split "(" p0, split "(" p1 with
      | [d; b], [""; is] =>
          match split "*" is with
          | [i; sc] => match read_disp d, parse_dec sc with Some z, Some n => Some (z, b, Some (i, n)) | _, _ => None end
          | _ => None end
      | _, _ => None end
  | _ => None
  end.

Definition plain (s : string) : bool :=
  negb (contains_char "(" s) && negb (contains_char ")" s) && negb (contains_char "*" s).

(* decimal text contains none of the separators *)
Lemma digit_char_plain d c : d < 10 -> (c = "("%char \/ c = ")"%char \/ c = "*"%char) -> Ascii.eqb (digit_char d) c = false.
Proof.
  intros Hd Hc. assert (Hd' : d = 0 \/ d = 1 \/ d = 2 \/ d = 3 \/ d = 4 \/ d = 5 \/ d = 6 \/ d = 7 \/ d = 8 \/ d = 9) by lia.
  destruct Hc as [->|[->| ->]]; repeat (destruct Hd' as [->|Hd']; [reflexivity|]); subst; reflexivity.
Qed.
Lemma string_of_digits_plain l c : Forall (fun d => d < 10) l -> (c = "("%char \/ c = ")"%char \/ c = "*"%char) ->
  contains_char c (string_of_digits l) = false.
Proof.
  intros H Hc. induction H as [|d l Hd H IH]; [reflexivity|]. cbn [string_of_digits contains_char].
  rewrite (digit_char_plain d c Hd Hc), IH. reflexivity.
Qed.
Lemma digits_of_lt n : Forall (fun d => d < 10) (digits_of n).
Proof. unfold digits_of. apply Forall_forall. intros d Hd. apply in_rev in Hd. pose proof (digits_rev_lt (dec_fuel n) n) as H. rewrite Forall_forall in H. now apply H. Qed.
Lemma dec_of_N_plain n c : (c = "("%char \/ c = ")"%char \/ c = "*"%char) -> contains_char c (dec_of_N n) = false.
Proof. intro Hc. unfold dec_of_N. apply string_of_digits_plain; [apply digits_of_lt|exact Hc]. Qed.
Lemma dec_of_Z_plain z c : (c = "("%char \/ c = ")"%char \/ c = "*"%char) -> contains_char c (dec_of_Z z) = false.
Proof.
  intro Hc. unfold dec_of_Z. destruct z as [|p|p].
  - destruct Hc as [->|[->| ->]]; reflexivity.
  - now apply dec_of_N_plain.
  - cbn [contains_char]. rewrite (dec_of_N_plain (Npos p) c Hc).
    destruct Hc as [->|[->| ->]]; reflexivity.
Qed.

Lemma s_assoc a b c : ((a ++ b) ++ c)%string = (a ++ (b ++ c))%string.
Proof. induction a as [|x a IH]; cbn [append]; [reflexivity|now rewrite IH]. Qed.

Lemma contains_append c a b : contains_char c (a ++ b) = contains_char c a || contains_char c b.
Proof. induction a as [|x a IH]; cbn [append contains_char]; [reflexivity|]. rewrite IH. now rewrite orb_assoc. Qed.

Lemma plain_parts s : plain s = true -> contains_char "(" s = false /\ contains_char ")" s = false /\ contains_char "*" s = false.
Proof. unfold plain. intro H. apply andb_true_iff in H as [H H3]. apply andb_true_iff in H as [H1 H2]. repeat split; now apply negb_true_iff. Qed.

Lemma read_disp_ok d : read_disp (if (d =? 0)%Z then "" else dec_of_Z d) = Some d.
Proof.
  unfold read_disp. destruct (Z.eqb_spec d 0) as [->|Hne]; [reflexivity|].
  destruct (String.eqb_spec (dec_of_Z d) "") as [E|_]; [|apply parse_Z_dec_of_Z].
  exfalso. pose proof (parse_Z_dec_of_Z d) as H. rewrite E in H. cbn in H. congruence.
Qed.

Lemma dtext_plain d c : (c = "("%char \/ c = ")"%char \/ c = "*"%char) ->
  contains_char c (if (d =? 0)%Z then "" else dec_of_Z d) = false.
Proof. intro Hc. destruct (d =? 0)%Z; [reflexivity|now apply dec_of_Z_plain]. Qed.

(* split of  a ++ "c" ++ b  where a has no c *)
Lemma split_two c a b : contains_char c a = false -> contains_char c b = false ->
  split c (a ++ String c b) = [a; b].
Proof.
  intros Ha Hb. rewrite split_append by assumption. cbn [split]. rewrite Ascii.eqb_refl.
  rewrite (split_no_sep c b Hb). now rewrite append_nil_r.
Qed.

Theorem read_mem_text disp base idx :
  plain base = true -> match idx with Some (i, s) => plain i = true | None => True end ->
  read_mem (mem_text disp base idx) = Some (disp, base, idx).
Proof.
  intros Hb Hi. destruct (plain_parts base Hb) as (B1 & B2 & B3).
  set (dt := if (disp =? 0)%Z then "" else dec_of_Z disp).
  assert (D1 : contains_char "(" dt = false) by (apply dtext_plain; auto).
  assert (D2 : contains_char ")" dt = false) by (apply dtext_plain; auto).
  assert (P0 : contains_char ")" (dt ++ "(" ++ base) = false).
  { rewrite contains_append, D2. cbn [append contains_char]. now rewrite B2. }
  assert (S0 : split "(" (dt ++ "(" ++ base) = [dt; base]) by (apply split_two; assumption).
  unfold mem_text, read_mem. fold dt.
  destruct idx as [[i s]|].
  - destruct (plain_parts i Hi) as (I1 & I2 & I3).
    set (p1 := "(" ++ i ++ "*" ++ dec_of_N s).
    assert (P1 : contains_char ")" p1 = false).
    { unfold p1. cbn [append contains_char]. rewrite contains_append, I2. cbn [append contains_char]. now rewrite dec_of_N_plain by auto. }
    replace (dt ++ "(" ++ base ++ ")" ++ "(" ++ i ++ "*" ++ dec_of_N s ++ ")")
      with (Str.join ")" [dt ++ "(" ++ base; p1; ""]).
    2:{ unfold p1. cbn [Str.join]. rewrite ?s_assoc. cbn [append]. rewrite ?s_assoc. cbn [append]. rewrite ?append_nil_r. reflexivity. }
    rewrite split_join; [|discriminate|repeat constructor; auto].
    rewrite S0.
    assert (S1 : split "(" p1 = [""; i ++ "*" ++ dec_of_N s]).
    { unfold p1. change ("(" ++ i ++ "*" ++ dec_of_N s) with ("" ++ String "(" (i ++ "*" ++ dec_of_N s)).
      apply split_two; [reflexivity|]. rewrite contains_append, I1. cbn [append contains_char]. now rewrite dec_of_N_plain by auto. }
    rewrite S1.
    assert (S2 : split "*" (i ++ "*" ++ dec_of_N s) = [i; dec_of_N s]).
    { apply split_two; [exact I3|]. apply dec_of_N_plain. auto. }
    rewrite S2. unfold dt. rewrite read_disp_ok, parse_dec_of_N. reflexivity.
  - replace (dt ++ "(" ++ base ++ ")" ++ "") with (Str.join ")" [dt ++ "(" ++ base; ""]).
    2:{ cbn [Str.join]. rewrite ?s_assoc. cbn [append]. rewrite ?s_assoc. cbn [append]. reflexivity. }
    rewrite split_join; [|discriminate|repeat constructor; auto].
    rewrite S0. unfold dt. rewrite read_disp_ok. reflexivity.
Qed.

(* consequence: two references with the same text are the same reference *)
Corollary mem_text_injective d1 b1 i1 d2 b2 i2 :
  plain b1 = true -> plain b2 = true ->
  match i1 with Some (i, _) => plain i = true | None => True end ->
  match i2 with Some (i, _) => plain i = true | None => True end ->
  mem_text d1 b1 i1 = mem_text d2 b2 i2 -> d1 = d2 /\ b1 = b2 /\ i1 = i2.
Proof.
  intros H1 H2 H3 H4 E. pose proof (read_mem_text d1 b1 i1 H1 H3) as R1. pose proof (read_mem_text d2 b2 i2 H2 H4) as R2.
  rewrite E in R1. rewrite R1 in R2. inversion R2. auto.
Qed.
