From Avo Require Import Base.Prelude Base.Str.
From stdpp Require Import gmap.
From Avo Require Import Base.MaskSet Model.IR Model.RegFile Model.RegSpec.
Open Scope N_scope.

Lemma regfile_ok_entry rf p : regfile_ok rf = true -> In p rf -> entry_ok rf p = true.
Proof. unfold regfile_ok. rewrite andb_true_iff, forallb_forall. intros [H _]. apply H. Qed.

Lemma entry_ok_id rf p : entry_ok rf p = true ->
  p_id p = mk_id 0 (p_kind p) (p_idx p) /\ p_family p = p_kind p /\ id_is_virtual (p_id p) = false
  /\ id_kind (p_id p) = p_kind p /\ id_index (p_id p) = p_idx p /\ p_size p = spec_size (p_mask p).
Proof.
  unfold entry_ok. rewrite !andb_true_iff. intros [[[[[[[[H1 H2] H3] H4] H5] H6] _] _] _].
  apply N.eqb_eq in H1, H2, H4, H5, H6. apply negb_true_iff in H3. auto 10.
Qed.

(* two entries share an ID iff same kind and hardware number *)
Lemma ids_unique_lemma rf p q : regfile_ok rf = true -> In p rf -> In q rf ->
  (p_id p = p_id q <-> (p_kind p = p_kind q /\ p_idx p = p_idx q)).
Proof.
  intros Hok Hp Hq.
  destruct (entry_ok_id rf p (regfile_ok_entry rf p Hok Hp)) as (Ep & _ & _ & Kp & Ip & _).
  destruct (entry_ok_id rf q (regfile_ok_entry rf q Hok Hq)) as (Eq & _ & _ & Kq & Iq & _).
  split.
  - intro E. rewrite <- Kp, <- Kq, <- Ip, <- Iq, E. auto.
  - intros [E1 E2]. rewrite Ep, Eq, E1, E2. reflexivity.
Qed.

Lemma find_some_in {A} (f : A -> bool) l x : List.find f l = Some x -> In x l /\ f x = true.
Proof. apply List.find_some. Qed.

Lemma family_lookup_spec rf kind idx mask p : family_lookup rf kind idx mask = Some p ->
  In p rf /\ p_family p = kind /\ p_idx p = idx /\ p_mask p = mask.
Proof.
  unfold family_lookup, family. intro H. apply List.find_some in H as [Hin Hf].
  apply List.filter_In in Hin as [Hin Hk]. apply andb_true_iff in Hf as [H1 H2].
  apply N.eqb_eq in Hk, H1, H2. auto.
Qed.
Lemma family_lookup_none rf kind idx mask : family_lookup rf kind idx mask = None ->
  forall p, In p rf -> p_family p = kind -> p_idx p = idx -> p_mask p <> mask.
Proof.
  unfold family_lookup, family. intros H p Hin Hk Hi Hm.
  eapply List.find_none in H. 2:{ apply List.filter_In. split; [exact Hin|]. now apply N.eqb_eq. }
  rewrite Hi, Hm, !N.eqb_refl in H. discriminate.
Qed.

(* converting between views preserves identity and yields the requested width, or fails *)
Theorem reg_as_spec_lemma rf r m : regfile_ok rf = true ->
  (reg_is_virtual r = false -> exists p, In p rf /\ p_id p = rid r) ->
  match reg_as rf r m with
  | Some r' => rid r' = rid r /\ rmask r' = m /\ (reg_is_virtual r = false -> exists p, In p rf /\ p_id p = rid r' /\ p_mask p = m)
  | None => reg_is_virtual r = false /\ forall p, In p rf -> p_id p = rid r -> p_mask p <> m
  end.
Proof.
  intros Hok Hphys. unfold reg_as. destruct (reg_is_virtual r) eqn:Ev.
  - cbn. repeat split; auto. discriminate.
  - destruct (Hphys eq_refl) as (p0 & Hp0 & Eid).
    destruct (entry_ok_id rf p0 (regfile_ok_entry rf p0 Hok Hp0)) as (E0 & F0 & _ & K0 & I0 & _).
    destruct (family_lookup rf (id_kind (rid r)) (id_index (rid r)) m) as [p|] eqn:El; cbn [option_map].
    + apply family_lookup_spec in El as (Hin & Hf & Hi & Hm).
      destruct (entry_ok_id rf p (regfile_ok_entry rf p Hok Hin)) as (E & F & _ & K & I & _).
      cbn [reg_of_preg_wrapped rid rmask]. split; [|split; [exact Hm|]].
      * rewrite E, <- F, Hf, Hi, <- Eid, K0, I0. rewrite E0. reflexivity.
      * intros _. exists p. auto.
    + split; [reflexivity|]. intros p Hin Hid.
      destruct (entry_ok_id rf p (regfile_ok_entry rf p Hok Hin)) as (E & F & _ & K & I & _).
      eapply family_lookup_none; eauto.
      * rewrite F, <- K, Hid. reflexivity.
      * rewrite <- I, Hid. reflexivity.
Qed.
