From Avo Require Import Base.Prelude Model.Frame.
Open Scope Z_scope.

(* invariant by induction over the history: every region lies in [start, final) and regions are
   pairwise disjoint *)
Lemma alloc_history_bounds sizes : forall local, Forall (fun s => 0 <= s) sizes ->
  local <= snd (alloc_history local sizes)
  /\ Forall (fun r => local <= fst r /\ fst r + snd r <= snd (alloc_history local sizes) /\ 0 <= snd r) (fst (alloc_history local sizes)).
Proof.
  induction sizes as [|s r IH]; intros local Hnn; cbn [alloc_history].
  - cbn. split; [lia|constructor].
  - inversion Hnn as [|? ? Hs Hr]; subst. unfold alloc_local.
    destruct (alloc_history (local + s) r) as [regs fin] eqn:E.
    specialize (IH (local + s) Hr). rewrite E in IH. cbn [fst snd] in *. destruct IH as [Hle Hall].
    split; [lia|]. constructor; [cbn; lia|].
    eapply Forall_impl; [|exact Hall]. cbn. intros a (H1 & H2 & H3). lia.
Qed.

Lemma alloc_history_disjoint sizes : forall local, Forall (fun s => 0 <= s) sizes ->
  pairwise regions_disjoint_b (fst (alloc_history local sizes)) = true.
Proof.
  induction sizes as [|s r IH]; intros local Hnn; cbn [alloc_history]; [reflexivity|].
  inversion Hnn as [|? ? Hs Hr]; subst. unfold alloc_local.
  destruct (alloc_history (local + s) r) as [regs fin] eqn:E.
  pose proof (IH (local + s) Hr) as IH'. pose proof (alloc_history_bounds r (local + s) Hr) as [_ HB].
  rewrite E in IH', HB. cbn [fst snd] in *. cbn [pairwise]. rewrite IH', andb_true_r.
  apply forallb_forall. intros x Hx. rewrite Forall_forall in HB. destruct (HB x Hx) as (H1 & H2 & H3).
  unfold regions_disjoint_b. cbn [fst snd]. lia.
Qed.

Lemma history_all_zero sizes : forall local, Forall (fun s => 0 <= s) sizes ->
  snd (alloc_history local sizes) = local -> Forall (fun r => snd r = 0) (fst (alloc_history local sizes)).
Proof.
  induction sizes as [|s r IH]; intros local Hnn Hfin; cbn [alloc_history] in *; [constructor|].
  inversion Hnn as [|? ? Hs Hr]; subst. unfold alloc_local in *.
  destruct (alloc_history (local + s) r) as [regs fin] eqn:E. cbn [fst snd] in *.
  pose proof (alloc_history_bounds r (local + s) Hr) as [Hle _]. rewrite E in Hle. cbn in Hle.
  assert (s = 0) by lia. subst s. constructor; [reflexivity|].
  specialize (IH (local + 0) Hr). rewrite E in IH. cbn in IH. apply IH. lia.
Qed.

Theorem locals_disjoint_in_frame_lemma sizes clob : Forall (fun s => 0 <= s) sizes ->
  locals_spec_b (fst (alloc_history 0 sizes)) (frame_bytes sizes clob) = true.
Proof.
  intro Hnn. unfold locals_spec_b, frame_bytes.
  pose proof (alloc_history_bounds sizes 0 Hnn) as [Hle HB].
  pose proof (alloc_history_disjoint sizes 0 Hnn) as HD.
  set (fin := snd (alloc_history 0 sizes)) in *.
  assert (Hr8 : forall x, x <= round8 x) by (intro x; unfold round8; pose proof (Z.div_mod (x + 7) 8 ltac:(lia)); pose proof (Z.mod_pos_bound (x + 7) 8 ltac:(lia)); lia).
  assert (Hfr : fin <= round8 (ensure_bp_frame clob fin)).
  { pose proof (Hr8 (ensure_bp_frame clob fin)). unfold ensure_bp_frame in *. destruct (clob && (fin =? 0)); lia. }
  rewrite HD, andb_true_r. apply andb_true_iff. split.
  - apply forallb_forall. intros x Hx. rewrite Forall_forall in HB. destruct (HB x Hx) as (H1 & H2 & H3).
    unfold region_in. lia.
  - apply forallb_forall. intros x Hx. rewrite Forall_forall in HB. destruct (HB x Hx) as (H1 & H2 & H3).
    unfold regions_disjoint_b. cbn [fst snd]. lia.
Qed.
