(* The allocation theorem for certified live sets: whoever computed them, if they are closed under the
   dataflow inclusions (closed_b, evaluated in Coq) and no definition lands on storage that one of them says
   is live after it (no_clobber_model, evaluated in Coq), the renamed program simulates the original. *)
From Avo Require Import Base.Prelude Model.Sem Proofs.SimProofs Proofs.SimLink Proofs.SimValidator.
From stdpp Require Import gmap.
From Avo Require Import Base.MaskSet Model.IR Model.Liveness Model.Cert.
Open Scope N_scope.

Lemma sub_ms_spec a b : sub_ms a b = true -> forall id k, mem a id k = true -> mem b id k = true.
Proof.
  unfold sub_ms. rewrite forallb_forall. intros H id k Hm.
  destruct (mem_lookup a id k Hm) as (mk & Hl & Hb).
  assert (Hin : In (id, mk) (ms_elements a)) by (unfold ms_elements; apply elem_of_list_In, elem_of_map_to_list; exact Hl).
  specialize (H _ Hin). cbn [fst snd] in H. apply N.eqb_eq in H. unfold mem. eapply land_eq_sub; eauto.
Qed.

Lemma lookup_index_list {A} (l : list A) j x : l !! j = Some x -> In (j, x) (index_list l).
Proof.
  intro H. unfold index_list. replace j with (0 + j)%nat by lia. apply index_list_from_nth.
  revert j H. induction l as [|a l IH]; intros [|j] H; cbn in *; try discriminate; auto.
Qed.

Lemma closed_b_spec p r : closed_b p r = true ->
  List.length r = List.length p
  /\ (forall j i, p !! j = Some i -> forall id k, mem (iuse i) id k = true -> mem (nth_in r j) id k = true)
  /\ (forall j i, p !! j = Some i -> forall id k, mem (nth_out r j) id k = true -> mem (idef i) id k = false -> mem (nth_in r j) id k = true)
  /\ (forall j i j', p !! j = Some i -> In (Some j') (isucc i) -> forall id k, mem (nth_in r j') id k = true -> mem (nth_out r j) id k = true).
Proof.
  unfold closed_b. intro H. apply andb_true_iff in H as [Hl H]. apply Nat.eqb_eq in Hl. rewrite forallb_forall in H.
  assert (Hat : forall j i, p !! j = Some i -> closed_at p r j i = true) by (intros j i Hj; exact (H (j, i) (lookup_index_list p j i Hj))).
  split; [exact Hl|]. split; [|split].
  - intros j i Hj id k Hm. specialize (Hat j i Hj). unfold closed_at in Hat. apply andb_true_iff in Hat as [Hat _]. apply andb_true_iff in Hat as [Hu _].
    eapply sub_ms_spec; eauto.
  - intros j i Hj id k Ho Hd. specialize (Hat j i Hj). unfold closed_at in Hat. apply andb_true_iff in Hat as [Hat _]. apply andb_true_iff in Hat as [_ Hu].
    eapply sub_ms_spec; [exact Hu|]. rewrite mem_diff, Ho, Hd. reflexivity.
  - intros j i j' Hj Hin id k Hm. specialize (Hat j i Hj). unfold closed_at in Hat. apply andb_true_iff in Hat as [_ Hs].
    rewrite forallb_forall in Hs. specialize (Hs _ Hin). cbn in Hs. eapply sub_ms_spec; eauto.
Qed.

Lemma P_nth' pr j i : List.nth_error (P pr) j = Some i ->
  exists x, List.nth_error pr j = Some x /\ i = to_minstr (fst (fst x)) (snd (fst x)) (snd x)
            /\ p pr !! j = Some {| iuse := ms_of_regs (fst (fst x)); idef := ms_of_regs (snd (fst x)); isucc := snd x |}.
Proof.
  unfold P, p. rewrite List.nth_error_map. destruct (List.nth_error pr j) as [x|] eqn:E; [|discriminate].
  cbn. intros [= <-]. exists x. repeat split; auto. rewrite list_lookup_fmap.
  assert (pr !! j = Some x) as ->; [|reflexivity].
  clear -E. revert j E. induction pr as [|a l IH]; intros [|j] E; cbn in *; try discriminate; auto.
Qed.

Theorem certified_allocation_preserves_semantics_lemma :
  forall (val memt : Type) (F : nat -> list val -> memt -> list val * memt * option nat) (pr : prog_regs_t) (al : list (N * N)) (r : st),
  closed_b (p pr) r = true -> no_clobber_model al r pr = true ->
  (forall j i vs m outs m' n, List.nth_error (P pr) j = Some i -> F j vs m = (outs, m', Some n) -> In n (m_succ i)) ->
  (forall j i vs m outs m' npc, List.nth_error (P pr) j = Some i -> F j vs m = (outs, m', npc) -> List.length outs = List.length (m_defs i)) ->
  forall n j R R' m st1,
    (forall l, LIn r j l -> R l = R' (rename (sigma_of al) l)) ->
    mrun val memt F (P pr) n (j, R, m) = Some st1 ->
    exists j1 R1 R1' m1, st1 = (j1, R1, m1)
      /\ mrun val memt F (List.map (rename_instr (sigma_of al)) (P pr)) n (j, R', m) = Some (j1, R1', m1)
      /\ (forall l, LIn r j1 l -> R1 l = R1' (rename (sigma_of al) l)).
Proof.
  intros val memt F pr al r Hc Hnc HFs HFl.
  destruct (closed_b_spec _ _ Hc) as (Hlen & Huse & Hout & Hsucc).
  pose proof (no_clobber_model_spec al r pr Hnc) as Hncs.
  apply (run_sim val memt F (P pr) (sigma_of al) (LIn r) (LOut r)).
  - intros j i l Hj Hl. destruct (P_nth' pr j i Hj) as (x & Hx & -> & Hp). cbn [to_minstr m_uses] in Hl.
    assert (Hk : snd l < 16). { unfold regs_locs in Hl. apply in_flat_map in Hl as (rr & _ & Hl). now apply in_locs_of in Hl. }
    split; [exact Hk|]. apply (Huse j _ Hp). cbn [iuse]. now apply in_regs_locs.
  - intros j i l Hj [Hk Hl] Hnd. destruct (P_nth' pr j i Hj) as (x & Hx & -> & Hp). cbn [to_minstr m_defs] in Hnd.
    split; [exact Hk|]. apply (Hout j _ Hp); [exact Hl|]. cbn [idef].
    destruct (mem (ms_of_regs (snd (fst x))) (fst l) (snd l)) eqn:E; [|reflexivity]. exfalso. apply Hnd. now apply in_regs_locs.
  - intros j i n0 l Hj Hn [Hk Hl]. destruct (P_nth' pr j i Hj) as (x & Hx & -> & Hp). cbn [to_minstr m_succ] in Hn.
    split; [exact Hk|]. apply (Hsucc j _ n0 Hp); [|exact Hl]. cbn [isucc].
    apply in_flat_map in Hn as (o & Ho & Hn). destruct o as [j'|]; [|contradiction]. destruct Hn as [<-|[]]. exact Ho.
  - exact HFs.
  - exact HFl.
  - intros j i d y Hj Hd [Hk Hy] Hne. destruct (P_nth' pr j i Hj) as (x & Hx & -> & Hp). cbn [to_minstr m_defs] in Hd.
    unfold regs_locs in Hd. apply in_flat_map in Hd as (rd & Hrd & Hd). apply in_locs_of in Hd as (H1 & H2 & H3).
    unfold rename. intro E. inversion E as [[E1 E2]].
    apply (Hncs j x rd (snd d) Hx Hrd H3 H2 (fst y)); [rewrite <- E2; exact Hy|congruence|congruence].
Qed.
