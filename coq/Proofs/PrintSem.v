(* C11: the printed body, read back as a node list (instruction lines and label lines in order), is
   the function without its comments, and therefore computes the same thing (Model/NodeSem.v). *)
From Avo Require Import Base.Prelude Base.Str.
From Avo Require Import Model.IR Model.RegFile Model.Data Model.Attr Model.AsmSyntax Model.PrintAsm Model.NodeSem Proofs.CleanupSem.
Open Scope list_scope.

Fixpoint lines_code (ls : list line) : list node :=
  match ls with
  | [] => []
  | LInstr _ i :: r => NInstr i :: lines_code r
  | LLabel l :: r => NLabel l :: lines_code r
  | _ :: r => lines_code r
  end.
Definition not_comment (n : node) : bool := match n with NComment _ => false | _ => true end.
Definition strip (ns : list node) : list node := List.filter not_comment ns.

Lemma lines_code_app a b : lines_code (a ++ b) = lines_code a ++ lines_code b.
Proof. induction a as [|l a IH]; [reflexivity|]. destruct l; cbn [app lines_code]; rewrite ?IH; reflexivity. Qed.
Lemma lines_code_flush p : lines_code (flush p) = List.map NInstr p.
Proof. unfold flush. generalize (block_width p). intro w. induction p as [|i p IH]; cbn; [reflexivity|]. now rewrite IH. Qed.
Lemma lines_code_bodycomments ls : lines_code (List.map LBodyComment ls) = [].
Proof. induction ls; cbn; auto. Qed.

Lemma body_code ns : forall pending clear, lines_code (body_lines ns pending clear) = List.map NInstr pending ++ strip ns.
Proof.
  induction ns as [|n ns IH]; intros pending clear; cbn [body_lines].
  - rewrite lines_code_flush. cbn. now rewrite app_nil_r.
  - destruct n as [l|ls|i]; unfold strip; cbn [List.filter not_comment]; fold (strip ns).
    + rewrite !lines_code_app, lines_code_flush, IH. destruct clear; cbn; reflexivity.
    + rewrite !lines_code_app, lines_code_flush, lines_code_bodycomments, IH. destruct clear; cbn; reflexivity.
    + destruct (is_terminal i || is_unconditional_branch i).
      * rewrite lines_code_app, lines_code_flush, IH. rewrite map_app. cbn. rewrite <- app_assoc. reflexivity.
      * rewrite IH. rewrite map_app. cbn. rewrite <- app_assoc. reflexivity.
Qed.

Section Sem.
Variable S : Type.
Variable exec : instr -> S -> S * ctl.

Lemma strip_same ns : same_behaviour S exec ns (strip ns).
Proof.
  apply sim_same_behaviour with (sim := fun k k' => k' = strip k).
  - intros k' ->. reflexivity.
  - intros n r k' ->. unfold strip. cbn [List.filter]. destruct (not_comment n) eqn:E.
    + left. exists (List.filter not_comment r). split; [reflexivity|]. split; [reflexivity|].
      intros i s s' l _ _. unfold label_ok. fold (strip ns). unfold strip. rewrite (from_label_filter not_comment l eq_refl ns).
      destruct (from_label l ns); [reflexivity|exact I].
    + right. split; [reflexivity|]. intro s. destruct n; try discriminate. reflexivity.
  - reflexivity.
Qed.

Theorem printed_body_same_behaviour ns : same_behaviour S exec ns (lines_code (body_lines ns [] true)).
Proof. rewrite body_code. cbn [List.map app]. apply strip_same. Qed.
End Sem.
