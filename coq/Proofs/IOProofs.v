(* C04: what a built instruction reports as read/written is exactly what the form row declares:
   every explicit operand whose declared action includes a read (write) is among the instruction's
   inputs (outputs), and so is every implicit register of the row. *)
From Avo Require Import Base.Prelude Base.Str.
From stdpp Require Import gmap.
From Avo Require Import Base.MaskSet Model.IR Model.RegFile Model.Forms.
Open Scope N_scope.

(* pairing of the explicit specs of a row with the operands, in order *)
Fixpoint paired (specs : list foperand) (ops : list operand) : list (foperand * operand) :=
  match specs with
  | [] => []
  | s :: ss => if fo_implicit s then paired ss ops
               else match ops with o :: r => (s, o) :: paired ss r | [] => [] end
  end.
Definition implicits (specs : list foperand) : list (foperand * reg) :=
  flat_map (fun s => if fo_implicit s then match fo_implreg s with Some r => [(s, r)] | None => [] end else []) specs.

Lemma io_of_explicit specs : forall ops s o, In (s, o) (paired specs ops) ->
  (act_read (fo_action s) = true -> In o (fst (io_of specs ops)))
  /\ (act_write (fo_action s) = true -> In o (snd (io_of specs ops))).
Proof.
  induction specs as [|s0 specs IH]; intros ops s o H; [destruct H|]. cbn [paired io_of] in *.
  destruct (fo_implicit s0) eqn:Ei.
  - destruct (IH ops s o H) as [I1 I2]. destruct (io_of specs ops) as [ins outs]. cbn [fst snd] in *.
    destruct (fo_implreg s0) as [r|]; [|split; assumption].
    split; intro Ha.
    + destruct (act_read (fo_action s0)); [right|]; now apply I1.
    + destruct (act_write (fo_action s0)); [right|]; now apply I2.
  - destruct ops as [|o0 rest]; [destruct H|]. destruct H as [Heq|H].
    + inversion Heq; subst s0 o0. destruct (io_of specs rest) as [ins outs]. cbn [fst snd].
      split; intro Ha; rewrite Ha; now left.
    + destruct (IH rest s o H) as [I1 I2]. destruct (io_of specs rest) as [ins outs]. cbn [fst snd] in *.
      split; intro Ha.
      * destruct (act_read (fo_action s0)); [right|]; now apply I1.
      * destruct (act_write (fo_action s0)); [right|]; now apply I2.
Qed.

Lemma io_of_implicit specs : forall ops s r, In (s, r) (implicits specs) ->
  (act_read (fo_action s) = true -> In (OReg r) (fst (io_of specs ops)))
  /\ (act_write (fo_action s) = true -> In (OReg r) (snd (io_of specs ops))).
Proof.
  induction specs as [|s0 specs IH]; intros ops s r H; [destruct H|]. unfold implicits in H. cbn [flat_map] in H. cbn [io_of].
  destruct (fo_implicit s0) eqn:Ei.
  - destruct (fo_implreg s0) as [r0|] eqn:Er.
    + cbn [app] in H. destruct H as [Heq|H].
      * inversion Heq; subst s0 r0. destruct (io_of specs ops) as [ins outs]. cbn [fst snd].
        split; intro Ha; rewrite Ha; now left.
      * destruct (IH ops s r H) as [I1 I2]. destruct (io_of specs ops) as [ins outs]. cbn [fst snd] in *.
        split; intro Ha.
        -- destruct (act_read (fo_action s0)); [right|]; now apply I1.
        -- destruct (act_write (fo_action s0)); [right|]; now apply I2.
    + cbn [app] in H. destruct (IH ops s r H) as [I1 I2]. destruct (io_of specs ops) as [ins outs]. split; assumption.
  - cbn [app] in H. destruct ops as [|o0 rest].
    + destruct (IH [] s r H) as [I1 I2]. destruct (io_of specs []) as [ins outs]. split; assumption.
    + destruct (IH rest s r H) as [I1 I2]. destruct (io_of specs rest) as [ins outs]. cbn [fst snd] in *.
      split; intro Ha.
      * destruct (act_read (fo_action s0)); [right|]; now apply I1.
      * destruct (act_write (fo_action s0)); [right|]; now apply I2.
Qed.

(* at the level of the instruction avo builds and of InputRegisters / OutputRegisters *)
Theorem built_instruction_reports_declared_actions f sfx ops :
  let i := form_build f sfx ops in
  (forall s o, In (s, o) (paired (f_operands f) ops) -> act_read (fo_action s) = true -> In o (inputs i))
  /\ (forall s o, In (s, o) (paired (f_operands f) ops) -> act_write (fo_action s) = true -> In o (outputs i))
  /\ (forall s r, In (s, r) (implicits (f_operands f)) -> act_read (fo_action s) = true -> In (OReg r) (inputs i))
  /\ (forall s r, In (s, r) (implicits (f_operands f)) -> act_write (fo_action s) = true -> In (OReg r) (outputs i)).
Proof.
  cbn zeta. unfold form_build.
  pose proof (io_of_explicit (f_operands f) ops) as HE. pose proof (io_of_implicit (f_operands f) ops) as HI.
  destruct (io_of (f_operands f) ops) as [ins outs]. cbn [inputs outputs fst snd] in *.
  repeat split; intros; [apply (HE s o)|apply (HE s o)|apply (HI s r)|apply (HI s r)]; assumption.
Qed.

(* every register of a declared input is reported by InputRegisters unless the two cancelling reads are dropped;
   every register output is reported by OutputRegisters *)
Theorem reported_reads_cover_inputs i : cancelling i = false ->
  forall o r, In o (inputs i) -> In r (op_registers o) ->
  exists rs, input_registers i = OK rs /\ In r rs.
Proof.
  intros Hc o r Ho Hr. unfold input_registers, input_registers_with. rewrite Hc. eexists. split; [reflexivity|].
  apply in_or_app. left. apply in_flat_map. eauto.
Qed.
Theorem reported_writes_cover_outputs i r : In (OReg r) (outputs i) -> In r (output_registers i).
Proof. intro H. unfold output_registers. apply in_flat_map. exists (OReg r). split; [exact H|now left]. Qed.
Theorem memory_output_address_is_read i : cancelling i = false ->
  forall o r, In o (outputs i) -> is_mem o = true -> In r (op_registers o) ->
  exists rs, input_registers i = OK rs /\ In r rs.
Proof.
  intros Hc o r Ho Hm Hr. unfold input_registers, input_registers_with. rewrite Hc. eexists. split; [reflexivity|].
  apply in_or_app. right. apply in_flat_map. exists o. split; [exact Ho|]. now rewrite Hm.
Qed.
