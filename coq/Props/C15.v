(* C15 — The frame pointer register survives every generated function. *)
From Avo Require Import Base.Prelude.
From stdpp Require Import gmap.
From Avo Require Import Base.MaskSet Model.IR Model.RegFile Model.RegSpec Model.Liveness Model.Alloc Model.Cleanup Proofs.AllocProofs.
Open Scope N_scope.

(* environment: the assembler saves and restores BP (bpsize = 8) unless the function is NOFRAME, or
   frameless and NOSPLIT, or a frameless leaf (cmd/internal/obj/x86/obj6.go, quoted in pass/reg.go) *)
Definition NOSPLIT := 4.
Definition asm_saves_bp (attrs frame : N) (has_call : bool) : bool :=
  (N.land attrs NOFRAME =? 0) && negb ((frame =? 0) && negb (N.land attrs NOSPLIT =? 0)) && negb ((frame =? 0) && negb has_call).

(* for all functions, attribute sets and local sizes: if some output register is a view of the base
   pointer, the pass refuses the function exactly when it is NOFRAME, and otherwise leaves it with a
   non-zero frame, which makes the assembler save and restore BP *)
Theorem bp_saved_or_error : forall rf is attrs local has_call,
  match ensure_bp rf is attrs local with
  | OK l => clobbers_bp rf is = true -> asm_saves_bp attrs l has_call = true
  | Err e => clobbers_bp rf is = true /\ N.land attrs NOFRAME <> 0
  | Panic _ => False
  end.
Proof.
  intros rf is attrs local hc. pose proof (ensure_bp_spec rf is attrs local) as H.
  destruct (ensure_bp rf is attrs local) as [l|e|]; [|tauto|exact H].
  intro Hc. rewrite Hc in H. destruct H as (Hnf & Hpos & _). unfold asm_saves_bp.
  rewrite Hnf. replace (l =? 0) with false by lia. reflexivity.
Qed.
Print Assumptions bp_saved_or_error.

(* a function that does not write the base pointer is left alone *)
Theorem bp_untouched_no_change : forall rf is attrs local, clobbers_bp rf is = false -> ensure_bp rf is attrs local = OK local.
Proof. intros. unfold ensure_bp. rewrite H. reflexivity. Qed.
Print Assumptions bp_untouched_no_change.
