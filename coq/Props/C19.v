(* C19 — Attribute flags print to an expression with the same numeric value.
   Property theorems only.  `names` is attr/ztextflag.go's attrname table and `h` the installed
   textflag.h, both re-translated from source on every run; `attr_table_ok names h` is re-proved
   on those tables by the generated shards (Gen/C19), exhaustively over all 65536 values. *)
From Avo Require Import Base.Prelude Base.Str Model.Attr Proofs.AttrProofs.
Open Scope string_scope.
Open Scope N_scope.

(* every attribute value prints (Asm, TEXT flag field, whole TEXT and GLOBL lines) to text that
   evaluates, under the header's macro values, to exactly that value *)
Theorem attr_value_exact names h : attr_table_ok names h -> forall a, a < 65536 ->
  eval_flags h (attr_asm names a) = Some a
  /\ eval_text_field h (text_flag_field names a) = Some a
  /\ eval_text_field h (directive_flag_field (text_line names "f" a 0 0)) = Some a
  /\ eval_text_field h (directive_flag_field (globl_line names "g<>" a 8)) = Some a.
Proof.
  intros Hok a Ha. pose proof (attr_value_ok_parts names h a (attr_table_ok_value names h Hok a Ha)). tauto.
Qed.
Print Assumptions attr_value_exact.

(* the text mentions a macro name exactly when ContainsTextFlags says so *)
Theorem header_iff_name_used names h : attr_table_ok names h -> forall a, a < 65536 ->
  uses_macro (attr_asm names a) = contains_text_flags names a.
Proof.
  intros Hok a Ha. pose proof (attr_value_ok_parts names h a (attr_table_ok_value names h Hok a Ha)). tauto.
Qed.
Print Assumptions header_iff_name_used.

(* ... and the include pass then makes the header present (functions and globals alike), adding
   it at most once and nothing else *)
Theorem include_pass_sufficient names h : attr_table_ok names h -> forall inc attrs,
  Forall (fun a => a < 65536) attrs ->
  let out := include_textflag names inc attrs in
  (Exists (fun a => uses_macro (attr_asm names a) = true) attrs -> In textflag_header out)
  /\ (out = inc \/ (out = app inc [textflag_header] /\ ~ In textflag_header inc)).
Proof.
  intros Hok inc attrs Hall. cbn zeta. destruct (include_textflag_spec names inc attrs) as [H1 H2].
  split; [|exact H2]. intro Hex. apply H1. apply existsb_exists. apply Exists_exists in Hex as (a & Hin & Hu).
  exists a. split; [assumption|]. rewrite Forall_forall in Hall.
  rewrite <- (header_iff_name_used names h Hok a (Hall a Hin)). exact Hu.
Qed.
Print Assumptions include_pass_sufficient.
