(* C08 — Load and Store move exactly the component's bytes with Go's extension rule.
   Finite domain: 12 basic kinds x 8 register classes x 2 directions, decided by a checker over the
   rows of build/zmov.go translated on every run; `mov_sem` is the environment table of the move
   mnemonics' meaning in the Go assembler. *)
From Avo Require Import Base.Prelude Base.Str.
From stdpp Require Import gmap.
From Avo Require Import Base.MaskSet Model.IR Model.RegFile Model.Forms Model.Mov Proofs.MovProofs.
Open Scope N_scope.

(* pairs recorded as known findings (KNOWN_FINDINGS.json): 4-byte integer/boolean components and
   XMM registers are moved with MOVQ, an 8-byte access.  Indices into all_pairs. *)
Definition known_bad_pairs : list N := [28; 60; 124; 156].

(* every (direction, kind, class) outside the listed findings: either an error is reported
   ("could not deduce mov") or the chosen opcode accesses exactly sizeof(kind) bytes of memory and,
   for a general-purpose destination wider than the component, sign-extends signed integers and
   zero-extends unsigned integers and booleans to the register's width *)
Theorem load_store_correct : forall rf tab reps, mov_table_ok rf tab reps known_bad_pairs = true ->
  forall n p, List.nth_error all_pairs n = Some p -> ~ In (N.of_nat n) known_bad_pairs ->
  pair_ok rf tab reps (fst (fst p)) (snd (fst p)) (snd p) = true.
Proof.
  intros rf tab reps H n p Hn Hex. destruct (pair_ok rf tab reps (fst (fst p)) (snd (fst p)) (snd p)) eqn:E; [reflexivity|].
  exfalso. unfold mov_table_ok in H. rewrite forallb_forall in H.
  assert (Hin : In (N.of_nat n) (bad_pairs rf tab reps)).
  { unfold bad_pairs. eapply idx_where_complete; [exact Hn|]. rewrite E. reflexivity. }
  specialize (H _ Hin). apply existsb_exists in H as (y & Hy & Ey). apply N.eqb_eq in Ey. subst y. contradiction.
Qed.
Print Assumptions load_store_correct.
