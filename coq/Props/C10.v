(* C10 — Clean-up passes never change what the function computes (what may be deleted). *)
From Avo Require Import Base.Prelude.
From stdpp Require Import gmap.
From Avo Require Import Base.MaskSet Model.IR Model.RegFile Model.Alloc Model.Cleanup Model.NodeSem Proofs.AllocProofs Proofs.CleanupProofs Proofs.CleanupSem.
Open Scope N_scope.
Open Scope list_scope.

(* PruneSelfMoves (literal loop, including the skipped node after a deletion): the result is the input
   with some instructions dropped, and every dropped instruction made the predicate answer true *)
Theorem self_moves_only_dropped : forall ns out, prune_self_moves ns = OK out ->
  dropped_ok (self_move_pred self_move_opcodes_fixed true) ns out.
Proof. intros ns out H. apply remove_instrs_dropped. exact H. Qed.
Print Assumptions self_moves_only_dropped.

(* ... and the predicate answers true only on byte/word/quadword moves between identical
   general-purpose views, which are architectural no-ops; a 32-bit self-move (which clears the upper
   half) and vector moves never qualify *)
Theorem self_move_deleted_only_if_noop : forall i, well_formed_move i ->
  self_move_pred self_move_opcodes_fixed true i = OK true -> move_is_architectural_noop i = true.
Proof. exact self_move_pred_noop. Qed.
Print Assumptions self_move_deleted_only_if_noop.

(* PruneDanglingLabels keeps every non-label node and every referenced label, in order *)
Theorem prune_labels_keeps : forall ns n, In n (prune_labels ns) <->
  In n ns /\ match n with NLabel l => existsb (String.eqb l) (label_refs ns) = true | _ => True end.
Proof.
  intros ns n. unfold prune_labels. rewrite List.filter_In. split; intros [H1 H2]; split; auto.
  - destruct n; auto.
  - destruct n; auto.
Qed.
Print Assumptions prune_labels_keeps.

(* PruneJumpToFollowingLabel: the result is the input with some nodes dropped, and every dropped
   node is an unconditional branch whose target is the label that immediately followed it (control
   falls through to the same place); every other node is kept, in order *)
Theorem prune_jumps_only_fallthrough : forall ns, jumps_dropped ns (prune_jumps ns).
Proof. exact prune_jumps_dropped. Qed.
Print Assumptions prune_jumps_only_fallthrough.

(* after both label-related passes every branch names exactly the labels it named before, and a
   label it names that was defined is still defined: no branch is left dangling by the clean-up *)
Theorem cleanup_never_dangles : forall ns l,
  In l (label_refs (prune_labels (prune_jumps ns))) -> In (NLabel l) ns ->
  In (NLabel l) (prune_labels (prune_jumps ns)) /\ In l (label_refs ns).
Proof. exact cleanup_keeps_targets. Qed.
Print Assumptions cleanup_never_dangles.

(* THE PROPERTY, semantically.  Take any machine state S and any instruction semantics `exec` in which
   (a) control only ever transfers to the label a branch names, (b) an unconditional branch to a
   label changes nothing but the program counter, (c) a move the model classifies as an
   architectural no-op changes nothing.  Then for every function body whose labels are distinct
   (what the assembler demands; LabelTarget rejects the rest) the three clean-up passes, applied in
   the order pass.Compile applies them, yield a body that computes the same thing: from every start
   state it reaches exactly the same terminal outcomes (returned with state s / ran off the end /
   jumped to an undefined label), and therefore also diverges on exactly the same start states.
   The proof is a stutter simulation (Proofs/CleanupSem.v): every deleted node only falls through. *)
Theorem cleanup_preserves_what_the_function_computes :
  forall (S : Type) (exec : instr -> S -> S * ctl),
  (forall i s s' l, exec i s = (s', CGoto l) -> is_branch i = true /\ target_label i = Some l) ->
  (forall i l s, is_branch i = true -> is_conditional i = false -> target_label i = Some l -> exec i s = (s, CGoto l)) ->
  (forall i s, move_is_architectural_noop i = true -> exec i s = (s, CNext)) ->
  forall P out, List.NoDup (labels P) ->
  (forall i, In i (instructions P) -> existsb (String.eqb (opcode i)) self_move_opcodes_fixed = true -> well_formed_move i) ->
  prune_self_moves (prune_labels (prune_jumps P)) = OK out ->
  same_behaviour S exec P out.
Proof. exact cleanup_same_behaviour. Qed.
Print Assumptions cleanup_preserves_what_the_function_computes.

(* each pass on its own *)
Theorem prune_jumps_preserves_behaviour : forall (S : Type) (exec : instr -> S -> S * ctl),
  (forall i l s, is_branch i = true -> is_conditional i = false -> target_label i = Some l -> exec i s = (s, CGoto l)) ->
  forall P, List.NoDup (labels P) -> same_behaviour S exec P (prune_jumps P).
Proof. exact prune_jumps_same. Qed.
Print Assumptions prune_jumps_preserves_behaviour.
Theorem prune_labels_preserves_behaviour : forall (S : Type) (exec : instr -> S -> S * ctl),
  (forall i s s' l, exec i s = (s', CGoto l) -> is_branch i = true /\ target_label i = Some l) ->
  forall P, same_behaviour S exec P (prune_labels P).
Proof. exact prune_labels_same. Qed.
Print Assumptions prune_labels_preserves_behaviour.

(* the hypotheses are satisfiable and the conclusion is not trivial: a counting machine, and a loop
   in which each of the three passes deletes a node *)
Module Example10.
Definition mk (opc : string) (ops : list operand) (br cond term : bool) : instr :=
  {| opcode := opc; suffixes := []; operands := ops; inputs := []; outputs := [];
     is_terminal := term; is_branch := br; is_conditional := cond; cancelling := false; isa := [] |}.
Definition exec (i : instr) (s : nat) : nat * ctl :=
  if move_is_architectural_noop i then (s, CNext)
  else match target_label i with
       | Some l => if is_conditional i then (if (s <? 3)%nat then (s, CGoto l) else (s, CNext)) else (s, CGoto l)
       | None => if is_terminal i then (s, CHalt) else (Datatypes.S s, CNext)
       end.
Definition rax := {| rid := 256; rmask := 15; rtag := 16 |}.
Definition P : list node :=
  [NLabel "top"; NInstr (mk "INCQ" [OReg rax] false false false); NInstr (mk "JMP" [OLabel "next"] true false false);
   NLabel "next"; NInstr (mk "MOVQ" [OReg rax; OReg rax] false false false); NInstr (mk "NOP" [] false false false);
   NLabel "unused"; NInstr (mk "JNE" [OLabel "top"] true true false); NInstr (mk "RET" [] false false true)]%string.
Definition out : list node :=
  [NLabel "top"; NInstr (mk "INCQ" [OReg rax] false false false);
   NInstr (mk "NOP" [] false false false);
   NInstr (mk "JNE" [OLabel "top"] true true false); NInstr (mk "RET" [] false false true)]%string.
Lemma exec_goto : forall i s s' l, exec i s = (s', CGoto l) -> is_branch i = true /\ target_label i = Some l.
Proof.
  intros i s s' l. unfold exec. destruct (move_is_architectural_noop i); [discriminate|].
  destruct (target_label i) as [t|] eqn:Et.
  - assert (Hb : is_branch i = true) by (unfold target_label in Et; destruct (is_branch i); [reflexivity|discriminate]).
    destruct (is_conditional i); [destruct (s <? 3)%nat|]; intro H; inversion H; subst; auto.
  - destruct (is_terminal i); discriminate.
Qed.
Lemma exec_jmp : forall i l s, is_branch i = true -> is_conditional i = false -> target_label i = Some l -> exec i s = (s, CGoto l).
Proof.
  intros i l s Hb Hc Ht. unfold exec. rewrite Ht, Hc.
  assert (E : move_is_architectural_noop i = false).
  { unfold target_label in Ht. rewrite Hb in Ht. unfold move_is_architectural_noop. destruct (operands i) as [|[] r]; try discriminate. reflexivity. }
  now rewrite E.
Qed.
Lemma exec_noop : forall i s, move_is_architectural_noop i = true -> exec i s = (s, CNext).
Proof. intros i s H. unfold exec. now rewrite H. Qed.
Example cleanup_example :
  prune_self_moves (prune_labels (prune_jumps P)) = OK out /\ same_behaviour nat exec P out /\
  run nat exec P 40 P 0%nat = Done 4%nat /\ run nat exec out 40 out 0%nat = Done 4%nat.
Proof.
  assert (E : prune_self_moves (prune_labels (prune_jumps P)) = OK out) by (vm_compute; reflexivity).
  split; [exact E|]. split; [|split; vm_compute; reflexivity].
  apply (cleanup_preserves_what_the_function_computes nat exec exec_goto exec_jmp exec_noop P out); [| |exact E].
  - unfold P, labels. cbn. repeat constructor; cbn; intuition discriminate.
  - intros i Hi Ho. unfold P, instructions in Hi. cbn in Hi. intuition (subst; try discriminate Ho). cbn. repeat split; intros; try discriminate; reflexivity.
Qed.
End Example10.
Print Assumptions Example10.exec_goto.
Print Assumptions Example10.exec_jmp.
Print Assumptions Example10.exec_noop.
Print Assumptions Example10.cleanup_example.

(* the pinned pass deleted MOVL r,r and MOVQ X,X *)
Example movl_self_move_refuted :
  let eax := {| rid := 256; rmask := 7; rtag := 56 |} in
  let i := {| opcode := "MOVL"; suffixes := []; operands := [OReg eax; OReg eax]; inputs := [OReg eax]; outputs := [OReg eax];
              is_terminal := false; is_branch := false; is_conditional := false; cancelling := false; isa := [] |} in
  prune_self_moves_with false [NInstr i] = OK [] /\ prune_self_moves_with true [NInstr i] = OK [NInstr i] /\ move_is_architectural_noop i = false.
Proof. repeat split; reflexivity. Qed.
Print Assumptions movl_self_move_refuted.
