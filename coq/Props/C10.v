(* C10 — Clean-up passes never change what the function computes (what may be deleted). *)
From Avo Require Import Base.Prelude.
From stdpp Require Import gmap.
From Avo Require Import Base.MaskSet Model.IR Model.RegFile Model.Alloc Model.Cleanup Proofs.AllocProofs Proofs.CleanupProofs.
Open Scope N_scope.
Open Scope list_scope.

(* PruneSelfMoves (literal loop, including the skipped node after a deletion): the result is the input
   with some instructions dropped, and every dropped instruction made the predicate answer true *)
Theorem self_moves_only_dropped : forall ns out, prune_self_moves ns = OK out ->
  dropped_ok (self_move_pred self_move_opcodes_fixed true) ns out.
Proof. intros ns out H. apply remove_instrs_dropped. exact H. Qed.
Print Assumptions self_moves_only_dropped.

(* ... and the predicate answers true only on byte/word/quadword moves between identical
   general-purpose views, which are architectural no-ops; a 32-bit self-move (which clears the upper
   half) and vector moves never qualify *)
Theorem self_move_deleted_only_if_noop : forall i, well_formed_move i ->
  self_move_pred self_move_opcodes_fixed true i = OK true -> move_is_architectural_noop i = true.
Proof. exact self_move_pred_noop. Qed.
Print Assumptions self_move_deleted_only_if_noop.

(* PruneDanglingLabels keeps every non-label node and every referenced label, in order *)
Theorem prune_labels_keeps : forall ns n, In n (prune_labels ns) <->
  In n ns /\ match n with NLabel l => existsb (String.eqb l) (label_refs ns) = true | _ => True end.
Proof.
  intros ns n. unfold prune_labels. rewrite List.filter_In. split; intros [H1 H2]; split; auto.
  - destruct n; auto.
  - destruct n; auto.
Qed.
Print Assumptions prune_labels_keeps.

(* PruneJumpToFollowingLabel: the result is the input with some nodes dropped, and every dropped
   node is an unconditional branch whose target is the label that immediately followed it (control
   falls through to the same place); every other node is kept, in order *)
Theorem prune_jumps_only_fallthrough : forall ns, jumps_dropped ns (prune_jumps ns).
Proof. exact prune_jumps_dropped. Qed.
Print Assumptions prune_jumps_only_fallthrough.

(* after both label-related passes every branch names exactly the labels it named before, and a
   label it names that was defined is still defined: no branch is left dangling by the clean-up *)
Theorem cleanup_never_dangles : forall ns l,
  In l (label_refs (prune_labels (prune_jumps ns))) -> In (NLabel l) ns ->
  In (NLabel l) (prune_labels (prune_jumps ns)) /\ In l (label_refs ns).
Proof. exact cleanup_keeps_targets. Qed.
Print Assumptions cleanup_never_dangles.

(* the pinned pass deleted MOVL r,r and MOVQ X,X *)
Example movl_self_move_refuted :
  let eax := {| rid := 256; rmask := 7; rtag := 56 |} in
  let i := {| opcode := "MOVL"; suffixes := []; operands := [OReg eax; OReg eax]; inputs := [OReg eax]; outputs := [OReg eax];
              is_terminal := false; is_branch := false; is_conditional := false; cancelling := false; isa := [] |} in
  prune_self_moves_with false [NInstr i] = OK [] /\ prune_self_moves_with true [NInstr i] = OK [NInstr i] /\ move_is_architectural_noop i = false.
Proof. repeat split; reflexivity. Qed.
Print Assumptions movl_self_move_refuted.
