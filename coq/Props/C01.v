(* C01 — Register allocation preserves the meaning of the program.
   The compile pipeline is the staged model of Model/Pipeline.v / Model/Obs.v, compared with the
   real passes on every run; every allocation the implementation produces is validated inside Coq
   against path liveness (Model/Check.v: alloc_ok, bind_ok).  This file collects the theorems the
   validation rests on; the simulation theorem is in Proofs/SimProofs.v when present. *)
From Avo Require Import Base.Prelude.
From stdpp Require Import gmap.
From Avo Require Import Base.MaskSet Model.IR Model.RegFile Model.Liveness Model.Alloc Model.Cleanup Model.Pipeline Proofs.LivenessProofs Proofs.AllocProofs.
Open Scope N_scope.

(* the liveness used by the allocator is exactly path liveness (C02), in particular it is complete:
   every byte class that some path still reads is live, which is the half the allocator needs *)
Theorem liveness_complete : forall (p : prog) fuel r, liveness fuel p = Some r ->
  forall j id k, live_after p j id k -> mem (nth_out r j) id k = true.
Proof. intros p fuel r H j id k Hl. apply (liveness_exact_lemma p fuel r H j id k). exact Hl. Qed.
Print Assumptions liveness_complete.

(* binding substitutes: physical registers untouched, virtual registers replaced by the allocated
   register with the same byte mask (C03) *)
Theorem bind_substitutes : forall rf al r,
  (reg_is_virtual r = false -> lookup_register_default rf al r = r) /\
  (reg_is_virtual r = true -> let r' := lookup_register_default rf al r in
     r' = r \/ exists pid p, al !! rid r = Some pid /\ lookup_id rf pid (rmask r) = Some p /\ r' = reg_of_preg p /\ rmask r' = rmask r /\ In p rf /\ p_idx p = id_index pid).
Proof. intros rf al r. split; [apply bind_physical_untouched|apply bind_virtual]. Qed.
Print Assumptions bind_substitutes.
