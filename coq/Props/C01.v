(* C01 — Register allocation preserves the meaning of the program.
   The compile pipeline is the staged model of Model/Pipeline.v / Model/Obs.v, compared with the
   real passes on every run; every allocation the implementation produces is validated inside Coq
   against path liveness (Model/Check.v: alloc_ok, bind_ok).  This file collects the theorems the
   validation rests on. *)
From Avo Require Import Base.Prelude.
From stdpp Require Import gmap.
From Avo Require Import Base.MaskSet Model.IR Model.RegFile Model.Liveness Model.Alloc Model.Cleanup Model.Pipeline Model.Sem Proofs.LivenessProofs Proofs.AllocProofs Proofs.SimProofs Proofs.SimLink Proofs.SimValidator Proofs.LivenessTerm Proofs.AllocLoop Proofs.AllocCorrect Proofs.AllocSim Proofs.BindProofs Model.CFG Model.NodeSem Proofs.CleanupSem Proofs.CFGSem Proofs.NodeMachine Model.Cert Proofs.SimCert.
Open Scope N_scope.

(* the liveness used by the allocator is exactly path liveness (C02), in particular it is complete:
   every byte class that some path still reads is live, which is the half the allocator needs *)
Theorem liveness_complete : forall (p : prog) fuel r, liveness fuel p = Some r ->
  forall j id k, live_after p j id k -> mem (nth_out r j) id k = true.
Proof. intros p fuel r H j id k Hl. apply (liveness_exact_lemma p fuel r H j id k). exact Hl. Qed.
Print Assumptions liveness_complete.

(* binding substitutes: physical registers untouched, virtual registers replaced by the allocated
   register with the same byte mask (C03) *)
Theorem bind_substitutes : forall rf al r,
  (reg_is_virtual r = false -> lookup_register_default rf al r = r) /\
  (reg_is_virtual r = true -> let r' := lookup_register_default rf al r in
     r' = r \/ exists pid p, al !! rid r = Some pid /\ lookup_id rf pid (rmask r) = Some p /\ r' = reg_of_preg p /\ rmask r' = rmask r /\ In p rf /\ p_idx p = id_index pid).
Proof. intros rf al r. split; [apply bind_physical_untouched|apply bind_virtual]. Qed.
Print Assumptions bind_substitutes.

(* MAIN THEOREM.  `pr` lists, per instruction, the registers read, the registers written and the CFG
   successors; `al` is an allocation.  If the validator accepts (it is evaluated inside Coq on every
   allocation the implementation produces, check C01), then for EVERY instruction semantics `F` that
   follows the CFG and supplies a value for each declared output (the C04 contract: an instruction
   reads only what it declares and writes only what it declares), for every number of steps and all
   register files that agree, through the allocation, on the byte classes live at the starting point
   (in particular: all argument values), the program run with every virtual register in private
   storage and the program run with the allocated registers go through the same program points with
   the same memory, and agree on every live register byte: no value that can still be read is ever
   overwritten. *)
Theorem regalloc_preserves_semantics :
  forall (val memt : Type) (F : nat -> list val -> memt -> list val * memt * option nat) (pr : prog_regs_t) (al : list (N * N)),
  allocation_valid al pr = true ->
  (forall j i vs m outs m' n, List.nth_error (P pr) j = Some i -> F j vs m = (outs, m', Some n) -> In n (m_succ i)) ->
  (forall j i vs m outs m' npc, List.nth_error (P pr) j = Some i -> F j vs m = (outs, m', npc) -> List.length outs = List.length (m_defs i)) ->
  exists r, liveness (liveness_fuel (p pr)) (p pr) = Some r /\
  forall n j R R' m st1,
    (forall l, LIn r j l -> R l = R' (rename (sigma_of al) l)) ->
    mrun val memt F (P pr) n (j, R, m) = Some st1 ->
    exists j1 R1 R1' m1, st1 = (j1, R1, m1)
      /\ mrun val memt F (List.map (rename_instr (sigma_of al)) (P pr)) n (j, R', m) = Some (j1, R1', m1)
      /\ (forall l, LIn r j1 l -> R1 l = R1' (rename (sigma_of al) l)).
Proof. exact validated_allocation_preserves_semantics. Qed.
Print Assumptions regalloc_preserves_semantics.

(* ... AND THAT MACHINE IS THE FUNCTION BODY.  Take the node list `ns` of a function (labels, comments,
   instructions), executed by the small-step semantics of Model/NodeSem.v over a register file and a
   memory, where each instruction computes (`sem`) from the values of its declared input locations
   and memory, writes its declared output locations, and transfers control as its flags allow
   (C04/C09 contracts).  `pr` lists per instruction the declared reads/writes and the successors
   the CFG rules demand.  Then every execution of the body from any point to any later instruction
   is an execution of the indexed machine above, and if the validator accepts the allocation the
   renamed code reaches the same program point with the same memory and with registers that agree,
   through the allocation, on everything live there. *)
Theorem every_execution_of_the_body_is_preserved :
  forall (val memt : Type) (sem : instr -> list val -> memt -> list val * memt * ctl)
         (ns : list node) (pr : prog_regs_t) (ud : instr -> list loc * list loc) (al : list (N * N)),
  (forall i vs m outs m' l, sem i vs m = (outs, m', CGoto l) -> is_branch i = true /\ target_label i = Some l) ->
  (forall i vs m outs m', sem i vs m = (outs, m', CNext) -> is_terminal i = false /\ is_unconditional_branch i = false) ->
  (forall i vs m outs m' c, sem i vs m = (outs, m', c) -> List.length outs = List.length (snd (ud i))) ->
  List.length pr = ninstr ns ->
  (forall j i x, List.nth_error (instructions ns) j = Some i -> List.nth_error pr j = Some x ->
     regs_locs (fst (fst x)) = fst (ud i) /\ regs_locs (snd (fst x)) = snd (ud i) /\ snd x = spec_succs ns j i) ->
  allocation_valid al pr = true ->
  exists r, liveness (liveness_fuel (p pr)) (p pr) = Some r /\
  forall fuel k R R' m k' R1 m1,
    is_suffix k ns ->
    (forall l, LIn r (index_at ns k) l -> R l = R' (rename (sigma_of al) l)) ->
    run (St val memt) (exec val memt sem ud) ns fuel k (R, m) = Running k' (R1, m1) ->
    (index_at ns k' < ninstr ns)%nat ->
    exists n R1',
      mrun val memt (F val memt sem ns) (List.map (rename_instr (sigma_of al)) (P pr)) n (index_at ns k, R', m) = Some (index_at ns k', R1', m1)
      /\ (forall l, LIn r (index_at ns k') l -> R1 l = R1' (rename (sigma_of al) l)).
Proof.
  intros val memt sem ns pr ud al Hg Hn Ho Hlen Hud Hv.
  destruct (regalloc_preserves_semantics val memt (F val memt sem ns) pr al Hv
              (F_follows_cfg val memt sem ns pr ud Hg Hn Ho Hlen Hud)
              (F_outs val memt sem ns pr ud Hg Hn Ho Hlen Hud)) as (r & Hl & Hsim).
  exists r. split; [exact Hl|]. intros fuel k R R' m k' R1 m1 Hsuf Hrel Hrun Hlt.
  destruct (node_run_is_machine_run val memt sem ns pr ud Hg Hn Ho Hlen Hud fuel k R m k' R1 m1 Hsuf Hrun Hlt) as (n & _ & Hm).
  destruct (Hsim n _ R R' m _ Hrel Hm) as (j1 & R2 & R2' & m2 & E & Hm' & Hrel').
  injection E as <- <- <-. exists n, R2'. split; [exact Hm'|exact Hrel'].
Qed.
Print Assumptions every_execution_of_the_body_is_preserved.

(* THE ALLOCATOR ITSELF, FOR EVERY PROGRAM.  The model of pass.Liveness and pass.AllocateRegisters
   (the graph colouring of pass/alloc.go, literally: Add / AddInterference / update / mostrestricted /
   alloc, one allocator per register kind, merged) is correct on every instruction sequence `is` with
   successor lists `ss`: liveness terminates, and whenever the allocator returns an allocation `al`,
   the program with every register renamed through `al` simulates the original in lock step, for
   every instruction semantics F that respects the declared reads/writes (C04) — no value that can
   still be read is ever overwritten.  Hypotheses: the register file lists physical IDs
   (regfile_ok, discharged reflectively for the translated table on every run: Tab.regfile_ok_tab)
   and a virtual register read or written by an instruction is one of its operands (evaluated on
   the instructions of every case: discipline_ok).  The model allocator is compared with the
   implementation's allocation on every case (R_mismatch), so this theorem speaks about the
   allocation avo actually produced. *)
Theorem model_regalloc_preserves_semantics :
  forall (val memt : Type) (F : nat -> list val -> memt -> list val * memt * option nat)
         (rf : regfile) (is : list instr) (ss : list (list (option nat))) (pg : prog) (al : AL),
  regfile_ok rf = true -> length ss = length is -> virt_in_operands is ->
  mk_prog is ss = OK pg ->
  exists lvs pr, liveness (liveness_fuel pg) pg = Some lvs /\ regs_of is ss = OK pr /\
  (allocate_registers rf is (List.map lout lvs) = OK al ->
   (forall j i vs m outs m' n, List.nth_error (P pr) j = Some i -> F j vs m = (outs, m', Some n) -> In n (m_succ i)) ->
   (forall j i vs m outs m' npc, List.nth_error (P pr) j = Some i -> F j vs m = (outs, m', npc) -> List.length outs = List.length (m_defs i)) ->
   forall n j R R' m st1,
     (forall l, LIn lvs j l -> R l = R' (rename (lookup_default al) l)) ->
     mrun val memt F (P pr) n (j, R, m) = Some st1 ->
     exists j1 R1 R1' m1, st1 = (j1, R1, m1)
       /\ mrun val memt F (List.map (rename_instr (lookup_default al)) (P pr)) n (j, R', m) = Some (j1, R1', m1)
       /\ (forall l, LIn lvs j1 l -> R1 l = R1' (rename (lookup_default al) l))).
Proof. exact model_allocation_preserves_semantics. Qed.
Print Assumptions model_regalloc_preserves_semantics.

(* BindRegisters realises that renaming: for every instruction whose registers are all bound (what
   VerifyAllocation checks), the reads and writes of the bound instruction, as storage locations
   (register ID, byte class), are the images under the allocation of the original ones, with the same
   successors — so the renamed program of the theorem above IS the bound code.  The table facts
   (same family and index => same ID, ID fields = table fields) are discharged on the translated
   register file on every run (Tab.regfile_bind_ok_tab). *)
Theorem bound_code_is_renamed_program : forall rf is liveouts al,
  AllocCorrect.regfile_ok rf = true -> regfile_kinds_ok rf = true -> regfile_bind_ok rf = true ->
  allocate_registers rf is liveouts = OK al ->
  forall uses defs succs, Forall (bound rf al) uses -> Forall (bound rf al) defs ->
  to_minstr (List.map (lookup_register_default rf al) uses) (List.map (lookup_register_default rf al) defs) succs
  = rename_instr (lookup_default al) (to_minstr uses defs succs).
Proof. exact bound_code_is_renamed_lemma. Qed.
Print Assumptions bound_code_is_renamed_program.

(* the colouring loop alone: the two ends of every interference edge get different physical
   registers, for every interference graph *)
Theorem colouring_separates_neighbours : forall fuel a al, awf a -> a_allocate fuel a = OK al ->
  (forall x y, In (x, y) (a_edges a) -> phys (lookup_default al x) /\ phys (lookup_default al y) /\ lookup_default al x <> lookup_default al y)
  /\ (forall v c, al !! v = Some c -> virt v /\ phys c /\ id_kind c = id_kind v)
  /\ (forall v, is_Some (a_poss a !! v) -> is_Some (al !! v))
  /\ (forall v c, al !! v = Some c -> In c (a_regs a)).
Proof. exact allocate_awf. Qed.
Print Assumptions colouring_separates_neighbours.

(* non-vacuity: two values live across each other's definitions must get different registers; the
   validator accepts a proper colouring and rejects sharing *)
Example validator_example :
  let v1 := {| rid := 65793; rmask := 15; rtag := 1 |} in let v2 := {| rid := 131329; rmask := 15; rtag := 1 |} in
  let pr := [([], [v1], [Some 1%nat]); ([], [v2], [Some 2%nat]); ([v1; v2], [], [])] in
  allocation_valid [(65793, 256); (131329, 512)] pr = true /\ allocation_valid [(65793, 256); (131329, 256)] pr = false.
Proof. split; vm_compute; reflexivity. Qed.
Print Assumptions validator_example.

(* functions too large for the path-liveness decision procedure to be run inside Coq: the live sets
   the implementation itself computed are taken as a certificate.  If they are closed under the
   dataflow equations (closed_b, evaluated on every run: Check.cert_alloc_ok) and no definition
   lands on a register that holds another value of the certificate (no_clobber_model), every run of
   the function is matched, step by step, by a run of the renamed function that agrees on every
   location of the certificate.  Nothing about how the sets were obtained is assumed. *)
Theorem certified_allocation_preserves_semantics :
  forall (val memt : Type) (F : nat -> list val -> memt -> list val * memt * option nat) (pr : prog_regs_t) (al : list (N * N)) (r : st),
  closed_b (p pr) r = true -> no_clobber_model al r pr = true ->
  (forall j i vs m outs m' n, List.nth_error (P pr) j = Some i -> F j vs m = (outs, m', Some n) -> In n (m_succ i)) ->
  (forall j i vs m outs m' npc, List.nth_error (P pr) j = Some i -> F j vs m = (outs, m', npc) -> List.length outs = List.length (m_defs i)) ->
  forall n j R R' m st1,
    (forall l, LIn r j l -> R l = R' (rename (sigma_of al) l)) ->
    mrun val memt F (P pr) n (j, R, m) = Some st1 ->
    exists j1 R1 R1' m1, st1 = (j1, R1, m1)
      /\ mrun val memt F (List.map (rename_instr (sigma_of al)) (P pr)) n (j, R', m) = Some (j1, R1', m1)
      /\ (forall l, LIn r j1 l -> R1 l = R1' (rename (sigma_of al) l)).
Proof. exact certified_allocation_preserves_semantics_lemma. Qed.
Print Assumptions certified_allocation_preserves_semantics.
