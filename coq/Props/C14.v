(* C14 — Build constraints mean the same thing to avo and to the Go toolchain. *)
From Avo Require Import Base.Prelude Base.Str Model.Tags Proofs.TagsProofs.
Open Scope string_scope.

(* For every rune classification `name_ok` that excludes the separators of the +build syntax
   (true of "letters, digits, '_' and '.'"), every constraint set avo accepts as valid, and every
   assignment of build tags: the toolchain's reading of the "// +build" lines avo prints selects
   the file exactly when avo's Evaluate is true. *)
Theorem plusbuild_semantics : forall name_ok : string -> bool,
  (forall n, name_ok n = true -> contains_char ","%char n = false /\ contains_char " "%char n = false /\ contains_char nl n = false) ->
  forall cs, validate_constraints name_ok true cs = true ->
  exists e, pb_parse name_ok (gostring cs) = Some e /\ forall v, pb_eval v e = eval_constraints name_ok v cs.
Proof. exact plusbuild_semantics_lemma. Qed.
Print Assumptions plusbuild_semantics.

(* parsing avo's textual form of a constraint gives back the same constraint *)
Theorem parse_print_constraint : forall name_ok : string -> bool,
  (forall n, name_ok n = true -> contains_char ","%char n = false /\ contains_char " "%char n = false /\ contains_char nl n = false) ->
  forall c, validate_constraint name_ok true c = true ->
  parse_constraint name_ok (join " " (List.map gostring_option c)) = Some c.
Proof.
  intros name_ok H c Hc. apply parse_print_constraint_lemma; [exact H|].
  assert (Hv : validate_constraints name_ok true [c] = true) by (cbn; now rewrite Hc).
  apply (validate_reflect name_ok) in Hv. now inversion Hv.
Qed.
Print Assumptions parse_print_constraint.

(* terms the toolchain would rewrite to "ignore" are exactly the ones Validate rejects *)
Theorem validity_agrees : forall (name_ok : string -> bool) t,
  validate_term name_ok t = true <-> pb_term name_ok t = Tag (is_negated t) (name_of t).
Proof.
  intros name_ok t. unfold validate_term, pb_term, tool_tag_ok. split.
  - rewrite !andb_true_iff, !negb_true_iff. intros [[-> ->] ->]. reflexivity.
  - destruct (double_bang t); [discriminate|]. destruct (String.eqb (name_of t) ""); [discriminate|].
    destruct (name_ok (name_of t)); [reflexivity|discriminate].
Qed.
Print Assumptions validity_agrees.

(* the pinned Validate accepted empty options: the meaning then differs *)
Definition ascii_name_ok (n : string) : bool :=
  negb (contains_char ","%char n || contains_char " "%char n || contains_char nl n || contains_char "!"%char n).
Example empty_option_refuted :
  validate_constraints ascii_name_ok false [[[]]] = true
  /\ validate_constraints ascii_name_ok true [[[]]] = false
  /\ eval_constraints ascii_name_ok (fun _ => false) [[[]]] = true
  /\ option_map (pb_eval (fun _ => false)) (pb_parse ascii_name_ok (gostring [[[]]])) = Some false.
Proof. repeat split; reflexivity. Qed.
Print Assumptions empty_option_refuted.

(* non-vacuity *)
Example tags_example :
  let cs := [[["linux"; "!cgo"]; ["go1.18"]]; [["amd64"]]] in
  validate_constraints ascii_name_ok true cs = true
  /\ gostring cs = "// +build linux,!cgo go1.18" ++ String nl "" ++ "// +build amd64" ++ String nl ""
  /\ eval_constraints ascii_name_ok (assign ["go1.18"; "amd64"]) cs = true.
Proof. repeat split; reflexivity. Qed.
Print Assumptions tags_example.
