(* C09 — The control-flow graph matches x86 control flow. *)
From Avo Require Import Base.Prelude.
From stdpp Require Import gmap.
From Avo Require Import Base.MaskSet Model.IR Model.CFG Model.NodeSem Proofs.CFGProofs Proofs.CleanupSem Proofs.CFGSem.
Open Scope string_scope.
Open Scope N_scope.
Open Scope list_scope.

(* successors: for every instruction k of a function whose CFG pass succeeds, the successor list is
   the branch target (the instruction the label is bound to) if it is a branch, followed by the next
   instruction (or "falls off the end") unless it is terminal or an unconditional branch *)
Theorem cfg_succ_exact : forall tg is succs, cfg tg is = OK succs ->
  length succs = length is /\
  forall k cur, List.nth_error is k = Some cur -> exists s, List.nth_error succs k = Some s /\
    s = (if is_branch cur then match target_label cur with Some l => match assoc tg l with Some t => [Some t] | None => [] end | None => [] end else [])
        ++ (if is_terminal cur then [] else if is_unconditional_branch cur then [] else [if Nat.ltb (S k) (length is) then Some (S k) else None])
    /\ (is_branch cur = true -> exists l t, target_label cur = Some l /\ assoc tg l = Some t).
Proof.
  intros tg is succs H. unfold cfg in H. destruct (cfg_succs_nth tg (length is) is 0 succs H) as [Hl Hn].
  split; [exact Hl|]. intros k cur Hk. destruct (Hn k cur Hk) as (s & H1 & H2). exists s. split; [exact H1|].
  cbn [Nat.add] in H2. apply succ_of_spec in H2. exact H2.
Qed.
Print Assumptions cfg_succ_exact.

(* predecessors are exactly the inverse edges, in instruction order *)
Theorem cfg_pred_inverse : forall succs t,
  List.nth t (cfg_preds succs) [] =
  if Nat.ltb t (length succs) then
    flat_map (fun p => flat_map (fun s => match s with Some j => if Nat.eqb j t then [fst p] else [] | None => [] end) (snd p)) (index_list succs)
  else [].
Proof. exact cfg_preds_inverse. Qed.
Print Assumptions cfg_pred_inverse.

(* a branch whose first operand is not a label, or whose label is not bound, is an error *)
Theorem cfg_branch_errors : forall tg n i cur e, succ_of tg n i cur = Err e ->
  is_branch cur = true /\ ((target_label cur = None /\ e = ENoLabel) \/ (exists l, target_label cur = Some l /\ assoc tg l = None /\ e = EUnknownLabel)).
Proof. exact succ_of_err. Qed.
Print Assumptions cfg_branch_errors.

(* MAIN THEOREM: for every node sequence whose instructions carry the flags their opcodes demand
   (J* are branches, conditional unless JMP; RET is terminal), the outcome of LabelTarget + CFG meets
   the specification written from the property text: it is an error exactly when some label is
   duplicated, some label has no following instruction, some branch has a non-label target or an
   undefined label; otherwise every instruction's successors are the first instruction after the
   referenced label (for a branch) followed by the next instruction (unless it is a return or an
   unconditional jump), and the predecessors are exactly the inverse edges *)
Theorem cfg_model_meets_spec : forall ns, forallb opcode_flags_ok (instructions ns) = true -> cfg_spec_b ns (cfg_model ns) = true.
Proof. exact cfg_model_meets_spec_lemma. Qed.
Print Assumptions cfg_model_meets_spec.

(* WHAT THE GRAPH IS FOR.  Take the small-step semantics of a body (Model/NodeSem.v), for any machine
   state and any instruction semantics `exec` that respects the flags: control is transferred only
   to the label a branch names, and only a non-terminal instruction that is not an unconditional
   branch falls through.  Then whenever the CFG passes succeed, every step the machine makes from
   instruction number a leads to an instruction number b (skipping labels and comments) such that b
   is in the successor list the pass computed for a; or the machine has run past the last
   instruction and that list contains the nil successor.  Liveness (C02) and the allocator (C01)
   rely on exactly this: no execution leaves the graph. *)
Theorem executed_edge_in_cfg : forall (S : Type) (exec : instr -> S -> S * ctl),
  (forall i s s' l, exec i s = (s', CGoto l) -> is_branch i = true /\ target_label i = Some l) ->
  (forall i s s', exec i s = (s', CNext) -> is_terminal i = false /\ is_unconditional_branch i = false) ->
  forall P succs preds, forallb opcode_flags_ok (instructions P) = true -> cfg_model P = CfgOK succs preds ->
  forall i r s k' s', is_suffix (NInstr i :: r) P -> step S exec P (NInstr i :: r) s = Running k' s' ->
  exists sl, List.nth_error succs (index_at P (NInstr i :: r)) = Some sl /\
             (In (Some (index_at P k')) sl \/ (index_at P k' = ninstr P /\ In None sl)).
Proof.
  intros S exec Hg Hn P succs preds Hf Hm. apply (executed_edge_in_cfg_lemma S exec Hg Hn P succs preds).
  rewrite <- Hm. now apply cfg_model_meets_spec_lemma.
Qed.
Print Assumptions executed_edge_in_cfg.

(* labels are bound to the first instruction after them; LabelTarget fails exactly on duplicates
   and labels without a following instruction *)
Theorem label_target_exact : forall ns,
  match label_target ns with
  | OK tg => tg = lab_idx ns 0 /\ has_duplicate_label ns = false /\ label_without_instr ns = false
  | Err e => has_duplicate_label ns = true \/ label_without_instr ns = true
  | Panic _ => False
  end.
Proof. exact label_target_spec. Qed.
Print Assumptions label_target_exact.

(* the pinned LabelTarget missed a duplicate label when both occurrences precede the same instruction *)
Example duplicate_label_missed_refuted :
  let nop := NInstr {| opcode := "NOP"; suffixes := []; operands := []; inputs := []; outputs := []; is_terminal := false;
                       is_branch := false; is_conditional := false; cancelling := false; isa := [] |} in
  cfg_spec_b [NLabel "a"; NLabel "a"; nop] (cfg_model_with false [NLabel "a"; NLabel "a"; nop]) = false
  /\ cfg_spec_b [NLabel "a"; NLabel "a"; nop] (cfg_model_with true [NLabel "a"; NLabel "a"; nop]) = true.
Proof. split; reflexivity. Qed.
Print Assumptions duplicate_label_missed_refuted.

(* non-vacuity: a loop with consecutive labels and a branch as last instruction *)
Example cfg_example :
  let mk op ops br cond term := NInstr {| opcode := op; suffixes := []; operands := ops; inputs := []; outputs := [];
                                          is_terminal := term; is_branch := br; is_conditional := cond; cancelling := false; isa := [] |} in
  let ns := [mk "JMP" [OLabel "b"] true false false; NLabel "a"; NLabel "b"; mk "NOP" [] false false false; mk "JNE" [OLabel "a"] true true false] in
  cfg_model ns = CfgOK [[Some 1%nat]; [Some 2%nat]; [Some 1%nat; None]] [[]; [0%nat; 2%nat]; [1%nat]]
  /\ cfg_spec_b ns (cfg_model ns) = true.
Proof. split; reflexivity. Qed.
Print Assumptions cfg_example.

(* non-vacuity of executed_edge_in_cfg: a machine whose state is one flag; the loop above, entered
   with the flag set, takes the back edge JNE -> NOP, which is successor 1 of instruction 2 *)
Module Example09.
Definition exec (i : instr) (s : bool) : bool * ctl :=
  if is_terminal i then (s, CHalt) else
  match target_label i with
  | Some l => if is_conditional i then (if s then (false, CGoto l) else (s, CNext)) else (s, CGoto l)
  | None => if is_unconditional_branch i then (s, CHalt) else (s, CNext)
  end.
Lemma exec_goto : forall i s s' l, exec i s = (s', CGoto l) -> is_branch i = true /\ target_label i = Some l.
Proof.
  intros i s s' l. unfold exec. destruct (is_terminal i); [discriminate|]. destruct (target_label i) as [t|] eqn:Et.
  - assert (Hb : is_branch i = true) by (unfold target_label in Et; destruct (is_branch i); [reflexivity|discriminate]).
    destruct (is_conditional i); [destruct s|]; intro H; inversion H; subst; auto.
  - destruct (is_unconditional_branch i); discriminate.
Qed.
Lemma exec_next : forall i s s', exec i s = (s', CNext) -> is_terminal i = false /\ is_unconditional_branch i = false.
Proof.
  intros i s s'. unfold exec. destruct (is_terminal i); [discriminate|]. destruct (target_label i) as [t|] eqn:Et.
  - unfold is_unconditional_branch. destruct (is_conditional i) eqn:Ec; [|discriminate]. intros _. split; [reflexivity|]. now rewrite andb_false_r.
  - destruct (is_unconditional_branch i) eqn:E; [discriminate|]. auto.
Qed.
Definition mk op ops br cond term := NInstr {| opcode := op; suffixes := []; operands := ops; inputs := []; outputs := [];
                                        is_terminal := term; is_branch := br; is_conditional := cond; cancelling := false; isa := [] |}.
Definition P := [mk "JMP" [OLabel "b"] true false false; NLabel "a"; NLabel "b"; mk "NOP" [] false false false; mk "JNE" [OLabel "a"] true true false].
Example back_edge :
  exists i k', is_suffix [NInstr i] P /\ step bool exec P [NInstr i] true = Running k' false /\
               index_at P [NInstr i] = 2%nat /\ index_at P k' = 1%nat /\
               exists sl, List.nth_error [[Some 1%nat]; [Some 2%nat]; [Some 1%nat; None]] 2 = Some sl /\ In (Some 1%nat) sl.
Proof.
  eexists. eexists. split; [exists [mk "JMP" [OLabel "b"] true false false; NLabel "a"; NLabel "b"; mk "NOP" [] false false false]; reflexivity|].
  split; [reflexivity|]. split; [reflexivity|]. split; [reflexivity|]. eexists. split; [reflexivity|]. now left.
Qed.
End Example09.
Print Assumptions Example09.exec_goto.
Print Assumptions Example09.exec_next.
Print Assumptions Example09.back_edge.
