(* C07 — Argument and result addresses match the Go compiler's stack layout. *)
From Avo Require Import Base.Prelude Base.Str Model.Layout Proofs.LayoutProofs.
Open Scope Z_scope.

(* parameters are laid out exactly like struct fields from offset 0 (the sentinel appended by
   Signature.init never moves them) *)
Theorem param_layout : forall params results,
  params_off (sig_layout params results) = offsetsof (List.map snd params) 0.
Proof. exact param_layout_lemma. Qed.
Print Assumptions param_layout.

(* every component step that succeeds (string/slice header parts, complex parts, array
   elements, struct fields, nested arbitrarily) addresses bytes inside the enclosing value:
   same base, offset not below it, end not beyond it *)
Theorem component_in_bounds : forall t a s t' a', (forall r, s <> SDeref r) ->
  apply_step true (COk t a) s = COk t' a' ->
  a_base a' = a_base a /\ a_disp a <= a_disp a' /\ a_disp a' + sizeof t' <= a_disp a + sizeof t.
Proof. exact step_inside_lemma. Qed.
Print Assumptions component_in_bounds.

(* through a loaded pointer the address is relative to that register, starts at the pointee's own
   offset 0 and carries no symbol *)
Theorem deref_offsets : forall t a r t' a', apply_step true (COk t a) (SDeref r) = COk t' a' ->
  a_sym a' = EmptyString /\ a_disp a' = 0 /\ a_base a' = BReg r /\ under t = TPtr t'.
Proof. exact deref_addr. Qed.
Print Assumptions deref_offsets.

(* an index or field that does not exist is an error, and an error anywhere in a chain is still an
   error at Resolve: never an address *)
Theorem bad_path_is_error :
  (forall t a i n e, under t = TArr n e -> (i < 0 \/ n <= i) -> apply_step true (COk t a) (SIndex i) = CErr)
  /\ (forall t a fs n, under t = TStruct fs -> (forall f, In f fs -> fst f <> n) -> apply_step true (COk t a) (SField n) = CErr)
  /\ (forall p, resolve (apply_path true CErr p) = None).
Proof.
  split; [exact index_out_of_range|]. split; [exact field_missing|]. intro p. rewrite apply_path_err. reflexivity.
Qed.
Print Assumptions bad_path_is_error.

(* the pinned bounds test let a negative index through: an address below the value *)
Example negative_index_refuted :
  resolve (apply_path false (param_comp "a" 8 (TArr 4 (TBasic KInt64))) [SIndex (-1)])
  = Some (KInt64, {| a_sym := "a_-1"; a_disp := 0; a_base := BFP |})
  /\ resolve (apply_path true (param_comp "a" 8 (TArr 4 (TBasic KInt64))) [SIndex (-1)]) = None.
Proof. split; reflexivity. Qed.
Print Assumptions negative_index_refuted.

(* non-vacuity: padding, nested arrays of structs, trailing zero-size field *)
Example layout_example :
  let S := TStruct [("a", TBasic KInt8); ("b", TBasic KInt64); ("c", TArr 3 (TStruct [("x", TBasic KUint16); ("y", TBasic KComplex64)])); ("z", TStruct [])] in
  sizeof S = 56 /\ sig_bytes (sig_layout [("p", TBasic KBool); ("s", S)] [("", TBasic KInt32)]) = 68
  /\ resolve (apply_path true (param_comp "s" 8 S) [SField "c"; SIndex 2; SField "y"; SImag])
     = Some (KFloat32, {| a_sym := "s_c_2_y_imag"; a_disp := 56; a_base := BFP |}).
Proof. repeat split; vm_compute; reflexivity. Qed.
Print Assumptions layout_example.

(* every frame-pointer-relative address that a chain of component steps resolves to (any nesting of
   string/slice header parts, complex parts, array elements and struct fields; no pointer
   dereference) is an entry (symbol name, offset, size) of go vet's asmdecl flattening of the
   argument it starts from: the specification the checks evaluate on avo's own output (sig_impl_ok)
   is met by the model for every type and every path *)
From Avo Require Import Proofs.FlattenProofs.
Theorem component_matches_flatten : forall name off t p k a,
  name <> EmptyString -> forallb nonderef p = true ->
  resolve (apply_path true (param_comp name off t) p) = Some (k, a) ->
  a_base a = BFP /\ In (a_sym a, a_disp a, kind_size k) (flatten name off t).
Proof. exact resolved_component_matches_flatten_lemma. Qed.
Print Assumptions component_matches_flatten.
