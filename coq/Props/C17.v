(* C17 — Generation is deterministic: the results of the computations that range over Go maps do
   not depend on the enumeration order.  (Which ranges exist is re-read from the source on every
   run, see Model/Determinism.v.) *)
From Avo Require Import Base.Prelude.
From Coq Require Import Permutation.
From stdpp Require Import gmap.
From Avo Require Import Base.MaskSet Model.IR Model.RegFile Model.Liveness Model.Alloc Proofs.DetProofs.
Open Scope N_scope.

(* mostrestricted: the chosen virtual register is the minimum of (number of possibilities, ID) *)
Theorem most_restricted_order_free : forall l l', Permutation l l' -> most_restricted l = most_restricted l'.
Proof. exact most_restricted_order_free_lemma. Qed.
Print Assumptions most_restricted_order_free.

(* MaskSet.Update / Clone / OfKind / NewMaskSetFromRegisters *)
Theorem ms_fold_add_order_free : forall l l' s, Permutation l l' -> forall id,
  get (fold_left (fun acc p => ms_add acc (fst p) (snd p)) l s) id = get (fold_left (fun acc p => ms_add acc (fst p) (snd p)) l' s) id.
Proof. exact ms_fold_add_order_free_lemma. Qed.
Print Assumptions ms_fold_add_order_free.

(* MaskSet.DifferenceUpdate *)
Theorem ms_fold_discard_order_free : forall l l' s, Permutation l l' -> forall id,
  get (fold_left (fun acc p => ms_discard acc (fst p) (snd p)) l s) id = get (fold_left (fun acc p => ms_discard acc (fst p) (snd p)) l' s) id.
Proof. exact ms_fold_discard_order_free_lemma. Qed.
Print Assumptions ms_fold_discard_order_free.

(* Allocator.update: whatever the order in which interference edges were recorded (AddInterferenceSet
   ranges over a map), the possible-sets, the error and the remaining edges (up to order) agree *)
Theorem update_edge_order_free : forall al es es' po, Permutation es es' ->
  match a_update_go al es [] po, a_update_go al es' [] po with
  | OK (rem, po1), OK (rem', po2) => Permutation rem rem' /\ po1 = po2
  | Err e, Err e' => e = e'
  | _, _ => False
  end.
Proof. exact update_edge_order_free_lemma. Qed.
Print Assumptions update_edge_order_free.
