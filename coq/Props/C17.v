(* C17 — Generation is deterministic: the results of the computations that range over Go maps do
   not depend on the enumeration order.  (Which ranges exist is re-read from the source on every
   run, see Model/Determinism.v.) *)
From Avo Require Import Base.Prelude.
From Coq Require Import Permutation.
From stdpp Require Import gmap.
From Avo Require Import Base.MaskSet Model.IR Model.RegFile Model.Liveness Model.Alloc Proofs.DetProofs.
Open Scope N_scope.

(* mostrestricted: the chosen virtual register is the minimum of (number of possibilities, ID) *)
Theorem most_restricted_order_free : forall l l', Permutation l l' -> most_restricted l = most_restricted l'.
Proof. exact most_restricted_order_free_lemma. Qed.
Print Assumptions most_restricted_order_free.

(* MaskSet.Update / Clone / OfKind / NewMaskSetFromRegisters *)
Theorem ms_fold_add_order_free : forall l l' s, Permutation l l' -> forall id,
  get (fold_left (fun acc p => ms_add acc (fst p) (snd p)) l s) id = get (fold_left (fun acc p => ms_add acc (fst p) (snd p)) l' s) id.
Proof. exact ms_fold_add_order_free_lemma. Qed.
Print Assumptions ms_fold_add_order_free.

(* MaskSet.DifferenceUpdate *)
Theorem ms_fold_discard_order_free : forall l l' s, Permutation l l' -> forall id,
  get (fold_left (fun acc p => ms_discard acc (fst p) (snd p)) l s) id = get (fold_left (fun acc p => ms_discard acc (fst p) (snd p)) l' s) id.
Proof. exact ms_fold_discard_order_free_lemma. Qed.
Print Assumptions ms_fold_discard_order_free.

(* Allocator.update: whatever the order in which interference edges were recorded (AddInterferenceSet
   ranges over a map), the possible-sets, the error and the remaining edges (up to order) agree *)
Theorem update_edge_order_free : forall al es es' po, Permutation es es' ->
  match a_update_go al es [] po, a_update_go al es' [] po with
  | OK (rem, po1), OK (rem', po2) => Permutation rem rem' /\ po1 = po2
  | Err e, Err e' => e = e'
  | _, _ => False
  end.
Proof. exact update_edge_order_free_lemma. Qed.
Print Assumptions update_edge_order_free.

(* Allocate(): the allocation (or the error) is the same for any order of the recorded edges *)
Theorem allocate_order_free : forall fuel regs al es es' po, Permutation es es' ->
  a_allocate fuel {| a_regs := regs; a_alloc := al; a_edges := es; a_poss := po |}
  = a_allocate fuel {| a_regs := regs; a_alloc := al; a_edges := es'; a_poss := po |}.
Proof. exact allocate_order_free_lemma. Qed.
Print Assumptions allocate_order_free.

(* AddInterferenceSet(r, s) ranges over the map s: for any two enumeration orders the allocator state
   is the same up to the order of the edge list ... *)
Theorem interference_edges_order_free : forall a d order order', Permutation order order' ->
  let s := a_add_interference_set a d order in let s' := a_add_interference_set a d order' in
  a_regs s = a_regs s' /\ a_alloc s = a_alloc s' /\ Permutation (a_edges s) (a_edges s') /\ a_poss s = a_poss s'.
Proof. exact interference_edges_order_free_lemma. Qed.
Print Assumptions interference_edges_order_free.
(* ... and therefore the allocation computed from it is identical *)
Theorem allocate_after_interference_order_free : forall fuel a d order order', Permutation order order' ->
  a_allocate fuel (a_add_interference_set a d order) = a_allocate fuel (a_add_interference_set a d order').
Proof. exact allocate_after_interference_order_free_lemma. Qed.
Print Assumptions allocate_after_interference_order_free.

(* Allocation.Merge(b) ranges over b: inserting its entries in any order gives the same map or the
   same error; the model's merge_alloc is this fold for one enumeration *)
Theorem merge_order_free : forall a b l', Permutation (map_to_list b) l' ->
  merge_alloc a b = fold_left merge_step l' (OK a).
Proof.
  intros a b l' H. rewrite merge_alloc_is_fold. apply merge_order_free_lemma.
  eapply perm_trans; [apply Permutation_sym, Permutation_rev|exact H].
Qed.
Print Assumptions merge_order_free.
