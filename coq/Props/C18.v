(* C18 — Invalid requests are reported as errors; nothing is emitted (builder state machine). *)
From Avo Require Import Base.Prelude Base.Str Model.Data Model.Builder Model.PassFramework Proofs.BuilderProofs Proofs.PassFrameworkProofs.
Open Scope Z_scope.

(* for every history of builder calls: an error is recorded for each builder-time fault (operands
   matching no form, unknown/non-primitive component, undeducible move, overlapping datum, invalid
   constraint, call outside a function or data section), and a history of only valid requests
   records none *)
Theorem errors_counted : forall h,
  (count_faults b_init h <= b_errs (b_run h))%nat /\ (count_faults b_init h = 0%nat -> b_errs (b_run h) = 0%nat).
Proof. exact errors_counted_lemma. Qed.
Print Assumptions errors_counted.

(* one bad call is never masked by later good ones *)
Theorem fault_never_masked : forall h1 h2, (b_errs (b_run h1) <= b_errs (b_run (h1 ++ h2)))%nat.
Proof. exact never_masked_lemma. Qed.
Print Assumptions fault_never_masked.

(* Main: non-zero status iff some builder error or a failing pass; the printers (which come after
   Compile in the pass list) run only when the status is zero *)
Theorem main_status_thm : forall errs cok,
  (fst (main_status errs cok) <> 0%nat <-> (0 < errs)%nat \/ cok = false)
  /\ (snd (main_status errs cok) = true <-> fst (main_status errs cok) = 0%nat).
Proof. exact main_status_lemma. Qed.
Print Assumptions main_status_thm.

Example builder_example :
  b_errs (b_run [BInstr true; BFunction; BSignature true; BLoad CompOK; BLoad CompNoMov; BInstr false; BStaticGlobal; BAddDatum 0 8; BAddDatum 4 8; BAppendDatum 1]) = 4%nat
  /\ count_faults b_init [BInstr true; BFunction; BSignature true; BLoad CompOK; BLoad CompNoMov; BInstr false; BStaticGlobal; BAddDatum 0 8; BAddDatum 4 8; BAppendDatum 1] = 4%nat.
Proof. split; reflexivity. Qed.
Print Assumptions builder_example.

(* compile-time faults (undefined or duplicate label, memory operand without base, unsatisfiable
   allocation, frameless base-pointer write, ...) in a file of several functions: the model of the pass
   framework (a function pass stops at the first function it refuses, the concatenation at the first
   failing pass; compared with the real pass.Compile on files built from refused and accepted
   functions, Gen/C09/Files.v and Gen/C15/Files.v) refuses the file exactly when some function is
   refused on its own, wherever it stands in the file, and the error it reports is that of one of the
   functions *)
Theorem file_refused_iff_some_function_is : forall npasses fs,
  (forall a, In a fs -> snd a <> 0%N -> (1 <= fst a /\ fst a < 1 + N.of_nat npasses)%N) ->
  (compile_file npasses fs = 0%N <-> forall a, In a fs -> snd a = 0%N).
Proof. intros npasses fs H. unfold compile_file. apply compile_zero_iff_all_accepted. exact H. Qed.
Print Assumptions file_refused_iff_some_function_is.
Theorem file_error_is_a_functions_error : forall npasses fs c,
  compile_file npasses fs = c -> c <> 0%N -> exists s, In (s, c) fs.
Proof. intros npasses fs c. unfold compile_file. apply compile_error_is_some_functions. Qed.
Print Assumptions file_error_is_a_functions_error.
