(* C18 — Invalid requests are reported as errors; nothing is emitted (builder state machine). *)
From Avo Require Import Base.Prelude Base.Str Model.Data Model.Builder Proofs.BuilderProofs.
Open Scope Z_scope.

(* for every history of builder calls: an error is recorded for each builder-time fault (operands
   matching no form, unknown/non-primitive component, undeducible move, overlapping datum, invalid
   constraint, call outside a function or data section), and a history of only valid requests
   records none *)
Theorem errors_counted : forall h,
  (count_faults b_init h <= b_errs (b_run h))%nat /\ (count_faults b_init h = 0%nat -> b_errs (b_run h) = 0%nat).
Proof. exact errors_counted_lemma. Qed.
Print Assumptions errors_counted.

(* one bad call is never masked by later good ones *)
Theorem fault_never_masked : forall h1 h2, (b_errs (b_run h1) <= b_errs (b_run (h1 ++ h2)))%nat.
Proof. exact never_masked_lemma. Qed.
Print Assumptions fault_never_masked.

(* Main: non-zero status iff some builder error or a failing pass; the printers (which come after
   Compile in the pass list) run only when the status is zero *)
Theorem main_status_thm : forall errs cok,
  (fst (main_status errs cok) <> 0%nat <-> (0 < errs)%nat \/ cok = false)
  /\ (snd (main_status errs cok) = true <-> fst (main_status errs cok) = 0%nat).
Proof. exact main_status_lemma. Qed.
Print Assumptions main_status_thm.

Example builder_example :
  b_errs (b_run [BInstr true; BFunction; BSignature true; BLoad CompOK; BLoad CompNoMov; BInstr false; BStaticGlobal; BAddDatum 0 8; BAddDatum 4 8; BAppendDatum 1]) = 4%nat
  /\ count_faults b_init [BInstr true; BFunction; BSignature true; BLoad CompOK; BLoad CompNoMov; BInstr false; BStaticGlobal; BAddDatum 0 8; BAddDatum 4 8; BAppendDatum 1] = 4%nat.
Proof. split; reflexivity. Qed.
Print Assumptions builder_example.
