(* C20 — The register model aliases registers exactly as the hardware does.
   `rf` is the register file dumped from the running reg package on every run; `regfile_ok rf` is
   re-proved on it by the generated file (vm_compute, exhaustive over all 176 entries). *)
From Avo Require Import Base.Prelude Base.Str.
From stdpp Require Import gmap.
From Avo Require Import Base.MaskSet Model.IR Model.RegFile Model.RegSpec Model.Collection Proofs.RegProofs Proofs.CollectionProofs.
Open Scope N_scope.

(* every entry: its name denotes (in the Go assembler's naming) the hardware register of its kind
   and number; reported width and byte mask are the bytes a write through that view can change;
   flags mark exactly SP/K0 as restricted and exactly the BP views as base pointer *)
Theorem name_denotes : forall rf, regfile_ok rf = true -> forall p, In p rf -> entry_ok rf p = true.
Proof. intros rf H p Hp. exact (regfile_ok_entry rf p H Hp). Qed.
Print Assumptions name_denotes.

(* all width views of one register share one identity, different registers never do *)
Theorem ids_unique : forall rf p q, regfile_ok rf = true -> In p rf -> In q rf ->
  (p_id p = p_id q <-> (p_kind p = p_kind q /\ p_idx p = p_idx q)).
Proof. exact ids_unique_lemma. Qed.
Print Assumptions ids_unique.

(* views that do not exist in hardware are not manufactured: exactly 8L/16/32/64 (+8H for
   numbers 0-3) per GP register, X/Y/Z per vector register, one 64-bit view per mask register *)
Theorem no_invented_views : forall rf, regfile_ok rf = true -> complete_ok rf = true.
Proof. intros rf H. unfold regfile_ok in H. now apply andb_true_iff in H as [_ H]. Qed.
Print Assumptions no_invented_views.

(* converting between views (virtual: always; physical: when the view exists) preserves identity
   and yields the requested width, or fails *)
Theorem as_preserves_id_or_fails : forall rf r m, regfile_ok rf = true ->
  (reg_is_virtual r = false -> exists p, In p rf /\ p_id p = rid r) ->
  match reg_as rf r m with
  | Some r' => rid r' = rid r /\ rmask r' = m /\ (reg_is_virtual r = false -> exists p, In p rf /\ p_id p = rid r' /\ p_mask p = m)
  | None => reg_is_virtual r = false /\ forall p, In p rf -> p_id p = rid r -> p_mask p <> m
  end.
Proof. exact reg_as_spec_lemma. Qed.
Print Assumptions as_preserves_id_or_fails.

(* virtual registers: the registers drawn from one collection (one counter per kind, reg/collection.go)
   are pairwise different registers, for every sequence of requests in which no kind is requested
   more than 65536 times (the counter is a uint16), are virtual, and have the requested kinds *)
Theorem drawn_registers_never_share_identity : forall ks, (forall k, In k ks -> k < 256) ->
  (forall k, count_kind ks k <= 65536) ->
  List.NoDup (fst (draws [] ks)) /\ List.map id_kind (fst (draws [] ks)) = ks
  /\ List.Forall (fun id => id_is_virtual id = true) (fst (draws [] ks)).
Proof.
  intros ks Hk Hc. split; [apply draws_nodup; [exact Hk|intro k; cbn [c_get]; apply Hc]|apply draws_kinds; exact Hk].
Qed.
Print Assumptions drawn_registers_never_share_identity.

(* beyond the bound the statement is false of the code (KNOWN_FINDINGS: C20-collection-index-wrap) *)
Example collection_index_wraps_refuted :
  let '(ids, _) := draws [(1, 65535)] [1; 1] in List.nth 1 ids 0 = fst (draw [] 1).
Proof. exact index_wraps_refuted. Qed.
Print Assumptions collection_index_wraps_refuted.
