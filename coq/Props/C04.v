(* C04 — Declared reads/writes of every instruction form cover what the CPU does.
   The truth of the per-form actions is an ISA fact: it is validated by execution on the host CPU and
   by the structural rules checked on every row of the translated table (Gen/C04/Rows*.v).  What is
   proved here, for every form row and every operand list, is the half that is avo's own logic: the
   instruction that `build` constructs reports exactly the declared actions through
   InputRegisters / OutputRegisters — so that a correct table gives correct liveness inputs. *)
From Avo Require Import Base.Prelude Base.Str.
From stdpp Require Import gmap.
From Avo Require Import Base.MaskSet Model.IR Model.RegFile Model.Forms Proofs.IOProofs.
Open Scope string_scope.
Open Scope N_scope.

Theorem built_instruction_reports_declared_actions : forall f sfx ops,
  let i := form_build f sfx ops in
  (forall s o, In (s, o) (paired (f_operands f) ops) -> act_read (fo_action s) = true -> In o (inputs i))
  /\ (forall s o, In (s, o) (paired (f_operands f) ops) -> act_write (fo_action s) = true -> In o (outputs i))
  /\ (forall s r, In (s, r) (implicits (f_operands f)) -> act_read (fo_action s) = true -> In (OReg r) (inputs i))
  /\ (forall s r, In (s, r) (implicits (f_operands f)) -> act_write (fo_action s) = true -> In (OReg r) (outputs i)).
Proof. exact IOProofs.built_instruction_reports_declared_actions. Qed.
Print Assumptions built_instruction_reports_declared_actions.

Theorem reported_reads_cover_inputs : forall i, cancelling i = false ->
  forall o r, In o (inputs i) -> In r (op_registers o) -> exists rs, input_registers i = OK rs /\ In r rs.
Proof. exact IOProofs.reported_reads_cover_inputs. Qed.
Print Assumptions reported_reads_cover_inputs.

Theorem reported_writes_cover_outputs : forall i r, In (OReg r) (outputs i) -> In r (output_registers i).
Proof. exact IOProofs.reported_writes_cover_outputs. Qed.
Print Assumptions reported_writes_cover_outputs.

Theorem memory_output_address_is_read : forall i, cancelling i = false ->
  forall o r, In o (outputs i) -> is_mem o = true -> In r (op_registers o) -> exists rs, input_registers i = OK rs /\ In r rs.
Proof. exact IOProofs.memory_output_address_is_read. Qed.
Print Assumptions memory_output_address_is_read.

(* non-vacuity: MULXQ m64, r64, r64 with the implicit RDX read *)
Example mulx_example :
  let rdx := {| rid := 131328; rmask := 15; rtag := 0 |} in
  let f := {| f_opcode := "MULXQ"; f_sclass := "NIL"; f_features := 0; f_isa := ["BMI2"]; f_arity := 3;
              f_operands := [{| fo_type := "R64"; fo_implicit := false; fo_action := 1; fo_implreg := None |};
                             {| fo_type := "R64"; fo_implicit := false; fo_action := 2; fo_implreg := None |};
                             {| fo_type := "R64"; fo_implicit := false; fo_action := 2; fo_implreg := None |};
                             {| fo_type := "RDX"; fo_implicit := true; fo_action := 1; fo_implreg := Some rdx |}] |} in
  let a := {| rid := 65793; rmask := 15; rtag := 1 |} in let b := {| rid := 131329; rmask := 15; rtag := 1 |} in
  let c := {| rid := 196865; rmask := 15; rtag := 1 |} in
  let i := form_build f [] [OReg a; OReg b; OReg c] in
  input_registers i = OK [a; rdx] /\ output_registers i = [b; c].
Proof. split; reflexivity. Qed.
Print Assumptions mulx_example.
