(* C03 — Allocation obeys the register file: class, width, reserved, pinned registers. *)
From Avo Require Import Base.Prelude.
From stdpp Require Import gmap.
From Avo Require Import Base.MaskSet Model.IR Model.RegFile Model.RegSpec Model.Liveness Model.Alloc Model.Cleanup Model.Pipeline Proofs.RegProofs Proofs.AllocProofs Proofs.AllocLoop Proofs.AllocCorrect Proofs.PipelineProofs.
Open Scope N_scope.

(* physical registers named by the author (and implicit operands) are left exactly as written *)
Theorem physical_untouched : forall rf al r, reg_is_virtual r = false -> lookup_register_default rf al r = r.
Proof. exact bind_physical_untouched. Qed.
Print Assumptions physical_untouched.

(* a virtual register is either left virtual (no allocation, or no such view of the chosen register:
   VerifyAllocation then fails) or replaced by the table entry of the allocated ID with exactly the
   same byte mask: a low-byte view stays a low byte, a high-byte view lands only on an index that has
   a high-byte entry *)
Theorem bind_kind_width : forall rf al r, reg_is_virtual r = true ->
  let r' := lookup_register_default rf al r in
  (r' = r) \/ (exists pid p, al !! rid r = Some pid /\ lookup_id rf pid (rmask r) = Some p /\ r' = reg_of_preg p
               /\ rmask r' = rmask r /\ In p rf /\ p_idx p = id_index pid).
Proof. exact bind_virtual. Qed.
Print Assumptions bind_kind_width.

(* after a successful VerifyAllocation no virtual register remains in any operand *)
Theorem bind_total : forall is, verify_allocation is = OK tt ->
  forall i r, In i is -> In r (instr_registers i) -> reg_is_virtual r = false.
Proof. exact verify_allocation_ok. Qed.
Print Assumptions bind_total.

(* the colours offered to the allocator are IDs with a non-restricted view; with the table fact that
   Restricted is a property of the hardware register (C20: exactly SP and K0, all views), the stack
   pointer and K0 are never chosen *)
Theorem never_restricted : forall rf kind id, In id (colours rf kind) ->
  exists p, In p rf /\ p_family p = kind /\ p_id p = id /\ N.land (p_info p) InfoRestricted = 0.
Proof. exact colours_spec. Qed.
Print Assumptions never_restricted.

(* THE ALLOCATOR, FOR EVERY PROGRAM: whenever the model of pass.AllocateRegisters returns an
   allocation, every entry maps a virtual register to a physical register ID of the same kind that is
   one of the colours of that kind — so never a restricted register (SP, K0; never_restricted) — and
   every virtual register that occurs as an operand has an entry.  (When no valid assignment exists
   the result is an error value: a_allocate returns Err EFailedAlloc / EImpossible, the res type has
   no partially-bound outcome.)  Hypotheses discharged reflectively for the translated register file
   on every run: Tab.regfile_ok_tab, Tab.regfile_kinds_ok_tab. *)
Theorem allocation_obeys_register_file : forall rf is liveouts al,
  regfile_ok rf = true -> regfile_kinds_ok rf = true -> allocate_registers rf is liveouts = OK al ->
  (forall v c, al !! v = Some c -> virt v /\ phys c /\ id_kind c = id_kind v /\ In c (colours rf (id_kind v)))
  /\ (forall i r, In i is -> In r (instr_registers i) -> virt (rid r) -> is_Some (al !! rid r)).
Proof. exact allocation_obeys_register_file_lemma. Qed.
Print Assumptions allocation_obeys_register_file.

(* Go's Allocate() loops until every register is allocated; the model bounds the number of rounds by
   the number of registers to allocate plus one, and that bound is never the reason for an error *)
Theorem allocator_rounds_bounded : forall a, awf a -> a_allocate (S (size (a_poss a))) a <> Err EOutOfFuel.
Proof. exact allocate_never_out_of_fuel. Qed.
Print Assumptions allocator_rounds_bounded.

(* the whole compile pipeline of the model (clean-up, label targets, CFG, zero-extension, liveness,
   allocation, binding, VerifyAllocation, frame, self-move pruning): whenever it returns a function,
   no operand of any instruction of that function is a virtual register *)
Theorem compiled_code_is_physical : forall rf f c, compile rf f = OK c ->
  forall i r, In i (instructions (c_nodes c)) -> In r (instr_registers i) -> reg_is_virtual r = false.
Proof. exact compile_leaves_no_virtual. Qed.
Print Assumptions compiled_code_is_physical.
