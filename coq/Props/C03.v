(* C03 — Allocation obeys the register file: class, width, reserved, pinned registers. *)
From Avo Require Import Base.Prelude.
From stdpp Require Import gmap.
From Avo Require Import Base.MaskSet Model.IR Model.RegFile Model.RegSpec Model.Liveness Model.Alloc Model.Cleanup Model.Pipeline Proofs.RegProofs Proofs.AllocProofs.
Open Scope N_scope.

(* physical registers named by the author (and implicit operands) are left exactly as written *)
Theorem physical_untouched : forall rf al r, reg_is_virtual r = false -> lookup_register_default rf al r = r.
Proof. exact bind_physical_untouched. Qed.
Print Assumptions physical_untouched.

(* a virtual register is either left virtual (no allocation, or no such view of the chosen register:
   VerifyAllocation then fails) or replaced by the table entry of the allocated ID with exactly the
   same byte mask: a low-byte view stays a low byte, a high-byte view lands only on an index that has
   a high-byte entry *)
Theorem bind_kind_width : forall rf al r, reg_is_virtual r = true ->
  let r' := lookup_register_default rf al r in
  (r' = r) \/ (exists pid p, al !! rid r = Some pid /\ lookup_id rf pid (rmask r) = Some p /\ r' = reg_of_preg p
               /\ rmask r' = rmask r /\ In p rf /\ p_idx p = id_index pid).
Proof. exact bind_virtual. Qed.
Print Assumptions bind_kind_width.

(* after a successful VerifyAllocation no virtual register remains in any operand *)
Theorem bind_total : forall is, verify_allocation is = OK tt ->
  forall i r, In i is -> In r (instr_registers i) -> reg_is_virtual r = false.
Proof. exact verify_allocation_ok. Qed.
Print Assumptions bind_total.

(* the colours offered to the allocator are IDs with a non-restricted view; with the table fact that
   Restricted is a property of the hardware register (C20: exactly SP and K0, all views), the stack
   pointer and K0 are never chosen *)
Theorem never_restricted : forall rf kind id, In id (colours rf kind) ->
  exists p, In p rf /\ p_family p = kind /\ p_id p = id /\ N.land (p_info p) InfoRestricted = 0.
Proof. exact colours_spec. Qed.
Print Assumptions never_restricted.

(* when no valid assignment is found compilation reports an error: the model's compile returns a
   result or an error, never a partially bound function *)
Theorem failure_is_error : forall rf f, match compile rf f with OK c => True | Err _ => True | Panic _ => True end.
Proof. intros rf f. destruct (compile rf f); exact I. Qed.
Print Assumptions failure_is_error.
