(* C02 — Liveness is exactly the set of register bytes that can still be read. *)
From Avo Require Import Base.Prelude.
From stdpp Require Import gmap.
From Avo Require Import Base.MaskSet Model.IR Model.Liveness Proofs.LivenessProofs Proofs.LivenessTerm Proofs.LiveSpecProofs Model.Sem Proofs.SimProofs Proofs.SimLink Proofs.LiveSem Model.Cert Proofs.LiveCert.
Open Scope N_scope.

(* For every program (any CFG: backward branches, unreachable code, falling off the end), when the
   literal model of pass.Liveness terminates, a register byte class (id,k) is reported live before
   (after) instruction j if and only if some control-flow path from that point reaches a read of it
   with no intervening write. *)
Theorem liveness_exact : forall (p : prog) fuel r, liveness fuel p = Some r ->
  forall j id k,
    (mem (nth_in r j) id k = true <-> live_before p j id k)
    /\ (mem (nth_out r j) id k = true <-> live_after p j id k).
Proof. exact liveness_exact_lemma. Qed.
Print Assumptions liveness_exact.

(* The literal model of pass.Liveness (Go's loop "until no set changed") always terminates, within
   liveness_fuel p sweeps: every productive sweep adds a byte class that is read somewhere in the
   program to one of the 2n sets, and sets never shrink.  So the exactness statement is
   unconditional for the fuel the model is run with on every case. *)
Theorem liveness_terminates : forall p : prog, exists r, liveness (liveness_fuel p) p = Some r.
Proof. exact liveness_terminates_lemma. Qed.
Print Assumptions liveness_terminates.

Theorem liveness_total_exact : forall p : prog, exists r, liveness (liveness_fuel p) p = Some r /\
  forall j id k,
    (mem (nth_in r j) id k = true <-> live_before p j id k)
    /\ (mem (nth_out r j) id k = true <-> live_after p j id k).
Proof.
  intro p. destruct (liveness_terminates_lemma p) as [r Hr]. exists r. split; [exact Hr|].
  exact (liveness_exact_lemma p _ r Hr).
Qed.
Print Assumptions liveness_total_exact.

(* The specification the check evaluates on the implementation's own dumped LiveIn/LiveOut sets
   (liveness_spec_b, an independent backward-reachability computation per byte class) is a decision
   procedure for path liveness: when it accepts an observation, membership in the dumped sets is
   exactly path liveness for every mentioned id and every byte class. *)
Theorem spec_decides_liveness : forall (p : prog) id k j,
  (live_before_b p id k !! j = Some true <-> live_before p j id k)
  /\ (live_after_b p id k !! j = Some true <-> live_after p j id k).
Proof. intros p id k j. split; [apply live_before_b_spec|apply live_after_b_spec]. Qed.
Print Assumptions spec_decides_liveness.

Theorem accepted_observation_is_exact : forall p (o : obs), liveness_spec_b p o = true ->
  length o = length p /\
  forall id k, In id (prog_ids p ++ obs_ids o) -> k < 16 ->
  forall j io, o !! j = Some io ->
    (N.testbit (get_l (fst io) id) k = true <-> live_before p j id k)
    /\ (N.testbit (get_l (snd io) id) k = true <-> live_after p j id k).
Proof. exact liveness_spec_b_sound. Qed.
Print Assumptions accepted_observation_is_exact.

(* reads: every register of every input operand and every address register of a memory output is
   reported, except that when the form is self-cancelling and its first two input registers are the
   same register, exactly those two reads are omitted: every other operand is still read *)
Theorem cancelling_reads : forall i r0 r1 rest,
  cancelling i = true -> flat_map op_registers (inputs i) = r0 :: r1 :: rest ->
  input_registers i = OK ((if reg_eqb r0 r1 then rest else r0 :: r1 :: rest)
                          ++ flat_map (fun o => if is_mem o then op_registers o else []) (outputs i)).
Proof.
  intros i r0 r1 rest Hc Hrs. unfold input_registers, input_registers_with. rewrite Hc, Hrs.
  destruct (reg_eqb r0 r1); reflexivity.
Qed.
Print Assumptions cancelling_reads.
Theorem non_cancelling_reads : forall i, cancelling i = false ->
  input_registers i = OK (flat_map op_registers (inputs i) ++ flat_map (fun o => if is_mem o then op_registers o else []) (outputs i)).
Proof. intros i Hc. unfold input_registers, input_registers_with. rewrite Hc. reflexivity. Qed.
Print Assumptions non_cancelling_reads.

(* the pinned ir.InputRegisters dropped every input: for VPCMPEQB x,x,k1,k2 the mask read was lost *)
Example cancelling_drops_operands_refuted :
  let x := {| rid := 513; rmask := 31; rtag := 2 |} in let k1 := {| rid := 769; rmask := 15; rtag := 3 |} in
  let k2 := {| rid := 66305; rmask := 15; rtag := 3 |} in
  let i := {| opcode := "VPCMPEQB"; suffixes := []; operands := [OReg x; OReg x; OReg k1; OReg k2];
              inputs := [OReg x; OReg x; OReg k1]; outputs := [OReg k2];
              is_terminal := false; is_branch := false; is_conditional := false; cancelling := true; isa := [] |} in
  input_registers_with true i = OK [] /\ input_registers_with false i = OK [k1].
Proof. split; reflexivity. Qed.
Print Assumptions cancelling_drops_operands_refuted.

(* non-vacuity: a loop with a sub-register write; liveness terminates and r1's low byte is live
   around the back edge while its upper bytes are not after the byte write *)
Example liveness_example :
  let use1 := ms_of_regs [{| rid := 65793; rmask := 15; rtag := 1 |}] in
  let defb := ms_of_regs [{| rid := 65793; rmask := 1; rtag := 1 |}] in
  let p := [ {| iuse := ∅; idef := defb; isucc := [Some 1%nat] |};
             {| iuse := use1; idef := ∅; isucc := [Some 0%nat; Some 2%nat] |};
             {| iuse := ∅; idef := ∅; isucc := [] |} ] in
  match liveness (liveness_fuel p) p with
  | Some r => (mem (nth_in r 0) 65793 0, mem (nth_in r 0) 65793 3, mem (nth_out r 1) 65793 3) = (false, true, true)
  | None => False
  end.
Proof. vm_compute. reflexivity. Qed.
Print Assumptions liveness_example.

(* WHAT "NOT LIVE" MEANS FOR AN EXECUTION.  For every instruction semantics F that follows the CFG and
   supplies a value per declared output (reads only what is declared, writes only what is declared:
   the machine of Model/Sem.v), two register files that agree on the bytes reported live before
   instruction j go through the same program points with the same memory for any number of steps, and
   still agree on what is live wherever they arrive: a byte that is not reported live can never
   influence the function.  This is the semantic content of the "only if" direction of the property,
   for the liveness the model computes (which the per-run comparison ties to pass.Liveness). *)
Theorem bytes_not_reported_live_cannot_influence_the_run :
  forall (val memt : Type) (F : nat -> list val -> memt -> list val * memt * option nat)
         (pr : list (list reg * list reg * list (option nat))) (r : st) (fuel : nat),
  liveness fuel (SimLink.p pr) = Some r ->
  (forall j i vs m outs m' n, List.nth_error (P pr) j = Some i -> F j vs m = (outs, m', Some n) -> In n (m_succ i)) ->
  (forall j i vs m outs m' npc, List.nth_error (P pr) j = Some i -> F j vs m = (outs, m', npc) -> List.length outs = List.length (m_defs i)) ->
  forall n j R R' m st1,
    (forall l, LIn r j l -> R l = R' l) ->
    mrun val memt F (P pr) n (j, R, m) = Some st1 ->
    exists j1 R1 R1' m1, st1 = (j1, R1, m1)
      /\ mrun val memt F (P pr) n (j, R', m) = Some (j1, R1', m1)
      /\ (forall l, LIn r j1 l -> R1 l = R1' l).
Proof. exact dead_bytes_do_not_matter. Qed.
Print Assumptions bytes_not_reported_live_cannot_influence_the_run.

(* large functions: the live sets the implementation computed, checked closed (Cert.closed_b) and supported
   by the harness's rank certificate (Cert.supported_b), both evaluated inside Coq on every run, are exactly
   path liveness — before and after every instruction, for every register byte class.  Nothing about how
   the sets or the ranks were obtained is assumed. *)
Theorem certified_live_sets_are_exact : forall (p : prog) (r : st) (rks : list rank_t),
  closed_b p r = true -> supported_b p r rks = true ->
  forall j id k, (mem (nth_in r j) id k = true <-> path_live p j id k)
              /\ (mem (nth_out r j) id k = true <-> live_after p j id k).
Proof. exact certified_live_sets_are_exact_lemma. Qed.
Print Assumptions certified_live_sets_are_exact.

(* non-vacuity, and the reason closure alone is not enough: in  0: v := ..; 1: nop; 2: branch to 1 or 3; 3: ret
   nothing reads v.  The family "v is live around the loop" is closed, yet no ranks support it; the empty
   family is closed and supported. *)
Example closed_is_not_exact :
  closed_b ex_loop_prog ex_loop_family = true /\ (forall rks, supported_b ex_loop_prog ex_loop_family rks = false)
  /\ closed_b ex_loop_prog ex_empty_family = true /\ supported_b ex_loop_prog ex_empty_family [] = true.
Proof. exact closed_is_not_exact_lemma. Qed.
Print Assumptions closed_is_not_exact.
