(* C05 — An accepted instruction assembles to exactly the operation and operands given.
   Whether the Go assembler encodes the printed text as intended is validated against the real
   toolchain on every run (assemble, decode, compare; DESIGN 11.2).  What is proved here is the part
   that is avo's own logic: the text avo prints for a memory reference and for an integer constant
   DETERMINES the reference / the constant, so the assembler cannot be handed an ambiguous operand. *)
From Avo Require Import Base.Prelude Base.Str.
From stdpp Require Import gmap.
From Avo Require Import Base.MaskSet Model.IR Model.RegFile Model.Data Model.AsmSyntax Proofs.DataProofs Proofs.SyntaxProofs Model.MemOps Proofs.MemOpsProofs.
Open Scope string_scope.
Open Scope N_scope.

(* the rendering of a register-based memory operand (no symbol) is the text shape mem_text over the
   rendered register names *)
Theorem render_mem_shape : forall rf b i scale disp,
  render_mem rf (Some b) i scale disp "" false
  = mem_text disp (render_reg rf b)
      (match i with Some r => if negb (scale =? 0) then Some (render_reg rf r, scale) else None | None => None end).
Proof.
  intros rf b i scale disp. unfold render_mem, mem_text.
  change (("" ++ (if false then "<>" else ""))%string) with ""%string.
  change (negb (String.eqb "" "")) with false. cbv iota.
  destruct (disp =? 0)%Z; cbn [negb]; destruct i as [r|]; try destruct (scale =? 0); cbn [negb];
    repeat (rewrite ?s_assoc; cbn [append]); rewrite ?append_nil_r; reflexivity.
Qed.
Print Assumptions render_mem_shape.

(* a reader that splits the text at ")", "(" and "*" recovers displacement, base, index and scale, for
   every displacement, every scale and all register names free of those three characters (checked for
   the whole register table on every run: Render.names_plain) *)
Theorem printed_memory_reference_is_read_back : forall disp base idx,
  plain base = true -> match idx with Some (i, s) => plain i = true | None => True end ->
  read_mem (mem_text disp base idx) = Some (disp, base, idx).
Proof. exact read_mem_text. Qed.
Print Assumptions printed_memory_reference_is_read_back.

(* hence two memory references that print alike are the same reference *)
Theorem printed_memory_reference_determines_it : forall d1 b1 i1 d2 b2 i2,
  plain b1 = true -> plain b2 = true ->
  match i1 with Some (i, _) => plain i = true | None => True end ->
  match i2 with Some (i, _) => plain i = true | None => True end ->
  mem_text d1 b1 i1 = mem_text d2 b2 i2 -> d1 = d2 /\ b1 = b2 /\ i1 = i2.
Proof. exact mem_text_injective. Qed.
Print Assumptions printed_memory_reference_determines_it.

(* integer constants: the printed literal, read the way the assembler reads integer literals, denotes
   the constant's bytes (C13's int_text_roundtrip, restated for operands) *)
Theorem printed_constant_denotes_its_bytes : forall (n : N) (signed : bool) (v : Z),
  (if signed then True else (0 <= v < 2 ^ (8 * Z.of_N n))%Z) -> 0 < n ->
  exists w, parse_int_text (int_text n signed v) = Some w /\ bytes_eq (Z.of_N n) v w = true.
Proof. exact int_text_roundtrip_lemma. Qed.
Print Assumptions printed_constant_denotes_its_bytes.

Example mem_text_example :
  mem_text (-16) "R13" (Some ("CX", 8)) = "-16(R13)(CX*8)" /\ read_mem "-16(R13)(CX*8)" = Some ((-16)%Z, "R13", Some ("CX", 8))
  /\ read_mem "(AX)" = Some (0%Z, "AX", None).
Proof. repeat split; vm_compute; reflexivity. Qed.
Print Assumptions mem_text_example.

(* register names are free of the separators: virtual names by construction, physical names by a check
   of the translated table on every run (Gen/C05/Render.v: names_plain) *)
Theorem virtual_names_are_plain : forall r, plain (virtual_name r) = true.
Proof.
  intro r. unfold plain, virtual_name.
  assert (H : forall c, (c = "("%char \/ c = ")"%char \/ c = "*"%char) ->
     contains_char c ("<virtual:" ++ dec_of_N (id_index (rid r)) ++ ":" ++ dec_of_N (id_kind (rid r)) ++ ":" ++ dec_of_N (IR.spec_size (rmask r)) ++ ">") = false).
  { intros c Hc. repeat (rewrite contains_append || rewrite dec_of_N_plain by exact Hc).
    destruct Hc as [->|[->| ->]]; reflexivity. }
  rewrite !H by auto. reflexivity.
Qed.
Print Assumptions virtual_names_are_plain.

(* the helpers a user builds memory references with (NewStackAddr, NewParamAddr, NewDataAddr,
   Mem.Offset, Mem.Idx): for every chain of calls the step-by-step model yields the reference the
   chain describes: base and symbol of the constructor, the constructor's offset plus every Offset,
   index and scale of the last Idx; in particular Idx leaves the displacement alone and Offset
   leaves base, index, scale and symbol alone.  The real helpers are run on generated chains on
   every run and compared with mem_spec (Gen/C05/MemOps.v, Gen/C16/MemOps.v). *)
Theorem helper_chain_builds_the_described_reference : forall sp fp sb c ops,
  mem_chain sp fp sb c ops = mem_spec sp fp sb c ops.
Proof. exact mem_chain_is_spec. Qed.
Print Assumptions helper_chain_builds_the_described_reference.
Theorem idx_keeps_the_displacement : forall b i s d y t r sc,
  mem_apply (OMem b i s d y t) (MIdx r sc) = OMem b (Some r) sc d y t.
Proof. exact idx_keeps_displacement. Qed.
Print Assumptions idx_keeps_the_displacement.
