(* C12 — The stub file declares exactly the functions the assembly defines (structure).
   Type identity of signatures, gofmt stability and compiling/linking/vetting with the assembly are
   decided by the toolchain on every run (see the check), not by these theorems. *)
From Avo Require Import Base.Prelude Base.Str Model.Stub Proofs.StubProofs.
Open Scope string_scope.
Open Scope list_scope.

(* reading the stub back yields each function exactly once, in order, with its signature text, and
   with its documentation lines followed by its compiler directives immediately before the
   declaration (so that the directives bind to it) *)
Theorem each_function_once_in_order_with_doc_and_pragmas : forall f, declared (stub_lines f) [] [] = expected f.
Proof. exact stub_declares_expected. Qed.
Print Assumptions each_function_once_in_order_with_doc_and_pragmas.

(* the package clause is present exactly once, after the (optional) constraint block *)
Theorem package_clause : forall f,
  List.filter (fun l => match l with SLPackage _ => true | _ => false end) (stub_lines f) = [SLPackage (st_pkg f)].
Proof.
  intro f. unfold stub_lines. rewrite !List.filter_app.
  assert (H1 : forall cs, List.filter (fun l => match l with SLPackage _ => true | _ => false end) (List.map SLComment cs) = []) by (induction cs; cbn; auto).
  assert (H2 : forall fs, List.filter (fun l => match l with SLPackage _ => true | _ => false end) (flat_map func_lines fs) = []).
  { induction fs as [|x fs IH]; [reflexivity|]. cbn [flat_map]. rewrite List.filter_app, IH. unfold func_lines.
    rewrite !List.filter_app, H1. cbn. rewrite app_nil_r.
    induction (sf_pragmas x); cbn; auto. }
  rewrite H1, H2. destruct (String.eqb (st_constraints f) ""); reflexivity.
Qed.
Print Assumptions package_clause.
