(* C13 — Data sections contain exactly the constants placed in them. *)
From Avo Require Import Base.Prelude Base.Str Model.Data Proofs.DataProofs.
Open Scope Z_scope.

(* for every history of placements/appends: accepted data are pairwise disjoint, every datum lies
   inside [.., Size) and Size >= 0 (so an Append can never overlap) *)
Theorem accepted_disjoint : forall ops,
  pairwise_d (fun a b => negb (overlaps a b)) (g_data (fst (g_run ops))) = true
  /\ Forall (fun d => snd (interval d) <= g_size (fst (g_run ops))) (g_data (fst (g_run ops))).
Proof. intro ops. destruct (accepted_disjoint_lemma ops) as (H1 & H2 & _). split; assumption. Qed.
Print Assumptions accepted_disjoint.

(* a placement is rejected exactly when it overlaps an earlier accepted datum, and then changes nothing *)
Theorem overlap_rejected : forall g off c,
  snd (g_step g (GAdd off c)) = existsb (overlaps {| d_off := off; d_val := c |}) (g_data g)
  /\ (snd (g_step g (GAdd off c)) = true -> fst (g_step g (GAdd off c)) = g).
Proof. exact g_step_reject. Qed.
Print Assumptions overlap_rejected.

(* the symbol size is the furthest extent *)
Theorem size_is_extent : forall ops, g_size (fst (g_run ops)) = spec_size (g_data (fst (g_run ops))).
Proof. exact size_is_extent_lemma. Qed.
Print Assumptions size_is_extent.

(* image exactness: assembling the DATA entries of any history (environment: each entry writes
   the constant's little-endian bytes at its offset into a zero image) yields, at every address,
   the byte of the constant placed there and zero elsewhere *)
Theorem image_exact : forall ops a,
  image_of (g_data (fst (g_run ops))) a = spec_byte (g_data (fst (g_run ops))) a.
Proof. intros ops a. apply image_exact_lemma. apply accepted_disjoint. Qed.
Print Assumptions image_exact.

(* integer constants of every width and sign survive the trip through text: the assembler's
   reading of the printed literal has the constant's bytes *)
Theorem int_text_roundtrip : forall (n : N) (signed : bool) (v : Z),
  (if signed then True else 0 <= v < 2 ^ (8 * Z.of_N n)) -> (0 < n)%N ->
  exists w, parse_int_text (int_text n signed v) = Some w /\ bytes_eq (Z.of_N n) v w = true.
Proof. exact int_text_roundtrip_lemma. Qed.
Print Assumptions int_text_roundtrip.

(* the printed order (sorted by interval, since "fix: print DATA entries in offset order") is one the
   assembler accepts: offsets are monotone, whatever the order of the placements *)
Theorem printed_order_accepted : forall ops, (forall d, In d (g_data (fst (g_run ops))) -> 0 <= d_off d) ->
  asm_monotone 0 (printed_data true (fst (g_run ops))) = true.
Proof. exact printed_order_accepted_lemma. Qed.
Print Assumptions printed_order_accepted.

(* non-vacuity: a history with an overlapping and a touching placement *)
Example data_example :
  snd (g_run [GAppend (CInt 4 false 7); GAdd 2 (CInt 2 true (-1)); GAdd 4 (CInt 1 true (-128)); GAdd 16 (CStr [104%N; 105%N])]) = [false; true; false; false]
  /\ g_size (fst (g_run [GAppend (CInt 4 false 7); GAdd 2 (CInt 2 true (-1)); GAdd 4 (CInt 1 true (-128)); GAdd 16 (CStr [104%N; 105%N])])) = 18
  /\ int_text 8 false 18446744073709551615 = "$0xffffffffffffffff"%string
  /\ parse_int_text "$0xffffffffffffffff" = Some 18446744073709551615.
Proof. repeat split; vm_compute; reflexivity. Qed.
Print Assumptions data_example.

(* the pinned printer emitted entries in insertion order, which the assembler's monotonicity
   rule rejects for this history (fixed by "fix: print DATA entries in offset order") *)
Example insertion_order_refuted :
  asm_monotone 0 (printed_data false (fst (g_run [GAdd 8 (CInt 4 false 1); GAdd 0 (CInt 4 false 2)]))) = false
  /\ asm_monotone 0 (printed_data true (fst (g_run [GAdd 8 (CInt 4 false 1); GAdd 0 (CInt 4 false 2)]))) = true.
Proof. split; reflexivity. Qed.
Print Assumptions insertion_order_refuted.
