(* C06 — All instruction entry points accept exactly the documented forms and agree.
   The per-run generated files (Gen/C06) re-prove `forms_wf` and `ctors_ok` (vm_compute) on the
   form table dumped from x86 and on the three layers read from source by go/ast. *)
From Avo Require Import Base.Prelude Base.Str.
From stdpp Require Import gmap.
From Avo Require Import Base.MaskSet Model.IR Model.RegFile Model.Forms Model.Ctors Proofs.FormsProofs.
Open Scope N_scope.

(* acceptance: an operand list is accepted iff it matches one of the forms; on acceptance the
   instruction is that of the first matching form, with the opcode, the suffixes and the operands in
   the given order (inputs/outputs/flags/ISA are form_build of that row) *)
Theorem accept_iff_form_matches : forall rf ss fs sfx ops,
  match build rf ss fs sfx ops with
  | Some i => exists f, In f fs /\ form_match rf ss f sfx ops = true /\ i = form_build f sfx ops
              /\ opcode i = f_opcode f /\ suffixes i = sfx /\ operands i = ops
  | None => forall f, In f fs -> form_match rf ss f sfx ops = false
  end.
Proof. exact build_spec. Qed.
Print Assumptions accept_iff_form_matches.

(* the documentation of an entry point lists exactly the operand-type tuples of the accepted forms
   (all three layers carry the same list, checked by ctor_ok) *)
Theorem docs_exact_thm : forall ss tab r, ctor_ok ss tab r = true ->
  let '(name, opc, opcode, sfx, l1, l2, l3) := r in
  let '(params, callee, args, docs) := l1 in
  forall tys, In tys (List.map (fun d => List.tl d) docs) <->
              In tys (List.map explicit_types (accepted_forms ss (forms_of tab opc) sfx)).
Proof. exact ctor_docs_exact. Qed.
Print Assumptions docs_exact_thm.

(* rejected operands produce an error and add nothing to the function *)
Theorem rejected_adds_nothing : forall nodes errs, add_instruction nodes errs None = (nodes, S errs).
Proof. exact rejected_adds_nothing_lemma. Qed.
Print Assumptions rejected_adds_nothing.
