(* C11 — Printed assembly is a faithful rendering of the function (structure).
   The reference printer Model/PrintAsm.v produces structured lines and is compared byte for byte
   with printer.NewGoAsm on every run; these theorems are about the structured lines. *)
From Avo Require Import Base.Prelude Base.Str.
From stdpp Require Import gmap.
From Avo Require Import Base.MaskSet Model.IR Model.RegFile Model.Data Model.Attr Model.AsmSyntax Model.PrintAsm Model.NodeSem Proofs.PrintProofs Proofs.PrintSem Proofs.PrintBlock.
Open Scope N_scope.
Open Scope list_scope.

(* the body of a TEXT block contains every instruction exactly once and in order, whatever the
   interleaving of labels, comments, terminal instructions and branches *)
Theorem every_instruction_once_in_order : forall ns,
  lines_instrs (body_lines ns [] true) = instructions ns.
Proof. intro ns. rewrite body_instrs. reflexivity. Qed.
Print Assumptions every_instruction_once_in_order.

(* every label is bound to the same instruction (counted from the start of the function) as in
   the program; alignment padding and blank lines never change that *)
Theorem labels_bound_to_same_instruction : forall ns,
  lines_labels (body_lines ns [] true) 0 = node_labels ns 0.
Proof. intro ns. rewrite body_labels. reflexivity. Qed.
Print Assumptions labels_bound_to_same_instruction.

(* each function section yields exactly one TEXT line, carrying the given name, attribute flags,
   frame size and argument size, before its body *)
Theorem one_text_line_per_function : forall f,
  List.filter (fun l => match l with LText _ _ _ _ => true | _ => false end) (section_lines (SFunc f))
  = [LText (pf_name f) (pf_attrs f) (pf_frame f) (pf_args f)].
Proof.
  intro f. cbn [section_lines]. rewrite !List.filter_app. cbn [List.filter].
  assert (H : forall ns p c, List.filter (fun l => match l with LText _ _ _ _ => true | _ => false end) (body_lines ns p c) = []).
  { assert (Hf : forall p, List.filter (fun l => match l with LText _ _ _ _ => true | _ => false end) (flush p) = []).
    { intro p. unfold flush. generalize (block_width p). intro w. induction p; cbn; auto. }
    assert (Hc : forall ls, List.filter (fun l => match l with LText _ _ _ _ => true | _ => false end) (List.map LBodyComment ls) = [])
      by (induction ls; cbn; auto).
    induction ns as [|n ns IH]; intros p c; cbn [body_lines]; [apply Hf|].
    destruct n as [l|ls|i].
    - rewrite !List.filter_app, Hf, IH. destruct c; reflexivity.
    - rewrite !List.filter_app, Hf, Hc, IH. destruct c; reflexivity.
    - destruct (is_terminal i || is_unconditional_branch i); [rewrite List.filter_app, Hf, IH; reflexivity|apply IH]. }
  rewrite H. assert (Hs : forall ls, List.filter (fun l => match l with LText _ _ _ _ => true | _ => false end) (List.map LComment ls) = []) by (induction ls; cbn; auto).
  rewrite Hs. destruct (pf_isa f); reflexivity.
Qed.
Print Assumptions one_text_line_per_function.

(* both statements at once, and what they are for: the instruction and label lines of the printed body,
   in order, ARE the function's nodes without the comments (alignment, blank lines and comment lines
   are all that is added) ... *)
Theorem printed_body_is_the_function_without_comments : forall ns,
  lines_code (body_lines ns [] true) = strip ns.
Proof. intro ns. rewrite body_code. reflexivity. Qed.
Print Assumptions printed_body_is_the_function_without_comments.

(* ... so the printed body computes what the function computes, for every machine state type and every
   instruction semantics (small-step semantics of Model/NodeSem.v: same terminal outcomes from every
   start state) *)
Theorem printed_body_computes_the_same : forall (S : Type) (exec : instr -> S -> S * ctl) ns,
  same_behaviour S exec ns (lines_code (body_lines ns [] true)).
Proof. exact printed_body_same_behaviour. Qed.
Print Assumptions printed_body_computes_the_same.

(* the text of an instruction line is its own opcode, suffixes and operands whatever block it is printed
   in: the column the block is aligned at only changes the number of blanks *)
Theorem instruction_text_independent_of_its_block : forall names rf w w' i,
  drop_spaces (render_line names rf (LInstr w i)) = drop_spaces (render_line names rf (LInstr w' i)).
Proof. exact instruction_line_independent_of_block. Qed.
Print Assumptions instruction_text_independent_of_its_block.
