(* C16 — Stack locals are disjoint and inside the declared frame. *)
From Avo Require Import Base.Prelude Model.Frame Proofs.FrameProofs.
Open Scope Z_scope.

(* for every history of non-negative sizes (0 and unaligned included), with or without the
   forced frame-pointer local: every returned region lies inside [0, frame), regions are
   pairwise disjoint, and none meets the assembler's frame-pointer save slot [frame, frame+8) *)
Theorem locals_disjoint_in_frame : forall sizes clob, Forall (fun s => 0 <= s) sizes ->
  locals_spec_b (fst (alloc_history 0 sizes)) (frame_bytes sizes clob) = true.
Proof. exact locals_disjoint_in_frame_lemma. Qed.
Print Assumptions locals_disjoint_in_frame.

(* the forced local is added only when the function has no frame at all, in which case every
   earlier region is empty (so the forced 8 bytes overlap nothing that can hold data) *)
Theorem forced_local_only_when_empty : forall sizes, Forall (fun s => 0 <= s) sizes ->
  ensure_bp_frame true (snd (alloc_history 0 sizes)) <> snd (alloc_history 0 sizes) ->
  snd (alloc_history 0 sizes) = 0 /\ Forall (fun r => snd r = 0) (fst (alloc_history 0 sizes)).
Proof.
  intros sizes Hnn Hne. unfold ensure_bp_frame in Hne. cbn [andb] in Hne.
  destruct (snd (alloc_history 0 sizes) =? 0) eqn:E; [|congruence].
  apply Z.eqb_eq in E. split; [exact E|]. apply history_all_zero; assumption.
Qed.
Print Assumptions forced_local_only_when_empty.

(* non-vacuity: sizes 0, unaligned and large *)
Example locals_example : locals_spec_b (fst (alloc_history 0 [3; 0; 8; 1; 64])) (frame_bytes [3; 0; 8; 1; 64] true) = true
  /\ fst (alloc_history 0 [3; 0; 8; 1; 64]) = [(0,3); (3,0); (3,8); (11,1); (12,64)].
Proof. split; reflexivity. Qed.
Print Assumptions locals_example.

(* a negative size is outside the property's domain: the model shows why (regions then overlap) *)
Example negative_size_overlaps : locals_spec_b (fst (alloc_history 0 [8; -8; 8])) (frame_bytes [8; -8; 8] false) = false.
Proof. reflexivity. Qed.
Print Assumptions negative_size_overlaps.
