(* C20 (and table lemmas for C03/C15): what the register file must look like, as boolean checks
   over the translated table, with an environment model of the Go assembler's register names. *)
From Avo Require Import Base.Prelude Base.Str.
From stdpp Require Import gmap.
From Avo Require Import Base.MaskSet Model.IR Model.RegFile.
Open Scope N_scope.

(* environment: Go assembler register name -> (kind, hardware number, byte class mask or 0 when
   the width comes from the opcode) *)
Definition gp_names : list string := ["AX";"CX";"DX";"BX";"SP";"BP";"SI";"DI";"R8";"R9";"R10";"R11";"R12";"R13";"R14";"R15"]%string.
Definition lo_names : list string := ["AL";"CL";"DL";"BL"]%string.
Definition hi_names : list string := ["AH";"CH";"DH";"BH"]%string.
Fixpoint index_of (s : string) (l : list string) (i : N) : option N :=
  match l with [] => None | x :: r => if String.eqb x s then Some i else index_of s r (i + 1) end.
Definition hw_name (name : string) : option (N * N * N) :=
  match index_of name lo_names 0, index_of name hi_names 0, index_of name gp_names 0 with
  | Some i, _, _ => Some (KindGP, i, 1)
  | _, Some i, _ => Some (KindGP, i, 2)
  | _, _, Some i => Some (KindGP, i, 0)
  | _, _, _ =>
      match name with
      | String c r =>
          match parse_dec r with
          | Some n => if Ascii.eqb c "X" then Some (KindVector, n, 31)
                      else if Ascii.eqb c "Y" then Some (KindVector, n, 63)
                      else if Ascii.eqb c "Z" then Some (KindVector, n, 127)
                      else if Ascii.eqb c "K" then Some (KindOpmask, n, 15) else None
          | None => None
          end
      | EmptyString => None
      end
  end.
Definition width_mask (kind size : N) : N :=   (* low-bytes mask for a width *)
  match size with 1 => 1 | 2 => 3 | 4 => 7 | 8 => 15 | 16 => 31 | 32 => 63 | 64 => 127 | _ => 0 end.

Definition views (rf : regfile) (kind idx : N) : list N :=
  List.map p_mask (List.filter (fun p => (p_kind p =? kind) && (p_idx p =? idx)) rf).
Fixpoint sorted_insert (x : N) (l : list N) : list N :=
  match l with [] => [x] | y :: r => if x <=? y then x :: l else y :: sorted_insert x r end.
Definition sort_N (l : list N) : list N := fold_right sorted_insert [] l.

Definition entry_ok (rf : regfile) (p : preg) : bool :=
  (* identity: ID = kind<<8 | idx<<16, physical; family = kind *)
  (p_id p =? mk_id 0 (p_kind p) (p_idx p)) && (p_family p =? p_kind p) && negb (id_is_virtual (p_id p))
  && (id_kind (p_id p) =? p_kind p) && (id_index (p_id p) =? p_idx p)
  && (p_size p =? spec_size (p_mask p))
  && (if p_kind p =? KindPseudo then (p_mask p =? 0) && (p_idx p =? 0) && existsb (String.eqb (p_name p)) ["FP";"PC";"SB";"SP"]%string
      else
        (* the name denotes this hardware register, and the reported bytes are those a write changes *)
        match hw_name (p_name p) with
        | Some (k, n, m) => (k =? p_kind p) && (n =? p_idx p)
                            && (if m =? 0 then (p_mask p =? width_mask (p_kind p) (p_size p)) && negb (p_mask p =? 0)
                                                && negb ((p_idx p <? 4) && (p_size p =? 1))
                                else p_mask p =? m)
        | None => false
        end)
  (* flags *)
  && Bool.eqb (negb (N.land (p_info p) InfoBasePointer =? 0)) ((p_kind p =? KindGP) && (p_idx p =? 5))
  && Bool.eqb (negb (N.land (p_info p) InfoRestricted =? 0))
              (((p_kind p =? KindGP) && (p_idx p =? 4)) || ((p_kind p =? KindOpmask) && (p_idx p =? 0))).

Definition complete_ok (rf : regfile) : bool :=
  (* exactly the hardware's views, each once *)
  forallb (fun i => list_eqb N.eqb (sort_N (views rf KindGP i)) (if i <? 4 then [1;2;3;7;15] else [1;3;7;15])) (Nrange 16)
  && forallb (fun i => list_eqb N.eqb (sort_N (views rf KindVector i)) [31;63;127]) (Nrange 32)
  && forallb (fun i => list_eqb N.eqb (views rf KindOpmask i) [15]) (Nrange 8)
  && Nat.eqb (List.length rf) (4 + (16 * 4 + 4) + 32 * 3 + 8)
  (* different entries never share (ID, mask) unless pseudo *)
  && forallb (fun p => (p_kind p =? KindPseudo) ||
                       Nat.eqb (List.length (List.filter (fun q => (p_id q =? p_id p) && (p_mask q =? p_mask p)) rf)) 1) rf
  (* tags are positions *)
  && list_eqb N.eqb (List.map p_tag rf) (List.map (fun i => 16 + i) (Nrange (List.length rf))).
Definition regfile_ok (rf : regfile) : bool := forallb (entry_ok rf) rf && complete_ok rf.
Definition regfile_bad (rf : regfile) : list N := idx_where (fun p => negb (entry_ok rf p)) rf.

(* view conversion cases: (register, requested mask, outcome) where outcome = None (panic / nil) or
   Some resulting register *)
Definition conv_case := (reg * N * option reg)%type.
Definition conv_agree (rf : regfile) (c : conv_case) : bool :=
  let '(r, m, out) := c in option_eqb reg_eqb (reg_as rf r m) out.
(* spec on the implementation: identity preserved, requested view obtained, or failure exactly when
   the hardware has no such view *)
Definition conv_impl_ok (rf : regfile) (c : conv_case) : bool :=
  let '(r, m, out) := c in
  match out with
  | Some r' => (rid r' =? rid r) && (rmask r' =? m)
               && (reg_is_virtual r || existsb (fun p => (p_id p =? rid r') && (p_mask p =? m)) rf)
  | None => negb (reg_is_virtual r) && negb (existsb (N.eqb m) (views rf (id_kind (rid r)) (id_index (rid r))))
  end.
