(* C14: buildtags (buildtags/buildtags.go) and the environment model of go/build/constraint's
   reading of "// +build" lines (parsePlusBuildExpr): lines ANDed, fields ORed, comma-separated
   terms ANDed, "!" negation, an invalid tag or "!!" becomes the tag "ignore", a line without
   fields is "ignore". *)
From Avo Require Import Base.Prelude Base.Str.
Open Scope string_scope.

Definition is_negated (t : string) : bool := match t with String "!" _ => true | _ => false end.
Definition name_of (t : string) : string := match t with String "!" r => r | _ => t end.
Definition double_bang (t : string) : bool := match t with String "!" (String "!" _) => true | _ => false end.

Section Tags.
(* rune classification of a tag name: every rune is a letter, a digit, '_' or '.'
   (unicode.IsLetter / unicode.IsDigit): supplied per case from the toolchain's own predicate *)
Variable name_ok : string -> bool.

Definition validate_term (t : string) : bool :=
  negb (double_bang t) && negb (String.eqb (name_of t) "") && name_ok (name_of t).
Definition eval_term (v : string -> bool) (t : string) : bool :=
  validate_term t && Bool.eqb (v (name_of t)) (negb (is_negated t)).
Definition option_t := list string. Definition constraint_t := list option_t. Definition constraints_t := list constraint_t.
Definition eval_option v (o : option_t) := forallb (eval_term v) o.
Definition eval_constraint v (c : constraint_t) := existsb (eval_option v) c.
Definition eval_constraints v (cs : constraints_t) := forallb (eval_constraint v) cs.
(* Validate: strict = reject empty options and empty constraints (the repaired code) *)
Definition validate_option (strict : bool) (o : option_t) := (negb strict || negb (match o with [] => true | _ => false end)) && forallb validate_term o.
Definition validate_constraint (strict : bool) (c : constraint_t) := (negb strict || negb (match c with [] => true | _ => false end)) && forallb (validate_option strict) c.
Definition validate_constraints (strict : bool) (cs : constraints_t) := forallb (validate_constraint strict) cs.

Definition gostring_option (o : option_t) : string := join "," o.
Definition gostring_constraint (c : constraint_t) : string :=
  "// +build" ++ concat "" (List.map (fun o => " " ++ gostring_option o) c) ++ String (ascii_of_N 10) "".
Definition gostring (cs : constraints_t) : string := concat "" (List.map gostring_constraint cs).

(* ParseOption / ParseConstraint *)
Definition parse_option (s : string) : option option_t :=
  let o := split ","%char s in if forallb validate_term o then Some o else None.
Definition fields (s : string) : list string := List.filter (fun f => negb (String.eqb f "")) (split " "%char s).
Fixpoint all_some {A} (l : list (option A)) : option (list A) :=
  match l with [] => Some [] | Some x :: r => option_map (cons x) (all_some r) | None :: _ => None end.
Definition parse_constraint (s : string) : option constraint_t := all_some (List.map parse_option (fields s)).

(* ------------------------------------------------------------ environment: the toolchain *)
Inductive leaf := Ignore | Tag (neg : bool) (name : string).
Definition tool_tag_ok (n : string) : bool := negb (String.eqb n "") && name_ok n.
Definition pb_term (t : string) : leaf :=
  if double_bang t || negb (tool_tag_ok (name_of t)) then Ignore else Tag (is_negated t) (name_of t).
Definition leaf_eval (v : string -> bool) (l : leaf) : bool :=
  match l with Ignore => v "ignore" | Tag neg n => Bool.eqb (v n) (negb neg) end.
Definition pb_field (f : string) : list leaf := List.map pb_term (split ","%char f).
Fixpoint strip_prefix (p s : string) : option string :=
  match p, s with
  | EmptyString, _ => Some s
  | String a p', String b s' => if Ascii.eqb a b then strip_prefix p' s' else None
  | String _ _, EmptyString => None
  end.
Definition pb_line (l : string) : option (list (list leaf)) :=
  match strip_prefix "// +build" l with
  | Some rest => match fields rest with [] => Some [[Ignore]] | fs => Some (List.map pb_field fs) end
  | None => None
  end.
Definition text_lines (s : string) : list string :=   (* lines terminated by \n *)
  match List.rev (split (ascii_of_N 10) s) with "" :: r => List.rev r | l => List.rev l end.
Definition pb_parse (s : string) : option (list (list (list leaf))) := all_some (List.map pb_line (text_lines s)).
Definition pb_eval (v : string -> bool) (e : list (list (list leaf))) : bool :=
  forallb (fun l => existsb (fun f => forallb (leaf_eval v) f) l) e.
End Tags.

(* ------------------------------------------------------------ cases *)
Definition tag_case := (list (string * bool)       (* toolchain validity of every name occurring (unicode tables) *)
                        * list (list (list string)) (* constraints *)
                        * bool                      (* avo: Validate() == nil *)
                        * string                    (* avo: GoString() *)
                        * list (list string * bool))%type.  (* assignments (set tags) -> avo Evaluate *)
Definition table_ok (tab : list (string * bool)) (n : string) : bool :=
  match List.find (fun e => String.eqb (fst e) n) tab with Some e => snd e | None => false end.
Definition assign (set : list string) (n : string) : bool := existsb (String.eqb n) set.
Definition tag_agree (strict : bool) (c : tag_case) : bool :=
  let '(tab, cs, valid, text, evals) := c in
  Bool.eqb (validate_constraints (table_ok tab) strict cs) valid
  && String.eqb (gostring cs) text
  && forallb (fun e => Bool.eqb (eval_constraints (table_ok tab) (assign (fst e)) cs) (snd e)) evals.
(* the specification on avo's output: if avo says valid, the +build text it emits means, to the
   toolchain's reading, what avo's Evaluate says, for every assignment tried *)
Definition tag_impl_ok (c : tag_case) : bool :=
  let '(tab, cs, valid, text, evals) := c in
  negb valid ||
  match pb_parse (table_ok tab) text with
  | Some e => forallb (fun a => Bool.eqb (pb_eval (assign (fst a)) e) (snd a)) evals
  | None => false
  end.
(* terms the toolchain would reject are reported invalid *)
Definition tag_validity_ok (c : tag_case) : bool :=
  let '(tab, cs, valid, text, evals) := c in
  negb valid || forallb (forallb (forallb (fun t => negb (double_bang t) && tool_tag_ok (table_ok tab) (name_of t)))) cs.
Definition tree_strict := true.  (* buildtags.Validate on the current tree: empty options/constraints accepted (false) or rejected (true) *)
