(* C10: pass/cleanup.go literally (including the index handling of the three loops). *)
From Avo Require Import Base.Prelude.
From stdpp Require Import gmap.
From Avo Require Import Base.MaskSet Model.IR.
Open Scope N_scope.

(* PruneJumpToFollowingLabel: delete node i when it is an unconditional branch whose label is
   the immediately following node; the loop re-examines index i (i--), which then holds the
   label, so scanning simply continues *)
Definition jump_to_next (n m : node) : bool :=
  match n, m with
  | NInstr i, NLabel l => is_branch i && negb (is_conditional i) &&
                          match target_label i with Some t => String.eqb l t | None => false end
  | _, _ => false
  end.
Fixpoint prune_jumps (ns : list node) : list node :=
  match ns with
  | n :: r => match r with
              | m :: _ => if jump_to_next n m then prune_jumps r else n :: prune_jumps r
              | [] => [n]
              end
  | [] => []
  end.

(* PruneDanglingLabels *)
Definition label_refs (ns : list node) : list string :=
  flat_map (fun n => match n with NInstr i => if is_branch i then opt_list (target_label i) else [] | _ => [] end) ns.
Definition prune_labels (ns : list node) : list node :=
  let refs := label_refs ns in
  List.filter (fun n => match n with NLabel l => existsb (String.eqb l) refs | _ => true end) ns.

(* PruneSelfMoves via removeinstructions: `for i := 0; i < len; i++ { if match { delete(i) } }`
   has no i--, so the node following a deleted one is skipped.  widths = opcodes considered;
   gp_only = additionally require general-purpose registers (the repaired code). *)
Definition self_move_pred (opcodes : list string) (gp_only : bool) (i : instr) : res bool :=
  if negb (existsb (String.eqb (opcode i)) opcodes) then OK false
  else match operands i with
       | a :: b :: _ =>
           OK (is_reg a && is_reg b && operand_eqb a b &&
               (negb gp_only || match a with OReg r => reg_kind r =? KindGP | _ => false end))
       | _ => Panic 3      (* index out of range *)
       end.
Fixpoint remove_instrs (pred : instr -> res bool) (skip_next : bool) (ns : list node) : res (list node) :=
  match ns with
  | [] => OK []
  | n :: r =>
      match n with
      | NInstr i =>
          do b <- pred i;
          if b then
            (if skip_next then
               match r with
               | [] => OK []
               | n2 :: r2 => do rest <- remove_instrs pred skip_next r2; OK (n2 :: rest)
               end
             else remove_instrs pred skip_next r)
          else do rest <- remove_instrs pred skip_next r; OK (n :: rest)
      | _ => do rest <- remove_instrs pred skip_next r; OK (n :: rest)
      end
  end.
Definition self_move_opcodes_pinned : list string := ["MOVB"; "MOVW"; "MOVL"; "MOVQ"]%string.
Definition self_move_opcodes_fixed : list string := ["MOVB"; "MOVW"; "MOVQ"]%string.
Definition prune_self_moves_with (fixed : bool) (ns : list node) : res (list node) :=
  remove_instrs (self_move_pred (if fixed then self_move_opcodes_fixed else self_move_opcodes_pinned) fixed) true ns.
Definition prune_self_moves := prune_self_moves_with true.

(* ------------------------------------------------------------- what is allowed to be deleted *)
(* environment model of the register-to-register moves the pass looks at: the move is a no-op on
   every state iff it is a byte/word/quadword move between the same general-purpose view.
   MOVL r,r zero-extends into bits 32-63; MOVQ X,X clears bits 64-127 of the XMM register. *)
Definition move_is_architectural_noop (i : instr) : bool :=
  match operands i with
  | [OReg a; OReg b] =>
      reg_eqb a b && (reg_kind a =? KindGP) &&
      ((String.eqb (opcode i) "MOVB" && (spec_size (rmask a) =? 1))
       || (String.eqb (opcode i) "MOVW" && (spec_size (rmask a) =? 2))
       || (String.eqb (opcode i) "MOVQ" && (spec_size (rmask a) =? 8)))
  | _ => false
  end.
