(* C09, end to end: the graph the real pass.Compile used is not observable afterwards (PruneSelfMoves
   clears it), but the live sets computed over it are.  For a function from which no self-move
   is deleted afterwards, the instructions at the time of the CFG pass are the final ones, and the data-flow
   equation LiveOut(i) = union of LiveIn(s) over the successors s of i must hold for the successors
   the property demands (spec_succs of the final nodes).  A stale label target or an edge to a
   deleted instruction breaks it. *)
From Avo Require Import Base.Prelude.
From stdpp Require Import gmap.
From Avo Require Import Base.MaskSet Model.IR Model.CFG.
Open Scope N_scope.

Definition ms_eqb (a b : MS) : bool :=
  forallb (fun p : N * N => get b (fst p) =? snd p) (ms_elements a) && forallb (fun p : N * N => get a (fst p) =? snd p) (ms_elements b).

Definition cfg_live_case := (list node * (list (list (N * N)) * list (list (N * N))))%type.
Definition e2e_cfg_live_ok (c : cfg_live_case) : bool :=
  let '(ns, (lins, louts)) := c in
  let is := instructions ns in
  Nat.eqb (List.length lins) (List.length is) && Nat.eqb (List.length louts) (List.length is) &&
  forallb (fun p : nat * instr =>
     let succs := spec_succs ns (fst p) (snd p) in
     let want := fold_left (fun acc s => match s with Some j => ms_update acc (ms_of_list (List.nth j lins [])) | None => acc end) succs (∅ : MS) in
     ms_eqb want (ms_of_list (List.nth (fst p) louts []))) (index_list is).
