(* C12: printer.NewStubs (printer/stubs.go) before go/format: structured content of the stub file. *)
From Avo Require Import Base.Prelude Base.Str.
Open Scope string_scope.

Record sfunc := { sf_name : string; sf_doc : list string; sf_pragmas : list (string * list string); sf_sig : string }.
Record sfile := { st_warning : string; st_constraints : string; st_pkg : string; st_funcs : list sfunc }.

Inductive sline := SLBlank | SLComment (t : string) | SLRaw (t : string) | SLPackage (p : string) | SLPragma (t : string) | SLFunc (name sig : string).

(* prnt.Generator.Comment trims "// " ++ line; only trailing white space can occur *)
Definition is_space (c : ascii) : bool := let n := N_of_ascii c in ((n =? 32) || ((9 <=? n) && (n <=? 13)))%N.
Fixpoint rtrim (s : string) : string :=
  match s with
  | EmptyString => EmptyString
  | String c r => let r' := rtrim r in if (match r' with EmptyString => true | _ => false end) && is_space c then EmptyString else String c r'
  end.
Definition pragma_text (p : string * list string) : string :=
  "//go:" ++ fst p ++ String.concat "" (List.map (fun a => " " ++ a) (snd p)).
Definition func_lines (f : sfunc) : list sline :=
  [SLBlank] ++ List.map SLComment (List.map rtrim (flat_map (split (ascii_of_N 10)) (sf_doc f)))
  ++ List.map (fun p => SLPragma (pragma_text p)) (sf_pragmas f) ++ [SLFunc (sf_name f) (sf_sig f)].
Definition stub_lines (f : sfile) : list sline :=
  List.map SLComment (split (ascii_of_N 10) (st_warning f))
  ++ (if String.eqb (st_constraints f) "" then [] else [SLBlank; SLRaw (st_constraints f)])
  ++ [SLBlank; SLPackage (st_pkg f)]
  ++ flat_map func_lines (st_funcs f).

(* what a reader recovers: the declared functions in order, each with the comment and directive
   lines that immediately precede it (no blank line in between) *)
Fixpoint declared (ls : list sline) (doc : list string) (prag : list string) : list (string * string * list string * list string) :=
  match ls with
  | [] => []
  | SLFunc n s :: r => (n, s, doc, prag) :: declared r [] []
  | SLComment t :: r => declared r (doc ++ [t])%list prag
  | SLPragma t :: r => declared r doc (prag ++ [t])%list
  | _ :: r => declared r [] []
  end.
Definition expected (f : sfile) : list (string * string * list string * list string) :=
  List.map (fun x => (sf_name x, sf_sig x, List.map rtrim (flat_map (split (ascii_of_N 10)) (sf_doc x)), List.map pragma_text (sf_pragmas x))) (st_funcs f).

(* observation extracted from the formatted output with go/parser: package, constraint line, and per
   function (name, signature text, doc lines, directive lines) *)
Definition stub_obs := (string * string * list (string * string * list string * list string))%type.
(* gofmt separates documentation from directives by an empty comment line: trailing empty doc
   lines are formatting *)
Definition drop_trailing_empty (l : list string) : list string :=
  List.rev ((fix go (l : list string) := match l with EmptyString :: r => go r | _ => l end) (List.rev l)).
Definition tuple_eqb (a b : string * string * list string * list string) : bool :=
  let '(n, s, d, p) := a in let '(n', s', d', p') := b in
  String.eqb n n' && String.eqb s s' && list_eqb String.eqb (drop_trailing_empty d) (drop_trailing_empty d') && list_eqb String.eqb p p'.
Definition stub_agree (c : sfile * stub_obs) : bool :=
  let '(f, (pkg, cns, fs)) := c in
  String.eqb pkg (st_pkg f) && String.eqb cns (st_constraints f) && list_eqb tuple_eqb (declared (stub_lines f) [] []) fs.

(* the property on the implementation's output: each function given to avo is declared once, in
   order, carrying its documentation and directives, in the requested package, under the given
   constraint line *)
Definition stub_impl_ok (c : sfile * stub_obs) : bool :=
  let '(f, (pkg, cns, fs)) := c in
  String.eqb pkg (st_pkg f) && String.eqb cns (st_constraints f) && list_eqb tuple_eqb (expected f) fs.
