(* C07: gotypes.Signature layout and the Component algebra (gotypes/signature.go, components.go)
   over an inductive of Go types; environment model: go/types gcSizes for amd64 (Alignof, Sizeof,
   Offsetsof, literally from go/types/gcsizes.go). *)
From Avo Require Import Base.Prelude Base.Str.
Open Scope string_scope.
Open Scope Z_scope.

Inductive bkind := KBool | KInt8 | KInt16 | KInt32 | KInt64 | KInt | KUint8 | KUint16 | KUint32 | KUint64 | KUint | KUintptr
                 | KFloat32 | KFloat64 | KComplex64 | KComplex128 | KString | KUnsafePointer.
Inductive ty :=
| TBasic (k : bkind)
| TPtr (t : ty)
| TSlice (t : ty)
| TArr (n : Z) (t : ty)
| TStruct (fs : list (string * ty))
| TNamed (t : ty)                 (* defined type: Underlying() is the underlying of t *)
| TWord                           (* func / map / chan: one word *)
| TIface.                         (* interface: two words *)

Definition basic_size (k : bkind) : Z :=
  match k with
  | KBool | KInt8 | KUint8 => 1 | KInt16 | KUint16 => 2 | KInt32 | KUint32 | KFloat32 => 4
  | KInt64 | KUint64 | KInt | KUint | KUintptr | KFloat64 | KComplex64 | KUnsafePointer => 8
  | KComplex128 | KString => 16
  end.
Definition is_complex (k : bkind) : bool := match k with KComplex64 | KComplex128 => true | _ => false end.
Definition align (x a : Z) : Z := ((x + a - 1) / a) * a.

Fixpoint under (t : ty) : ty := match t with TNamed u => under u | _ => t end.

(* gcSizes, WordSize = MaxAlign = 8 *)
Fixpoint sizeof (t : ty) : Z :=
  match t with
  | TBasic k => basic_size k
  | TPtr _ | TWord => 8
  | TSlice _ => 24
  | TIface => 16
  | TArr n e => if n <=? 0 then 0 else sizeof e * n
  | TNamed u => sizeof u
  | TStruct fs =>
      (fix go (fs : list (string * ty)) (offs : Z) (maxa : Z) : Z :=
         match fs with
         | [] => 0
         | [(_, f)] => let a := alignof f in let o := align offs a in
                       let sz := sizeof f in let sz' := if (0 <? o) && (sz =? 0) then 1 else sz in
                       align (o + sz') (Z.max maxa a)
         | (_, f) :: r => let a := alignof f in go r (align offs a + sizeof f) (Z.max maxa a)
         end) fs 0 1
  end
with alignof (t : ty) : Z :=
  match t with
  | TBasic k => if match k with KString => true | _ => false end then 8
                else let a := basic_size k in let a := if is_complex k then a / 2 else a in Z.min a 8
  | TPtr _ | TWord | TSlice _ | TIface => 8
  | TArr _ e => alignof e
  | TNamed u => alignof u
  | TStruct fs => (fix go (fs : list (string * ty)) (m : Z) : Z := match fs with [] => m | (_, f) :: r => go r (Z.max m (alignof f)) end) fs 1
  end.
Fixpoint offsetsof (ts : list ty) (offs : Z) : list Z :=
  match ts with [] => [] | t :: r => let o := align offs (alignof t) in o :: offsetsof r (o + sizeof t) end.
Definition structsize (ts : list ty) : Z :=
  match List.rev ts, List.rev (offsetsof ts 0) with t :: _, o :: _ => o + sizeof t | _, _ => 0 end.

(* ------------------------------------------------------------ components *)
Inductive base := BFP | BReg (id : N).
Record addr := { a_sym : string; a_disp : Z; a_base : base }.
Inductive comp := CErr | COk (t : ty) (a : addr).
Inductive step := SBase | SLen | SCap | SReal | SImag | SIndex (i : Z) | SField (n : string) | SDeref (r : N).

Definition sub (t : ty) (a : addr) (suffix : string) (off : Z) (t' : ty) : comp :=
  COk t' {| a_sym := if String.eqb (a_sym a) "" then "" else a_sym a ++ suffix; a_disp := a_disp a + off; a_base := a_base a |}.
Definition is_slice (t : ty) := match under t with TSlice _ => true | _ => false end.
Definition is_string (t : ty) := match under t with TBasic KString => true | _ => false end.
Definition complex_part (t : ty) : option ty :=
  match under t with TBasic KComplex128 => Some (TBasic KFloat64) | TBasic KComplex64 => Some (TBasic KFloat32) | _ => None end.
Fixpoint find_field (fs : list (string * ty)) (offs : list Z) (n : string) : option (Z * ty) :=
  match fs, offs with
  | (fn, ft) :: r, o :: os => if String.eqb fn n then Some (o, ft) else find_field r os n
  | _, _ => None
  end.
(* check_neg = the repaired bounds test (i < 0 is an error) *)
Definition apply_step (check_neg : bool) (c : comp) (s : step) : comp :=
  match c with
  | CErr => CErr
  | COk t a =>
      match s with
      | SBase => if is_slice t || is_string t then sub t a "_base" 0 (TBasic KUintptr) else CErr
      | SLen => if is_slice t || is_string t then sub t a "_len" 8 (TBasic KInt) else CErr
      | SCap => if is_slice t then sub t a "_cap" 16 (TBasic KInt) else CErr
      | SReal => match complex_part t with Some f => sub t a "_real" 0 f | None => CErr end
      | SImag => match complex_part t with Some f => sub t a "_imag" (sizeof f) f | None => CErr end
      | SIndex i => match under t with
                    | TArr n e => if (n <=? i) || (check_neg && (i <? 0)) then CErr
                                  else sub t a ("_" ++ dec_of_Z i) (i * (sizeof (TArr 2 e) - sizeof (TArr 1 e))) e
                    | _ => CErr end
      | SField n => match under t with
                    | TStruct fs => match find_field fs (offsetsof (List.map snd fs) 0) n with
                                    | Some (o, ft) => sub t a ("_" ++ n) o ft
                                    | None => CErr end
                    | _ => CErr end
      | SDeref r => match under t with
                    | TPtr e => COk e {| a_sym := ""; a_disp := 0; a_base := BReg r |}
                    | _ => CErr end
      end
  end.
Definition apply_path (check_neg : bool) (c : comp) (p : list step) : comp := fold_left (apply_step check_neg) p c.
(* Resolve: toprimitive looks at the type itself, not its underlying type *)
Inductive prim := PBasic (k : bkind).
Definition resolve (c : comp) : option (bkind * addr) :=
  match c with
  | COk (TBasic k) a => if is_complex k || match k with KString => true | _ => false end then None else Some (k, a)
  | COk (TPtr _) a => Some (KUintptr, a)
  | _ => None
  end.

(* ------------------------------------------------------------ signatures *)
Definition var := (string * ty)%type.
Definition tuple_names (prefix : string) (vs : list var) : list string :=
  List.map (fun p => if String.eqb (fst (snd p)) "" then (if Nat.eqb (fst p) 0 then prefix else prefix ++ dec_of_N (N.of_nat (fst p))) else fst (snd p)) (index_list vs).
Record siglayout := { params_off : list Z; params_size : Z; results_off : list Z; results_size : Z }.
Definition sig_layout (params results : list var) : siglayout :=
  let pts := List.map snd params in let rts := List.map snd results in
  let poffs := offsetsof (pts ++ [TBasic KUint64])%list 0 in
  let psize := match results with [] => structsize pts | _ => List.nth (List.length pts) poffs 0 end in
  {| params_off := List.firstn (List.length pts) poffs; params_size := psize;
     results_off := List.map (Z.add psize) (offsetsof rts 0); results_size := structsize rts |}.
Definition sig_bytes (l : siglayout) : Z := params_size l + results_size l.
Definition param_comp (name : string) (off : Z) (t : ty) : comp := COk t {| a_sym := name; a_disp := off; a_base := BFP |}.

(* ------------------------------------------------------------ the asmdecl flattening (specification) *)
(* go vet's asmdecl: every addressable piece of an argument: (name, offset, size) *)
Fixpoint flatten_fuel (fuel : nat) (name : string) (off : Z) (t : ty) : list (string * Z * Z) :=
  (name, off, sizeof t) ::
  match fuel with
  | O => []
  | S f =>
    match under t with
    | TBasic KString => [(name ++ "_base", off, 8); (name ++ "_len", off + 8, 8)]
    | TBasic KComplex128 => [(name ++ "_real", off, 8); (name ++ "_imag", off + 8, 8)]
    | TBasic KComplex64 => [(name ++ "_real", off, 4); (name ++ "_imag", off + 4, 4)]
    | TSlice _ => [(name ++ "_base", off, 8); (name ++ "_len", off + 8, 8); (name ++ "_cap", off + 16, 8)]
    | TArr n e =>
        let esz := sizeof e in
        flat_map (fun i => flatten_fuel f (name ++ "_" ++ dec_of_Z (Z.of_nat i)) (off + Z.of_nat i * esz) e) (seq 0 (Z.to_nat n))
    | TStruct fs =>
        flat_map (fun fo => flatten_fuel f (name ++ "_" ++ fst (fst fo)) (off + snd fo) (snd (fst fo)))
                 (List.combine fs (offsetsof (List.map snd fs) 0))
    | _ => []
    end
  end.
Fixpoint depth (t : ty) : nat :=
  match t with
  | TArr _ e => S (depth e) | TNamed u => S (depth u)
  | TStruct fs => S (fold_right (fun f m => Nat.max (depth (snd f)) m) O fs)
  | _ => 1%nat
  end.
Definition flatten (name : string) (off : Z) (t : ty) := flatten_fuel (depth t) name off t.

(* ------------------------------------------------------------ cases *)
(* a signature, the layout avo reports, and for a list of paths the resolved component *)
Inductive robs := RErr | RPanic | ROk (sym : string) (disp : Z) (base : base) (kind : bkind).
Definition sig_case := (list var * list var * (list (string * Z) * list (string * Z) * Z)   (* (name, offset) per param / result, argsize *)
                        * list (bool * nat * list step * robs))%type.                          (* (is_result, index, path, observation) *)
Definition bkind_eqb (a b : bkind) : bool :=
  match a, b with
  | KBool, KBool | KInt8, KInt8 | KInt16, KInt16 | KInt32, KInt32 | KInt64, KInt64 | KInt, KInt | KUint8, KUint8 | KUint16, KUint16
  | KUint32, KUint32 | KUint64, KUint64 | KUint, KUint | KUintptr, KUintptr | KFloat32, KFloat32 | KFloat64, KFloat64
  | KComplex64, KComplex64 | KComplex128, KComplex128 | KString, KString | KUnsafePointer, KUnsafePointer => true
  | _, _ => false end.
Definition base_eqb (a b : base) := match a, b with BFP, BFP => true | BReg x, BReg y => N.eqb x y | _, _ => false end.
Definition model_resolve (check_neg : bool) (params results : list var) (isres : bool) (idx : nat) (p : list step) : robs :=
  let l := sig_layout params results in
  let vs := if isres then results else params in
  let names := tuple_names (if isres then "ret" else "arg") vs in
  let offs := if isres then results_off l else params_off l in
  match List.nth_error vs idx, List.nth_error names idx, List.nth_error offs idx with
  | Some v, Some n, Some o =>
      match resolve (apply_path check_neg (param_comp n o (snd v)) p) with
      | Some (k, a) => ROk (a_sym a) (a_disp a) (a_base a) k
      | None => RErr
      end
  | _, _, _ => RErr
  end.
Definition robs_eqb (a b : robs) : bool :=
  match a, b with
  | RErr, RErr | RPanic, RPanic => true
  | ROk s d b k, ROk s' d' b' k' => String.eqb s s' && (d =? d') && base_eqb b b' && bkind_eqb k k'
  | _, _ => false end.
Definition sig_agree (check_neg : bool) (c : sig_case) : bool :=
  let '(params, results, (pobs, robs_, argsize), paths) := c in
  let l := sig_layout params results in
  list_eqb (fun a b => String.eqb (fst a) (fst b) && (snd a =? snd b)) (List.combine (tuple_names "arg" params) (params_off l)) pobs
  && list_eqb (fun a b => String.eqb (fst a) (fst b) && (snd a =? snd b)) (List.combine (tuple_names "ret" results) (results_off l)) robs_
  && (sig_bytes l =? argsize)
  && forallb (fun q : bool * nat * list step * robs => let '(isres, idx, p, ob) := q in robs_eqb (model_resolve check_neg params results isres idx p) ob) paths.

(* specification on avo's output: FP-relative resolutions are entries of the asmdecl flattening of
   the signature (name, offset, size of the resolved kind) and lie inside their argument;
   register-relative ones lie inside the pointee; nothing panics; negative indices are errors *)
Definition kind_size (k : bkind) := basic_size k.
Definition has_neg_index (p : list step) : bool := existsb (fun s => match s with SIndex i => i <? 0 | _ => false end) p.
(* pointee type reached by the last dereference of a path (types only) *)
Definition dummy_addr := {| a_sym := ""; a_disp := 0; a_base := BFP |}.
Fixpoint last_deref_type (t : ty) (p : list step) (acc : option ty) : option ty :=
  match p with
  | [] => acc
  | s :: r => match apply_step true (COk t dummy_addr) s with
              | COk t' _ => last_deref_type t' r (match s with SDeref _ => Some t' | _ => acc end)
              | CErr => None
              end
  end.
Definition sig_impl_ok (c : sig_case) : bool :=
  let '(params, results, (pobs, robs_, argsize), paths) := c in
  let flatp := flat_map (fun x : (string * Z) * var => flatten (fst (fst x)) (snd (fst x)) (snd (snd x))) (List.combine pobs params) in
  let flatr := flat_map (fun x : (string * Z) * var => flatten (fst (fst x)) (snd (fst x)) (snd (snd x))) (List.combine robs_ results) in
  forallb (fun q : bool * nat * list step * robs => let '(isres, idx, p, ob) := q in
     match ob with
     | RPanic => false
     | RErr =>
         (* an error is an allowed answer except where the path ends in a plain scalar (a basic kind other
            than string/complex, or a pointer) that the signature really has: that component has an address
            and the property demands it *)
         has_neg_index p ||
         match List.nth_error (if isres then results else params) idx with
         | Some v => match apply_path true (COk (snd v) dummy_addr) p with
                     | COk (TBasic k) _ => is_complex k || match k with KString => true | _ => false end
                     | COk (TPtr _) _ => false
                     | _ => true
                     end
         | None => true
         end
     | ROk s d b k =>
         negb (has_neg_index p) &&
         match b with
         | BFP => existsb (fun e => String.eqb (fst (fst e)) s && (snd (fst e) =? d) && (snd e =? kind_size k)) (if isres then flatr else flatp)
         | BReg _ =>
             (* through a loaded pointer: the pointee's own offsets, no symbol *)
             String.eqb s "" &&
             match List.nth_error (if isres then results else params) idx with
             | Some v => match last_deref_type (snd v) p None with
                         | Some e => existsb (fun en => (snd (fst en) =? d) && (snd en =? kind_size k)) (flatten "" 0 e)
                         | None => false end
             | None => false end
         end
     end) paths.
Definition tree_check_neg := true.  (* gotypes Index/At on the current tree: negative index rejected (true) or not (false) *)

(* the frame layout itself as a specification on avo's output: parameter and result offsets and the
   argument size are those of the Go compiler's ABI0 layout (gc/amd64 sizes, the environment model
   above, compared with unsafe.Sizeof/Alignof/Offsetof of the real compiler on every run) *)
Definition sig_layout_ok (c : sig_case) : bool :=
  let '(params, results, (pobs, robs_, argsize), paths) := c in
  let l := sig_layout params results in
  list_eqb (fun a b => String.eqb (fst a) (fst b) && (snd a =? snd b)) (List.combine (tuple_names "arg" params) (params_off l)) pobs
  && list_eqb (fun a b => String.eqb (fst a) (fst b) && (snd a =? snd b)) (List.combine (tuple_names "ret" results) (results_off l)) robs_
  && (sig_bytes l =? argsize).
