(* C09: pass.LabelTarget and pass.CFG (pass/cfg.go), literally. *)
From Avo Require Import Base.Prelude.
From stdpp Require Import gmap.
From Avo Require Import Base.MaskSet Model.IR.
Open Scope N_scope.

(* error codes *)
Definition EDupLabel := 1. Definition EEndsWithLabel := 2. Definition ENoLabel := 3. Definition EUnknownLabel := 4.

Fixpoint assoc (l : list (string * nat)) (k : string) : option nat :=
  match l with [] => None | (k', v) :: r => if String.eqb k' k then Some v else assoc r k end.

(* LabelTarget: target map as association list (later bindings never shadow: duplicates are
   rejected against the map, exactly as the Go code tests `target[n]`, not the pending list).
   check_pending = true is the repaired code that also searches the pending labels. *)
Fixpoint label_target_go (check_pending : bool) (ns : list node) (idx : nat) (target : list (string * nat)) (pending : list string)
  : res (list (string * nat)) :=
  match ns with
  | [] => match pending with [] => OK target | _ => Err EEndsWithLabel end
  | NLabel l :: r =>
      if (match assoc target l with Some _ => true | None => false end)
         || (check_pending && existsb (String.eqb l) pending)
      then Err EDupLabel
      else label_target_go check_pending r idx target (pending ++ [l])
  | NComment _ :: r => label_target_go check_pending r idx target pending
  | NInstr _ :: r =>
      label_target_go check_pending r (S idx) (target ++ List.map (fun l => (l, idx)) pending) []
  end.
Definition label_target_with (cp : bool) (ns : list node) := label_target_go cp ns 0 [] [].
Definition label_target := label_target_with true.

(* CFG successors: branch target first, then fall-through unless terminal/unconditional branch.
   None = nil successor (falling off the end). *)
Definition succ_of (target : list (string * nat)) (n : nat) (i : nat) (cur : instr) : res (list (option nat)) :=
  let nxt := if Nat.ltb (S i) n then Some (S i) else None in
  do br <- (if is_branch cur then
              match target_label cur with
              | None => Err ENoLabel
              | Some l => match assoc target l with
                          | None => Err EUnknownLabel
                          | Some t => OK [Some t]
                          end
              end
            else OK []);
  OK (br ++ (if is_terminal cur then [] else if is_unconditional_branch cur then [] else [nxt])).

Fixpoint cfg_succs (target : list (string * nat)) (n : nat) (i : nat) (is : list instr) : res (list (list (option nat))) :=
  match is with
  | [] => OK []
  | cur :: r => do s <- succ_of target n i cur; do rest <- cfg_succs target n (S i) r; OK (s :: rest)
  end.
Definition cfg (target : list (string * nat)) (is : list instr) := cfg_succs target (List.length is) 0 is.

(* predecessors: for i in order, for s in Succ(i): Pred(s) += i *)
Definition cfg_preds (succs : list (list (option nat))) : list (list nat) :=
  let n := List.length succs in
  let edges := flat_map (fun p => flat_map (fun s => match s with Some j => [(j, fst p)] | None => [] end) (snd p)) (index_list succs) in
  List.map (fun j => List.map snd (List.filter (fun e => Nat.eqb (fst e) j) edges)) (seq 0 n).

(* ---------------------------------------------------------------- declarative spec (property text) *)
Definition ninstr (ns : list node) := List.length (instructions ns).
Definition labels_of (ns : list node) : list string := flat_map (fun n => match n with NLabel l => [l] | _ => [] end) ns.
(* the instruction a label is bound to: the number of instructions before the label, i.e. the index of
   the first instruction after it *)
Fixpoint lab_idx (ns : list node) (i : nat) : list (string * nat) :=
  match ns with
  | [] => []
  | NInstr _ :: r => lab_idx r (S i)
  | NLabel l :: r => (l, i) :: lab_idx r i
  | _ :: r => lab_idx r i
  end.
Definition spec_target (ns : list node) (l : string) : option nat := assoc (lab_idx ns 0) l.
Fixpoint has_dup (l : list string) : bool := match l with [] => false | x :: r => existsb (String.eqb x) r || has_dup r end.

(* errors the property names *)
Definition has_duplicate_label (ns : list node) : bool := has_dup (labels_of ns).
Fixpoint label_without_instr (ns : list node) : bool :=     (* some label has no instruction after it *)
  match ns with
  | [] => false
  | NLabel _ :: r => Nat.eqb (ninstr r) 0 || label_without_instr r
  | _ :: r => label_without_instr r
  end.
Definition branch_nonlabel (ns : list node) : bool :=
  existsb (fun i => is_branch i && match target_label i with None => true | Some _ => false end) (instructions ns).
Definition branch_undefined (ns : list node) : bool :=
  existsb (fun i => is_branch i && match target_label i with Some l => match spec_target ns l with None => true | Some _ => false end | None => false end) (instructions ns).
Definition cfg_should_fail (ns : list node) : bool :=
  has_duplicate_label ns || label_without_instr ns || branch_nonlabel ns || branch_undefined ns.

(* successor relation of the property text *)
Definition spec_succs (ns : list node) (i : nat) (cur : instr) : list (option nat) :=
  let n := ninstr ns in
  (if is_branch cur then
     match target_label cur with
     | Some l => match spec_target ns l with Some t => [Some t] | None => [] end
     | None => []
     end
   else [])
  ++ (if is_terminal cur then [] else if is_unconditional_branch cur then [] else [if Nat.ltb (S i) n then Some (S i) else None]).

Definition succs_eqb (a b : list (list (option nat))) : bool := list_eqb (list_eqb (option_eqb Nat.eqb)) a b.
Definition preds_eqb (a b : list (list nat)) : bool := list_eqb (list_eqb Nat.eqb) a b.

(* spec_b on an observed outcome: either an error when (and only when) the property demands
   one, or successors exactly per spec and predecessors exactly the inverse edge multiset in
   instruction order *)
(* x86 control flow by opcode: every J* opcode is a branch, conditional unless it is JMP; RET is
   terminal (the flags themselves come from the instruction table, C06) *)
Definition starts_with_J (s : string) : bool := match s with String "J"%char _ => true | _ => false end.
Definition opcode_flags_ok (i : instr) : bool :=
  (negb (starts_with_J (opcode i)) || (is_branch i && Bool.eqb (is_conditional i) (negb (String.eqb (opcode i) "JMP"))))
  && (negb (String.eqb (opcode i) "RET") || is_terminal i).

Inductive cfg_outcome := CfgErr (code : N) | CfgOK (succs : list (list (option nat))) (preds : list (list nat)).
Definition cfg_spec_b (ns : list node) (o : cfg_outcome) : bool :=
  forallb opcode_flags_ok (instructions ns) &&
  match o with
  | CfgErr _ => cfg_should_fail ns
  | CfgOK succs preds =>
      negb (cfg_should_fail ns)
      && succs_eqb succs (List.map (fun p => spec_succs ns (fst p) (snd p)) (index_list (instructions ns)))
      && preds_eqb preds (cfg_preds succs)
  end.

Definition cfg_model_with (cp : bool) (ns : list node) : cfg_outcome :=
  match label_target_with cp ns with
  | Err e => CfgErr e | Panic p => CfgErr (100 + p)
  | OK t => match cfg t (instructions ns) with
            | Err e => CfgErr e | Panic p => CfgErr (100 + p)
            | OK s => CfgOK s (cfg_preds s)
            end
  end.
Definition cfg_model := cfg_model_with true.
Definition cfg_outcome_eqb (a b : cfg_outcome) : bool :=
  match a, b with
  | CfgErr x, CfgErr y => x =? y
  | CfgOK s p, CfgOK s' p' => succs_eqb s s' && preds_eqb p p'
  | _, _ => false
  end.
