(* The pass framework (pass/pass.go): Compile is a concatenation of passes; a function pass visits the
   functions of the file in order and stops at the first error; a concatenation stops at the first
   failing pass.  So the outcome of compiling a file is decided pass-major: the error of the earliest
   pass that fails on some function, and within that pass of the first such function. *)
From Avo Require Import Base.Prelude.
Open Scope N_scope.

(* what happens to one function on its own: the first pass that refuses it (numbered in pipeline
   order from 1) and the error code, or (0, 0) when every pass accepts it *)
Definition alone := (N * N)%type.

(* one function pass over the functions that reached it: None = all accepted *)
Fixpoint first_failing_at (stage : N) (fs : list alone) : option N :=
  match fs with
  | [] => None
  | (s, c) :: r => if (s =? stage) && negb (c =? 0) then Some c else first_failing_at stage r
  end.
(* the concatenation: passes 1..n in order *)
Fixpoint compile_from (stage : N) (fuel : nat) (fs : list alone) : N :=
  match fuel with
  | O => 0
  | S k => match first_failing_at stage fs with Some c => c | None => compile_from (stage + 1) k fs end
  end.
Definition compile_file (npasses : nat) (fs : list alone) : N := compile_from 1 npasses fs.

(* observation of the real pass.Compile on a file: per function its outcome alone, and the file's code *)
Definition file_case := (list alone * N)%type.
Definition file_agree (npasses : nat) (c : file_case) : bool := compile_file npasses (fst c) =? snd c.
(* the part of it the properties state: a file is refused exactly when one of its functions is *)
Definition file_impl_ok (c : file_case) : bool :=
  Bool.eqb (negb (snd c =? 0)) (existsb (fun a : alone => negb (snd a =? 0)) (fst c)).
