(* C20 / C02: the byte-mask set operations of reg/set.go (Difference, DifferenceUpdate, Update,
   NewMaskSetFromRegisters) against the set algebra of Base/MaskSet.v, for which get_diff / get_update /
   get_add state the bytewise meaning: a wide view that is live and a narrow view of the same
   register that is written leave exactly the remaining bytes live. *)
From Avo Require Import Base.Prelude.
From stdpp Require Import gmap.
From Avo Require Import Base.MaskSet Model.IR Model.CFG Model.CfgLive.
Open Scope N_scope.

(* (operation, s, t, result, reported change); operation 0 = Difference, 1 = DifferenceUpdate,
   2 = Update, 3 = NewMaskSetFromRegisters (t lists the registers as (id, mask), s is empty) *)
Definition msop_case := (N * list (N * N) * list (N * N) * list (N * N) * bool)%type.
Definition msop_ok (c : msop_case) : bool :=
  let '(op, s, t, res, chg) := c in
  let S := ms_of_list s in let T := ms_of_list t in let R := ms_of_list res in
  if op =? 0 then ms_eqb (ms_diff S T) R
  else if op =? 1 then ms_eqb (ms_diff S T) R && Bool.eqb chg (negb (ms_eqb S R))
  else if op =? 2 then ms_eqb (ms_update S T) R && Bool.eqb chg (negb (ms_eqb S R))
  else ms_eqb (fold_left (fun acc p => ms_add acc (fst p) (snd p)) t (∅ : MS)) R.
