(* IR model shared by C01 C02 C03 C09 C10 C15 C17: registers, operands, instructions, nodes
   (ir/ir.go, operand/types.go, reg/types.go). *)
From Avo Require Import Base.Prelude.
From stdpp Require Import gmap.
From Avo Require Import Base.MaskSet.
Open Scope N_scope.

(* reg.ID = v | kind<<8 | idx<<16 (uint32); Kind() = uint8(id>>8); Index() = uint16(id>>16) *)
Definition mk_id (v kind idx : N) : N := N.lor v (N.lor (N.shiftl kind 8) (N.shiftl idx 16)).
Definition id_is_virtual (id : N) : bool := N.odd id.
Definition id_kind (id : N) : N := (id / 256) mod 256.
Definition id_index (id : N) : N := (id / 65536) mod 65536.
Definition KindPseudo := 0. Definition KindGP := 1. Definition KindVector := 2. Definition KindOpmask := 3.

(* A register value as Go sees it: ID, Spec (= mask) and a tag standing for the rest of the Go
   value's identity (dynamic wrapper type for virtuals: 0 plain, 1 gpv, 2 vecv, 3 opmaskv;
   position in the physical table + 16 for physicals), so that Go's interface `==` is
   reg_eqb.  Size() = (x>>1)+(x&1). *)
Record reg := { rid : N; rmask : N; rtag : N }.
Definition reg_eqb (a b : reg) : bool := (rid a =? rid b) && (rmask a =? rmask b) && (rtag a =? rtag b).
Definition spec_size (m : N) : N := N.shiftr m 1 + N.land m 1.
Definition reg_kind (r : reg) : N := id_kind (rid r).
Definition reg_is_virtual (r : reg) : bool := id_is_virtual (rid r).

Inductive operand :=
| OReg (r : reg)
| OMem (base index : option reg) (scale : N) (disp : Z) (sym : string) (static : bool)
| OImm (bytes : N) (signed : bool) (v : Z)   (* U8..U64 / I8..I64 *)
| OOther (txt : string)                       (* F32/F64/String constants: text as printed *)
| ORel (r : Z)
| OLabel (l : string).

Definition opt_reg_eqb (a b : option reg) := option_eqb reg_eqb a b.
Definition operand_eqb (a b : operand) : bool :=
  match a, b with
  | OReg x, OReg y => reg_eqb x y
  | OMem b1 i1 s1 d1 y1 t1, OMem b2 i2 s2 d2 y2 t2 =>
      opt_reg_eqb b1 b2 && opt_reg_eqb i1 i2 && (s1 =? s2) && (d1 =? d2)%Z && String.eqb y1 y2 && Bool.eqb t1 t2
  | OImm n1 s1 v1, OImm n2 s2 v2 => (n1 =? n2) && Bool.eqb s1 s2 && (v1 =? v2)%Z
  | OOther a, OOther b => String.eqb a b
  | ORel a, ORel b => (a =? b)%Z
  | OLabel a, OLabel b => String.eqb a b
  | _, _ => false
  end.

(* operand.Registers *)
Definition opt_list {A} (o : option A) : list A := match o with Some x => [x] | None => [] end.
Definition op_registers (o : operand) : list reg :=
  match o with
  | OReg r => [r]
  | OMem b i _ _ _ _ => opt_list b ++ opt_list i
  | _ => []
  end.
Definition is_mem (o : operand) : bool := match o with OMem _ _ _ _ _ _ => true | _ => false end.
Definition is_reg (o : operand) : bool := match o with OReg _ => true | _ => false end.

Record instr := {
  opcode : string; suffixes : list string;
  operands : list operand; inputs : list operand; outputs : list operand;
  is_terminal : bool; is_branch : bool; is_conditional : bool; cancelling : bool;
  isa : list string
}.
Inductive node := NLabel (l : string) | NComment (lines : list string) | NInstr (i : instr).

Definition instructions (ns : list node) : list instr :=
  flat_map (fun n => match n with NInstr i => [i] | _ => [] end) ns.

Definition is_unconditional_branch (i : instr) : bool := is_branch i && negb (is_conditional i).
Definition target_label (i : instr) : option string :=
  if is_branch i then match operands i with OLabel l :: _ => Some l | _ => None end else None.

Definition instr_registers (i : instr) : list reg := flat_map op_registers (operands i).

(* InputRegisters: Go indexes rs[0], rs[1] when CancellingInputs is set: fewer than two registers
   is an index-out-of-range panic (code 1) *)
Definition cancel_fix_marker := tt.
Definition input_registers_with (drop_all : bool) (i : instr) : res (list reg) :=
  let rs := flat_map op_registers (inputs i) in
  let memouts := flat_map (fun o => if is_mem o then op_registers o else []) (outputs i) in
  if cancelling i then
    match rs with
    | r0 :: r1 :: rest =>
        if reg_eqb r0 r1 then OK ((if drop_all then [] else rest) ++ memouts) else OK (rs ++ memouts)
    | _ => Panic 1
    end
  else OK (rs ++ memouts).
(* drop_all = true is the pinned tree (ir.InputRegisters: rs = []); false is rs = rs[2:] *)
Definition input_registers := input_registers_with false.
Definition output_registers (i : instr) : list reg :=
  flat_map (fun o => match o with OReg r => [r] | _ => [] end) (outputs i).

Definition ms_of_regs (rs : list reg) : MS := fold_left (fun s r => ms_add s (rid r) (rmask r)) rs ∅.

(* function under compilation *)
Record func := { fnodes : list node; fattrs : N; flocal : N }.
