(* C03/C20: the physical register file as data (translated from reg/x86.go on every run) and
   the lookups of reg/types.go. *)
From Avo Require Import Base.Prelude.
From stdpp Require Import gmap.
From Avo Require Import Base.MaskSet Model.IR.
Open Scope N_scope.

Record preg := { p_family : N;   (* Kind of the family it was registered in *)
                 p_id : N; p_kind : N; p_idx : N; p_mask : N; p_size : N; p_info : N;
                 p_name : string; p_tag : N }.
Definition regfile := list preg.
Definition InfoRestricted := 2. Definition InfoBasePointer := 4.   (* Restricted = 1<<iota with iota=1; BasePointer = 4 *)

Definition family (rf : regfile) (kind : N) : list preg := List.filter (fun p => p_family p =? kind) rf.
Definition family_exists (kind : N) : bool := kind <? 4.
(* Family.Lookup: first entry with equal physical index and equal mask *)
Definition family_lookup (rf : regfile) (kind idx mask : N) : option preg :=
  List.find (fun p => (p_idx p =? idx) && (p_mask p =? mask)) (family rf kind).
(* LookupID(id, spec) *)
Definition lookup_id (rf : regfile) (id mask : N) : option preg :=
  if id_is_virtual id then None
  else if family_exists (id_kind id) then family_lookup rf (id_kind id) (id_index id) mask else None.
Definition reg_of_preg (p : preg) : reg := {| rid := p_id p; rmask := p_mask p; rtag := p_tag p |}.
(* As8L..As64 / AsX..AsZ on a physical register return a fresh wrapper around the family entry,
   which Go's == distinguishes from the entry itself: tag + 1000 *)
Definition reg_of_preg_wrapped (p : preg) : reg := {| rid := p_id p; rmask := p_mask p; rtag := 1000 + p_tag p |}.
Definition preg_of_reg (rf : regfile) (r : reg) : option preg :=
  List.find (fun p => (p_id p =? rid r) && (p_mask p =? rmask r) && (p_tag p =? rtag r mod 1000)) rf.

(* register `as(spec)`: virtual keeps index/kind/wrapper and takes the new spec; physical looks the
   view up in its family (nil when the view does not exist) *)
Definition reg_as (rf : regfile) (r : reg) (mask : N) : option reg :=
  if reg_is_virtual r then Some {| rid := rid r; rmask := mask; rtag := rtag r |}
  else option_map reg_of_preg_wrapped (family_lookup rf (id_kind (rid r)) (id_index (rid r)) mask).

(* colours of a kind: IDs with at least one non-restricted view (NewAllocator's idset),
   sorted by priority (base pointer: -1, others 0) descending then by ID ascending *)
Definition is_bp_id (rf : regfile) (kind id : N) : bool :=
  existsb (fun p => (p_id p =? id) && negb (N.land (p_info p) InfoBasePointer =? 0)) (family rf kind).
Fixpoint insert_sorted (le : N -> N -> bool) (x : N) (l : list N) : list N :=
  match l with [] => [x] | y :: r => if le x y then x :: l else y :: insert_sorted le x r end.
Definition sort_by (le : N -> N -> bool) (l : list N) : list N := fold_right (insert_sorted le) [] l.
Definition colour_le (rf : regfile) (kind : N) (a b : N) : bool :=
  let pa := is_bp_id rf kind a in let pb := is_bp_id rf kind b in
  (* higher priority first: non-bp (0) before bp (-1); ties by ID *)
  if Bool.eqb pa pb then a <=? b else negb pa.
Fixpoint dedup_ids (l : list N) : list N :=
  match l with [] => [] | x :: r => if existsb (N.eqb x) r then dedup_ids r else x :: dedup_ids r end.
Definition colours (rf : regfile) (kind : N) : list N :=
  let ids := dedup_ids (List.map p_id (List.filter (fun p => N.land (p_info p) InfoRestricted =? 0) (family rf kind))) in
  sort_by (colour_le rf kind) ids.
