(* Boolean specifications evaluated on the implementation's own observations (spec_b):
   liveness exactness against path liveness (C02), allocation validity = translation validation
   of the allocator's output (C01, C03), frame-pointer rule (C15). *)
From Avo Require Import Base.Prelude.
From stdpp Require Import gmap.
From Avo Require Import Base.MaskSet Model.IR Model.RegFile Model.CFG Model.Liveness Model.Alloc Model.Cleanup Model.Pipeline Model.Obs.
Open Scope N_scope.

(* the reads the property text demands: every register of every input operand, address registers
   of memory outputs, minus exactly the two equal registers of a self-cancelling form *)
Definition spec_knobs := {| k_cancel_drop_all := false; k_label_check_pending := true; k_selfmove_fixed := true |}.
Definition reached_liveness (o : observed) : bool := (o_stage o =? 0) || (7 <? o_stage o).
Definition reached_alloc (o : observed) : bool := (o_stage o =? 0) || (8 <? o_stage o).
Definition spec_prog (o : observed) : res prog := mk_prog_k spec_knobs (instructions (o_after_zext o)) (o_succs o).

(* C02 *)
Definition live_ok (o : observed) : bool :=
  if reached_liveness o then
    match spec_prog o with
    | OK p => liveness_spec_b p (o_live o)
    | _ => true      (* the spec's own read set is undefined (cancelling form with < 2 registers) *)
    end
  else true.

(* C01/C03: allocation validity *)
Definition sigma (al : list (N * N)) (id : N) : N :=
  match List.find (fun e => fst e =? id) al with Some e => snd e | None => id end.
Definition alloc_functional (al : list (N * N)) : bool :=
  forallb (fun e => Nat.eqb (length (List.filter (fun e' => fst e' =? fst e) al)) 1) al.
(* every virtual operand register is mapped to an allocatable physical ID of its own kind *)
Definition alloc_total_kinds (rf : regfile) (al : list (N * N)) (is : list instr) : bool :=
  forallb (fun i => forallb (fun r =>
      negb (reg_is_virtual r) ||
      match List.find (fun e => fst e =? rid r) al with
      | Some e => negb (id_is_virtual (snd e)) && (id_kind (snd e) =? reg_kind r) && existsb (N.eqb (snd e)) (colours rf (reg_kind r))
      | None => false
      end) (instr_registers i)) is.
(* restricted registers are never colours: no view of a chosen ID carries the Restricted bit *)
Definition never_restricted (rf : regfile) (al : list (N * N)) : bool :=
  forallb (fun e => forallb (fun p => negb (p_id p =? snd e) || (N.land (p_info p) InfoRestricted =? 0)) rf) al.
(* binding: each register of the bound code is physical, the view (mask) is unchanged, the ID is
   sigma of the original ID, and physical registers are untouched *)
Definition bound_reg_ok (rf : regfile) (al : list (N * N)) (orig bound : reg) : bool :=
  if reg_is_virtual orig then
    negb (reg_is_virtual bound) && (rid bound =? sigma al (rid orig)) && (rmask bound =? rmask orig)
    && match preg_of_reg rf bound with Some _ => true | None => false end
  else reg_eqb orig bound.
Definition bound_operand_ok (rf : regfile) (al : list (N * N)) (orig bound : operand) : bool :=
  match orig, bound with
  | OReg a, OReg b => bound_reg_ok rf al a b
  | OMem b1 i1 s1 d1 y1 t1, OMem b2 i2 s2 d2 y2 t2 =>
      (match b1, b2 with Some a, Some b => bound_reg_ok rf al a b | None, None => true | _, _ => false end)
      && (match i1, i2 with Some a, Some b => bound_reg_ok rf al a b | None, None => true | _, _ => false end)
      && (s1 =? s2) && (d1 =? d2)%Z && String.eqb y1 y2 && Bool.eqb t1 t2
  | _, _ => operand_eqb orig bound
  end.
Fixpoint forallb2 {A B} (f : A -> B -> bool) (l1 : list A) (l2 : list B) : bool :=
  match l1, l2 with [], [] => true | x :: r, y :: s => f x y && forallb2 f r s | _, _ => false end.
Definition bound_instr_ok (rf : regfile) (al : list (N * N)) (a b : instr) : bool :=
  String.eqb (opcode a) (opcode b) && list_eqb String.eqb (suffixes a) (suffixes b)
  && forallb2 (bound_operand_ok rf al) (operands a) (operands b)
  && forallb2 (bound_operand_ok rf al) (inputs a) (inputs b)
  && forallb2 (bound_operand_ok rf al) (outputs a) (outputs b)
  && Bool.eqb (is_terminal a) (is_terminal b) && Bool.eqb (is_branch a) (is_branch b)
  && Bool.eqb (is_conditional a) (is_conditional b) && Bool.eqb (cancelling a) (cancelling b).
Definition bound_nodes_ok (rf : regfile) (al : list (N * N)) (a b : list node) : bool :=
  forallb2 (fun x y => match x, y with
                       | NInstr i, NInstr j => bound_instr_ok rf al i j
                       | _, _ => node_eqb x y end) a b.

(* no-clobber: a definition d of instruction j never lands on the bytes of a different register
   y that is live (by paths) after j.  live masks per id from path liveness. *)
Definition bits7 : list N := [0;1;2;3;4;5;6].
Definition live_after_mask (p : prog) (id : N) : list N :=   (* per instruction: mask of live-after classes of id *)
  let per_bit := List.map (fun k => live_after_b p id k) bits7 in
  List.map (fun j => fold_left (fun acc kb => if default false ((snd kb) !! j) then N.lor acc (N.shiftl 1 (fst kb)) else acc)
                               (List.combine bits7 per_bit) 0) (seq 0 (length p)).
Definition no_clobber (al : list (N * N)) (p : prog) (is : list instr) : bool :=
  let ids := dedup_N (prog_ids p) in
  let tables := List.map (fun id => (id, live_after_mask p id)) ids in
  forallb (fun ji =>
    forallb (fun d =>
      forallb (fun t =>
        (fst t =? rid d) || negb (sigma al (fst t) =? sigma al (rid d))
        || (N.land (rmask d) (List.nth (fst ji) (snd t) 0) =? 0)) tables)
      (output_registers (snd ji))) (index_list is).
(* "only reads bytes it has previously written": no virtual byte class live at entry *)
Definition no_virtual_live_in (p : prog) : bool :=
  forallb (fun id => negb (id_is_virtual id) ||
             forallb (fun k => negb (default false ((live_before_b p id k) !! 0%nat))) bits7) (dedup_N (prog_ids p)).
Definition masks_small (p : prog) : bool :=
  forallb (fun i => forallb (fun e => snd e <? 128) (map_to_list (iuse i) ++ map_to_list (idef i))) p.

Definition alloc_ok (rf : regfile) (o : observed) : bool :=
  if reached_alloc o then
    match spec_prog o with
    | OK p =>
        let is := instructions (o_after_zext o) in
        masks_small p && alloc_functional (o_alloc o) && alloc_total_kinds rf (o_alloc o) is
        && never_restricted rf (o_alloc o) && no_clobber (o_alloc o) p is
    | _ => true
    end
  else true.
(* after a successful VerifyAllocation the bound code is the substitution instance *)
Definition bind_ok (rf : regfile) (o : observed) : bool :=
  if (o_stage o =? 0) || (10 <? o_stage o) then bound_nodes_ok rf (o_alloc o) (o_after_zext o) (o_after_bind o) else true.

(* C15 *)
Definition bp_ok (rf : regfile) (attrs : N) (o : observed) : bool :=
  if (o_stage o =? 0) || (10 <? o_stage o) then
    let clob := clobbers_bp rf (instructions (o_after_bind o)) in
    if (o_stage o =? 11) then clob && negb (N.land attrs NOFRAME =? 0)       (* refused: must be a NOFRAME clobber *)
    else negb clob || ((N.land attrs NOFRAME =? 0) && negb (o_local o =? 0))
  else true.

Definition where_not (f : pcase -> bool) (cs : list pcase) : list N := indices_where_ (fun c => negb (f c)) cs.

(* C10: clean-up passes.  kept-flags of `a` relative to its subsequence `b` (greedy) *)
Fixpoint align (a b : list node) : option (list bool) :=
  match a with
  | [] => match b with [] => Some [] | _ => None end
  | x :: r =>
      match b with
      | y :: s => if node_eqb x y then option_map (cons true) (align r s) else option_map (cons false) (align r b)
      | [] => option_map (cons false) (align r [])
      end
  end.
Definition deleted_ok (justified : node -> list node -> bool) (a : list node) (kept : list bool) : bool :=
  (fix go a kept := match a, kept with
                    | x :: r, k :: ks => (k || justified x r) && go r ks
                    | [], [] => true
                    | _, _ => false
                    end) a kept.
(* index of the first surviving instruction at or after original instruction index i (None = end) *)
Definition instr_kept (a : list node) (kept : list bool) : list bool :=
  flat_map (fun p => match fst p with NInstr _ => [snd p] | _ => [] end) (List.combine a kept).
Fixpoint count_true (l : list bool) : nat := match l with [] => O | b :: r => (if b then 1 else 0) + count_true r end.
Definition landing (ik : list bool) (i : nat) : option nat :=
  (* number of kept instructions before i = index in the final list of the first survivor at/after i, if any *)
  if existsb (fun b => b) (List.skipn i ik) then Some (count_true (List.firstn i ik)) else None.
Definition label_target_spec (ns : list node) (l : string) : option nat :=
  match spec_target ns l with
  | Some t => if Nat.ltb t (ninstr ns) then Some t else None
  | None => None
  end.
Definition compose_kept (k1 k2 : list bool) : list bool :=   (* k2 is over the kept elements of k1 *)
  (fix go k1 k2 := match k1 with
                   | [] => []
                   | false :: r => false :: go r k2
                   | true :: r => match k2 with b :: s => b :: go r s | [] => false :: go r [] end
                   end) k1 k2.
(* when a later pass fails the two label-related clean-ups are still judged: what they deleted must be
   justified, and a function the CFG rules accept (C09: cfg_should_fail) must not be turned into one
   that LabelTarget or CFG (stages 4, 5) then refuse *)
Definition cleanup_early_ok (c : pcase) : bool :=
  let '(f, o) := c in
  if 3 <? o_stage o then
    match align (fnodes f) (o_after_jumps o), align (o_after_jumps o) (o_after_labels o) with
    | Some k1, Some k2 =>
        let refs := label_refs (o_after_jumps o) in
        deleted_ok (fun x r => match r with m :: _ => jump_to_next x m | [] => false end) (fnodes f) k1
        && deleted_ok (fun x _ => match x with NLabel l => negb (existsb (String.eqb l) refs) | _ => false end) (o_after_jumps o) k2
        && (cfg_should_fail (fnodes f) || negb ((o_stage o =? 4) || (o_stage o =? 5)))
    | _, _ => false
    end
  else true.
Definition cleanup_ok (c : pcase) : bool :=
  let '(f, o) := c in
  if negb (o_stage o =? 0) then cleanup_early_ok c else
  match align (fnodes f) (o_after_jumps o), align (o_after_jumps o) (o_after_labels o), align (o_after_bind o) (o_nodes o) with
  | Some k1, Some k2, Some k3 =>
      let refs := label_refs (o_after_jumps o) in
      deleted_ok (fun x r => match r with m :: _ => jump_to_next x m | [] => false end) (fnodes f) k1
      && deleted_ok (fun x _ => match x with NLabel l => negb (existsb (String.eqb l) refs) | _ => false end) (o_after_jumps o) k2
      && deleted_ok (fun x _ => match x with NInstr i => move_is_architectural_noop i | _ => false end) (o_after_bind o) k3
      && Nat.eqb (length (o_after_labels o)) (length (o_after_bind o))
      && (* every remaining branch lands on the image of its original target *)
         let kall := compose_kept (compose_kept k1 k2) k3 in
         let ik := instr_kept (fnodes f) kall in
         forallb (fun n => match n with
                           | NInstr i => if is_branch i then
                                           match target_label i with
                                           | Some l => match label_target_spec (fnodes f) l with
                                                       | Some t => option_eqb Nat.eqb (label_target_spec (o_nodes o) l) (landing ik t)
                                                       | None => false
                                                       end
                                           | None => true
                                           end
                                         else true
                           | _ => true end) (o_nodes o)
  | _, _, _ => false
  end.

(* the graph liveness and allocation were computed on is the graph of the function at that point
   (C09's specification on the nodes left by the two label clean-ups) *)
Definition cfg_obs_ok (c : pcase) : bool :=
  let o := snd c in
  if (o_stage o =? 0) || (5 <? o_stage o)
  then cfg_spec_b (o_after_labels o) (CfgOK (o_succs o) (o_preds o)) || negb (forallb opcode_flags_ok (instructions (o_after_labels o)))
  else true.

(* C01: the proved validator (Proofs/SimValidator.v) on the implementation's allocation: liveness is
   recomputed by the (proved exact) model over the reads/writes the property text demands, and no
   definition may land on the storage of another value that is live after it *)
From Avo Require Import Model.Sem Proofs.SimLink Proofs.SimValidator Proofs.AllocCorrect Proofs.AllocSim Model.Cert.
Definition prog_regs_of (o : observed) : option prog_regs_t :=
  (fix go (is : list instr) (ss : list (list (option nat))) : option prog_regs_t :=
     match is, ss with
     | i :: r, s :: rs => match input_registers_with false i, go r rs with
                          | OK u, Some rest => Some ((u, output_registers i, s) :: rest)
                          | _, _ => None end
     | _, _ => Some []
     end) (instructions (o_after_zext o)) (o_succs o).
Definition sim_ok (o : observed) : bool :=
  if reached_alloc o then match prog_regs_of o with Some pr => allocation_valid (o_alloc o) pr | None => true end else true.

(* hypothesis of model_allocation_preserves_semantics, evaluated on the implementation's instructions
   (after zero-extension): a virtual register an instruction reads or writes is one of its operands *)
Definition discipline_ok (o : observed) : bool :=
  if reached_alloc o then virt_in_operands_b (instructions (o_after_zext o)) else true.

(* the real pass.Compile (whatever order pass/pass.go lists the passes in) run end to end on the same
   program: error code, allocation, final nodes.  Its allocation must be valid for the program the
   passes are meant to compile (the staged run's instructions after zero-extension, with their
   successors), and its result must be the staged result. *)
Definition e2e_t := (N * list (N * N) * list node * N)%type.   (* error code, allocation, final nodes, LocalSize *)
Definition e2e_alloc_ok (ce : pcase * e2e_t) : bool :=
  let o := snd (fst ce) in let '(err, al, ns, loc) := snd ce in
  if (err =? 0) && reached_alloc o then match prog_regs_of o with Some pr => allocation_valid al pr | None => true end else true.
(* what the real pass.Compile deleted from the bound code (any clean-up it runs after binding, whatever
   its name): the final nodes are the bound nodes of the staged run minus instructions whose execution has
   no architectural effect; only judged when both runs succeeded and allocated alike *)
Definition e2e_cleanup_ok (ce : pcase * e2e_t) : bool :=
  let o := snd (fst ce) in let '(err, al, ns, loc) := snd ce in
  if (err =? 0) && (o_stage o =? 0) && list_eqb (fun a b => (fst a =? fst b) && (snd a =? snd b)) al (o_alloc o) then
    match align (o_after_bind o) ns with
    | Some k => deleted_ok (fun x _ => match x with NInstr i => move_is_architectural_noop i | _ => false end) (o_after_bind o) k
    | None => false
    end
  else true.
(* AT SCALE (functions of hundreds of instructions): the live sets the implementation computed are used
   as a certificate (Model/Cert.v).  They must be closed under the dataflow inclusions over the reads,
   writes and successors of the instructions (so nothing that can still be read is missing), and no
   definition may land on storage one of them says is live after it; by certified_allocation_preserves
   (Proofs/SimCert.v) the allocated code then simulates the original.  Class, totality and restricted
   registers are checked as for small functions. *)
Definition st_of_obs (l : obs) : st := List.map (fun x => {| lin := ms_of_list (fst x); lout := ms_of_list (snd x) |}) l.
Definition cert_live_ok (o : observed) : bool :=
  if reached_liveness o then match prog_regs_of o with Some pr => closed_b (p pr) (st_of_obs (o_live o)) | None => true end else true.
(* the other half on large functions: with the harness's rank certificate, nothing is reported live that no
   path reads (Proofs/LiveCert.v: closed + supported = exactly path liveness) *)
Definition cert_exact_ok (rks : list rank_t) (o : observed) : bool :=
  if reached_liveness o then match prog_regs_of o with Some pr => supported_b (p pr) (st_of_obs (o_live o)) rks | None => true end else true.
Definition cert_alloc_ok (rf : regfile) (o : observed) : bool :=
  if reached_alloc o then
    match prog_regs_of o with
    | Some pr => let is := instructions (o_after_zext o) in
                 alloc_functional (o_alloc o) && alloc_total_kinds rf (o_alloc o) is && never_restricted rf (o_alloc o)
                 && no_clobber_model (o_alloc o) (st_of_obs (o_live o)) pr
    | None => true
    end
  else true.
(* the 32-bit-write widening pass on its own (cheap at any size): every instruction after the pass is the
   model's widening of the instruction before it *)
Definition zext_ok (rf : regfile) (o : observed) : bool :=
  if (o_stage o =? 0) || (6 <? o_stage o) then
    match map_res (zero_extend_instr rf) (instructions (o_after_labels o)) with
    | OK is2 => list_eqb instr_eqb is2 (instructions (o_after_zext o))
    | _ => false
    end
  else true.
Definition e2e_cert_ok (ce : pcase * e2e_t) : bool :=
  let o := snd (fst ce) in let '(err, al, ns, loc) := snd ce in
  if (err =? 0) && reached_alloc o then
    match prog_regs_of o with Some pr => closed_b (p pr) (st_of_obs (o_live o)) && no_clobber_model al (st_of_obs (o_live o)) pr | None => true end
  else true.
Definition pairN_eqb (a b : N * N) : bool := (fst a =? fst b) && (snd a =? snd b).
Definition e2e_same (ce : pcase * e2e_t) : bool :=
  let o := snd (fst ce) in let '(err, al, ns, loc) := snd ce in
  (err =? o_err o) && (if err =? 0 then nodes_eqb ns (o_nodes o) && list_eqb pairN_eqb al (o_alloc o) && (loc =? o_local o) else true).
(* C15 on the end-to-end result: a function whose final code writes the base pointer has a frame and is not NOFRAME *)
Definition e2e_bp_ok (rf : regfile) (ce : pcase * e2e_t) : bool :=
  let '(err, al, ns, loc) := snd ce in
  if err =? 0 then negb (clobbers_bp rf (instructions ns)) || ((N.land (fattrs (fst (fst ce))) NOFRAME =? 0) && negb (loc =? 0)) else true.
Definition where_not2 (f : pcase * e2e_t -> bool) (cs : list pcase) (es : list e2e_t) : list N :=
  idx_where (fun c => negb (f c)) (List.combine cs es).

(* after a successful pass.Compile no virtual register remains anywhere in an instruction: not among
   the operands and not in the read/write sets the later passes (and users) consult *)
Definition instr_all_regs (i : instr) : list reg :=
  flat_map op_registers (operands i) ++ flat_map op_registers (inputs i) ++ flat_map op_registers (outputs i).
Definition e2e_phys_ok (ce : pcase * e2e_t) : bool :=
  let '(err, al, ns, loc) := snd ce in
  if err =? 0 then forallb (fun i => forallb (fun r => negb (reg_is_virtual r)) (instr_all_regs i)) (instructions ns) else true.
