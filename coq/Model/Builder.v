(* C18: build.Context as a state machine over builder calls (build/context.go, pseudo.go,
   zinstructions.go addinstruction, error.go) and build.Main (cli.go). *)
From Avo Require Import Base.Prelude Base.Str Model.Data Model.Layout.
Open Scope Z_scope.

Inductive comp_outcome := CompOK | CompUnknown | CompNonPrimitive | CompNoMov.
(* outcome of Load(component reached by a chain of steps, 64-bit GP register) for a parameter of type t
   whose leaves are integer kinds: decided by the component algebra of Model/Layout.v (C07) *)
Definition path_outcome (t : ty) (p : list step) : comp_outcome :=
  match resolve (apply_path true (param_comp "v" 0 t) p) with Some _ => CompOK | None => CompUnknown end.

Inductive bop :=
| BFunction
| BAttributes | BDoc | BPragma | BSignature (ok : bool)
| BInstr (ok : bool)                 (* constructor accepts / rejects its operands *)
| BLabel | BComment | BAllocLocal
| BLoad (o : comp_outcome) | BStore (o : comp_outcome)
| BParamLookup                       (* Param/Return/ParamIndex alone: only touches the active function *)
| BConstraints (ok : bool)
| BStaticGlobal | BDataAttributes
| BAddDatum (off : Z) (size : Z) | BAppendDatum (size : Z).

Record bstate := { b_func : bool; b_global : option global; b_errs : nat; b_instrs : nat }.
Definition b_init := {| b_func := false; b_global := None; b_errs := 0; b_instrs := 0 |}.

Definition add_errs (s : bstate) (n : nat) : bstate :=
  {| b_func := b_func s; b_global := b_global s; b_errs := b_errs s + n; b_instrs := b_instrs s |}.
(* activefunc(): without an active function an error is recorded and a throw-away function is used *)
Definition need_func (s : bstate) : bstate := if b_func s then s else add_errs s 1.
Definition need_global (s : bstate) : bstate := match b_global s with Some _ => s | None => add_errs s 1 end.
Definition str_const (n : Z) : const := CStr (List.repeat 0%N (Z.to_nat n)).

Definition b_step (s : bstate) (o : bop) : bstate :=
  match o with
  | BFunction => {| b_func := true; b_global := b_global s; b_errs := b_errs s; b_instrs := b_instrs s |}
  | BAttributes | BDoc | BPragma | BLabel | BComment | BAllocLocal | BParamLookup => need_func s
  | BSignature ok => if ok then need_func s else add_errs s 1          (* a bad expression is reported before the function is touched *)
  | BInstr ok => if ok then let s' := need_func s in
                            {| b_func := b_func s'; b_global := b_global s'; b_errs := b_errs s'; b_instrs := b_instrs s' + (if b_func s then 1 else 0) |}
                 else add_errs s 1
  | BLoad oc | BStore oc =>
      (* the component expression touches the active function first; with no active function the
         throw-away function has a void signature, so the lookup fails as well *)
      let s' := need_func s in
      if negb (b_func s) then add_errs s' 1
      else match oc with
           | CompOK => {| b_func := b_func s'; b_global := b_global s'; b_errs := b_errs s'; b_instrs := b_instrs s' + 1 |}
           | CompUnknown | CompNonPrimitive | CompNoMov => add_errs s' 1
           end
  | BConstraints ok => if ok then s else add_errs s 1
  | BStaticGlobal => {| b_func := b_func s; b_global := Some g_empty; b_errs := b_errs s; b_instrs := b_instrs s |}
  | BDataAttributes => need_global s
  | BAddDatum off n =>
      match b_global s with
      | Some g => let '(g', e) := g_step g (GAdd off (str_const n)) in
                  {| b_func := b_func s; b_global := Some g'; b_errs := b_errs s + (if e then 1 else 0); b_instrs := b_instrs s |}
      | None => add_errs s 1     (* "no active global"; the datum goes to a throw-away section and cannot overlap *)
      end
  | BAppendDatum n =>
      match b_global s with
      | Some g => {| b_func := b_func s; b_global := Some (fst (g_step g (GAppend (str_const n)))); b_errs := b_errs s; b_instrs := b_instrs s |}
      | None => add_errs s 1
      end
  end.
Definition b_run (h : list bop) : bstate := fold_left b_step h b_init.

(* build.Main: any builder error -> log (at most MaxErrors lines + "too many errors"), status 1,
   no pass runs.  Otherwise the passes run in order (Compile first, printers after); the first
   failing pass stops the chain with status 1. *)
Definition main_status (errs : nat) (compile_ok : bool) : nat * bool :=   (* status, printers ran *)
  if Nat.ltb 0 errs then (1%nat, false) else if compile_ok then (0%nat, true) else (1%nat, false).
Definition logged_lines (errs mx : nat) : nat :=
  if Nat.eqb mx 0 then errs else if Nat.leb errs mx then errs else S mx.

(* is the op a builder-time fault in the given state? (the specification's notion) *)
Definition is_fault (s : bstate) (o : bop) : bool :=
  match o with
  | BFunction | BStaticGlobal => false
  | BConstraints ok => negb ok
  | BSignature ok => negb ok || negb (b_func s)
  | BInstr ok => negb ok || negb (b_func s)
  | BLoad oc | BStore oc => negb (b_func s) || match oc with CompOK => false | _ => true end
  | BAttributes | BDoc | BPragma | BLabel | BComment | BAllocLocal | BParamLookup => negb (b_func s)
  | BDataAttributes | BAppendDatum _ => match b_global s with None => true | Some _ => false end
  | BAddDatum off n => match b_global s with
                       | None => true
                       | Some g => existsb (overlaps {| d_off := off; d_val := str_const n |}) (g_data g)
                       end
  end.
Fixpoint count_faults (s : bstate) (h : list bop) : nat :=
  match h with [] => O | o :: r => (if is_fault s o then 1 else 0) + count_faults (b_step s o) r end.

(* cases: history, observed number of errors in Context.Result(), observed number of instructions
   in all functions, Main status, whether the recording printer ran, panicked *)
Definition build_case := (list bop * list nat * nat * nat * nat * bool * bool)%type.   (* ops, error count after each op, ... *)
Fixpoint faults_flagged (s : bstate) (h : list bop) (prev : nat) (after : list nat) : bool :=
  match h, after with
  | [], [] => true
  | o :: r, a :: ar => Bool.eqb (is_fault s o) (Nat.ltb prev a) && faults_flagged (b_step s o) r a ar
  | _, _ => false
  end.
Definition builder_agree (c : build_case) : bool :=
  let '(h, after, errs, instrs, status, printed, panicked) := c in
  let s := b_run h in
  negb panicked && Nat.eqb (b_errs s) errs && Nat.eqb (b_instrs s) instrs.
(* the property on the implementation's outcome *)
Definition builder_impl_ok (c : build_case) : bool :=
  let '(h, after, errs, instrs, status, printed, panicked) := c in
  let nf := count_faults b_init h in
  negb panicked
  && faults_flagged b_init h 0 after                        (* each builder-time fault, and only a fault, adds an error message *)
  && (Nat.leb nf errs)
  && Bool.eqb (Nat.eqb nf 0) (Nat.eqb errs 0)                 (* only valid requests: no error *)
  && (Nat.eqb errs 0 || (negb (Nat.eqb status 0) && negb printed)).   (* failure: non-zero status, no printer *)
