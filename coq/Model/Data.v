(* C13: ir.Global / Datum (ir/ir.go), constant rendering (operand/zconst.go) and the DATA/GLOBL
   lines of printer/goasm.go; environment model: how the assembler turns DATA lines into bytes
   (cmd/asm asmData: value parsed, low n bytes written little-endian at the offset; offsets must
   be monotone per symbol). *)
From Avo Require Import Base.Prelude Base.Str.
Open Scope string_scope.
Open Scope Z_scope.

Inductive const :=
| CInt (n : N) (signed : bool) (v : Z)     (* I8..I64 / U8..U64: n bytes *)
| CF32 (bits : N) | CF64 (bits : N)         (* IEEE bit patterns *)
| CStr (bytes : list N).
Definition const_size (c : const) : Z :=
  match c with CInt n _ _ => Z.of_N n | CF32 _ => 4 | CF64 _ => 8 | CStr b => Z.of_nat (List.length b) end.

Record datum := { d_off : Z; d_val : const }.
Record global := { g_data : list datum; g_size : Z }.
Definition g_empty := {| g_data := []; g_size := 0 |}.

Definition interval (d : datum) : Z * Z := (d_off d, d_off d + const_size (d_val d)).
Definition overlaps (d o : datum) : bool :=
  let '(s, e) := interval d in let '(so, eo) := interval o in negb ((eo <=? s) || (e <=? so)).
Definition g_add (g : global) (d : datum) : global :=
  {| g_data := app (g_data g) [d]; g_size := Z.max (g_size g) (snd (interval d)) |}.
Inductive gop := GAdd (off : Z) (c : const) | GAppend (c : const).
(* returns the new global and whether an error was reported *)
Definition g_step (g : global) (o : gop) : global * bool :=
  match o with
  | GAdd off c => let d := {| d_off := off; d_val := c |} in
                  if existsb (overlaps d) (g_data g) then (g, true) else (g_add g d, false)
  | GAppend c => (g_add g {| d_off := g_size g; d_val := c |}, false)
  end.
Definition g_run (ops : list gop) : global * list bool :=
  fold_left (fun acc o => let '(g', e) := g_step (fst acc) o in (g', app (snd acc) [e])) ops (g_empty, []).

(* ---------------------------------------------------------------- rendering *)
Definition hex_digit (d : N) : ascii := if (d <? 10)%N then ascii_of_N (48 + d) else ascii_of_N (87 + d).
Fixpoint hex_fixed (w : nat) (n : N) : string :=
  match w with O => "" | S k => String (hex_digit ((n / 16 ^ N.of_nat k) mod 16)%N) (hex_fixed k n) end.
Definition int_text (n : N) (signed : bool) (v : Z) : string :=
  if signed then "$" ++ dec_of_Z_plus v
  else "$0x" ++ hex_fixed (2 * N.to_nat n) (Z.to_N v).
Definition data_addr (sym : string) (static : bool) (off : Z) : string :=
  sym ++ (if static then "<>" else "") ++ dec_of_Z_plus off ++ "(SB)".
(* "DATA sym<>+off(SB)/n, " prefix of every data line; integer constants also have a modelled value text *)
Definition data_prefix (sym : string) (static : bool) (d : datum) : string :=
  "DATA " ++ data_addr sym static (d_off d) ++ "/" ++ dec_of_Z (const_size (d_val d)) ++ ", ".

(* ---------------------------------------------------------------- assembler environment *)
Definition hex_val (c : ascii) : option N :=
  let n := N_of_ascii c in
  if ((48 <=? n) && (n <=? 57))%N then Some (n - 48)%N
  else if ((97 <=? n) && (n <=? 102))%N then Some (n - 87)%N
  else if ((65 <=? n) && (n <=? 70))%N then Some (n - 55)%N else None.
Fixpoint parse_hex_acc (s : string) (acc : N) : option N :=
  match s with
  | "" => Some acc
  | String c r => match hex_val c with Some d => parse_hex_acc r (acc * 16 + d)%N | None => None end
  end.
Definition parse_int_text (t : string) : option Z :=
  match t with
  | String "$" (String "0" (String "x" r)) => match r with "" => None | _ => option_map Z.of_N (parse_hex_acc r 0%N) end
  | String "$" r => parse_Z r
  | _ => None
  end.
(* byte i (little-endian) of the low n bytes of v, two's complement *)
Definition le_byte (v : Z) (i : Z) : Z := (v / 2 ^ (8 * i)) mod 256.
Definition const_byte (c : const) (i : Z) : Z :=
  match c with
  | CInt _ _ v => le_byte v i
  | CF32 b | CF64 b => le_byte (Z.of_N b) i
  | CStr bs => Z.of_N (List.nth (Z.to_nat i) bs 0%N)
  end.
(* the image the linker sees: size and byte at every offset; data written in order, each writes
   its bytes at its interval (later writes win) *)
Definition write_datum (d : datum) (img : Z -> Z) : Z -> Z :=
  fun a => if (d_off d <=? a) && (a <? d_off d + const_size (d_val d)) then const_byte (d_val d) (a - d_off d) else img a.
Definition image_of (ds : list datum) : Z -> Z := fold_left (fun img d => write_datum d img) ds (fun _ => 0).
(* monotonicity demanded by asmData: each entry starts at or after the end of the previous one *)
Fixpoint asm_monotone (last : Z) (ds : list datum) : bool :=
  match ds with [] => true | d :: r => (last <=? d_off d) && asm_monotone (d_off d + const_size (d_val d)) r end.

(* the specification of the image: the byte of the unique accepted datum covering a, else 0 *)
Definition spec_byte (ds : list datum) (a : Z) : Z :=
  match List.find (fun d => (d_off d <=? a) && (a <? d_off d + const_size (d_val d))) ds with
  | Some d => const_byte (d_val d) (a - d_off d)
  | None => 0
  end.
Definition spec_size (ds : list datum) : Z := fold_left (fun m d => Z.max m (snd (interval d))) ds 0.

(* printing order (after "fix: print DATA entries in offset order"): stable sort by (offset, end) *)
Definition datum_le (a b : datum) : bool :=
  (d_off a <? d_off b) || ((d_off a =? d_off b) && (snd (interval a) <=? snd (interval b))).
Fixpoint insert_datum (x : datum) (l : list datum) : list datum :=
  match l with [] => [x] | y :: r => if datum_le y x then y :: insert_datum x r else x :: l end.
Definition sort_data (l : list datum) : list datum := fold_left (fun acc x => insert_datum x acc) l [].
Definition printed_data (sorted : bool) (g : global) : list datum := if sorted then sort_data (g_data g) else g_data g.

(* ---------------------------------------------------------------- cases *)
(* observation: per-op error flags, final (offset, size-in-bytes) list in insertion order, final
   Size, and for each printed DATA line (in printed order): its (offset, size) as read off the
   line by the harness, the text up to and including ", ", and the value text *)
Definition data_case := (list gop * list bool * list (Z * Z) * Z * list (Z * Z * string * string))%type.
Definition ln_prefix (l : Z * Z * string * string) := snd (fst l).
Definition ln_value (l : Z * Z * string * string) := snd l.
Definition ln_off (l : Z * Z * string * string) := fst (fst (fst l)).
Definition ln_size (l : Z * Z * string * string) := snd (fst (fst l)).
Definition data_agree_with (sorted : bool) (sym : string) (c : data_case) : bool :=
  let '(ops, errs, layout, size, lines) := c in
  let '(g, e) := g_run ops in
  list_eqb Bool.eqb e errs
  && list_eqb (fun a b => (fst a =? fst b) && (snd a =? snd b)) (List.map (fun d => (d_off d, const_size (d_val d))) (g_data g)) layout
  && (g_size g =? size)
  && list_eqb String.eqb (List.map (data_prefix sym true) (printed_data sorted g)) (List.map ln_prefix lines)
  && forallb (fun dl => match d_val (fst dl) with
                        | CInt n s v => String.eqb (int_text n s v) (ln_value (snd dl))
                        | _ => true end) (List.combine (printed_data sorted g) lines).
Definition data_agree := data_agree_with true.
Fixpoint pairwise_d (f : datum -> datum -> bool) (l : list datum) : bool :=
  match l with [] => true | x :: r => forallb (f x) r && pairwise_d f r end.
Definition bytes_eq (n : Z) (v w : Z) : bool := (v mod 2 ^ (8 * n) =? w mod 2 ^ (8 * n)).
Definition accepted_of (ops : list gop) (errs : list bool) (layout : list (Z * Z)) : list datum :=
  let acc := List.map fst (List.filter (fun p => negb (snd p)) (List.combine ops errs)) in
  List.map (fun p => {| d_off := fst (snd p); d_val := match fst p with GAdd _ c => c | GAppend c => c end |}) (List.combine acc layout).
(* spec on the implementation's output: accepted data pairwise disjoint; Size = furthest extent;
   the printed lines are exactly the accepted data, each once, in an order the assembler accepts
   (monotone offsets); every integer line's value text parses, as the assembler reads it, to a
   value with the constant's little-endian bytes *)
Fixpoint remove_first (f : datum -> bool) (l : list datum) : option (datum * list datum) :=
  match l with
  | [] => None
  | x :: r => if f x then Some (x, r) else option_map (fun p => (fst p, x :: snd p)) (remove_first f r)
  end.
Fixpoint lines_match (ds : list datum) (lines : list (Z * Z * string * string)) : bool :=
  match lines with
  | [] => match ds with [] => true | _ => false end
  | l :: r =>
      match remove_first (fun d => (d_off d =? ln_off l) && (const_size (d_val d) =? ln_size l)
                                   && match d_val d with
                                      | CInt n _ v => match parse_int_text (ln_value l) with Some w => bytes_eq (Z.of_N n) v w | None => false end
                                      | _ => true end) ds with
      | Some (_, ds') => lines_match ds' r
      | None => false
      end
  end.
Definition data_impl_ok (c : data_case) : bool :=
  let '(ops, errs, layout, size, lines) := c in
  let ds := accepted_of ops errs layout in
  Nat.eqb (List.length ds) (List.length layout) && Nat.eqb (List.length ops) (List.length errs)
  && pairwise_d (fun a b => negb (overlaps a b)) ds
  && (spec_size ds =? size)
  && lines_match ds lines
  && asm_monotone 0 (List.map (fun l => {| d_off := ln_off l; d_val := CStr (List.repeat 0%N (Z.to_nat (ln_size l))) |}) lines).
(* placement semantics on the implementation's outcome: replaying the ops against the accepted
   prefix, an AddDatum is rejected exactly when it overlaps; appended data start at the size *)
Fixpoint replay_ok (ops : list gop) (errs : list bool) (layout : list (Z * Z)) (ds : list datum) (size : Z) : bool :=
  match ops, errs with
  | [], [] => match layout with [] => true | _ => false end
  | o :: r, e :: es =>
      match o with
      | GAdd off c =>
          let d := {| d_off := off; d_val := c |} in
          if existsb (overlaps d) ds then e && replay_ok r es layout ds size
          else negb e && match layout with
                         | (o', n') :: l' => (o' =? off) && (n' =? const_size c) && replay_ok r es l' (app ds [d]) (Z.max size (off + const_size c))
                         | [] => false end
      | GAppend c =>
          negb e && match layout with
                    | (o', n') :: l' => (o' =? size) && (n' =? const_size c) && replay_ok r es l' (app ds [{| d_off := size; d_val := c |}]) (size + const_size c)
                    | [] => false end
      end
  | _, _ => false
  end.
Definition data_replay_ok (c : data_case) : bool :=
  let '(ops, errs, layout, size, lines) := c in replay_ok ops errs layout [] 0.

(* the symbol name is recovered from the first printed line ("DATA <sym><>+..."): cases use g<k> *)
Definition sym_of (c : data_case) : string :=
  let '(ops, errs, layout, size, lines) := c in
  match lines with
  | l :: _ => (fix upto (s : string) : string := match s with
                      | String "<" _ => "" | String a r => String a (upto r) | "" => "" end)
                   (match ln_prefix l with String _ (String _ (String _ (String _ (String _ r)))) => r | _ => "" end)
  | [] => "g"
  end.
