(* C20: reg.Collection (reg/collection.go) hands out virtual registers: one counter per kind, the
   counter is a Go uint16 (reg.Index) and wraps. *)
From Avo Require Import Base.Prelude.
From Avo Require Import Model.IR.
Open Scope N_scope.

Definition coll := list (N * N).          (* kind -> next index; absent = 0 *)
Fixpoint c_get (c : coll) (k : N) : N := match c with [] => 0 | (k', i) :: r => if k' =? k then i else c_get r k end.
Fixpoint c_set (c : coll) (k i : N) : coll :=
  match c with [] => [(k, i)] | (k', j) :: r => if k' =? k then (k', i) :: r else (k', j) :: c_set r k i end.
Definition draw (c : coll) (k : N) : N * coll :=
  let i := c_get c k in (mk_id 1 k i, c_set c k ((i + 1) mod 65536)).
Fixpoint draws (c : coll) (ks : list N) : list N * coll :=
  match ks with
  | [] => ([], c)
  | k :: r => let '(id, c1) := draw c k in let '(ids, c2) := draws c1 r in (id :: ids, c2)
  end.

(* observation of a run of the real Collection: requested (kind, spec mask) and the register returned *)
Definition coll_case := list (N * N * reg).
Fixpoint has_dup_N (l : list N) : bool := match l with [] => false | x :: r => existsb (N.eqb x) r || has_dup_N r end.
Definition coll_impl_ok (c : coll_case) : bool :=
  negb (has_dup_N (List.map (fun x => rid (snd x)) c)) &&
  forallb (fun x : N * N * reg => let '(k, m, r) := x in id_is_virtual (rid r) && (id_kind (rid r) =? k) && (rmask r =? m)) c.
Definition coll_agree (c : coll_case) : bool :=
  list_eqb N.eqb (fst (draws [] (List.map (fun x => fst (fst x)) c))) (List.map (fun x => rid (snd x)) c).
