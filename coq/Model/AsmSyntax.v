(* C05/C11: how avo renders operands (operand/types.go, operand/zconst.go, reg names) *)
From Avo Require Import Base.Prelude Base.Str.
From stdpp Require Import gmap.
From Avo Require Import Base.MaskSet Model.IR Model.RegFile Model.Data.
Open Scope string_scope.
Open Scope N_scope.

Definition virtual_name (r : reg) : string :=
  "<virtual:" ++ dec_of_N (id_index (rid r)) ++ ":" ++ dec_of_N (id_kind (rid r)) ++ ":" ++ dec_of_N (IR.spec_size (rmask r)) ++ ">".
Definition render_reg (rf : regfile) (r : reg) : string :=
  if reg_is_virtual r then virtual_name r
  else match preg_of_reg rf r with Some p => p_name p | None => "<unknown register>" end.
Definition render_mem (rf : regfile) (b i : option reg) (scale : N) (disp : Z) (sym : string) (static : bool) : string :=
  let s := sym ++ (if static then "<>" else "") in
  (if negb (String.eqb s "") then s ++ dec_of_Z_plus disp else if negb (disp =? 0)%Z then dec_of_Z disp else "")
  ++ (match b with Some r => "(" ++ render_reg rf r ++ ")" | None => "" end)
  ++ (match i with Some r => if negb (scale =? 0) then "(" ++ render_reg rf r ++ "*" ++ dec_of_N scale ++ ")" else "" | None => "" end).
Definition render_operand (rf : regfile) (o : operand) : string :=
  match o with
  | OReg r => render_reg rf r
  | OMem b i s d y t => render_mem rf b i s d y t
  | OImm n sg v => int_text n sg v
  | OOther t => t
  | ORel r => "." ++ dec_of_Z_plus r
  | OLabel l => l
  end.
(* an instruction line body: opcode with dot-joined suffixes; operands joined by ", " *)
Definition opcode_with_suffixes (i : instr) : string := opcode i ++ String.concat "" (List.map (fun s => "." ++ s) (suffixes i)).
Definition join_operands (rf : regfile) (ops : list operand) : string := Str.join ", " (List.map (render_operand rf) ops).

Definition render_case := (operand * string)%type.
Definition render_agree (rf : regfile) (c : render_case) : bool := String.eqb (render_operand rf (fst c)) (snd c).
(* constants survive the text: the assembler's reading of the literal denotes the same bytes *)
Definition imm_text_ok (c : render_case) : bool :=
  match fst c with
  | OImm n sg v => match parse_int_text (snd c) with Some w => bytes_eq (Z.of_N n) v w | None => false end
  | _ => true
  end.
