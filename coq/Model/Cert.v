(* C01/C03 at scale: a liveness CERTIFICATE.  The literal model of pass.Liveness and the path-based
   decision procedure are too slow to evaluate inside Coq on functions of hundreds of instructions; for
   those the harness supplies live sets (computed by any means) and Coq only checks that they are closed
   under the three dataflow inclusions.  Closed sets over-approximate what can still be read, which is
   all the allocation theorem needs (Proofs/SimCert.v). *)
From Avo Require Import Base.Prelude.
From stdpp Require Import gmap.
From Avo Require Import Base.MaskSet Model.IR Model.Liveness.
Open Scope N_scope.

Definition sub_ms (a b : MS) : bool := forallb (fun e : N * N => N.land (get b (fst e)) (snd e) =? snd e) (ms_elements a).

Definition closed_at (p : prog) (r : st) (j : nat) (i : ins) : bool :=
  sub_ms (iuse i) (nth_in r j)
  && sub_ms (ms_diff (nth_out r j) (idef i)) (nth_in r j)
  && forallb (fun o => match o with Some s => sub_ms (nth_in r s) (nth_out r j) | None => true end) (isucc i).
Definition closed_b (p : prog) (r : st) : bool :=
  Nat.eqb (List.length r) (List.length p) && forallb (fun ji : nat * ins => closed_at p r (fst ji) (snd ji)) (index_list p).

(* C02 at scale: exactness.  A closed family of sets may still report a byte live that no path reads (a
   value carried around a loop supports itself).  To certify that nothing of that kind is reported, the
   harness supplies, for every instruction and every byte class live before it, a RANK: the number of
   steps to a read along some write-free path.  Coq checks the ranks locally — rank holders either read
   the byte themselves or pass it, unwritten, to a successor where it is live with a smaller rank — and
   that every byte live after an instruction is live before one of its successors. *)
Definition rank_t := list (N * N * N).   (* (id, bit, rank) *)
Definition rank_of (rk : rank_t) (id k : N) : option N :=
  match List.find (fun e : N * N * N => (fst (fst e) =? id) && (snd (fst e) =? k)) rk with Some e => Some (snd e) | None => None end.
Definition ranks_at (rks : list rank_t) (j : nat) : rank_t := default [] (rks !! j).
Definition bits_of_ms (s : MS) : list (N * N) :=
  flat_map (fun e : N * N => List.map (fun b => (fst e, b)) (List.filter (N.testbit (snd e)) (bits_of (snd e)))) (ms_elements s).
Definition supported_at (r : st) (rks : list rank_t) (j : nat) (i : ins) : bool :=
  forallb (fun idk : N * N => let '(id, k) := idk in
     match rank_of (ranks_at rks j) id k with
     | None => false
     | Some n => mem (iuse i) id k
                 || (negb (mem (idef i) id k)
                     && existsb (fun o => match o with
                                          | Some j' => mem (nth_in r j') id k
                                                       && match rank_of (ranks_at rks j') id k with Some n' => n' <? n | None => false end
                                          | None => false end) (isucc i))
     end) (bits_of_ms (nth_in r j))
  && forallb (fun idk : N * N => let '(id, k) := idk in
       existsb (fun o => match o with Some j' => mem (nth_in r j') id k | None => false end) (isucc i)) (bits_of_ms (nth_out r j)).
Definition supported_b (p : prog) (r : st) (rks : list rank_t) : bool :=
  forallb (fun ji : nat * ins => supported_at r rks (fst ji) (snd ji)) (index_list p).
