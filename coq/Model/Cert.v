(* C01/C03 at scale: a liveness CERTIFICATE.  The literal model of pass.Liveness and the path-based
   decision procedure are too slow to evaluate inside Coq on functions of hundreds of instructions; for
   those the harness supplies live sets (computed by any means) and Coq only checks that they are closed
   under the three dataflow inclusions.  Closed sets over-approximate what can still be read, which is
   all the allocation theorem needs (Proofs/SimCert.v). *)
From Avo Require Import Base.Prelude.
From stdpp Require Import gmap.
From Avo Require Import Base.MaskSet Model.IR Model.Liveness.
Open Scope N_scope.

Definition sub_ms (a b : MS) : bool := forallb (fun e : N * N => N.land (get b (fst e)) (snd e) =? snd e) (ms_elements a).

Definition closed_at (p : prog) (r : st) (j : nat) (i : ins) : bool :=
  sub_ms (iuse i) (nth_in r j)
  && sub_ms (ms_diff (nth_out r j) (idef i)) (nth_in r j)
  && forallb (fun o => match o with Some s => sub_ms (nth_in r s) (nth_out r j) | None => true end) (isucc i).
Definition closed_b (p : prog) (r : st) : bool :=
  Nat.eqb (List.length r) (List.length p) && forallb (fun ji : nat * ins => closed_at p r (fst ji) (snd ji)) (index_list p).
