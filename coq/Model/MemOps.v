(* C05 / C16: the helper functions that build memory references (operand/types.go: NewStackAddr,
   NewParamAddr, NewDataAddr, Mem.Offset, Mem.Idx).  A reference built by a chain of helpers must be
   the reference the chain describes: base and symbol from the constructor, displacement the sum of
   the constructor's offset and every Offset, index and scale those of the last Idx. *)
From Avo Require Import Base.Prelude.
From Avo Require Import Model.IR.
Open Scope Z_scope.

Inductive mem_ctor :=
| MStack (off : Z)                                   (* NewStackAddr *)
| MParam (name : string) (off : Z)                   (* NewParamAddr *)
| MData (sym : string) (static : bool) (off : Z)     (* NewDataAddr *)
| MLit (m : operand).                                (* a Mem given as a literal *)
Inductive mem_op := MOffset (n : Z) | MIdx (r : reg) (s : N).

(* pseudo registers, as reg/x86.go defines them (ID, mask, tag are re-read from the running package
   by the case writer; here they are parameters) *)
Section MemOps.
Variables (sp fp sb : reg).

Definition mem_new (c : mem_ctor) : operand :=
  match c with
  | MStack off => OMem (Some sp) None 0 off "" false
  | MParam n off => OMem (Some fp) None 0 off n false
  | MData s st off => OMem (Some sb) None 0 off s st
  | MLit m => m
  end.
Definition mem_apply (m : operand) (o : mem_op) : operand :=
  match m with
  | OMem b i s d y t =>
      match o with
      | MOffset n => OMem b i s (d + n) y t
      | MIdx r sc => OMem b (Some r) sc d y t
      end
  | other => other
  end.
Definition mem_chain (c : mem_ctor) (ops : list mem_op) : operand := fold_left mem_apply ops (mem_new c).

(* the declarative reading of a chain *)
Definition total_offset (ops : list mem_op) : Z := fold_right (fun o acc => match o with MOffset n => n + acc | _ => acc end) 0 ops.
Fixpoint last_idx (ops : list mem_op) (acc : option (reg * N)) : option (reg * N) :=
  match ops with [] => acc | MIdx r s :: rest => last_idx rest (Some (r, s)) | _ :: rest => last_idx rest acc end.
Definition mem_spec (c : mem_ctor) (ops : list mem_op) : operand :=
  match mem_new c with
  | OMem b i s d y t =>
      match last_idx ops None with
      | Some (r, sc) => OMem b (Some r) sc (d + total_offset ops) y t
      | None => OMem b i s (d + total_offset ops) y t
      end
  | other => other
  end.
Definition memops_ok (c : mem_ctor * list mem_op * operand) : bool :=
  let '(ct, ops, got) := c in operand_eqb (mem_spec ct ops) got.
End MemOps.
