(* C16: ir.Function.AllocLocal as a bump allocator over a history of sizes, the forced 8-byte
   local of EnsureBasePointerCalleeSaved, FrameBytes. *)
From Avo Require Import Base.Prelude.
Open Scope Z_scope.

(* one AllocLocal(size): returns the offset (operand.NewStackAddr(LocalSize)) and the new LocalSize *)
Definition alloc_local (local size : Z) : Z * Z := (local, local + size).
Fixpoint alloc_history (local : Z) (sizes : list Z) : list (Z * Z) * Z :=   (* regions (off,size), final LocalSize *)
  match sizes with
  | [] => ([], local)
  | s :: r => let '(off, l') := alloc_local local s in
              let '(regs, fin) := alloc_history l' r in ((off, s) :: regs, fin)
  end.
(* EnsureBasePointerCalleeSaved on the frame size *)
Definition ensure_bp_frame (clobbers : bool) (local : Z) : Z := if clobbers && (local =? 0) then local + 8 else local.
(* FrameBytes rounds the local size up to a multiple of the pointer size (the assembler accepts no other frame size) *)
Definition round8 (x : Z) : Z := (x + 7) / 8 * 8.
Definition frame_bytes (sizes : list Z) (clobbers : bool) : Z := round8 (ensure_bp_frame clobbers (snd (alloc_history 0 sizes))).

Definition region_in (r : Z * Z) (lo hi : Z) : bool := (lo <=? fst r) && (fst r + snd r <=? hi).
Definition regions_disjoint_b (r1 r2 : Z * Z) : bool :=
  (fst r1 + snd r1 <=? fst r2) || (fst r2 + snd r2 <=? fst r1).
Fixpoint pairwise {A} (f : A -> A -> bool) (l : list A) : bool :=
  match l with [] => true | x :: r => forallb (f x) r && pairwise f r end.

(* spec_b on observed regions and the frame size printed on the TEXT line: inside [0,frame),
   pairwise disjoint, and (environment: locals are addressed from the hardware SP upwards and the
   assembler's saved BP sits at [frame, frame+8)) disjoint from the save slot *)
Definition locals_spec_b (regions : list (Z * Z)) (frame : Z) : bool :=
  forallb (fun r => region_in r 0 frame) regions
  && pairwise regions_disjoint_b regions
  && forallb (fun r => regions_disjoint_b r (frame, 8)) regions.

(* case: sizes, clobbers-bp, observed offsets, observed frame; observed printed frame text *)
Definition frame_case := (list Z * bool * list Z * Z)%type.
Definition frame_agree (c : frame_case) : bool :=
  let '(sizes, clob, offs, frame) := c in
  list_eqb Z.eqb (List.map fst (fst (alloc_history 0 sizes))) offs && (frame_bytes sizes clob =? frame).
Definition frame_impl_ok (c : frame_case) : bool :=
  let '(sizes, clob, offs, frame) := c in
  Nat.eqb (List.length sizes) (List.length offs) && locals_spec_b (List.combine offs sizes) frame
  (* a function that writes the base pointer needs a non-empty frame: only then does the assembler
     save and restore BP (C15), whatever else the function contains *)
  && (negb clob || (0 <? frame)).
Definition indices_where_Z {A} (f : A -> bool) (l : list A) : list N :=
  List.map (fun p => N.of_nat (fst p)) (List.filter (fun p => f (snd p)) (index_list l)).
