(* Observations of the staged run of the real passes (harness: runStaged) and the staged model
   that produces the same record; `obs_agree` compares projected, canonicalised observables. *)
From Avo Require Import Base.Prelude.
From stdpp Require Import gmap.
From Avo Require Import Base.MaskSet Model.IR Model.RegFile Model.CFG Model.Liveness Model.Alloc Model.Cleanup Model.Pipeline.
Open Scope N_scope.

Record observed := {
  o_stage : N; o_err : N;
  o_targets : list (string * nat);
  o_succs : list (list (option nat)); o_preds : list (list nat);
  o_live : obs;
  o_alloc : list (N * N);
  o_after_jumps : list node; o_after_labels : list node; o_after_zext : list node; o_after_bind : list node;
  o_nodes : list node; o_local : N; o_isa : list string
}.
Definition empty_obs : observed :=
  {| o_stage := 0; o_err := 0; o_targets := []; o_succs := []; o_preds := []; o_live := []; o_alloc := [];
     o_after_jumps := []; o_after_labels := []; o_after_zext := []; o_after_bind := []; o_nodes := []; o_local := 0; o_isa := [] |}.

Definition instr_eqb (a b : instr) : bool :=
  String.eqb (opcode a) (opcode b) && list_eqb String.eqb (suffixes a) (suffixes b)
  && list_eqb operand_eqb (operands a) (operands b) && list_eqb operand_eqb (inputs a) (inputs b)
  && list_eqb operand_eqb (outputs a) (outputs b)
  && Bool.eqb (is_terminal a) (is_terminal b) && Bool.eqb (is_branch a) (is_branch b)
  && Bool.eqb (is_conditional a) (is_conditional b) && Bool.eqb (cancelling a) (cancelling b)
  && list_eqb String.eqb (isa a) (isa b).
Definition node_eqb (a b : node) : bool :=
  match a, b with
  | NLabel x, NLabel y => String.eqb x y
  | NComment x, NComment y => list_eqb String.eqb x y
  | NInstr x, NInstr y => instr_eqb x y
  | _, _ => false
  end.
Definition nodes_eqb := list_eqb node_eqb.

Definition code_of {A} (r : res A) : N := match r with OK _ => 0 | Err e => e | Panic 3 => 101 | Panic p => 100 + p end.

Definition set_fail (o : observed) (stage code : N) : observed :=
  {| o_stage := stage; o_err := code; o_targets := o_targets o; o_succs := o_succs o; o_preds := o_preds o;
     o_live := o_live o; o_alloc := o_alloc o; o_after_jumps := o_after_jumps o; o_after_labels := o_after_labels o;
     o_after_zext := o_after_zext o; o_after_bind := o_after_bind o; o_nodes := o_nodes o; o_local := o_local o; o_isa := o_isa o |}.

Definition st_to_obs (s : st) : obs := List.map (fun l => (map_to_list (lin l), map_to_list (lout l))) s.

(* the staged model; knobs select the pinned or the repaired behaviour of the three passes with
   known defects, so that the correspondence says which one the tree implements *)
Record knobs := { k_cancel_drop_all : bool; k_label_check_pending : bool; k_selfmove_fixed : bool }.
Definition pinned_knobs := {| k_cancel_drop_all := false; k_label_check_pending := true; k_selfmove_fixed := true |}.

Definition mk_ins_k (kn : knobs) (i : instr) (succs : list (option nat)) : res ins :=
  do use <- input_registers_with (k_cancel_drop_all kn) i;
  OK {| iuse := ms_of_regs use; idef := ms_of_regs (output_registers i); isucc := succs |}.
Fixpoint mk_prog_k (kn : knobs) (is : list instr) (succs : list (list (option nat))) : res prog :=
  match is, succs with
  | i :: r, s :: rs => do x <- mk_ins_k kn i s; do rest <- mk_prog_k kn r rs; OK (x :: rest)
  | _, _ => OK []
  end.

Definition run_model (kn : knobs) (rf : regfile) (f : func) : observed :=
  let o := empty_obs in
  match verify_nodes true (fnodes f) with
  | OK _ =>
    let nsj := prune_jumps (fnodes f) in
    let ns1 := prune_labels nsj in
    match label_target_with (k_label_check_pending kn) ns1 with
    | OK tg =>
      match cfg tg (instructions ns1) with
      | OK succs =>
        let o5 := {| o_stage := 0; o_err := 0; o_targets := tg; o_succs := succs; o_preds := cfg_preds succs; o_live := [];
                     o_alloc := []; o_after_jumps := nsj; o_after_labels := ns1; o_after_zext := []; o_after_bind := [];
                     o_nodes := []; o_local := 0; o_isa := [] |} in
        match map_res (zero_extend_instr rf) (instructions ns1) with
        | OK is2 =>
          match mk_prog_k kn is2 succs with
          | OK p =>
            match liveness (liveness_fuel p) p with
            | None => set_fail o5 7 EOutOfFuel
            | Some lvs =>
              let o7 := {| o_stage := 0; o_err := 0; o_targets := tg; o_succs := succs; o_preds := cfg_preds succs;
                           o_live := st_to_obs lvs; o_alloc := []; o_after_jumps := nsj; o_after_labels := ns1;
                           o_after_zext := repl_instrs ns1 is2; o_after_bind := []; o_nodes := []; o_local := 0; o_isa := [] |} in
              match allocate_registers rf is2 (List.map lout lvs) with
              | OK al =>
                let is3 := List.map (bind_instr rf al) is2 in
                let o9 := {| o_stage := 0; o_err := 0; o_targets := tg; o_succs := succs; o_preds := cfg_preds succs;
                             o_live := st_to_obs lvs; o_alloc := map_to_list al; o_after_jumps := nsj; o_after_labels := ns1;
                             o_after_zext := repl_instrs ns1 is2; o_after_bind := repl_instrs ns1 is3; o_nodes := []; o_local := 0; o_isa := [] |} in
                match verify_allocation is3 with
                | OK _ =>
                  match ensure_bp rf is3 (fattrs f) (flocal f) with
                  | OK loc =>
                    match prune_self_moves_with (k_selfmove_fixed kn) (repl_instrs ns1 is3) with
                    | OK ns4 =>
                      {| o_stage := 0; o_err := 0; o_targets := tg; o_succs := succs; o_preds := cfg_preds succs;
                         o_live := st_to_obs lvs; o_alloc := map_to_list al; o_after_jumps := nsj; o_after_labels := ns1;
                         o_after_zext := repl_instrs ns1 is2; o_after_bind := repl_instrs ns1 is3; o_nodes := ns4;
                         o_local := loc; o_isa := required_isa (instructions ns4) |}
                    | r => set_fail o9 13 (code_of r)
                    end
                  | r => set_fail o9 11 (code_of r)
                  end
                | r => set_fail o9 10 (code_of r)
                end
              | r => set_fail o7 8 (code_of r)
              end
            end
          | r => set_fail o5 7 (code_of r)
          end
        | r => set_fail o5 6 (code_of r)
        end
      | r => set_fail {| o_stage := 0; o_err := 0; o_targets := tg; o_succs := []; o_preds := []; o_live := []; o_alloc := [];
                         o_after_jumps := nsj; o_after_labels := ns1; o_after_zext := []; o_after_bind := []; o_nodes := [];
                         o_local := 0; o_isa := [] |} 5 (code_of r)
      end
    | r => set_fail {| o_stage := 0; o_err := 0; o_targets := []; o_succs := []; o_preds := []; o_live := []; o_alloc := [];
                       o_after_jumps := nsj; o_after_labels := ns1; o_after_zext := []; o_after_bind := []; o_nodes := [];
                       o_local := 0; o_isa := [] |} 4 (code_of r)
    end
  | r => set_fail o 1 (code_of r)
  end.

(* canonical comparisons *)
Definition targets_agree (m : list (string * nat)) (o : list (string * nat)) : bool :=
  Nat.eqb (length m) (length o) && forallb (fun e => option_eqb Nat.eqb (assoc m (fst e)) (Some (snd e))) o.
Definition pairs_agree (m o : list (N * N)) : bool :=
  Nat.eqb (length m) (length o) && forallb (fun e => existsb (fun e' => (fst e =? fst e') && (snd e =? snd e')) m) o.
Definition live_agree (m o : obs) : bool :=
  Nat.eqb (length m) (length o) &&
  forallb (fun x => pairs_agree (fst (fst x)) (fst (snd x)) && pairs_agree (snd (fst x)) (snd (snd x))) (List.combine m o).

(* which observable differs first (0 = all agree): small enum used in reports *)
Definition obs_diff (m o : observed) : N :=
  if negb (o_stage m =? o_stage o) then 1
  else if negb (o_err m =? o_err o) then 2
  else if negb (nodes_eqb (o_after_jumps m) (o_after_jumps o)) then 3
  else if negb (nodes_eqb (o_after_labels m) (o_after_labels o)) then 4
  else if negb (targets_agree (o_targets m) (o_targets o)) then 5
  else if negb (succs_eqb (o_succs m) (o_succs o)) then 6
  else if negb (preds_eqb (o_preds m) (o_preds o)) then 7
  else if negb (nodes_eqb (o_after_zext m) (o_after_zext o)) then 8
  else if negb (live_agree (o_live m) (o_live o)) then 9
  else if negb (pairs_agree (o_alloc m) (o_alloc o)) then 10
  else if negb (nodes_eqb (o_after_bind m) (o_after_bind o)) then 11
  else if negb (o_local m =? o_local o) then 12
  else if negb (nodes_eqb (o_nodes m) (o_nodes o)) then 13
  else if negb (list_eqb String.eqb (o_isa m) (o_isa o)) then 14
  else 0.

(* one case = input function + observation; results are lists of (case index, code) *)
Definition pcase := (func * observed)%type.
Definition diffs (kn : knobs) (rf : regfile) (cs : list pcase) : list (N * N) :=
  flat_map (fun x => let d := obs_diff (run_model kn rf (fst (snd x))) (snd (snd x)) in
                     if d =? 0 then [] else [(N.of_nat (fst x), d)]) (index_list cs).
Definition diff_indices (kn : knobs) (rf : regfile) (cs : list pcase) : list N := List.map fst (diffs kn rf cs).

Definition indices_where_ {A} (f : A -> bool) (l : list A) : list N :=
  List.map (fun p => N.of_nat (fst p)) (List.filter (fun p => f (snd p)) (index_list l)).
