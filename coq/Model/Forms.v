(* C04/C05/C06: instruction forms as data (x86/zoptab.go, translated on every run) and the
   generic build/match of x86/optab.go with the operand predicates of operand/checks.go. *)
From Avo Require Import Base.Prelude Base.Str.
From stdpp Require Import gmap.
From Avo Require Import Base.MaskSet Model.IR Model.RegFile.
Open Scope N_scope.

Record foperand := { fo_type : string;       (* operand type name as in zoptab.go without the prefix: "IMM8", "R64", ... ; for implicit operands the implreg name *)
                     fo_implicit : bool; fo_action : N; fo_implreg : option reg }.
Record form := { f_opcode : string; f_sclass : string; f_features : N; f_isa : list string; f_arity : N;
                 f_operands : list foperand }.
Definition suffix_sets := list (string * list (list string)).   (* class name -> accepted suffix lists *)

Definition featTerminal := 1. Definition featBranch := 2. Definition featCond := 4. Definition featCancel := 8.
Definition act_read (a : N) : bool := N.testbit a 0.
Definition act_write (a : N) : bool := N.testbit a 1.

(* ---- operand/checks.go *)
Definition named_reg (rf : regfile) (kind idx mask : N) : option reg := option_map reg_of_preg (family_lookup rf kind idx mask).
Definition is_named (rf : regfile) (kind idx mask : N) (o : operand) : bool :=
  match o, named_reg rf kind idx mask with OReg r, Some p => reg_eqb r p | _, _ => false end.
Definition is_kind_size (kind sz : N) (o : operand) : bool :=
  match o with OReg r => (reg_kind r =? kind) && (spec_size (rmask r) =? sz) | _ => false end.
Definition is_kind (kind : N) (o : operand) : bool := match o with OReg r => reg_kind r =? kind | _ => false end.
Definition is_mreg (r : reg) : bool := (reg_kind r =? KindPseudo) || (reg_kind r =? KindGP).
Definition is_m (o : operand) : bool :=
  match o with OMem (Some b) i _ _ _ _ => is_mreg b && match i with None => true | Some x => is_mreg x end | _ => false end.
Definition is_vm (isz : N) (o : operand) : bool :=
  match o with
  | OMem (Some b) (Some i) _ _ _ _ => ((reg_kind b =? KindGP) && (spec_size (rmask b) =? 8)) && ((reg_kind i =? KindVector) && (spec_size (rmask i) =? isz))
  | _ => false end.
Definition is_u8 (o : operand) (p : Z -> bool) : bool := match o with OImm 1 false v => p v | _ => false end.
Definition is_imm (n : N) (o : operand) : bool := match o with OImm m _ _ => m =? n | _ => false end.

Definition type_match (rf : regfile) (t : string) (o : operand) : bool :=
  if String.eqb t "1" then is_u8 o (Z.eqb 1)
  else if String.eqb t "3" then is_u8 o (Z.eqb 3)
  else if String.eqb t "IMM2U" then is_u8 o (fun v => (v <? 4)%Z)
  else if String.eqb t "IMM8" then is_imm 1 o
  else if String.eqb t "IMM16" then is_imm 2 o
  else if String.eqb t "IMM32" then is_imm 4 o
  else if String.eqb t "IMM64" then is_imm 8 o
  else if String.eqb t "AL" then is_named rf KindGP 0 1 o
  else if String.eqb t "CL" then is_named rf KindGP 1 1 o
  else if String.eqb t "AX" then is_named rf KindGP 0 3 o
  else if String.eqb t "EAX" then is_named rf KindGP 0 7 o
  else if String.eqb t "RAX" then is_named rf KindGP 0 15 o
  else if String.eqb t "XMM0" then is_named rf KindVector 0 31 o
  else if String.eqb t "R8" then is_kind_size KindGP 1 o
  else if String.eqb t "R16" then is_kind_size KindGP 2 o
  else if String.eqb t "R32" then is_kind_size KindGP 4 o
  else if String.eqb t "R64" then is_kind_size KindGP 8 o
  else if String.eqb t "XMM" then is_kind_size KindVector 16 o
  else if String.eqb t "YMM" then is_kind_size KindVector 32 o
  else if String.eqb t "ZMM" then is_kind_size KindVector 64 o
  else if String.eqb t "K" then is_kind KindOpmask o
  else if existsb (String.eqb t) ["M"; "M8"; "M16"; "M32"; "M64"; "M128"; "M256"; "M512"]%string then is_m o
  else if existsb (String.eqb t) ["VM32X"; "VM64X"]%string then is_vm 16 o
  else if existsb (String.eqb t) ["VM32Y"; "VM64Y"]%string then is_vm 32 o
  else if existsb (String.eqb t) ["VM32Z"; "VM64Z"]%string then is_vm 64 o
  else if String.eqb t "REL8" then match o with ORel r => ((-128 <=? r) && (r <=? 127))%Z | _ => false end
  else if String.eqb t "REL32" then match o with ORel _ | OLabel _ => true | _ => false end
  else false.

(* ---- x86/optab.go *)
Definition class_accepts (ss : suffix_sets) (cls : string) (sfx : list string) : bool :=
  match List.find (fun e => String.eqb (fst e) cls) ss with
  | Some e => existsb (list_eqb String.eqb sfx) (snd e)
  | None => false
  end.
Fixpoint match_ops (rf : regfile) (specs : list foperand) (ops : list operand) : bool :=
  match ops with
  | [] => true
  | o :: r => match specs with s :: ss => type_match rf (fo_type s) o && match_ops rf ss r | [] => false end
  end.
Definition form_match (rf : regfile) (ss : suffix_sets) (f : form) (sfx : list string) (ops : list operand) : bool :=
  class_accepts ss (f_sclass f) sfx && (N.of_nat (List.length ops) =? f_arity f) && match_ops rf (f_operands f) ops.
(* inputs/outputs: walk the operand specs, implicit ones take their register, explicit ones the next operand *)
Fixpoint io_of (specs : list foperand) (ops : list operand) : list operand * list operand :=
  match specs with
  | [] => ([], [])
  | s :: ss =>
      let '(op, rest) := if fo_implicit s then (match fo_implreg s with Some r => Some (OReg r) | None => None end, ops)
                         else match ops with o :: r => (Some o, r) | [] => (None, []) end in
      let '(ins, outs) := io_of ss rest in
      match op with
      | Some o => ((if act_read (fo_action s) then o :: ins else ins), (if act_write (fo_action s) then o :: outs else outs))
      | None => (ins, outs)
      end
  end.
Definition form_build (f : form) (sfx : list string) (ops : list operand) : instr :=
  let '(ins, outs) := io_of (f_operands f) ops in
  {| opcode := f_opcode f; suffixes := sfx; operands := ops; inputs := ins; outputs := outs;
     is_terminal := negb (N.land (f_features f) featTerminal =? 0); is_branch := negb (N.land (f_features f) featBranch =? 0);
     is_conditional := negb (N.land (f_features f) featCond =? 0); cancelling := negb (N.land (f_features f) featCancel =? 0);
     isa := f_isa f |}.
Definition build (rf : regfile) (ss : suffix_sets) (fs : list form) (sfx : list string) (ops : list operand) : option instr :=
  option_map (fun f => form_build f sfx ops) (List.find (fun f => form_match rf ss f sfx ops) fs).

(* ---- well-formedness of a row, relied upon by match/build (explicit operands first, arity =
   number of explicit operands, implicit operands name a register, known types and classes) *)
Definition known_types : list string :=
  ["1";"3";"AL";"AX";"CL";"EAX";"IMM16";"IMM2U";"IMM32";"IMM64";"IMM8";"K";"M";"M128";"M16";"M256";"M32";"M512";"M64";"M8";
   "R16";"R32";"R64";"R8";"RAX";"REL32";"REL8";"VM32X";"VM32Y";"VM32Z";"VM64X";"VM64Y";"VM64Z";"XMM";"XMM0";"YMM";"ZMM"]%string.
Fixpoint explicit_first (l : list foperand) (seen_implicit : bool) : bool :=
  match l with [] => true | o :: r => if fo_implicit o then explicit_first r true else negb seen_implicit && explicit_first r false end.
Definition form_wf (ss : suffix_sets) (f : form) : bool :=
  explicit_first (f_operands f) false
  && (N.of_nat (List.length (List.filter (fun o => negb (fo_implicit o)) (f_operands f))) =? f_arity f)
  && forallb (fun o => if fo_implicit o then match fo_implreg o with Some r => negb (reg_is_virtual r) | None => false end
                       else existsb (String.eqb (fo_type o)) known_types) (f_operands f)
  && match List.find (fun e => String.eqb (fst e) (f_sclass f)) ss with Some _ => true | None => false end
  && forallb (fun o => fo_action o <? 4) (f_operands f).

(* ---- C04: structural facts about declared reads/writes, checked on every row *)
Definition is_z_class (c : string) : bool := existsb (String.eqb c) ["Z"; "BCST_Z"; "ER_Z"; "SAE_Z"]%string.
Definition has_k_operand (f : form) : bool := existsb (fun o => negb (fo_implicit o) && String.eqb (fo_type o) "K") (f_operands f).
Definition last_explicit (f : form) : option foperand := List.last (List.map Some (List.filter (fun o => negb (fo_implicit o)) (f_operands f))) None.
Definition dest_is_vector_or_k (f : form) : bool :=
  match last_explicit f with Some o => existsb (String.eqb (fo_type o)) ["XMM";"YMM";"ZMM";"K"]%string | None => false end.
Definition form_io_ok (f : form) : bool :=
  (* zeroing-masked forms write the destination (declaring it read as well is a safe over-approximation, and true for FMA-like forms) *)
  (negb (is_z_class (f_sclass f)) || match last_explicit f with Some o => act_write (fo_action o) | None => false end)
  (* self-cancelling forms start with two explicit register operands of one type *)
  && ((N.land (f_features f) featCancel =? 0)
      || match f_operands f with
         | a :: b :: _ => negb (fo_implicit a) && negb (fo_implicit b) && String.eqb (fo_type a) (fo_type b)
                          && existsb (String.eqb (fo_type a)) ["R8";"R16";"R32";"R64";"XMM";"YMM";"ZMM";"K"]%string
                          && act_read (fo_action a) && act_read (fo_action b)
         | _ => false end)
  (* immediates and relative targets are never written; every operand has some action or is an immediate/address-only *)
  && forallb (fun o => negb (existsb (String.eqb (fo_type o)) ["1";"3";"IMM2U";"IMM8";"IMM16";"IMM32";"IMM64";"REL8";"REL32"]%string) || negb (act_write (fo_action o))) (f_operands f)
  (* every register and memory operand, explicit or implicit, is read or written (or both): an operand the
     instruction neither reads nor writes does not exist in the instruction set avo covers, and a memory
     operand without an action would hide its address registers from liveness *)
  && forallb (fun o => (negb (fo_implicit o) && existsb (String.eqb (fo_type o)) ["1";"3";"IMM2U";"IMM8";"IMM16";"IMM32";"IMM64";"REL8";"REL32"]%string)
                       || negb (fo_action o =? 0)) (f_operands f).

(* ---- cases: (opcode forms index, suffixes, operands, observed: Some instruction | None = error) *)
Definition instr_eqb_io (a b : instr) : bool :=
  String.eqb (opcode a) (opcode b) && list_eqb String.eqb (suffixes a) (suffixes b)
  && list_eqb operand_eqb (operands a) (operands b) && list_eqb operand_eqb (inputs a) (inputs b)
  && list_eqb operand_eqb (outputs a) (outputs b)
  && Bool.eqb (is_terminal a) (is_terminal b) && Bool.eqb (is_branch a) (is_branch b)
  && Bool.eqb (is_conditional a) (is_conditional b) && Bool.eqb (cancelling a) (cancelling b)
  && list_eqb String.eqb (isa a) (isa b).
Definition build_case := (N * list string * list operand * option instr)%type.
Definition forms_of (tab : list (N * list form)) (opc : N) : list form :=
  match List.find (fun e => fst e =? opc) tab with Some e => snd e | None => [] end.
Definition build_agree (rf : regfile) (ss : suffix_sets) (tab : list (N * list form)) (c : build_case) : bool :=
  let '(opc, sfx, ops, obs) := c in
  option_eqb instr_eqb_io (build rf ss (forms_of tab opc) sfx ops) obs.

(* the property evaluated on the implementation's outcome: accepted iff some form of the opcode
   matches (suffix class, arity, operand types), and then the instruction is that form's *)
Definition build_impl_ok (rf : regfile) (ss : suffix_sets) (tab : list (N * list form)) (c : build_case) : bool :=
  let '(opc, sfx, ops, obs) := c in
  let fs := forms_of tab opc in
  match obs with
  | Some i => existsb (fun f => form_match rf ss f sfx ops && instr_eqb_io (form_build f sfx ops) i) fs
  | None => negb (existsb (fun f => form_match rf ss f sfx ops) fs)
  end.

(* merge-masking: a form with a write-mask operand (a K operand immediately before a vector
   destination) and no zeroing suffix keeps the unselected destination lanes, so the destination
   is read as well as written *)
Definition explicit_ops (f : form) : list foperand := List.filter (fun o => negb (fo_implicit o)) (f_operands f).
Definition is_vec_type (t : string) : bool := existsb (String.eqb t) ["XMM";"YMM";"ZMM"]%string.
Definition is_mem_type (t : string) : bool := existsb (String.eqb t) ["M";"M8";"M16";"M32";"M64";"M128";"M256";"M512"]%string.
Definition masked_dest (f : form) : option (foperand * foperand) :=   (* (mask, destination) *)
  match List.rev (explicit_ops f) with
  | d :: k :: _ :: _ => if String.eqb (fo_type k) "K" && (is_vec_type (fo_type d) || is_mem_type (fo_type d)) then Some (k, d) else None
  | _ => None
  end.
Definition merge_mask_ok (f : form) : bool :=
  match masked_dest f with
  | Some (k, d) => act_read (fo_action k) &&
                   (if is_z_class (f_sclass f) then act_write (fo_action d)
                    else if is_mem_type (fo_type d) then act_write (fo_action d)   (* masked store: unselected memory is simply not written *)
                    else act_read (fo_action d) && act_write (fo_action d))
  | None => true
  end.

(* reported reads/writes of a built instruction (ir.Instruction.InputRegisters/OutputRegisters),
   compared with the implementation, and the specification of the property text: every register of
   every input operand and every address register of a memory output is read, except exactly the
   two equal registers of a self-cancelling form *)
Definition regs_eqb (a b : list reg) : bool := list_eqb reg_eqb a b.
Definition io_case := (instr * option (list reg) * list reg)%type.   (* instruction, InputRegisters (None = panic), OutputRegisters *)
Definition io_agree (c : io_case) : bool :=
  let '(i, ins, outs) := c in
  match input_registers i, ins with
  | OK m, Some o => regs_eqb m o
  | Panic _, None => true
  | _, _ => false
  end && regs_eqb (output_registers i) outs.
Definition reads_spec (i : instr) : list reg :=
  let rs := flat_map op_registers (inputs i) in
  let memouts := flat_map (fun o => if is_mem o then op_registers o else []) (outputs i) in
  (match rs with
   | r0 :: r1 :: rest => if cancelling i && reg_eqb r0 r1 then rest else rs
   | _ => rs end) ++ memouts.
Definition covers_reg (l : list reg) (r : reg) : bool := existsb (fun x => (rid x =? rid r) && (N.land (rmask x) (rmask r) =? rmask r)) l.
Definition io_impl_ok (c : io_case) : bool :=
  let '(i, ins, outs) := c in
  match ins with
  | Some o => forallb (covers_reg o) (reads_spec i)
              && forallb (covers_reg outs) (flat_map (fun x => match x with OReg r => [r] | _ => [] end) (outputs i))
  | None => false
  end.
