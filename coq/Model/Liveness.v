(* C02: pass.Liveness (pass/reg.go) literally: reverse order, in-place sweeps with Go's `changes`
   flag, fuel-bounded.  And the path-based specification of the property text with a boolean
   decision procedure used as spec_b. *)
From Avo Require Import Base.Prelude.
From stdpp Require Import gmap.
From Avo Require Import Base.MaskSet Model.IR.
Open Scope N_scope.

Record ins := { iuse : MS; idef : MS; isucc : list (option nat) }.
Notation prog := (list ins).
Record lv := { lin : MS; lout : MS }.
Notation st := (list lv).

Definition nth_in (s : st) (j : nat) : MS := match s !! j with Some l => lin l | None => ∅ end.
Definition nth_out (s : st) (j : nat) : MS := match s !! j with Some l => lout l | None => ∅ end.

Definition init (p : prog) : st := (fun i => {| lin := ms_update ∅ (iuse i); lout := ∅ |}) <$> p.

Definition pull (s : st) (acc : MS * bool) (o : option nat) : MS * bool :=
  match o with
  | Some j => let '(r, c) := ms_update_c (fst acc) (nth_in s j) in (r, c || snd acc)
  | None => acc
  end.
Definition upd1 (s : st) (i : ins) (l : lv) : lv * bool :=
  let '(out', c1) := foldl (pull s) (lout l, false) (isucc i) in
  let '(in', c2) := ms_update_c (lin l) (ms_diff out' (idef i)) in
  ({| lin := in'; lout := out' |}, c2 || c1).

(* one pass over the (reversed) instruction list: indices k-1 down to 0 *)
Fixpoint sweep (p : prog) (k : nat) (sc : st * bool) : st * bool :=
  match k with
  | O => sc
  | S k' => match p !! k', fst sc !! k' with
            | Some i, Some l => let '(l', c) := upd1 (fst sc) i l in sweep p k' (<[k' := l']> (fst sc), c || snd sc)
            | _, _ => sc
            end
  end.

Fixpoint iter (fuel : nat) (p : prog) (s : st) : option st :=
  match fuel with
  | O => None
  | S f => let '(s', c) := sweep p (length p) (s, false) in if c then iter f p s' else Some s'
  end.
Definition liveness (fuel : nat) (p : prog) : option st := iter fuel p (init p).

(* building the dataflow program from IR instructions + CFG successors *)
Definition mk_ins (i : instr) (succs : list (option nat)) : res ins :=
  do use <- input_registers i;
  OK {| iuse := ms_of_regs use; idef := ms_of_regs (output_registers i); isucc := succs |}.
Fixpoint mk_prog (is : list instr) (succs : list (list (option nat))) : res prog :=
  match is, succs with
  | i :: r, s :: rs => do x <- mk_ins i s; do rest <- mk_prog r rs; OK (x :: rest)
  | _, _ => OK []
  end.

(* enough fuel: every productive sweep adds at least one byte class that is read somewhere to one
   of the 2n sets (proved sufficient in Proofs/LivenessTerm.v: liveness_terminates); +2 for the
   final idle sweep *)
Definition bits_of (m : N) : list N := List.map N.of_nat (seq 0 (N.to_nat (N.size m))).
Definition use_bits (p : prog) : list (N * N) :=
  flat_map (fun i => flat_map (fun e => List.map (fun k => (fst e, k)) (bits_of (snd e))) (map_to_list (iuse i))) p.
Definition ids_of (p : prog) : list N := flat_map (fun i => List.map fst (map_to_list (iuse i))) p.
Definition liveness_fuel (p : prog) : nat := S (S (length p * (2 * length (use_bits p)))).

(* -------------------------------------------------------------- specification (paths) *)
Section Spec.
Variable p : prog.
Definition use_at j id k := match p !! j with Some i => mem (iuse i) id k | None => false end.
Definition def_at j id k := match p !! j with Some i => mem (idef i) id k | None => false end.
Definition succ_at (j j' : nat) : Prop := match p !! j with Some i => In (Some j') (isucc i) | None => False end.

(* a register byte class (id,k) is live before j iff some path j = n0 -> n1 -> ... -> nm reaches
   a read at nm with no write at n0..n(m-1) *)
Inductive path_live : nat -> N -> N -> Prop :=
| PL_here j id k : use_at j id k = true -> path_live j id k
| PL_step j j' id k : def_at j id k = false -> succ_at j j' -> path_live j' id k -> path_live j id k.
Definition live_before := path_live.
Definition live_after (j : nat) (id k : N) : Prop := exists j', succ_at j j' /\ path_live j' id k.
End Spec.

(* boolean decision procedure: backward reachability for one (id,k), least fixpoint by
   iteration over the instruction set; n+1 rounds suffice *)
Definition live_round (p : prog) (id k : N) (cur : list bool) : list bool :=
  imap (fun j (i : ins) =>
          mem (iuse i) id k
          || (negb (mem (idef i) id k)
              && existsb (fun o => match o with Some j' => default false (cur !! j') | None => false end) (isucc i))) p.
Fixpoint live_iter (n : nat) (p : prog) (id k : N) (cur : list bool) : list bool :=
  match n with O => cur | S m => live_iter m p id k (live_round p id k cur) end.
Definition live_before_b (p : prog) (id k : N) : list bool :=
  live_iter (S (length p)) p id k (List.map (fun _ => false) p).
Definition live_after_b (p : prog) (id k : N) : list bool :=
  let lb := live_before_b p id k in
  List.map (fun i : ins => existsb (fun o => match o with Some j' => default false (lb !! j') | None => false end) (isucc i)) p.

(* spec_b on an observed liveness result: for all ids mentioned anywhere (in the program or in
   the observation) and all 16 mask bits, membership equals path-liveness *)
Definition obs := list (list (N * N) * list (N * N)).   (* per instruction: LiveIn, LiveOut as (id,mask) lists *)
Definition get_l (l : list (N * N)) (id : N) : N :=
  fold_left (fun acc p => if fst p =? id then N.lor acc (snd p) else acc) l 0.
Definition obs_ids (o : obs) : list N := flat_map (fun io => List.map fst (fst io) ++ List.map fst (snd io)) o.
Definition prog_ids (p : prog) : list N :=
  flat_map (fun i => List.map fst (map_to_list (iuse i)) ++ List.map fst (map_to_list (idef i))) p.
Fixpoint dedup_N (l : list N) : list N :=
  match l with [] => [] | x :: r => if existsb (N.eqb x) r then dedup_N r else x :: dedup_N r end.
Definition bits16 : list N := [0;1;2;3;4;5;6;7;8;9;10;11;12;13;14;15].
Definition liveness_spec_b (p : prog) (o : obs) : bool :=
  Nat.eqb (length o) (length p) &&
  forallb (fun id =>
    forallb (fun k =>
      let lb := live_before_b p id k in
      let la := live_after_b p id k in
      list_eqb Bool.eqb lb (List.map (fun io => N.testbit (get_l (fst io) id) k) o)
      && list_eqb Bool.eqb la (List.map (fun io => N.testbit (get_l (snd io) id) k) o)) bits16)
    (dedup_N (prog_ids p ++ obs_ids o))
  (* never a zero mask, never a duplicate id in a dumped set *)
  && forallb (fun io => forallb (fun e => negb (snd e =? 0)) (fst io ++ snd io)) o.

(* comparison of the model's result with an observation: canonical (id,mask) lists *)
Definition ms_eq_list (s : MS) (l : list (N * N)) : bool :=
  Nat.eqb (length (map_to_list s)) (length l) && forallb (fun e => get s (fst e) =? snd e) l.
Definition st_agree (s : st) (o : obs) : bool :=
  Nat.eqb (length s) (length o) &&
  forallb (fun x => ms_eq_list (lin (fst x)) (fst (snd x)) && ms_eq_list (lout (fst x)) (snd (snd x))) (List.combine s o).
