(* C10: a small-step semantics of a function body (node list with labels) that is parametric in what
   an instruction computes.  A configuration is the rest of the body still to execute (a suffix of
   the program) and a machine state; an instruction either falls through, jumps to a label or
   returns.  A jump lands AT the label node (first definition in program order, as the assembler
   resolves it); labels and comments execute as no-ops. *)
From Avo Require Import Base.Prelude.
From Avo Require Import Model.IR.
Open Scope list_scope.

Inductive ctl := CNext | CGoto (l : string) | CHalt.

Fixpoint from_label (l : string) (ns : list node) : option (list node) :=
  match ns with
  | [] => None
  | NLabel l' :: r => if String.eqb l' l then Some ns else from_label l r
  | _ :: r => from_label l r
  end.

Definition labels (ns : list node) : list string :=
  flat_map (fun n => match n with NLabel l => [l] | _ => [] end) ns.

Section NodeSem.
Variable S : Type.
Variable exec : instr -> S -> S * ctl.

(* Done: the function returned; Fell: control ran past the last node; Fault: a jump to a label
   that is not defined; Running: not finished yet *)
Inductive outcome := Done (s : S) | Fell (s : S) | Fault (s : S) | Running (k : list node) (s : S).
Definition terminal (o : outcome) : Prop := match o with Running _ _ => False | _ => True end.

Definition step (P : list node) (k : list node) (s : S) : outcome :=
  match k with
  | [] => Fell s
  | NInstr i :: r =>
      match exec i s with
      | (s', CNext) => Running r s'
      | (s', CHalt) => Done s'
      | (s', CGoto l) => match from_label l P with Some r' => Running r' s' | None => Fault s' end
      end
  | _ :: r => Running r s
  end.

Fixpoint run (P : list node) (fuel : nat) (k : list node) (s : S) : outcome :=
  match fuel with
  | O => Running k s
  | Datatypes.S f => match step P k s with Running k' s' => run P f k' s' | o => o end
  end.

(* what the function computes: the terminal outcomes it can reach from the entry, per start state *)
Definition computes (P : list node) (s : S) (o : outcome) : Prop := terminal o /\ exists fuel, run P fuel P s = o.
Definition same_behaviour (P Q : list node) : Prop := forall s o, computes P s o <-> computes Q s o.
End NodeSem.
Arguments Done {S} s. Arguments Fell {S} s. Arguments Fault {S} s. Arguments Running {S} k s.
