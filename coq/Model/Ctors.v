(* C06: the three entry-point layers as data (x86/zctors.go, build/zinstructions.go read by go/ast)
   and what they must look like relative to the form table. *)
From Avo Require Import Base.Prelude Base.Str.
From stdpp Require Import gmap.
From Avo Require Import Base.MaskSet Model.IR Model.RegFile Model.Forms.
Open Scope string_scope.
Open Scope N_scope.

Definition layer := (list string * string * list string * list (list string))%type.   (* params, callee, args, documented forms *)
Definition ctor_row := (string * N * string * list string * layer * option layer * option layer)%type.

Definition lower_char (c : ascii) : ascii :=
  let n := N_of_ascii c in if (65 <=? n) && (n <=? 90) then ascii_of_N (n + 32) else c.
Fixpoint lower (s : string) : string := match s with EmptyString => EmptyString | String c r => String (lower_char c) (lower r) end.

Definition explicit_types (f : form) : list string :=
  List.map (fun o => lower (fo_type o)) (List.filter (fun o => negb (fo_implicit o)) (f_operands f)).
Definition accepted_forms (ss : suffix_sets) (fs : list form) (sfx : list string) : list form :=
  List.filter (fun f => class_accepts ss (f_sclass f) sfx) fs.
Definition subset_b (a b : list (list string)) : bool := forallb (fun x => existsb (list_eqb String.eqb x) b) a.

Definition docs_exact (ss : suffix_sets) (fs : list form) (opcode : string) (sfx : list string) (docs : list (list string)) : bool :=
  let head := opcode ++ String.concat "" (List.map (fun s => "." ++ s) sfx) in
  forallb (fun d => match d with h :: _ => String.eqb h head | [] => false end) docs
  && (let dts := List.map (fun d => List.tl d) docs in
      let fts := List.map explicit_types (accepted_forms ss fs sfx) in
      subset_b dts fts && subset_b fts dts)
  && negb (match docs with [] => true | _ => false end).

Definition layer_eq_docs (a b : list (list string)) : bool := list_eqb (list_eqb String.eqb) a b.
Definition ctor_ok (ss : suffix_sets) (tab : list (N * list form)) (r : ctor_row) : bool :=
  let '(name, opc, opcode, sfx, l1, l2, l3) := r in
  let '(params, callee, args, docs) := l1 in
  let fs := forms_of tab opc in
  (* the constructor is build(forms of its opcode, its suffixes, its parameters in order) *)
  String.eqb callee "build" && list_eqb String.eqb args params
  && String.eqb name (opcode ++ String.concat "" (List.map (fun s => "_" ++ s) sfx))
  && forallb (fun f => String.eqb (f_opcode f) opcode) fs
  && negb (match accepted_forms ss fs sfx with [] => true | _ => false end)
  && docs_exact ss fs opcode sfx docs
  (* the Context method passes its parameters in order to the same-named constructor *)
  && match l2 with
     | Some (p2, c2, a2, d2) => list_eqb String.eqb p2 params && String.eqb c2 ("c.addinstruction(x86." ++ name)
                                && list_eqb String.eqb a2 p2 && layer_eq_docs d2 docs
     | None => false end
  (* the package-level function passes its parameters in order to the same-named Context method *)
  && match l3 with
     | Some (p3, c3, a3, d3) => list_eqb String.eqb p3 params && String.eqb c3 ("ctx." ++ name)
                                && list_eqb String.eqb a3 p3 && layer_eq_docs d3 docs
     | None => false end.

Definition bad_form_rows (ss : suffix_sets) (tab : list (N * list form)) : list N :=
  List.map fst (List.filter (fun e => negb (forallb (form_wf ss) (snd e))) tab).
Definition bad_ctor_rows (ss : suffix_sets) (tab : list (N * list form)) (cs : list ctor_row) : list N :=
  idx_where (fun r => negb (ctor_ok ss tab r)) cs.
