(* pass.Compile (pass/pass.go) restricted to one function: the passes in the order of the
   source (the order itself is re-read from pass/pass.go on every run and compared with
   `modelled_pass_order`). *)
From Avo Require Import Base.Prelude.
From stdpp Require Import gmap.
From Avo Require Import Base.MaskSet Model.IR Model.RegFile Model.CFG Model.Liveness Model.Alloc Model.Cleanup.
Open Scope N_scope.

Definition modelled_pass_order : list string :=
  ["Verify"; "PruneJumpToFollowingLabel"; "PruneDanglingLabels"; "LabelTarget"; "CFG";
   "ZeroExtend32BitOutputs"; "Liveness"; "AllocateRegisters"; "BindRegisters"; "VerifyAllocation";
   "EnsureBasePointerCalleeSaved"; "IncludeTextFlagHeader"; "PruneSelfMoves"; "RequiredISAExtensions"]%string.

Definition EMemNoBase := 30. Definition EMemScale0 := 31.
(* Verify: VerifyMemOperands over i.Operands *)
Definition verify_mem (i : instr) : res unit :=
  fold_left (fun acc o => do _ <- acc;
               match o with
               | OMem None _ _ _ _ _ => Err EMemNoBase
               | OMem (Some _) (Some _) 0 _ _ _ => Err EMemScale0
               | _ => OK tt
               end) (operands i) (OK tt).
Definition verify_mems (is : list instr) : res unit := fold_left (fun acc i => do _ <- acc; verify_mem i) is (OK tt).
(* VerifyLabels (added by "fix: report duplicate labels before unreferenced labels are pruned") *)
Fixpoint verify_labels (ns : list node) (seen : list string) : res unit :=
  match ns with
  | [] => OK tt
  | NLabel l :: r => if existsb (String.eqb l) seen then Err EDupLabel else verify_labels r (l :: seen)
  | _ :: r => verify_labels r seen
  end.
Definition verify_nodes (check_labels : bool) (ns : list node) : res unit :=
  do _ <- verify_mems (instructions ns); if check_labels then verify_labels ns [] else OK tt.
Definition verify (is : list instr) : res unit := verify_mems is.

(* RequiredISAExtensions: sorted unique list (sort.Strings = bytewise order) *)
Fixpoint str_leb (a b : string) : bool :=
  match a, b with
  | EmptyString, _ => true
  | String _ _, EmptyString => false
  | String x r, String y s => let nx := N_of_ascii x in let ny := N_of_ascii y in
                              if nx <? ny then true else if ny <? nx then false else str_leb r s
  end.
Fixpoint insert_str (x : string) (l : list string) : list string :=
  match l with [] => [x] | y :: r => if String.eqb x y then l else if str_leb x y then x :: l else y :: insert_str x r end.
Definition required_isa (is : list instr) : list string := fold_left (fun acc s => insert_str s acc) (flat_map isa is) [].

Record compiled := {
  c_nodes : list node;           (* final node list *)
  c_targets : list (string * nat);
  c_succs : list (list (option nat));
  c_live : st;                   (* liveness state (after zero-extension, before binding) *)
  c_alloc : AL;
  c_local : N;
  c_isa : list string
}.

Definition repl_instrs (ns : list node) (is : list instr) : list node :=
  (fix go ns is := match ns with
                   | [] => []
                   | NInstr _ :: r => match is with i :: is' => NInstr i :: go r is' | [] => go r [] end
                   | n :: r => n :: go r is
                   end) ns is.

Definition compile (rf : regfile) (f : func) : res compiled :=
  do _ <- verify_nodes true (fnodes f);
  let ns1 := prune_labels (prune_jumps (fnodes f)) in
  do tg <- label_target ns1;
  do succs <- cfg tg (instructions ns1);
  do is2 <- map_res (zero_extend_instr rf) (instructions ns1);
  do p <- mk_prog is2 succs;
  match liveness (liveness_fuel p) p with
  | None => Err EOutOfFuel
  | Some lvs =>
      do al <- allocate_registers rf is2 (List.map lout lvs);
      let is3 := List.map (bind_instr rf al) is2 in
      do _ <- verify_allocation is3;
      do loc <- ensure_bp rf is3 (fattrs f) (flocal f);
      do ns4 <- prune_self_moves (repl_instrs ns1 is3);
      OK {| c_nodes := ns4; c_targets := tg; c_succs := succs; c_live := lvs; c_alloc := al; c_local := loc;
            c_isa := required_isa (instructions ns4) |}
  end.
