(* C11: printer.NewGoAsm (printer/goasm.go, internal/prnt) as a reference printer producing
   structured lines, and a renderer. *)
From Avo Require Import Base.Prelude Base.Str.
From stdpp Require Import gmap.
From Avo Require Import Base.MaskSet Model.IR Model.RegFile Model.Data Model.Attr Model.AsmSyntax.
Open Scope string_scope.
Open Scope N_scope.

Record pfunc := { pf_name : string; pf_stub : string; pf_isa : list string; pf_attrs : N; pf_frame : N; pf_args : N; pf_nodes : list node }.
Record pglobal := { pg_sym : string; pg_static : bool; pg_attrs : N; pg_data : list datum; pg_value_text : list string; pg_size : N }.
Inductive psection := SFunc (f : pfunc) | SGlobal (g : pglobal).
Record pfile := { pl_warning : string; pl_constraints : string; pl_includes : list string; pl_sections : list psection }.

(* structured lines *)
Inductive line :=
| LBlank
| LComment (text : string)                       (* "// text" at column 0, right-trimmed *)
| LRaw (text : string)                           (* constraint block, already newline-terminated lines *)
| LInclude (path : string)
| LText (name : string) (attrs frame args : N)
| LInstr (width : nat) (i : instr)               (* width = alignment column of the block *)
| LLabel (name : string)
| LBodyComment (text : string)
| LData (sym : string) (static : bool) (d : datum) (value : string)
| LGlobl (sym : string) (static : bool) (attrs size : N).

(* strings.TrimSpace on "// " ++ s: only trailing white space can occur *)
Definition is_space (c : ascii) : bool := let n := N_of_ascii c in (n =? 32) || ((9 <=? n) && (n <=? 13)).
Fixpoint rtrim (s : string) : string :=
  match s with
  | EmptyString => EmptyString
  | String c r => let r' := rtrim r in if (match r' with EmptyString => true | _ => false end) && is_space c then EmptyString else String c r'
  end.
Definition comment_line (s : string) : string := rtrim ("// " ++ s).

Fixpoint pad_right (s : string) (w : nat) : string :=
  match w with O => s | S k => match s with EmptyString => String " "%char (pad_right EmptyString k) | String c r => String c (pad_right r k) end end.
Definition nl := String (ascii_of_N 10) "".
Definition tab := String (ascii_of_N 9) "".

Definition render_line (names : names_t) (rf : regfile) (l : line) : string :=
  match l with
  | LBlank => nl
  | LComment t => comment_line t ++ nl
  | LRaw t => t
  | LInclude p => "#include """ ++ p ++ """" ++ nl
  | LText n a fr ar => text_line names n a fr ar ++ nl
  | LInstr w i => match operands i with
                  | [] => tab ++ opcode_with_suffixes i ++ nl
                  | ops => tab ++ pad_right (opcode_with_suffixes i) (S w) ++ join_operands rf ops ++ nl
                  end
  | LLabel n => n ++ ":" ++ nl
  | LBodyComment t => tab ++ "// " ++ t ++ nl
  | LData sym st d v => data_prefix sym st d ++ v ++ nl
  | LGlobl sym st a sz => "GLOBL " ++ sym ++ (if st then "<>" else "") ++ "(SB), " ++ attr_asm names a ++ ", $" ++ dec_of_N sz ++ nl
  end.

(* the body: instruction blocks flushed at labels, comments, terminal instructions, unconditional
   branches and at the end; `clear` tracks whether a blank line separates from the previous block *)
Definition block_width (is : list instr) : nat :=
  fold_left (fun w i => match operands i with [] => w | _ => Nat.max w (String.length (opcode_with_suffixes i)) end) is 0%nat.
Definition flush (pending : list instr) : list line := let w := block_width pending in List.map (LInstr w) pending.
Fixpoint body_lines (ns : list node) (pending : list instr) (clear : bool) : list line :=
  match ns with
  | [] => flush pending
  | NInstr i :: r =>
      if is_terminal i || is_unconditional_branch i then flush (pending ++ [i]) ++ body_lines r [] false
      else body_lines r (pending ++ [i]) false
  | NLabel l :: r => flush pending ++ (if clear then [] else [LBlank]) ++ [LLabel l] ++ body_lines r [] true
  | NComment ls :: r => flush pending ++ (if clear then [] else [LBlank]) ++ List.map LBodyComment (flat_map (Str.split (ascii_of_N 10)) ls) ++ body_lines r [] true
  end.

Definition sorted_data (g : pglobal) : list (datum * string) :=
  (* goasm prints a copy of the data sorted by interval; the value texts travel with their datum *)
  let fix ins (x : datum * string) (l : list (datum * string)) := match l with [] => [x] | y :: r => if datum_le (fst y) (fst x) then y :: ins x r else x :: l end in
  fold_left (fun acc x => ins x acc) (List.combine (pg_data g) (pg_value_text g)) [].
Definition section_lines (s : psection) : list line :=
  match s with
  | SFunc f => [LBlank] ++ List.map LComment (Str.split (ascii_of_N 10) (pf_stub f))
               ++ (match pf_isa f with [] => [] | isa => [LComment ("Requires: " ++ Str.join ", " isa)] end)
               ++ [LText (pf_name f) (pf_attrs f) (pf_frame f) (pf_args f)]
               ++ body_lines (pf_nodes f) [] true
  | SGlobal g => [LBlank] ++ List.map (fun dv => LData (pg_sym g) (pg_static g) (fst dv) (snd dv)) (sorted_data g)
                 ++ [LGlobl (pg_sym g) (pg_static g) (pg_attrs g) (pg_size g)]
  end.
Definition file_lines (f : pfile) : list line :=
  List.map LComment (Str.split (ascii_of_N 10) (pl_warning f))
  ++ (if String.eqb (pl_constraints f) "" then [] else [LBlank; LRaw (pl_constraints f)])
  ++ (match pl_includes f with [] => [] | incs => LBlank :: List.map LInclude incs end)
  ++ flat_map section_lines (pl_sections f).
Definition print_file (names : names_t) (rf : regfile) (f : pfile) : string :=
  String.concat "" (List.map (render_line names rf) (file_lines f)).

(* what a reader of the structured lines recovers per function: the TEXT header and the
   instructions in order, with each label bound to the following instruction index *)
Fixpoint lines_instrs (ls : list line) : list instr := match ls with [] => [] | LInstr _ i :: r => i :: lines_instrs r | _ :: r => lines_instrs r end.
Fixpoint lines_labels (ls : list line) (idx : nat) : list (string * nat) :=
  match ls with [] => [] | LInstr _ _ :: r => lines_labels r (S idx) | LLabel l :: r => (l, idx) :: lines_labels r idx | _ :: r => lines_labels r idx end.
Fixpoint node_labels (ns : list node) (idx : nat) : list (string * nat) :=
  match ns with [] => [] | NInstr _ :: r => node_labels r (S idx) | NLabel l :: r => (l, idx) :: node_labels r idx | _ :: r => node_labels r idx end.

Definition print_case := (pfile * string)%type.
Definition print_agree (names : names_t) (rf : regfile) (c : print_case) : bool := String.eqb (print_file names rf (fst c)) (snd c).
