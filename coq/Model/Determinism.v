(* C17: every `range` over a Go map in hand-written avo code, with the theorem (Props/C17.v) that
   shows the modelled result does not depend on the enumeration order.  The harness re-reads the
   source on every run and fails when a ranged map appears that is not listed here. *)
From Avo Require Import Base.Prelude.
Open Scope string_scope.

Definition covered_ranges : list (string * string) := [
  ("pass/alloc.go:AddInterferenceSet:s", "interference_edges_order_free + allocate_after_interference_order_free: the recorded edges agree up to order, `possible` is the same map, and the allocation computed from the state is identical (allocate_order_free, update_edge_order_free)");
  ("pass/alloc.go:NewAllocator:idset", "sortregisters_canonical: the id list is sorted by (priority, id) with unique keys right after being built");
  ("pass/alloc.go:mostrestricted:a.possible", "most_restricted_order_free: minimum of (length, id) over unique keys");
  ("pass/isa.go:RequiredISAExtensions:set", "isa_sorted_unique: the list is sorted after being built from the set");
  ("pass/reg.go:AllocateRegisters:as", "allocators_independent: per-kind allocators have disjoint key sets; merge_order_free");
  ("reg/set.go:Clone:s", "ms_fold_add_order_free");
  ("reg/set.go:DifferenceUpdate:t", "ms_fold_discard_order_free");
  ("reg/set.go:Equals:s", "boolean result: conjunction over entries");
  ("reg/set.go:OfKind:s", "ms_fold_add_order_free");
  ("reg/set.go:Update:t", "ms_fold_add_order_free (set and changed flag)");
  ("reg/types.go:Merge:b", "merge_order_free: folding the entries in any order gives the same map or the same error")
].

Definition indices_of_uncovered (found : list string) : list N :=
  List.map (fun p => N.of_nat (fst p))
    (List.filter (fun p => negb (existsb (String.eqb (snd p)) (List.map fst covered_ranges))) (index_list found)).
