(* C04: a hand-written fragment of the x86-64 ISA (environment): the registers an opcode reads or
   writes implicitly, for the opcodes where this is practical to state.  Checked against every row
   of the translated form table. *)
From Avo Require Import Base.Prelude Base.Str.
From stdpp Require Import gmap.
From Avo Require Import Base.MaskSet Model.IR Model.RegFile Model.Forms.
Open Scope string_scope.
Open Scope N_scope.

Definition rspec := (N * N * N)%type.   (* kind, hardware number, byte-class mask *)
Definition AL_ : rspec := (1,0,1). Definition AH_ : rspec := (1,0,2). Definition AX_ : rspec := (1,0,3).
Definition EAX_ : rspec := (1,0,7). Definition RAX_ : rspec := (1,0,15).
Definition CX_ : rspec := (1,1,3). Definition ECX_ : rspec := (1,1,7). Definition RCX_ : rspec := (1,1,15).
Definition DX_ : rspec := (1,2,3). Definition EDX_ : rspec := (1,2,7). Definition RDX_ : rspec := (1,2,15).
Definition EBX_ : rspec := (1,3,7). Definition RBX_ : rspec := (1,3,15).
Definition RDI_ : rspec := (1,7,15). Definition X0_ : rspec := (2,0,31).

(* (opcode, arity filter (None = any), implicit reads, implicit writes) *)
Definition isa_implicit : list (string * option N * list rspec * list rspec) := [
  ("MULB", None, [AL_], [AX_]); ("MULW", None, [AX_], [AX_; DX_]); ("MULL", None, [EAX_], [EAX_; EDX_]); ("MULQ", None, [RAX_], [RAX_; RDX_]);
  ("IMULB", Some 1, [AL_], [AX_]); ("IMULW", Some 1, [AX_], [AX_; DX_]); ("IMULL", Some 1, [EAX_], [EAX_; EDX_]); ("IMULQ", Some 1, [RAX_], [RAX_; RDX_]);
  ("DIVB", None, [AX_], [AX_]); ("DIVW", None, [AX_; DX_], [AX_; DX_]); ("DIVL", None, [EAX_; EDX_], [EAX_; EDX_]); ("DIVQ", None, [RAX_; RDX_], [RAX_; RDX_]);
  ("IDIVB", None, [AX_], [AX_]); ("IDIVW", None, [AX_; DX_], [AX_; DX_]); ("IDIVL", None, [EAX_; EDX_], [EAX_; EDX_]); ("IDIVQ", None, [RAX_; RDX_], [RAX_; RDX_]);
  ("CBW", None, [AL_], [AX_]); ("CWD", None, [AX_], [DX_]); ("CDQ", None, [EAX_], [EDX_]); ("CQO", None, [RAX_], [RDX_]);
  ("CWDE", None, [AX_], [EAX_]); ("CDQE", None, [EAX_], [RAX_]);
  ("CMPXCHGB", None, [AL_], [AL_]); ("CMPXCHGW", None, [AX_], [AX_]); ("CMPXCHGL", None, [EAX_], [EAX_]); ("CMPXCHGQ", None, [RAX_], [RAX_]);
  ("CMPXCHG8B", None, [EAX_; EDX_; EBX_; ECX_], [EAX_; EDX_]); ("CMPXCHG16B", None, [RAX_; RDX_; RBX_; RCX_], [RAX_; RDX_]);
  ("RDTSC", None, [], [EAX_; EDX_]); ("RDTSCP", None, [], [EAX_; EDX_; ECX_]);
  ("CPUID", None, [EAX_; ECX_], [EAX_; EBX_; ECX_; EDX_]); ("XGETBV", None, [ECX_], [EAX_; EDX_]);
  ("LAHF", None, [], [AH_]); ("SAHF", None, [AH_], []);
  ("MULXL", None, [EDX_], []); ("MULXQ", None, [RDX_], []);
  ("PCMPESTRI", None, [EAX_; EDX_], [ECX_]); ("PCMPESTRM", None, [EAX_; EDX_], [X0_]); ("PCMPISTRI", None, [], [ECX_]); ("PCMPISTRM", None, [], [X0_]);
  ("VPCMPESTRI", None, [EAX_; EDX_], [ECX_]); ("VPCMPESTRM", None, [EAX_; EDX_], [X0_]); ("VPCMPISTRI", None, [], [ECX_]); ("VPCMPISTRM", None, [], [X0_]);
  ("MASKMOVDQU", None, [RDI_], []); ("MASKMOVOU", None, [RDI_], []); ("VMASKMOVDQU", None, [RDI_], []);
  ("XLAT", None, [AL_; RBX_], [AL_]);
  ("JCXZL", None, [ECX_], []); ("JCXZQ", None, [RCX_], []); ("JECXZ", None, [ECX_], []);
  ("BLENDVPD", None, [X0_], []); ("BLENDVPS", None, [X0_], []); ("PBLENDVB", None, [X0_], []); ("SHA256RNDS2", None, [X0_], []);
  (* clears the upper halves of every vector register: at least some output must be declared *)
  ("VZEROUPPER", None, [], [X0_]); ("VZEROALL", None, [], [X0_])
].

Definition fixed_type_spec (t : string) : option rspec :=
  if String.eqb t "AL" then Some AL_ else if String.eqb t "AX" then Some AX_ else if String.eqb t "EAX" then Some EAX_
  else if String.eqb t "RAX" then Some RAX_ else if String.eqb t "CL" then Some (1,1,1) else if String.eqb t "XMM0" then Some X0_ else None.
Definition operand_spec (o : foperand) : option rspec :=
  if fo_implicit o then match fo_implreg o with Some r => Some (id_kind (rid r), id_index (rid r), rmask r) | None => None end
  else fixed_type_spec (fo_type o).
Definition covers (declared : rspec) (required : rspec) (is_write : bool) : bool :=
  let '(k, i, m) := declared in let '(k', i', m') := required in
  (* a declared 32-bit write counts as a 64-bit write *)
  let m := if is_write && (k =? 1) && (m =? 7) then 15 else m in
  (k =? k') && (i =? i') && (N.land m m' =? m').
Definition declares (f : form) (required : rspec) (is_write : bool) : bool :=
  existsb (fun o => match operand_spec o with
                    | Some d => covers d required is_write && (if is_write then act_write (fo_action o) else act_read (fo_action o))
                    | None => false end) (f_operands f).
Definition implicit_ok (f : form) : bool :=
  forallb (fun e => let '(opc, ar, rs, ws) := e in
     negb (String.eqb opc (f_opcode f)) || match ar with Some a => negb (a =? f_arity f) | None => false end
     || (forallb (fun r => declares f r false) rs && forallb (fun w => declares f w true) ws)) isa_implicit.

(* gather/scatter with a completion mask in a K register: the mask is cleared as elements complete,
   so it is written as well as read *)
Definition is_gather_scatter (opc : string) : bool :=
  existsb (fun p => String.eqb (substring 0 (String.length p) opc) p) ["VGATHER"; "VPGATHER"; "VSCATTER"; "VPSCATTER"]%string.
Definition gather_mask_ok (f : form) : bool :=
  negb (is_gather_scatter (f_opcode f)) ||
  forallb (fun o => negb (negb (fo_implicit o) && String.eqb (fo_type o) "K") || (act_read (fo_action o) && act_write (fo_action o))) (f_operands f).
