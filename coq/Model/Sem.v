(* C01: an abstract machine at register-byte-class granularity.  An instruction reads the classes
   it declares as inputs, writes the classes it declares as outputs (positionally), may change
   memory and chooses the next instruction; WHAT it computes is a parameter (`F`), so the result
   holds for any instruction semantics that respects the declared reads/writes (the C04 contract). *)
From Avo Require Import Base.Prelude.
Open Scope N_scope.

Definition loc := (N * N)%type.                      (* (register ID, byte class) *)
Definition loc_eqb (a b : loc) : bool := (fst a =? fst b) && (snd a =? snd b).
Record minstr := { m_uses : list loc; m_defs : list loc; m_succ : list nat }.
Definition rename (s : N -> N) (l : loc) : loc := (s (fst l), snd l).
Definition rename_instr (s : N -> N) (i : minstr) : minstr :=
  {| m_uses := List.map (rename s) (m_uses i); m_defs := List.map (rename s) (m_defs i); m_succ := m_succ i |}.

Section Machine.
Variables (val memt : Type).
Variable F : nat -> list val -> memt -> list val * memt * option nat.    (* per program point *)
Definition rstate := loc -> val.
Definition upd (R : rstate) (l : loc) (v : val) : rstate := fun x => if loc_eqb x l then v else R x.
Fixpoint write (R : rstate) (ds : list loc) (vs : list val) : rstate :=
  match ds, vs with d :: ds', v :: vs' => write (upd R d v) ds' vs' | _, _ => R end.
Definition mstate := (nat * rstate * memt)%type.
Definition mstep (P : list minstr) (st : mstate) : option mstate :=
  let '(pc, R, m) := st in
  match List.nth_error P pc with
  | None => None
  | Some i => let '(outs, m', npc) := F pc (List.map R (m_uses i)) m in
              match npc with Some n => Some (n, write R (m_defs i) outs, m') | None => None end
  end.
Fixpoint mrun (P : list minstr) (n : nat) (st : mstate) : option mstate :=
  match n with O => Some st | S k => match mstep P st with Some st' => mrun P k st' | None => None end end.
End Machine.

(* expansion of (id, mask) pairs into byte classes *)
Definition locs_of (id mask : N) : list loc :=
  List.map (fun k => (id, k)) (List.filter (fun k => N.testbit mask k) [0;1;2;3;4;5;6;7;8;9;10;11;12;13;14;15]).
