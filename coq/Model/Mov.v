(* C08: Context.mov (build/zmov.go, translated row by row on every run), Load/Store
   (build/pseudo.go), and an environment table of what the Go assembler's move mnemonics do. *)
From Avo Require Import Base.Prelude Base.Str.
From stdpp Require Import gmap.
From Avo Require Import Base.MaskSet Model.IR Model.RegFile Model.Forms.
Open Scope string_scope.
Open Scope N_scope.

Record movrow := { m_an : N; m_pa : string; m_bn : N; m_pb : string; m_cond : string; m_op : string }.
(* go/types BasicInfo bits *)
Definition IsBoolean := 1. Definition IsInteger := 2. Definition IsUnsigned := 4. Definition IsFloat := 8.
Definition cond_ok (cond : string) (ti : N) : bool :=
  if String.eqb cond "intbool" then negb (N.land ti 3 =? 0)
  else if String.eqb cond "signed" then N.land ti 6 =? 2
  else if String.eqb cond "unsigned" then N.land ti 6 =? 6
  else if String.eqb cond "bool" then negb (N.land ti 1 =? 0)
  else if String.eqb cond "float" then negb (N.land ti 8 =? 0)
  else false.
Definition row_matches (rf : regfile) (r : movrow) (a b : operand) (an bn ti : N) : bool :=
  ((m_an r =? 0) || (an =? m_an r)) && type_match rf (m_pa r) a && ((m_bn r =? 0) || (bn =? m_bn r)) && type_match rf (m_pb r) b && cond_ok (m_cond r) ti.
Definition mov_deduce (rf : regfile) (tab : list movrow) (a b : operand) (an bn ti : N) : option string :=
  option_map m_op (List.find (fun r => row_matches rf r a b an bn ti) tab).

(* ---- environment: the move mnemonics (Go assembler meaning) ----
   (bytes of memory accessed when one side is memory; 0 = the width of the vector register;
    for GP destinations: width the result is extended to and how) *)
Inductive ext := XSame | XZero | XSign.
Definition mov_sem (op : string) : option (N * N * ext) :=
  let t := [("MOVB", (1, 1, XSame)); ("MOVW", (2, 2, XSame)); ("MOVL", (4, 4, XSame)); ("MOVQ", (8, 8, XSame));
            ("MOVBLSX", (1, 4, XSign)); ("MOVBLZX", (1, 4, XZero)); ("MOVBQSX", (1, 8, XSign)); ("MOVBQZX", (1, 8, XZero));
            ("MOVBWSX", (1, 2, XSign)); ("MOVBWZX", (1, 2, XZero)); ("MOVWLSX", (2, 4, XSign)); ("MOVWLZX", (2, 4, XZero));
            ("MOVWQSX", (2, 8, XSign)); ("MOVWQZX", (2, 8, XZero)); ("MOVLQSX", (4, 8, XSign)); ("MOVLQZX", (4, 8, XZero));
            ("MOVSS", (4, 4, XSame)); ("MOVSD", (8, 8, XSame)); ("MOVOU", (16, 16, XSame));
            ("VMOVD", (4, 4, XSame)); ("VMOVQ", (8, 8, XSame)); ("VMOVSS", (4, 4, XSame)); ("VMOVSD", (8, 8, XSame));
            ("VMOVDQU", (0, 0, XSame)); ("VMOVDQU8", (0, 0, XSame)); ("VMOVDQU16", (0, 0, XSame)); ("VMOVDQU32", (0, 0, XSame)); ("VMOVDQU64", (0, 0, XSame));
            ("KMOVB", (1, 1, XSame)); ("KMOVW", (2, 2, XSame)); ("KMOVD", (4, 4, XSame)); ("KMOVQ", (8, 8, XSame))] in
  option_map snd (List.find (fun e => String.eqb (fst e) op) t).

(* basic kinds of a component: (name, size, BasicInfo) *)
Definition kinds : list (string * N * N) :=
  [("bool",1,1); ("int8",1,2); ("int16",2,2); ("int32",4,2); ("int64",8,2); ("uint8",1,6); ("uint16",2,6); ("uint32",4,6);
   ("uint64",8,6); ("uintptr",8,6); ("float32",4,8); ("float64",8,8)].
(* register classes: (operand-type name, size, is general purpose) *)
Definition regclasses : list (string * N * bool) :=
  [("R8",1,true); ("R16",2,true); ("R32",4,true); ("R64",8,true); ("XMM",16,false); ("YMM",32,false); ("ZMM",64,false); ("K",8,false)].

(* what Load(component of kind k at memory -> register of class rc) must do *)
Definition load_ok (op : string) (ksize ti : N) (rsize : N) (gp : bool) : bool :=
  match mov_sem op with
  | None => false
  | Some (mw, dw, e) =>
      let access := if mw =? 0 then rsize else mw in
      (access =? ksize)                                   (* exactly the component's bytes are read *)
      && (negb gp ||                                        (* vector/mask: value in the low bytes *)
          if rsize =? ksize then (dw =? ksize)
          else (dw =? rsize) && match e with
                                | XSign => N.land ti 6 =? 2                 (* signed integers sign-extend *)
                                | XZero => negb (N.land ti 6 =? 2) && negb (N.land ti 7 =? 0)   (* unsigned and bool zero-extend *)
                                | XSame => false end)
  end.
Definition store_ok (op : string) (ksize rsize : N) : bool :=
  match mov_sem op with
  | None => false
  | Some (mw, dw, e) => let access := if mw =? 0 then rsize else mw in (access =? ksize) && (ksize <=? rsize)
  end.

(* representative operands of a class are supplied by the harness: (class name, operand) *)
Definition rep_of (reps : list (string * operand)) (c : string) : option operand := option_map snd (List.find (fun e => String.eqb (fst e) c) reps).
Definition mem_rep : operand := OMem (Some {| rid := 0; rmask := 0; rtag := 16 |}) None 0 8 "x" false.

(* result per (kind, class, direction): None = error reported, Some op *)
Definition deduce_load (rf : regfile) (tab : list movrow) (reps : list (string * operand)) (k : string * N * N) (rc : string * N * bool) : option string :=
  match rep_of reps (fst (fst rc)) with Some r => mov_deduce rf tab mem_rep r (snd (fst k)) (snd (fst rc)) (snd k) | None => None end.
Definition deduce_store (rf : regfile) (tab : list movrow) (reps : list (string * operand)) (k : string * N * N) (rc : string * N * bool) : option string :=
  match rep_of reps (fst (fst rc)) with Some r => mov_deduce rf tab r mem_rep (snd (fst rc)) (snd (fst k)) (snd k) | None => None end.
Definition pair_ok (rf : regfile) (tab : list movrow) (reps : list (string * operand)) (store : bool) (k : string * N * N) (rc : string * N * bool) : bool :=
  if store then match deduce_store rf tab reps k rc with None => true | Some op => store_ok op (snd (fst k)) (snd (fst rc)) end
  else match deduce_load rf tab reps k rc with None => true | Some op => load_ok op (snd (fst k)) (snd k) (snd (fst rc)) (snd rc) end.
Definition all_pairs : list (bool * (string * N * N) * (string * N * bool)) :=
  flat_map (fun st => flat_map (fun k => List.map (fun rc => (st, k, rc)) regclasses) kinds) [false; true].
Definition bad_pairs (rf : regfile) (tab : list movrow) (reps : list (string * operand)) : list N :=
  idx_where (fun p => negb (pair_ok rf tab reps (fst (fst p)) (snd (fst p)) (snd p))) all_pairs.
(* the same statement with a set of excluded (known-finding) pair indices *)
Definition mov_table_ok (rf : regfile) (tab : list movrow) (reps : list (string * operand)) (excl : list N) : bool :=
  forallb (fun i => existsb (N.eqb i) excl) (bad_pairs rf tab reps).

(* correspondence: observed opcode appended by Context.Load/Store (None = error, nothing appended) *)
Definition mov_case := (bool * N * N * string * option string)%type.   (* store?, kind index, class index, register text, observed *)
Definition mov_agree (rf : regfile) (tab : list movrow) (reps : list (string * operand)) (c : mov_case) : bool :=
  let '(st, ki, ci, _, obs) := c in
  match List.nth_error kinds (N.to_nat ki), List.nth_error regclasses (N.to_nat ci) with
  | Some k, Some rc => option_eqb String.eqb (if st then deduce_store rf tab reps k rc else deduce_load rf tab reps k rc) obs
  | _, _ => false
  end.
Definition mov_impl_ok (c : mov_case) : bool :=
  let '(st, ki, ci, _, obs) := c in
  match List.nth_error kinds (N.to_nat ki), List.nth_error regclasses (N.to_nat ci), obs with
  | Some k, Some rc, Some op => if st then store_ok op (snd (fst k)) (snd (fst rc)) else load_ok op (snd (fst k)) (snd k) (snd (fst rc)) (snd rc)
  | Some _, Some _, None => true
  | _, _, _ => false
  end.
