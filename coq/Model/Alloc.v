(* C01/C03/C17: pass.Allocator (pass/alloc.go) and pass.AllocateRegisters / BindRegisters /
   VerifyAllocation / EnsureBasePointerCalleeSaved / ZeroExtend32BitOutputs (pass/reg.go). *)
From Avo Require Import Base.Prelude.
From stdpp Require Import gmap.
From Avo Require Import Base.MaskSet Model.IR Model.RegFile Model.Liveness.
Open Scope N_scope.

Definition EUnknownFamily := 20. Definition ENoAllocatable := 21. Definition EImpossible := 22.
Definition EFailedAlloc := 23. Definition EDisagree := 24. Definition ENonPhysical := 25. Definition ENoFrameBP := 26.
Definition ENotGP := 27.
Definition EOutOfFuel := 99.
Definition PNilAllocator := 2. Definition PNotGP := 4. Definition PSelfMoveIndex := 3.

Notation AL := (gmap N N).            (* reg.Allocation: virtual ID -> physical ID *)
Notation POSS := (gmap N (list N)).   (* Allocator.possible *)

Record astate := { a_regs : list N; a_alloc : AL; a_edges : list (N * N); a_poss : POSS }.

Definition a_add (a : astate) (v : N) : astate :=
  if negb (id_is_virtual v) then a
  else match a_poss a !! v with
       | Some _ => a
       | None => {| a_regs := a_regs a; a_alloc := a_alloc a; a_edges := a_edges a;
                    a_poss := <[v := List.filter (fun r => id_kind v =? id_kind r) (a_regs a)]> (a_poss a) |}
       end.
Definition a_add_interference (a : astate) (x y : N) : astate :=
  let a1 := a_add (a_add a x) y in
  {| a_regs := a_regs a1; a_alloc := a_alloc a1; a_edges := a_edges a1 ++ [(x, y)]; a_poss := a_poss a1 |}.
(* AddInterferenceSet(r, s): the Go code ranges over the map s; `order` is that enumeration *)
Definition a_add_interference_set (a : astate) (d : reg) (order : list (N * N)) : astate :=
  fold_left (fun acc e => if negb (N.land (rmask d) (snd e) =? 0) then a_add_interference acc (rid d) (fst e) else acc) order a.

Definition lookup_default (al : AL) (id : N) : N := default id (al !! id).
Definition discard_conflicting (po : POSS) (v p : N) : POSS :=
  <[v := List.filter (fun r => negb (r =? p)) (default [] (po !! v))]> po.

(* update(): one pass over the edge list *)
Fixpoint a_update_go (al : AL) (es : list (N * N)) (rem : list (N * N)) (po : POSS) : res (list (N * N) * POSS) :=
  match es with
  | [] => OK (rem, po)
  | (ex, ey) :: r =>
      let x := lookup_default al ex in let y := lookup_default al ey in
      match id_is_virtual x, id_is_virtual y with
      | true, true => a_update_go al r (rem ++ [(ex, ey)]) po
      | false, false => if x =? y then Err EImpossible else a_update_go al r rem po
      | false, true => a_update_go al r rem (discard_conflicting po y x)
      | true, false => a_update_go al r rem (discard_conflicting po x y)
      end
  end.
(* mostrestricted(): the Go code ranges over the map `possible`; any enumeration order *)
Definition most_restricted (order : list (N * list N)) : N :=
  snd (fold_left (fun (acc : N * N) e =>
                    let n := N.of_nat (length (snd e)) in
                    if (n <? fst acc) || ((n =? fst acc) && (fst e <? snd acc)) then (n, fst e) else acc)
                 order (2147483647, 0)).

Fixpoint a_allocate (fuel : nat) (a : astate) : res AL :=
  match fuel with
  | O => Err EOutOfFuel
  | S f =>
      do up <- a_update_go (a_alloc a) (a_edges a) [] (a_poss a);
      let '(rem, po) := up in
      if Nat.eqb (size po) 0 then OK (a_alloc a)
      else let v := most_restricted (map_to_list po) in
           match default [] (po !! v) with
           | [] => Err EFailedAlloc
           | pch :: _ => a_allocate f {| a_regs := a_regs a; a_alloc := <[v := pch]> (a_alloc a); a_edges := rem; a_poss := delete v po |}
           end
  end.

(* AllocateRegisters *)
Notation ALLOCS := (gmap N astate).
Definition new_allocator (rf : regfile) (k : N) : res astate :=
  if negb (family_exists k) then Err EUnknownFamily
  else match colours rf k with
       | [] => Err ENoAllocatable
       | cs => OK {| a_regs := cs; a_alloc := ∅; a_edges := []; a_poss := ∅ |}
       end.
Fixpoint init_allocators (rf : regfile) (rs : list reg) (asx : ALLOCS) : res ALLOCS :=
  match rs with
  | [] => OK asx
  | r :: rest => let k := reg_kind r in
      match asx !! k with
      | Some _ => init_allocators rf rest asx
      | None => do a <- new_allocator rf k; init_allocators rf rest (<[k := a]> asx)
      end
  end.
Definition add_all (rs : list reg) (asx : ALLOCS) : ALLOCS :=
  fold_left (fun acc r => match acc !! reg_kind r with Some a => <[reg_kind r := a_add a (rid r)]> acc | None => acc end) rs asx.
(* interference of one instruction: for d in OutputRegisters: out = LiveOut.OfKind(k) minus d *)
Definition interfere1 (asx : ALLOCS) (liveout : MS) (d : reg) : res ALLOCS :=
  let k := reg_kind d in
  let out := ms_discard (ms_of_kind liveout k) (rid d) (rmask d) in
  match asx !! k with
  | None => OK asx   (* no operand of this kind: nothing to allocate (since "fix: no nil allocator ...") *)
  | Some a => OK (<[k := a_add_interference_set a d (map_to_list out)]> asx)
  end.
Fixpoint interfere (asx : ALLOCS) (l : list (instr * MS)) : res ALLOCS :=
  match l with
  | [] => OK asx
  | (i, lo) :: rest =>
      do asx' <- fold_left (fun acc d => do a <- acc; interfere1 a lo d) (output_registers i) (OK asx);
      interfere asx' rest
  end.
Definition merge_alloc (a b : AL) : res AL :=
  map_fold (fun id p acc => do m <- acc;
              match m !! id with Some alt => if alt =? p then OK (<[id := p]> m) else Err EDisagree | None => OK (<[id := p]> m) end) (OK a) b.
Definition allocate_registers (rf : regfile) (is : list instr) (liveouts : list MS) : res AL :=
  let allregs := flat_map instr_registers is in
  do as0 <- init_allocators rf allregs ∅;
  let as1 := add_all allregs as0 in
  do as2 <- interfere as1 (List.combine is liveouts);
  fold_left (fun acc ka => do m <- acc; do al <- a_allocate (S (size (a_poss (snd ka)))) (snd ka); merge_alloc m al)
            (map_to_list as2) (OK ∅).

(* BindRegisters *)
Definition lookup_register_default (rf : regfile) (al : AL) (r : reg) : reg :=
  if negb (reg_is_virtual r) then r
  else match al !! rid r with
       | None => r
       | Some pid => match lookup_id rf pid (rmask r) with Some p => reg_of_preg p | None => r end
       end.
Definition apply_allocation (rf : regfile) (al : AL) (o : operand) : operand :=
  match o with
  | OReg r => OReg (lookup_register_default rf al r)
  | OMem b i s d y t => OMem (option_map (lookup_register_default rf al) b) (option_map (lookup_register_default rf al) i) s d y t
  | _ => o
  end.
Definition bind_instr (rf : regfile) (al : AL) (i : instr) : instr :=
  {| opcode := opcode i; suffixes := suffixes i;
     operands := List.map (apply_allocation rf al) (operands i);
     inputs := List.map (apply_allocation rf al) (inputs i);
     outputs := List.map (apply_allocation rf al) (outputs i);
     is_terminal := is_terminal i; is_branch := is_branch i; is_conditional := is_conditional i;
     cancelling := cancelling i; isa := isa i |}.
Definition map_instrs (f : instr -> instr) (ns : list node) : list node :=
  List.map (fun n => match n with NInstr i => NInstr (f i) | _ => n end) ns.

Definition verify_allocation (is : list instr) : res unit :=
  if forallb (fun i => forallb (fun r => negb (reg_is_virtual r)) (instr_registers i)) is then OK tt else Err ENonPhysical.

(* ZeroExtend32BitOutputs: IsR32 = GP kind and size 4; the register must implement reg.GP
   (wrapper tags: 1 = gpv; physical GP registers are all gpp) else panic; As64 of a physical
   register looks the 64-bit view up *)
Definition is_r32 (o : operand) : bool :=
  match o with OReg r => (reg_kind r =? KindGP) && (spec_size (rmask r) =? 4) | _ => false end.
Definition zero_extend_op (rf : regfile) (o : operand) : res operand :=
  match o with
  | OReg r => if is_r32 o then
                if reg_is_virtual r then (if rtag r =? 1 then OK (OReg {| rid := rid r; rmask := 15; rtag := rtag r |}) else Err ENotGP)
                else match family_lookup rf KindGP (id_index (rid r)) 15 with
                     | Some p => OK (OReg (reg_of_preg_wrapped p)) | None => Panic PNotGP end
              else OK o
  | _ => OK o
  end.
Fixpoint map_res {A B} (f : A -> res B) (l : list A) : res (list B) :=
  match l with [] => OK [] | x :: r => do y <- f x; do ys <- map_res f r; OK (y :: ys) end.
Definition zero_extend_instr (rf : regfile) (i : instr) : res instr :=
  do outs <- map_res (zero_extend_op rf) (outputs i);
  OK {| opcode := opcode i; suffixes := suffixes i; operands := operands i; inputs := inputs i; outputs := outs;
        is_terminal := is_terminal i; is_branch := is_branch i; is_conditional := is_conditional i;
        cancelling := cancelling i; isa := isa i |}.

(* EnsureBasePointerCalleeSaved: returns the new LocalSize *)
Definition NOFRAME := 512.
Definition clobbers_bp (rf : regfile) (is : list instr) : bool :=
  existsb (fun i => existsb (fun r => negb (reg_is_virtual r) &&
                       match preg_of_reg rf r with Some p => negb (N.land (p_info p) InfoBasePointer =? 0) | None => false end)
                     (output_registers i)) is.
Definition ensure_bp (rf : regfile) (is : list instr) (attrs localsize : N) : res N :=
  if negb (clobbers_bp rf is) then OK localsize
  else if negb (N.land attrs NOFRAME =? 0) then Err ENoFrameBP
  else OK (if localsize =? 0 then 8 else localsize).
