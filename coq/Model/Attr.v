(* C19: model of attr.Attribute.Asm / ContainsTextFlags / split (attr/attr.go), of
   pass.IncludeTextFlagHeader (pass/textflag.go) and of the flag field of the TEXT/GLOBL
   directives printed by printer/goasm.go; environment model: how the assembler evaluates
   a flag expression after the C preprocessor has substituted textflag.h macros. *)
From Avo Require Import Base.Prelude Base.Str.
Open Scope string_scope.
Open Scope N_scope.

Definition names_t := list (N * string).    (* attr/ztextflag.go: attrname map, bit value -> name *)
Definition header_t := list (string * N).   (* $GOROOT/src/runtime/textflag.h: #define NAME value *)

Fixpoint lookup_name (names : names_t) (bit : N) : string :=
  match names with
  | [] => ""                                   (* Go map miss yields "" *)
  | (v, nm) :: r => if v =? bit then nm else lookup_name r bit
  end.
Fixpoint lookup_macro (h : header_t) (nm : string) : option N :=
  match h with
  | [] => None
  | (k, v) :: r => if String.eqb k nm then Some v else lookup_macro r nm
  end.

(* split: iterate set bits of the uint16 from least significant (bits.TrailingZeros16) *)
Fixpoint split_bits (names : names_t) (a : N) (i : N) (n : nat) : list string * N :=
  match n with
  | O => ([], 0)
  | S k =>
    let '(flags, rest) := split_bits names a (i + 1) k in
    if N.testbit a i then
      let bit := N.shiftl 1 i in
      let nm := lookup_name names bit in
      if String.eqb nm "" then (flags, N.lor rest bit) else (nm :: flags, rest)
    else (flags, rest)
  end.
Definition attr_split (names : names_t) (a : N) : list string * N := split_bits names a 0 16.

Definition attr_asm (names : names_t) (a : N) : string :=
  let '(parts, rest) := attr_split names a in
  let parts' := if (match parts with [] => true | _ => false end) || negb (rest =? 0)
                then app parts [dec_of_N rest] else parts in
  join "|" parts'.

Definition contains_text_flags (names : names_t) (a : N) : bool :=
  match fst (attr_split names a) with [] => false | _ => true end.

(* environment: the assembler's view of the expression text *)
Definition eval_token (h : header_t) (tok : string) : option N :=
  match parse_dec tok with
  | Some v => Some v
  | None => lookup_macro h tok
  end.
Fixpoint eval_tokens (h : header_t) (toks : list string) : option N :=
  match toks with
  | [] => Some 0
  | t :: r => match eval_token h t, eval_tokens h r with
              | Some a, Some b => Some (N.lor a b)
              | _, _ => None
              end
  end.
Definition eval_flags (h : header_t) (text : string) : option N := eval_tokens h (split "|"%char text).

(* does the text mention a macro name (a token that is not a decimal literal)? *)
Definition uses_macro (text : string) : bool :=
  existsb (fun t => match parse_dec t with Some _ => false | None => true end) (split "|"%char text).

(* pass.IncludeTextFlagHeader on (includes, attributes of the sections in order) *)
Definition textflag_header := "textflag.h".
Definition include_textflag (names : names_t) (includes : list string) (attrs : list N) : list string :=
  if existsb (String.eqb textflag_header) includes then includes
  else if existsb (contains_text_flags names) attrs then app includes [textflag_header]
  else includes.

(* flag field of the printed directives (printer/goasm.go) *)
Definition text_flag_field (names : names_t) (a : N) : option string :=
  if a =? 0 then None else Some (attr_asm names a).       (* "TEXT ·f(SB), <field>, $..." *)
Definition globl_flag_field (names : names_t) (a : N) : string := attr_asm names a.
Definition eval_text_field (h : header_t) (f : option string) : option N :=
  match f with None => Some 0 | Some t => eval_flags h t end.

(* whole directive lines, for comparison with printer output (names known to be plain) *)
Definition middle_dot := bs [194; 183].
Definition text_line (names : names_t) (fname : string) (a : N) (frame args : N) : string :=
  "TEXT " ++ middle_dot ++ fname ++ "(SB)" ++
  (match text_flag_field names a with None => "" | Some f => ", " ++ f end) ++
  ", $" ++ dec_of_N frame ++ (if args =? 0 then "" else "-" ++ dec_of_N args).
Definition globl_line (names : names_t) (sym : string) (a : N) (size : N) : string :=
  "GLOBL " ++ sym ++ "(SB), " ++ globl_flag_field names a ++ ", $" ++ dec_of_N size.

(* reading the flag field back out of a directive line: fields separated by "," *)
Fixpoint ltrim (s : string) : string :=
  match s with String " "%char r => ltrim r | _ => s end.
Definition directive_flag_field (line : string) : option string :=
  match split ","%char line with
  | [_; f; _] => Some (ltrim f)
  | [_; _] => None
  | _ => Some "<malformed>"
  end.

(* the per-value check used for the exhaustive (65536-value) reflective proof *)
Definition attr_value_ok (names : names_t) (h : header_t) (a : N) : bool :=
  let t := attr_asm names a in
  option_eqb N.eqb (eval_flags h t) (Some a)
  && Bool.eqb (uses_macro t) (contains_text_flags names a)
  && option_eqb N.eqb (eval_text_field h (text_flag_field names a)) (Some a)
  && option_eqb N.eqb (eval_text_field h (directive_flag_field (text_line names "f" a 0 0))) (Some a)
  && option_eqb N.eqb (eval_text_field h (directive_flag_field (globl_line names "g<>" a 8))) (Some a).
Definition attr_chunk_ok (names : names_t) (h : header_t) (start : N) (len : N) : bool :=
  forallb (attr_value_ok names h) (Nrange_from start (N.to_nat len)).
Definition attr_chunk_bad (names : names_t) (h : header_t) (start : N) (len : N) : list N :=
  filter (fun a => negb (attr_value_ok names h a)) (Nrange_from start (N.to_nat len)).
(* all 65536 values as 16 chunks of 4096 (checked in parallel shards) *)
Definition attr_table_ok (names : names_t) (h : header_t) : Prop :=
  forall k, k < 16 -> attr_chunk_ok names h (k * 4096) 4096 = true.

(* correspondence with the implementation: Asm() text and ContainsTextFlags() for value a *)
Definition attr_agree (names : names_t) (a : N) (impl : string * bool) : bool :=
  String.eqb (attr_asm names a) (fst impl) && Bool.eqb (contains_text_flags names a) (snd impl).
Fixpoint attr_mismatches (names : names_t) (a : N) (impl : list (string * bool)) : list N :=
  match impl with
  | [] => []
  | x :: r => let rest := attr_mismatches names (a + 1) r in
              if attr_agree names a x then rest else a :: rest
  end.
(* the specification evaluated on the implementation's own output *)
Definition attr_impl_ok (h : header_t) (a : N) (impl : string * bool) : bool :=
  option_eqb N.eqb (eval_flags h (fst impl)) (Some a) && Bool.eqb (uses_macro (fst impl)) (snd impl).
Fixpoint attr_impl_violations (h : header_t) (a : N) (impl : list (string * bool)) : list N :=
  match impl with
  | [] => []
  | x :: r => let rest := attr_impl_violations h (a + 1) r in
              if attr_impl_ok h a x then rest else a :: rest
  end.

(* printed directive lines: (attr, frame, args, TEXT line, GLOBL size, GLOBL line) *)
Definition line_case := (N * N * N * string * N * string)%type.
Definition line_agree (names : names_t) (c : line_case) : bool :=
  let '(a, frame, args, tl, gsz, gl) := c in
  String.eqb (text_line names "f" a frame args) tl && String.eqb (globl_line names "g<>" a gsz) gl.
Definition line_impl_ok (h : header_t) (c : line_case) : bool :=
  let '(a, frame, args, tl, gsz, gl) := c in
  option_eqb N.eqb (eval_text_field h (directive_flag_field tl)) (Some a)
  && option_eqb N.eqb (eval_text_field h (directive_flag_field gl)) (Some a).

(* IncludeTextFlagHeader cases: (includes before, section attrs, includes after) *)
Definition incl_case := (list string * list N * list string)%type.
Definition incl_agree (names : names_t) (c : incl_case) : bool :=
  let '(inc, attrs, out) := c in list_eqb String.eqb (include_textflag names inc attrs) out.
(* spec on impl output: if some section's flag text uses a macro, the header is among the
   includes afterwards; the pass only ever appends that one header, at most once *)
Definition incl_impl_ok (names : names_t) (c : incl_case) : bool :=
  let '(inc, attrs, out) := c in
  (negb (existsb (fun a => uses_macro (attr_asm names a) && negb (a =? 0)) attrs)
   || existsb (String.eqb textflag_header) out)
  && (list_eqb String.eqb out inc || list_eqb String.eqb out (app inc [textflag_header])).

Definition indices_where {A} (f : A -> bool) (l : list A) : list N :=
  map (fun p => N.of_nat (fst p)) (filter (fun p => f (snd p)) (index_list l)).
