module verifharness

go 1.23.0

require (
	github.com/mmcloughlin/avo v0.0.0
	golang.org/x/arch v0.15.0
	golang.org/x/sys v0.31.0
)

require (
	golang.org/x/mod v0.24.0 // indirect
	golang.org/x/sync v0.12.0 // indirect
	golang.org/x/tools v0.31.0 // indirect
)

replace github.com/mmcloughlin/avo => /repo
