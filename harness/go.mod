module verifharness

go 1.23.0

require github.com/mmcloughlin/avo v0.0.0

replace github.com/mmcloughlin/avo => /repo
