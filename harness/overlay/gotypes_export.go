//go:build verif

package gotypes

import "github.com/mmcloughlin/avo/operand"

// VerifAddr exposes the address of a component (verification hook, add-only, build tag verif).
func VerifAddr(c Component) (operand.Mem, bool) {
	if cc, ok := c.(*component); ok {
		return cc.addr, true
	}
	return operand.Mem{}, false
}
