//go:build verif

package x86

import (
	"github.com/mmcloughlin/avo/ir"
	"github.com/mmcloughlin/avo/operand"
	"github.com/mmcloughlin/avo/reg"
)

// Verification hooks (add-only, build tag verif): read-only access to the unexported tables.

type VerifOperand struct {
	Type     uint8
	Implicit bool
	Action   uint8
	ImplReg  reg.Register
}

type VerifForm struct {
	Opcode      string
	OpcIndex    int
	SuffixClass uint8
	Features    uint8
	ISA         []string
	Arity       int
	Operands    []VerifOperand
}

func VerifForms() []VerifForm {
	out := make([]VerifForm, 0, len(forms))
	for i := range forms {
		f := &forms[i]
		vf := VerifForm{Opcode: f.Opcode.String(), OpcIndex: int(f.Opcode), SuffixClass: uint8(f.SuffixesClass), Features: uint8(f.Features), ISA: f.ISAs.List(), Arity: int(f.Arity)}
		for _, o := range f.Operands {
			if o.Type == 0 {
				break
			}
			vo := VerifOperand{Type: o.Type, Implicit: o.Implicit, Action: uint8(o.Action)}
			if o.Implicit {
				vo.ImplReg = implreg(o.Type).Register()
			}
			vf.Operands = append(vf.Operands, vo)
		}
		out = append(out, vf)
	}
	return out
}

// VerifOpcFormsRange returns for opcode index o (1-based) how many forms opc.Forms() returns and
// whether they are exactly the rows of `forms` carrying that opcode, in order.
func VerifOpcForms(o int) []int {
	fs := opc(o).Forms()
	var idx []int
	for i := range fs {
		for j := range forms {
			if &forms[j] == &fs[i] {
				idx = append(idx, j)
			}
		}
	}
	return idx
}

func VerifNumOpcodes() int { return int(opcmax) - 1 }

func VerifSuffixSets() map[uint8][][]string {
	out := map[uint8][][]string{}
	for c := sffxsclsNone + 1; c < sffxsclsmax; c++ {
		for s := range c.SuffixesSet() {
			out[uint8(c)] = append(out[uint8(c)], s.Strings())
		}
	}
	return out
}

func VerifTypeMatch(t uint8, op operand.Op) bool { return oprndtype(t).Match(op) }
func VerifNumOperandTypes() int                 { return int(oprndtypemax) }

func verifSffxs(ss []string) (sffxs, bool) {
	for k, v := range sffxsstringsmap {
		if len(v) == len(ss) {
			ok := true
			for i := range v {
				if v[i] != ss[i] {
					ok = false
				}
			}
			if ok {
				return k, true
			}
		}
	}
	return sffxs{}, false
}

// VerifBuild calls the unexported build on the forms of the opcode with the given suffixes.
func VerifBuild(opcIndex int, suffixes []string, ops []operand.Op) (*ir.Instruction, error, bool) {
	s, ok := verifSffxs(suffixes)
	if !ok {
		return nil, nil, false
	}
	i, err := build(opc(opcIndex).Forms(), s, ops)
	return i, err, true
}
