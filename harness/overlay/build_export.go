//go:build verif

package build

// Verification hook (add-only, build tag verif): lets the harness give the package-level functions
// a fresh context, so that they can be exercised repeatedly in one process.

// VerifSwapGlobal installs c as the context the package-level functions operate on and returns the
// previous one.
func VerifSwapGlobal(c *Context) *Context {
	old := ctx
	ctx = c
	return old
}
