package main

import (
	"fmt"
	gobuild "go/build"
	"os"
	"path/filepath"

	"github.com/mmcloughlin/avo/attr"
	"github.com/mmcloughlin/avo/build"
	"github.com/mmcloughlin/avo/pass"
	"github.com/mmcloughlin/avo/printer"
	"go/build/constraint"
	"reflect"
	"strings"
	"unicode"
	"unicode/utf8"

	"github.com/mmcloughlin/avo/buildtags"
)

func init() { props["C14"] = c14 }

// the toolchain's tag predicate (go/build/constraint isValidTag)
func toolValidTag(word string) bool {
	if word == "" {
		return false
	}
	for _, c := range word {
		if !unicode.IsLetter(c) && !unicode.IsDigit(c) && c != '_' && c != '.' {
			return false
		}
	}
	return true
}

var tagPool = []string{"linux", "amd64", "go1.18", "a_b", "x", "ignore", "cgo", "é", "中文", "٣x", "v2.1", "_", "A.b_c9"}
var badPool = []string{"a-b", "①", "v②", "", "a/b", "½", "a+b", "Ⅳ", "a b"}

func genConstraints(r *RNG) buildtags.Constraints {
	cs := buildtags.Constraints{}
	nc := r.Intn(4)
	for i := 0; i < nc; i++ {
		c := buildtags.Constraint{}
		no := 1 + r.Intn(3)
		if r.Chance(4) {
			no = 0
		}
		for j := 0; j < no; j++ {
			o := buildtags.Option{}
			nt := 1 + r.Intn(3)
			if r.Chance(4) {
				nt = 0
			}
			for k := 0; k < nt; k++ {
				n := Pick(r, tagPool)
				if r.Chance(6) {
					n = Pick(r, badPool)
				}
				t := n
				if r.Chance(35) {
					t = "!" + n
				}
				if r.Chance(2) {
					t = "!!" + n
				}
				o = append(o, buildtags.Term(t))
			}
			c = append(c, o)
		}
		cs = append(cs, c)
	}
	return cs
}

func c14(c *Ctx) {
	defer globalConstraintAPI(c)
	o := c.Out
	rng := NewRNG(c.Seed + 1400)
	n := 400
	if c.Thorough() {
		n = 8000
	}
	var rows []string
	nvalid, nonascii := 0, 0
	nfiles, maxFiles := 0, 25
	if c.Thorough() {
		maxFiles = 400
	}
	for j := 0; j < n; j++ {
		cs := genConstraints(rng)
		if j >= 3 && j <= 6 {
			// long conjunctions of single tags, as a feature matrix produces them
			cs = buildtags.Constraints{}
			for t := 0; t < []int{40, 101, 150, 260}[j-3]; t++ {
				term := fmt.Sprintf("!feat%03d", t)
				if t == 2 || t == 5 {
					term = term[1:]
				}
				cs = append(cs, buildtags.Constraint{buildtags.Option{buildtags.Term(term)}})
			}
		}
		if j == 7 || j == 8 || (j > 8 && len(cs) > 0 && rng.Chance(12)) {
			// the same constraint line more than once (legal, and what concatenating tag lists produces)
			if j == 7 {
				cs = buildtags.Constraints{{{"amd64"}}, {{"!purego"}}, {{"amd64"}}}
			} else if j == 8 {
				cs = buildtags.Constraints{{{"linux", "amd64"}, {"darwin"}}, {{"linux", "amd64"}, {"darwin"}}, {{"!appengine"}}, {{"!appengine"}}}
			} else {
				src := cs[rng.Intn(len(cs))]
				var cp buildtags.Constraint
				for _, op := range src {
					cp = append(cp, append(buildtags.Option(nil), op...))
				}
				cs = append(cs, cp)
			}
		}
		names := map[string]bool{}
		var csCoq []string
		var descParts []string
		for _, cn := range cs {
			var os []string
			for _, op := range cn {
				var ts []string
				for _, t := range op {
					ts = append(ts, cStr(string(t)))
					nm := strings.TrimPrefix(string(t), "!")
					names[nm] = true
					if !utf8.ValidString(nm) || len(nm) != utf8.RuneCountInString(nm) {
						nonascii++
					}
				}
				os = append(os, cList(ts))
			}
			csCoq = append(csCoq, cList(os))
			descParts = append(descParts, strings.TrimSpace(cn.GoString()))
		}
		var tab []string
		var nameList []string
		for _, nm := range sortedKeys(names) {
			tab = append(tab, cPair(cStr(nm), cBool(toolValidTag(nm))))
			nameList = append(nameList, nm)
		}
		if !names["ignore"] {
			nameList = append(nameList, "ignore")
		}
		if len(nameList) > 7 {
			nameList = nameList[:7]
		}
		valid := cs.Validate() == nil
		if valid {
			nvalid++
		}
		// the constructor helpers (And, Any, Opt, Not and the To* conversions) must build exactly the value
		// they describe: the same formula written with them evaluates and prints the same
		{
			var ccs []buildtags.ConstraintConvertable
			for _, cn := range cs {
				var ocs []buildtags.OptionConvertable
				for _, op := range cn {
					var ts []buildtags.Term
					for _, t := range op {
						if t.IsNegated() && rng.Bool() {
							ts = append(ts, buildtags.Not(strings.TrimPrefix(string(t), "!")))
						} else {
							ts = append(ts, t)
						}
					}
					if len(ts) == 1 && rng.Bool() {
						ocs = append(ocs, ts[0]) // a Term is convertible to an Option
					} else {
						ocs = append(ocs, buildtags.Opt(ts...))
					}
				}
				if len(ocs) == 1 && rng.Bool() {
					ccs = append(ccs, ocs[0].ToOption()) // an Option is convertible to a Constraint
				} else {
					ccs = append(ccs, buildtags.Any(ocs...))
				}
			}
			built := buildtags.And(ccs...)
			same := len(built) == len(cs)
			for i := 0; same && i < len(cs); i++ {
				same = len(built[i]) == len(cs[i])
				for k := 0; same && k < len(cs[i]); k++ {
					same = len(built[i][k]) == len(cs[i][k])
					for m := 0; same && m < len(cs[i][k]); m++ {
						same = built[i][k][m] == cs[i][k][m]
					}
				}
			}
			if !same || built.ToConstraints().GoString() != cs.GoString() {
				o.Plan.GoViolations = append(o.Plan.GoViolations, GoViolation{Key: "tags:helpers", Desc: fmt.Sprintf("And/Any/Opt/Not build %#v for the formula %#v", built, cs), Replay: map[string]any{"constraints": cs.GoString()}})
			}
			if len(cs) == 1 {
				if got := cs[0].ToConstraints(); len(got) != 1 || got.GoString() != cs.GoString() {
					o.Plan.GoViolations = append(o.Plan.GoViolations, GoViolation{Key: "tags:helpers", Desc: fmt.Sprintf("Constraint.ToConstraints gives %#v for %#v", got, cs[0]), Replay: map[string]any{"constraints": cs.GoString()}})
				}
				if len(cs[0]) == 1 && len(cs[0][0]) == 1 {
					t := cs[0][0][0]
					if t.ToConstraints().GoString() != cs.GoString() || t.ToConstraint().GoString() != cs[0].GoString() || len(t.ToOption()) != 1 || t.ToOption()[0] != t {
						o.Plan.GoViolations = append(o.Plan.GoViolations, GoViolation{Key: "tags:helpers", Desc: fmt.Sprintf("Term conversions of %q differ from the term", string(t)), Replay: map[string]any{"term": string(t)}})
					}
				}
			}
		}
		text := cs.GoString()
		var evals []string
		var asgs []asg
		for m := 0; m < 1<<uint(len(nameList)); m++ {
			var set []string
			v := map[string]bool{}
			for b, nm := range nameList {
				if m&(1<<uint(b)) != 0 {
					set = append(set, nm)
					v[nm] = true
				} else if (m+b)%2 == 0 {
					v[nm] = false // an assignment may also say "unset" explicitly
				}
			}
			if m%3 == 0 { // the helper that builds an assignment from the set tags
				v2 := buildtags.SetTags(set...)
				for nm, val := range v {
					if !val {
						v2[nm] = false
					}
				}
				v = v2
			}
			res := cs.Evaluate(v)
			asgs = append(asgs, asg{set, res})
			evals = append(evals, cPair(cStrs(set), cBool(res)))
		}
		desc := strings.Join(descParts, " ; ")
		idx := o.AddCase(Case{Key: "tags:formula", Desc: fmt.Sprintf("%q valid=%v", desc, valid), Input: map[string]any{"constraints": desc}, Nontrivial: valid && len(cs) > 0})
		rows = append(rows, fmt.Sprintf("(%s, %s, %s, %s, %s)", cList(tab), cList(csCoq), cBool(valid), cStr(text), cList(evals)))

		// the real toolchain: lines avo's printers emit (buildtags.Format) parsed by go/build/constraint
		if valid && len(cs) > 0 {
			before := fmt.Sprintf("%#v", cs)
			fileCopy := deepCopyConstraints(cs)
			hdr, err := buildtags.Format(cs)
			if after := fmt.Sprintf("%#v", cs); after != before {
				o.Plan.GoViolations = append(o.Plan.GoViolations, GoViolation{Key: "tags:format-changes-its-argument", Desc: fmt.Sprintf("case %d: buildtags.Format changed the constraint set it was asked to format: %s became %s (the assembly and the stub printer format the same file one after the other)", idx, before, after), Replay: map[string]any{"constraints": desc}})
				cs = deepCopyConstraints(fileCopy)
			}
			if err != nil {
				o.Plan.GoViolations = append(o.Plan.GoViolations, GoViolation{Key: "tags:format-error", Desc: fmt.Sprintf("case %d: constraint set accepted by avo is rejected by go/format: %v: %q", idx, err, desc), Replay: map[string]any{"constraints": desc}})
				continue
			}
			var exprs []constraint.Expr
			bad := ""
			for _, ln := range strings.Split(strings.TrimSpace(hdr), "\n") {
				e, err := constraint.Parse(ln)
				if err != nil {
					bad = fmt.Sprintf("%q: %v", ln, err)
					break
				}
				exprs = append(exprs, e)
			}
			if bad != "" || len(exprs) == 0 {
				o.Plan.GoViolations = append(o.Plan.GoViolations, GoViolation{Key: "tags:toolchain-rejects", Desc: fmt.Sprintf("case %d: printed constraint line not accepted by the toolchain (%s) for %q", idx, bad, desc), Replay: map[string]any{"constraints": desc, "header": hdr}})
				continue
			}
			for _, a := range asgs {
				set := map[string]bool{}
				for _, s := range a.set {
					set[s] = true
				}
				sel := true
				for _, e := range exprs {
					sel = sel && e.Eval(func(tag string) bool { return set[tag] })
				}
				if sel != a.res {
					key := "tags:meaning-differs"
					if hasEmpty(cs) {
						key = "tags:meaning-differs:empty-option-or-constraint"
					}
					o.Plan.GoViolations = append(o.Plan.GoViolations, GoViolation{Key: key, Desc: fmt.Sprintf("case %d: with tags %v the toolchain selects=%v but avo evaluates %v; constraints %q printed as %q", idx, a.set, sel, a.res, desc, strings.TrimSpace(hdr)), Replay: map[string]any{"constraints": desc, "header": hdr, "tags": a.set}})
					break
				}
			}
			// the files themselves: an assembly file (with the textflag.h include a NOSPLIT function brings) and a
			// stub file carrying this constraint set, as the printers write them, selected by go/build's own
			// file matching for every assignment
			if nfiles < maxFiles {
				nfiles++
				fileLevelConstraints(c, o, idx, deepCopyConstraints(fileCopy), desc, asgs)
			}
			// parsing avo's textual form gives back the same constraint
			for _, cn := range cs {
				if hasEmptyC(cn) {
					continue
				}
				expr := strings.TrimSuffix(strings.TrimPrefix(cn.GoString(), "// +build "), "\n")
				back, err := buildtags.ParseConstraint(expr)
				if err != nil || !reflect.DeepEqual(back, cn) {
					o.Plan.GoViolations = append(o.Plan.GoViolations, GoViolation{Key: "tags:parse-roundtrip", Desc: fmt.Sprintf("case %d: ParseConstraint(%q) = %v, %v; want %v", idx, expr, back, err, cn), Replay: map[string]any{"expr": expr}})
				}
			}
		}
	}
	// exhaustive: every code point as part of a tag name, avo's Validate vs the toolchain's predicate
	disagree := 0
	for r := rune(0); r <= unicode.MaxRune; r++ {
		if !utf8.ValidRune(r) {
			continue
		}
		nm := "a" + string(r)
		av := buildtags.Term(nm).Validate() == nil
		if r == '!' { // "a!" : '!' inside a name
			av = buildtags.Term(nm).Validate() == nil
		}
		if av != toolValidTag(nm) {
			disagree++
			if disagree <= 3 {
				o.Plan.GoViolations = append(o.Plan.GoViolations, GoViolation{Key: fmt.Sprintf("tags:validity:U+%04X", r), Desc: fmt.Sprintf("tag %q (U+%04X): avo Validate says valid=%v, the toolchain's tag predicate says %v", nm, r, av, toolValidTag(nm)), Replay: map[string]any{"rune": int(r)}})
			}
		}
	}
	// the entry points of build.Context accept a constraint exactly when the set stays valid: every way of
	// adding one (ConstraintExpr, Constraint, Constraints) with valid, invalid, empty and blank arguments
	{
		type tc struct {
			desc string
			do   func(c *build.Context)
			ok   bool
		}
		var tcs []tc
		for _, e := range []string{"amd64", "amd64,!purego", "linux darwin", "go1.18,amd64 !appengine"} {
			e := e
			tcs = append(tcs, tc{fmt.Sprintf("ConstraintExpr(%q)", e), func(c *build.Context) { c.ConstraintExpr(e) }, true})
		}
		// an invalid option in every position among valid ones: first, in the middle, last
		for _, e := range []string{"", " ", "\t", "a-b", "amd64,", "!!x", "a b,", "mac-os,amd64 linux,amd64", "linux,amd64 !!cgo darwin,amd64", "linux,amd64 darwin,a-b", "a-b c", "c a-b", "x !!y z", "!!y z", "amd64,, linux", "a, b", ",a b"} {
			e := e
			tcs = append(tcs, tc{fmt.Sprintf("ConstraintExpr(%q)", e), func(c *build.Context) { c.ConstraintExpr(e) }, false})
		}
		tcs = append(tcs,
			tc{"Constraint(empty)", func(c *build.Context) { c.Constraint(buildtags.Constraint{}) }, false},
			tc{"Constraint(one empty option)", func(c *build.Context) { c.Constraint(buildtags.Constraint{buildtags.Option{}}) }, false},
			tc{"Constraints(valid then empty constraint)", func(c *build.Context) {
				c.Constraints(buildtags.Constraints{buildtags.Constraint{buildtags.Option{"amd64"}}, buildtags.Constraint{}})
			}, false},
			tc{"Constraints(two valid)", func(c *build.Context) {
				c.Constraints(buildtags.Constraints{buildtags.Constraint{buildtags.Option{"amd64"}}, buildtags.Constraint{buildtags.Option{"!purego"}}})
			}, true},
			tc{"ConstraintExpr(valid) then ConstraintExpr(blank)", func(c *build.Context) { c.ConstraintExpr("amd64"); c.ConstraintExpr("  ") }, false},
		)
		for _, t := range tcs {
			ctx := build.NewContext()
			t.do(ctx)
			f, err := ctx.Result()
			idx := o.AddCase(Case{Key: "tags:context", Desc: "build.Context." + t.desc, Input: map[string]any{"call": t.desc}, Nontrivial: true})
			if (err == nil) != t.ok {
				o.Plan.GoViolations = append(o.Plan.GoViolations, GoViolation{Key: "tags:context-acceptance", Desc: fmt.Sprintf("case %d: build.Context.%s: error=%v but the argument is valid=%v", idx, t.desc, err, t.ok), Replay: map[string]any{"call": t.desc}})
			}
			if err == nil && f.Constraints.Validate() != nil {
				o.Plan.GoViolations = append(o.Plan.GoViolations, GoViolation{Key: "tags:context-invalid-set", Desc: fmt.Sprintf("case %d: build.Context.%s left an invalid constraint set in the file without an error: %v", idx, t.desc, f.Constraints.Validate()), Replay: map[string]any{"call": t.desc}})
			}
		}
	}
	shard := 100
	var files []string
	for s := 0; s*shard < len(rows); s++ {
		hi := (s + 1) * shard
		if hi > len(rows) {
			hi = len(rows)
		}
		name := fmt.Sprintf("Cases%02d.v", s)
		var b strings.Builder
		b.WriteString(coqHeader + "From Avo Require Import Model.Tags.\n")
		fmt.Fprintf(&b, "Definition cases : list tag_case := %s.\n", cListNL(rows[s*shard:hi]))
		fmt.Fprintf(&b, "Definition R_mismatch := Eval vm_compute in List.map (N.add %d) (idx_where (fun c => negb (tag_agree tree_strict c)) cases).\nPrint R_mismatch.\n", s*shard)
		fmt.Fprintf(&b, "Definition R_violation := Eval vm_compute in List.map (N.add %d) (idx_where (fun c => negb (tag_impl_ok c)) cases).\nPrint R_violation.\n", s*shard)
		fmt.Fprintf(&b, "Definition R_validity_violation := Eval vm_compute in List.map (N.add %d) (idx_where (fun c => negb (tag_validity_ok c)) cases).\nPrint R_validity_violation.\n", s*shard)
		o.WriteFile(name, b.String())
		files = append(files, name)
		o.ExpectEmpty(name, "R_mismatch", "mismatch", "model of Validate/Evaluate/GoString vs buildtags")
		o.ExpectEmpty(name, "R_violation", "violation", "a constraint set avo accepts prints +build lines whose toolchain meaning differs from avo's Evaluate for some tag assignment")
		o.ExpectEmpty(name, "R_validity_violation", "violation", "avo accepts a term the toolchain would rewrite to 'ignore'")
	}
	o.Stage(files...)
	o.Plan.Rule = "random AND-of-OR-of-AND formulas (0..3 constraints x 0..3 options x 0..3 terms) over a tag pool with digits, dots, underscores, unicode letters and digits, negations, ~6% invalid names, occasional '!!' and empty options/constraints; ALL assignments over the occurring names (+ 'ignore'), up to 7 names; every accepted set is also formatted with buildtags.Format and evaluated by go/build/constraint; every code point is checked for validity agreement; non-trivial = accepted and non-empty; distinct by formula text"
	o.Plan.Stats["formulas"] = n
	o.Plan.Stats["accepted_by_avo"] = nvalid
	o.Plan.Stats["terms_with_non_ascii"] = nonascii
	o.Plan.Stats["code_points_validity_disagreements"] = disagree
	o.Plan.Stats["exhaustive_code_points"] = true
	o.Plan.Stats["extra_evaluations"] = 1112064
}

func deepCopyConstraints(cs buildtags.Constraints) buildtags.Constraints {
	var out buildtags.Constraints
	for _, cn := range cs {
		var cp buildtags.Constraint
		for _, op := range cn {
			cp = append(cp, append(buildtags.Option(nil), op...))
		}
		out = append(out, cp)
	}
	return out
}

func hasEmptyC(c buildtags.Constraint) bool {
	if len(c) == 0 {
		return true
	}
	for _, o := range c {
		if len(o) == 0 {
			return true
		}
	}
	return false
}
func hasEmpty(cs buildtags.Constraints) bool {
	for _, c := range cs {
		if hasEmptyC(c) {
			return true
		}
	}
	return false
}

type asg struct {
	set []string
	res bool
}

func fileLevelConstraints(c *Ctx, o *Out, idx int, cs buildtags.Constraints, desc string, asgs []asg) {
	ctx := build.NewContext()
	ctx.Constraints(cs)
	ctx.Function("F")
	ctx.Attributes(attr.NOSPLIT)
	ctx.SignatureExpr("func()")
	ctx.RET()
	f, err := ctx.Result()
	if err != nil {
		return
	}
	if err := pass.Compile.Execute(f); err != nil {
		return
	}
	cfg := printer.Config{Name: "avo", Pkg: "p"}
	asm, e1 := printer.NewGoAsm(cfg).Print(f)
	stub, e2 := printer.NewStubs(cfg).Print(f)
	if e1 != nil || e2 != nil {
		o.Plan.GoViolations = append(o.Plan.GoViolations, GoViolation{Key: "tags:file-print-error", Desc: fmt.Sprintf("case %d: printing a file with constraints %q fails: %v %v", idx, desc, e1, e2), Replay: map[string]any{"constraints": desc}})
		return
	}
	dir := filepath.Join(c.Tmp, fmt.Sprintf("c14file%d", idx))
	os.MkdirAll(dir, 0o755)
	defer os.RemoveAll(dir)
	os.WriteFile(filepath.Join(dir, "f.s"), asm, 0o644)
	os.WriteFile(filepath.Join(dir, "f.go"), stub, 0o644)
	for _, a := range asgs {
		// a context in which only the listed tags are set: unknown OS/architecture/compiler names
		bc := gobuild.Context{GOOS: "vos", GOARCH: "varch", Compiler: "vcc", BuildTags: a.set}
		for _, name := range []string{"f.s", "f.go"} {
			sel, err := bc.MatchFile(dir, name)
			if err != nil || sel != a.res {
				o.Plan.GoViolations = append(o.Plan.GoViolations, GoViolation{Key: "tags:file-selection-differs", Desc: fmt.Sprintf("case %d: with tags %v go/build selects the printed %s = %v (err %v) but avo evaluates the constraints %q to %v", idx, a.set, name, sel, err, desc, a.res), Replay: map[string]any{"constraints": desc, "tags": a.set, "file": name, "asm": string(asm), "stub": string(stub)}})
				return
			}
		}
	}
}

// globalConstraintAPI: the package-level constraint functions (build.Constraints / Constraint /
// ConstraintExpr) against the Context methods, on sequences of calls: the constraint set a file ends up
// with must be the same (Constraints replaces, the other two append).
func globalConstraintAPI(c *Ctx) {
	o := c.Out
	rng := NewRNG(c.Seed + 1414)
	type step struct {
		desc string
		ctx  func(*build.Context)
		glob func()
	}
	mk := func() step {
		switch rng.Intn(3) {
		case 0:
			t := Pick(rng, []string{"amd64", "linux", "gc"})
			return step{"Constraints(" + t + ")", func(b *build.Context) { b.Constraints(buildtags.Term(t)) }, func() { build.Constraints(buildtags.Term(t)) }}
		case 1:
			t := Pick(rng, []string{"appengine", "noasm", "purego"})
			return step{"Constraint(!" + t + ")", func(b *build.Context) { b.Constraint(buildtags.Not(t)) }, func() { build.Constraint(buildtags.Not(t)) }}
		default:
			e := Pick(rng, []string{"go1.18", "amd64,!purego", "linux darwin"})
			return step{"ConstraintExpr(" + e + ")", func(b *build.Context) { b.ConstraintExpr(e) }, func() { build.ConstraintExpr(e) }}
		}
	}
	for j := 0; j < 60; j++ {
		var steps []step
		var ds []string
		for k := 0; k < 1+rng.Intn(4); k++ {
			st := mk()
			steps = append(steps, st)
			ds = append(ds, st.desc)
		}
		a := build.NewContext()
		for _, st := range steps {
			st.ctx(a)
		}
		b := build.NewContext()
		old := build.VerifSwapGlobal(b)
		for _, st := range steps {
			st.glob()
		}
		build.VerifSwapGlobal(old)
		fa, _ := a.Result()
		fb, _ := b.Result()
		idx := o.AddCase(Case{Key: "tags:global-api", Desc: "package-level constraint functions vs Context methods: " + strings.Join(ds, "; "), Input: map[string]any{"calls": ds}, Nontrivial: len(steps) >= 2})
		if fa.Constraints.GoString() != fb.Constraints.GoString() {
			o.Plan.GoViolations = append(o.Plan.GoViolations, GoViolation{Key: "tags:global-api-differs", Desc: fmt.Sprintf("case %d: after %s the Context holds %q but the package-level functions leave %q", idx, strings.Join(ds, "; "), fa.Constraints.GoString(), fb.Constraints.GoString()), Replay: map[string]any{"calls": ds}})
		}
	}
}
