package main

// C04, hardware part: differential execution on the host CPU.  For register-only instruction
// instances: run from a random machine state and check that nothing outside the declared
// outputs changes (writes covered); run again from states that differ in one register the
// instruction does not declare as read and check that nothing else differs (reads covered).
// This is exploration in support of C04 (testing, not proof).

import (
	"encoding/json"
	"fmt"
	"os"
	"os/exec"
	"path/filepath"
	"regexp"
	"sort"
	"strings"
	"sync"

	"github.com/mmcloughlin/avo/ir"
	"github.com/mmcloughlin/avo/operand"
	"github.com/mmcloughlin/avo/printer"
	"github.com/mmcloughlin/avo/reg"
	"github.com/mmcloughlin/avo/x86"
	"golang.org/x/sys/cpu"
)

// state layout in uint64 words: gp[0..15], k[16..23], z[24..279] (32 x 8), flags[280]
const (
	hwGP    = 0
	hwK     = 16
	hwZ     = 24
	hwFlags = 280
	hwMem   = 281 // 32 words of scratch memory; memory operands address byte 128 of it
	hwWords = 313
)

var hwISA = map[string]bool{
	"": true, "CMOV": true, "SSE": cpu.X86.HasSSE2, "SSE2": cpu.X86.HasSSE2, "SSE3": cpu.X86.HasSSE3, "SSSE3": cpu.X86.HasSSSE3,
	"SSE4.1": cpu.X86.HasSSE41, "SSE4.2": cpu.X86.HasSSE42, "AVX": cpu.X86.HasAVX, "AVX2": cpu.X86.HasAVX2, "FMA3": cpu.X86.HasFMA,
	"BMI": cpu.X86.HasBMI1, "BMI2": cpu.X86.HasBMI2, "ADX": cpu.X86.HasADX, "AES": cpu.X86.HasAES, "PCLMULQDQ": cpu.X86.HasPCLMULQDQ,
	"POPCNT": cpu.X86.HasPOPCNT, "LZCNT": procFlag("abm"), "MOVBE": procFlag("movbe"), "F16C": procFlag("f16c"), "SHA": procFlag("sha_ni"),
	"AVX512F": cpu.X86.HasAVX512F, "AVX512VL": cpu.X86.HasAVX512VL, "AVX512BW": cpu.X86.HasAVX512BW, "AVX512DQ": cpu.X86.HasAVX512DQ,
	"AVX512CD": cpu.X86.HasAVX512CD, "AVX512VBMI": cpu.X86.HasAVX512VBMI, "AVX512VBMI2": cpu.X86.HasAVX512VBMI2, "AVX512VNNI": cpu.X86.HasAVX512VNNI,
	"AVX512IFMA": cpu.X86.HasAVX512IFMA, "AVX512BITALG": cpu.X86.HasAVX512BITALG, "AVX512VPOPCNTDQ": cpu.X86.HasAVX512VPOPCNTDQ,
	"GFNI": cpu.X86.HasAVX512GFNI, "VAES": cpu.X86.HasAVX512VAES, "VPCLMULQDQ": cpu.X86.HasAVX512VPCLMULQDQ,
}

// procFlag reports a CPU feature flag from /proc/cpuinfo (for extensions x/sys/cpu does not expose)
func procFlag(name string) bool {
	b, err := os.ReadFile("/proc/cpuinfo")
	if err != nil {
		return false
	}
	for _, ln := range strings.Split(string(b), "\n") {
		if strings.HasPrefix(ln, "flags") {
			for _, f := range strings.Fields(ln) {
				if f == name {
					return true
				}
			}
			return false
		}
	}
	return false
}

// opcodes that cannot be run this way: control transfer, stack pointer, privileged, faulting on
// ordinary inputs, non-deterministic or with architecturally undefined results
func hwExcluded(op string) string {
	switch {
	case strings.HasPrefix(op, "J"), op == "CALL", op == "RET", strings.HasPrefix(op, "RETF"), strings.HasPrefix(op, "LOOP"), strings.HasPrefix(op, "X") && (op == "XBEGIN" || op == "XEND" || op == "XABORT" || op == "XTEST"):
		return "control transfer / transactional"
	case strings.HasPrefix(op, "PUSH"), strings.HasPrefix(op, "POP"), op == "LEAVE", op == "ENTER":
		return "stack pointer"
	case strings.HasPrefix(op, "DIV"), strings.HasPrefix(op, "IDIV"):
		return "faults on ordinary inputs"
	case strings.HasPrefix(op, "RDTSC"), strings.HasPrefix(op, "RDRAND"), strings.HasPrefix(op, "RDSEED"), op == "RDPID", op == "CPUID", op == "XGETBV":
		return "non-deterministic / environment dependent"
	case op == "HLT", op == "INT", op == "SYSCALL", op == "SYSENTER", op == "UD2", strings.HasPrefix(op, "IN"), strings.HasPrefix(op, "OUT"), op == "CLI", op == "STI", op == "CLD", op == "STD", op == "MONITOR", op == "MWAIT", op == "SFENCE", op == "CLFLUSH", op == "CLFLUSHOPT", op == "PAUSE":
		return "privileged / no register effect of interest"
	case op == "LDMXCSR", op == "VLDMXCSR":
		return "changes the floating-point environment of the process"
	case op == "STMXCSR", op == "VSTMXCSR":
		return "reads MXCSR, which is not part of the modelled state"
	case strings.Contains(op, "GATHERPF"), strings.Contains(op, "SCATTERPF"):
		return "prefetch (AVX512PF)"
	case op == "MASKMOVDQU", op == "MASKMOVOU", op == "VMASKMOVDQU", op == "XLAT":
		return "implicit memory access"
	case strings.HasPrefix(op, "VP4"), strings.HasPrefix(op, "V4F"):
		return "AVX512_4VNNIW/4FMAPS (multi-register operands)"
	}
	return ""
}

type hwInst struct {
	I           *ir.Instruction
	Line        string
	Sig         string
	Base, Index int // GP numbers of the memory operand's registers, -1 when absent
	MemOut      bool
	MemSize     int
	VIndex      int      // Z number of a vector index register (gather/scatter), -1 otherwise
	In          [][2]int // (word index, byte-class mask for GP / 0xff.. for others) declared inputs
	Out         [][2]int
}

// location of a physical register in the state: word index, number of words, and for GP the byte mask
func hwLoc(r reg.Register) (word int, words int, bytemask uint64, ok bool) {
	p := reg.ToPhysical(r)
	if p == nil {
		return 0, 0, 0, false
	}
	switch p.Kind() {
	case reg.KindGP:
		if p.PhysicalIndex() == 4 {
			return 0, 0, 0, false
		}
		var bm uint64
		for k := 0; k < 4; k++ {
			if p.Mask()&(1<<uint(k)) != 0 {
				lo, hi := []int{0, 1, 2, 4}[k], []int{1, 2, 4, 8}[k]
				for b := lo; b < hi; b++ {
					bm |= 0xff << uint(8*b)
				}
			}
		}
		return hwGP + int(p.PhysicalIndex()), 1, bm, true
	case reg.KindVector:
		return hwZ + 8*int(p.PhysicalIndex()), int(p.Size()) / 8, ^uint64(0), true
	case reg.KindOpmask:
		return hwK + int(p.PhysicalIndex()), 1, ^uint64(0), true
	}
	return 0, 0, 0, false
}

// hwCommon is the shared code that loads the machine state from the input block and stores it
// to the output block; each stub calls both around its one instruction.
func hwCommon() string {
	var b strings.Builder
	names := []string{"AX", "CX", "DX", "BX", "", "BP", "SI", "DI", "R8", "R9", "R10", "R11", "R12", "R13", "R14", "R15"}
	b.WriteString("TEXT hwload<>(SB), NOSPLIT|NOFRAME, $0\n")
	b.WriteString("\tMOVQ BP, savebp<>(SB)\n")
	for z := 0; z < 32; z++ {
		fmt.Fprintf(&b, "\tVMOVDQU64 %d(R15), Z%d\n", 8*(hwZ+8*z), z)
	}
	for kk := 0; kk < 8; kk++ {
		fmt.Fprintf(&b, "\tKMOVQ %d(R15), K%d\n", 8*(hwK+kk), kk)
	}
	fmt.Fprintf(&b, "\tMOVQ %d(R15), AX\n\tPUSHQ AX\n\tPOPFQ\n", 8*hwFlags)
	for g, n := range names {
		if n == "" || n == "R15" {
			continue
		}
		fmt.Fprintf(&b, "\tMOVQ %d(R15), %s\n", 8*(hwGP+g), n)
	}
	fmt.Fprintf(&b, "\tMOVQ %d(R15), R15\n\tRET\n\n", 8*(hwGP+15))
	b.WriteString("TEXT hwstore<>(SB), NOSPLIT|NOFRAME, $0\n")
	b.WriteString("\tMOVQ R15, saver15<>(SB)\n\tMOVQ outptr<>(SB), R15\n\tMOVQ AX, 0(R15)\n\tPUSHFQ\n\tPOPQ AX\n")
	fmt.Fprintf(&b, "\tMOVQ AX, %d(R15)\n", 8*hwFlags)
	for g, n := range names {
		if n == "" || n == "R15" || n == "AX" {
			continue
		}
		fmt.Fprintf(&b, "\tMOVQ %s, %d(R15)\n", n, 8*(hwGP+g))
	}
	fmt.Fprintf(&b, "\tMOVQ saver15<>(SB), AX\n\tMOVQ AX, %d(R15)\n", 8*(hwGP+15))
	for kk := 0; kk < 8; kk++ {
		fmt.Fprintf(&b, "\tKMOVQ K%d, %d(R15)\n", kk, 8*(hwK+kk))
	}
	for z := 0; z < 32; z++ {
		fmt.Fprintf(&b, "\tVMOVDQU64 Z%d, %d(R15)\n", z, 8*(hwZ+8*z))
	}
	b.WriteString("\tMOVQ savebp<>(SB), BP\n\tVZEROUPPER\n\tRET\n\n")
	return b.String()
}

func hwStub(k int, line string) string {
	return fmt.Sprintf("TEXT ·f%d(SB), NOSPLIT, $0-16\n\tMOVQ out+8(FP), AX\n\tMOVQ AX, outptr<>(SB)\n\tMOVQ in+0(FP), R15\n\tCALL hwload<>(SB)\n\t%s\n\tCALL hwstore<>(SB)\n\tRET\n\n", k, line)
}

const hwDriver = `package main

import (
	"encoding/json"
	"fmt"
	"os"
	"runtime"
	"strconv"
	"unsafe"
)

const words = 313

type state [words]uint64

type loc struct{ Word, Words int; Mask uint64 }
type inst struct {
	Line string
	In, Out []loc
	Base, Index int
	MemOut bool
	MemSize int
	VIndex int
}

var membuf [512]byte

func memptr() uintptr {
	p := uintptr(unsafe.Pointer(&membuf[0]))
	return (p + 63) &^ 63
}

// run executes instance k from state s (after pointing its address registers at the scratch memory)
func run(k int, in *inst, s *state, o *state) {
	mp := memptr()
	if in.Base >= 0 {
		s[in.Base] = uint64(mp)
	}
	if in.Index >= 0 {
		s[in.Index] = 8
	}
	if in.VIndex >= 0 { // gather/scatter: every index lane small, so that every element address lies in the scratch area
		for w := 0; w < 8; w++ {
			s[24+8*in.VIndex+w] = s[24+8*in.VIndex+w] % 16
		}
	}
	m := (*[32]uint64)(unsafe.Pointer(mp))
	copy(m[:], s[281:313])
	funcs[k](s, o)
	copy(o[281:313], m[:])
}

var rngs uint64 = 1

func rnd() uint64 {
	rngs += 0x9E3779B97F4A7C15
	z := rngs
	z = (z ^ (z >> 30)) * 0xBF58476D1CE4E5B9
	z = (z ^ (z >> 27)) * 0x94D049BB133111EB
	return z ^ (z >> 31)
}

func randState(s *state) {
	for i := range s {
		switch rnd() % 5 {
		case 4:
			s[i] = 0
		case 0:
			s[i] = rnd()
		case 1:
			s[i] = rnd() & 0xff
		case 2:
			s[i] = ^uint64(0)
		default:
			s[i] = rnd() & 0x3f3f3f3f3f3f3f3f
		}
	}
	s[280] = (rnd() & 0x8d5) | 0x202 // arithmetic flags only, IF set
}

// memory bytes the instruction may touch: the operand itself, or for a vector-indexed operand every
// element address (base + 64 + index*scale with index < 16, scale <= 8, element <= 8 bytes)
func memRange(in *inst) (int, int) {
	if in.VIndex >= 0 {
		return 64, 64 + 15*8 + 8
	}
	return 128, 128 + in.MemSize
}

func covered(ls []loc, w int) uint64 {
	var m uint64
	for _, l := range ls {
		if w >= l.Word && w < l.Word+l.Words {
			m |= l.Mask
		}
	}
	return m
}

// register-level container of word w: GP words stand alone, K words stand alone, Z registers are 8 words
func regOf(w int) (int, int) {
	if w >= 24 && w < 280 {
		b := 24 + (w-24)/8*8
		return b, 8
	}
	return w, 1
}

type viol struct {
	K    int
	Kind string
	Desc string
}

func main() {
	runtime.LockOSThread()
	var insts []inst
	f, _ := os.Open(os.Args[1])
	json.NewDecoder(f).Decode(&insts)
	start, _ := strconv.Atoi(os.Args[2])
	end, _ := strconv.Atoi(os.Args[3])
	trials, _ := strconv.Atoi(os.Args[4])
	enc := json.NewEncoder(os.Stdout)
	for k := start; k < end && k < len(insts); k++ {
		fmt.Fprintf(os.Stderr, "BEGIN %d\n", k)
		in := insts[k]
		rngs = uint64(k)*7919 + 12345
		var found *viol
		for t := 0; t < trials && found == nil; t++ {
			var s, o state
			randState(&s)
			run(k, &in, &s, &o)
			// memory: only a declared memory output may change, and only inside the operand
			for w := 281; w < 313 && found == nil; w++ {
				var wm uint64
				if in.MemOut {
					for b := 0; b < 8; b++ {
						off := (w-281)*8 + b
						if lo, hi := memRange(&in); off >= lo && off < hi {
							wm |= 0xff << uint(8*b)
						}
					}
				}
				if (s[w]^o[w])&^wm != 0 {
					found = &viol{k, "writes", fmt.Sprintf("memory word %d changed %#x -> %#x outside a declared memory output", w-281, s[w], o[w])}
				}
			}
			// writes covered: a location outside the declared outputs keeps its value
			for w := 0; w < 280 && found == nil; w++ {
				if w == 4 {
					continue
				}
				wm := covered(in.Out, w)
				if w < 16 && wm&0xffffffff == 0xffffffff && wm&^0xffffffff == 0 { // 32-bit write counts as 64-bit
					wm = ^uint64(0)
				}
				if w >= 24 { // vector registers: register granularity
					b, n := regOf(w)
					any := uint64(0)
					for x := b; x < b+n; x++ {
						any |= covered(in.Out, x)
					}
					if any != 0 {
						wm = ^uint64(0)
					}
				}
				if (s[w]^o[w])&^wm != 0 {
					found = &viol{k, "writes", fmt.Sprintf("word %d changed %#x -> %#x outside declared outputs (declared byte mask %#x)", w, s[w], o[w], wm)}
				}
			}
			// reads covered: bits that are not declared as read must not influence anything except
			// themselves being carried through unwritten
			for w := 0; w < 280 && found == nil; w++ {
				if w == 4 {
					continue
				}
				b, n := regOf(w)
				if b != w || w == in.Base || w == in.Index || (in.VIndex >= 0 && w == 24+8*in.VIndex) {
					continue
				}
				s2 := s
				any := false
				var flips [8]uint64
				for x := b; x < b+n; x++ {
					flips[x-b] = ^covered(in.In, x)
					if flips[x-b] != 0 {
						any = true
						f := rnd() & flips[x-b]
						if f == 0 {
							f = flips[x-b]
						}
						flips[x-b] = f
						s2[x] ^= f
					}
				}
				if !any {
					continue
				}
				var o2 state
				run(k, &in, &s2, &o2)
				for y := 0; y < 313 && found == nil; y++ {
					if y == 4 {
						continue
					}
					d := o[y] ^ o2[y]
					if y >= b && y < b+n {
						// flipped bits outside the declared outputs are simply carried through
						wm := covered(in.Out, y)
						if y < 16 && wm&0xffffffff == 0xffffffff {
							wm = ^uint64(0)
						}
						d &^= flips[y-b] &^ wm
					}
					if y == 280 {
						d &= 0x8d5
					}
					if d != 0 {
						found = &viol{k, "reads", fmt.Sprintf("flipping bits of word %d that are not declared as read changes word %d (%#x vs %#x)", w, y, o[y], o2[y])}
					}
				}
			}
		}
		// memory outside the declared operand must not influence anything: an m32 form that reads 8 bytes shows here
		if found == nil && in.Base >= 0 {
			for t := 0; t < trials && found == nil; t++ {
				var s, o, s2, o2 state
				randState(&s)
				s2 = s
				for w := 281; w < 313; w++ {
					var fm uint64
					for b := 0; b < 8; b++ {
						off := (w-281)*8 + b
						if lo, hi := memRange(&in); off < lo || off >= hi {
							fm |= 0xff << uint(8*b)
						}
					}
					s2[w] ^= (rnd() | 1) & fm
				}
				run(k, &in, &s, &o)
				run(k, &in, &s2, &o2)
				for y := 0; y < 313 && found == nil; y++ {
					if y == 4 {
						continue
					}
					d := o[y] ^ o2[y]
					if y >= 281 {
						d &^= s[y] ^ s2[y] // the flipped bytes themselves are carried through
					}
					if y == 280 {
						d &= 0x8d5
					}
					if d != 0 {
						found = &viol{k, "memreads", fmt.Sprintf("memory bytes outside the %d-byte operand influence word %d (%#x vs %#x)", in.MemSize, y, o[y], o2[y])}
					}
				}
			}
		}
		if found != nil {
			enc.Encode(found)
		}
	}
	fmt.Fprintf(os.Stderr, "DONE\n")
}
`

// hwRun builds and runs the differential harness for the given instances
func hwRun(c *Ctx, insts []*hwInst, trials int) (viols []map[string]any, faulted []int, ran int) {
	dir := filepath.Join(c.Tmp, "c04hw")
	os.MkdirAll(dir, 0o755)
	var asm, tab strings.Builder
	asm.WriteString("#include \"textflag.h\"\n\nGLOBL outptr<>(SB), NOPTR, $8\nGLOBL saver15<>(SB), NOPTR, $8\nGLOBL savebp<>(SB), NOPTR, $8\n\n")
	asm.WriteString(hwCommon())
	tab.WriteString("package main\n\nvar funcs = []func(in, out *state){\n")
	type jl struct {
		Word, Words int
		Mask        uint64
	}
	type ji struct {
		Line        string
		In, Out     []jl
		Base, Index int
		MemOut      bool
		MemSize     int
		VIndex      int
	}
	var meta []ji
	for k, in := range insts {
		asm.WriteString(hwStub(k, in.Line))
		fmt.Fprintf(&tab, "\tf%d,\n", k)
	}
	tab.WriteString("}\n")
	for k := range insts {
		fmt.Fprintf(&tab, "func f%d(in, out *state)\n", k)
	}
	for _, in := range insts {
		m := ji{Line: in.Line, Base: in.Base, Index: in.Index, MemOut: in.MemOut, MemSize: in.MemSize, VIndex: in.VIndex}
		add := func(rs []reg.Register, dst *[]jl) {
			for _, r := range rs {
				if w, n, bm, ok := hwLoc(r); ok {
					*dst = append(*dst, jl{w, n, bm})
				}
			}
		}
		func() {
			defer func() { recover() }()
			add(in.I.InputRegisters(), &m.In)
		}()
		add(in.I.OutputRegisters(), &m.Out)
		meta = append(meta, m)
	}
	mj, _ := json.Marshal(meta)
	os.WriteFile(filepath.Join(dir, "insts.json"), mj, 0o644)
	os.WriteFile(filepath.Join(dir, "stubs_amd64.s"), []byte(asm.String()), 0o644)
	os.WriteFile(filepath.Join(dir, "funcs.go"), []byte(tab.String()), 0o644)
	os.WriteFile(filepath.Join(dir, "main.go"), []byte(hwDriver), 0o644)
	os.WriteFile(filepath.Join(dir, "go.mod"), []byte("module c04hw\n\ngo 1.23\n"), 0o644)
	cmd := exec.Command("go", "build", "-o", "hw", ".")
	cmd.Dir = dir
	cmd.Env = append(os.Environ(), "GOFLAGS=-mod=mod")
	if out, err := cmd.CombinedOutput(); err != nil {
		die(fmt.Errorf("c04hw build: %v\n%s", err, tailStr(string(out), 2000)))
	}
	const shards = 12
	var mu sync.Mutex
	var wg sync.WaitGroup
	per := (len(insts) + shards - 1) / shards
	for sh := 0; sh < shards; sh++ {
		lo, hi := sh*per, (sh+1)*per
		if hi > len(insts) {
			hi = len(insts)
		}
		if lo >= hi {
			continue
		}
		wg.Add(1)
		go func(start, end int) {
			defer wg.Done()
			for start < end {
				cmd := exec.Command(filepath.Join(dir, "hw"), filepath.Join(dir, "insts.json"), fmt.Sprint(start), fmt.Sprint(end), fmt.Sprint(trials))
				var stderr strings.Builder
				cmd.Stderr = &stderr
				out, err := cmd.Output()
				mu.Lock()
				for _, ln := range strings.Split(string(out), "\n") {
					if strings.TrimSpace(ln) == "" {
						continue
					}
					var v map[string]any
					if json.Unmarshal([]byte(ln), &v) == nil {
						viols = append(viols, v)
					}
				}
				last := -1
				done := false
				for _, ln := range strings.Split(stderr.String(), "\n") {
					if strings.HasPrefix(ln, "BEGIN ") {
						fmt.Sscanf(ln, "BEGIN %d", &last)
					}
					if ln == "DONE" {
						done = true
					}
				}
				if err == nil && done {
					ran += end - start
					mu.Unlock()
					return
				}
				if last < start {
					last = start
				}
				ran += last - start
				faulted = append(faulted, last)
				start = last + 1
				mu.Unlock()
			}
		}(lo, hi)
	}
	wg.Wait()
	sort.Ints(faulted)
	sort.Slice(viols, func(a, b int) bool { return viols[a]["K"].(float64) < viols[b]["K"].(float64) })
	return
}

func tailStr(s string, n int) string {
	if len(s) > n {
		return s[len(s)-n:]
	}
	return s
}

func hwEligible(i *ir.Instruction) (string, bool) {
	if why := hwExcluded(i.Opcode); why != "" {
		return why, false
	}
	for _, isa := range i.ISA {
		if ok, known := hwISA[isa]; !known || !ok {
			return "ISA " + isa + " not available", false
		}
	}
	for _, op := range i.Operands {
		switch o := op.(type) {
		case operand.Rel, operand.LabelRef:
			return "relative operand", false
		case operand.Mem:
			if o.Base == nil || o.Symbol.Name != "" {
				return "symbolic memory operand", false
			}
			if strings.HasPrefix(i.Opcode, "BT") && len(i.Operands) == 2 {
				if _, isreg := i.Operands[0].(reg.Register); isreg {
					return "bit-string addressing reaches outside the memory operand", false
				}
			}
		case reg.Register:
			p := reg.ToPhysical(o)
			if p == nil || (p.Kind() == reg.KindGP && p.PhysicalIndex() == 4) || p.Kind() == reg.KindPseudo {
				return "virtual register or stack pointer", false
			}
			if p.Kind() == reg.KindOpmask && p.PhysicalIndex() == 0 {
				return "k0", false
			}
		}
	}
	// high-byte registers next to anything that needs a REX prefix are misencoded by the assembler (C05 finding)
	hi, rex := false, false
	for _, op := range i.Operands {
		if r, ok := op.(reg.Register); ok {
			p := reg.ToPhysical(r)
			if p.Kind() != reg.KindGP {
				continue
			}
			if p.Mask() == 2 { // 8H
				hi = true
			} else if p.PhysicalIndex() >= 8 || p.Size() == 8 || (p.Size() == 1 && p.PhysicalIndex() >= 4) {
				rex = true
			}
		}
		if m, ok := op.(operand.Mem); ok {
			for _, r := range []reg.Register{m.Base, m.Index} {
				if r != nil && reg.ToPhysical(r) != nil && reg.ToPhysical(r).PhysicalIndex() >= 8 {
					rex = true
				}
			}
		}
	}
	if hi && rex {
		return "high-byte register with a REX prefix (assembler misencodes: C05 finding)", false
	}
	// zeroing-masking with a memory destination is an undefined instruction (#UD); C05 reports it
	for _, sfx := range i.Suffixes {
		if sfx == "Z" {
			for _, out := range i.Outputs {
				if _, ok := out.(operand.Mem); ok {
					return "zeroing-masked store raises #UD (C05 finding)", false
				}
			}
		}
	}
	// implicit stack pointer / memory users
	for _, r := range append(i.InputRegisters(), i.OutputRegisters()...) {
		if p := reg.ToPhysical(r); p != nil && p.Kind() == reg.KindGP && p.PhysicalIndex() == 4 {
			return "stack pointer", false
		}
	}
	return "", true
}

func hwLine(i *ir.Instruction) string {
	fn := ir.NewFunction("x")
	fn.AddInstruction(cloneInstr(i))
	f := ir.NewFile()
	f.AddSection(fn)
	out, _ := printer.NewGoAsm(printer.Config{Name: "avo", Pkg: "p"}).Print(f)
	ls := strings.Split(strings.TrimSpace(string(out)), "\n")
	return strings.TrimSpace(ls[len(ls)-1])
}

// physical register samples for an operand type (no stack pointer)
func hwSample(t string, r *RNG, nvec int) (operand.Op, bool) {
	gp := []int{0, 1, 2, 3, 5, 6, 7, 8, 9, 10, 11, 12, 13, 14, 15}
	_ = gp
	vec := func(s reg.Spec) reg.Register { return reg.Vector.Lookup(reg.Index(r.Intn(nvec)), s) }
	switch t {
	case "1":
		return operand.U8(1), true
	case "3":
		return operand.U8(3), true
	case "IMM2U":
		return operand.U8(r.Intn(4)), true
	case "IMM8":
		return operand.U8(r.Intn(128)), true
	case "IMM16":
		return operand.U16(300 + r.Intn(1000)), true
	case "IMM32":
		return operand.U32(70000 + r.Intn(100000)), true
	case "IMM64":
		return operand.U64(1<<40 + uint64(r.Intn(1000))), true
	case "AL":
		return reg.AL, true
	case "CL":
		return reg.CL, true
	case "AX":
		return reg.AX, true
	case "EAX":
		return reg.EAX, true
	case "RAX":
		return reg.RAX, true
	case "XMM0":
		return reg.X0, true
	case "R8":
		if r.Chance(15) {
			return Pick(r, []reg.Register{reg.AH, reg.BH, reg.CH, reg.DH}), true
		}
		return Pick(r, []reg.Register{reg.AL, reg.CL, reg.DL, reg.BL, reg.BPB, reg.SIB, reg.DIB, reg.R8B, reg.R9B, reg.R10B, reg.R11B, reg.R12B, reg.R13B, reg.R14B, reg.R15B}), true
	case "R16":
		return Pick(r, []reg.Register{reg.AX, reg.CX, reg.DX, reg.BX, reg.BP, reg.SI, reg.DI, reg.R8W, reg.R9W, reg.R10W, reg.R11W, reg.R12W, reg.R13W, reg.R14W, reg.R15W}), true
	case "R32":
		return Pick(r, []reg.Register{reg.EAX, reg.ECX, reg.EDX, reg.EBX, reg.EBP, reg.ESI, reg.EDI, reg.R8L, reg.R9L, reg.R10L, reg.R11L, reg.R12L, reg.R13L, reg.R14L, reg.R15L}), true
	case "R64":
		return Pick(r, []reg.Register{reg.RAX, reg.RCX, reg.RDX, reg.RBX, reg.RBP, reg.RSI, reg.RDI, reg.R8, reg.R9, reg.R10, reg.R11, reg.R12, reg.R13, reg.R14, reg.R15}), true
	case "XMM":
		return vec(reg.S128), true
	case "YMM":
		return vec(reg.S256), true
	case "ZMM":
		return vec(reg.S512), true
	case "K":
		return Pick(r, []reg.Register{reg.K1, reg.K2, reg.K3, reg.K4, reg.K5, reg.K6, reg.K7}), true
	case "VM32X", "VM64X", "VM32Y", "VM64Y", "VM32Z", "VM64Z":
		g64 := []reg.Register{reg.RAX, reg.RCX, reg.RDX, reg.RBX, reg.RBP, reg.RSI, reg.RDI, reg.R8, reg.R9, reg.R10, reg.R11, reg.R12, reg.R13, reg.R14, reg.R15}
		spec := map[byte]reg.Spec{'X': reg.S128, 'Y': reg.S256, 'Z': reg.S512}[t[len(t)-1]]
		return operand.Mem{Base: Pick(r, g64), Index: vec(spec), Scale: Pick(r, []uint8{1, 2, 4, 8}), Disp: 64}, true
	case "M", "M8", "M16", "M32", "M64", "M128", "M256", "M512":
		g64 := []reg.Register{reg.RAX, reg.RCX, reg.RDX, reg.RBX, reg.RBP, reg.RSI, reg.RDI, reg.R8, reg.R9, reg.R10, reg.R11, reg.R12, reg.R13, reg.R14, reg.R15}
		m := operand.Mem{Base: Pick(r, g64), Disp: 128}
		if r.Chance(40) {
			for {
				m.Index = Pick(r, g64)
				if m.Index != m.Base {
					break
				}
			}
			m.Scale = Pick(r, []uint8{1, 2, 4, 8})
			m.Disp = 128 - 8*int(m.Scale)
		}
		return m, true
	}
	return nil, false
}

// c04hw generates register-only instances of the constructors' documented forms, executes them
// on the host, and records findings as harness-level violations.
func c04hw(c *Ctx, d *formsDump, ctors map[string]*ctorInfo, names []string, opcIndexOf map[string]int) {
	o := c.Out
	rng := NewRNG(c.Seed + 404)
	perForm, trials := 3, 4
	stride := 1
	if c.Tier == "thorough" {
		perForm, trials, stride = 3, 24, 1
	}
	skipped := map[string]int{}
	var insts []*hwInst
	for k, name := range names {
		if k%stride != int(c.Seed)%stride {
			continue
		}
		ci := ctors[name]
		for _, df := range ci.Doc {
			for rep := 0; rep < perForm; rep++ {
				sample := func(nvec int) ([]operand.Op, bool) {
					for try := 0; ; try++ {
						var ops []operand.Op
						used := map[string]bool{}
						distinct := true
						for _, tn := range df[1:] {
							op, ok := hwSample(strings.ToUpper(tn), rng, nvec)
							if !ok {
								return nil, false
							}
							if r, isr := op.(reg.Register); isr {
								k := fmt.Sprint(r.Kind(), reg.ToPhysical(r).PhysicalIndex())
								if used[k] {
									distinct = false
								}
								used[k] = true
							}
							ops = append(ops, op)
						}
						if rep == 2 {
							// the same register in every position that admits it
							class := map[string]string{"al": "r8", "cl": "r8", "ax": "r16", "eax": "r32", "rax": "r64", "xmm0": "xmm"}
							cls := func(t string) string {
								t = strings.ToLower(t)
								if c, ok := class[t]; ok {
									return c
								}
								return t
							}
							fixed := func(t string) bool { _, ok := class[strings.ToLower(t)]; return ok }
							for a := range ops {
								ra, ok := ops[a].(reg.Register)
								if !ok {
									continue
								}
								for b := a + 1; b < len(ops); b++ {
									rb, okb := ops[b].(reg.Register)
									if !okb || cls(df[1+a]) != cls(df[1+b]) {
										continue
									}
									switch {
									case !fixed(df[1+b]):
										ops[b] = ra
									case !fixed(df[1+a]):
										ops[a] = rb
										ra = rb
									}
								}
								break
							}
							return ops, true
						}
						if distinct || try > 20 {
							return ops, true
						}
					}
				}
				ops, okf := sample(32)
				if !okf {
					skipped["memory, relative or unsupported operand type"]++
					break
				}
				i, err, _ := x86.VerifBuild(opcIndexOf[ci.Opcode], ci.Suffixes, ops)
				if err == nil && i != nil && !strings.Contains(strings.Join(i.ISA, ","), "AVX512") {
					ops, _ = sample(16)
					i, err, _ = x86.VerifBuild(opcIndexOf[ci.Opcode], ci.Suffixes, ops)
				}
				if err != nil || i == nil {
					skipped["constructor rejects the operands"]++
					continue
				}
				// VEX-only forms with registers 16-31 cannot be encoded
				if why, ok := hwEligible(i); !ok {
					skipped[why]++
					continue
				}
				in := &hwInst{I: i, Line: hwLine(i), Sig: hwSig(df[1:], i), Base: -1, Index: -1, VIndex: -1}
				for k, op := range i.Operands {
					if m, ok := op.(operand.Mem); ok {
						in.Base = int(reg.ToPhysical(m.Base).PhysicalIndex())
						if m.Index != nil && m.Index.Kind() == reg.KindVector {
							in.VIndex = int(reg.ToPhysical(m.Index).PhysicalIndex())
						} else if m.Index != nil {
							in.Index = int(reg.ToPhysical(m.Index).PhysicalIndex())
						}
						fmt.Sscanf(strings.ToLower(df[1+k]), "m%d", &in.MemSize)
						in.MemSize /= 8
						for _, out := range i.Outputs {
							if _, isMem := out.(operand.Mem); isMem {
								in.MemOut = true
							}
						}
					}
				}
				insts = append(insts, in)
			}
		}
	}
	// drop the instances the assembler rejects
	insts, rejected := hwFilterAssembles(c, insts)
	skipped["rejected by the Go assembler (C05 territory)"] = rejected
	viols, faulted, ran := hwRun(c, insts, trials)
	for _, f := range faulted {
		skipped["faulted on the host (SIGILL/SIGSEGV/SIGFPE)"]++
		_ = f
	}
	seen := map[string]bool{}
	for _, v := range viols {
		k := int(v["K"].(float64))
		in := insts[k]
		key := fmt.Sprintf("hw:%s:%s:%s", v["Kind"], in.I.Opcode, in.Sig)
		if seen[key] {
			continue
		}
		seen[key] = true
		o.Plan.GoViolations = append(o.Plan.GoViolations, GoViolation{Key: key, Desc: fmt.Sprintf("executing `%s` on the host: %s; declared reads %v, writes %v", in.Line, v["Desc"], regNames(safeInputs(in.I)), regNames(in.I.OutputRegisters())), Replay: map[string]any{"instruction": in.Line, "observation": v["Desc"], "trials": trials}})
	}
	var faultLines []string
	faultSeen := map[string]bool{}
	for _, f := range faulted {
		fk := insts[f].I.Opcode + " " + insts[f].Sig
		if !faultSeen[fk] {
			faultSeen[fk] = true
			faultLines = append(faultLines, insts[f].Line)
		}
	}
	sort.Strings(faultLines)
	if o.Plan.EnvValidation == nil {
		o.Plan.EnvValidation = map[string]any{}
	}
	o.Plan.EnvValidation["hardware_execution"] = map[string]any{
		"instances_executed": ran, "trials_per_instance": trials, "skipped": skipped, "faulted_examples": faultLines,
		"what": "each instance is run on the host CPU from random machine states (GP except RSP, K0-K7, Z0-Z31, arithmetic flags); bytes outside the declared outputs must be unchanged, and flipping bits not declared as read must not change any other location",
	}
	o.Plan.Stats["hw_instances"] = ran
}

func safeInputs(i *ir.Instruction) (rs []reg.Register) {
	defer func() { recover() }()
	return i.InputRegisters()
}

func regNames(rs []reg.Register) []string {
	var out []string
	for _, r := range rs {
		out = append(out, r.Asm())
	}
	return out
}

func hwFilterAssembles(c *Ctx, insts []*hwInst) ([]*hwInst, int) {
	dir := filepath.Join(c.Tmp, "c04hwasm")
	os.MkdirAll(dir, 0o755)
	defer os.RemoveAll(dir)
	goroot, _ := exec.Command("go", "env", "GOROOT").Output()
	inc := filepath.Join(strings.TrimSpace(string(goroot)), "pkg", "include")
	rejected := 0
	lineRe := regexp.MustCompile(`t\.s:(\d+)`)
	for iter := 0; iter < 400; iter++ {
		var b strings.Builder
		b.WriteString("#include \"textflag.h\"\nTEXT ·f(SB), NOSPLIT, $0\n")
		for _, in := range insts {
			b.WriteString("\t" + in.Line + "\n")
		}
		b.WriteString("\tRET\n")
		fn := filepath.Join(dir, "t.s")
		os.WriteFile(fn, []byte(b.String()), 0o644)
		out, err := exec.Command("go", "tool", "asm", "-I", inc, "-p", "main", "-o", filepath.Join(dir, "t.o"), fn).CombinedOutput()
		if err == nil {
			return insts, rejected
		}
		bad := map[int]bool{}
		for _, m := range lineRe.FindAllStringSubmatch(string(out), -1) {
			var ln int
			fmt.Sscan(m[1], &ln)
			if ln-3 >= 0 && ln-3 < len(insts) {
				bad[ln-3] = true
			}
		}
		if len(bad) == 0 {
			die(fmt.Errorf("c04hw: assembler failed without line numbers: %s", tailStr(string(out), 1000)))
		}
		var keep []*hwInst
		for k, in := range insts {
			if bad[k] {
				rejected++
			} else {
				keep = append(keep, in)
			}
		}
		insts = keep
	}
	die(fmt.Errorf("c04hw: too many assembler rejections"))
	return nil, 0
}

// hwSig is the operand-type signature of an instance, with a marker when one register is used twice
func hwSig(tys []string, i *ir.Instruction) string {
	sig := strings.ToLower(strings.Join(tys, ","))
	seen := map[string]bool{}
	for _, op := range i.Operands {
		if r, ok := op.(reg.Register); ok {
			k := fmt.Sprint(r.Kind(), reg.ToPhysical(r).PhysicalIndex())
			if seen[k] {
				return sig + ":same-register"
			}
			seen[k] = true
		}
	}
	return sig
}
