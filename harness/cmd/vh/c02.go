package main

import "github.com/mmcloughlin/avo/ir"

func init() { props["C02"] = c02 }

func c02(c *Ctx) {
	defer emitLargeCases(c, largeProgs("loop with", "32-bit", "sum of"))
	defer maskSetFile(c)                            // reg/set.go: the set algebra liveness is computed with
	defer declaredActionsCheck(c, "liveness", true) // the reads/writes liveness starts from include the implicit operands
	rng := NewRNG(c.Seed)
	n := 320
	if c.Thorough() {
		n = 5000
	}
	progs := pipelineCorpus()
	sw := sweepProgs(c, map[bool]int{false: 10, true: 1}[c.Thorough()])
	progs = append(progs, sw...)
	n += len(sw)
	for len(progs) < n {
		progs = append(progs, genProg(rng, ProgOpts{MaxNodes: 6 + rng.Intn(50), Malformed: rng.Chance(5), Phys: true, Synth: true, NVirt: 8, Branches: true}))
	}
	emitPipelineCases(c, progs, []pipeCheck{chkDiff, chkLive, chkCFG, chkZext}, 20, func(p *Prog, ob *Observed) bool {
		nb := 0
		for _, nd := range p.Nodes {
			if i, ok := nd.(*ir.Instruction); ok && i.IsBranch {
				nb++
			}
		}
		return len(ob.LiveIn) > 3 && nb > 0
	})
	c.Out.Plan.Rule = "corpus of property-named shapes (masked self-compare, merge-masked self-xor, sub-register writes in a loop, high/low byte) + random programs: real x86 constructors (GP 8L/8H/16/32/64, XMM/YMM/ZMM, opmask, memory operands with base/index, implicit operands, self-cancelling forms) and synthetic instructions with arbitrary input/output sets over random CFGs (forward/backward branches, unreachable code, fall-off-the-end); non-trivial = liveness ran on more than 3 instructions and the program has a branch; distinct by program text"
}
