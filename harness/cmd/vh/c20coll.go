package main

import (
	"fmt"
	"sort"
	"strings"

	"github.com/mmcloughlin/avo/build"
	"github.com/mmcloughlin/avo/ir"
	"github.com/mmcloughlin/avo/operand"
	"github.com/mmcloughlin/avo/pass"
	"github.com/mmcloughlin/avo/reg"
	"github.com/mmcloughlin/avo/x86"
)

// collectionFile: sequences of draws from the real reg.Collection (directly and through build.Context),
// against Model/Collection.v: pairwise different IDs, requested kind and width, virtual.
func collectionFile(c *Ctx) {
	o := c.Out
	rng := NewRNG(c.Seed + 2020)
	n := 60
	if c.Thorough() {
		n = 600
	}
	type drawFn struct {
		name string
		kind reg.Kind
		spec reg.Spec
		viaC func(*reg.Collection) reg.Register
		viaB func(*build.Context) reg.Register
	}
	fns := []drawFn{
		{"GP8L", reg.KindGP, reg.S8L, func(c *reg.Collection) reg.Register { return c.GP8L() }, func(b *build.Context) reg.Register { return b.GP8L() }},
		{"GP8H", reg.KindGP, reg.S8H, func(c *reg.Collection) reg.Register { return c.GP8H() }, func(b *build.Context) reg.Register { return b.GP8H() }},
		{"GP8", reg.KindGP, reg.S8L, func(c *reg.Collection) reg.Register { return c.GP8() }, func(b *build.Context) reg.Register { return b.GP8() }},
		{"GP16", reg.KindGP, reg.S16, func(c *reg.Collection) reg.Register { return c.GP16() }, func(b *build.Context) reg.Register { return b.GP16() }},
		{"GP32", reg.KindGP, reg.S32, func(c *reg.Collection) reg.Register { return c.GP32() }, func(b *build.Context) reg.Register { return b.GP32() }},
		{"GP64", reg.KindGP, reg.S64, func(c *reg.Collection) reg.Register { return c.GP64() }, func(b *build.Context) reg.Register { return b.GP64() }},
		{"XMM", reg.KindVector, reg.S128, func(c *reg.Collection) reg.Register { return c.XMM() }, func(b *build.Context) reg.Register { return b.XMM() }},
		{"YMM", reg.KindVector, reg.S256, func(c *reg.Collection) reg.Register { return c.YMM() }, func(b *build.Context) reg.Register { return b.YMM() }},
		{"ZMM", reg.KindVector, reg.S512, func(c *reg.Collection) reg.Register { return c.ZMM() }, func(b *build.Context) reg.Register { return b.ZMM() }},
		{"K", reg.KindOpmask, reg.S64, func(c *reg.Collection) reg.Register { return c.K() }, func(b *build.Context) reg.Register { return b.K() }},
	}
	var rows []string
	for j := 0; j < n; j++ {
		coll := reg.NewCollection()
		ctx := build.NewContext()
		viaCtx := j%3 == 2
		k := 5 + rng.Intn(60)
		// directed: many draws of one method (more high-byte registers than there are high-byte registers, ...)
		var only *drawFn
		if j < len(fns) {
			only = &fns[j]
			k = 40
		}
		var items, ds []string
		for a := 0; a < k; a++ {
			f := fns[rng.Intn(len(fns))]
			if only != nil && a%4 != 3 {
				f = *only
			}
			var r reg.Register
			if viaCtx {
				r = f.viaB(ctx)
			} else if rng.Chance(15) {
				r = coll.VirtualRegister(f.kind, f.spec)
			} else {
				r = f.viaC(coll)
			}
			items = append(items, fmt.Sprintf("(%d, %d, %s)", uint64(f.kind), uint64(f.spec.Mask()), cReg(r)))
			ds = append(ds, f.name)
		}
		how := "reg.Collection"
		if viaCtx {
			how = "build.Context"
		}
		o.Plan.Cases = append(o.Plan.Cases, Case{Index: 8000000 + j, Key: "collection:draws", Desc: how + ": " + strings.Join(ds, " "), Input: map[string]any{"draws": ds, "via": how}, Nontrivial: k >= 8})
		rows = append(rows, cList(items))
	}
	var b strings.Builder
	b.WriteString("From Avo Require Import Base.Prelude Model.IR Model.Obs Model.Collection.\nOpen Scope N_scope.\nNotation R := Build_reg.\n")
	fmt.Fprintf(&b, "Definition cases : list coll_case := %s.\n", cListNL(rows))
	b.WriteString("Definition R_collection_violation := Eval vm_compute in List.map (N.add 8000000) (indices_where_ (fun c => negb (coll_impl_ok c)) cases).\nPrint R_collection_violation.\n")
	b.WriteString("Definition R_collection_mismatch := Eval vm_compute in List.map (N.add 8000000) (indices_where_ (fun c => negb (coll_agree c)) cases).\nPrint R_collection_mismatch.\n")
	o.WriteFile("Collection.v", b.String())
	o.Stage("Collection.v")
	o.ExpectEmpty("Collection.v", "R_collection_violation", "violation", "two registers drawn from one collection share an ID, or a drawn register is not a virtual register of the requested kind and width")
	o.ExpectEmpty("Collection.v", "R_collection_mismatch", "mismatch", "model of reg.Collection (one uint16 counter per kind) vs the IDs of the registers drawn")
	o.Plan.Stats["collection_sequences"] = n

	// the counter is a uint16: the 65537th register of a kind
	{
		coll := reg.NewCollection()
		first := coll.GP64()
		var last reg.Register
		for a := 0; a < 65536; a++ {
			last = coll.GP64()
		}
		idx := o.AddCase(Case{Key: "collection:probe", Desc: "65537 GP64 draws from one collection", Input: map[string]any{"draws": 65537}, Nontrivial: true})
		if last.ID() == first.ID() {
			o.Plan.GoViolations = append(o.Plan.GoViolations, GoViolation{Key: "collection:index-wrap", Desc: fmt.Sprintf("case %d: the 65537th general-purpose register drawn from a collection has the ID of the first (%d)", idx, uint64(first.ID())), Replay: map[string]any{"draws": 65537}})
		}
	}
}

// maskSetFile: the byte-mask set operations of reg/set.go on sets over register views that alias (the same
// register at several widths, high and low bytes, vector widths), against Model/MaskSetOps.v.  The inputs
// are map literals; the results are read entry by entry.
func maskSetFile(c *Ctx) {
	o := c.Out
	rng := NewRNG(c.Seed + 2021)
	n := 400
	if c.Thorough() {
		n = 8000
	}
	coll := reg.NewCollection()
	v1, v2 := coll.GP64(), coll.GP64()
	x1 := coll.ZMM()
	views := []reg.Register{
		reg.AL, reg.AH, reg.AX, reg.EAX, reg.RAX, reg.CL, reg.CH, reg.CX, reg.ECX, reg.RCX, reg.R9B, reg.R9W, reg.R9L, reg.R9,
		reg.X3, reg.Y3, reg.Z3, reg.X17, reg.Z17, reg.K1, reg.K2,
		v1, v1.As32(), v1.As16(), v1.As8L(), v1.As8H(), v2, v2.As8L(), v2.As16(), x1, x1.AsX(), x1.AsY(),
	}
	pairs := func(s reg.MaskSet) string {
		var l [][2]uint64
		for id, m := range s {
			l = append(l, [2]uint64{uint64(id), uint64(m)})
		}
		sort.Slice(l, func(i, j int) bool { return l[i][0] < l[j][0] })
		return cPairs(l)
	}
	text := func(s reg.MaskSet) string {
		var ss []string
		for id, m := range s {
			ss = append(ss, fmt.Sprintf("%d:%#x", uint64(id), uint64(m)))
		}
		sort.Strings(ss)
		return "{" + strings.Join(ss, " ") + "}"
	}
	randSet := func() reg.MaskSet {
		s := reg.MaskSet{}
		for k := 0; k < rng.Intn(6); k++ {
			r := Pick(rng, views)
			s[r.ID()] |= r.Mask()
		}
		return s
	}
	var rows []string
	for j := 0; j < n; j++ {
		s, t := randSet(), randSet()
		if rng.Chance(50) && len(s) > 0 { // make the sets meet on a register at different widths
			for id := range s {
				t[id] |= Pick(rng, []uint16{0x1, 0x2, 0x3, 0xf, 0xff})
				break
			}
		}
		sIn, tIn := pairs(s), pairs(t)
		op := rng.Intn(4)
		var res reg.MaskSet
		chg := false
		name := ""
		switch op {
		case 0:
			name = "Difference"
			res = s.Difference(t)
		case 1:
			name = "DifferenceUpdate"
			res = reg.MaskSet{}
			for id, m := range s {
				res[id] = m
			}
			chg = res.DifferenceUpdate(t)
		case 2:
			name = "Update"
			res = reg.MaskSet{}
			for id, m := range s {
				res[id] = m
			}
			chg = res.Update(t)
		default:
			name = "NewMaskSetFromRegisters"
			var rs []reg.Register
			var tl [][2]uint64
			for k := 0; k < 1+rng.Intn(6); k++ {
				r := Pick(rng, views)
				rs = append(rs, r)
				tl = append(tl, [2]uint64{uint64(r.ID()), uint64(r.Mask())})
			}
			res = reg.NewMaskSetFromRegisters(rs)
			sIn, tIn = "[]", cPairs(tl)
		}
		o.Plan.Cases = append(o.Plan.Cases, Case{Index: 9000000 + j, Key: "maskset:" + name, Desc: fmt.Sprintf("%s: s=%s t=%s -> %s changed=%v", name, sIn, tIn, text(res), chg), Input: map[string]any{"op": name, "s": sIn, "t": tIn}, Nontrivial: true})
		rows = append(rows, fmt.Sprintf("(%d, %s, %s, %s, %s)", op, sIn, tIn, pairs(res), cBool(chg)))
	}
	var b strings.Builder
	b.WriteString("From Avo Require Import Base.Prelude Model.IR Model.Obs Model.MaskSetOps.\nOpen Scope N_scope.\n")
	fmt.Fprintf(&b, "Definition cases : list msop_case := %s.\n", cListNL(rows))
	b.WriteString("Definition R_maskset_violation := Eval vm_compute in List.map (N.add 9000000) (indices_where_ (fun c => negb (msop_ok c)) cases).\nPrint R_maskset_violation.\n")
	o.WriteFile("MaskSet.v", b.String())
	o.Stage("MaskSet.v")
	o.ExpectEmpty("MaskSet.v", "R_maskset_violation", "violation", "a set operation on register byte masks differs from the bytewise set algebra (e.g. a live wide view minus a written narrow view must keep the remaining bytes)")
	o.Plan.Stats["maskset_operations"] = n
}

// aliasPairsKeptApart: two views of one register that have the same width but different bytes (AL/AH, ...,
// the low and high byte of a virtual register) are different registers to every consumer of the model; the
// self-move clean-up, which deletes `MOV r, r`, must keep a move between them.
func aliasPairsKeptApart(c *Ctx) {
	o := c.Out
	var pairs [][2]reg.Register
	ps := reg.GeneralPurpose.Registers()
	for _, a := range ps {
		for _, b := range ps {
			if a.ID() == b.ID() && a.Size() == b.Size() && a.Mask() != b.Mask() {
				pairs = append(pairs, [2]reg.Register{a, b})
			}
		}
	}
	coll := reg.NewCollection()
	v := coll.GP64()
	pairs = append(pairs, [2]reg.Register{v.As8L(), v.As8H()}, [2]reg.Register{v.As8H(), v.As8L()})
	for _, pr := range pairs {
		mv, err := x86.MOVB(pr[0], pr[1])
		if err != nil {
			continue
		}
		fn := ir.NewFunction("f")
		fn.AddInstruction(mv)
		fn.AddInstruction(&ir.Instruction{Opcode: "RET", IsTerminal: true})
		idx := o.AddCase(Case{Key: "alias:self-move", Desc: fmt.Sprintf("MOVB %s, %s through PruneSelfMoves", pr[0].Asm(), pr[1].Asm()), Input: map[string]any{"src": pr[0].Asm(), "dst": pr[1].Asm()}, Nontrivial: true})
		if err := pass.PruneSelfMoves(fn); err != nil || len(fn.Instructions()) != 2 {
			o.Plan.GoViolations = append(o.Plan.GoViolations, GoViolation{Key: "alias:views-conflated", Desc: fmt.Sprintf("case %d: `MOVB %s, %s` moves one byte of the register to another byte of it, but the self-move clean-up treats the two views as the same register and deletes it (%v)", idx, pr[0].Asm(), pr[1].Asm(), err), Replay: map[string]any{"src": pr[0].Asm(), "dst": pr[1].Asm()}})
		}
	}
	o.Plan.Stats["alias_pairs"] = len(pairs)
}

// basePointerViews: every view of the base pointer the register table marks as such (the flag is what
// the frame-pointer rule of the pipeline keys on): a function writing through it gets a frame.
func basePointerViews(c *Ctx) {
	o := c.Out
	for _, p := range reg.GeneralPurpose.Registers() {
		if p.Info()&reg.BasePointer == 0 {
			continue
		}
		var mv *ir.Instruction
		var err error
		switch p.Size() {
		case 1:
			mv, err = x86.MOVB(operand.U8(1), p)
		case 2:
			mv, err = x86.MOVW(operand.U16(1), p)
		case 4:
			mv, err = x86.MOVL(operand.U32(1), p)
		default:
			mv, err = x86.MOVQ(operand.U32(1), p)
		}
		if err != nil {
			continue
		}
		fn := ir.NewFunction("f")
		fn.Attributes = 4
		fn.AddInstruction(mv)
		fn.AddInstruction(&ir.Instruction{Opcode: "RET", IsTerminal: true})
		f := ir.NewFile()
		f.AddSection(fn)
		idx := o.AddCase(Case{Key: "alias:bp-view", Desc: "a write through " + p.Asm() + " (" + fmt.Sprint(p.Size()) + " bytes), compiled", Input: map[string]any{"register": p.Asm(), "size": p.Size()}, Nontrivial: true})
		if err := pass.Compile.Execute(f); err != nil || fn.FrameBytes() == 0 {
			o.Plan.GoViolations = append(o.Plan.GoViolations, GoViolation{Key: "alias:bp-view-not-recognised", Desc: fmt.Sprintf("case %d: a %d-byte write through %s changes the base pointer register, but the compiled function has frame %d (error %v): the view is not treated as the register it aliases", idx, p.Size(), p.Asm(), fn.FrameBytes(), err), Replay: map[string]any{"register": p.Asm(), "size": p.Size()}})
		}
	}
}

// contextDraws: registers drawn through a build.Context (the Collection a generator actually uses), before the
// first function, inside several functions and after switching functions, interleaved with draws from a
// second Context: within one Context no two drawn registers of a kind share an identity, whichever function
// was active when they were drawn (a value drawn earlier may be used in a later function).
func contextDraws(c *Ctx) {
	o := c.Out
	rng := NewRNG(c.Seed + 2050)
	for h := 0; h < 30; h++ {
		ctxs := []*build.Context{build.NewContext(), build.NewContext()}
		seen := []map[reg.ID]string{{}, {}}
		var steps []string
		bad := ""
		nf := 0
		for s := 0; s < 40 && bad == ""; s++ {
			w := rng.Intn(2)
			ctx := ctxs[w]
			if rng.Chance(20) {
				nf++
				ctx.Function(fmt.Sprintf("f%d", nf))
				steps = append(steps, fmt.Sprintf("ctx%d.Function(f%d)", w, nf))
				continue
			}
			var v reg.Register
			var what string
			switch rng.Intn(8) {
			case 0:
				v, what = ctx.GP64(), "GP64"
			case 1:
				v, what = ctx.GP32(), "GP32"
			case 2:
				v, what = ctx.GP8(), "GP8"
			case 3:
				v, what = ctx.GP8H(), "GP8H"
			case 4:
				v, what = ctx.XMM(), "XMM"
			case 5:
				v, what = ctx.ZMM(), "ZMM"
			case 6:
				v, what = ctx.K(), "K"
			default:
				v, what = ctx.GP16(), "GP16"
			}
			steps = append(steps, fmt.Sprintf("ctx%d.%s()", w, what))
			if prev, dup := seen[w][v.ID()]; dup {
				bad = fmt.Sprintf("step %d (%s) returns the identity %#x already given out at %s of the same Context", s, steps[len(steps)-1], uint64(v.ID()), prev)
			}
			seen[w][v.ID()] = fmt.Sprintf("step %d (%s)", s, steps[len(steps)-1])
		}
		idx := o.AddCase(Case{Key: "regs:context-draws", Desc: strings.Join(steps, "; "), Input: map[string]any{"steps": steps}, Nontrivial: true})
		if bad != "" {
			o.Plan.GoViolations = append(o.Plan.GoViolations, GoViolation{Key: "regs:context-draw-repeats-identity", Desc: fmt.Sprintf("case %d: %s", idx, bad), Replay: map[string]any{"steps": steps}})
		}
	}
}
