package main

import (
	"bytes"
	"fmt"
	"github.com/mmcloughlin/avo/ir"
	"go/ast"
	"go/format"
	"go/importer"
	"go/parser"
	"go/token"
	"go/types"
	"os"
	"os/exec"
	"path/filepath"
	"strings"

	"github.com/mmcloughlin/avo/attr"
	"github.com/mmcloughlin/avo/build"
	"github.com/mmcloughlin/avo/buildtags"
	"github.com/mmcloughlin/avo/gotypes"
	"github.com/mmcloughlin/avo/operand"
	"github.com/mmcloughlin/avo/pass"
	"github.com/mmcloughlin/avo/printer"
	"github.com/mmcloughlin/avo/reg"
)

func init() { props["C12"] = c12 }

var stubSigs = []string{
	"func()", "func(x uint64) uint64", "func(a, b []byte) (n int, ok bool)", "func(p *[4]uint32, s string) (r struct{ a int8; b int64 })",
	"func(x struct{ a int8; _ [0]int; b int64 }, y [3]complex64)", "func(f func(int) int, m map[string]int, c chan int, i interface{})",
	"func(xs ...uint32) uint32", "func(a int8, _ int64, c uint16) (uint8, error)", "func(x, y float64) (lo, hi float64)",
	// wider than a line
	"func(dst0, dst1, dst2, dst3 []byte, src0, src1, src2, src3 []byte, tab *[256]uint32, n0, n1, n2 uint64, rest ...uint32) (written int, ok bool)",
	"func(accumulator0, accumulator1, accumulator2, accumulator3, accumulator4, accumulator5 *[8]uint64, multiplicand *[8]uint64, extraTerms ...uint64) uint64",
	"func(a0, a1, a2, a3, a4, a5, a6, a7, a8, a9, a10, a11, a12, a13, a14, a15, a16, a17, a18, a19, a20, a21, a22, a23 uint64, f func(xs ...int) int) (lo, hi uint64)",
}
var stubPragmas = [][]string{{"noescape"}, {"nosplit"}, {"linkname", "localname", "runtime.foo"}, {"norace"}, {"linkname other runtime.bar"}, {"nocheckptr"}}
var stubDocs = [][]string{{"Sum adds things."}, {"Dot computes x·y.", "", "It is fast."}, {"100% sure: a % b"}, {"line with trailing space "}, {"first\nsecond in one string"}}

func c12(c *Ctx) {
	o := c.Out
	rng := NewRNG(c.Seed + 1200)
	n := 60
	if c.Thorough() {
		n = 1000
	}
	cfg := printer.Config{Name: "avo", Pkg: "stubpkg"}
	var rows []string
	dir := filepath.Join(c.Tmp, "c12")
	nBuilt := 0
	for k := 0; k < n; k++ {
		ctx := build.NewContext()
		if rng.Chance(45) {
			ctx.ConstraintExpr(Pick(rng, []string{"amd64", "amd64,!purego", "linux darwin", "go1.18,amd64 !appengine"}))
		}
		if rng.Chance(25) { // further lines, one of them a repetition
			ctx.ConstraintExpr("!purego")
			ctx.ConstraintExpr(Pick(rng, []string{"amd64", "!purego", "linux darwin"}))
			ctx.ConstraintExpr("amd64")
		}
		nf := 1 + rng.Intn(4)
		type fnInfo struct {
			name, sig string
			doc       []string
			prag      [][]string
		}
		var fns []fnInfo
		hasLinkname := false
		docBuf, argBuf := make([]string, 0, 8), make([]string, 0, 4)
		const scribble = "SCRIBBLED: the caller reused its buffer."
		for j := 0; j < nf; j++ {
			fi := fnInfo{name: fmt.Sprintf("Fn%d_%d", k, j), sig: Pick(rng, stubSigs)}
			ctx.Function(fi.name)
			ctx.Attributes(attr.NOSPLIT)
			ctx.SignatureExpr(fi.sig)
			if rng.Chance(60) {
				if rng.Chance(35) { // Doc sets the documentation: a later call replaces an earlier one
					ctx.Doc("placeholder text.", "", "Deprecated: replaced below.")
				}
				fi.doc = Pick(rng, stubDocs)
				// handed over in a buffer the generator overwrites afterwards, as one that formats each function's
				// documentation into the same slice would
				docBuf = append(docBuf[:0], fi.doc...)
				ctx.Doc(docBuf...)
				for i := range docBuf {
					docBuf[i] = scribble
				}
			}
			for p := 0; p < rng.Intn(3); p++ {
				pr := Pick(rng, stubPragmas)
				if strings.HasPrefix(pr[0], "linkname") {
					hasLinkname = true // the stub then needs import "unsafe", which avo does not emit: not compiled below
				}
				fi.prag = append(fi.prag, pr)
				argBuf = append(argBuf[:0], pr[1:]...)
				ctx.Pragma(pr[0], argBuf...)
				for i := range argBuf {
					argBuf[i] = "scribbled"
				}
			}
			ctx.MOVQ(operand.U32(1), reg.RAX)
			ctx.RET()
			fns = append(fns, fi)
		}
		f, err := ctx.Result()
		if err != nil {
			die(err)
		}
		if err := pass.Compile.Execute(f); err != nil {
			die(err)
		}
		merged := false
		if rng.Chance(25) {
			// a second, separately compiled file whose sections are appended to the exported Sections field
			ctx2 := build.NewContext()
			ctx2.Function(fmt.Sprintf("Merged%d", k))
			ctx2.Attributes(attr.NOSPLIT)
			ctx2.SignatureExpr("func(x uint64) uint64")
			ctx2.Doc("Merged is appended after compilation.")
			ctx2.MOVQ(operand.U32(2), reg.RAX)
			ctx2.RET()
			f2, err2 := ctx2.Result()
			if err2 != nil {
				die(err2)
			}
			if err := pass.Compile.Execute(f2); err != nil {
				die(err)
			}
			f.Sections = append(f.Sections, f2.Sections...)
			merged = true
		}
		stub, err := printer.NewStubs(cfg).Print(f)
		desc := fmt.Sprintf("%d functions", nf)
		if merged {
			desc += " + one function merged from a second compiled file"
		}
		for _, fi := range fns {
			desc += fmt.Sprintf("; %s%s doc=%q pragmas=%v", fi.name, strings.TrimPrefix(fi.sig, "func"), fi.doc, fi.prag)
		}
		idx := o.AddCase(Case{Key: "stub:file", Desc: desc, Input: map[string]any{"functions": desc}, Nontrivial: nf >= 2})
		if err != nil {
			o.Plan.GoViolations = append(o.Plan.GoViolations, GoViolation{Key: "stub:print-error", Desc: fmt.Sprintf("case %d: stub printer failed: %v (%s)", idx, err, desc), Replay: map[string]any{"functions": desc}})
			rows = append(rows, "")
			continue
		}
		asm, err := printer.NewGoAsm(cfg).Print(f)
		if err != nil {
			die(err)
		}
		if strings.Contains(string(stub), "SCRIBBLED") || strings.Contains(string(stub), "scribbled") {
			o.Plan.GoViolations = append(o.Plan.GoViolations, GoViolation{Key: "stub:aliases-caller-slice", Desc: fmt.Sprintf("case %d: the stub file shows what the caller wrote into its own Doc/Pragma argument slice after the call, not the documentation and directives that were given: %s", idx, desc), Replay: map[string]any{"functions": desc, "stub": string(stub)}})
		}
		// package names that are not identifiers (the name guessed from a hyphenated directory, a keyword): the
		// stub printer either refuses or returns Go source that declares the functions; it never hands back
		// something else without an error
		if k%5 == 0 {
			for _, pkgName := range []string{"my-math", "go", "2fast", "func"} {
				bs, perr := printer.NewStubs(printer.Config{Name: "avo", Pkg: pkgName}).Print(f)
				if perr != nil {
					continue
				}
				pf, err := parser.ParseFile(token.NewFileSet(), "stub.go", bs, 0)
				ndecl := 0
				if err == nil {
					for _, d := range pf.Decls {
						if _, isF := d.(*ast.FuncDecl); isF {
							ndecl++
						}
					}
				}
				if err != nil || ndecl != len(fns) {
					o.Plan.GoViolations = append(o.Plan.GoViolations, GoViolation{Key: "stub:bad-package-name-accepted", Desc: fmt.Sprintf("case %d: with the package name %q the stub printer reports no error and returns %d bytes that %s (%d of %d functions declared)", idx, pkgName, len(bs), map[bool]string{true: "parse", false: "are not Go source"}[err == nil], ndecl, len(fns)), Replay: map[string]any{"package": pkgName, "functions": desc}})
				}
			}
		}
		// printing reads the file: the same printer asked again, a fresh printer, and the other printer having
		// run in between all give the same bytes
		{
			sp := printer.NewStubs(cfg)
			s1, _ := sp.Print(f)
			s2, _ := sp.Print(f)
			a2, _ := printer.NewGoAsm(cfg).Print(f)
			s3, _ := printer.NewStubs(cfg).Print(f)
			if string(s1) != string(stub) || string(s2) != string(stub) || string(s3) != string(stub) || string(a2) != string(asm) {
				o.Plan.GoViolations = append(o.Plan.GoViolations, GoViolation{Key: "stub:print-not-repeatable", Desc: fmt.Sprintf("case %d: printing the same file again gives different text (stubs: %v %v %v, assembly: %v): %s", idx, string(s1) == string(stub), string(s2) == string(stub), string(s3) == string(stub), string(a2) == string(asm), desc), Replay: map[string]any{"functions": desc}})
			}
		}
		cons := ""
		if len(f.Constraints) > 0 {
			cons, _ = buildtags.Format(f.Constraints)
		}
		// model input
		var sfs []string
		var fnSecs []*ir.Function // read from the sections themselves, not through File.Functions()
		for _, sec := range f.Sections {
			if fn, ok := sec.(*ir.Function); ok {
				fnSecs = append(fnSecs, fn)
			}
		}
		requested := map[string][][]string{}
		requestedDoc := map[string][]string{}
		for _, fi := range fns {
			requested[fi.name] = fi.prag
			requestedDoc[fi.name] = fi.doc
		}
		for _, fn := range fnSecs {
			var ps []string
			if rq, mine := requested[fn.Name]; mine {
				// the directives as they were given to Context.Pragma, not as the function stores them
				for _, pr := range rq {
					ps = append(ps, cPair(cStr(pr[0]), cStrs(pr[1:])))
				}
			} else {
				for _, p := range fn.Pragmas {
					ps = append(ps, cPair(cStr(p.Directive), cStrs(p.Arguments)))
				}
			}
			docLines := fn.Doc
			if _, mine := requested[fn.Name]; mine {
				docLines = requestedDoc[fn.Name] // as given to Context.Doc, not as the function stores it
			}
			sfs = append(sfs, fmt.Sprintf("{| sf_name := %s; sf_doc := %s; sf_pragmas := %s; sf_sig := %s |}", cStr(fn.Name), cStrs(docLines), cList(ps), cStr(fn.Signature.String())))
		}
		model := fmt.Sprintf("{| st_warning := %s; st_constraints := %s; st_pkg := %s; st_funcs := %s |}", cStr(cfg.GeneratedWarning()), cStr(cons), cStr(cfg.Pkg), cList(sfs))
		// observation: parse the stub with go/parser
		fset := token.NewFileSet()
		pf, perr := parser.ParseFile(fset, "stub.go", stub, parser.ParseComments)
		if perr != nil {
			o.Plan.GoViolations = append(o.Plan.GoViolations, GoViolation{Key: "stub:not-valid-go", Desc: fmt.Sprintf("case %d: the stub is not valid Go: %v", idx, perr), Replay: map[string]any{"stub": string(stub)}})
			rows = append(rows, "")
			continue
		}
		var obsF []string
		tconf := types.Config{Error: func(error) {}}
		tpkg, _ := tconf.Check("stubpkg", fset, []*ast.File{pf}, nil)
		for _, d := range pf.Decls {
			fd, ok := d.(*ast.FuncDecl)
			if !ok {
				continue
			}
			var docs, prags []string
			if fd.Doc != nil {
				// the comment group must end on the line before `func`
				if fset.Position(fd.Doc.End()).Line+1 != fset.Position(fd.Pos()).Line {
					o.Plan.GoViolations = append(o.Plan.GoViolations, GoViolation{Key: "stub:doc-detached", Desc: fmt.Sprintf("case %d: the comment/directive block of %s is separated from the declaration", idx, fd.Name.Name), Replay: map[string]any{"stub": string(stub)}})
				}
				for _, cm := range fd.Doc.List {
					t := cm.Text
					if strings.HasPrefix(t, "//go:") {
						prags = append(prags, t)
					} else {
						docs = append(docs, strings.TrimPrefix(strings.TrimPrefix(t, "//"), " "))
					}
				}
			}
			// signature text in go/types' canonical form (gofmt lays struct types out over several lines)
			sigText := "?"
			if tpkg != nil {
				if obj := tpkg.Scope().Lookup(fd.Name.Name); obj != nil {
					var sb bytes.Buffer
					types.WriteSignature(&sb, obj.Type().(*types.Signature), func(p *types.Package) string { return "" })
					sigText = sb.String()
				}
			}
			obsF = append(obsF, fmt.Sprintf("(%s, %s, %s, %s)", cStr(fd.Name.Name), cStr(sigText), cStrs(docs), cStrs(prags)))
		}
		consObs := ""
		for _, cg := range pf.Comments {
			for _, cm := range cg.List {
				if strings.HasPrefix(cm.Text, "//go:build") && cg.End() < pf.Package {
					consObs += cm.Text + "\n"
				}
			}
		}
		rows = append(rows, fmt.Sprintf("(%s, (%s, %s, %s))", model, cStr(pf.Name.Name), cStr(consObs), cList(obsF)))

		// toolchain-decided parts of the property
		if again, ferr := format.Source(stub); ferr != nil || !bytes.Equal(again, stub) {
			o.Plan.GoViolations = append(o.Plan.GoViolations, GoViolation{Key: "stub:not-gofmt-stable", Desc: fmt.Sprintf("case %d: gofmt changes the stub", idx), Replay: map[string]any{"stub": string(stub)}})
		}
		conf := types.Config{Importer: nil, Error: func(error) {}}
		pkg, terr := conf.Check("stubpkg", fset, []*ast.File{pf}, nil)
		if terr != nil {
			o.Plan.GoViolations = append(o.Plan.GoViolations, GoViolation{Key: "stub:type-error", Desc: fmt.Sprintf("case %d: the stub does not type-check: %v", idx, terr), Replay: map[string]any{"stub": string(stub)}})
		} else {
			for _, fi := range fns {
				obj := pkg.Scope().Lookup(fi.name)
				want, _ := gotypes.ParseSignature(fi.sig)
				if obj == nil || want == nil {
					o.Plan.GoViolations = append(o.Plan.GoViolations, GoViolation{Key: "stub:function-missing", Desc: fmt.Sprintf("case %d: %s is not declared in the stub", idx, fi.name)})
					continue
				}
				wt, _ := types.Eval(fset, pkg, token.NoPos, fi.sig)
				if !types.Identical(obj.Type(), wt.Type) {
					o.Plan.GoViolations = append(o.Plan.GoViolations, GoViolation{Key: "stub:signature-differs", Desc: fmt.Sprintf("case %d: %s is declared as %s, want %s", idx, fi.name, obj.Type(), fi.sig), Replay: map[string]any{"stub": string(stub)}})
				}
			}
		}
		// compile + link + vet together with the assembly (a few per run)
		noResults := true
		for _, fn := range f.Functions() {
			if fn.Signature.Results().Bytes() > 0 {
				noResults = false // asmdecl would (rightly) complain that our dummy bodies do not write the results
			}
		}
		if noResults && !hasLinkname && (nBuilt < 6 || c.Thorough() && nBuilt < 60) {
			nBuilt++
			pd := filepath.Join(dir, fmt.Sprintf("p%d", k))
			os.MkdirAll(pd, 0o755)
			os.WriteFile(filepath.Join(pd, "stub.go"), stub, 0o644)
			os.WriteFile(filepath.Join(pd, "stub_amd64.s"), asm, 0o644)
			os.WriteFile(filepath.Join(pd, "go.mod"), []byte("module stubpkg\n\ngo 1.23\n"), 0o644)
			tags := "purego_off"
			for _, step := range [][]string{{"go", "build", "-tags", tags, "./..."}, {"go", "vet", "-tags", tags, "./..."}} {
				cmd := exec.Command(step[0], step[1:]...)
				cmd.Dir = pd
				cmd.Env = append(os.Environ(), "GOFLAGS=-mod=mod")
				if out, err := cmd.CombinedOutput(); err != nil {
					o.Plan.GoViolations = append(o.Plan.GoViolations, GoViolation{Key: "stub:toolchain:" + step[1], Desc: fmt.Sprintf("case %d: `go %s` fails on the stub + assembly pair: %s", idx, step[1], firstLine(strings.TrimSpace(string(out)))), Replay: map[string]any{"stub": string(stub), "asm": string(asm)}})
					break
				}
			}
			os.RemoveAll(pd)
		}
	}
	// probe: a signature that mentions a type of another package (only reachable through Package + Implement)
	{
		md := filepath.Join(dir, "stubext")
		os.MkdirAll(md, 0o755)
		os.WriteFile(filepath.Join(md, "go.mod"), []byte("module stubext\n\ngo 1.23\n"), 0o644)
		os.WriteFile(filepath.Join(md, "ext.go"), []byte("package stubext\n\nimport \"unsafe\"\n\nfunc F(p unsafe.Pointer, n int)\n"), 0o644)
		cwd, _ := os.Getwd()
		if os.Chdir(md) == nil {
			ctx := build.NewContext()
			ctx.Package("stubext")
			ctx.Implement("F")
			ctx.RET()
			f, err := ctx.Result()
			os.Chdir(cwd)
			if err == nil && pass.Compile.Execute(f) == nil {
				idx := o.AddCase(Case{Key: "stub:probe", Desc: "Package(stubext); Implement(F) with F(p unsafe.Pointer, n int)", Input: map[string]any{"probe": "qualified type"}, Nontrivial: true})
				stub, perr := printer.NewStubs(printer.Config{Name: "avo", Pkg: "stubext"}).Print(f)
				if perr != nil {
					o.Plan.GoViolations = append(o.Plan.GoViolations, GoViolation{Key: "stub:qualified-type-without-import", Desc: fmt.Sprintf("case %d: stub printer fails for a signature mentioning unsafe.Pointer: %v", idx, perr)})
				} else {
					fset := token.NewFileSet()
					pf, e1 := parser.ParseFile(fset, "stub.go", stub, 0)
					var terr error
					if e1 == nil {
						conf := types.Config{Importer: importerDefault(), Error: func(e error) {
							if terr == nil {
								terr = e
							}
						}}
						conf.Check("stubext", fset, []*ast.File{pf}, nil)
					} else {
						terr = e1
					}
					if terr != nil {
						o.Plan.GoViolations = append(o.Plan.GoViolations, GoViolation{Key: "stub:qualified-type-without-import", Desc: fmt.Sprintf("case %d: the stub for F(p unsafe.Pointer, n int) does not compile: %v", idx, terr), Replay: map[string]any{"stub": string(stub)}})
					}
				}
			} else {
				os.Chdir(cwd)
				o.Plan.Stats["probe_qualified_type"] = fmt.Sprint("not run: ", err)
			}
		}
	}
	// probe: a function carrying a linkname directive (the compiler accepts it only in files that import "unsafe")
	{
		ctx := build.NewContext()
		ctx.Function("Linked")
		ctx.Attributes(attr.NOSPLIT)
		ctx.SignatureExpr("func()")
		ctx.Pragma("linkname", "Linked", "stublink.other")
		ctx.RET()
		f, err := ctx.Result()
		if err == nil && pass.Compile.Execute(f) == nil {
			cfgL := printer.Config{Name: "avo", Pkg: "stublink"}
			idx := o.AddCase(Case{Key: "stub:probe", Desc: "Function(Linked); Pragma(linkname, Linked, stublink.other)", Input: map[string]any{"probe": "linkname directive"}, Nontrivial: true})
			stub, e1 := printer.NewStubs(cfgL).Print(f)
			asm, e2 := printer.NewGoAsm(cfgL).Print(f)
			if e1 == nil && e2 == nil {
				pd := filepath.Join(dir, "stublink")
				os.MkdirAll(pd, 0o755)
				os.WriteFile(filepath.Join(pd, "stub.go"), stub, 0o644)
				os.WriteFile(filepath.Join(pd, "stub_amd64.s"), asm, 0o644)
				os.WriteFile(filepath.Join(pd, "go.mod"), []byte("module stublink\n\ngo 1.23\n"), 0o644)
				cmd := exec.Command("go", "build", "./...")
				cmd.Dir = pd
				cmd.Env = append(os.Environ(), "GOFLAGS=-mod=mod")
				if out, err := cmd.CombinedOutput(); err != nil {
					o.Plan.GoViolations = append(o.Plan.GoViolations, GoViolation{Key: "stub:linkname-without-import", Desc: fmt.Sprintf("case %d: the stub carrying //go:linkname does not compile: %s", idx, lastLine(strings.TrimSpace(string(out)))), Replay: map[string]any{"stub": string(stub)}})
				}
				os.RemoveAll(pd)
			}
		}
	}
	// the generator as a user runs it: package-level API, Generate(), command-line flags -out/-stubs/-pkg.
	// The files written must be the ones the printers produce in-process for the same function and
	// configuration, and the pair must build and vet as a package.
	cliProbe(c, dir)
	vetLayoutProbe(c, dir)
	var good []string
	for _, r := range rows {
		if r != "" {
			good = append(good, r)
		}
	}
	var b strings.Builder
	b.WriteString(coqHeader + "From Avo Require Import Model.Stub.\n")
	fmt.Fprintf(&b, "Definition cases : list (sfile * stub_obs) := %s.\n", cListNL(good))
	b.WriteString("Definition R_mismatch := Eval vm_compute in idx_where (fun c => negb (stub_agree c)) cases.\nPrint R_mismatch.\n")
	b.WriteString("Definition R_violation := Eval vm_compute in idx_where (fun c => negb (stub_impl_ok c)) cases.\nPrint R_violation.\n")
	o.WriteFile("Cases.v", b.String())
	o.ExpectEmpty("Cases.v", "R_violation", "violation", "the stub does not declare the given functions once, in order, with their documentation and directives, in the requested package under the given constraints")
	o.Stage("Cases.v")
	o.ExpectEmpty("Cases.v", "R_mismatch", "mismatch", "structured stub model vs the functions, signatures, doc lines, directives, package and constraint line read back from printer.NewStubs output with go/parser")
	o.Plan.Rule = "random files of 1..4 functions over signatures with structs, arrays, slices, funcs, maps, channels, interfaces, variadics, blank and unnamed parameters/results; doc lines incl. '%', trailing blanks and embedded line breaks; 0..2 directives; with/without constraints; the stub is parsed back (go/parser), type-checked and compared with types.Identical, re-formatted (gofmt stability), and for the first cases built and vetted together with the generated assembly; non-trivial = at least two functions; distinct by description"
	o.Plan.Stats["files"] = n
	o.Plan.EnvValidation["built_and_vetted_with_assembly"] = nBuilt
}

func importerDefault() types.Importer { return importer.Default() }

func lastLine(s string) string {
	ls := strings.Split(s, "\n")
	return ls[len(ls)-1]
}

const cliGenSrc = `//go:build ignore

package main

import (
	. "github.com/mmcloughlin/avo/build"
	. "github.com/mmcloughlin/avo/operand"
)

func main() {
	ConstraintExpr("amd64,!purego")
	TEXT("Add", NOSPLIT, "func(x, y uint64) uint64")
	Doc("Add adds x and y.")
	Pragma("noescape")
	x := Load(Param("x"), GP64())
	y := Load(Param("y"), GP64())
	ADDQ(x, y)
	ADDQ(Imm(3), y)
	Store(y, ReturnIndex(0))
	RET()
	Generate()
}
`

func cliProbe(c *Ctx, dir string) {
	o := c.Out
	gd := filepath.Join(dir, "genpkg")
	os.MkdirAll(gd, 0o755)
	defer os.RemoveAll(gd)
	os.WriteFile(filepath.Join(gd, "gen.go"), []byte(cliGenSrc), 0o644)
	os.WriteFile(filepath.Join(gd, "go.mod"), []byte("module genpkg\n\ngo 1.23\n\nrequire github.com/mmcloughlin/avo v0.0.0\n\nreplace github.com/mmcloughlin/avo => "+c.Repo+"\n"), 0o644)
	if sum, err := os.ReadFile(filepath.Join(c.Repo, "go.sum")); err == nil {
		os.WriteFile(filepath.Join(gd, "go.sum"), sum, 0o644)
	}
	expect := func(cfg printer.Config) (asm, stub []byte) {
		ctx := build.NewContext()
		ctx.ConstraintExpr("amd64,!purego")
		ctx.Function("Add")
		ctx.Attributes(attr.NOSPLIT)
		ctx.SignatureExpr("func(x, y uint64) uint64")
		ctx.Doc("Add adds x and y.")
		ctx.Pragma("noescape")
		x := ctx.Load(ctx.Param("x"), ctx.GP64())
		y := ctx.Load(ctx.Param("y"), ctx.GP64())
		ctx.ADDQ(x, y)
		ctx.ADDQ(operand.U8(3), y)
		ctx.Store(y, ctx.ReturnIndex(0))
		ctx.RET()
		f, err := ctx.Result()
		if err != nil {
			die(err)
		}
		if err := pass.Compile.Execute(f); err != nil {
			die(err)
		}
		asm, _ = printer.NewGoAsm(cfg).Print(f)
		stub, _ = printer.NewStubs(cfg).Print(f)
		return
	}
	for _, run := range []struct {
		flags []string
		pkg   string
	}{
		{[]string{"-out", "add_amd64.s", "-stubs", "add_stub.go"}, "genpkg"},
		{[]string{"-out", "other.s", "-stubs", "other.go", "-pkg", "foo"}, "foo"},
	} {
		desc := "go run gen.go " + strings.Join(run.flags, " ")
		idx := o.AddCase(Case{Key: "stub:cli", Desc: desc, Input: map[string]any{"command": desc}, Nontrivial: true})
		cmd := exec.Command("go", append([]string{"run", "gen.go"}, run.flags...)...)
		cmd.Dir = gd
		cmd.Env = append(os.Environ(), "GOFLAGS=-mod=mod")
		if out, err := cmd.CombinedOutput(); err != nil {
			o.Plan.GoViolations = append(o.Plan.GoViolations, GoViolation{Key: "cli:generate-fails", Desc: fmt.Sprintf("case %d: %s fails: %s", idx, desc, lastLine(strings.TrimSpace(string(out)))), Replay: map[string]any{"command": desc, "source": cliGenSrc}})
			continue
		}
		wantAsm, wantStub := expect(printer.Config{Argv: append([]string{"go", "run", "gen.go"}, run.flags...), Pkg: run.pkg})
		gotAsm, e1 := os.ReadFile(filepath.Join(gd, run.flags[1]))
		gotStub, e2 := os.ReadFile(filepath.Join(gd, run.flags[3]))
		if e1 != nil || e2 != nil || !bytes.Equal(gotAsm, wantAsm) || !bytes.Equal(gotStub, wantStub) {
			o.Plan.GoViolations = append(o.Plan.GoViolations, GoViolation{Key: "cli:generate-differs", Desc: fmt.Sprintf("case %d: the files written by `%s` are not the assembly and stubs of the function for package %s", idx, desc, run.pkg), Replay: map[string]any{"command": desc, "asm": string(gotAsm), "want_asm": string(wantAsm), "stub": string(gotStub), "want_stub": string(wantStub)}})
		}
	}
	// the first pair as a package
	os.Remove(filepath.Join(gd, "other.s"))
	os.Remove(filepath.Join(gd, "other.go"))
	for _, step := range [][]string{{"go", "build", "./..."}, {"go", "vet", "./..."}} {
		cmd := exec.Command(step[0], step[1:]...)
		cmd.Dir = gd
		cmd.Env = append(os.Environ(), "GOFLAGS=-mod=mod")
		if out, err := cmd.CombinedOutput(); err != nil {
			o.Plan.GoViolations = append(o.Plan.GoViolations, GoViolation{Key: "cli:toolchain:" + step[1], Desc: fmt.Sprintf("`go %s` fails on the files the generator wrote: %s", step[1], lastLine(strings.TrimSpace(string(out)))), Replay: map[string]any{"source": cliGenSrc}})
			break
		}
	}
}

// vetLayoutProbe: functions whose results are written (so that the assembler-declaration vet check also
// checks result offsets and the argument size), over signatures with parameters and results of mixed
// sizes.  The stub and the assembly avo prints for them must build and vet together.
func vetLayoutProbe(c *Ctx, dir string) {
	o := c.Out
	sigs := []string{
		"func(c byte) (ok bool, n int)",
		"func(a uint16, b uint8) (x uint8, y uint32, z uint64)",
		"func(p *int, f float32) (r float64, e uint8, q int16)",
		"func(x uint8) (a uint8, b uint16, c uint8, d uint64)",
		"func(a, b uint32, c uint8) (lo uint32, hi uint8, ok bool, sum uint64)",
		"func(s string, t uint8) (n int, first byte, w uint16)",
		"func() (a uint8, b uint64)",
		"func(x uint64, done struct{}) (y uint64)",
		"func(x uint64, done struct{})",
		"func(x uint64) (y uint64, ok struct{})",
		"func(a uint8) (z [0]uint64, b uint8)",
	}
	pd := filepath.Join(dir, "vetlayout")
	os.MkdirAll(pd, 0o755)
	defer os.RemoveAll(pd)
	ctx := build.NewContext()
	for k, sg := range sigs {
		ctx.Function(fmt.Sprintf("L%d", k))
		ctx.Attributes(attr.NOSPLIT)
		ctx.SignatureExpr(sg)
		for ri := 0; ri < 8; ri++ {
			comp := ctx.ReturnIndex(ri)
			b, err := comp.Resolve()
			if err != nil {
				break // past the last result
			}
			switch {
			case b.Type.Kind() == types.Float64:
				x := ctx.XMM()
				ctx.XORPS(x, x)
				ctx.Store(x, comp)
			case b.Type.Kind() == types.Float32:
				x := ctx.XMM()
				ctx.XORPS(x, x)
				ctx.Store(x, comp)
			default:
				var r reg.Register
				switch sizeofBasic(b.Type) {
				case 1:
					r = ctx.GP8()
					ctx.MOVB(operand.U8(0), r)
				case 2:
					r = ctx.GP16()
					ctx.MOVW(operand.U16(0), r)
				case 4:
					r = ctx.GP32()
					ctx.MOVL(operand.U32(0), r)
				default:
					r = ctx.GP64()
					ctx.MOVQ(operand.U32(0), r)
				}
				ctx.Store(r, comp)
			}
		}
		ctx.RET()
	}
	f, err := ctx.Result()
	idx := o.AddCase(Case{Key: "stub:vet-layout", Desc: "functions writing every result: " + strings.Join(sigs, "; "), Input: map[string]any{"signatures": sigs}, Nontrivial: true})
	if err != nil {
		o.Plan.GoViolations = append(o.Plan.GoViolations, GoViolation{Key: "stub:vet-layout-build", Desc: fmt.Sprintf("case %d: building the functions fails: %v", idx, err)})
		return
	}
	if err := pass.Compile.Execute(f); err != nil {
		o.Plan.GoViolations = append(o.Plan.GoViolations, GoViolation{Key: "stub:vet-layout-build", Desc: fmt.Sprintf("case %d: compiling the functions fails: %v", idx, err)})
		return
	}
	cfg := printer.Config{Name: "avo", Pkg: "vetlayout"}
	stub, _ := printer.NewStubs(cfg).Print(f)
	asm, _ := printer.NewGoAsm(cfg).Print(f)
	os.WriteFile(filepath.Join(pd, "stub.go"), stub, 0o644)
	os.WriteFile(filepath.Join(pd, "stub_amd64.s"), asm, 0o644)
	os.WriteFile(filepath.Join(pd, "go.mod"), []byte("module vetlayout\n\ngo 1.23\n"), 0o644)
	for _, step := range [][]string{{"go", "build", "./..."}, {"go", "vet", "./..."}} {
		cmd := exec.Command(step[0], step[1:]...)
		cmd.Dir = pd
		cmd.Env = append(os.Environ(), "GOFLAGS=-mod=mod")
		if out, err := cmd.CombinedOutput(); err != nil {
			lines := strings.Split(strings.TrimSpace(string(out)), "\n")
			msg := lines[len(lines)-1]
			for _, ln := range lines {
				if strings.Contains(ln, ".s:") {
					msg = ln
					break
				}
			}
			o.Plan.GoViolations = append(o.Plan.GoViolations, GoViolation{Key: "stub:vet-layout:" + step[1], Desc: fmt.Sprintf("case %d: `go %s` refuses the stub + assembly pair of functions that write their results: %s", idx, step[1], msg), Replay: map[string]any{"stub": string(stub), "asm": string(asm)}})
			break
		}
	}
}

func sizeofBasic(b *types.Basic) int {
	switch b.Kind() {
	case types.Bool, types.Int8, types.Uint8:
		return 1
	case types.Int16, types.Uint16:
		return 2
	case types.Int32, types.Uint32:
		return 4
	}
	return 8
}
