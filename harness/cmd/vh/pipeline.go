package main

import (
	"bytes"
	"fmt"
	"sort"
	"strconv"
	"strings"

	"github.com/mmcloughlin/avo/attr"
	"github.com/mmcloughlin/avo/build"
	"github.com/mmcloughlin/avo/ir"
	"github.com/mmcloughlin/avo/operand"
	"github.com/mmcloughlin/avo/pass"
	"github.com/mmcloughlin/avo/printer"
	"github.com/mmcloughlin/avo/reg"
	"github.com/mmcloughlin/avo/x86"
)

type pipeCheck struct {
	Name, Expr, What, Desc string
}

var chkDiff = pipeCheck{"R_mismatch", "diff_indices pinned_knobs regs cases", "mismatch", "staged model of pass.Compile vs the real passes (stage/error, pruned nodes, label targets, successors, predecessors, zero-extension, LiveIn/LiveOut, allocation, bound operands, frame size, final nodes, ISA)"}
var chkLive = pipeCheck{"R_live_violation", "where_not (fun c => live_ok (snd c)) cases", "violation", "liveness differs from path liveness (a register byte class is reported live iff some path reaches a read before a write)"}
var chkAlloc = pipeCheck{"R_alloc_violation", "where_not (fun c => alloc_ok regs (snd c)) cases", "violation", "allocation invalid: virtual register unmapped / wrong class / restricted register / two values that are live together share bytes of one physical register"}
var chkSim = pipeCheck{"R_sim_violation", "where_not (fun c => sim_ok (snd c)) cases", "violation", "the proved validator rejects the allocation: under the model's (exact) liveness a definition shares storage with another live value"}
var chkDisc = pipeCheck{"R_discipline_mismatch", "where_not (fun c => discipline_ok (snd c)) cases", "mismatch", "hypothesis of model_regalloc_preserves_semantics not met by an instruction the real constructors built: a virtual register it reads or writes is not among its operands"}
var chkBind = pipeCheck{"R_bind_violation", "where_not (fun c => bind_ok regs (snd c)) cases", "violation", "bound code is not the substitution instance: virtual register remains, width view changed, or an author-named register was altered"}
var chkCFG = pipeCheck{"R_cfg_violation", "where_not cfg_obs_ok cases", "violation", "the successors/predecessors the pipeline computed are not the control-flow graph of the function (C09 rules on the nodes after the label clean-ups)"}
var chkZext = pipeCheck{"R_zext_violation", "where_not (fun c => zext_ok regs (snd c)) cases", "violation", "after the 32-bit widening pass an instruction is not the widening of the instruction before it: a 32-bit general-purpose destination was left 32 bits wide (no 64-bit view and no refusal), or another register was put in its place"}
var chkBP = pipeCheck{"R_bp_violation", "where_not (fun c => bp_ok regs (fattrs (fst c)) (snd c)) cases", "violation", "function writes the base pointer but gets no frame (or NOFRAME is not refused)"}

// emitPipelineCases runs every program through the staged real passes and writes sharded case files.
func emitPipelineCases(c *Ctx, progs []*Prog, checks []pipeCheck, shard int, nontrivial func(*Prog, *Observed) bool) {
	o := c.Out
	o.WriteFile("Tab.v", commonTab(c)+
		"From Avo Require Import Proofs.AllocCorrect.\n(* hypothesis of model_regalloc_preserves_semantics for the translated register file *)\nLemma regfile_ok_tab : regfile_ok regs = true.\nProof. vm_compute. reflexivity. Qed.\nPrint Assumptions regfile_ok_tab.\nLemma regfile_kinds_ok_tab : regfile_kinds_ok regs = true.\nProof. vm_compute. reflexivity. Qed.\nPrint Assumptions regfile_kinds_ok_tab.\nFrom Avo Require Import Proofs.BindProofs.\nLemma regfile_bind_ok_tab : regfile_bind_ok regs = true.\nProof. vm_compute. reflexivity. Qed.\nPrint Assumptions regfile_bind_ok_tab.\n")
	o.WriteFile("Order.v", orderFile(c))
	// the register table itself against the hardware register file (same specification as C20): the passes
	// and their model both read the table, so an error in it would not show as a disagreement
	o.WriteFile("RegTab.v", "From Avo Require Import Base.Prelude Model.RegFile Model.RegSpec.\nFrom AvoGen Require Import Tab.\n"+
		"Definition R_regtable_violation := Eval vm_compute in List.map (N.add 5000000) (regfile_bad regs).\nPrint R_regtable_violation.\n"+
		"Lemma regs_spec_ok : RegSpec.regfile_ok regs = true.\nProof. vm_compute. reflexivity. Qed.\nPrint Assumptions regs_spec_ok.\n")
	o.ExpectEmpty("RegTab.v", "R_regtable_violation", "violation", "an entry of the register table (reg/x86.go) does not describe the hardware register its name denotes: ID, width, byte mask, or the Restricted/BasePointer flags (index into the table)")
	o.Stage("Tab.v")
	o.Stage("Order.v", "RegTab.v")
	o.Oblig("Order.pass_order_ok", "RegTab.regs_spec_ok", "Tab.info_constants_ok", "Tab.regfile_ok_tab", "Tab.regfile_kinds_ok_tab", "Tab.regfile_bind_ok_tab")
	stages := map[string]int{}
	tagCount := map[string]int{}
	sizes := map[string]int{}
	var files []string
	caseBase := len(o.Plan.Cases) // cases other parts of the check registered before
	for s := 0; s*shard < len(progs); s++ {
		base := caseBase + s*shard
		var rows, e2e []string
		for j := s * shard; j < s*shard+shard && j < len(progs); j++ {
			p := progs[j]
			ob := runStaged(p)
			rows = append(rows, "("+p.Coq()+",\n   "+ob.Coq()+")")
			ec, ea, en, el := runCompile(p)
			e2e = append(e2e, fmt.Sprintf("(%d, %s, %s, %d)", ec, cPairs(ea), cNodes(en), el))
			st := ob.Stage
			if st == "" {
				st = "ok"
			} else {
				st = fmt.Sprintf("%s:%d", st, ob.ErrCode)
			}
			stages[st]++
			for t := range p.Tags {
				tagCount[t]++
			}
			sizes[fmt.Sprintf("nodes<=%d", ((len(p.Nodes)/10)+1)*10)]++
			desc := p.Desc
			if desc != "" {
				desc += ": "
			}
			key := "prog:" + st + ":" + strings.Join(tagList(p.Tags), ",")
			if p.Desc != "" {
				key = "prog:" + p.Desc
			}
			o.AddCase(Case{Key: key, Desc: desc + p.Text() + " => " + st, Input: map[string]any{"prog": p.Text()}, Nontrivial: nontrivial(p, ob)})
		}
		name := fmt.Sprintf("Cases%02d.v", s)
		var b strings.Builder
		b.WriteString(progHeader + "From Avo Require Import Model.Check.\n")
		fmt.Fprintf(&b, "Definition cases : list pcase := %s.\n", cListNL(rows))
		for _, ck := range checks {
			fmt.Fprintf(&b, "Definition %s := Eval vm_compute in List.map (N.add %d) (%s).\nPrint %s.\n", ck.Name, base, ck.Expr, ck.Name)
			o.ExpectEmpty(name, ck.Name, ck.What, ck.Desc)
		}
		fmt.Fprintf(&b, "Definition e2e : list e2e_t := %s.\n", cListNL(e2e))
		fmt.Fprintf(&b, "Definition R_e2e_violation := Eval vm_compute in List.map (N.add %d) (where_not2 e2e_alloc_ok cases e2e).\nPrint R_e2e_violation.\n", base)
		o.ExpectEmpty(name, "R_e2e_violation", "violation", "the allocation produced by the real pass.Compile, run end to end, is invalid for the program: a definition shares storage with another value that is live after it")
		fmt.Fprintf(&b, "Definition R_e2e_bp_violation := Eval vm_compute in List.map (N.add %d) (where_not2 (e2e_bp_ok regs) cases e2e).\nPrint R_e2e_bp_violation.\n", base)
		o.ExpectEmpty(name, "R_e2e_bp_violation", "violation", "the function compiled by the real pass.Compile writes the base pointer but has no frame, or is NOFRAME and was not refused")
		fmt.Fprintf(&b, "Definition R_e2e_phys_violation := Eval vm_compute in List.map (N.add %d) (where_not2 e2e_phys_ok cases e2e).\nPrint R_e2e_phys_violation.\n", base)
		o.ExpectEmpty(name, "R_e2e_phys_violation", "violation", "the function compiled by the real pass.Compile still contains a virtual register (in the operands or in the read/write sets of an instruction)")
		fmt.Fprintf(&b, "Definition R_e2e_cleanup_violation := Eval vm_compute in List.map (N.add %d) (where_not2 e2e_cleanup_ok cases e2e).\nPrint R_e2e_cleanup_violation.\n", base)
		o.ExpectEmpty(name, "R_e2e_cleanup_violation", "violation", "the real pass.Compile, run end to end, deleted from the bound code something other than a move without architectural effect (or changed it)")
		fmt.Fprintf(&b, "Definition R_e2e_mismatch := Eval vm_compute in List.map (N.add %d) (where_not2 e2e_same cases e2e).\nPrint R_e2e_mismatch.\n", base)
		o.ExpectEmpty(name, "R_e2e_mismatch", "mismatch", "pass.Compile run end to end (pass order of pass/pass.go) vs the passes run one by one in the modelled order: error code, allocation or final nodes differ")
		if hasCheck(checks, "R_mismatch") {
			fmt.Fprintf(&b, "Definition D_codes := Eval vm_compute in diffs pinned_knobs regs cases.\nPrint D_codes.\n")
		}
		o.WriteFile(name, b.String())
		files = append(files, name)
	}
	o.Stage(files...)
	o.Plan.Stats["programs"] = len(progs)
	o.Plan.Stats["outcome_stage"] = stages
	o.Plan.Stats["features"] = tagCount
	o.Plan.Stats["sizes"] = sizes
	if len(progs) > 0 {
		o.Plan.Samples = []any{progs[0].Text(), progs[len(progs)/2].Text(), progs[len(progs)-1].Text()}
	}
}

func hasCheck(cs []pipeCheck, n string) bool {
	for _, c := range cs {
		if c.Name == n {
			return true
		}
	}
	return false
}

// ---- hand-written corpus programs (design-time witnesses and property-named shapes)

func pipelineCorpus() []*Prog {
	var ps []*Prog
	mk := func(desc string, build func(coll *reg.Collection, add func(*ir.Instruction, error), lbl func(string))) {
		p := &Prog{Desc: desc, Tags: map[string]bool{"corpus": true}, Attrs: attr.NOSPLIT}
		coll := reg.NewCollection()
		build(coll, func(i *ir.Instruction, err error) {
			if err == nil {
				p.Nodes = append(p.Nodes, i)
			}
		}, func(l string) { p.Nodes = append(p.Nodes, ir.Label(l)) })
		ps = append(ps, p)
	}
	mk("masked self-compare keeps its mask operand: VPCMPEQB x,x,k1,k2", func(c *reg.Collection, add func(*ir.Instruction, error), lbl func(string)) {
		x, k1, k2, k3 := c.XMM(), c.K(), c.K(), c.K()
		g := c.GP64()
		add(x86.MOVQ(operand.U32(1), g))
		add(x86.KMOVQ(g, k1))
		add(x86.KMOVQ(g, k3))
		add(x86.PXOR(x, x))
		add(x86.VPCMPEQB(x, x, k1, k2))
		add(x86.KMOVQ(k2, g))
		add(x86.KMOVQ(k3, g))
		add(x86.RET())
	})
	mk("merge-masked self-xor keeps mask and destination: VPXORQ z,z,k,z2", func(c *reg.Collection, add func(*ir.Instruction, error), lbl func(string)) {
		z, z2, k := c.ZMM(), c.ZMM(), c.K()
		g := c.GP64()
		add(x86.MOVQ(operand.U32(1), g))
		add(x86.KMOVQ(g, k))
		add(x86.VPXORQ(z2, z2, z2))
		add(x86.VPXORQ(z, z, k, z2))
		add(x86.VMOVDQU64(z2, operand.Mem{Base: g}))
		add(x86.RET())
	})
	mk("self-xor of one register is not a read", func(c *reg.Collection, add func(*ir.Instruction, error), lbl func(string)) {
		a, b := c.GP64(), c.GP64()
		add(x86.XORQ(a, a))
		add(x86.MOVQ(a, b))
		add(x86.RET())
	})
	mk("loop with sub-register writes and indexed memory", func(c *reg.Collection, add func(*ir.Instruction, error), lbl func(string)) {
		p, i, acc, t := c.GP64(), c.GP64(), c.GP64(), c.GP64()
		add(x86.XORQ(acc, acc))
		add(x86.XORQ(i, i))
		lbl("loop")
		add(x86.MOVQ(operand.Mem{Base: p, Index: i, Scale: 8}, t))
		add(x86.MOVB(t.As8L(), acc.As8H()))
		add(x86.ADDQ(t, acc))
		add(x86.INCQ(i))
		add(x86.CMPQ(i, operand.U8(8)))
		add(x86.JNE(operand.LabelRef("loop")))
		add(x86.MOVQ(acc, operand.Mem{Base: p}))
		add(x86.RET())
	})
	mk("rotated loop entered at its condition: a value defined before the loop is first read in the body", func(c *reg.Collection, add func(*ir.Instruction, error), lbl func(string)) {
		acc, step, limit, p := c.GP64(), c.GP64(), c.GP64(), c.GP64()
		add(x86.XORQ(acc, acc))
		add(x86.MOVQ(operand.U32(3), step))
		add(x86.MOVQ(operand.Mem{Base: p}, limit))
		add(x86.JMP(operand.LabelRef("cond")))
		lbl("body")
		add(x86.ADDQ(step, acc))
		lbl("cond")
		add(x86.CMPQ(acc, limit))
		add(x86.JLT(operand.LabelRef("body")))
		add(x86.MOVQ(acc, operand.Mem{Base: p}))
		add(x86.RET())
	})
	mk("jump into the middle of a loop, liveness arrives over two back edges", func(c *reg.Collection, add func(*ir.Instruction, error), lbl func(string)) {
		a, b, d, p := c.GP64(), c.GP64(), c.GP64(), c.GP64()
		add(x86.MOVQ(operand.U32(1), a))
		add(x86.MOVQ(operand.U32(2), b))
		add(x86.MOVQ(operand.U32(5), d))
		add(x86.JMP(operand.LabelRef("mid")))
		lbl("outer")
		add(x86.ADDQ(b, a))
		lbl("inner")
		add(x86.DECQ(d))
		lbl("mid")
		add(x86.TESTQ(d, d))
		add(x86.JNE(operand.LabelRef("inner")))
		add(x86.CMPQ(a, operand.U8(100)))
		add(x86.JLT(operand.LabelRef("outer")))
		add(x86.MOVQ(a, operand.Mem{Base: p}))
		add(x86.RET())
	})
	mk("low byte live across high-byte write", func(c *reg.Collection, add func(*ir.Instruction, error), lbl func(string)) {
		x, y := c.GP64(), c.GP64()
		add(x86.MOVB(operand.U8(1), x.As8L()))
		add(x86.MOVB(operand.U8(2), x.As8H()))
		add(x86.MOVB(x.As8L(), y.As8L()))
		add(x86.MOVB(x.As8H(), y.As8H()))
		add(x86.RET())
	})
	mk("pressure: 16 live GP64 values (one more than colours)", func(c *reg.Collection, add func(*ir.Instruction, error), lbl func(string)) {
		var vs []reg.GPVirtual
		for j := 0; j < 16; j++ {
			v := c.GP64()
			vs = append(vs, v)
			add(x86.MOVQ(operand.U32(uint32(j)), v))
		}
		for j := 1; j < 16; j++ {
			add(x86.ADDQ(vs[j], vs[0]))
		}
		add(x86.RET())
	})
	mk("pressure: 15 live GP64 values forces the base pointer", func(c *reg.Collection, add func(*ir.Instruction, error), lbl func(string)) {
		var vs []reg.GPVirtual
		for j := 0; j < 15; j++ {
			v := c.GP64()
			vs = append(vs, v)
			add(x86.MOVQ(operand.U32(uint32(j)), v))
		}
		for j := 1; j < 15; j++ {
			add(x86.ADDQ(vs[j], vs[0]))
		}
		add(x86.RET())
	})
	mk("five live high-byte values (only four exist)", func(c *reg.Collection, add func(*ir.Instruction, error), lbl func(string)) {
		var vs []reg.GPVirtual
		for j := 0; j < 5; j++ {
			v := c.GP8H()
			vs = append(vs, v)
			add(x86.MOVB(operand.U8(uint8(j)), v))
		}
		for j := 1; j < 5; j++ {
			add(x86.ADDB(vs[j], vs[0]))
		}
		add(x86.RET())
	})
	mk("8 live opmask values (7 allocatable)", func(c *reg.Collection, add func(*ir.Instruction, error), lbl func(string)) {
		g := c.GP64()
		add(x86.MOVQ(operand.U32(1), g))
		var ks []reg.OpmaskVirtual
		for j := 0; j < 8; j++ {
			k := c.K()
			ks = append(ks, k)
			add(x86.KMOVQ(g, k))
		}
		for j := 1; j < 8; j++ {
			add(x86.KORQ(ks[j], ks[0], ks[0]))
		}
		add(x86.RET())
	})
	mk("implicit outputs of MULQ with live virtuals", func(c *reg.Collection, add func(*ir.Instruction, error), lbl func(string)) {
		a, b, d := c.GP64(), c.GP64(), c.GP64()
		add(x86.MOVQ(operand.U32(3), a))
		add(x86.MOVQ(operand.U32(4), b))
		add(x86.MOVQ(operand.U32(5), d))
		add(x86.MOVQ(a, reg.RAX))
		add(x86.MULQ(b))
		add(x86.ADDQ(reg.RAX, d))
		add(x86.ADDQ(reg.RDX, d))
		add(x86.ADDQ(a, d))
		add(x86.RET())
	})
	mk("values dying at an instruction with two implicit outputs (MULQ), others live across it", func(c *reg.Collection, add func(*ir.Instruction, error), lbl func(string)) {
		a, b, t1, t2, t3 := c.GP64(), c.GP64(), c.GP64(), c.GP64(), c.GP64()
		add(x86.MOVQ(operand.U32(3), a))
		add(x86.MOVQ(operand.U32(4), b))
		add(x86.MOVQ(a, t1))
		add(x86.MOVQ(b, t2))
		add(x86.MOVQ(a, reg.RAX))
		add(x86.MULQ(b))
		add(x86.MOVQ(reg.RAX, t3))
		add(x86.ADDQ(reg.RDX, t3))
		add(x86.ADDQ(t1, t3))
		add(x86.ADDQ(t2, t3))
		add(x86.RET())
	})
	mk("two explicit outputs of which only one is used afterwards (MULXQ: low half kept, high half dead; then the reverse)", func(c *reg.Collection, add func(*ir.Instruction, error), lbl func(string)) {
		x, y, lo, hi, lo2, hi2 := c.GP64(), c.GP64(), c.GP64(), c.GP64(), c.GP64(), c.GP64()
		add(x86.MOVQ(operand.U32(3), x))
		add(x86.MOVQ(operand.U32(5), y))
		add(x86.MOVQ(x, reg.RDX))
		add(x86.MULXQ(y, lo, hi))
		add(x86.MOVQ(lo, operand.Mem{Base: reg.RSP, Disp: 8}))
		add(x86.MULXQ(y, lo2, hi2))
		add(x86.MOVQ(hi2, operand.Mem{Base: reg.RSP, Disp: 16}))
		add(x86.RET())
	})
	mk("a 32-bit write to a register drawn as a plain virtual register of the general-purpose kind (no 64-bit view to widen to)", func(c *reg.Collection, add func(*ir.Instruction, error), lbl func(string)) {
		v := c.VirtualRegister(reg.KindGP, reg.S32)
		w := c.GP64()
		add(x86.MOVQ(operand.U32(9), w))
		add(&ir.Instruction{Opcode: "MOVL", Operands: []operand.Op{operand.U32(1), v}, Inputs: nil, Outputs: []operand.Op{v}}, nil)
		add(&ir.Instruction{Opcode: "MOVL", Operands: []operand.Op{v, operand.Mem{Base: reg.RSP, Disp: 8}}, Inputs: []operand.Op{v, operand.Mem{Base: reg.RSP, Disp: 8}}, Outputs: nil}, nil)
		add(x86.MOVQ(w, operand.Mem{Base: reg.RSP, Disp: 16}))
		add(x86.RET())
	})
	mk("values dying at an exchange and at a division (two explicit / two implicit outputs)", func(c *reg.Collection, add func(*ir.Instruction, error), lbl func(string)) {
		a, b, d, e := c.GP64(), c.GP64(), c.GP64(), c.GP64()
		add(x86.MOVQ(operand.U32(3), a))
		add(x86.MOVQ(operand.U32(4), b))
		add(x86.MOVQ(operand.U32(9), d))
		add(x86.XCHGQ(a, b))
		add(x86.MOVQ(a, e))
		add(x86.ADDQ(b, e))
		add(x86.MOVQ(d, reg.RAX))
		add(x86.XORQ(reg.RDX, reg.RDX))
		add(x86.DIVQ(e))
		add(x86.ADDQ(reg.RDX, reg.RAX))
		add(x86.RET())
	})
	mk("blocks laid out against execution order; a register first seen narrow, then wide (two backward jumps in a row)", func(c *reg.Collection, add func(*ir.Instruction, error), lbl func(string)) {
		ptr, x, y := c.GP64(), c.GP64(), c.GP64()
		add(x86.MOVQ(operand.U32(4096), ptr))
		add(x86.JMP(operand.LabelRef("start")))
		lbl("done")
		add(x86.MOVB(x.As8(), operand.Mem{Base: ptr}))
		add(x86.MOVQ(x, operand.Mem{Base: ptr, Disp: 8}))
		add(x86.RET())
		lbl("mid")
		add(x86.MOVB(x.As8(), operand.Mem{Base: ptr, Disp: 1}))
		add(x86.JMP(operand.LabelRef("done")))
		lbl("start")
		add(x86.MOVQ(operand.U32(1), x))
		add(x86.MOVQ(operand.U32(2), y))
		add(x86.MOVQ(y, operand.Mem{Base: ptr, Disp: 16}))
		add(x86.MOVB(operand.U8(7), x.As8()))
		add(x86.JMP(operand.LabelRef("mid")))
	})
	mk("a referenced label sits on a jump to the following label; a virtual register is live only along that edge", func(c *reg.Collection, add func(*ir.Instruction, error), lbl func(string)) {
		a, b := c.GP64(), c.GP64()
		add(x86.MOVQ(operand.U32(42), a))
		add(x86.MOVQ(operand.U32(5), b))
		add(x86.TESTQ(b, b))
		add(x86.JNE(operand.LabelRef("lx")))
		add(x86.MOVQ(operand.U32(1), a))
		lbl("lx")
		add(x86.JMP(operand.LabelRef("lt")))
		lbl("lt")
		add(x86.ADDQ(a, b))
		add(x86.MOVQ(b, reg.RAX))
		add(x86.RET())
	})
	mk("if/else whose else arm is only the jump to the join label that follows; a value live only through it", func(c *reg.Collection, add func(*ir.Instruction, error), lbl func(string)) {
		r, x := c.GP64(), c.GP64()
		add(x86.MOVQ(operand.U32(7), r))
		add(x86.MOVQ(operand.U32(9), x))
		add(x86.TESTQ(x, x))
		add(x86.JE(operand.LabelRef("els")))
		add(x86.MOVQ(x, r))
		add(x86.ADDQ(r, r))
		add(x86.JMP(operand.LabelRef("endif")))
		lbl("els")
		add(x86.JMP(operand.LabelRef("endif")))
		lbl("endif")
		add(x86.MOVQ(r, reg.RAX))
		add(x86.RET())
	})
	mk("32-bit self-move after binding (MOVL v,v)", func(c *reg.Collection, add func(*ir.Instruction, error), lbl func(string)) {
		a := c.GP64()
		add(x86.MOVQ(operand.I64(-1), a))
		add(x86.MOVL(a.As32(), a.As32()))
		add(x86.MOVQ(a, operand.Mem{Base: reg.RAX}))
		add(x86.RET())
	})
	mk("explicit write to BP in NOSPLIT frameless function", func(c *reg.Collection, add func(*ir.Instruction, error), lbl func(string)) {
		add(x86.MOVQ(operand.U32(1), reg.RBP))
		add(x86.RET())
	})
	mk("write to the low byte of BP", func(c *reg.Collection, add func(*ir.Instruction, error), lbl func(string)) {
		add(x86.MOVB(operand.U8(1), reg.BPB))
		add(x86.RET())
	})
	return ps
}

// sweepProgs: every (every-th) instruction constructor once inside a small program over virtual
// registers: three constructor-built instructions sharing one register collection, then RET.  Makes the
// pipeline passes (liveness, allocation, binding, clean-up) face every opcode and operand shape the
// constructors can produce, not only the instructions the random program generator knows.
func sweepProgs(c *Ctx, every int) []*Prog {
	ctors := readCtors(c.Repo)
	d := dumpForms(c.Repo)
	opcIndexOf := map[string]int{}
	for k, v := range d.OpcName {
		opcIndexOf[v] = k
	}
	var names []string
	for n := range ctors {
		names = append(names, n)
	}
	sort.Strings(names)
	rng := NewRNG(c.Seed + 4242)
	var out []*Prog
	var cur *Prog
	var coll *reg.Collection
	count := 0
	for k, name := range names {
		if k%every != int(c.Seed)%every {
			continue
		}
		ci := ctors[name]
		for _, df := range ci.Doc {
			if cur == nil {
				cur = &Prog{Tags: map[string]bool{"ctor-sweep": true}, Attrs: attr.NOSPLIT}
				coll = reg.NewCollection()
				count = 0
			}
			var ops []operand.Op
			okf := true
			for _, tn := range df[1:] {
				t := strings.ToUpper(tn)
				if strings.HasPrefix(t, "REL") {
					okf = false
					break
				}
				ss := samplesFor(t, rng, coll)
				if len(ss) == 0 {
					okf = false
					break
				}
				ops = append(ops, ss[len(ss)-1]) // the virtual sample where the type has one
			}
			if !okf {
				continue
			}
			i, err, _ := x86.VerifBuild(opcIndexOf[ci.Opcode], ci.Suffixes, ops)
			if err != nil || i == nil || i.IsBranch || i.IsTerminal {
				continue
			}
			cur.Nodes = append(cur.Nodes, i)
			cur.Desc += name + " "
			count++
			if count == 3 {
				cur.Nodes = append(cur.Nodes, &ir.Instruction{Opcode: "RET", IsTerminal: true})
				cur.Desc = "ctor sweep " + strings.TrimSpace(cur.Desc)
				out = append(out, cur)
				cur = nil
			}
			break
		}
	}
	if cur != nil && count > 0 {
		cur.Nodes = append(cur.Nodes, &ir.Instruction{Opcode: "RET", IsTerminal: true})
		cur.Desc = "ctor sweep " + strings.TrimSpace(cur.Desc)
		out = append(out, cur)
	}
	return out
}

// bpSweepProgs: for every instruction constructor and every operand position that takes a general-purpose
// register, a two-instruction function with the base pointer (in the view of that width) in that position.
// Whether the position is written is for the instruction table to say; the frame rule must follow it
// whatever the position (second output of an exchange, register after a memory destination, ...).
func bpSweepProgs(c *Ctx, every int) []*Prog {
	ctors := readCtors(c.Repo)
	d := dumpForms(c.Repo)
	opcIndexOf := map[string]int{}
	for k, v := range d.OpcName {
		opcIndexOf[v] = k
	}
	var names []string
	for n := range ctors {
		names = append(names, n)
	}
	sort.Strings(names)
	rng := NewRNG(c.Seed + 1515)
	bpView := map[string]reg.Register{"R8": reg.BPB, "R16": reg.BP, "R32": reg.EBP, "R64": reg.RBP}
	var out []*Prog
	for k, name := range names {
		if k%every != int(c.Seed)%every {
			continue
		}
		ci := ctors[name]
		seen := map[string]bool{}
		for _, df := range ci.Doc {
			for pos, tn := range df[1:] {
				view, isGP := bpView[strings.ToUpper(tn)]
				if !isGP {
					continue
				}
				sig := fmt.Sprint(df[1:], pos)
				if seen[sig] {
					continue
				}
				seen[sig] = true
				coll := reg.NewCollection()
				var ops []operand.Op
				okf := true
				for q, tq := range df[1:] {
					if q == pos {
						ops = append(ops, view)
						continue
					}
					t := strings.ToUpper(tq)
					ss := samplesFor(t, rng, coll)
					if strings.HasPrefix(t, "REL") || len(ss) == 0 {
						okf = false
						break
					}
					ops = append(ops, ss[0])
				}
				if !okf {
					continue
				}
				i, err, _ := x86.VerifBuild(opcIndexOf[ci.Opcode], ci.Suffixes, ops)
				if err != nil || i == nil || i.IsBranch || i.IsTerminal {
					continue
				}
				p := &Prog{Tags: map[string]bool{"bp-sweep": true, "explicit-bp": true}, Desc: fmt.Sprintf("base pointer as operand %d of %s %v", pos, name, df[1:])}
				p.Attrs = Pick(rng, []attr.Attribute{attr.NOSPLIT, attr.NOSPLIT | attr.NOFRAME, 0})
				p.Nodes = append(p.Nodes, i, &ir.Instruction{Opcode: "RET", IsTerminal: true})
				out = append(out, p)
			}
		}
	}
	return out
}

// multiFunctionFiles: an error a pass reports for one function of a file must be the outcome of the whole
// compilation wherever that function stands in the file.  Every program the real pass.Compile refuses on
// its own is put before, between and after functions it accepts; passes are also run one by one through
// FunctionPass(...).Execute on the file, as a user's own pipeline would.
func multiFunctionFiles(o *Out, progs []*Prog, keyPrefix string, limit int) {
	compile := func(ps ...*Prog) (code int) {
		defer func() {
			if v := recover(); v != nil {
				code = panicCode(v)
			}
		}()
		f := ir.NewFile()
		for k, p := range ps {
			fn := p.Function()
			fn.Name = fmt.Sprintf("f%d", k)
			f.AddSection(fn)
		}
		if err := pass.Compile.Execute(f); err != nil {
			return errCode(err)
		}
		return 0
	}
	aloneOf := func(p *Prog) string {
		ob := runStaged(p)
		return fmt.Sprintf("(%d, %d)", stageNum[ob.Stage], ob.ErrCode)
	}
	good := &Prog{Attrs: attr.NOSPLIT}
	good.Nodes = append(good.Nodes, must(x86.MOVQ(operand.U32(1), reg.RAX)), must(x86.RET()))
	if compile(good) != 0 || compile(good, good) != 0 {
		die(fmt.Errorf("multiFunctionFiles: the reference function does not compile"))
	}
	var bad []*Prog
	for _, p := range progs {
		if len(bad) >= limit {
			break
		}
		if compile(p) != 0 {
			bad = append(bad, p)
		}
	}
	var rows []string
	base := 3000000
	for k, p := range bad {
		other := bad[(k+1)%len(bad)] // a second refused function, usually refused by another pass
		for _, arr := range []struct {
			name string
			ps   []*Prog
		}{{"first of two", []*Prog{p, good}}, {"last of two", []*Prog{good, p}}, {"middle of three", []*Prog{good, p, good}}, {"two refused functions", []*Prog{p, other}}, {"two refused functions, reversed", []*Prog{other, p}}} {
			var al []string
			for _, q := range arr.ps {
				al = append(al, aloneOf(q))
			}
			code := compile(arr.ps...)
			rows = append(rows, fmt.Sprintf("(%s, %d)", cList(al), code))
			o.Plan.Cases = append(o.Plan.Cases, Case{Index: base + len(rows) - 1, Key: keyPrefix + ":file-level", Desc: fmt.Sprintf("a function refused on its own (%s) as the %s of a file: file outcome %d: %s", aloneOf(p), arr.name, code, p.Text()), Input: map[string]any{"nodes": p.Text(), "position": arr.name}, Nontrivial: true})
		}
	}
	var b strings.Builder
	b.WriteString("From Avo Require Import Base.Prelude Model.Obs Model.PassFramework.\nOpen Scope N_scope.\n")
	fmt.Fprintf(&b, "Definition files : list file_case := %s.\n", cListNL(rows))
	fmt.Fprintf(&b, "Definition R_file_violation := Eval vm_compute in List.map (N.add %d) (indices_where_ (fun c => negb (file_impl_ok c)) files).\nPrint R_file_violation.\n", base)
	fmt.Fprintf(&b, "Definition R_file_mismatch := Eval vm_compute in List.map (N.add %d) (indices_where_ (fun c => negb (file_agree %d c)) files).\nPrint R_file_mismatch.\n", base, len(stageNum)-1)
	o.WriteFile("Files.v", b.String())
	o.Stage("Files.v")
	o.ExpectEmpty("Files.v", "R_file_violation", "violation", "a file is accepted although one of its functions is refused on its own (or refused although all are accepted): the error of one function is masked by another")
	o.ExpectEmpty("Files.v", "R_file_mismatch", "mismatch", "pass-major model of Compile over the functions of a file vs the error pass.Compile reports")
	o.Plan.Stats["refused_functions_placed_in_files"] = len(bad)
}

// bpPrintedFrames: what the assembler will see.  Each program is compiled by the real pass.Compile and
// printed; if the compiled code writes the base pointer (read off the instructions' own output lists) the
// TEXT line must declare a non-empty frame, otherwise the assembler neither saves nor restores it.
func bpPrintedFrames(o *Out, progs []*Prog, limit int) {
	n := 0
	for _, p := range progs {
		if n >= limit {
			break
		}
		if !(p.Tags["explicit-bp"] || p.Tags["pressure15"]) {
			continue
		}
		fn := p.Function()
		f := ir.NewFile()
		f.AddSection(fn)
		failed := false
		func() {
			defer func() {
				if recover() != nil {
					failed = true
				}
			}()
			if err := pass.Compile.Execute(f); err != nil {
				failed = true
			}
		}()
		if failed {
			continue
		}
		clob := false
		for _, nd := range fn.Nodes {
			if in, isI := nd.(*ir.Instruction); isI {
				for _, op := range in.Outputs {
					if r, isR := op.(reg.Register); isR && r.ID() == reg.RBP.ID() {
						clob = true
					}
				}
			}
		}
		if !clob {
			continue
		}
		out, err := printer.NewGoAsm(printer.Config{Name: "avo", Pkg: "p"}).Print(f)
		if err != nil {
			continue
		}
		n++
		frame := int64(-1)
		for _, ln := range strings.Split(string(out), "\n") {
			if m := textFrameRe.FindStringSubmatch(ln); m != nil {
				frame, _ = strconv.ParseInt(m[1], 10, 64)
			}
		}
		idx := o.AddCase(Case{Key: "bp:printed-frame", Desc: fmt.Sprintf("compiled and printed, frame $%d: %s", frame, p.Text()), Input: map[string]any{"nodes": p.Text()}, Nontrivial: true})
		if frame <= 0 {
			o.Plan.GoViolations = append(o.Plan.GoViolations, GoViolation{Key: "bp:printed-frame-empty", Desc: fmt.Sprintf("case %d: the compiled function writes the base pointer but its TEXT line declares frame $%d: the assembler will not save it: %s", idx, frame, p.Text()), Replay: map[string]any{"nodes": p.Text(), "text": string(out)}})
		}
	}
	o.Plan.Stats["bp_functions_printed"] = n
}

// emitLargeCases: functions of hundreds of instructions.  The literal models and the path-based decision
// procedures are not evaluated on them (too slow inside Coq); instead the live sets the implementation
// computed serve as a certificate: Coq checks that they are closed under the dataflow inclusions and that
// the allocation (of the staged run and of the real pass.Compile) puts no definition on storage they say
// is live (Model/Cert.v, Proofs/SimCert.v), plus the graph, binding, frame-pointer and clean-up validators.
func emitLargeCases(c *Ctx, progs []*Prog) {
	o := c.Out
	var files []string
	for k, p := range progs {
		ob := runStaged(p)
		ec, ea, en, el := runCompile(p)
		st := ob.Stage
		if st == "" {
			st = "ok"
		} else {
			st = fmt.Sprintf("%s:%d", st, ob.ErrCode)
		}
		idx := o.AddCase(Case{Key: "large:" + p.Desc, Desc: fmt.Sprintf("%s (%d nodes) => %s", p.Desc, len(p.Nodes), st), Input: map[string]any{"prog": p.Desc, "nodes": len(p.Nodes)}, Nontrivial: true})
		name := fmt.Sprintf("Large%02d.v", k)
		var b strings.Builder
		b.WriteString(progHeader + "From Avo Require Import Model.Check Model.Cert.\n")
		fmt.Fprintf(&b, "Definition cases : list pcase := [(%s,\n   %s)].\n", p.Coq(), ob.Coq())
		fmt.Fprintf(&b, "Definition e2e : list e2e_t := [(%d, %s, %s, %d)].\n", ec, cPairs(ea), cNodes(en), el)
		if rk, ok := rankCertificate(ob.AfterZext, ob.Succs, ob.LiveIn); ok && ob.LiveIn != nil {
			fmt.Fprintf(&b, "Definition ranks : list rank_t := %s.\n", rk)
			fmt.Fprintf(&b, "Definition R_large_exact_violation := Eval vm_compute in List.map (N.add %d) (where_not (fun c => cert_exact_ok ranks (snd c)) cases).\nPrint R_large_exact_violation.\n", idx)
			o.ExpectEmpty(name, "R_large_exact_violation", "violation", "a register byte is reported live before (or after) an instruction of a large function although no path from there reads it before it is overwritten")
		}
		for _, ck := range []struct{ name, expr, desc string }{
			{"R_large_live_violation", "where_not (fun c => cert_live_ok (snd c)) cases", "the live sets the pipeline computed for a large function are not closed under the dataflow inclusions: a register byte that can still be read is not reported live"},
			{"R_large_alloc_violation", "where_not (fun c => cert_alloc_ok regs (snd c)) cases", "the allocation of a large function is invalid: unmapped / wrong class / restricted register, or a definition lands on storage that is live after it"},
			{"R_large_cfg_violation", "where_not cfg_obs_ok cases", "the successors/predecessors computed for a large function are not its control-flow graph"},
			{"R_large_zext_violation", "where_not (fun c => zext_ok regs (snd c)) cases", "after the 32-bit widening pass an instruction of a large function is not the widening of the instruction before it (another register's 64-bit view, or none)"},
			{"R_large_bind_violation", "where_not (fun c => bind_ok regs (snd c)) cases", "bound code of a large function is not the substitution instance"},
			{"R_large_bp_violation", "where_not (fun c => bp_ok regs (fattrs (fst c)) (snd c)) cases", "a large function writes the base pointer but gets no frame"},
			{"R_large_e2e_violation", "where_not2 e2e_cert_ok cases e2e", "the allocation the real pass.Compile produced for a large function puts a definition on storage that is live after it"},
			{"R_large_e2e_bp_violation", "where_not2 (e2e_bp_ok regs) cases e2e", "a large function compiled by the real pass.Compile writes the base pointer but has no frame"},
			{"R_large_e2e_phys_violation", "where_not2 e2e_phys_ok cases e2e", "a large function compiled by the real pass.Compile still contains a virtual register"},
			{"R_large_e2e_cleanup_violation", "where_not2 e2e_cleanup_ok cases e2e", "the real pass.Compile deleted from a large function something other than a move without architectural effect"},
		} {
			fmt.Fprintf(&b, "Definition %s := Eval vm_compute in List.map (N.add %d) (%s).\nPrint %s.\n", ck.name, idx, ck.expr, ck.name)
			o.ExpectEmpty(name, ck.name, "violation", ck.desc)
		}
		// error outcome of the staged run and of the real Compile must agree, and a function that needs more
		// registers than exist must be refused by both
		fmt.Fprintf(&b, "Definition R_large_outcome_mismatch := Eval vm_compute in List.map (N.add %d) (where_not2 (fun ce => let '(err, _, _, _) := snd ce in (err =? 0) && (o_stage (snd (fst ce)) =? 0) || negb (err =? 0) && negb (o_stage (snd (fst ce)) =? 0)) cases e2e).\nPrint R_large_outcome_mismatch.\n", idx)
		o.ExpectEmpty(name, "R_large_outcome_mismatch", "mismatch", "pass.Compile run end to end and the passes run one by one disagree on whether a large function compiles")
		o.WriteFile(name, b.String())
		files = append(files, name)
	}
	o.Stage(files...)
	o.Plan.Stats["large_functions"] = len(progs)
}

// bpListedFile: a file of several functions, one of which writes the base pointer, whose function list the
// generator has looked at (and filtered in place for its own purposes, as one that prints an index of the
// exported functions would) before compiling: every TEXT block of the printed file whose code writes BP
// still declares a frame, and a NOFRAME function that writes it is still refused.
func bpListedFile(o *Out) {
	for variant := 0; variant < 4; variant++ {
		ctx := build.NewContext()
		names := []string{"clobber", "Sum", "helper", "Dot"}
		if variant%2 == 1 {
			names = []string{"Sum", "Dot", "clobber", "helper"}
		}
		for _, n := range names {
			ctx.Function(n)
			ctx.Attributes(attr.NOSPLIT)
			if n == "clobber" && variant >= 2 {
				ctx.Attributes(attr.NOSPLIT | attr.NOFRAME)
			}
			ctx.SignatureExpr("func(x uint64) uint64")
			v := ctx.GP64()
			ctx.Load(ctx.Param("x"), v)
			if n == "clobber" {
				ctx.MOVQ(v, reg.RBP)
				ctx.ADDQ(reg.RBP, v)
			}
			ctx.Store(v, ctx.ReturnIndex(0))
			ctx.RET()
		}
		f, err := ctx.Result()
		if err != nil {
			continue
		}
		// the generator's own use of the list: keep the exported names, in place
		fns := f.Functions()
		kept := fns[:0]
		for _, fn := range fns {
			if fn.Name[0] >= 'A' && fn.Name[0] <= 'Z' {
				kept = append(kept, fn)
			}
		}
		for k := len(kept); k < len(fns); k++ {
			fns[k] = nil
		}
		desc := fmt.Sprintf("functions %v (clobber writes BP%s); the caller filters the slice Functions() returned in place, then compiles", names, map[bool]string{false: "", true: ", NOFRAME"}[variant >= 2])
		idx := o.AddCase(Case{Key: "bp:listed-file", Desc: desc, Input: map[string]any{"functions": names, "noframe": variant >= 2}, Nontrivial: true})
		var cerr error
		func() {
			defer func() {
				if r := recover(); r != nil {
					cerr = fmt.Errorf("panic: %v", r)
				}
			}()
			cerr = pass.Compile.Execute(f)
		}()
		if variant >= 2 {
			if cerr == nil {
				o.Plan.GoViolations = append(o.Plan.GoViolations, GoViolation{Key: "bp:listed-file", Desc: fmt.Sprintf("case %d: %s: the NOFRAME function that writes the base pointer was compiled without an error", idx, desc), Replay: map[string]any{"functions": names, "noframe": true}})
			}
			continue
		}
		if cerr != nil {
			o.Plan.GoViolations = append(o.Plan.GoViolations, GoViolation{Key: "bp:listed-file", Desc: fmt.Sprintf("case %d: %s: compile error %v", idx, desc, cerr), Replay: map[string]any{"functions": names}})
			continue
		}
		out, err := printer.NewGoAsm(printer.Config{Name: "avo", Pkg: "p"}).Print(f)
		if err != nil {
			continue
		}
		frame, cur := int64(-1), ""
		for _, ln := range strings.Split(string(out), "\n") {
			if strings.HasPrefix(ln, "TEXT ") {
				cur = ln
				frame = -1
				if m := textFrameRe.FindStringSubmatch(ln); m != nil {
					frame, _ = strconv.ParseInt(m[1], 10, 64)
				}
			}
			if strings.HasPrefix(ln, "\t") && strings.HasSuffix(strings.TrimSpace(ln), ", BP") && frame <= 0 {
				o.Plan.GoViolations = append(o.Plan.GoViolations, GoViolation{Key: "bp:listed-file", Desc: fmt.Sprintf("case %d: %s: `%s` writes the base pointer in the block %q, which declares no frame", idx, desc, strings.TrimSpace(ln), cur), Replay: map[string]any{"functions": names, "text": string(out)}})
				break
			}
		}
	}
}

// bpMainFlow: the flow of a real generator (build.Main with the compile pass followed by the two printers) on
// files in which one function must be refused (NOFRAME and writes the base pointer) next to functions that
// write it legitimately: the status is non-zero and nothing is written; without the refused function the
// status is zero and every block that writes BP declares a frame.
func bpMainFlow(o *Out) {
	for variant := 0; variant < 4; variant++ {
		ctx := build.NewContext()
		order := []string{"Leaf", "Sum", "Dot"}
		switch variant {
		case 1:
			order = []string{"Sum", "Leaf", "Dot"}
		case 2:
			order = []string{"Sum", "Dot", "Leaf"}
		case 3:
			order = []string{"Sum", "Dot"}
		}
		for _, n := range order {
			ctx.Function(n)
			ctx.Attributes(attr.NOSPLIT)
			if n == "Leaf" {
				ctx.Attributes(attr.NOSPLIT | attr.NOFRAME)
			}
			ctx.SignatureExpr("func(x uint64) uint64")
			v := ctx.GP64()
			ctx.Load(ctx.Param("x"), v)
			ctx.MOVQ(v, reg.RBP)
			ctx.ADDQ(reg.RBP, v)
			ctx.Store(v, ctx.ReturnIndex(0))
			ctx.RET()
		}
		var asm, stub, diag bytes.Buffer
		pc := printer.Config{Name: "avo", Pkg: "p"}
		cfg := &build.Config{ErrOut: &diag, MaxErrors: 10, Passes: []pass.Interface{pass.Compile, &pass.Output{Writer: nopWC{&asm}, Printer: printer.NewGoAsm(pc)}, &pass.Output{Writer: nopWC{&stub}, Printer: printer.NewStubs(pc)}}}
		status := build.Main(cfg, ctx)
		desc := fmt.Sprintf("build.Main over the functions %v, each writing BP (Leaf is NOFRAME)", order)
		idx := o.AddCase(Case{Key: "bp:main-flow", Desc: desc, Input: map[string]any{"functions": order}, Nontrivial: true})
		if variant < 3 {
			if status == 0 || asm.Len() != 0 || stub.Len() != 0 {
				o.Plan.GoViolations = append(o.Plan.GoViolations, GoViolation{Key: "bp:main-flow", Desc: fmt.Sprintf("case %d: %s: status %d, %d bytes of assembly and %d bytes of stubs written although Leaf must be refused (diagnostics: %q)", idx, desc, status, asm.Len(), stub.Len(), firstLine(diag.String())), Replay: map[string]any{"functions": order, "assembly": asm.String()}})
			}
			continue
		}
		frame, cur, bad := int64(-1), "", status != 0
		for _, ln := range strings.Split(asm.String(), "\n") {
			if strings.HasPrefix(ln, "TEXT ") {
				cur, frame = ln, -1
				if m := textFrameRe.FindStringSubmatch(ln); m != nil {
					frame, _ = strconv.ParseInt(m[1], 10, 64)
				}
			}
			if strings.HasPrefix(ln, "\t") && strings.HasSuffix(strings.TrimSpace(ln), ", BP") && frame <= 0 {
				bad = true
			}
		}
		if bad || cur == "" {
			o.Plan.GoViolations = append(o.Plan.GoViolations, GoViolation{Key: "bp:main-flow", Desc: fmt.Sprintf("case %d: %s: status %d; a block that writes BP declares no frame, or nothing was written", idx, desc, status), Replay: map[string]any{"functions": order, "assembly": asm.String()}})
		}
	}
}
