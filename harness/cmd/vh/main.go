// vh: verification harness for /verif. Usage: vh <Cxx> -seed N -tier quick|thorough -out DIR
package main

import (
	"flag"
	"fmt"
	"os"
)

type Ctx struct {
	Seed uint64
	Tier string
	Out  *Out
	Repo string
	Tmp  string
}

func (c *Ctx) Thorough() bool { return c.Tier == "thorough" }

var props = map[string]func(*Ctx){}

func main() {
	if len(os.Args) < 2 {
		fmt.Fprintln(os.Stderr, "usage: vh <Cxx> [-seed N] [-tier quick|thorough] -out DIR")
		os.Exit(2)
	}
	prop := os.Args[1]
	fs := flag.NewFlagSet("vh", flag.ExitOnError)
	seed := fs.Uint64("seed", 1, "seed")
	tier := fs.String("tier", "quick", "tier")
	out := fs.String("out", "", "output directory for generated Coq files")
	repo := fs.String("repo", "/repo", "avo source tree")
	tmp := fs.String("tmp", "", "scratch directory")
	fs.Parse(os.Args[2:])
	f, ok := props[prop]
	if !ok {
		fmt.Fprintln(os.Stderr, "unknown property", prop)
		os.Exit(2)
	}
	if *out == "" {
		fmt.Fprintln(os.Stderr, "-out required")
		os.Exit(2)
	}
	c := &Ctx{Seed: *seed, Tier: *tier, Out: NewOut(*out, prop), Repo: *repo, Tmp: *tmp}
	f(c)
	c.Out.Finish()
}
