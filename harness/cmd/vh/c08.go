package main

import (
	"fmt"
	"github.com/mmcloughlin/avo/gotypes"
	"go/ast"
	"go/parser"
	"go/token"
	"go/types"
	"path/filepath"
	"strconv"
	"strings"

	"github.com/mmcloughlin/avo/build"
	"github.com/mmcloughlin/avo/operand"
	"github.com/mmcloughlin/avo/reg"
)

func init() { props["C08"] = c08 }

type movRow struct {
	An, Bn       string
	Pa, Pb, Cond string
	Op           string
}

func flattenAnd(e ast.Expr) []ast.Expr {
	if b, ok := e.(*ast.BinaryExpr); ok && b.Op == token.LAND {
		return append(flattenAnd(b.X), flattenAnd(b.Y)...)
	}
	return []ast.Expr{e}
}

func exprText(fset *token.FileSet, src []byte, e ast.Expr) string {
	return string(src[fset.Position(e.Pos()).Offset:fset.Position(e.End()).Offset])
}

// translateMov reads the switch of build/zmov.go case by case, in order
func translateMov(repo string) []movRow {
	fset := token.NewFileSet()
	path := filepath.Join(repo, "build", "zmov.go")
	f, err := parser.ParseFile(fset, path, nil, 0)
	if err != nil {
		die(err)
	}
	src := readFile(path)
	var rows []movRow
	ast.Inspect(f, func(n ast.Node) bool {
		cc, ok := n.(*ast.CaseClause)
		if !ok || len(cc.List) != 1 {
			return true
		}
		parts := flattenAnd(cc.List[0])
		if len(cc.Body) != 1 {
			rows = append(rows, movRow{An: "0", Bn: "0", Op: "?unparsed"})
			return true
		}
		// the conjuncts are recognised by shape, in any order; a missing size test is a wildcard (0)
		r := movRow{An: "0", Bn: "0"}
		bad := false
		for _, pe := range parts {
			t := strings.ReplaceAll(exprText(fset, src, pe), " ", "")
			switch {
			case strings.HasPrefix(t, "an=="):
				r.An = strings.TrimPrefix(t, "an==")
			case strings.HasPrefix(t, "bn=="):
				r.Bn = strings.TrimPrefix(t, "bn==")
			case strings.HasPrefix(t, "operand.Is") && strings.HasSuffix(t, "(a)"):
				r.Pa = strings.TrimSuffix(strings.TrimPrefix(t, "operand.Is"), "(a)")
			case strings.HasPrefix(t, "operand.Is") && strings.HasSuffix(t, "(b)"):
				r.Pb = strings.TrimSuffix(strings.TrimPrefix(t, "operand.Is"), "(b)")
			case t == "(t.Info()&(types.IsInteger|types.IsBoolean))!=0":
				r.Cond = "intbool"
			case t == "(t.Info()&(types.IsInteger|types.IsUnsigned))==types.IsInteger":
				r.Cond = "signed"
			case t == "(t.Info()&(types.IsInteger|types.IsUnsigned))==(types.IsInteger|types.IsUnsigned)":
				r.Cond = "unsigned"
			case t == "(t.Info()&types.IsBoolean)!=0":
				r.Cond = "bool"
			case t == "(t.Info()&types.IsFloat)!=0":
				r.Cond = "float"
			default:
				bad = true
			}
		}
		if _, e1 := strconv.Atoi(r.An); e1 != nil {
			bad = true
		}
		if _, e2 := strconv.Atoi(r.Bn); e2 != nil {
			bad = true
		}
		if bad || r.Pa == "" || r.Pb == "" || r.Cond == "" {
			rows = append(rows, movRow{An: "0", Bn: "0", Op: "?unparsed"})
			return true
		}
		call := exprText(fset, src, cc.Body[0].(*ast.ExprStmt).X)
		r.Op = strings.TrimSuffix(strings.TrimPrefix(call, "c."), "(a, b)")
		rows = append(rows, r)
		return true
	})
	return rows
}

var movKinds = []string{"bool", "int8", "int16", "int32", "int64", "uint8", "uint16", "uint32", "uint64", "uintptr", "float32", "float64"}

func c08(c *Ctx) {
	o := c.Out
	defer derefBuildCheck(c) // loads through a dereferenced pointer start from a pointer loaded by that very call
	rows := translateMov(c.Repo)
	var rr []string
	for _, r := range rows {
		rr = append(rr, fmt.Sprintf("{| m_an := %s; m_pa := %s; m_bn := %s; m_pb := %s; m_cond := %s; m_op := %s |}", r.An, cStr(r.Pa), r.Bn, cStr(r.Pb), cStr(r.Cond), cStr(r.Op)))
	}
	// representative registers per class (virtual, as Load/Store are normally used) and physical ones
	coll := reg.NewCollection()
	classes := []struct {
		name string
		mk   func(phys bool) reg.Register
	}{
		{"R8", func(p bool) reg.Register {
			if p {
				return reg.BL
			}
			return coll.GP8L()
		}},
		{"R16", func(p bool) reg.Register {
			if p {
				return reg.CX
			}
			return coll.GP16()
		}},
		{"R32", func(p bool) reg.Register {
			if p {
				return reg.R9L
			}
			return coll.GP32()
		}},
		{"R64", func(p bool) reg.Register {
			if p {
				return reg.R12
			}
			return coll.GP64()
		}},
		{"XMM", func(p bool) reg.Register {
			if p {
				return reg.X7
			}
			return coll.XMM()
		}},
		{"YMM", func(p bool) reg.Register {
			if p {
				return reg.Y17
			}
			return coll.YMM()
		}},
		{"ZMM", func(p bool) reg.Register {
			if p {
				return reg.Z3
			}
			return coll.ZMM()
		}},
		{"K", func(p bool) reg.Register {
			if p {
				return reg.K2
			}
			return coll.K()
		}},
	}
	var reps []string
	for _, cl := range classes {
		reps = append(reps, cPair(cStr(cl.name), "(OReg "+cReg(cl.mk(false))+")"))
	}
	tab := commonTab(c) + "From Avo Require Import Model.Forms Model.Mov.\nNotation R := Build_reg.\n" +
		"(* build/zmov.go: one row per case clause, in order *)\nDefinition movtab : list movrow := " + cListNL(rr) + ".\n" +
		"Definition reps : list (string * operand) := " + cList(reps) + ".\n"
	o.WriteFile("Tab.v", tab)
	o.Stage("Tab.v")
	o.Oblig("Tab.info_constants_ok")

	// complete enumeration through the real Context.Load / Context.Store, the component being reached
	// directly, as a defined type, as a struct field, an array element, through a pointer, and as the
	// real/imaginary part of a (defined) complex value: the move depends on the leaf kind only
	type via struct {
		name  string
		decls func(kind string) []string // type declarations
		typ   func(kind string) string   // type of the parameter / result
		path  func(c gotypes.Component) gotypes.Component
		ok    func(kind string, store bool) bool
	}
	cplx := map[string]string{"float32": "complex64", "float64": "complex128"}
	all := func(string, bool) bool { return true }
	vias := []via{
		{"direct", nil, func(k string) string { return k }, func(c gotypes.Component) gotypes.Component { return c }, all},
		// (a parameter whose own type is a defined type is refused by Resolve, "component is not primitive": no move to check)
		{"struct field", nil, func(k string) string { return "struct{ a uint8; f " + k + " }" }, func(c gotypes.Component) gotypes.Component { return c.Field("f") }, all},
		{"array element", nil, func(k string) string { return "[3]" + k }, func(c gotypes.Component) gotypes.Component { return c.Index(2) }, all},
		{"through pointer", nil, func(k string) string { return "*" + k }, func(c gotypes.Component) gotypes.Component { return c.Dereference(reg.R8) }, func(_ string, st bool) bool { return !st }},
		{"real part", nil, func(k string) string { return cplx[k] }, func(c gotypes.Component) gotypes.Component { return c.Real() }, func(k string, _ bool) bool { return cplx[k] != "" }},
		{"imaginary part", nil, func(k string) string { return cplx[k] }, func(c gotypes.Component) gotypes.Component { return c.Imag() }, func(k string, _ bool) bool { return cplx[k] != "" }},
		{"real part of a defined complex type", func(k string) []string { return []string{"type Z " + cplx[k]} }, func(string) string { return "Z" }, func(c gotypes.Component) gotypes.Component { return c.Real() }, func(k string, _ bool) bool { return cplx[k] != "" }},
		{"imaginary part of a defined complex type", func(k string) []string { return []string{"type Z " + cplx[k]} }, func(string) string { return "Z" }, func(c gotypes.Component) gotypes.Component { return c.Imag() }, func(k string, _ bool) bool { return cplx[k] != "" }},
	}
	mksig := func(decls []string, expr string) *gotypes.Signature {
		if len(decls) == 0 {
			sg, err := gotypes.ParseSignature(expr)
			if err != nil {
				die(fmt.Errorf("%s: %v", expr, err))
			}
			return sg
		}
		fset := token.NewFileSet()
		pf, err := parser.ParseFile(fset, "p.go", "package p\n"+strings.Join(decls, "\n")+"\n", 0)
		if err != nil {
			die(err)
		}
		pkg, err := (&types.Config{}).Check("p", fset, []*ast.File{pf}, nil)
		if err != nil {
			die(err)
		}
		sg, err := gotypes.ParseSignatureInPackage(pkg, expr)
		if err != nil {
			die(fmt.Errorf("%s: %v", expr, err))
		}
		return sg
	}
	var cases []string
	for _, v := range vias {
		for _, st := range []bool{false, true} {
			for ki, kind := range movKinds {
				if !v.ok(kind, st) {
					continue
				}
				for ci, cl := range classes {
					for _, phys := range []bool{false, true} {
						ctx := build.NewContext()
						ctx.Function("f")
						var decls []string
						if v.decls != nil {
							decls = v.decls(kind)
						}
						if st {
							ctx.Signature(mksig(decls, "func() (r "+v.typ(kind)+", pad uint64)"))
						} else {
							ctx.Signature(mksig(decls, "func(x "+v.typ(kind)+", pad uint64)"))
						}
						r := cl.mk(phys)
						if st {
							ctx.Store(r, v.path(ctx.Return("r")))
						} else {
							ctx.Load(v.path(ctx.Param("x")), r)
						}
						f, err := ctx.Result()
						is := f.Functions()[0].Instructions()
						obs := "None"
						desc := "error"
						if err == nil && len(is) == 1 {
							obs = "(Some " + cStr(is[0].Opcode) + ")"
							desc = is[0].Opcode
						} else if err == nil || len(is) != 0 {
							o.Plan.GoViolations = append(o.Plan.GoViolations, GoViolation{Key: "mov:shape", Desc: fmt.Sprintf("Load/Store of %s (%s) with %s: %d instructions and error %v", kind, v.name, r.Asm(), len(is), err)})
						}
						dir := "load"
						if st {
							dir = "store"
						}
						cases = append(cases, fmt.Sprintf("(%s, %d, %d, %s, %s)", cBool(st), ki, ci, cStr(r.Asm()), obs))
						key := fmt.Sprintf("mov:%s:%s:%s", dir, kind, cl.name)
						if v.name != "direct" {
							key += ":" + v.name
						}
						o.AddCase(Case{Key: key, Desc: fmt.Sprintf("%s %s (%s) <-> %s (%s): %s", dir, kind, v.name, cl.name, r.Asm(), desc), Input: map[string]any{"dir": dir, "kind": kind, "via": v.name, "class": cl.name, "physical": phys}, Nontrivial: desc != "error"})
					}
				}
			}
		}
	}
	// where the move goes: a component that is neither the first parameter nor the first result, between
	// neighbours of another size, must be accessed at the offset the Go compiler gives it (its bytes and
	// nothing adjacent)
	{
		sizes := map[string]int{"bool": 1, "int8": 1, "int16": 2, "int32": 4, "int64": 8, "uint8": 1, "uint16": 2, "uint32": 4, "uint64": 8, "uintptr": 8, "float32": 4, "float64": 8}
		align := func(x, a int) int { return (x + a - 1) / a * a }
		for _, kind := range movKinds {
			sz := sizes[kind]
			for _, st := range []bool{false, true} {
				ctx := build.NewContext()
				ctx.Function("f")
				ctx.Signature(mksig(nil, "func(a uint8, x "+kind+", b uint8) (p uint8, r "+kind+", q uint8)"))
				var r reg.Register
				switch {
				case strings.HasPrefix(kind, "float"):
					r = ctx.XMM()
				case sz == 1:
					r = ctx.GP8()
				case sz == 2:
					r = ctx.GP16()
				case sz == 4:
					r = ctx.GP32()
				default:
					r = ctx.GP64()
				}
				xoff := align(1, sz)
				paramsEnd := xoff + sz + 1
				want, name := xoff, "x"
				if st {
					ctx.Store(r, ctx.Return("r"))
					want, name = align(paramsEnd, 8)+align(1, sz), "r"
				} else {
					ctx.Load(ctx.Param("x"), r)
				}
				f, err := ctx.Result()
				dir := map[bool]string{false: "load", true: "store"}[st]
				idx := o.AddCase(Case{Key: "mov:address:" + dir + ":" + kind, Desc: fmt.Sprintf("%s of the middle %s component of func(a uint8, x %s, b uint8) (p uint8, r %s, q uint8)", dir, kind, kind, kind), Input: map[string]any{"dir": dir, "kind": kind}, Nontrivial: true})
				if err != nil || len(f.Functions()[0].Instructions()) != 1 {
					o.Plan.GoViolations = append(o.Plan.GoViolations, GoViolation{Key: "mov:address", Desc: fmt.Sprintf("case %d: %s of %s between byte-sized neighbours fails: %v", idx, dir, kind, err)})
					continue
				}
				in := f.Functions()[0].Instructions()[0]
				found := false
				for _, op := range in.Operands {
					if m, isM := op.(operand.Mem); isM {
						found = true
						if m.Symbol.Name != name || m.Disp != want || m.Base != reg.FramePointer || m.Index != nil {
							o.Plan.GoViolations = append(o.Plan.GoViolations, GoViolation{Key: "mov:address", Desc: fmt.Sprintf("case %d: %s of the %s component %s accesses %s; the Go compiler places it at %s+%d(FP)", idx, dir, kind, name, m.Asm(), name, want), Replay: map[string]any{"dir": dir, "kind": kind}})
						}
					}
				}
				if !found {
					o.Plan.GoViolations = append(o.Plan.GoViolations, GoViolation{Key: "mov:address", Desc: fmt.Sprintf("case %d: %s of %s has no memory operand", idx, dir, kind)})
				}
			}
		}
	}
	// parts a value does not have: a move is refused (and nothing is emitted), never aimed at the bytes next to the value
	{
		sig := "func(s string, guard uint64, b []byte, a [2]uint32, c complex128, p *uint32) (g uint64, t string)"
		type req struct {
			desc string
			comp func(ctx *build.Context) gotypes.Component
		}
		reqs := []req{
			{"Param(s).Cap()", func(ctx *build.Context) gotypes.Component { return ctx.Param("s").Cap() }},
			{"Return(t).Cap()", func(ctx *build.Context) gotypes.Component { return ctx.Return("t").Cap() }},
			{"Param(a).Len()", func(ctx *build.Context) gotypes.Component { return ctx.Param("a").Len() }},
			{"Param(a).Base()", func(ctx *build.Context) gotypes.Component { return ctx.Param("a").Base() }},
			{"Param(c).Base()", func(ctx *build.Context) gotypes.Component { return ctx.Param("c").Base() }},
			{"Param(guard).Index(0)", func(ctx *build.Context) gotypes.Component { return ctx.Param("guard").Index(0) }},
			{"Param(guard).Real()", func(ctx *build.Context) gotypes.Component { return ctx.Param("guard").Real() }},
			{"Param(b).Index(0)", func(ctx *build.Context) gotypes.Component { return ctx.Param("b").Index(0) }},
			{"Param(a).Index(2)", func(ctx *build.Context) gotypes.Component { return ctx.Param("a").Index(2) }},
			{"Param(p).Len()", func(ctx *build.Context) gotypes.Component { return ctx.Param("p").Len() }},
			{"Param(s).Imag()", func(ctx *build.Context) gotypes.Component { return ctx.Param("s").Imag() }},
		}
		for _, rq := range reqs {
			for _, st := range []bool{false, true} {
				ctx := build.NewContext()
				ctx.Function("f")
				ctx.Signature(mksig(nil, sig))
				r := ctx.GP64()
				if st {
					ctx.Store(r, rq.comp(ctx))
				} else {
					ctx.Load(rq.comp(ctx), r)
				}
				f, err := ctx.Result()
				dir := map[bool]string{false: "Load", true: "Store"}[st]
				idx := o.AddCase(Case{Key: "mov:nonexistent-part", Desc: dir + " of " + rq.desc + " in " + sig, Input: map[string]any{"dir": dir, "component": rq.desc}, Nontrivial: true})
				if n := len(f.Functions()[0].Instructions()); err == nil || n != 0 {
					txt := ""
					if n > 0 {
						txt = instrLine(f.Functions()[0].Instructions()[0])
					}
					o.Plan.GoViolations = append(o.Plan.GoViolations, GoViolation{Key: "mov:nonexistent-part", Desc: fmt.Sprintf("case %d: %s of %s, a part the value does not have, gives error %v and %d instruction(s) %s", idx, dir, rq.desc, err, n, txt), Replay: map[string]any{"dir": dir, "component": rq.desc, "signature": sig}})
				}
			}
		}
	}
	// components of one held parent, several accessors deep, moved after all of them have been taken
	{
		sig := "func(a uint8, m struct{ Rows [2]struct{ Cell struct{ Lo uint8; Hi uint64 }; Tag uint16 } }) (r struct{ P struct{ Q struct{ R struct{ X uint32; Y uint64 } } } })"
		ctx := build.NewContext()
		ctx.Function("f")
		ctx.Signature(mksig(nil, sig))
		cell := ctx.Param("m").Field("Rows").Index(1).Field("Cell")
		lo, hi := cell.Field("Lo"), cell.Field("Hi")
		rr := ctx.Return("r").Field("P").Field("Q").Field("R")
		x, y := rr.Field("X"), rr.Field("Y")
		ctx.Load(lo, ctx.GP8())
		ctx.Load(hi, ctx.GP64())
		ctx.Store(ctx.GP32(), x)
		ctx.Store(ctx.GP64(), y)
		f, err := ctx.Result()
		idx := o.AddCase(Case{Key: "mov:address:held-parent", Desc: "loads of m.Rows[1].Cell.{Lo,Hi} and stores to r.P.Q.R.{X,Y}, each pair taken from one held parent component: " + sig, Input: map[string]any{"signature": sig}, Nontrivial: true})
		want := []string{"MOVB m_Rows_1_Cell_Lo+32(FP)", "MOVQ m_Rows_1_Cell_Hi+40(FP)", "MOVL r_P_Q_R_X+56(FP)", "MOVQ r_P_Q_R_Y+64(FP)"}
		var got []string
		if err == nil {
			for _, in := range f.Functions()[0].Instructions() {
				t := in.Opcode
				for _, op := range in.Operands {
					if m, isM := op.(operand.Mem); isM {
						t += " " + m.Asm()
					}
				}
				got = append(got, t)
			}
		}
		if err != nil || strings.Join(got, "; ") != strings.Join(want, "; ") {
			o.Plan.GoViolations = append(o.Plan.GoViolations, GoViolation{Key: "mov:address:held-parent", Desc: fmt.Sprintf("case %d: the moves are %q (error %v); the components' widths and the Go compiler's frame layout give %q", idx, got, err, want), Replay: map[string]any{"signature": sig}})
		}
	}
	var b strings.Builder
	b.WriteString(progHeader + "From Avo Require Import Model.Forms Model.Mov Props.C08.\n")
	fmt.Fprintf(&b, "Definition cases : list mov_case := %s.\n", cListNL(cases))
	b.WriteString("Definition R_unparsed := Eval vm_compute in idx_where (fun r => negb (existsb (String.eqb (m_cond r)) [\"intbool\";\"signed\";\"unsigned\";\"bool\";\"float\"]%string) || match mov_sem (m_op r) with None => true | Some _ => false end) movtab.\nPrint R_unparsed.\n")
	b.WriteString("Definition R_mismatch := Eval vm_compute in idx_where (fun c => negb (mov_agree regs movtab reps c)) cases.\nPrint R_mismatch.\n")
	b.WriteString("Definition R_violation := Eval vm_compute in idx_where (fun c => negb (mov_impl_ok c)) cases.\nPrint R_violation.\n")
	b.WriteString("Definition R_bad_pairs := Eval vm_compute in bad_pairs regs movtab reps.\nPrint R_bad_pairs.\n")
	o.WriteFile("Mov.v", b.String())
	o.Stage("Mov.v")
	// the table-level lemma in a file of its own: when it fails the case lists above are still evaluated and
	// name the component kinds and registers that go wrong
	o.WriteFile("MovTable.v", progHeader+"From Avo Require Import Model.Forms Model.Mov Props.C08.\nFrom AvoGen Require Import Mov.\n"+
		"Lemma mov_table_checked : mov_table_ok regs movtab reps known_bad_pairs = true.\nProof. vm_compute. reflexivity. Qed.\nPrint Assumptions mov_table_checked.\n"+
		"Definition C08_load_store_correct := load_store_correct regs movtab reps mov_table_checked.\nPrint Assumptions C08_load_store_correct.\n")
	o.Stage("MovTable.v")
	o.Oblig("MovTable.mov_table_checked", "MovTable.C08_load_store_correct")
	o.ExpectEmpty("Mov.v", "R_unparsed", "obligation", "a case of build/zmov.go has a shape or an opcode the model does not know")
	o.ExpectEmpty("Mov.v", "R_mismatch", "mismatch", "first-matching-row model of Context.mov vs the instruction Context.Load/Store appends")
	o.ExpectEmpty("Mov.v", "R_violation", "violation", "the move chosen for this component type and register accesses more or fewer bytes than the component, or extends it against Go's conversion rule")
	o.Plan.Rule = "complete enumeration: 12 basic component kinds (reached directly, as a defined type, struct field, array element, through a pointer, and as real/imaginary part of a plain or defined complex value) x 8 register classes (GP 8/16/32/64, XMM, YMM, ZMM, K) x {load, store} x {virtual, physical register} through the real Context.Load/Store; non-trivial = an instruction was chosen; distinct by (direction, kind, class, physical)"
	o.Plan.Stats["rows_in_zmov"] = len(rows)
	o.Plan.Stats["pairs"] = len(cases)
	o.Plan.Stats["exhaustive_values"] = true
}
