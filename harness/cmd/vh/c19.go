package main

import (
	"bufio"
	"fmt"
	"github.com/mmcloughlin/avo/build"
	"github.com/mmcloughlin/avo/buildtags"
	"go/ast"
	"go/constant"
	"go/importer"
	"go/parser"
	"go/token"
	"go/types"
	"os"
	"path/filepath"
	"reflect"
	"runtime"
	"strconv"
	"strings"

	"github.com/mmcloughlin/avo/attr"
	"github.com/mmcloughlin/avo/ir"
	"github.com/mmcloughlin/avo/operand"
	"github.com/mmcloughlin/avo/pass"
	"github.com/mmcloughlin/avo/printer"
)

func init() { props["C19"] = c19 }

// translateAttrNames reads attr/ztextflag.go syntactically: constant values and the attrname map.
func translateAttrNames(repo string) (vals map[string]uint64, order []string, names map[string]string) {
	fset := token.NewFileSet()
	f, err := parser.ParseFile(fset, filepath.Join(repo, "attr", "ztextflag.go"), nil, 0)
	if err != nil {
		die(err)
	}
	vals = map[string]uint64{}
	names = map[string]string{}
	var constNames []string
	defer func() {
		// the constants' values as the compiler computes them (literals, iota expressions, ...): the package is
		// type-checked and the constant values read from go/types
		var files []*ast.File
		ms, _ := filepath.Glob(filepath.Join(repo, "attr", "*.go"))
		for _, m := range ms {
			if strings.HasSuffix(m, "_test.go") || strings.HasPrefix(filepath.Base(m), "make_") {
				continue
			}
			pf, err := parser.ParseFile(fset, m, nil, 0)
			if err != nil {
				die(err)
			}
			files = append(files, pf)
		}
		pkg, err := (&types.Config{Importer: importer.ForCompiler(fset, "source", nil), Error: func(error) {}}).Check("attr", fset, files, nil)
		if pkg == nil {
			die(err)
		}
		for _, n := range constNames {
			if cst, ok := pkg.Scope().Lookup(n).(*types.Const); ok {
				if v, exact := constant.Uint64Val(cst.Val()); exact {
					vals[n] = v
				}
			}
		}
	}()
	for _, d := range f.Decls {
		gd, ok := d.(*ast.GenDecl)
		if !ok {
			continue
		}
		for _, sp := range gd.Specs {
			vs, ok := sp.(*ast.ValueSpec)
			if !ok {
				continue
			}
			if gd.Tok == token.CONST {
				for _, n := range vs.Names {
					constNames = append(constNames, n.Name)
				}
			}
			if gd.Tok == token.VAR && len(vs.Names) == 1 && vs.Names[0].Name == "attrname" {
				cl := vs.Values[0].(*ast.CompositeLit)
				for _, e := range cl.Elts {
					kv := e.(*ast.KeyValueExpr)
					k := kv.Key.(*ast.Ident).Name
					v, err := strconv.Unquote(kv.Value.(*ast.BasicLit).Value)
					if err != nil {
						die(err)
					}
					order = append(order, k)
					names[k] = v
				}
			}
		}
	}
	return
}

func translateTextflagH() [][2]string {
	path := filepath.Join(runtime.GOROOT(), "src", "runtime", "textflag.h")
	fh, err := os.Open(path)
	if err != nil {
		die(err)
	}
	defer fh.Close()
	var out [][2]string
	sc := bufio.NewScanner(fh)
	for sc.Scan() {
		fs := strings.Fields(sc.Text())
		if len(fs) >= 3 && fs[0] == "#define" {
			out = append(out, [2]string{fs[1], fs[2]})
		}
	}
	return out
}

func c19(c *Ctx) {
	o := c.Out
	vals, order, names := translateAttrNames(c.Repo)
	var nameRows []string
	for _, k := range order {
		v, ok := vals[k]
		if !ok {
			die(fmt.Errorf("attrname key %s has no constant", k))
		}
		nameRows = append(nameRows, cPair(cN(v), cStr(names[k])))
	}
	var hdrRows []string
	for _, d := range translateTextflagH() {
		v, err := strconv.ParseUint(d[1], 0, 64)
		if err != nil {
			continue
		}
		hdrRows = append(hdrRows, cPair(cStr(d[0]), cN(v)))
	}
	tab := coqHeader + "From Avo Require Import Model.Attr.\nOpen Scope N_scope.\n" +
		"(* translated from attr/ztextflag.go (attrname) and $GOROOT/src/runtime/textflag.h *)\n" +
		"Definition names : names_t := " + cList(nameRows) + ".\n" +
		"Definition header : header_t := " + cList(hdrRows) + ".\n"
	o.WriteFile("Tab.v", tab)
	o.Stage("Tab.v")

	// the flag testers (Attribute.NOSPLIT() etc.): each reports exactly the bit of the macro of its name
	for _, d := range translateTextflagH() {
		v, err := strconv.ParseUint(d[1], 0, 64)
		if err != nil {
			continue
		}
		m := reflect.ValueOf(attr.Attribute(0)).MethodByName(d[0])
		if !m.IsValid() {
			continue
		}
		for _, a := range []uint64{0, v, 0xffff, 0xffff &^ v, v | 1, v | 0x8000, 1, 2, 4, 8, 16, 32, 64, 128, 256, 512, 1024, 2048} {
			got := reflect.ValueOf(attr.Attribute(a)).MethodByName(d[0]).Call(nil)[0].Bool()
			if got != (a&v != 0) {
				o.Plan.GoViolations = append(o.Plan.GoViolations, GoViolation{Key: "attr:tester", Desc: fmt.Sprintf("Attribute(%d).%s() = %v but textflag.h defines %s as %d", a, d[0], got, d[0], v), Replay: map[string]any{"value": a, "flag": d[0]}})
				break
			}
		}
	}
	// all 65536 values through the real Attribute.Asm / ContainsTextFlags, 16 shards
	var shardFiles []string
	var finalImports []string
	for k := 0; k < 16; k++ {
		var rows []string
		for a := k * 4096; a < (k+1)*4096; a++ {
			at := attr.Attribute(a)
			rows = append(rows, cPair(cStr(at.Asm()), cBool(at.ContainsTextFlags())))
		}
		name := fmt.Sprintf("Shard%02d", k)
		var b strings.Builder
		b.WriteString(coqHeader + "From Avo Require Import Model.Attr Proofs.AttrProofs.\nFrom AvoGen Require Import Tab.\nOpen Scope N_scope.\n")
		fmt.Fprintf(&b, "Definition impl : list (string * bool) := %s.\n", cListNL(rows))
		fmt.Fprintf(&b, "Definition R_mismatch := Eval vm_compute in attr_mismatches names %d impl.\nPrint R_mismatch.\n", k*4096)
		fmt.Fprintf(&b, "Definition R_violation := Eval vm_compute in attr_impl_violations header %d impl.\nPrint R_violation.\n", k*4096)
		fmt.Fprintf(&b, "Definition R_bad := Eval vm_compute in attr_chunk_bad names header %d 4096.\nPrint R_bad.\n", k*4096)
		fmt.Fprintf(&b, "Lemma chunk_ok : attr_chunk_ok names header (%d * 4096) 4096 = true.\nProof. apply attr_chunk_bad_nil. vm_cast_no_check (eq_refl (@nil N)). Qed.\nPrint Assumptions chunk_ok.\n", k)
		o.WriteFile(name+".v", b.String())
		shardFiles = append(shardFiles, name+".v")
		finalImports = append(finalImports, name)
		o.ExpectEmpty(name+".v", "R_mismatch", "mismatch", "model attr_asm/contains_text_flags vs Attribute.Asm()/ContainsTextFlags()")
		o.ExpectEmpty(name+".v", "R_violation", "violation", "flag text printed by avo does not evaluate to the attribute value / header rule")
		o.ExpectEmpty(name+".v", "R_bad", "violation", "model value check fails (attr_value_ok)")
		o.Oblig(name + ".chunk_ok")
	}

	// printed directive lines through the real printer + include pass on random files
	rng := NewRNG(c.Seed)
	nLines := 1500
	nFiles := 300
	if c.Thorough() {
		nLines = 12000
		nFiles = 3000
	}
	cfg := printer.Config{Name: "avo", Pkg: "p"}
	var lineRows []string
	boundary := []int{0, 1, 2, 4, 6, 128, 4096, 8192, 16384, 32768, 65535, 0x0fff, 0xf000, 128 | 4, 4096 | 512}
	distinct := map[int]bool{}
	for i := 0; i < nLines; i++ {
		var a int
		if i < len(boundary) {
			a = boundary[i]
		} else if rng.Chance(50) {
			a = rng.Intn(65536)
		} else { // sparse values: few bits
			a = 0
			for j := 0; j < 1+rng.Intn(3); j++ {
				a |= 1 << rng.Intn(16)
			}
		}
		distinct[a] = true
		frame := rng.Intn(3) * 8 * rng.Intn(5)
		f := ir.NewFile()
		fn := ir.NewFunction("f")
		fn.Attributes = attr.Attribute(a)
		fn.LocalSize = frame
		f.AddSection(fn)
		g := ir.NewStaticGlobal("g")
		g.Attributes = attr.Attribute(a)
		gsz := 8 * (1 + rng.Intn(4))
		g.Size = gsz
		f.AddSection(g)
		out, err := printer.NewGoAsm(cfg).Print(f)
		if err != nil {
			die(err)
		}
		var tl, gl string
		for _, ln := range strings.Split(string(out), "\n") {
			if strings.HasPrefix(ln, "TEXT ") {
				tl = ln
			}
			if strings.HasPrefix(ln, "GLOBL ") {
				gl = ln
			}
		}
		lineRows = append(lineRows, fmt.Sprintf("(%d, %d, 0, %s, %d, %s)", a, frame, cStr(tl), gsz, cStr(gl)))
		o.AddCase(Case{Key: fmt.Sprintf("line:attr=%d", a), Desc: fmt.Sprintf("attr=%d TEXT=%q GLOBL=%q", a, tl, gl), Input: map[string]any{"attr": a, "frame": frame, "globl_size": gsz}, Nontrivial: a != 0})
	}
	nLineCases := len(lineRows)

	// the same through the builder and the whole compile pipeline, with frames of every size: the directive
	// printed for a function evaluates to the flags that were requested for it
	{
		macros := map[string]uint64{}
		for _, d := range translateTextflagH() {
			if v, err := strconv.ParseUint(d[1], 0, 64); err == nil {
				macros[d[0]] = v
			}
		}
		frames := []int{0, 8, 24, 64, 120, 128, 136, 200, 256, 512, 792, 800, 4096}
		flagSets := []attr.Attribute{0, attr.NOSPLIT, attr.NOSPLIT | attr.NOPTR, attr.DUPOK, attr.NOSPLIT | attr.DUPOK | attr.WRAPPER, attr.NEEDCTXT, attr.NOSPLIT | 128, attr.NOFRAME | attr.NOSPLIT, attr.TOPFRAME | attr.NOSPLIT}
		nbad := 0
		for fi, fr := range frames {
			for ai, a := range flagSets {
				if a&attr.NOFRAME != 0 && fr != 0 {
					continue
				}
				ctx := build.NewContext()
				ctx.Function("f")
				ctx.Attributes(a)
				ctx.SignatureExpr("func(x uint64) uint64")
				v := ctx.GP64()
				ctx.Load(ctx.Param("x"), v)
				for rest := fr; rest > 0; {
					sz := 8 * (1 + (fi+ai)%5)
					if sz > rest {
						sz = rest
					}
					ctx.MOVQ(v, ctx.AllocLocal(sz))
					rest -= sz
				}
				ctx.Store(v, ctx.ReturnIndex(0))
				ctx.RET()
				f, err := ctx.Result()
				if err == nil {
					err = pass.Compile.Execute(f)
				}
				var out []byte
				if err == nil {
					out, err = printer.NewGoAsm(cfg).Print(f)
				}
				idx := o.AddCase(Case{Key: fmt.Sprintf("compiled:attr=%d:frame=%d", uint64(a), fr), Desc: fmt.Sprintf("function with flags %d and %d bytes of locals, compiled and printed", uint64(a), fr), Input: map[string]any{"attr": uint64(a), "locals": fr}, Nontrivial: true})
				if err != nil {
					o.Plan.GoViolations = append(o.Plan.GoViolations, GoViolation{Key: "attr:compiled-flags", Desc: fmt.Sprintf("case %d: flags %d with %d bytes of locals: %v", idx, uint64(a), fr, err), Replay: map[string]any{"attr": uint64(a), "locals": fr}})
					continue
				}
				for _, ln := range strings.Split(string(out), "\n") {
					if !strings.HasPrefix(ln, "TEXT ") {
						continue
					}
					got, okf := uint64(0), true
					if fm := textFlagsRe.FindStringSubmatch(ln); fm != nil && fm[1] != "" {
						got, okf = evalFlags(fm[1], macros)
					}
					if (!okf || got != uint64(a)) && nbad < 6 {
						nbad++
						o.Plan.GoViolations = append(o.Plan.GoViolations, GoViolation{Key: "attr:compiled-flags", Desc: fmt.Sprintf("case %d: a function requested with flags %d and %d bytes of locals is declared %q after pass.Compile, which evaluates to %d", idx, uint64(a), fr, ln, got), Replay: map[string]any{"attr": uint64(a), "locals": fr, "text": string(out)}})
					}
				}
			}
		}
	}

	var inclRows []string
	nInclBad := 0
	inclShared := printer.NewGoAsm(cfg)
	inclNeeded := 0
	for i := 0; i < nFiles; i++ {
		f := ir.NewFile()
		var inc []string
		for j := 0; j < rng.Intn(3); j++ {
			inc = append(inc, Pick(rng, []string{"textflag.h", "funcdata.h", "go_asm.h", "textflag.h ", "asm/textflag.h", "../include/textflag.h", "mytextflag.h", "textflag.h.in", "TEXTFLAG.H"}))
		}
		f.Includes = append([]string(nil), inc...)
		var attrs []uint64
		ns := rng.Intn(5)
		for j := 0; j < ns; j++ {
			var a int
			switch rng.Intn(4) {
			case 0:
				a = 0
			case 1:
				a = 1 << rng.Intn(16)
			case 2:
				a = []int{128, 4096, 8192, 16384, 32768, 128 | 4096}[rng.Intn(6)] // unnamed bits only
			default:
				a = rng.Intn(65536)
			}
			attrs = append(attrs, uint64(a))
			if rng.Bool() {
				fn := ir.NewFunction(fmt.Sprintf("f%d", j))
				fn.Attributes = attr.Attribute(a)
				f.AddSection(fn)
			} else {
				g := ir.NewGlobal(operand.NewStaticSymbol(fmt.Sprintf("g%d", j)))
				g.Attributes = attr.Attribute(a)
				f.AddSection(g)
			}
		}
		if err := pass.IncludeTextFlagHeader(f); err != nil {
			die(err)
		}
		var incS, outS []string
		for _, s := range inc {
			incS = append(incS, cStr(s))
		}
		for _, s := range f.Includes {
			outS = append(outS, cStr(s))
		}
		if len(f.Includes) != len(inc) {
			inclNeeded++
		}
		inclRows = append(inclRows, fmt.Sprintf("(%s, %s, %s)", cList(incS), cNList(attrs), cList(outS)))
		// the printed text, printed twice: each print carries an #include line per entry of the list the pass
		// left, in that order, and textflag.h among them whenever a directive names a flag; printing does not
		// change the file's list
		{
			wantIncl := append([]string(nil), f.Includes...)
			for round := 1; round <= 3 && nInclBad < 5; round++ {
				pr := printer.NewGoAsm(cfg)
				if round == 3 { // by a printer that has just refused another file
					bad := ir.NewFile()
					bad.Constraints = buildtags.Constraints{{{"amd64\npurego"}}}
					pr = inclShared
					pr.Print(bad)
				}
				out, err := pr.Print(f)
				if err != nil {
					nInclBad++
					o.Plan.GoViolations = append(o.Plan.GoViolations, GoViolation{Key: "include:printed", Desc: fmt.Sprintf("includes=%q attrs=%v: print number %d of the file fails: %v (number 3 is by a printer that has just refused another file)", inc, attrs, round, err), Replay: map[string]any{"includes": inc, "attrs": attrs, "print": round}})
					break
				}
				var got []string
				usesMacro := false
				for _, ln := range strings.Split(string(out), "\n") {
					if strings.HasPrefix(ln, "#include \"") {
						got = append(got, strings.TrimSuffix(strings.TrimPrefix(ln, "#include \""), "\""))
					}
					if fm := textFlagsRe.FindStringSubmatch(ln); fm != nil && strings.ContainsAny(fm[1], "ABCDEFGHIJKLMNOPQRSTUVWXYZ") {
						usesMacro = true
					}
					if fm := globlFlagsRe.FindStringSubmatch(ln); fm != nil && strings.ContainsAny(fm[1], "ABCDEFGHIJKLMNOPQRSTUVWXYZ") {
						usesMacro = true
					}
				}
				hasTF := false
				for _, g := range got {
					hasTF = hasTF || g == "textflag.h"
				}
				if fmt.Sprint(got) != fmt.Sprint(wantIncl) || fmt.Sprint(f.Includes) != fmt.Sprint(wantIncl) || (usesMacro && !hasTF) {
					nInclBad++
					o.Plan.GoViolations = append(o.Plan.GoViolations, GoViolation{Key: "include:printed", Desc: fmt.Sprintf("includes=%q attrs=%v: print number %d of the file has the include lines %q (the pass left %q; the file's list is now %q; a directive names a flag: %v)", inc, attrs, round, got, wantIncl, f.Includes, usesMacro), Replay: map[string]any{"includes": inc, "attrs": attrs, "print": round, "text": string(out)}})
				}
			}
		}
		o.AddCase(Case{Key: "include-pass", Desc: fmt.Sprintf("includes=%q attrs=%v -> %q", inc, attrs, f.Includes), Input: map[string]any{"includes": inc, "attrs": attrs}, Nontrivial: len(attrs) > 0})
	}
	var b strings.Builder
	b.WriteString(coqHeader + "From Avo Require Import Model.Attr.\nFrom AvoGen Require Import Tab.\nOpen Scope N_scope.\n")
	fmt.Fprintf(&b, "Definition lines : list line_case := %s.\n", cListNL(lineRows))
	b.WriteString("Definition R_line_mismatch := Eval vm_compute in indices_where (fun c => negb (line_agree names c)) lines.\nPrint R_line_mismatch.\n")
	b.WriteString("Definition R_line_violation := Eval vm_compute in indices_where (fun c => negb (line_impl_ok header c)) lines.\nPrint R_line_violation.\n")
	fmt.Fprintf(&b, "Definition incls : list incl_case := %s.\n", cListNL(inclRows))
	fmt.Fprintf(&b, "Definition R_incl_mismatch := Eval vm_compute in map (N.add %d) (indices_where (fun c => negb (incl_agree names c)) incls).\nPrint R_incl_mismatch.\n", nLineCases)
	fmt.Fprintf(&b, "Definition R_incl_violation := Eval vm_compute in map (N.add %d) (indices_where (fun c => negb (incl_impl_ok names c)) incls).\nPrint R_incl_violation.\n", nLineCases)
	o.WriteFile("Cases.v", b.String())
	o.ExpectEmpty("Cases.v", "R_line_mismatch", "mismatch", "model TEXT/GLOBL line vs printer.NewGoAsm output")
	o.ExpectEmpty("Cases.v", "R_line_violation", "violation", "flag field of a printed TEXT/GLOBL line does not evaluate to the attribute")
	o.ExpectEmpty("Cases.v", "R_incl_mismatch", "mismatch", "model include_textflag vs pass.IncludeTextFlagHeader")
	o.ExpectEmpty("Cases.v", "R_incl_violation", "violation", "a section's flags use a macro but textflag.h is not included (or the pass changed other includes)")
	o.Stage(append(shardFiles, "Cases.v")...)

	// final: instantiate the property theorems on the translated tables
	var fb strings.Builder
	fb.WriteString(coqHeader + "From Avo Require Import Model.Attr Props.C19.\nFrom AvoGen Require Import Tab")
	for _, n := range finalImports {
		fb.WriteString(" " + n)
	}
	fb.WriteString(".\nOpen Scope N_scope.\n")
	fb.WriteString("Lemma table_ok : attr_table_ok names header.\nProof.\n  intros k Hk. assert (Hk' : In k (Nrange 16)) by (apply Nrange_In; exact Hk). clear Hk. vm_compute in Hk'. rename Hk' into Hk.\n")
	for _, n := range finalImports {
		fb.WriteString("  destruct Hk as [<-|Hk]; [exact " + n + ".chunk_ok|].\n")
	}
	fb.WriteString("  destruct Hk.\nQed.\nPrint Assumptions table_ok.\n")
	fb.WriteString("Theorem C19_attr_value_exact : forall a, a < 65536 -> eval_flags header (attr_asm names a) = Some a /\\ eval_text_field header (text_flag_field names a) = Some a /\\ eval_text_field header (directive_flag_field (text_line names \"f\" a 0 0)) = Some a /\\ eval_text_field header (directive_flag_field (globl_line names \"g<>\" a 8)) = Some a.\nProof. exact (attr_value_exact names header table_ok). Qed.\nPrint Assumptions C19_attr_value_exact.\n")
	fb.WriteString("Theorem C19_header_iff_name_used : forall a, a < 65536 -> uses_macro (attr_asm names a) = contains_text_flags names a.\nProof. exact (header_iff_name_used names header table_ok). Qed.\nPrint Assumptions C19_header_iff_name_used.\n")
	fb.WriteString("Definition C19_include_pass_sufficient := include_pass_sufficient names header table_ok.\nPrint Assumptions C19_include_pass_sufficient.\n")
	o.WriteFile("Final.v", fb.String())
	o.Stage("Final.v")
	o.Oblig("Final.table_ok", "Final.C19_attr_value_exact", "Final.C19_header_iff_name_used", "Final.C19_include_pass_sufficient")

	o.Plan.Rule = "all 65536 attribute values through Attribute.Asm()/ContainsTextFlags() (exhaustive); sampled values through the real printer's TEXT/GLOBL lines; random files through pass.IncludeTextFlagHeader. A case is non-trivial when the attribute is non-zero (line cases) or the file has at least one section (include cases); distinct = distinct attribute values / distinct (includes, attrs) inputs"
	o.Plan.Stats["asm_values"] = 65536
	o.Plan.Stats["extra_evaluations"] = 65536
	o.Plan.Stats["extra_distinct_nontrivial"] = 65535
	o.Plan.Stats["exhaustive_values"] = true
	o.Plan.Stats["line_cases"] = nLineCases
	o.Plan.Stats["line_distinct_attrs"] = len(distinct)
	o.Plan.Stats["include_cases"] = nFiles
	o.Plan.Stats["include_cases_header_added"] = inclNeeded
	o.Plan.Stats["names_rows"] = len(nameRows)
	o.Plan.Stats["header_rows"] = len(hdrRows)
	o.Plan.Samples = []any{
		map[string]any{"attr": 4236, "asm": attr.Attribute(4236).Asm()},
		map[string]any{"attr": 0, "asm": attr.Attribute(0).Asm()},
		map[string]any{"attr": 65535, "asm": attr.Attribute(65535).Asm()},
	}
}
