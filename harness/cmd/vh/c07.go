package main

import (
	"encoding/json"
	"fmt"
	"github.com/mmcloughlin/avo/build"
	"github.com/mmcloughlin/avo/ir"
	"github.com/mmcloughlin/avo/operand"
	"go/ast"
	"go/parser"
	"go/token"
	"go/types"
	"os"
	"os/exec"
	"path/filepath"
	"strings"

	"github.com/mmcloughlin/avo/gotypes"
	"github.com/mmcloughlin/avo/reg"
)

func init() { props["C07"] = c07 }

type gty struct {
	Kind   string // basic name | ptr | slice | arr | struct | named | word | iface
	Basic  string
	Elem   *gty
	N      int64
	Fields []gfield
	Emb    bool // as a field type: the field is embedded
}
type gfield struct {
	Name string
	T    *gty // T.Emb: the field is embedded (written as its type alone and named after it)
}

var basicKinds = []struct {
	Go, Coq string
	K       types.BasicKind
}{
	{"bool", "KBool", types.Bool}, {"int8", "KInt8", types.Int8}, {"int16", "KInt16", types.Int16}, {"int32", "KInt32", types.Int32},
	{"int64", "KInt64", types.Int64}, {"int", "KInt", types.Int}, {"uint8", "KUint8", types.Uint8}, {"uint16", "KUint16", types.Uint16},
	{"uint32", "KUint32", types.Uint32}, {"uint64", "KUint64", types.Uint64}, {"uint", "KUint", types.Uint}, {"uintptr", "KUintptr", types.Uintptr},
	{"float32", "KFloat32", types.Float32}, {"float64", "KFloat64", types.Float64}, {"complex64", "KComplex64", types.Complex64},
	{"complex128", "KComplex128", types.Complex128}, {"string", "KString", types.String}, {"unsafe.Pointer", "KUnsafePointer", types.UnsafePointer},
}

func coqKindOf(b *types.Basic) string {
	for _, k := range basicKinds {
		if k.K == b.Kind() {
			return k.Coq
		}
	}
	return "KBool"
}

func genType(r *RNG, depth int) *gty {
	c := r.Intn(100)
	if depth <= 0 {
		c = r.Intn(55)
	}
	switch {
	case c < 55:
		if r.Chance(4) {
			return &gty{Kind: "basic", Basic: "unsafe.Pointer"} // the signature is then parsed in a package that imports unsafe
		}
		return &gty{Kind: "basic", Basic: basicKinds[r.Intn(len(basicKinds)-1)].Go}
	case c < 62:
		return &gty{Kind: "ptr", Elem: genType(r, depth-1)}
	case c < 68:
		return &gty{Kind: "slice", Elem: genType(r, depth-1)}
	case c < 80:
		return &gty{Kind: "arr", N: int64([]int{0, 1, 2, 3, 5}[r.Intn(5)]), Elem: genType(r, depth-1)}
	case c < 94:
		n := r.Intn(5)
		t := &gty{Kind: "struct"}
		for i := 0; i < n; i++ {
			name := fmt.Sprintf("f%d", i)
			if r.Chance(15) {
				name = "_"
			}
			ft := genType(r, depth-1)
			if r.Chance(12) {
				ft = &gty{Kind: "struct"} // zero-size field, possibly trailing
			}
			t.Fields = append(t.Fields, gfield{name, ft})
		}
		return t
	case c < 96:
		return &gty{Kind: "word"}
	case c < 98:
		return &gty{Kind: "iface"}
	default:
		// a defined type: its layout and its parts are those of the underlying type
		u := genType(r, depth-1)
		if r.Chance(50) {
			u = &gty{Kind: "basic", Basic: Pick(r, []string{"complex128", "complex64", "string", "uint16", "int64"})}
		}
		return &gty{Kind: "named", Elem: u}
	}
}

// named types get a name when the signature's source is written
var namedSrc map[*gty]string
var namedDecls []string

func (t *gty) Src() string {
	switch t.Kind {
	case "basic":
		return t.Basic
	case "ptr":
		return "*" + t.Elem.Src()
	case "slice":
		return "[]" + t.Elem.Src()
	case "arr":
		return fmt.Sprintf("[%d]%s", t.N, t.Elem.Src())
	case "struct":
		var fs []string
		for i := range t.Fields {
			f := &t.Fields[i]
			if f.T.Emb {
				ts := f.T.Src()
				f.Name = strings.TrimPrefix(ts, "*")
				fs = append(fs, ts)
				continue
			}
			fs = append(fs, f.Name+" "+f.T.Src())
		}
		return "struct{" + strings.Join(fs, "; ") + "}"
	case "word":
		return "func()"
	case "iface":
		return "interface{}"
	case "named":
		if n, ok := namedSrc[t]; ok {
			return n
		}
		inner := t.Elem.Src()
		n := fmt.Sprintf("T%d", len(namedDecls))
		namedSrc[t] = n
		namedDecls = append(namedDecls, "type "+n+" "+inner)
		return n
	}
	return "int"
}

// SrcPlain renders the type with every defined type replaced by its underlying type (same layout)
func (t *gty) SrcPlain() string {
	switch t.Kind {
	case "basic":
		return t.Basic
	case "ptr":
		return "*" + t.Elem.SrcPlain()
	case "slice":
		return "[]" + t.Elem.SrcPlain()
	case "arr":
		return fmt.Sprintf("[%d]%s", t.N, t.Elem.SrcPlain())
	case "struct":
		var fs []string
		for _, f := range t.Fields {
			fs = append(fs, f.Name+" "+f.T.SrcPlain())
		}
		return "struct{" + strings.Join(fs, "; ") + "}"
	case "named":
		return t.Elem.SrcPlain()
	}
	return t.Src()
}
func (t *gty) Coq() string {
	switch t.Kind {
	case "basic":
		for _, k := range basicKinds {
			if k.Go == t.Basic {
				return "(TBasic " + k.Coq + ")"
			}
		}
	case "ptr":
		return "(TPtr " + t.Elem.Coq() + ")"
	case "slice":
		return "(TSlice " + t.Elem.Coq() + ")"
	case "arr":
		return fmt.Sprintf("(TArr %d %s)", t.N, t.Elem.Coq())
	case "struct":
		var fs []string
		for _, f := range t.Fields {
			fs = append(fs, "("+cStr(f.Name)+", "+f.T.Coq()+")")
		}
		return "(TStruct " + cList(fs) + ")"
	case "word":
		return "TWord"
	case "iface":
		return "TIface"
	case "named":
		return "(TNamed " + t.Elem.Coq() + ")"
	}
	return "TWord"
}

type pstep struct {
	Coq, Desc string
	Apply     func(gotypes.Component) gotypes.Component
}

func genPath(r *RNG, t *gty) []pstep {
	var p []pstep
	cur := t
	for len(p) < 6 {
		if r.Chance(7) { // a step that does not fit the type
			switch r.Intn(6) {
			case 0:
				p = append(p, pstep{"SBase", "Base", func(c gotypes.Component) gotypes.Component { return c.Base() }})
			case 1:
				p = append(p, pstep{"SCap", "Cap", func(c gotypes.Component) gotypes.Component { return c.Cap() }})
			case 2:
				p = append(p, pstep{"SImag", "Imag", func(c gotypes.Component) gotypes.Component { return c.Imag() }})
			case 3:
				p = append(p, pstep{"(SIndex 0)", "Index(0)", func(c gotypes.Component) gotypes.Component { return c.Index(0) }})
			case 4:
				p = append(p, pstep{"(SField \"nope\")", "Field(nope)", func(c gotypes.Component) gotypes.Component { return c.Field("nope") }})
			default:
				p = append(p, pstep{"(SDeref 256)", "Deref(RAX)", func(c gotypes.Component) gotypes.Component { return c.Dereference(reg.RAX) }})
			}
			return p
		}
		for cur.Kind == "named" { // steps look through defined types
			cur = cur.Elem
		}
		switch cur.Kind {
		case "struct":
			if len(cur.Fields) == 0 {
				return p
			}
			f := cur.Fields[r.Intn(len(cur.Fields))]
			name := f.Name
			p = append(p, pstep{"(SField " + cStr(name) + ")", "Field(" + name + ")", func(c gotypes.Component) gotypes.Component { return c.Field(name) }})
			if name == "_" { // Field("_") finds the first blank field
				for _, g := range cur.Fields {
					if g.Name == "_" {
						f = g
						break
					}
				}
			}
			cur = f.T
		case "arr":
			i := int(cur.N) - 1
			if cur.N > 0 {
				i = r.Intn(int(cur.N))
			}
			if r.Chance(12) {
				i = []int{-1, int(cur.N), int(cur.N) + 3, -7}[r.Intn(4)]
			}
			ii := i
			p = append(p, pstep{fmt.Sprintf("(SIndex %s)", cZ(int64(ii))), fmt.Sprintf("Index(%d)", ii), func(c gotypes.Component) gotypes.Component { return c.Index(ii) }})
			cur = cur.Elem
		case "slice":
			switch r.Intn(3) {
			case 0:
				p = append(p, pstep{"SBase", "Base", func(c gotypes.Component) gotypes.Component { return c.Base() }})
			case 1:
				p = append(p, pstep{"SLen", "Len", func(c gotypes.Component) gotypes.Component { return c.Len() }})
			default:
				p = append(p, pstep{"SCap", "Cap", func(c gotypes.Component) gotypes.Component { return c.Cap() }})
			}
			return p
		case "ptr":
			if r.Chance(30) {
				return p
			}
			p = append(p, pstep{"(SDeref 256)", "Deref(RAX)", func(c gotypes.Component) gotypes.Component { return c.Dereference(reg.RAX) }})
			cur = cur.Elem
		case "basic":
			switch cur.Basic {
			case "string":
				if r.Bool() {
					p = append(p, pstep{"SBase", "Base", func(c gotypes.Component) gotypes.Component { return c.Base() }})
				} else {
					p = append(p, pstep{"SLen", "Len", func(c gotypes.Component) gotypes.Component { return c.Len() }})
				}
			case "complex64", "complex128":
				if r.Bool() {
					p = append(p, pstep{"SReal", "Real", func(c gotypes.Component) gotypes.Component { return c.Real() }})
				} else {
					p = append(p, pstep{"SImag", "Imag", func(c gotypes.Component) gotypes.Component { return c.Imag() }})
				}
			}
			return p
		default:
			return p
		}
	}
	return p
}

func everyStep() []pstep {
	return []pstep{
		{"SBase", "Base", func(c gotypes.Component) gotypes.Component { return c.Base() }},
		{"SLen", "Len", func(c gotypes.Component) gotypes.Component { return c.Len() }},
		{"SCap", "Cap", func(c gotypes.Component) gotypes.Component { return c.Cap() }},
		{"SReal", "Real", func(c gotypes.Component) gotypes.Component { return c.Real() }},
		{"SImag", "Imag", func(c gotypes.Component) gotypes.Component { return c.Imag() }},
		{"(SIndex 0)", "Index(0)", func(c gotypes.Component) gotypes.Component { return c.Index(0) }},
		{"(SIndex 1)", "Index(1)", func(c gotypes.Component) gotypes.Component { return c.Index(1) }},
		{"(SField \"nope\")", "Field(nope)", func(c gotypes.Component) gotypes.Component { return c.Field("nope") }},
		{"(SDeref 256)", "Deref(RAX)", func(c gotypes.Component) gotypes.Component { return c.Dereference(reg.RAX) }},
	}
}

func resolveObs(comp func() gotypes.Component, path []pstep) (s string) {
	defer func() {
		if recover() != nil {
			s = "RPanic"
		}
	}()
	c := comp()
	for _, st := range path {
		c = st.Apply(c)
	}
	b, err := c.Resolve()
	if err != nil {
		return "RErr"
	}
	base := "BFP"
	if b.Addr.Base != reg.FramePointer {
		base = fmt.Sprintf("(BReg %d)", uint64(b.Addr.Base.ID()))
	}
	if b.Addr.Index != nil {
		return "RPanic"
	}
	return fmt.Sprintf("(ROk %s %s %s %s)", cStr(b.Addr.Symbol.Name), cZ(int64(b.Addr.Disp)), base, coqKindOf(b.Type))
}

// fieldNames lists every field name occurring anywhere in t.
func fieldNames(t *gty) []string {
	if t == nil {
		return nil
	}
	var xs []string
	for _, f := range t.Fields {
		xs = append(xs, f.Name)
		xs = append(xs, fieldNames(f.T)...)
	}
	return append(xs, fieldNames(t.Elem)...)
}

// resolveHeld is resolveObs with the last step taken from a held parent, followed by every sibling access on
// that parent, one at a time; it returns the first observation that differs from the plain one (or the plain one).
func resolveHeld(comp func() gotypes.Component, path []pstep, sibs []pstep) (string, string) {
	plain := resolveObs(comp, path)
	for _, sib := range sibs {
		got := func() (s string) {
			defer func() {
				if recover() != nil {
					s = "RPanic"
				}
			}()
			parent := comp()
			for _, st := range path[:len(path)-1] {
				parent = st.Apply(parent)
			}
			first := path[len(path)-1].Apply(parent)
			func() {
				defer func() { recover() }()
				sib.Apply(parent)
			}()
			return resolveObs(func() gotypes.Component { return first }, nil)
		}()
		if got != plain {
			return got, sib.Desc
		}
	}
	return plain, ""
}

func c07(c *Ctx) {
	o := c.Out
	defer derefBuildCheck(c)
	rng := NewRNG(c.Seed + 700)
	n := 250
	if c.Thorough() {
		n = 5000
	}
	var rows []string
	var mirror []string // struct sources for the compiler cross-check
	var mirrorCoq []string
	npaths, nerr := 0, 0
	nheld, nheldBad := 0, 0
	for j := 0; j < n; j++ {
		np, nr := rng.Intn(5), rng.Intn(4)
		type pv struct {
			name string
			t    *gty
		}
		var ps, rs []pv
		for i := 0; i < np; i++ {
			name := fmt.Sprintf("p%d", i)
			if rng.Chance(15) {
				name = ""
			} else if rng.Chance(8) {
				name = "_"
			}
			ps = append(ps, pv{name, genType(rng, 3)})
		}
		for i := 0; i < nr; i++ {
			name := fmt.Sprintf("r%d", i)
			if rng.Chance(50) {
				name = ""
			}
			rs = append(rs, pv{name, genType(rng, 2)})
		}
		// directed shapes first: only zero-size results, defined complex/string types and their parts
		bt := func(n string) *gty { return &gty{Kind: "basic", Basic: n} }
		corpus := [][2][]pv{
			{{{"flag", bt("uint8")}}, {{"done", &gty{Kind: "struct"}}}},
			{{{"n", bt("uint32")}}, {{"z", &gty{Kind: "arr", N: 0, Elem: bt("uint64")}}}},
			{{{"b", bt("bool")}, {"h", bt("uint16")}}, {{"a", &gty{Kind: "struct"}}, {"e", &gty{Kind: "arr", N: 0, Elem: bt("int")}}}},
			{{{"p", &gty{Kind: "named", Elem: bt("complex128")}}, {"q", &gty{Kind: "named", Elem: bt("complex64")}}}, {{"r", &gty{Kind: "named", Elem: bt("string")}}}},
			{{{"b", bt("uint8")}, {"s", &gty{Kind: "named", Elem: &gty{Kind: "struct", Fields: []gfield{{"c", &gty{Kind: "named", Elem: bt("complex128")}}, {"t", &gty{Kind: "struct"}}}}}}}, {{"", &gty{Kind: "struct"}}}},
		}
		arr := func(n int64, e *gty) *gty { return &gty{Kind: "arr", N: n, Elem: e} }
		corpus = append(corpus,
			[2][]pv{{{"p", &gty{Kind: "struct", Fields: []gfield{{"Head", bt("uint32")}, {"_", arr(60, bt("uint8"))}, {"Tail", bt("uint64")}, {"_", arr(7, bt("uint8"))}, {"Flag", bt("uint8")}}}}}, {{"r", bt("uint64")}}},
			[2][]pv{{{"a", bt("uint8")}, {"q", &gty{Kind: "struct", Fields: []gfield{{"_", bt("uint64")}, {"X", bt("uint16")}, {"_", &gty{Kind: "struct"}}, {"Y", bt("uint32")}}}}}, nil},
			[2][]pv{{{"v", arr(2, &gty{Kind: "struct", Fields: []gfield{{"_", bt("uint8")}, {"W", bt("uint64")}}})}}, {{"", bt("bool")}}},
		)
		// deep values: components four to eight accessors away from the parameter
		firstDeep := len(corpus)
		st := func(fs ...gfield) *gty { return &gty{Kind: "struct", Fields: fs} }
		pt := st(gfield{"X", bt("uint64")}, gfield{"Y", bt("uint64")})
		corpus = append(corpus,
			[2][]pv{{{"s", st(gfield{"Hdr", st(gfield{"N", bt("uint32")}, gfield{"Pts", arr(3, pt)})}, gfield{"T", bt("uint8")})}}, {{"r", bt("uint64")}}},
			[2][]pv{{{"m", st(gfield{"Rows", arr(2, st(gfield{"Cell", st(gfield{"Lo", bt("uint8")}, gfield{"Hi", bt("uint64")})}, gfield{"Tag", bt("uint16")}))})}}, nil},
			[2][]pv{{{"d", arr(2, st(gfield{"A", arr(2, st(gfield{"B", arr(2, st(gfield{"C", arr(2, pt)}, gfield{"Z", bt("complex128")}))}, gfield{"S", bt("string")}))}, gfield{"L", &gty{Kind: "slice", Elem: bt("uint8")}}))}}, {{"o", st(gfield{"P", st(gfield{"Q", st(gfield{"R", pt})})})}}},
		)
		// the same signature text in two packages of the same name whose type of that name is laid out differently
		nm := func(t *gty) *gty { return &gty{Kind: "named", Elem: t} }
		corpus = append(corpus,
			[2][]pv{{{"e", nm(st(gfield{"N", bt("uint32")}, gfield{"V", arr(4, bt("uint64"))}))}}, {{"r", bt("uint64")}}},
			[2][]pv{{{"e", nm(st(gfield{"V", arr(4, bt("uint64"))}, gfield{"N", bt("uint32")}))}}, {{"r", bt("uint64")}}},
			[2][]pv{{{"e", nm(st(gfield{"B", bt("uint8")}, gfield{"V", arr(4, bt("uint64"))}, gfield{"N", bt("uint32")}))}}, {{"r", bt("uint64")}}},
		)
		// embedded fields: a field behind an embedded pointer is not part of the value; one inside an embedded
		// struct is reached through the embedded field's own name
		inner := nm(st(gfield{"X", bt("uint64")}, gfield{"Y", bt("uint64")}))
		inner2 := nm(st(gfield{"P", bt("uint32")}, gfield{"Q", bt("uint64")}))
		inner2.Emb = true
		corpus = append(corpus,
			[2][]pv{{{"s", st(gfield{"A", bt("uint64")}, gfield{"", &gty{Kind: "ptr", Elem: inner, Emb: true}})}, {"guard", bt("uint64")}}, {{"r", bt("uint64")}}},
			[2][]pv{{{"t", st(gfield{"A", bt("uint8")}, gfield{"", inner2}, gfield{"Z", bt("uint16")})}, {"guard", bt("uint64")}}, {{"r", bt("uint64")}}},
		)
		if j < len(corpus) {
			ps, rs = corpus[j][0], corpus[j][1]
		}
		// Go requires all-or-none named within one list
		norm := func(vs []pv, pre string) {
			anyNamed := false
			for _, v := range vs {
				if v.name != "" {
					anyNamed = true
				}
			}
			if anyNamed && rng.Chance(70) {
				for i := range vs {
					if vs[i].name == "" {
						vs[i].name = fmt.Sprintf("%s%d", pre, i)
					}
				}
			} else {
				for i := range vs {
					vs[i].name = ""
				}
			}
		}
		if j >= len(corpus) {
			norm(ps, "q")
			norm(rs, "s")
		}
		srcList := func(vs []pv) string {
			var xs []string
			for _, v := range vs {
				xs = append(xs, strings.TrimSpace(v.name+" "+v.t.Src()))
			}
			return strings.Join(xs, ", ")
		}
		namedSrc, namedDecls = map[*gty]string{}, nil
		expr := "func(" + srcList(ps) + ") (" + srcList(rs) + ")"
		var sig *gotypes.Signature
		var err error
		usesUnsafe := strings.Contains(expr, "unsafe.Pointer") || strings.Contains(strings.Join(namedDecls, ";"), "unsafe.Pointer")
		if usesUnsafe {
			// unsafe.Pointer cannot be spelled in a signature expression (imports are file-scoped): the signature
			// is built with the go/types API instead
			pkg := types.NewPackage("p", "p")
			mkTuple := func(vs []pv) *types.Tuple {
				var xs []*types.Var
				for _, v := range vs {
					xs = append(xs, types.NewVar(token.NoPos, pkg, v.name, v.t.GoType(pkg)))
				}
				return types.NewTuple(xs...)
			}
			sig = gotypes.NewSignature(pkg, types.NewSignatureType(nil, nil, nil, mkTuple(ps), mkTuple(rs), false))
			if len(namedDecls) > 0 {
				expr += "  where " + strings.Join(namedDecls, "; ")
			}
		} else if len(namedDecls) == 0 {
			sig, err = gotypes.ParseSignature(expr)
		} else {
			fset := token.NewFileSet()
			pf, perr := parser.ParseFile(fset, "p.go", "package p\n"+strings.Join(namedDecls, "\n")+"\n", 0)
			if perr != nil {
				die(perr)
			}
			pkg, cerr := (&types.Config{}).Check("p", fset, []*ast.File{pf}, nil)
			if cerr != nil {
				die(cerr)
			}
			sig, err = gotypes.ParseSignatureInPackage(pkg, expr)
			expr += "  where " + strings.Join(namedDecls, "; ")
		}
		if err != nil {
			die(fmt.Errorf("%s: %v", expr, err))
		}
		coqVars := func(vs []pv) string {
			var xs []string
			for _, v := range vs {
				xs = append(xs, "("+cStr(v.name)+", "+v.t.Coq()+")")
			}
			return cList(xs)
		}
		tupleObs := func(t *gotypes.Tuple, k int) string {
			var xs []string
			for i := 0; i < k; i++ {
				s := resolveRaw(t.At(i))
				xs = append(xs, s)
			}
			return cList(xs)
		}
		var paths []string
		var pdesc []string
		addPaths := func(vs []pv, isres bool, t *gotypes.Tuple) {
			for i, v := range vs {
				// every accessor at the root and after a prefix of a fitting path: the ones that do not fit the
				// component's type must be refused, whatever the type (a capacity of a string, a length of an array...)
				var sweep [][]pstep
				if j < 150 || c.Thorough() {
					for _, st := range everyStep() {
						sweep = append(sweep, []pstep{st})
					}
					for _, fn := range fieldNames(v.t) { // every field name occurring anywhere inside the value, asked of the value itself
						name := fn
						sweep = append(sweep, []pstep{{"(SField " + cStr(name) + ")", "Field(" + name + ")", func(c gotypes.Component) gotypes.Component { return c.Field(name) }}})
					}
					if pre := genPath(rng, v.t); len(pre) > 0 {
						pre = pre[:1+rng.Intn(len(pre))]
						for _, st := range everyStep() {
							sweep = append(sweep, append(append([]pstep{}, pre...), st))
						}
					}
				}
				nrand := 3
				if j < len(corpus) && j >= firstDeep {
					nrand = 40
				}
				for k := 0; k < nrand+len(sweep); k++ {
					var path []pstep
					if k < nrand {
						path = genPath(rng, v.t)
					} else {
						path = sweep[k-nrand]
					}
					ii := i
					ob := resolveObs(func() gotypes.Component { return t.At(ii) }, path)
					// the same component taken from a parent that is held and asked for other sub-components
					// before this one is resolved: a component is a value, later accesses cannot move it
					if len(path) > 0 && nheldBad < 5 {
						sibs := everyStep()
						for _, fn := range fieldNames(v.t) {
							name := fn
							sibs = append(sibs, pstep{"", "Field(" + name + ")", func(c gotypes.Component) gotypes.Component { return c.Field(name) }})
						}
						nheld++
						if held, which := resolveHeld(func() gotypes.Component { return t.At(ii) }, path, sibs); held != ob {
							nheldBad++
							var ds []string
							for _, st := range path {
								ds = append(ds, st.Desc)
							}
							o.Plan.GoViolations = append(o.Plan.GoViolations, GoViolation{Key: "layout:sibling-moves-component", Desc: fmt.Sprintf("%s: %v[%d].%s resolves to %s, but to %s when %s is taken from the same parent component before it is resolved", expr, map[bool]string{false: "param", true: "result"}[isres], i, strings.Join(ds, "."), ob, held, which), Replay: map[string]any{"signature": expr, "path": strings.Join(ds, "."), "sibling": which}})
						}
					}
					var cs, ds []string
					for _, st := range path {
						cs = append(cs, st.Coq)
						ds = append(ds, st.Desc)
					}
					paths = append(paths, fmt.Sprintf("(%s, %d%%nat, %s, %s)", cBool(isres), i, cList(cs), ob))
					pdesc = append(pdesc, fmt.Sprintf("%v[%d].%s=%s", map[bool]string{false: "param", true: "result"}[isres], i, strings.Join(ds, "."), ob))
					npaths++
					if ob == "RErr" {
						nerr++
					}
				}
			}
			// out-of-range tuple indices
			for _, bad := range []int{-1, len(vs), len(vs) + 2} {
				b := bad
				ob := resolveObs(func() gotypes.Component { return t.At(b) }, nil)
				if ob == "RPanic" {
					o.Plan.GoViolations = append(o.Plan.GoViolations, GoViolation{Key: fmt.Sprintf("layout:tuple-at-panics:%d", sign(b)), Desc: fmt.Sprintf("Tuple.At(%d) panics for %s", b, expr), Replay: map[string]any{"signature": expr, "index": b}})
				} else if ob != "RErr" {
					o.Plan.GoViolations = append(o.Plan.GoViolations, GoViolation{Key: "layout:tuple-at-out-of-range", Desc: fmt.Sprintf("Tuple.At(%d) yields an address for %s", b, expr), Replay: map[string]any{"signature": expr, "index": b}})
				}
			}
		}
		addPaths(ps, false, sig.Params())
		addPaths(rs, true, sig.Results())
		rows = append(rows, fmt.Sprintf("(%s, %s, (%s, %s, %d), %s)", coqVars(ps), coqVars(rs), tupleObs(sig.Params(), len(ps)), tupleObs(sig.Results(), len(rs)), sig.Bytes(), cList(paths)))
		o.AddCase(Case{Key: "layout:signature", Desc: expr + " :: " + strings.Join(pdesc, " "), Input: map[string]any{"signature": expr}, Nontrivial: len(ps)+len(rs) >= 2})
		for _, v := range append(ps, rs...) {
			if v.t.Kind == "struct" && len(mirror) < 80 {
				mirror = append(mirror, v.t.SrcPlain())
				mirrorCoq = append(mirrorCoq, v.t.Coq())
			}
		}
	}
	// environment model vs the real compiler: unsafe.Sizeof/Alignof/Offsetof on mirrored structs
	if len(mirror) > 0 {
		got := compilerLayout(c, mirror)
		var lrows []string
		for i := range mirror {
			var offs []string
			for _, x := range got[i][2:] {
				offs = append(offs, fmt.Sprint(x))
			}
			lrows = append(lrows, fmt.Sprintf("(%s, %d, %d, %s)", mirrorCoq[i], got[i][0], got[i][1], cList(offs)))
		}
		var b strings.Builder
		b.WriteString(coqHeader + "From Avo Require Import Model.Layout.\nOpen Scope Z_scope.\n")
		fmt.Fprintf(&b, "Definition layouts : list (ty * Z * Z * list Z) := %s.\n", cListNL(lrows))
		b.WriteString("Definition R_env_mismatch := Eval vm_compute in idx_where (fun c => let '(t, sz, al, offs) := c in negb ((sizeof t =? sz) && (alignof t =? al) && list_eqb Z.eqb (match t with TStruct fs => offsetsof (List.map snd fs) 0 | _ => [] end) offs)) layouts.\nPrint R_env_mismatch.\n")
		o.WriteFile("Env.v", b.String())
		o.Stage("Env.v")
		o.ExpectEmpty("Env.v", "R_env_mismatch", "mismatch", "environment model of gc/amd64 layout vs unsafe.Sizeof/Alignof/Offsetof from the real compiler")
		o.Plan.EnvValidation["struct_layouts_checked_against_compiler"] = len(mirror)
	}
	shard := 50
	var files []string
	for s := 0; s*shard < len(rows); s++ {
		hi := (s + 1) * shard
		if hi > len(rows) {
			hi = len(rows)
		}
		name := fmt.Sprintf("Cases%02d.v", s)
		var b strings.Builder
		b.WriteString(coqHeader + "From Avo Require Import Model.Layout.\nOpen Scope Z_scope.\n")
		fmt.Fprintf(&b, "Definition cases : list sig_case := %s.\n", cListNL(rows[s*shard:hi]))
		fmt.Fprintf(&b, "Definition R_mismatch := Eval vm_compute in List.map (N.add %d) (idx_where (fun c => negb (sig_agree tree_check_neg c)) cases).\nPrint R_mismatch.\n", s*shard)
		fmt.Fprintf(&b, "Definition R_violation := Eval vm_compute in List.map (N.add %d) (idx_where (fun c => negb (sig_impl_ok c)) cases).\nPrint R_violation.\n", s*shard)
		fmt.Fprintf(&b, "Definition R_layout_violation := Eval vm_compute in List.map (N.add %d) (idx_where (fun c => negb (sig_layout_ok c)) cases).\nPrint R_layout_violation.\n", s*shard)
		o.WriteFile(name, b.String())
		files = append(files, name)
		o.ExpectEmpty(name, "R_mismatch", "mismatch", "model of Signature layout / Component algebra vs gotypes (names, offsets, argument size, resolved components, errors)")
		o.ExpectEmpty(name, "R_violation", "violation", "a resolved component is not an entry of the asmdecl flattening (name/offset/size), or a non-existent index/field yields an address, or a panic")
		o.ExpectEmpty(name, "R_layout_violation", "violation", "parameter/result names, offsets or the argument size differ from the Go compiler's ABI0 frame layout (gc/amd64 sizes; the layout rules are compared with unsafe.Sizeof/Alignof/Offsetof of the real compiler in this run)")
	}
	o.Stage(files...)
	o.Plan.Rule = "random signatures: 0..4 params, 0..3 results (named/unnamed/blank) over basic types, pointers, strings, slices, arrays (incl. length 0), structs (padding, zero-size and trailing zero-size fields, blank fields), func and interface values, nesting <= 3; three random component paths per value (mostly valid, ~15% with a non-existent index/field/part or a negative index), plus out-of-range tuple indices; non-trivial = at least two values; distinct by signature text"
	o.Plan.Stats["signatures"] = n
	o.Plan.Stats["paths"] = npaths
	o.Plan.Stats["paths_resolving_to_error"] = nerr
	o.Plan.Stats["paths_re-resolved_from_a_held_parent_with_siblings_taken"] = nheld
}

func sign(i int) int {
	if i < 0 {
		return -1
	}
	return 1
}

func resolveRaw(c gotypes.Component) string {
	// name and offset of a top-level value, read from the component itself through Resolve on a
	// pointer-typed copy is not possible; use the exported behaviour: NewComponent keeps addr, and
	// Base()/Len() etc. derive from it. We read it via a zero-step path on a uintptr view:
	if cc, ok := c.(interface {
		Resolve() (*gotypes.Basic, error)
	}); ok {
		if b, err := cc.Resolve(); err == nil {
			return fmt.Sprintf("(%s, %s)", cStr(b.Addr.Symbol.Name), cZ(int64(b.Addr.Disp)))
		}
	}
	return addrOfComponent(c)
}

// compilerLayout compiles and runs a program printing Sizeof/Alignof/Offsetof of each struct
func compilerLayout(c *Ctx, structs []string) [][]int64 {
	dir := filepath.Join(c.Tmp, "c07pkg")
	os.MkdirAll(dir, 0o755)
	var b strings.Builder
	b.WriteString("package main\nimport (\"encoding/json\"; \"os\"; \"unsafe\")\nfunc main() { var out [][]int64\n")
	fs := token.NewFileSet()
	_ = fs
	for i, s := range structs {
		fmt.Fprintf(&b, "{ var v%d %s; row := []int64{int64(unsafe.Sizeof(v%d)), int64(unsafe.Alignof(v%d))}\n", i, s, i, i)
		// field offsets: parse field names from the generator's own rendering
		// (field names and, for blank fields, offsets: unsafe.Pointer has the size and alignment of uintptr)
		tv, err := types.Eval(token.NewFileSet(), nil, token.NoPos, strings.ReplaceAll(s, "unsafe.Pointer", "uintptr"))
		if err != nil {
			die(err)
		}
		st := tv.Type.(*types.Struct)
		blank := false
		for k := 0; k < st.NumFields(); k++ {
			if st.Field(k).Name() == "_" {
				blank = true
			}
		}
		if !blank {
			for k := 0; k < st.NumFields(); k++ {
				fmt.Fprintf(&b, "row = append(row, int64(unsafe.Offsetof(v%d.%s)))\n", i, st.Field(k).Name())
			}
		} else {
			vs := make([]*types.Var, st.NumFields())
			for k := range vs {
				vs[k] = st.Field(k)
			}
			for _, off := range types.SizesFor("gc", "amd64").Offsetsof(vs) {
				fmt.Fprintf(&b, "row = append(row, %d)\n", off)
			}
		}
		b.WriteString("out = append(out, row) }\n")
	}
	b.WriteString("json.NewEncoder(os.Stdout).Encode(out) }\n")
	os.WriteFile(filepath.Join(dir, "main.go"), []byte(b.String()), 0o644)
	os.WriteFile(filepath.Join(dir, "go.mod"), []byte("module c07pkg\n\ngo 1.23\n"), 0o644)
	cmd := exec.Command("go", "run", ".")
	cmd.Dir = dir
	out, err := cmd.Output()
	if err != nil {
		ee, _ := err.(*exec.ExitError)
		msg := ""
		if ee != nil {
			msg = string(ee.Stderr)
		}
		die(fmt.Errorf("c07 compiler run failed: %v %s", err, msg))
	}
	var res [][]int64
	if err := json.Unmarshal(out, &res); err != nil {
		die(err)
	}
	return res
}

func addrOfComponent(c gotypes.Component) string {
	if m, ok := gotypes.VerifAddr(c); ok {
		return fmt.Sprintf("(%s, %s)", cStr(m.Symbol.Name), cZ(int64(m.Disp)))
	}
	return "(\"<error>\"%string, 0)"
}

// derefBuildCheck: Context.Dereference, the builder-level way to reach a pointee.  Every call must load the
// pointer in the function being built (a fresh register written by a MOVQ from the pointer's own address
// in THIS function) and address the pointee relative to that register; in a second function with the same
// signature, and for a second call in one function, just the same.
func derefBuildCheck(c *Ctx) {
	o := c.Out
	ctx := build.NewContext()
	sig := "func(total *uint64, p *struct{ X, Y uint64 }, q *[4]uint32)"
	type call struct{ fn, what string }
	idx := o.AddCase(Case{Key: "layout:deref-builder", Desc: "Context.Dereference in two functions of one file and twice in one function: " + sig, Input: map[string]any{"signature": sig}, Nontrivial: true})
	check := func(fnName, param, field string, wantDisp int) {
		before := len(curFile(ctx).Functions()[len(curFile(ctx).Functions())-1].Instructions())
		comp := ctx.Dereference(ctx.Param(param))
		if field != "" {
			comp = comp.Field(field)
		} else {
			comp = comp.Index(2)
		}
		b, err := comp.Resolve()
		fn := curFile(ctx).Functions()[len(curFile(ctx).Functions())-1]
		is := fn.Instructions()
		if err != nil {
			o.Plan.GoViolations = append(o.Plan.GoViolations, GoViolation{Key: "layout:deref-builder", Desc: fmt.Sprintf("case %d: %s: Dereference(Param(%s)) does not resolve: %v", idx, fnName, param, err)})
			return
		}
		base, _ := b.Addr.Base.(reg.Register)
		loaded := false
		for _, in := range is[before:] {
			if in.Opcode == "MOVQ" && len(in.Operands) == 2 {
				if m, isM := in.Operands[0].(operand.Mem); isM && m.Symbol.Name == param && m.Base == reg.FramePointer {
					if r, isR := in.Operands[1].(reg.Register); isR && base != nil && r.ID() == base.ID() {
						loaded = true
					}
				}
			}
		}
		if base == nil || !loaded || b.Addr.Disp != wantDisp || b.Addr.Symbol.Name != "" {
			o.Plan.GoViolations = append(o.Plan.GoViolations, GoViolation{Key: "layout:deref-builder", Desc: fmt.Sprintf("case %d: in %s, Dereference(Param(%s)) yields %s; the pointer is not loaded into that base register by this call (instructions added: %d), or the pointee offset is not %d", idx, fnName, param, b.Addr.Asm(), len(is)-before, wantDisp), Replay: map[string]any{"function": fnName, "param": param}})
		}
	}
	for _, fnName := range []string{"A", "B"} {
		ctx.Function(fnName)
		ctx.SignatureExpr(sig)
		check(fnName, "p", "Y", 8)
		check(fnName, "q", "", 8)
		check(fnName, "p", "X", 0) // a second dereference of the same pointer
		ctx.RET()
	}
}

func curFile(ctx *build.Context) *ir.File {
	f, _ := ctx.Result()
	return f
}

// unsafeOnly imports package unsafe and nothing else
type unsafeOnly struct{}

func (unsafeOnly) Import(path string) (*types.Package, error) {
	if path == "unsafe" {
		return types.Unsafe, nil
	}
	return nil, fmt.Errorf("no importer for %q", path)
}

var goTypeCounter int

// GoType builds the go/types type the generator's type stands for
func (t *gty) GoType(pkg *types.Package) types.Type {
	switch t.Kind {
	case "basic":
		for _, k := range basicKinds {
			if k.Go == t.Basic {
				return types.Typ[k.K]
			}
		}
		return types.Typ[types.Int]
	case "ptr":
		return types.NewPointer(t.Elem.GoType(pkg))
	case "slice":
		return types.NewSlice(t.Elem.GoType(pkg))
	case "arr":
		return types.NewArray(t.Elem.GoType(pkg), t.N)
	case "struct":
		var fs []*types.Var
		for _, f := range t.Fields {
			fs = append(fs, types.NewField(token.NoPos, pkg, f.Name, f.T.GoType(pkg), false))
		}
		return types.NewStruct(fs, nil)
	case "word":
		return types.NewSignatureType(nil, nil, nil, nil, nil, false)
	case "iface":
		return types.NewInterfaceType(nil, nil).Complete()
	case "named":
		goTypeCounter++
		return types.NewNamed(types.NewTypeName(token.NoPos, pkg, fmt.Sprintf("N%d", goTypeCounter), nil), t.Elem.GoType(pkg), nil)
	}
	return types.Typ[types.Int]
}
