package main

import (
	"github.com/mmcloughlin/avo/ir"
	"github.com/mmcloughlin/avo/reg"
)

func init() {
	props["C01"] = c01
	props["C03"] = c03
	props["C10"] = c10
	props["C15"] = c15
}

var chkCleanup = pipeCheck{"R_cleanup_violation", "where_not cleanup_ok cases", "violation", "clean-up pass deleted something with an architectural effect, or a remaining branch no longer lands on the same instruction"}

func usesVirtual(p *Prog) bool {
	for _, nd := range p.Nodes {
		if i, ok := nd.(*ir.Instruction); ok {
			for _, r := range i.Registers() {
				if reg.ToVirtual(r) != nil {
					return true
				}
			}
		}
	}
	return false
}

func c01(c *Ctx) {
	defer emitLargeCases(c, largeProgs("sum of", "32-bit", "MULQ", "ZMM", "loop with"))
	rng := NewRNG(c.Seed)
	n := 320
	if c.Thorough() {
		n = 6000
	}
	progs := pipelineCorpus()
	sw := sweepProgs(c, map[bool]int{false: 10, true: 1}[c.Thorough()])
	progs = append(progs, sw...)
	n += len(sw)
	for len(progs) < n {
		nv := []int{3, 8, 14, 18, 24}[rng.Intn(5)]
		progs = append(progs, genProg(rng, ProgOpts{MaxNodes: 8 + rng.Intn(50), Malformed: false, Phys: rng.Chance(60), Synth: rng.Chance(60), NVirt: nv, Branches: rng.Chance(70)}))
	}
	progs = append(progs, cleanupCorpus()...)
	crng := NewRNG(c.Seed + 2001)
	for k := 0; k < 40; k++ {
		progs = append(progs, genCleanupProg(crng))
	}
	// a function that cannot be allocated makes the whole file fail, wherever it stands among functions that can
	multiFunctionFiles(c.Out, progs, "alloc", 40)
	emitPipelineCases(c, progs, []pipeCheck{chkDiff, chkLive, chkAlloc, chkSim, chkDisc, chkBind, chkCleanup, chkCFG, chkZext}, 20, func(p *Prog, ob *Observed) bool {
		return len(ob.Alloc) >= 2
	})
	c.Out.Plan.Rule = "corpus (pressure 15/16 GP, 5 high-byte, 8 opmask, implicit MULQ, masked self-compare) + random programs with 1..24 virtual registers of all widths/classes, author-chosen physical registers, implicit operands, synthetic multi-output instructions, branches and loops; non-trivial = at least two virtual registers were allocated; distinct by program text"
}

func c03(c *Ctx) {
	defer emitLargeCases(c, largeProgs("ZMM", "sum of", "MULQ"))
	rng := NewRNG(c.Seed + 1000)
	n := 320
	if c.Thorough() {
		n = 6000
	}
	progs := pipelineCorpus()
	for len(progs) < n {
		nv := []int{12, 15, 16, 18, 30}[rng.Intn(5)] // around and above the number of colours
		progs = append(progs, genProg(rng, ProgOpts{MaxNodes: 10 + rng.Intn(60), Malformed: false, Phys: rng.Chance(70), Synth: rng.Chance(50), NVirt: nv, Branches: rng.Chance(50)}))
	}
	emitPipelineCases(c, progs, []pipeCheck{chkDiff, chkAlloc, chkBind}, 20, func(p *Prog, ob *Observed) bool {
		return usesVirtual(p)
	})
	c.Out.Plan.Rule = "corpus + random programs with register pressure around and above the colour count per class (15 GP / 32 vector / 7 mask), high-byte virtuals, author-chosen physical registers mixed with virtual ones; non-trivial = the program uses virtual registers; distinct by program text"
}

func c10(c *Ctx) {
	rng := NewRNG(c.Seed + 2000)
	n := 320
	if c.Thorough() {
		n = 6000
	}
	progs := append(pipelineCorpus(), cleanupCorpus()...)
	for len(progs) < n {
		progs = append(progs, genCleanupProg(rng))
	}
	progs = append(progs, largeProgs("labels")...)
	emitPipelineCases(c, progs, []pipeCheck{chkDiff, chkCleanup}, 20, func(p *Prog, ob *Observed) bool {
		return ob.Stage == "" && len(ob.Nodes) != len(p.Nodes)
	})
	c.Out.Plan.Rule = "programs dense in moves whose operands become equal through allocation (MOVB/MOVW/MOVL/MOVQ between views of few virtual registers, XMM moves, high/low byte moves), jumps to the following label, chains of jumps, label runs, dangling labels; non-trivial = compilation succeeded and a clean-up pass removed at least one node; distinct by program text"
}

func c15(c *Ctx) {
	rng := NewRNG(c.Seed + 3000)
	n := 320
	if c.Thorough() {
		n = 5000
	}
	progs := pipelineCorpus()
	for len(progs) < n {
		progs = append(progs, genBPProg(rng))
	}
	every := 2
	if c.Thorough() {
		every = 1
	}
	progs = append(progs, bpSweepProgs(c, every)...)
	progs = append(progs, largeProgs("base pointer")...)
	multiFunctionFiles(c.Out, progs, "bp", 60)
	bpPrintedFrames(c.Out, progs, 200)
	bpListedFile(c.Out)
	bpMainFlow(c.Out)
	frameHistories(c, map[bool]int{false: 150, true: 3000}[c.Thorough()], 1501, true, "Frames.v") // base-pointer writers with stack locals
	emitPipelineCases(c, progs, []pipeCheck{chkDiff, chkBP, chkBind}, 20, func(p *Prog, ob *Observed) bool {
		return p.Tags["explicit-bp"] || p.Tags["pressure15"]
	})
	c.Out.Plan.Rule = "functions writing the base pointer through each view (BPB/BP/EBP/RBP), through implicit-style outputs, or through the allocator under pressure >= 15 live GP values, crossed with attribute sets {0, NOSPLIT, NOFRAME, NOSPLIT|NOFRAME} and frame sizes {0, >0}; plus a sweep over the instruction constructors with the base pointer in every general-purpose register position (second output of an exchange, register after a memory destination, ...); non-trivial = the base pointer is named or pressure reaches 15; distinct by program text"
}
