package main

import (
	"bytes"
	"errors"
	"fmt"
	"github.com/mmcloughlin/avo/gotypes"
	"io"
	"strings"

	"github.com/mmcloughlin/avo/attr"
	"github.com/mmcloughlin/avo/build"
	"github.com/mmcloughlin/avo/buildtags"
	"github.com/mmcloughlin/avo/ir"
	"github.com/mmcloughlin/avo/operand"
	"github.com/mmcloughlin/avo/pass"
	"github.com/mmcloughlin/avo/reg"
)

func init() { props["C18"] = c18 }

type recPrinter struct{ ran *bool }

func (p recPrinter) Print(f *ir.File) ([]byte, error) { *p.ran = true; return []byte("x"), nil }

type nopWC struct{ io.Writer }

func (nopWC) Close() error { return nil }

type bopGen struct {
	Coq, Desc string
	Do        func(ctx *build.Context)
	PassFault string // compile-time fault this op (eventually) causes, "" if none
	Extra     int    // number of additional model steps this one call stands for
}

func c18Ops(r *RNG, st *struct {
	hasFunc bool
	labels  int
	sigKind int
}) bopGen {
	if st.sigKind == 1 && r.Chance(12) {
		return loadPathOp(r)
	}
	switch r.Intn(24) {
	case 0, 1:
		st.sigKind = 0
		// label names start again with every function: l1, l2, ... are used in each function of the file
		return bopGen{"BFunction", "Function", func(c *build.Context) { st.labels = 0; c.Function(fmt.Sprintf("f%d", r.Intn(1000))) }, "", 0}
	case 2:
		return bopGen{"BAttributes", "Attributes", func(c *build.Context) { c.Attributes(attr.NOSPLIT) }, "", 0}
	case 3:
		return bopGen{"BDoc", "Doc", func(c *build.Context) { c.Doc("d") }, "", 0}
	case 4:
		st.sigKind = 1
		return bopGen{"(BSignature true)", "Signature(ok)", func(c *build.Context) {
			c.SignatureExpr("func(x uint64, s []byte, p struct{ a, b int32 }, q *int, str string, arr [4]uint32, st struct{ f uint8; g [2]int64 }, pp *struct{ h int32 }) (r uint32, z complex128)")
		}, "", 0}
	case 5:
		return bopGen{"(BSignature false)", "Signature(bad expr)", func(c *build.Context) { c.SignatureExpr("func(x uint64") }, "", 0}
	case 6, 7, 8:
		return bopGen{"(BInstr true)", "ADDQ ok", func(c *build.Context) { c.ADDQ(reg.RAX, reg.RBX) }, "", 0}
	case 9:
		return bopGen{"(BInstr false)", "ADDQ bad operands", func(c *build.Context) { c.ADDQ(reg.EAX, reg.RBX) }, "", 0}
	case 10:
		if r.Chance(50) { // operand lists far longer than any form, of every length modulo 256
			n := []int{256 + 3, 512 + 3, 256 + 4, 255, 256, 300, 65536 + 3}[r.Intn(7)]
			ops := make([]operand.Op, n)
			for i := range ops {
				ops[i] = []operand.Op{reg.X0, reg.X1, reg.X2}[i%3]
			}
			return bopGen{"(BInstr false)", fmt.Sprintf("VPADDD with %d operands", n), func(c *build.Context) { c.VPADDD(ops...) }, "", 0}
		}
		return bopGen{"(BInstr false)", "VPADDD wrong arity", func(c *build.Context) { c.VPADDD(reg.X0) }, "", 0}
	case 11:
		return bopGen{"BLabel", "Label", func(c *build.Context) { st.labels++; c.Label(fmt.Sprintf("l%d", st.labels)) }, "", 0}
	case 12:
		return bopGen{"BComment", "Comment", func(c *build.Context) { c.Comment("c") }, "", 0}
	case 13:
		return bopGen{"BAllocLocal", "AllocLocal", func(c *build.Context) { c.AllocLocal(8) }, "", 0}
	case 14:
		if st.sigKind == 1 {
			return bopGen{"(BLoad CompOK)", "Load(x)", func(c *build.Context) { c.Load(c.Param("x"), reg.RCX) }, "", 0}
		}
		return bopGen{"(BLoad CompUnknown)", "Load(unknown param)", func(c *build.Context) { c.Load(c.Param("nosuch"), reg.RCX) }, "", 0}
	case 15:
		if st.sigKind == 1 {
			return bopGen{"(BLoad CompNonPrimitive)", "Load(slice param, not primitive)", func(c *build.Context) { c.Load(c.Param("s"), reg.RCX) }, "", 0}
		}
		return bopGen{"(BLoad CompUnknown)", "Load(ParamIndex(7))", func(c *build.Context) { c.Load(c.ParamIndex(7), reg.RCX) }, "", 0}
	case 16:
		if st.sigKind == 1 {
			return bopGen{"(BLoad CompNoMov)", "Load(x into YMM: no mov)", func(c *build.Context) { c.Load(c.Param("x"), reg.Y1) }, "", 0}
		}
		return bopGen{"(BLoad CompUnknown)", "Load(ParamIndex(-1))", func(c *build.Context) { c.Load(c.ParamIndex(-1), reg.RCX) }, "", 0}
	case 17:
		if st.sigKind == 1 {
			return bopGen{"(BStore CompOK)", "Store(r)", func(c *build.Context) { c.Store(reg.ECX, c.Return("r")) }, "", 0}
		}
		return bopGen{"(BStore CompUnknown)", "Store(unknown result)", func(c *build.Context) { c.Store(reg.ECX, c.Return("r")) }, "", 0}
	case 18:
		if st.sigKind == 1 {
			return bopGen{"(BStore CompNonPrimitive)", "Store(complex result)", func(c *build.Context) { c.Store(reg.RCX, c.Return("z")) }, "", 0}
		}
		return bopGen{"(BStore CompUnknown)", "Store(ReturnIndex(3))", func(c *build.Context) { c.Store(reg.ECX, c.ReturnIndex(3)) }, "", 0}
	case 19:
		if r.Chance(25) { // an empty or blank expression is an empty constraint: an error
			e := Pick(r, []string{"", " ", "  \t"})
			return bopGen{"(BConstraints false)", fmt.Sprintf("ConstraintExpr(%q)", e), func(c *build.Context) { c.ConstraintExpr(e) }, "", 0}
		}
		if r.Chance(20) {
			return bopGen{"(BConstraints false)", "Constraint(empty)", func(c *build.Context) { c.Constraint(buildtags.Constraint{}) }, "", 0}
		}
		if r.Bool() {
			return bopGen{"(BConstraints true)", "Constraints(ok)", func(c *build.Context) { c.ConstraintExpr("amd64,!purego") }, "", 0}
		}
		return bopGen{"(BConstraints false)", "Constraints(bad)", func(c *build.Context) {
			c.Constraints(buildtags.Constraints{buildtags.Constraint{buildtags.Option{buildtags.Term("a-b")}}})
		}, "", 0}
	case 20:
		if r.Chance(35) { // ConstData = StaticGlobal + DataAttributes + AppendDatum: the new section becomes the active one
			n := []int{8, 4, 16}[r.Intn(3)]
			return bopGen{fmt.Sprintf("BStaticGlobal; BDataAttributes; (BAppendDatum %d)", n), fmt.Sprintf("ConstData(%d bytes)", n), func(c *build.Context) {
				c.ConstData(fmt.Sprintf("k%d", r.Intn(1000)), operand.String(strings.Repeat("k", n)))
			}, "", 2}
		}
		return bopGen{"BStaticGlobal", "StaticGlobal", func(c *build.Context) { c.StaticGlobal(fmt.Sprintf("g%d", r.Intn(1000))) }, "", 0}
	case 21:
		return bopGen{"BDataAttributes", "DataAttributes", func(c *build.Context) { c.DataAttributes(attr.RODATA) }, "", 0}
	case 22:
		off := 8 * r.Intn(4)
		n := []int{1, 4, 8, 12}[r.Intn(4)]
		return bopGen{fmt.Sprintf("(BAddDatum %d %d)", off, n), fmt.Sprintf("AddDatum(%d, %d bytes)", off, n), func(c *build.Context) {
			c.AddDatum(off, operand.String(strings.Repeat("x", n)))
		}, "", 0}
	default:
		n := []int{1, 8}[r.Intn(2)]
		return bopGen{fmt.Sprintf("(BAppendDatum %d)", n), fmt.Sprintf("AppendDatum(%d bytes)", n), func(c *build.Context) { c.AppendDatum(operand.String(strings.Repeat("y", n))) }, "", 0}
	}
}

func c18(c *Ctx) {
	defer globalAPI(c)
	defer func() {
		// compile-time faults in files of several functions (Model/PassFramework.v)
		ps := cfgCorpus()
		r := NewRNG(c.Seed + 1819)
		for k := 0; k < 60; k++ {
			ps = append(ps, genBPProg(r))
		}
		multiFunctionFiles(c.Out, ps, "builder", 40)
	}()
	o := c.Out
	rng := NewRNG(c.Seed + 1800)
	n := 600
	if c.Thorough() {
		n = 12000
	}
	var rows []string
	nValid, nPanic := 0, 0
	for k := 0; k < n; k++ {
		st := &struct {
			hasFunc bool
			labels  int
			sigKind int
		}{}
		ctx := build.NewContext()
		var coq, desc []string
		var after []int
		errCount := func() int {
			_, err := ctx.Result()
			var el build.ErrorList
			if errors.As(err, &el) {
				return len(el)
			}
			return 0
		}
		ln := 1 + rng.Intn(10)
		if rng.Chance(70) { // mostly start properly
			ctx.Function("start")
			coq = append(coq, "BFunction")
			desc = append(desc, "Function")
			after = append(after, 0)
		}
		passFault := ""
		addRets := false
		panicked := false
		var errs, instrs, status int
		printed := false
		func() {
			defer func() {
				if v := recover(); v != nil {
					panicked = true
					desc = append(desc, fmt.Sprint("PANIC: ", v))
				}
			}()
			dataHeavy := rng.Chance(25)
			if dataHeavy {
				ctx.StaticGlobal("gd")
				coq = append(coq, "BStaticGlobal")
				desc = append(desc, "StaticGlobal")
				after = append(after, errCount())
			}
			for j := 0; j < ln; j++ {
				if dataHeavy && rng.Chance(75) {
					off := 4 * rng.Intn(8)
					nb := []int{1, 4, 8, 12}[rng.Intn(4)]
					coq = append(coq, fmt.Sprintf("(BAddDatum %d %d)", off, nb))
					desc = append(desc, fmt.Sprintf("AddDatum(%d, %d bytes)", off, nb))
					ctx.AddDatum(off, operand.String(strings.Repeat("x", nb)))
					after = append(after, errCount())
					continue
				}
				op := c18Ops(rng, (*struct {
					hasFunc bool
					labels  int
					sigKind int
				})(st))
				coq = append(coq, op.Coq)
				desc = append(desc, op.Desc)
				op.Do(ctx)
				after = append(after, errCount())
				for k := 0; k < op.Extra; k++ { // one call that stands for several model steps
					after = append(after, errCount())
				}
			}
			// compile-time faults appended at the end of some otherwise valid histories
			if rng.Chance(15) {
				switch rng.Intn(11) {
				case 7, 8:
					// a frameless function that writes the base pointer, without and with stack locals
					ctx.Function("pf")
					ctx.Attributes(attr.NOSPLIT | attr.NOFRAME)
					passFault = "NOFRAME function writes the base pointer"
					if rng.Bool() {
						ctx.AllocLocal(16)
						passFault += " (with locals)"
					}
					ctx.MOVQ(operand.U32(1), reg.RBP)
					ctx.RET()
				case 9, 10:
					// the faulty function is not the last one of the file
					ctx.Function("pf")
					if rng.Bool() {
						ctx.JMP(operand.LabelRef("undefined"))
						passFault = "undefined label, in a function followed by a valid one"
					} else {
						ctx.Attributes(attr.NOSPLIT | attr.NOFRAME)
						ctx.MOVQ(operand.U32(1), reg.RBP)
						ctx.RET()
						passFault = "NOFRAME function writes the base pointer, followed by a valid function"
					}
					ctx.Function("fine")
					ctx.MOVQ(operand.U32(1), reg.RAX)
					ctx.RET()
				case 6:
					// five simultaneously live high-byte registers: only AH, CH, DH, BH exist
					ctx.Function("pf")
					var hs []reg.GPVirtual
					for q := 0; q < 5; q++ {
						h := ctx.GP8H()
						hs = append(hs, h)
						ctx.MOVB(operand.U8(uint8(q)), h)
					}
					for q := 1; q < 5; q++ {
						ctx.ADDB(hs[q], hs[0])
					}
					passFault = "unsatisfiable allocation (five high-byte registers)"
				case 4:
					ctx.Function("pf")
					ctx.RDTSC()
					ctx.CPUID()
					coq = append(coq, "BFunction", "(BInstr true)", "(BInstr true)")
					after = append(after, errCount(), errCount(), errCount())
					passFault = "" // valid requests: must simply succeed
					addRets = true
					desc = append(desc, "Function; RDTSC; CPUID (registers only implicit)")
				case 5:
					ctx.Function("pf")
					ctx.MOVL(operand.U32(1), reg.GeneralPurpose.Virtual(7, reg.S32))
					ctx.RET()
					passFault = "plain virtual register"
					desc = append(desc, "then: MOVL $1, reg.GeneralPurpose.Virtual(7, S32)")
				case 0:
					ctx.Function("pf")
					ctx.JMP(operand.LabelRef("undefined"))
					passFault = "undefined label"
				case 1:
					ctx.Function("pf")
					ctx.Label("dup")
					ctx.Label("dup")
					ctx.RET()
					passFault = "duplicate label"
				case 2:
					ctx.Function("pf")
					if rng.Bool() {
						ctx.MOVQ(operand.Mem{Disp: 8}, reg.RAX)
						passFault = "memory operand without base"
					} else {
						// hand-built instruction: a named symbol but no base register
						m := operand.Mem{Symbol: operand.Symbol{Name: "table", Static: true}, Disp: 8}
						ctx.Instruction(&ir.Instruction{Opcode: "MOVQ", Operands: []operand.Op{m, reg.RAX}, Inputs: []operand.Op{m}, Outputs: []operand.Op{reg.RAX}})
						ctx.RET()
						passFault = "memory operand with a symbol but without base"
					}
				default:
					ctx.Function("pf")
					var vs []reg.GPVirtual
					for q := 0; q < 17; q++ {
						v := ctx.GP64()
						vs = append(vs, v)
						ctx.MOVQ(operand.U32(1), v)
					}
					for q := 1; q < 17; q++ {
						ctx.ADDQ(vs[q], vs[0])
					}
					passFault = "unsatisfiable allocation"
				}
				if passFault != "" && passFault != "plain virtual register" {
					desc = append(desc, "then: "+passFault)
				}
			} else {
				addRets = true
			}
			if addRets {
				// make every function end properly so that valid histories compile
				for _, fn := range mustFile(ctx).Functions() {
					fn.AddInstruction(&ir.Instruction{Opcode: "RET", IsTerminal: true})
				}
			}
			f, err := ctx.Result()
			var el build.ErrorList
			if errors.As(err, &el) {
				errs = len(el)
			} else if err != nil {
				errs = 1
			}
			for _, fn := range f.Functions() {
				instrs += len(fn.Instructions())
			}
			var logbuf bytes.Buffer
			cfg := &build.Config{ErrOut: &logbuf, MaxErrors: 10, Passes: []pass.Interface{pass.Compile, &pass.Output{Writer: nopWC{io.Discard}, Printer: recPrinter{&printed}}}}
			status = build.Main(cfg, ctx)
			lines := strings.Count(logbuf.String(), "\n")
			if errs > 0 {
				want := errs
				if errs > 10 {
					want = 11
				}
				if lines != want {
					o.Plan.GoViolations = append(o.Plan.GoViolations, GoViolation{Key: "builder:log-lines", Desc: fmt.Sprintf("history %d: %d builder errors but %d log lines", k, errs, lines)})
				}
			}
		}()
		if panicked {
			nPanic++
		}
		// subtract the instructions the harness itself added (RET per function / pass-fault tail)
		key := "builder:history"
		if passFault != "" {
			key = "builder:pass-fault:" + passFault
		}
		idx := o.AddCase(Case{Key: key, Desc: strings.Join(desc, "; "), Input: map[string]any{"ops": desc}, Nontrivial: len(coq) >= 3})
		if errs == 0 && passFault == "" && !panicked {
			nValid++
		}
		if passFault == "plain virtual register" && !panicked {
			rows = append(rows, "")
			continue
		}
		if passFault != "" && !panicked {
			if status == 0 || printed {
				o.Plan.GoViolations = append(o.Plan.GoViolations, GoViolation{Key: "builder:pass-fault-not-reported:" + passFault, Desc: fmt.Sprintf("history %d contains %s but Main returned %d (printer ran: %v): %s", idx, passFault, status, printed, strings.Join(desc, "; ")), Replay: map[string]any{"ops": desc}})
			}
			rows = append(rows, "")
			continue
		}
		if panicked {
			o.Plan.GoViolations = append(o.Plan.GoViolations, GoViolation{Key: "builder:panic", Desc: fmt.Sprintf("history %d panics: %s", idx, strings.Join(desc, "; ")), Replay: map[string]any{"ops": desc}})
			rows = append(rows, "")
			continue
		}
		if errs == 0 && (status != 0 || !printed) {
			o.Plan.GoViolations = append(o.Plan.GoViolations, GoViolation{Key: "builder:valid-history-fails", Desc: fmt.Sprintf("history %d has only valid requests but Main returned %d (printer ran: %v): %s", idx, status, printed, strings.Join(desc, "; ")), Replay: map[string]any{"ops": desc}})
		}
		nfun := len(mustFile(ctx).Functions())
		rows = append(rows, fmt.Sprintf("(%s, %s, %d%%nat, %d%%nat, %d%%nat, %s, %s)", cList(coq), cNats(after), errs, instrs-nfun, status, cBool(printed), cBool(panicked)))
	}
	var good []string
	var idxmap []int
	for i, r := range rows {
		if r != "" {
			good = append(good, r)
			idxmap = append(idxmap, i)
		}
	}
	// case indices in the Coq lists are positions in `good`; map back through a table
	var mp []string
	for _, i := range idxmap {
		mp = append(mp, fmt.Sprint(i))
	}
	var b strings.Builder
	b.WriteString(coqHeader + "From Avo Require Import Model.Data Model.Layout Model.Builder.\nOpen Scope string_scope.\nOpen Scope Z_scope.\n")
	fmt.Fprintf(&b, "Definition cases : list build_case := %s.\n", cListNL(good))
	fmt.Fprintf(&b, "Definition idxmap : list N := [%s]%%N.\n", strings.Join(mp, ";"))
	b.WriteString("Definition remap (l : list N) : list N := List.map (fun i => List.nth (N.to_nat i) idxmap 0%N) l.\n")
	b.WriteString("Definition R_mismatch := Eval vm_compute in remap (idx_where (fun c => negb (builder_agree c)) cases).\nPrint R_mismatch.\n")
	b.WriteString("Definition R_violation := Eval vm_compute in remap (idx_where (fun c => negb (builder_impl_ok c)) cases).\nPrint R_violation.\n")
	o.WriteFile("Cases.v", b.String())
	o.Stage("Cases.v")
	o.ExpectEmpty("Cases.v", "R_mismatch", "mismatch", "builder state machine (error count, instructions appended) vs build.Context")
	o.ExpectEmpty("Cases.v", "R_violation", "violation", "a builder-time fault without an error message, an error on a history of valid requests, or a failing generation that returns status 0 / runs a printer")
	o.Plan.Rule = "random histories of 1..10 builder calls (70% starting with Function): valid and invalid instructions, labels, comments, locals, Load/Store with existing/unknown/non-primitive components and undeducible moves, negative and out-of-range indices, signatures, constraints, data sections with overlapping and disjoint placements, calls outside any function or data section; 15% end with a compile-time fault (undefined/duplicate label, memory operand without base, 17 live registers); run under recover through Context.Result and build.Main with a recording printer; non-trivial = at least three calls; distinct by history"
	o.Plan.Stats["histories"] = n
	o.Plan.Stats["histories_without_any_fault"] = nValid
	o.Plan.Stats["panics"] = nPanic
}

func mustFile(ctx *build.Context) *ir.File {
	f, _ := ctx.Result()
	return f
}

// loadPathOp: Load(<parameter>.<chain of component steps>, RCX) on the long signature; the expected
// outcome is computed inside Coq by the component algebra of Model/Layout.v (path_outcome)
func loadPathOp(r *RNG) bopGen {
	type prm struct{ name, coq string }
	ps := []prm{
		{"x", "(TBasic KUint64)"}, {"s", "(TSlice (TBasic KUint8))"},
		{"p", "(TStruct [(\"a\", TBasic KInt32); (\"b\", TBasic KInt32)])"}, {"q", "(TPtr (TBasic KInt))"},
		{"str", "(TBasic KString)"}, {"arr", "(TArr 4 (TBasic KUint32))"},
		{"st", "(TStruct [(\"f\", TBasic KUint8); (\"g\", TArr 2 (TBasic KInt64))])"},
		{"pp", "(TPtr (TStruct [(\"h\", TBasic KInt32)]))"},
	}
	pr := Pick(r, ps)
	n := 1 + r.Intn(3)
	var coq, desc []string
	var steps []func(gotypes.Component) gotypes.Component
	for k := 0; k < n; k++ {
		switch r.Intn(8) {
		case 0:
			coq, desc = append(coq, "SBase"), append(desc, "Base()")
			steps = append(steps, func(c gotypes.Component) gotypes.Component { return c.Base() })
		case 1:
			coq, desc = append(coq, "SLen"), append(desc, "Len()")
			steps = append(steps, func(c gotypes.Component) gotypes.Component { return c.Len() })
		case 2:
			coq, desc = append(coq, "SCap"), append(desc, "Cap()")
			steps = append(steps, func(c gotypes.Component) gotypes.Component { return c.Cap() })
		case 3, 4:
			i := Pick(r, []int{-1, 0, 1, 3, 4})
			coq, desc = append(coq, fmt.Sprintf("(SIndex (%d))", i)), append(desc, fmt.Sprintf("Index(%d)", i))
			steps = append(steps, func(c gotypes.Component) gotypes.Component { return c.Index(i) })
		case 5, 6:
			f := Pick(r, []string{"a", "b", "f", "g", "h", "zz"})
			coq, desc = append(coq, fmt.Sprintf("(SField %s)", cStr(f))), append(desc, fmt.Sprintf("Field(%q)", f))
			steps = append(steps, func(c gotypes.Component) gotypes.Component { return c.Field(f) })
		default:
			coq, desc = append(coq, "(SDeref 2048)"), append(desc, "Dereference(R8)")
			steps = append(steps, func(c gotypes.Component) gotypes.Component { return c.Dereference(reg.R8) })
		}
	}
	return bopGen{fmt.Sprintf("(BLoad (path_outcome %s %s))", pr.coq, cList(coq)), fmt.Sprintf("Load(Param(%q).%s, RCX)", pr.name, strings.Join(desc, ".")), func(c *build.Context) {
		comp := c.Param(pr.name)
		for _, st := range steps {
			comp = st(comp)
		}
		c.Load(comp, reg.RCX)
	}, "", 0}
}
