package main

import (
	"fmt"
	"strings"

	"github.com/mmcloughlin/avo/operand"
	"github.com/mmcloughlin/avo/reg"
)

// memHelperFile: chains of the memory-reference helpers of package operand (NewStackAddr, NewParamAddr,
// NewDataAddr, Mem.Offset, Mem.Idx), run for real, against the declarative reading of the chain
// (Model/MemOps.v: mem_spec, proved equal to the step-by-step model).  `starts` are extra references
// to start chains from (C16: the regions AllocLocal returned).
func memHelperFile(o *Out, rng *RNG, n int, starts []operand.Mem, file string) {
	gp := []reg.Register{reg.RAX, reg.RCX, reg.RDX, reg.RBX, reg.RSI, reg.RDI, reg.R8, reg.R9, reg.R13, reg.R15}
	vec := []reg.Register{reg.X1, reg.X7, reg.Y3, reg.Z9}
	offs := []int{0, 1, 8, 16, -8, -1, 24, 127, 128, -128, -129, 4096, 1 << 20, -(1 << 20), 0x7fffffff}
	var rows []string
	kinds := map[string]int{}
	for j := 0; j < n; j++ {
		var m operand.Mem
		var ct, desc string
		k := rng.Intn(4)
		if len(starts) > 0 && j < 3*len(starts) {
			k = 4
		}
		switch k {
		case 0:
			off := Pick(rng, offs)
			m, ct, desc = operand.NewStackAddr(off), fmt.Sprintf("(MStack %s)", cZ(int64(off))), fmt.Sprintf("NewStackAddr(%d)", off)
		case 1:
			off := Pick(rng, offs)
			name := Pick(rng, []string{"x", "buf_base", "ret1"})
			m, ct, desc = operand.NewParamAddr(name, off), fmt.Sprintf("(MParam %s %s)", cStr(name), cZ(int64(off))), fmt.Sprintf("NewParamAddr(%q,%d)", name, off)
		case 2:
			off := Pick(rng, offs)
			sym := operand.Symbol{Name: Pick(rng, []string{"tbl", "consts", "runtime·x"}), Static: rng.Bool()}
			m, ct, desc = operand.NewDataAddr(sym, off), fmt.Sprintf("(MData %s %s %s)", cStr(sym.Name), cBool(sym.Static), cZ(int64(off))), fmt.Sprintf("NewDataAddr(%v,%d)", sym, off)
		case 3:
			lit := operand.Mem{Base: Pick(rng, gp), Disp: Pick(rng, offs)}
			if rng.Bool() {
				lit.Index, lit.Scale = Pick(rng, gp), Pick(rng, []uint8{1, 2, 4, 8})
			}
			m, ct, desc = lit, "(MLit "+cOperand(lit)+")", "Mem{"+lit.Asm()+"}"
		default:
			lit := starts[j%len(starts)]
			m, ct, desc = lit, "(MLit "+cOperand(lit)+")", "local "+lit.Asm()
		}
		kinds[strings.SplitN(desc, "(", 2)[0]]++
		var ops []string
		nops := rng.Intn(5)
		for a := 0; a < nops; a++ {
			if rng.Bool() {
				d := Pick(rng, offs)
				m = m.Offset(d)
				ops = append(ops, fmt.Sprintf("MOffset %s", cZ(int64(d))))
				desc += fmt.Sprintf(".Offset(%d)", d)
				kinds["Offset"]++
			} else {
				var r reg.Register = Pick(rng, gp)
				if rng.Chance(15) {
					r = Pick(rng, vec)
				}
				s := Pick(rng, []uint8{1, 2, 4, 8})
				m = m.Idx(r, s)
				ops = append(ops, fmt.Sprintf("MIdx %s %d", cReg(r), s))
				desc += fmt.Sprintf(".Idx(%s,%d)", r.Asm(), s)
				kinds["Idx"]++
			}
		}
		rows = append(rows, fmt.Sprintf("(%s, %s, %s)", ct, cList(ops), cOperand(m)))
		o.Plan.Cases = append(o.Plan.Cases, Case{Index: 7000000 + j, Key: "memhelper:" + strings.SplitN(desc, "(", 2)[0], Desc: desc + " = " + m.Asm(), Input: map[string]any{"chain": desc}, Nontrivial: nops >= 2})
	}
	var b strings.Builder
	b.WriteString("From Avo Require Import Base.Prelude Model.IR Model.Obs Model.MemOps.\nOpen Scope N_scope.\nNotation R := Build_reg.\n")
	fmt.Fprintf(&b, "Definition cases : list (mem_ctor * list mem_op * operand) := %s.\n", cListNL(rows))
	fmt.Fprintf(&b, "Definition R_memhelper_violation := Eval vm_compute in List.map (N.add 7000000) (indices_where_ (fun c => negb (memops_ok %s %s %s c)) cases).\nPrint R_memhelper_violation.\n",
		cReg(reg.StackPointer), cReg(reg.FramePointer), cReg(reg.StaticBase))
	o.WriteFile(file, b.String())
	o.Stage(file)
	o.ExpectEmpty(file, "R_memhelper_violation", "violation", "a memory reference built by NewStackAddr/NewParamAddr/NewDataAddr/Offset/Idx is not the reference the chain of calls describes (base, symbol, summed displacement, last index and scale)")
	o.Plan.Stats["memhelper_chains"] = n
	o.Plan.Stats["memhelper_calls"] = kinds
}
