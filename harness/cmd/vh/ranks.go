package main

import (
	"fmt"
	"sort"
	"strings"

	"github.com/mmcloughlin/avo/ir"
	"github.com/mmcloughlin/avo/operand"
	"github.com/mmcloughlin/avo/reg"
)

// Rank certificates for the exactness of live sets on large functions (Model/Cert.v supported_b,
// Proofs/LiveCert.v).  Everything here works on the data that is also written into the Coq file
// (the instructions' input/output operand lists, the successor lists, the live sets), with its own
// reading of which registers an operand mentions; a mistake here can only make Coq refuse a certificate.

func certOpRegs(op operand.Op) []reg.Register {
	switch o := op.(type) {
	case reg.Register:
		return []reg.Register{o}
	case operand.Mem:
		var rs []reg.Register
		if o.Base != nil {
			rs = append(rs, o.Base)
		}
		if o.Index != nil {
			rs = append(rs, o.Index)
		}
		return rs
	}
	return nil
}

// certUseDef mirrors IR.input_registers_with false / IR.output_registers; ok=false where the model gives no program
func certUseDef(i *ir.Instruction) (use, def map[uint64]uint64, ok bool) {
	var rs []reg.Register
	for _, op := range i.Inputs {
		rs = append(rs, certOpRegs(op)...)
	}
	var memouts []reg.Register
	for _, op := range i.Outputs {
		if _, isM := op.(operand.Mem); isM {
			memouts = append(memouts, certOpRegs(op)...)
		}
	}
	if i.CancellingInputs {
		if len(rs) < 2 {
			return nil, nil, false
		}
		if rs[0].ID() == rs[1].ID() && rs[0].Mask() == rs[1].Mask() && regTag(rs[0]) == regTag(rs[1]) {
			rs = rs[2:]
		}
	}
	use, def = map[uint64]uint64{}, map[uint64]uint64{}
	for _, r := range append(append([]reg.Register{}, rs...), memouts...) {
		use[uint64(r.ID())] |= uint64(r.Mask())
	}
	for _, op := range i.Outputs {
		if r, isR := op.(reg.Register); isR {
			def[uint64(r.ID())] |= uint64(r.Mask())
		}
	}
	return use, def, true
}

// rankCertificate: per instruction the list of (id, bit, rank) for every bit of its live-in set from which a
// read is reachable without an intervening write; the rank is the length of a shortest such path.
func rankCertificate(nodes []ir.Node, succs [][]int, liveIn [][][2]uint64) (string, bool) {
	var is []*ir.Instruction
	for _, n := range nodes {
		if i, ok := n.(*ir.Instruction); ok {
			is = append(is, i)
		}
	}
	if len(is) != len(succs) || len(is) != len(liveIn) {
		return "", false
	}
	uses := make([]map[uint64]uint64, len(is))
	defs := make([]map[uint64]uint64, len(is))
	for j, i := range is {
		var ok bool
		if uses[j], defs[j], ok = certUseDef(i); !ok {
			return "", false
		}
	}
	preds := make([][]int, len(is))
	for j, ss := range succs {
		for _, s := range ss {
			if s >= 0 && s < len(is) {
				preds[s] = append(preds[s], j)
			}
		}
	}
	type bit struct{ id, k uint64 }
	bits := map[bit]bool{}
	for _, l := range liveIn {
		for _, e := range l {
			for k := uint64(0); k < 64; k++ {
				if e[1]>>k&1 == 1 {
					bits[bit{e[0], k}] = true
				}
			}
		}
	}
	liveAt := func(j int, b bit) bool {
		for _, e := range liveIn[j] {
			if e[0] == b.id && e[1]>>b.k&1 == 1 {
				return true
			}
		}
		return false
	}
	out := make([][]string, len(is))
	for b := range bits {
		rank := make([]int, len(is))
		for j := range rank {
			rank[j] = -1
		}
		var queue []int
		for j := range is {
			if uses[j][b.id]>>b.k&1 == 1 {
				rank[j] = 0
				queue = append(queue, j)
			}
		}
		for len(queue) > 0 {
			j := queue[0]
			queue = queue[1:]
			for _, i := range preds[j] {
				if rank[i] < 0 && defs[i][b.id]>>b.k&1 == 0 && liveAt(i, b) && liveAt(j, b) {
					rank[i] = rank[j] + 1
					queue = append(queue, i)
				}
			}
		}
		for j := range is {
			if rank[j] >= 0 && liveAt(j, b) {
				out[j] = append(out[j], fmt.Sprintf("(%d, %d, %d)", b.id, b.k, rank[j]))
			}
		}
	}
	rows := make([]string, len(is))
	for j := range out {
		sort.Strings(out[j]) // map order above: keep the file deterministic
		rows[j] = "[" + strings.Join(out[j], "; ") + "]"
	}
	return cListNL(rows), true
}
