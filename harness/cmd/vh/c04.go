package main

import (
	"fmt"
	"strings"
)

func init() { props["C04"] = c04 }

func c04(c *Ctx) {
	o := c.Out
	d := dumpForms(c.Repo)
	o.WriteFile("Tab.v", formsTab(c, d))
	o.Stage("Tab.v")
	o.Oblig("Tab.pass_order_ok", "Tab.info_constants_ok")
	// all 12025 rows, sharded
	n := len(d.Forms)
	shard := 800
	var files []string
	for s := 0; s*shard < n; s++ {
		hi := (s + 1) * shard
		if hi > n {
			hi = n
		}
		var rows []string
		for k := s * shard; k < hi; k++ {
			rows = append(rows, d.formCoq(d.Forms[k]))
			var tys []string
			for _, op := range d.Forms[k].Operands {
				tys = append(tys, strings.ToLower(d.typeName(op)))
			}
			o.AddCase(Case{Key: "form-row:" + d.Forms[k].Opcode, Desc: fmt.Sprintf("row %d: %s %s (class %s)", k, d.Forms[k].Opcode, strings.Join(tys, " "), d.ClassNames[d.Forms[k].SuffixClass]), Input: map[string]any{"row": k, "opcode": d.Forms[k].Opcode, "operands": tys}, Nontrivial: true})
		}
		name := fmt.Sprintf("Rows%02d.v", s)
		var b strings.Builder
		b.WriteString(formsHeader)
		fmt.Fprintf(&b, "Definition rows : list form := %s.\n", cListNL(rows))
		fmt.Fprintf(&b, "Definition R_io_violation := Eval vm_compute in List.map (N.add %d) (idx_where (fun f => negb (form_io_ok f)) rows).\nPrint R_io_violation.\n", s*shard)
		fmt.Fprintf(&b, "Definition R_mask_violation := Eval vm_compute in List.map (N.add %d) (idx_where (fun f => negb (merge_mask_ok f)) rows).\nPrint R_mask_violation.\n", s*shard)
		fmt.Fprintf(&b, "Definition R_implicit_violation := Eval vm_compute in List.map (N.add %d) (idx_where (fun f => negb (implicit_ok f && gather_mask_ok f)) rows).\nPrint R_implicit_violation.\n", s*shard)
		fmt.Fprintf(&b, "Definition R_wf_violation := Eval vm_compute in List.map (N.add %d) (idx_where (fun f => negb (form_wf suffix_sets_tab f)) rows).\nPrint R_wf_violation.\n", s*shard)
		b.WriteString("Lemma rows_io_ok : forallb (fun f => form_io_ok f && merge_mask_ok f && form_wf suffix_sets_tab f) rows = true.\nProof. vm_compute. reflexivity. Qed.\nPrint Assumptions rows_io_ok.\n")
		o.WriteFile(name, b.String())
		files = append(files, name)
		o.ExpectEmptyK(name, "R_io_violation", "violation", "a form declares a write to an immediate/relative operand, a zeroing-masked form does not declare a write-only destination, or a self-cancelling form does not start with two register inputs of one type", "io")
		o.ExpectEmptyK(name, "R_mask_violation", "violation", "a merge-masked form does not declare its destination as read, or does not declare the mask as read", "mask")
		o.ExpectEmptyK(name, "R_implicit_violation", "violation", "a form does not declare a register the opcode reads or writes implicitly (ISA fragment Model/IsaImplicit.v), or a gather/scatter does not declare its completion mask as written", "implicit")
		o.ExpectEmptyK(name, "R_wf_violation", "violation", "a form row is not well-formed", "wf")
		o.Oblig(strings.TrimSuffix(name, ".v") + ".rows_io_ok")
	}
	o.Stage(files...)
	o.Plan.Rule = "all rows of the form table (x86/zoptab.go dumped through the verif overlay), exhaustively; a sample of rows is written out as cases"
	o.Plan.Stats["forms"] = n
	o.Plan.Stats["exhaustive_values"] = true
}
