package main

import (
	"fmt"
	"sort"
	"strings"

	"github.com/mmcloughlin/avo/ir"
	"github.com/mmcloughlin/avo/operand"
	"github.com/mmcloughlin/avo/pass"
	"github.com/mmcloughlin/avo/reg"
	"github.com/mmcloughlin/avo/x86"
)

func init() { props["C04"] = c04 }

func c04(c *Ctx) {
	o := c.Out
	d := dumpForms(c.Repo)
	o.WriteFile("Tab.v", formsTab(c, d))
	o.Stage("Tab.v")
	o.Oblig("Tab.info_constants_ok")
	// all 12025 rows, sharded
	n := len(d.Forms)
	shard := 800
	var files []string
	for s := 0; s*shard < n; s++ {
		hi := (s + 1) * shard
		if hi > n {
			hi = n
		}
		var rows []string
		for k := s * shard; k < hi; k++ {
			rows = append(rows, d.formCoq(d.Forms[k]))
			var tys []string
			for _, op := range d.Forms[k].Operands {
				tys = append(tys, strings.ToLower(d.typeName(op)))
			}
			o.AddCase(Case{Key: "form-row:" + d.Forms[k].Opcode, Desc: fmt.Sprintf("row %d: %s %s (class %s)", k, d.Forms[k].Opcode, strings.Join(tys, " "), d.ClassNames[d.Forms[k].SuffixClass]), Input: map[string]any{"row": k, "opcode": d.Forms[k].Opcode, "operands": tys}, Nontrivial: true})
		}
		name := fmt.Sprintf("Rows%02d.v", s)
		var b strings.Builder
		b.WriteString(formsHeader)
		fmt.Fprintf(&b, "Definition rows : list form := %s.\n", cListNL(rows))
		fmt.Fprintf(&b, "Definition R_io_violation := Eval vm_compute in List.map (N.add %d) (idx_where (fun f => negb (form_io_ok f)) rows).\nPrint R_io_violation.\n", s*shard)
		fmt.Fprintf(&b, "Definition R_mask_violation := Eval vm_compute in List.map (N.add %d) (idx_where (fun f => negb (merge_mask_ok f)) rows).\nPrint R_mask_violation.\n", s*shard)
		fmt.Fprintf(&b, "Definition R_implicit_violation := Eval vm_compute in List.map (N.add %d) (idx_where (fun f => negb (implicit_ok f && gather_mask_ok f)) rows).\nPrint R_implicit_violation.\n", s*shard)
		fmt.Fprintf(&b, "Definition R_wf_violation := Eval vm_compute in List.map (N.add %d) (idx_where (fun f => negb (form_wf suffix_sets_tab f)) rows).\nPrint R_wf_violation.\n", s*shard)
		b.WriteString("Lemma rows_io_ok : forallb (fun f => form_io_ok f && merge_mask_ok f && form_wf suffix_sets_tab f) rows = true.\nProof. vm_compute. reflexivity. Qed.\nPrint Assumptions rows_io_ok.\n")
		o.WriteFile(name, b.String())
		files = append(files, name)
		o.ExpectEmptyK(name, "R_io_violation", "violation", "a form declares a write to an immediate/relative operand, a zeroing-masked form does not declare a write-only destination, or a self-cancelling form does not start with two register inputs of one type", "io")
		o.ExpectEmptyK(name, "R_mask_violation", "violation", "a merge-masked form does not declare its destination as read, or does not declare the mask as read", "mask")
		o.ExpectEmptyK(name, "R_implicit_violation", "violation", "a form does not declare a register the opcode reads or writes implicitly (ISA fragment Model/IsaImplicit.v), or a gather/scatter does not declare its completion mask as written", "implicit")
		o.ExpectEmptyK(name, "R_wf_violation", "violation", "a form row is not well-formed", "wf")
		o.Oblig(strings.TrimSuffix(name, ".v") + ".rows_io_ok")
	}
	// reported reads/writes of built instructions: self-cancelling forms with equal, aliased and
	// distinct registers; masked forms; memory outputs
	rng := NewRNG(c.Seed + 400)
	ctors := readCtors(c.Repo)
	opcIndexOf := map[string]int{}
	for k, v := range d.OpcName {
		opcIndexOf[v] = k
	}
	var names []string
	for n := range ctors {
		names = append(names, n)
	}
	sort.Strings(names)
	cancelOpc := map[string]bool{}
	for _, fm := range d.Forms {
		if fm.Features&8 != 0 {
			cancelOpc[fm.Opcode] = true
		}
	}
	var ioRows []string
	ioBase := len(o.Plan.Cases)
	addIO := func(i *ir.Instruction) {
		ins := "None"
		var outs []reg.Register
		func() {
			defer func() { recover() }()
			rs := i.InputRegisters()
			var ss []string
			for _, r := range rs {
				ss = append(ss, cReg(r))
			}
			ins = "(Some " + cList(ss) + ")"
		}()
		outs = i.OutputRegisters()
		var os []string
		for _, r := range outs {
			os = append(os, cReg(r))
		}
		ioRows = append(ioRows, fmt.Sprintf("(%s, %s, %s)", cInstr(i), ins, cList(os)))
		o.AddCase(Case{Key: "reads-writes:" + i.Opcode, Desc: instrLine(i) + " reads " + ins, Input: map[string]any{"instruction": instrLine(i)}, Nontrivial: len(i.Operands) > 0})
	}
	for k, name := range names {
		ci := ctors[name]
		vsib := false // vector-indexed memory operands (gathers, scatters): address registers of a different kind
		for _, df := range ci.Doc {
			for _, tn := range df[1:] {
				if strings.HasPrefix(strings.ToUpper(tn), "VM") {
					vsib = true
				}
			}
		}
		if !cancelOpc[ci.Opcode] && !vsib && k%6 != int(c.Seed)%6 && !c.Thorough() {
			continue
		}
		coll := reg.NewCollection()
		for _, df := range ci.Doc {
			var ops []operand.Op
			okf := true
			for _, tn := range df[1:] {
				ss := samplesFor(strings.ToUpper(tn), rng, coll)
				if len(ss) == 0 {
					okf = false
					break
				}
				ops = append(ops, Pick(rng, ss))
			}
			if !okf {
				continue
			}
			variants := [][]operand.Op{ops}
			if cancelOpc[ci.Opcode] && len(ops) >= 2 {
				if r0, ok := ops[0].(reg.Register); ok {
					same := append([]operand.Op{r0, r0}, ops[2:]...)
					variants = append(variants, same)
					if g, ok := r0.(reg.GP); ok && r0.Size() == 1 {
						if v := reg.ToVirtual(r0); v != nil {
							variants = append(variants, append([]operand.Op{g.As8L(), g.As8H()}, ops[2:]...))
						}
						variants = append(variants, append([]operand.Op{reg.AL, reg.AH}, ops[2:]...), append([]operand.Op{reg.BH, reg.BL}, ops[2:]...))
					}
				}
			}
			for _, v := range variants {
				if i, err, _ := x86.VerifBuild(opcIndexOf[ci.Opcode], ci.Suffixes, v); err == nil && i != nil {
					addIO(i)
				}
			}
		}
	}
	{
		var b strings.Builder
		b.WriteString(formsHeader)
		fmt.Fprintf(&b, "Definition iocases : list io_case := %s.\n", cListNL(ioRows))
		fmt.Fprintf(&b, "Definition R_io_mismatch := Eval vm_compute in List.map (N.add %d) (idx_where (fun c => negb (io_agree c)) iocases).\nPrint R_io_mismatch.\n", ioBase)
		fmt.Fprintf(&b, "Definition R_reads_violation := Eval vm_compute in List.map (N.add %d) (idx_where (fun c => negb (io_impl_ok c)) iocases).\nPrint R_reads_violation.\n", ioBase)
		o.WriteFile("IO.v", b.String())
		files = append(files, "IO.v")
		o.ExpectEmpty("IO.v", "R_io_mismatch", "mismatch", "model of InputRegisters/OutputRegisters vs the implementation on built instructions")
		o.ExpectEmptyK("IO.v", "R_reads_violation", "violation", "an instruction does not report a register of an input operand (or an address register of a memory output) as read, or a register output as written", "reads")
	}
	o.Plan.Stats["reads_writes_instances"] = len(ioRows)
	zeroExtendSweep(c)
	heldRegisterLists(c)
	declaredActionsCheck(c, "actions", true) // implicit operands of built instances against the table as dumped at the start, each after refused requests for its opcode
	c04hw(c, d, ctors, names, opcIndexOf)
	o.Stage(files...)
	o.Plan.Rule = "all rows of the form table (x86/zoptab.go dumped through the verif overlay), exhaustively; a sample of rows is written out as cases"
	o.Plan.Stats["forms"] = n
	o.Plan.Stats["exhaustive_values"] = true
}

// zeroExtendSweep: the pass that turns a declared 32-bit general-purpose write into a write of the whole
// 64-bit register ("32-bit writes count as 64-bit"), over many more distinct registers than a small function
// has, each visited more than once: the output must be the 64-bit view of the very same register.
func zeroExtendSweep(c *Ctx) {
	o := c.Out
	coll := reg.NewCollection()
	var regs []reg.GP
	for j := 0; j < 150; j++ {
		regs = append(regs, coll.GP64())
	}
	regs = append(regs, reg.RAX, reg.RCX, reg.R8, reg.R15, reg.RBP, reg.RSI)
	bad := 0
	for round := 0; round < 3; round++ {
		for j, r := range regs {
			i, err := x86.MOVL(operand.U32(uint32(j)), r.As32())
			if err != nil {
				continue
			}
			if err := pass.ZeroExtend32BitOutputs(i); err != nil {
				continue
			}
			okOut := len(i.Outputs) == 1
			if okOut {
				out, isR := i.Outputs[0].(reg.Register)
				okOut = isR && out.ID() == r.As64().ID() && out.Size() == 8
			}
			if !okOut && bad < 5 {
				bad++
				o.Plan.GoViolations = append(o.Plan.GoViolations, GoViolation{Key: "zeroextend:wrong-register", Desc: fmt.Sprintf("after ZeroExtend32BitOutputs, `MOVL $%d, %s` (register %d of 156, visit %d) declares the outputs %v instead of the 64-bit view of its own destination", j, r.As32().Asm(), j, round+1, i.Outputs), Replay: map[string]any{"register_number": j, "visit": round + 1}})
			}
		}
	}
	o.AddCase(Case{Key: "zeroextend:sweep", Desc: "ZeroExtend32BitOutputs over 156 distinct 32-bit destinations, three visits each", Input: map[string]any{"registers": len(regs)}, Nontrivial: true})
}

// heldRegisterLists: the read and write sets of several instructions, held at once and extended by the caller
// (a pass that adds the stack pointer to the writes of PUSH/POP, say): what InputRegisters/OutputRegisters
// returned for one instruction is a value of its own, appending to it cannot change another one's.
func heldRegisterLists(c *Ctx) {
	o := c.Out
	var is []*ir.Instruction
	add := func(i *ir.Instruction, err error) {
		if err == nil {
			is = append(is, i)
		}
	}
	coll := reg.NewCollection()
	for k := 0; k < 40; k++ {
		a, b := coll.GP64(), coll.GP64()
		add(x86.POPQ(reg.RAX))
		add(x86.MOVQ(reg.RAX, reg.R12))
		add(x86.MOVQ(a, b))
		add(x86.ADDQ(a, b))
		add(x86.MULQ(b))
		add(x86.XCHGQ(a, b))
		add(x86.MOVQ(b, operand.Mem{Base: a}))
		add(x86.VPADDD(coll.XMM(), coll.XMM(), coll.XMM()))
	}
	text := func(rs []reg.Register) string {
		var xs []string
		for _, r := range rs {
			xs = append(xs, fmt.Sprintf("%s/%d", r.Asm(), r.Size()))
		}
		return strings.Join(xs, " ")
	}
	for pass, get := range []func(*ir.Instruction) []reg.Register{(*ir.Instruction).OutputRegisters, (*ir.Instruction).InputRegisters} {
		what := []string{"OutputRegisters", "InputRegisters"}[pass]
		held := make([][]reg.Register, len(is))
		snap := make([]string, len(is))
		for j, i := range is {
			held[j] = get(i)
			snap[j] = text(held[j])
		}
		for j := range held {
			held[j] = append(held[j], reg.RSP) // the caller extends its own copy
		}
		bad := 0
		for j, i := range is {
			n := len(held[j]) - 1
			if got := text(held[j][:n]); (got != snap[j] || text(get(i)) != snap[j]) && bad < 3 {
				bad++
				o.Plan.GoViolations = append(o.Plan.GoViolations, GoViolation{Key: "registers:held-list-changed", Desc: fmt.Sprintf("%s of instruction %d (`%s`) was [%s]; after the caller appended a register to the lists it holds for the other instructions the held list reads [%s] and a new call gives [%s]", what, j, instrLine(i), snap[j], got, text(get(i))), Replay: map[string]any{"instruction": instrLine(i), "position": j, "accessor": what}})
			}
		}
	}
	o.AddCase(Case{Key: "registers:held-lists", Desc: fmt.Sprintf("read and write sets of %d instructions held at once, each extended by the caller", len(is)), Input: map[string]any{"instructions": len(is)}, Nontrivial: true})
}
