package main

import (
	"fmt"
	"github.com/mmcloughlin/avo/build"
	"github.com/mmcloughlin/avo/operand"
	"github.com/mmcloughlin/avo/x86"
	"go/ast"
	"go/parser"
	"go/token"
	"path/filepath"
	"sort"
	"strings"

	"github.com/mmcloughlin/avo/ir"
	"github.com/mmcloughlin/avo/pass"
	"github.com/mmcloughlin/avo/reg"
)

func init() { props["C09"] = c09 }

// translatePassOrder reads `var Compile = Concat(...)` in pass/pass.go syntactically.
func translatePassOrder(repo string) []string {
	fset := token.NewFileSet()
	f, err := parser.ParseFile(fset, filepath.Join(repo, "pass", "pass.go"), nil, 0)
	if err != nil {
		die(err)
	}
	var out []string
	ast.Inspect(f, func(n ast.Node) bool {
		vs, ok := n.(*ast.ValueSpec)
		if !ok || len(vs.Names) != 1 || vs.Names[0].Name != "Compile" || len(vs.Values) != 1 {
			return true
		}
		call, ok := vs.Values[0].(*ast.CallExpr)
		if !ok {
			return true
		}
		for _, a := range call.Args {
			switch x := a.(type) {
			case *ast.Ident:
				out = append(out, x.Name)
			case *ast.CallExpr:
				if len(x.Args) == 1 {
					if id, ok := x.Args[0].(*ast.Ident); ok {
						out = append(out, id.Name)
						continue
					}
				}
				out = append(out, "?")
			default:
				out = append(out, "?")
			}
		}
		return false
	})
	return out
}

func commonTab(c *Ctx) string {
	return "From Avo Require Import Base.Prelude.\nFrom stdpp Require Import gmap.\nFrom Avo Require Import Base.MaskSet Model.IR Model.RegFile Model.Pipeline.\nOpen Scope N_scope.\n" +
		"(* reg/x86.go register families as registered at run time; pass order from pass/pass.go *)\n" +
		regTableCoq() +
		"Lemma info_constants_ok : info_restricted = InfoRestricted /\\ info_basepointer = InfoBasePointer.\nProof. split; reflexivity. Qed.\nPrint Assumptions info_constants_ok.\n"
}

// orderFile is the pass order of pass.Compile as read from pass/pass.go, compared with the order the
// staged model runs; kept apart from Tab.v so that the case files still run (and find a concrete
// failing program) when the order changes
func orderFile(c *Ctx) string {
	return "From Avo Require Import Base.Prelude Model.Pipeline.\n" +
		"Definition pass_order : list string := " + cStrs(translatePassOrder(c.Repo)) + ".\n" +
		"Lemma pass_order_ok : pass_order = modelled_pass_order.\nProof. reflexivity. Qed.\nPrint Assumptions pass_order_ok.\n"
}

// opcodeSweep: one small program per instruction constructor (built by the real constructor, so with the
// real terminal/branch/conditional flags): the instruction, a filler, a label, RET.  A branch form
// takes the label as its target.  This makes the CFG rule "falls through unless it is a return or an
// unconditional jump" face every opcode, not only the ones the random generator happens to use.
func opcodeSweep(c *Ctx) []*Prog {
	ctors := readCtors(c.Repo)
	d := dumpForms(c.Repo)
	opcIndexOf := map[string]int{}
	for k, v := range d.OpcName {
		opcIndexOf[v] = k
	}
	var names []string
	for n := range ctors {
		names = append(names, n)
	}
	sort.Strings(names)
	rng := NewRNG(c.Seed + 909)
	var out []*Prog
	for _, name := range names {
		ci := ctors[name]
		for _, df := range ci.Doc {
			var ops []operand.Op
			okf := true
			for _, tn := range df[1:] {
				t := strings.ToUpper(tn)
				if t == "REL8" || t == "REL32" {
					ops = append(ops, operand.LabelRef("t"))
					continue
				}
				op, ok := hwSample(t, rng, 16)
				if !ok {
					okf = false
					break
				}
				ops = append(ops, op)
			}
			if !okf {
				continue
			}
			i, err, _ := x86.VerifBuild(opcIndexOf[ci.Opcode], ci.Suffixes, ops)
			if err != nil || i == nil {
				continue
			}
			p := &Prog{Desc: "opcode sweep " + name, Tags: map[string]bool{"opcode-sweep": true}}
			p.Nodes = []ir.Node{i, &ir.Instruction{Opcode: "NOP"}, ir.Label("t"), &ir.Instruction{Opcode: "RET", IsTerminal: true}}
			out = append(out, p)
			break
		}
	}
	return out
}

type cfgOutcome struct {
	Err   int
	Succs [][]int
	Preds [][]int
}

func runCFG(p *Prog) (o cfgOutcome) {
	fn := p.Function()
	defer func() {
		if v := recover(); v != nil {
			o = cfgOutcome{Err: panicCode(v)}
		}
	}()
	// the function is inspected (as an earlier pass would) and then some instructions are replaced in place by
	// equal copies (as a rewriting pass would): the graph must be built over the nodes the function has NOW
	_ = fn.Instructions()
	_ = fn.Labels()
	for k, nd := range fn.Nodes {
		if i, ok := nd.(*ir.Instruction); ok && (k*7+len(fn.Nodes))%3 == 0 {
			fn.Nodes[k] = cloneInstr(i)
		}
	}
	if err := pass.LabelTarget(fn); err != nil {
		return cfgOutcome{Err: errCode(err)}
	}
	if err := pass.CFG(fn); err != nil {
		return cfgOutcome{Err: errCode(err)}
	}
	// the instruction list is read from the nodes themselves, not through Function.Instructions()
	var is []*ir.Instruction
	for _, nd := range fn.Nodes {
		if i, ok := nd.(*ir.Instruction); ok {
			is = append(is, i)
		}
	}
	idx := map[*ir.Instruction]int{}
	for j, i := range is {
		idx[i] = j
	}
	for _, i := range is {
		for _, x := range append(append([]*ir.Instruction{}, i.Succ...), i.Pred...) {
			if _, ok := idx[x]; x != nil && !ok {
				return cfgOutcome{Err: 97} // an edge leads to an instruction that is not a node of the function
			}
		}
	}
	for _, i := range is {
		s, pr := []int{}, []int{}
		for _, x := range i.Succ {
			if x == nil {
				s = append(s, -1)
			} else {
				s = append(s, idx[x])
			}
		}
		for _, x := range i.Pred {
			pr = append(pr, idx[x])
		}
		o.Succs = append(o.Succs, s)
		o.Preds = append(o.Preds, pr)
	}
	return
}

// runCompileLive runs the real pass.Compile (whatever order it applies the passes in).  The graph itself
// is cleared at the end of Compile, but the live sets computed over it remain on the instructions; for
// a function without virtual registers and without register self-moves the nodes at the time of the CFG
// pass are the final nodes, so the live sets must satisfy LiveOut(i) = union LiveIn(succ(i)) for the
// successors the property demands (Model/CfgLive.v).
func runCompileLive(p *Prog) (final []ir.Node, lins, louts [][][2]uint64, ok bool, code int) {
	for _, nd := range p.Nodes {
		if i, isI := nd.(*ir.Instruction); isI {
			if len(i.Operands) == 2 && strings.HasPrefix(i.Opcode, "MOV") {
				if a, okA := i.Operands[0].(reg.Register); okA {
					if b, okB := i.Operands[1].(reg.Register); okB && a.ID() == b.ID() {
						return nil, nil, nil, false, 0
					}
				}
			}
		}
	}
	fn := p.Function()
	f := ir.NewFile()
	f.AddSection(fn)
	var before []*ir.Instruction
	for _, nd := range fn.Nodes {
		if i, isI := nd.(*ir.Instruction); isI {
			before = append(before, i)
		}
	}
	failed := false
	func() {
		defer func() {
			if recover() != nil {
				failed = true
			}
		}()
		if err := pass.Compile.Execute(f); err != nil {
			failed = true
			code = errCode(err)
		}
	}()
	if failed {
		return nil, nil, nil, false, code
	}
	// an instruction that disappeared and is not an unconditional branch was a self-move created by the
	// allocation and deleted after the CFG pass: the final nodes are then not the nodes the graph was built on
	kept := map[*ir.Instruction]bool{}
	for _, nd := range fn.Nodes {
		if i, isI := nd.(*ir.Instruction); isI {
			kept[i] = true
		}
	}
	for _, i := range before {
		if !kept[i] && !i.IsUnconditionalBranch() {
			return nil, nil, nil, false, 0
		}
	}
	for _, nd := range fn.Nodes {
		if i, isI := nd.(*ir.Instruction); isI {
			lins = append(lins, maskList(i.LiveIn))
			louts = append(louts, maskList(i.LiveOut))
		}
	}
	return snapshotNodes(fn), lins, louts, true, 0
}

// runCompileEditLive: compile with the real pass.Compile, then edit the compiled function (a write to a
// register that is live at that point is inserted in the middle) and compile it again: the graph the second
// run works on must be the graph of the edited function, with nothing left over from the first run.
func runCompileEditLive(p *Prog, r *RNG) (final []ir.Node, lins, louts [][][2]uint64, edit string, ok bool) {
	fn := p.Function()
	f := ir.NewFile()
	f.AddSection(fn)
	compile := func() (good bool) {
		defer func() {
			if recover() != nil {
				good = false
			}
		}()
		return pass.Compile.Execute(f) == nil
	}
	if !compile() {
		return nil, nil, nil, "", false
	}
	// candidate positions: an instruction (not the first) that reads a general-purpose register, which is therefore live before it
	type cand struct {
		node int
		r    reg.Register
	}
	var cands []cand
	seenInstr := 0
	for k, nd := range fn.Nodes {
		i, isI := nd.(*ir.Instruction)
		if !isI {
			continue
		}
		seenInstr++
		if seenInstr == 1 {
			continue
		}
		for _, op := range i.Inputs {
			if rg, isR := op.(reg.Register); isR && rg.ID().IsPhysical() && rg.Kind() == reg.KindGP {
				if pr := reg.LookupID(rg.ID(), reg.S64); pr != nil && pr.Info()&reg.Restricted == 0 {
					cands = append(cands, cand{k, pr})
				}
			}
		}
	}
	if len(cands) == 0 {
		return nil, nil, nil, "", false
	}
	c := cands[r.Intn(len(cands))]
	ins := &ir.Instruction{Opcode: "MOVQ", Operands: []operand.Op{operand.U32(7), c.r}, Inputs: nil, Outputs: []operand.Op{c.r}}
	fn.Nodes = append(fn.Nodes[:c.node:c.node], append([]ir.Node{ins}, fn.Nodes[c.node:]...)...)
	edit = fmt.Sprintf("after the first Compile, `MOVQ $7, %s` inserted before node %d", c.r.Asm(), c.node)
	if !compile() {
		return nil, nil, nil, edit, false
	}
	for _, nd := range fn.Nodes {
		if i, isI := nd.(*ir.Instruction); isI {
			lins = append(lins, maskList(i.LiveIn))
			louts = append(louts, maskList(i.LiveOut))
		}
	}
	return snapshotNodes(fn), lins, louts, edit, true
}

func (o cfgOutcome) Coq() string {
	if o.Err != 0 {
		return fmt.Sprintf("(CfgErr %d)", o.Err)
	}
	var su, pr []string
	for j := range o.Succs {
		su = append(su, cOptNats(o.Succs[j]))
		pr = append(pr, cNats(o.Preds[j]))
	}
	return "(CfgOK " + cList(su) + " " + cList(pr) + ")"
}

// directed CFG skeletons named by the property: consecutive labels, labels at start/end,
// self-loops, jumps into/out of loops, branch as last instruction, unreachable blocks
func cfgCorpus() []*Prog {
	r := NewRNG(77)
	g := &progGen{r: r, tags: map[string]bool{}}
	_ = g
	mk := func(desc string, build func(add func(ir.Node))) *Prog {
		p := &Prog{Desc: desc, Tags: map[string]bool{"corpus": true}}
		build(func(n ir.Node) { p.Nodes = append(p.Nodes, n) })
		return p
	}
	nop := func() ir.Node { return &ir.Instruction{Opcode: "NOP"} }
	br := func(op string, l string, cond bool) ir.Node {
		return &ir.Instruction{Opcode: op, Operands: opsLabel(l), IsBranch: true, IsConditional: cond}
	}
	ret := func() ir.Node { return &ir.Instruction{Opcode: "RET", IsTerminal: true} }
	return []*Prog{
		mk("duplicate label pending before the same instruction: a: a: NOP", func(add func(ir.Node)) { add(ir.Label("a")); add(ir.Label("a")); add(nop()); add(ret()) }),
		mk("duplicate label separated by an instruction", func(add func(ir.Node)) { add(ir.Label("a")); add(nop()); add(ir.Label("a")); add(ret()) }),
		mk("duplicate label separated by a comment only", func(add func(ir.Node)) {
			add(ir.Label("a"))
			add(ir.NewComment("x"))
			add(ir.Label("a"))
			add(nop())
		}),
		mk("consecutive labels", func(add func(ir.Node)) {
			add(br("JMP", "b", false))
			add(ir.Label("a"))
			add(ir.Label("b"))
			add(nop())
			add(br("JNE", "a", true))
			add(ret())
		}),
		mk("self loop", func(add func(ir.Node)) { add(ir.Label("a")); add(br("JMP", "a", false)) }),
		mk("conditional self loop, falls off the end", func(add func(ir.Node)) { add(ir.Label("a")); add(br("JNE", "a", true)) }),
		mk("branch last to earlier label", func(add func(ir.Node)) { add(nop()); add(ir.Label("a")); add(nop()); add(br("JE", "a", true)) }),
		mk("label at end", func(add func(ir.Node)) { add(nop()); add(br("JMP", "e", false)); add(ir.Label("e")) }),
		mk("label then only comment at end", func(add func(ir.Node)) { add(nop()); add(ir.Label("e")); add(ir.NewComment("x")) }),
		mk("undefined label", func(add func(ir.Node)) { add(br("JMP", "nowhere", false)); add(ret()) }),
		mk("branch with register target", func(add func(ir.Node)) {
			add(&ir.Instruction{Opcode: "JMP", Operands: opsReg(), IsBranch: true})
			add(ret())
		}),
		mk("branch without operands", func(add func(ir.Node)) { add(&ir.Instruction{Opcode: "JMP", IsBranch: true}); add(ret()) }),
		mk("unreachable block", func(add func(ir.Node)) {
			add(ret())
			add(nop())
			add(ir.Label("u"))
			add(nop())
			add(br("JMP", "u", false))
		}),
		mk("jump into and out of loop", func(add func(ir.Node)) {
			add(br("JMP", "mid", false))
			add(ir.Label("top"))
			add(nop())
			add(ir.Label("mid"))
			add(nop())
			add(br("JNE", "top", true))
			add(br("JE", "out", true))
			add(br("JMP", "top", false))
			add(ir.Label("out"))
			add(ret())
		}),
		mk("terminal conditional branch (both flags)", func(add func(ir.Node)) {
			add(ir.Label("a"))
			add(&ir.Instruction{Opcode: "X", Operands: opsLabel("a"), IsBranch: true, IsConditional: true, IsTerminal: true})
			add(nop())
		}),
		mk("referenced label sits on a jump to the following label", func(add func(ir.Node)) {
			add(nop())
			add(br("JNE", "x", true))
			add(nop())
			add(ir.Label("x"))
			add(br("JMP", "t", false))
			add(ir.Label("t"))
			add(nop())
			add(ret())
		}),
		mk("referenced label sits on a jump to the following label; a register is live only along that edge", func(add func(ir.Node)) {
			ins := func(i *ir.Instruction, err error) {
				if err != nil {
					die(err)
				}
				add(i)
			}
			ins(x86.MOVQ(operand.U32(42), reg.RAX))
			ins(x86.TESTQ(reg.RCX, reg.RCX))
			add(br("JNE", "x", true))
			ins(x86.MOVQ(operand.U32(1), reg.RAX))
			add(ir.Label("x"))
			add(br("JMP", "t", false))
			add(ir.Label("t"))
			ins(x86.ADDQ(reg.RAX, reg.RBX))
			add(ret())
		}),
		mk("chain of jumps to following labels, each label referenced from above", func(add func(ir.Node)) {
			add(br("JE", "a", true))
			add(br("JNE", "b", true))
			add(ir.Label("a"))
			add(br("JMP", "b", false))
			add(ir.Label("b"))
			add(br("JMP", "c", false))
			add(ir.Label("c"))
			add(ret())
		}),
		mk("two jumps to the following label in one function", func(add func(ir.Node)) {
			add(nop())
			add(br("JMP", "a", false))
			add(ir.Label("a"))
			add(nop())
			add(br("JNE", "done", true))
			add(nop())
			add(br("JMP", "done", false))
			add(ir.Label("done"))
			add(ret())
		}),
		mk("two unreferenced labels in one function", func(add func(ir.Node)) {
			add(ir.Label("u1"))
			add(nop())
			add(ir.Label("loop"))
			add(nop())
			add(ir.Label("u2"))
			add(nop())
			add(br("JNE", "loop", true))
			add(ret())
		}),
		mk("labels named like Go keywords", func(add func(ir.Node)) {
			add(nop())
			add(br("JNE", "return", true))
			add(nop())
			add(ir.Label("default"))
			add(nop())
			add(br("JMP", "default", false))
			add(ir.Label("return"))
			add(ret())
		}),
		mk("labels with a package-style name and digits", func(add func(ir.Node)) {
			add(ir.Label("loop_1"))
			add(nop())
			add(br("JNE", "loop_1", true))
			add(br("JMP", "x9", false))
			add(nop())
			add(ir.Label("x9"))
			add(ret())
		}),
		mk("empty function", func(add func(ir.Node)) {}),
		mk("only a label", func(add func(ir.Node)) { add(ir.Label("a")) }),
		mk("only comments", func(add func(ir.Node)) { add(ir.NewComment("a")) }),
	}
}

func c09(c *Ctx) {
	o := c.Out
	o.WriteFile("Tab.v", commonTab(c))
	o.Stage("Tab.v")
	o.Oblig("Tab.info_constants_ok")
	rng := NewRNG(c.Seed)
	n := 400
	if c.Thorough() {
		n = 6000
	}
	progs := cfgCorpus()
	progs = append(progs, largeProgs("loop with", "labels")...)
	sweep := opcodeSweep(c)
	progs = append(progs, sweep...)
	n += len(sweep)
	for len(progs) < n {
		mal := rng.Chance(25)
		p := genProg(rng, ProgOpts{MaxNodes: 4 + rng.Intn(40), Malformed: mal, Phys: true, Synth: true, NVirt: 6, Branches: true})
		progs = append(progs, p)
	}
	shard := 200
	var files []string
	errKinds := map[string]int{}
	tagCount := map[string]int{}
	for s := 0; s*shard < len(progs); s++ {
		var rows []string
		base := s * shard
		for j := base; j < base+shard && j < len(progs); j++ {
			p := progs[j]
			out := runCFG(p)
			rows = append(rows, "("+cNodes(p.Nodes)+", "+out.Coq()+")")
			ek := fmt.Sprintf("err%d", out.Err)
			errKinds[ek]++
			for t := range p.Tags {
				tagCount[t]++
			}
			desc := p.Desc
			if desc == "" {
				desc = p.Text()
			} else {
				desc += ": " + p.Text()
			}
			key := "cfg:" + ek + ":" + strings.Join(tagList(p.Tags), ",")
			if p.Desc != "" {
				key = "cfg:" + p.Desc
			}
			nb := 0
			for _, nd := range p.Nodes {
				if i, ok := nd.(*ir.Instruction); ok && i.IsBranch {
					nb++
				}
			}
			o.AddCase(Case{Key: key, Desc: desc, Input: map[string]any{"nodes": p.Text()}, Nontrivial: nb > 0 && len(p.Nodes) > 2})
		}
		name := fmt.Sprintf("Cases%02d.v", s)
		var b strings.Builder
		b.WriteString(progHeader)
		fmt.Fprintf(&b, "Definition cases : list (list node * cfg_outcome) := %s.\n", cListNL(rows))
		fmt.Fprintf(&b, "Definition R_mismatch := Eval vm_compute in List.map (N.add %d) (indices_where_ (fun c => negb (cfg_outcome_eqb (cfg_model (fst c)) (snd c))) cases).\nPrint R_mismatch.\n", base)
		fmt.Fprintf(&b, "Definition R_violation := Eval vm_compute in List.map (N.add %d) (indices_where_ (fun c => negb (cfg_spec_b (fst c) (snd c))) cases).\nPrint R_violation.\n", base)
		o.WriteFile(name, b.String())
		files = append(files, name)
		o.ExpectEmpty(name, "R_mismatch", "mismatch", "model label_target/cfg vs pass.LabelTarget+pass.CFG (successors, predecessors, error kind)")
		o.ExpectEmpty(name, "R_violation", "violation", "CFG property: successors/predecessors per the property text, error iff duplicate/undefined/trailing label or non-label branch")
	}
	// the same property on what the real pass.Compile leaves behind (the passes in ITS order)
	{
		var rows, errRows []string
		base := 1000000
		ne := 0
		nEdit := 0
		editRng := NewRNG(c.Seed + 909)
		for _, p := range progs {
			if p.Tags["opcode-sweep"] {
				continue
			}
			final, lins, louts, ok, code := runCompileLive(p)
			if !ok {
				if code >= 1 && code <= 5 { // refused with a label/branch error: the function as written must deserve it
					errRows = append(errRows, fmt.Sprintf("(%s, %d)", cNodes(p.Nodes), code))
					o.Plan.Cases = append(o.Plan.Cases, Case{Index: 2000000 + len(errRows) - 1, Key: "cfg-e2e-error:" + p.Desc, Desc: fmt.Sprintf("pass.Compile refuses with error %d: %s", code, p.Text()), Input: map[string]any{"nodes": p.Text()}, Nontrivial: true})
				}
				continue
			}
			ll := func(l [][][2]uint64) string {
				ss := make([]string, len(l))
				for i, e := range l {
					ss[i] = cPairs(e)
				}
				return cList(ss)
			}
			rows = append(rows, "("+cNodes(final)+", ("+ll(lins)+", "+ll(louts)+"))")
			o.Plan.Cases = append(o.Plan.Cases, Case{Index: base + ne, Key: "cfg-e2e:" + p.Desc, Desc: "pass.Compile, then the live sets of the compiled function against the successors the property demands: " + p.Text(), Input: map[string]any{"nodes": p.Text()}, Nontrivial: true})
			ne++
			if nEdit < 150 && !p.Tags["corpus-large"] {
				if final2, lins2, louts2, edit, ok2 := runCompileEditLive(p, editRng); ok2 {
					nEdit++
					rows = append(rows, "("+cNodes(final2)+", ("+ll(lins2)+", "+ll(louts2)+"))")
					o.Plan.Cases = append(o.Plan.Cases, Case{Index: base + ne, Key: "cfg-e2e-edit:" + p.Desc, Desc: "pass.Compile, an edit, pass.Compile again (" + edit + "), then the live sets against the successors the property demands: " + p.Text(), Input: map[string]any{"nodes": p.Text(), "edit": edit}, Nontrivial: true})
					ne++
				}
			}
		}
		var b strings.Builder
		b.WriteString(progHeader)
		b.WriteString("From Avo Require Import Model.CfgLive.\n")
		fmt.Fprintf(&b, "Definition cases : list cfg_live_case := %s.\n", cListNL(rows))
		fmt.Fprintf(&b, "Definition R_e2e_violation := Eval vm_compute in List.map (N.add %d) (indices_where_ (fun c => negb (e2e_cfg_live_ok c)) cases).\nPrint R_e2e_violation.\n", base)
		fmt.Fprintf(&b, "Definition errcases : list (list node * N) := %s.\n", cListNL(errRows))
		b.WriteString("Definition R_e2e_error_violation := Eval vm_compute in List.map (N.add 2000000) (indices_where_ (fun c => negb (cfg_should_fail (fst c))) errcases).\nPrint R_e2e_error_violation.\n")
		o.WriteFile("E2E.v", b.String())
		files = append(files, "E2E.v")
		o.ExpectEmpty("E2E.v", "R_e2e_violation", "violation", "after the real pass.Compile the live sets do not satisfy LiveOut(i) = union of LiveIn over the successors the property demands: the graph the pipeline used was not the graph of the function (stale label targets, edges to deleted instructions)")
		o.ExpectEmpty("E2E.v", "R_e2e_error_violation", "violation", "the real pass.Compile refuses, with a label or branch-target error, a function that has none of the four faults the property names")
		o.Plan.Stats["compiled_end_to_end"] = ne
		o.Plan.Stats["compiled_edited_and_compiled_again"] = nEdit
		o.Plan.Stats["refused_end_to_end_with_cfg_error"] = len(errRows)
	}
	multiFunctionFiles(o, progs, "cfg", 60)
	builderLabels(c)
	o.Stage(files...)
	o.Plan.Rule = "directed skeletons (duplicate/consecutive/trailing labels, self-loops, jumps into/out of loops, branch last, unreachable blocks, non-label branches) + random node sequences over {label, comment, real and synthetic instructions, conditional/unconditional branches, RET}, 25% from a malformed stream; non-trivial = at least one branch and more than two nodes; distinct by node text"
	o.Plan.Stats["programs"] = len(progs)
	o.Plan.Stats["outcome_kinds"] = errKinds
	o.Plan.Stats["features"] = tagCount
	o.Plan.Samples = []any{progs[0].Text(), progs[len(progs)/2].Text(), progs[len(progs)-1].Text()}
}

// builderLabels: the same rules seen from the builder, where a generator declares labels: a name declared
// twice in one function is refused by the time the function is compiled (never resolved silently to one of
// the two places); the same name in two functions of a file is fine; a reference to an undeclared name is refused.
func builderLabels(c *Ctx) {
	o := c.Out
	type tc struct {
		desc   string
		build  func(ctx *build.Context)
		refuse bool
	}
	loop := func(ctx *build.Context, name string) {
		r := ctx.GP64()
		ctx.MOVQ(operand.U32(4), r)
		ctx.Label(name)
		ctx.DECQ(r)
		ctx.JNE(operand.LabelRef(name))
	}
	fn := func(ctx *build.Context, n string) {
		ctx.Function(n)
		ctx.SignatureExpr("func()")
	}
	tcs := []tc{
		{"two loops in one function, both labelled loop", func(ctx *build.Context) { fn(ctx, "f"); loop(ctx, "loop"); loop(ctx, "loop"); ctx.RET() }, true},
		{"two loops labelled loop and loop2", func(ctx *build.Context) { fn(ctx, "f"); loop(ctx, "loop"); loop(ctx, "loop2"); ctx.RET() }, false},
		{"the label loop in each of two functions", func(ctx *build.Context) {
			fn(ctx, "f")
			loop(ctx, "loop")
			ctx.RET()
			fn(ctx, "g")
			loop(ctx, "loop")
			ctx.RET()
		}, false},
		{"a label declared twice in a row", func(ctx *build.Context) { fn(ctx, "f"); ctx.Label("a"); ctx.Label("a"); ctx.RET() }, true},
		{"a label declared again after the code that jumps to it", func(ctx *build.Context) {
			fn(ctx, "f")
			ctx.Label("top")
			ctx.NOP()
			ctx.JMP(operand.LabelRef("top"))
			ctx.Label("top")
			ctx.RET()
		}, true},
		{"a jump to a label that is never declared", func(ctx *build.Context) { fn(ctx, "f"); ctx.JMP(operand.LabelRef("nowhere")); ctx.RET() }, true},
		{"a label declared twice in the second function only", func(ctx *build.Context) {
			fn(ctx, "f")
			loop(ctx, "loop")
			ctx.RET()
			fn(ctx, "g")
			loop(ctx, "loop")
			loop(ctx, "loop")
			ctx.RET()
		}, true},
	}
	for _, t := range tcs {
		ctx := build.NewContext()
		t.build(ctx)
		idx := o.AddCase(Case{Key: "cfg:builder-labels", Desc: t.desc, Input: map[string]any{"program": t.desc}, Nontrivial: true})
		f, err := ctx.Result()
		if err == nil {
			func() {
				defer func() {
					if r := recover(); r != nil {
						err = fmt.Errorf("panic: %v", r)
					}
				}()
				err = pass.Compile.Execute(f)
			}()
		}
		if (err != nil) != t.refuse {
			nl := 0
			for _, fn := range f.Functions() {
				nl += len(fn.Labels())
			}
			o.Plan.GoViolations = append(o.Plan.GoViolations, GoViolation{Key: "cfg:builder-labels", Desc: fmt.Sprintf("case %d: %s: built and compiled with error %v (the file holds %d label nodes); it must be %s", idx, t.desc, err, nl, map[bool]string{true: "refused", false: "accepted"}[t.refuse]), Replay: map[string]any{"program": t.desc}})
		}
	}
}
